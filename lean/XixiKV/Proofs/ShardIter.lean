import XixiKV.Model.ShardIter
/-!
# Helper lemmas for C10 (sharded iterators)

1. `keyLt` / `before` is a strict total order on keys.
2. List facts (`dropWhile` / `filter` / `findIdx` on sorted lists).
3. The *remaining-list view* of a cursor: `Cur.rem c` is the part of the cursor's snapshot that is
   still ahead (head = current item).  Array cursors and the B-tree cursor satisfy the same laws
   under the call conditions `IndexIterator` guarantees (`Cur.rem_rewind/rem_seek/rem_next`).
4. The heap top (`popTop`), the simulation invariant (`Struct`, `Rel`, `settled`) between
   `IndexIterator` (+ a key filter `P`, the prefix) and the abstract remaining list, and its
   preservation by every call (§5–§8); traces, runs, full enumeration (§9–§10).
5. §11: a bisimulation showing that the index type (B-tree vs array cursors) is not observable by
   any call sequence.

The invariant (for a snapshot `A` in iteration order, shard function `sh`, filter `P`, abstract
remaining list `R` = suffix of `A.filter P`):
* `Struct`: the cursors (heap ++ parked) have pairwise distinct shard ids, cursor `c` has snapshot
  `A.filter (sh · = c.sid) ≠ []`, every item of `A` has its cursor, heap cursors are valid and parked
  ones are not;
* `Rel`: for every cursor `c`, heap or parked,  `(c.rem).filter P = R.filter (sh · = c.sid)`;
* `settled`: the heap is empty or its top key passes `P`.
`Rel` deliberately says nothing about items failing `P`: after a DB-level `Seek` below the prefix
range the cursors are *not* at a common frontier of the unfiltered snapshot (shards parked by
`skipToNext` are not re-sought) — the filtered view is still exact.
-/
namespace XixiKV.ShardIter
open XixiKV.Index

/-! ## 1. order facts -/

theorem ltList_irrefl (a : List UInt8) : ltList a a = false := by
  induction a with
  | nil => rfl
  | cons x xs ih => simp [ltList, ih]

theorem ltList_trans {a b c : List UInt8} :
    ltList a b = true → ltList b c = true → ltList a c = true := by
  induction a generalizing b c with
  | nil => cases b <;> cases c <;> simp [ltList]
  | cons x xs ih =>
    cases b with
    | nil => simp [ltList]
    | cons y ys =>
      cases c with
      | nil => simp [ltList]
      | cons z zs =>
        simp only [ltList]
        intro h1 h2
        split at h1
        · split at h2
          · have : x < z := UInt8.lt_trans ‹_› ‹_›
            simp [this]
          · split at h2
            · simp at h2
            · have : y = z := by grind
              subst this; simp [*]
        · split at h1
          · simp at h1
          · have : x = y := by grind
            subst this
            split at h2
            · simp [*]
            · split at h2
              · simp at h2
              · simp [*]; exact ih h1 h2

theorem ltList_total {a b : List UInt8} : ltList a b = false → ltList b a = false → a = b := by
  induction a generalizing b with
  | nil => cases b <;> simp [ltList]
  | cons x xs ih =>
    cases b with
    | nil => simp [ltList]
    | cons y ys =>
      simp only [ltList]
      intro h1 h2
      split at h1
      · simp at h1
      · split at h1
        · simp [*] at h2
        · have : x = y := by grind
          subst this
          simp at h2
          rw [ih h1 h2]

theorem keyLt_irrefl (a : Key) : keyLt a a = false := ltList_irrefl _

theorem keyLt_trans {a b c : Key} : keyLt a b = true → keyLt b c = true → keyLt a c = true :=
  ltList_trans

theorem keyLt_total {a b : Key} : keyLt a b = false → keyLt b a = false → a = b := by
  intro h1 h2
  have h := ltList_total h1 h2
  cases a; cases b
  simp only [ByteArray.mk.injEq]
  exact Array.toList_inj.mp h

theorem keyLt_asymm {a b : Key} : keyLt a b = true → keyLt b a = false := by
  intro h
  cases h' : keyLt b a
  · rfl
  · have := keyLt_trans h h'
    rw [keyLt_irrefl] at this
    cases this

theorem before_irrefl (rev : Bool) (a : Key) : before rev a a = false := by
  unfold before; split <;> exact keyLt_irrefl a

theorem before_trans {rev : Bool} {a b c : Key} :
    before rev a b = true → before rev b c = true → before rev a c = true := by
  unfold before; cases rev <;> simp only [if_true, if_false, Bool.false_eq_true]
  · exact keyLt_trans
  · exact fun h1 h2 => keyLt_trans h2 h1

theorem before_total {rev : Bool} {a b : Key} :
    before rev a b = false → before rev b a = false → a = b := by
  unfold before; cases rev <;> simp only [if_true, if_false, Bool.false_eq_true]
  · exact keyLt_total
  · exact fun h1 h2 => keyLt_total h2 h1

theorem before_asymm {rev : Bool} {a b : Key} : before rev a b = true → before rev b a = false := by
  intro h
  cases h' : before rev b a
  · rfl
  · have := before_trans h h'
    rw [before_irrefl] at this
    cases this

/-- negative transitivity -/
theorem before_cotrans {rev : Bool} {a c : Key} (b : Key) :
    before rev a c = true → before rev a b = true ∨ before rev b c = true := by
  intro h
  cases h1 : before rev a b
  · cases h2 : before rev b c
    · cases h3 : before rev b a
      · have := before_total h1 h3
        subst this
        rw [h] at h2; cases h2
      · have := before_trans h3 h
        rw [h2] at this; cases this
    · exact Or.inr rfl
  · exact Or.inl rfl

/-- `iterHeap.Less` is the strict iteration order on distinct keys -/
theorem less_eq_before {rev : Bool} {a b : Key} (h : a ≠ b) : less rev a b = before rev a b := by
  unfold less before
  have key : keyLt a b = !keyLt b a := by
    cases h1 : keyLt a b
    · cases h2 : keyLt b a
      · exact absurd (keyLt_total h1 h2) h
      · rfl
    · rw [keyLt_asymm h1]; rfl
  cases rev
  · simp
  · simp [key]

variable {V : Type}

/-! ## 2. list facts -/

/-- sorted in iteration order (hence duplicate free) -/
def Sorted (rev : Bool) (l : List (Key × V)) : Prop :=
  l.Pairwise (fun a b => before rev a.1 b.1 = true)

theorem Sorted.iterOrder {rev : Bool} {l : List (Key × V)} (h : Sorted false l) :
    Sorted rev (iterOrder rev l) := by
  unfold ShardIter.iterOrder
  cases rev
  · simpa using h
  · simp only [if_true]
    unfold Sorted at *
    rw [List.pairwise_reverse]
    simpa [before] using h

theorem Sorted.filter {rev : Bool} {l : List (Key × V)} (p : Key × V → Bool) (h : Sorted rev l) :
    Sorted rev (l.filter p) := List.Pairwise.filter p h

theorem Sorted.sublist {rev : Bool} {l l' : List (Key × V)} (hs : l'.Sublist l) (h : Sorted rev l) :
    Sorted rev l' := List.Pairwise.sublist hs h

theorem dropWhile_eq_self {α : Type} {p : α → Bool} {l : List α} (h : ∀ x ∈ l, p x = false) :
    l.dropWhile p = l := by
  cases l with
  | nil => rfl
  | cons x xs => simp [h x (by simp)]

theorem dropWhile_eq_nil {α : Type} {p : α → Bool} {l : List α} (h : ∀ x ∈ l, p x = true) :
    l.dropWhile p = [] := by
  induction l with
  | nil => rfl
  | cons x xs ih =>
    simp only [List.dropWhile_cons, h x (by simp), if_true]
    exact ih (fun y hy => h y (by simp [hy]))

theorem drop_findIdx {α : Type} (q : α → Bool) (l : List α) :
    l.drop (l.findIdx q) = l.dropWhile (fun x => !q x) := by
  induction l with
  | nil => rfl
  | cons x xs ih =>
    rw [List.findIdx_cons, List.dropWhile_cons]
    cases h : q x <;> simp [ih]

/-- on a sorted list, dropping the items before `k` commutes with filtering -/
theorem filter_dropWhile_before {rev : Bool} {l : List (Key × V)} (hs : Sorted rev l) (p : Key × V → Bool)
    (k : Key) :
    (l.filter p).dropWhile (fun x => before rev x.1 k) = (l.dropWhile (fun x => before rev x.1 k)).filter p := by
  induction l with
  | nil => rfl
  | cons x xs ih =>
    have hs' : Sorted rev xs := (List.pairwise_cons.mp hs).2
    have hx := (List.pairwise_cons.mp hs).1
    cases hb : before rev x.1 k
    · rw [List.dropWhile_cons, hb]
      simp only [Bool.false_eq_true, if_false]
      apply dropWhile_eq_self
      intro y hy
      have hy' : y ∈ x :: xs := (List.mem_filter.mp hy).1
      rcases List.mem_cons.mp hy' with rfl | hy''
      · exact hb
      · cases hyk : before rev y.1 k
        · rfl
        · rw [before_trans (hx y hy'') hyk] at hb; cases hb
    · rw [List.dropWhile_cons, hb]
      simp only [if_true]
      rw [← ih hs']
      cases hp : p x
      · rw [List.filter_cons_of_neg (by simp [hp])]
      · rw [List.filter_cons_of_pos hp, List.dropWhile_cons, hb]; simp

theorem find?_none_dropWhile {α : Type} {q : α → Bool} {l : List α} (h : l.find? q = none) :
    l.dropWhile (fun x => !q x) = [] := by
  apply dropWhile_eq_nil
  intro x hx
  have := List.find?_eq_none.mp h x hx
  simpa using this

/-- B-tree `seek`: the found item marks the same cut as the seek key -/
theorem dropWhile_find_before {rev : Bool} {l : List (Key × V)} (hs : Sorted rev l) {k : Key} {x : Key × V}
    (h : l.find? (fun y => !before rev y.1 k) = some x) :
    l.dropWhile (fun y => before rev y.1 x.1) = l.dropWhile (fun y => before rev y.1 k) := by
  induction l with
  | nil => simp at h
  | cons y ys ih =>
    have hs' : Sorted rev ys := (List.pairwise_cons.mp hs).2
    have hy := (List.pairwise_cons.mp hs).1
    rw [List.find?_cons] at h
    cases hb : before rev y.1 k
    · simp only [hb, Bool.not_false] at h
      cases h
      rw [List.dropWhile_cons, List.dropWhile_cons, hb, before_irrefl]; simp
    · simp only [hb, Bool.not_true] at h
      have hx : x ∈ ys := List.mem_of_find?_eq_some h
      rw [List.dropWhile_cons, List.dropWhile_cons, hb, hy x hx]
      simp only [if_true]
      exact ih hs' h

/-- B-tree `next`: position of an item `c` of a sorted list, and the strictly next item -/
theorem dropWhile_mem_sorted {rev : Bool} {l : List (Key × V)} (hs : Sorted rev l) {c : Key × V}
    (hc : c ∈ l) :
    ∃ rest, l.dropWhile (fun y => before rev y.1 c.1) = c :: rest ∧
      l.find? (fun y => !before rev y.1 c.1 && before rev c.1 y.1) = rest.head? ∧
      (∀ x, rest.head? = some x → l.dropWhile (fun y => before rev y.1 x.1) = rest) := by
  induction l with
  | nil => cases hc
  | cons y ys ih =>
    have hs' : Sorted rev ys := (List.pairwise_cons.mp hs).2
    have hy := (List.pairwise_cons.mp hs).1
    by_cases hcy : c = y
    · subst hcy
      refine ⟨ys, ?_, ?_, ?_⟩
      · rw [List.dropWhile_cons, before_irrefl]; simp
      · rw [List.find?_cons, before_irrefl]
        simp only [Bool.not_false, Bool.and_false]
        cases ys with
        | nil => rfl
        | cons z zs =>
          have hz := hy z (by simp)
          rw [List.find?_cons, hz, before_asymm hz]; rfl
      · intro x hx
        cases ys with
        | nil => cases hx
        | cons z zs =>
          simp only [List.head?_cons, Option.some.injEq] at hx
          subst hx
          rw [List.dropWhile_cons, hy z (by simp), List.dropWhile_cons, before_irrefl]; simp
    · have hc' : c ∈ ys := by
        rcases List.mem_cons.mp hc with h | h
        · exact absurd h hcy
        · exact h
      obtain ⟨rest, h1, h2, h3⟩ := ih hs' hc'
      refine ⟨rest, ?_, ?_, ?_⟩
      · rw [List.dropWhile_cons, hy c hc']; simpa using h1
      · rw [List.find?_cons, hy c hc']; simpa using h2
      · intro x hx
        have hx' : x ∈ ys := by
          have : x ∈ rest := List.mem_of_mem_head? hx
          have hsub : (c :: rest) <:+ ys := h1 ▸ List.dropWhile_suffix _
          exact hsub.subset (by simp [this])
        rw [List.dropWhile_cons, hy x hx']; simpa using h3 x hx

/-! ## 3. the remaining-list view of a cursor -/

namespace Cur

def sid : Cur V → Nat
  | .arr s _ _ _ => s
  | .bt s _ _ _ _ => s

def rev : Cur V → Bool
  | .arr _ r _ _ => r
  | .bt _ r _ _ _ => r

/-- the cursor's snapshot in iteration order -/
def snap : Cur V → List (Key × V)
  | .arr _ _ vs _ => vs
  | .bt _ r t _ _ => iterOrder r t

/-- the items still ahead, the current one first -/
def rem : Cur V → List (Key × V)
  | .arr _ _ vs i => vs.drop i
  | .bt _ r t cur it =>
    if it then
      match cur with
      | some x => (iterOrder r t).dropWhile (fun y => before r y.1 x.1)
      | none => []
    else []

/-- well-formed: sorted snapshot; an iterable B-tree cursor points at an item of its tree -/
def WF (c : Cur V) : Prop :=
  Sorted c.rev c.snap ∧
  match c with
  | .arr _ _ _ _ => True
  | .bt _ r t cur it => it = true → ∃ x, cur = some x ∧ x ∈ iterOrder r t

@[simp] theorem sid_rewind (c : Cur V) : c.rewind.sid = c.sid := by
  cases c with
  | arr s r vs i => rfl
  | bt s r t cur it =>
    simp only [rewind]
    repeat' split
    all_goals rfl
@[simp] theorem rev_rewind (c : Cur V) : c.rewind.rev = c.rev := by
  cases c with
  | arr s r vs i => rfl
  | bt s r t cur it =>
    simp only [rewind]
    repeat' split
    all_goals rfl
@[simp] theorem snap_rewind (c : Cur V) : c.rewind.snap = c.snap := by
  cases c with
  | arr s r vs i => rfl
  | bt s r t cur it =>
    simp only [rewind]
    repeat' split
    all_goals rfl

@[simp] theorem sid_seek (k : Key) (c : Cur V) : (c.seek k).sid = c.sid := by
  cases c with
  | arr s r vs i => rfl
  | bt s r t cur it =>
    simp only [seek]
    repeat' split
    all_goals rfl
@[simp] theorem rev_seek (k : Key) (c : Cur V) : (c.seek k).rev = c.rev := by
  cases c with
  | arr s r vs i => rfl
  | bt s r t cur it =>
    simp only [seek]
    repeat' split
    all_goals rfl
@[simp] theorem snap_seek (k : Key) (c : Cur V) : (c.seek k).snap = c.snap := by
  cases c with
  | arr s r vs i => rfl
  | bt s r t cur it =>
    simp only [seek]
    repeat' split
    all_goals rfl

@[simp] theorem sid_next (c : Cur V) : c.next.sid = c.sid := by
  cases c with
  | arr s r vs i => rfl
  | bt s r t cur it =>
    simp only [next]
    repeat' split
    all_goals rfl
@[simp] theorem rev_next (c : Cur V) : c.next.rev = c.rev := by
  cases c with
  | arr s r vs i => rfl
  | bt s r t cur it =>
    simp only [next]
    repeat' split
    all_goals rfl
@[simp] theorem snap_next (c : Cur V) : c.next.snap = c.snap := by
  cases c with
  | arr s r vs i => rfl
  | bt s r t cur it =>
    simp only [next]
    repeat' split
    all_goals rfl

theorem rem_suffix (c : Cur V) : c.rem <:+ c.snap := by
  cases c with
  | arr s r vs i => exact List.drop_suffix _ _
  | bt s r t cur it =>
    simp only [rem, snap]
    split
    · split
      · exact List.dropWhile_suffix _
      · exact List.nil_suffix
    · exact List.nil_suffix

theorem size_eq (c : Cur V) : c.size = c.snap.length := by
  cases c with
  | arr s r vs i => rfl
  | bt s r t cur it => simp only [size, snap, iterOrder]; split <;> simp

theorem valid_iff {c : Cur V} (h : c.WF) : c.valid = true ↔ c.rem ≠ [] := by
  cases c with
  | arr s r vs i => simp [valid, rem]
  | bt s r t cur it =>
    cases it
    · simp [valid, rem]
    · obtain ⟨x, rfl, hx⟩ := h.2 rfl
      obtain ⟨rest, h1, _, _⟩ := dropWhile_mem_sorted h.1 hx
      simp only [rev, snap] at h1
      simp [valid, rem, h1]

theorem valid_false_iff {c : Cur V} (h : c.WF) : c.valid = false ↔ c.rem = [] := by
  rw [← Bool.not_eq_true, valid_iff h]; simp

theorem key_eq {c : Cur V} (h : c.WF) : c.key = c.rem.head?.map (·.1) := by
  cases c with
  | arr s r vs i => simp [key, rem, List.head?_drop]
  | bt s r t cur it =>
    cases it
    · simp [key, rem]
    · obtain ⟨x, rfl, hx⟩ := h.2 rfl
      obtain ⟨rest, h1, _, _⟩ := dropWhile_mem_sorted h.1 hx
      simp only [rev, snap] at h1
      simp [key, rem, h1]

theorem value_eq {c : Cur V} (h : c.WF) : c.value = c.rem.head?.map (·.2) := by
  cases c with
  | arr s r vs i => simp [value, rem, List.head?_drop]
  | bt s r t cur it =>
    cases it
    · simp [value, rem]
    · obtain ⟨x, rfl, hx⟩ := h.2 rfl
      obtain ⟨rest, h1, _, _⟩ := dropWhile_mem_sorted h.1 hx
      simp only [rev, snap] at h1
      simp [value, rem, h1]

theorem WF_rewind {c : Cur V} (h : c.WF) : c.rewind.WF := by
  cases c with
  | arr s r vs i => exact ⟨h.1, trivial⟩
  | bt s r t cur it =>
    simp only [rewind]
    split
    · exact h
    next hne =>
      refine ⟨h.1, fun _ => ?_⟩
      have : iterOrder r t ≠ [] := by
        unfold iterOrder; split <;> simpa using hne
      obtain ⟨x, xs, hx⟩ := List.exists_cons_of_ne_nil this
      exact ⟨x, by simp [hx], by simp [hx]⟩

/-- `rewind` on a non-empty snapshot: everything is ahead again -/
theorem rem_rewind {c : Cur V} (hne : c.snap ≠ []) : c.rewind.rem = c.snap := by
  cases c with
  | arr s r vs i => simp [rewind, rem, snap]
  | bt s r t cur it =>
    simp only [snap] at hne
    have ht : t.isEmpty = false := by
      cases t with
      | nil => simp [iterOrder] at hne
      | cons a as => rfl
    simp only [rewind, ht, Bool.false_eq_true, if_false, rem, snap, if_true]
    obtain ⟨x, xs, hx⟩ := List.exists_cons_of_ne_nil hne
    simp [hx, before_irrefl]

theorem WF_seek {c : Cur V} (k : Key) (h : c.WF) : (c.seek k).WF := by
  cases c with
  | arr s r vs i => exact ⟨h.1, trivial⟩
  | bt s r t cur it =>
    simp only [seek]
    split
    · exact h
    · split
      · rename_i x hx
        exact ⟨h.1, fun _ => ⟨x, rfl, List.mem_of_find?_eq_some hx⟩⟩
      · exact ⟨h.1, fun h' => by cases h'⟩

/-- `seek` on a valid cursor is the absolute lower bound -/
theorem rem_seek {c : Cur V} (k : Key) (h : c.WF) (hv : c.valid = true) :
    (c.seek k).rem = c.snap.dropWhile (fun x => before c.rev x.1 k) := by
  cases c with
  | arr s r vs i =>
    simp only [seek, rem, snap, rev]
    rw [drop_findIdx]; simp
  | bt s r t cur it =>
    simp only [valid] at hv
    subst hv
    simp only [seek, Bool.not_true, Bool.false_eq_true, if_false, snap, rev]
    split
    · rename_i x hx
      simp only [rem, if_true]
      exact dropWhile_find_before h.1 hx
    · rename_i hx
      simp only [rem, Bool.false_eq_true, if_false]
      have := find?_none_dropWhile hx
      simpa using this.symm

theorem WF_next {c : Cur V} (h : c.WF) : c.next.WF := by
  cases c with
  | arr s r vs i => exact ⟨h.1, trivial⟩
  | bt s r t cur it =>
    simp only [next]
    split
    · exact h
    · split
      · exact ⟨h.1, fun h' => by cases h'⟩
      · split
        · rename_i x hx
          exact ⟨h.1, fun _ => ⟨x, rfl, List.mem_of_find?_eq_some hx⟩⟩
        · exact ⟨h.1, fun h' => by cases h'⟩

/-- `next` on a valid cursor drops the current item -/
theorem rem_next {c : Cur V} (h : c.WF) (hv : c.valid = true) : c.next.rem = c.rem.tail := by
  cases c with
  | arr s r vs i => simp [next, rem]
  | bt s r t cur it =>
    simp only [valid] at hv
    subst hv
    obtain ⟨c0, rfl, hc0⟩ := h.2 rfl
    obtain ⟨rest, h1, h2, h3⟩ := dropWhile_mem_sorted h.1 hc0
    simp only [rev, snap] at h1 h2 h3
    simp only [next, Bool.not_true, Bool.false_eq_true, if_false, rem, if_true, h1, List.tail_cons, h2]
    cases rest with
    | nil => simp
    | cons x xs => simpa using h3 x rfl

@[simp] theorem sid_new (typ : IndexType) (r : Bool) (s : Nat) (l : List (Key × V)) :
    (Cur.new typ r s l).sid = s := by cases typ <;> rfl
@[simp] theorem rev_new (typ : IndexType) (r : Bool) (s : Nat) (l : List (Key × V)) :
    (Cur.new typ r s l).rev = r := by cases typ <;> rfl
@[simp] theorem snap_new (typ : IndexType) (r : Bool) (s : Nat) (l : List (Key × V)) :
    (Cur.new typ r s l).snap = iterOrder r l := by cases typ <;> rfl

theorem WF_new (typ : IndexType) (r : Bool) (s : Nat) {l : List (Key × V)} (h : Sorted false l) :
    (Cur.new typ r s l).WF := by
  refine ⟨by simpa using h.iterOrder, ?_⟩
  cases typ <;> simp only [new]
  intro hne
  have : iterOrder r l ≠ [] := by
    unfold iterOrder; split <;> simpa using hne
  obtain ⟨x, xs, hx⟩ := List.exists_cons_of_ne_nil this
  exact ⟨x, by simp [hx], by simp [hx]⟩

theorem rem_new (typ : IndexType) (r : Bool) (s : Nat) (l : List (Key × V)) :
    (Cur.new typ r s l).rem = iterOrder r l := by
  cases typ <;> simp only [new, rem, List.drop_zero]
  cases h : iterOrder r l with
  | nil =>
    have : l = [] := by
      unfold iterOrder at h; split at h <;> simpa using h
    simp [this]
  | cons x xs =>
    have : l.isEmpty = false := by
      cases l with
      | nil => simp [iterOrder] at h
      | cons a as => rfl
    simp [this, before_irrefl]

end Cur
/-! ## 4. the heap top -/

theorem popTop_eq_none {rev : Bool} {l : List (Cur V)} : popTop rev l = none ↔ l = [] := by
  cases l with
  | nil => simp [popTop]
  | cons c cs =>
    simp only [popTop, reduceCtorEq, iff_false]
    split
    · simp
    · split <;> simp

theorem popTop_perm {rev : Bool} {l : List (Cur V)} {t : Cur V} {rest : List (Cur V)}
    (h : popTop rev l = some (t, rest)) : l.Perm (t :: rest) := by
  induction l generalizing t rest with
  | nil => simp [popTop] at h
  | cons c cs ih =>
    simp only [popTop] at h
    split at h
    · rename_i hn
      have := popTop_eq_none.mp hn
      simp only [Option.some.injEq, Prod.mk.injEq] at h
      obtain ⟨rfl, rfl⟩ := h
      subst this
      exact List.Perm.refl _
    · rename_i m r hm
      have hp := ih hm
      split at h
      · simp only [Option.some.injEq, Prod.mk.injEq] at h
        obtain ⟨rfl, rfl⟩ := h
        exact (List.Perm.cons c hp).trans (List.Perm.swap _ _ _)
      · simp only [Option.some.injEq, Prod.mk.injEq] at h
        obtain ⟨rfl, rfl⟩ := h
        exact List.Perm.cons _ hp

/-- nothing in the heap comes strictly before the top (container/heap's contract) -/
theorem popTop_min {rev : Bool} {l : List (Cur V)} {t : Cur V} {rest : List (Cur V)}
    (h : popTop rev l = some (t, rest)) : ∀ c ∈ l, before rev c.keyD t.keyD = false := by
  induction l generalizing t rest with
  | nil => simp [popTop] at h
  | cons c cs ih =>
    simp only [popTop] at h
    split at h
    · rename_i hn
      have := popTop_eq_none.mp hn
      simp only [Option.some.injEq, Prod.mk.injEq] at h
      obtain ⟨rfl, rfl⟩ := h
      subst this
      intro c' hc'
      simp only [List.mem_singleton] at hc'
      subst hc'
      exact before_irrefl _ _
    · rename_i m r hm
      have hmin := ih hm
      split at h
      · rename_i hl
        simp only [Option.some.injEq, Prod.mk.injEq] at h
        obtain ⟨rfl, rfl⟩ := h
        intro s hs
        rcases List.mem_cons.mp hs with rfl | hs
        · cases rev
          · simp only [less, bne_iff_ne, ne_eq, Bool.not_eq_false] at hl
            simpa [before] using keyLt_asymm hl
          · simp only [less, bne_iff_ne, ne_eq, Bool.not_eq_true] at hl
            simpa [before] using hl
        · exact hmin s hs
      · rename_i hl
        simp only [Option.some.injEq, Prod.mk.injEq] at h
        obtain ⟨rfl, rfl⟩ := h
        intro s hs
        rcases List.mem_cons.mp hs with rfl | hs
        · exact before_irrefl _ _
        · have h1 := hmin s hs
          cases rev
          · simp only [less, bne_iff_ne, ne_eq, Bool.not_eq_false, Bool.not_eq_true] at hl
            simp only [before, Bool.false_eq_true, if_false] at h1 ⊢
            cases h2 : keyLt s.keyD c.keyD
            · rfl
            · rcases before_cotrans (rev := false) m.keyD (by simpa [before] using h2) with h3 | h3
              · simp [before, h1] at h3
              · simp [before, hl] at h3
          · simp only [less, bne_iff_ne, ne_eq, Bool.not_eq_true, Bool.not_eq_false] at hl
            simp only [before, if_true] at h1 ⊢
            cases h2 : keyLt c.keyD s.keyD
            · rfl
            · rw [keyLt_trans hl h2] at h1; cases h1

/-! ## 5. the invariant -/

/-- all cursors of the iterator: in the heap or parked -/
def IndexIterator.all (it : IndexIterator V) : List (Cur V) := it.heap ++ it.oldItems

/-- the shard `s` part of a list -/
def shardPart (sh : Key → Nat) (s : Nat) (l : List (Key × V)) : List (Key × V) :=
  l.filter (fun x => sh x.1 == s)

/-- structural invariant: `A` is the whole snapshot in iteration order -/
structure Struct (sh : Key → Nat) (A : List (Key × V)) (it : IndexIterator V) : Prop where
  sorted : Sorted it.reverse A
  nodup : (it.all.map Cur.sid).Nodup
  wf : ∀ c ∈ it.all, c.WF ∧ c.rev = it.reverse ∧ c.snap = shardPart sh c.sid A ∧ c.snap ≠ []
  cover : ∀ x ∈ A, ∃ c ∈ it.all, c.sid = sh x.1
  heapValid : ∀ c ∈ it.heap, c.valid = true
  oldInvalid : ∀ c ∈ it.oldItems, c.valid = false

/-- the relation to the abstract remaining list `R` (a suffix of `A.filter P`): what each cursor
    still has ahead agrees with `R` on the keys satisfying `P` -/
def Rel (sh : Key → Nat) (P : Key → Bool) (it : IndexIterator V) (R : List (Key × V)) : Prop :=
  ∀ c ∈ it.all, c.rem.filter (fun x => P x.1) = shardPart sh c.sid R

/-- the loop condition of `skipToNext` is false -/
def settled (P : Key → Bool) (it : IndexIterator V) : Bool :=
  !it.valid || P (it.key.getD ByteArray.empty)

theorem mem_all {it : IndexIterator V} {c : Cur V} : c ∈ it.all ↔ c ∈ it.heap ∨ c ∈ it.oldItems := by
  simp [IndexIterator.all]

theorem sorted_head_le {rev : Bool} {l : List (Key × V)} (hs : Sorted rev l) {h y : Key × V}
    (hh : l.head? = some h) (hy : y ∈ l) : y = h ∨ before rev h.1 y.1 = true := by
  cases l with
  | nil => cases hy
  | cons a as =>
    simp only [List.head?_cons, Option.some.injEq] at hh
    subst hh
    rcases List.mem_cons.mp hy with rfl | hy
    · exact Or.inl rfl
    · exact Or.inr ((List.pairwise_cons.mp hs).1 y hy)

theorem Struct.rem_sorted {sh : Key → Nat} {A : List (Key × V)} {it : IndexIterator V}
    (hS : Struct sh A it) {c : Cur V} (hc : c ∈ it.all) : Sorted it.reverse c.rem := by
  obtain ⟨hwf, hrev, _, _⟩ := hS.wf c hc
  rw [← hrev]
  exact hwf.1.sublist c.rem_suffix.sublist

theorem Struct.rem_subset {sh : Key → Nat} {A : List (Key × V)} {it : IndexIterator V}
    (hS : Struct sh A it) {c : Cur V} (hc : c ∈ it.all) {x : Key × V} (hx : x ∈ c.rem) :
    x ∈ A ∧ sh x.1 = c.sid := by
  obtain ⟨_, _, hsnap, _⟩ := hS.wf c hc
  have : x ∈ c.snap := c.rem_suffix.subset hx
  rw [hsnap, shardPart, List.mem_filter] at this
  exact ⟨this.1, by simpa using this.2⟩

/-- the heap top: its current item is the least of everything any cursor still has ahead -/
theorem Struct.top_spec {sh : Key → Nat} {A : List (Key × V)} {it : IndexIterator V}
    (hS : Struct sh A it) {t : Cur V} {rest : List (Cur V)}
    (h : popTop it.reverse it.heap = some (t, rest)) :
    it.heap.Perm (t :: rest) ∧ ∃ x xs, t.rem = x :: xs ∧ t.key = some x.1 ∧ t.value = some x.2 ∧
      ∀ c ∈ it.all, ∀ y ∈ c.rem, before it.reverse y.1 x.1 = false := by
  have hp := popTop_perm h
  have ht : t ∈ it.heap := hp.mem_iff.mpr (by simp)
  have htall : t ∈ it.all := mem_all.mpr (Or.inl ht)
  obtain ⟨htwf, _, _, _⟩ := hS.wf t htall
  have htv := hS.heapValid t ht
  have hne := (Cur.valid_iff htwf).mp htv
  obtain ⟨x, xs, hx⟩ := List.exists_cons_of_ne_nil hne
  have hk : t.key = some x.1 := by rw [Cur.key_eq htwf, hx]; rfl
  have hkD : t.keyD = x.1 := by simp [Cur.keyD, hk]
  refine ⟨hp, x, xs, hx, hk, by rw [Cur.value_eq htwf, hx]; rfl, ?_⟩
  intro c hc y hy
  rcases mem_all.mp hc with hch | hco
  · obtain ⟨hcwf, _, _, _⟩ := hS.wf c hc
    have hmin := popTop_min h c hch
    obtain ⟨hd, tl, hrem⟩ := List.exists_cons_of_ne_nil (List.ne_nil_of_mem hy)
    have hck : c.keyD = hd.1 := by simp [Cur.keyD, Cur.key_eq hcwf, hrem]
    rw [hck, hkD] at hmin
    rcases sorted_head_le (hS.rem_sorted hc) (by rw [hrem]; rfl) hy with rfl | hlt
    · exact hmin
    · cases hyx : before it.reverse y.1 x.1
      · rfl
      · rw [before_trans hlt hyx] at hmin; cases hmin
  · obtain ⟨hcwf, _, _, _⟩ := hS.wf c hc
    have := (Cur.valid_false_iff hcwf).mp (hS.oldInvalid c hco)
    rw [this] at hy; cases hy

/-! ## 6. observations -/

/-- `R` is a possible abstract remaining list: a suffix of the filtered snapshot -/
def IsRest (P : Key → Bool) (A R : List (Key × V)) : Prop := R <:+ A.filter (fun x => P x.1)

theorem IsRest.mem {P : Key → Bool} {A R : List (Key × V)} (h : IsRest P A R) {y : Key × V} (hy : y ∈ R) :
    y ∈ A ∧ P y.1 = true := by
  have := h.subset hy
  simpa [List.mem_filter] using this

theorem IsRest.sorted {P : Key → Bool} {A R : List (Key × V)} {rev : Bool} (h : IsRest P A R)
    (hs : Sorted rev A) : Sorted rev R :=
  hs.sublist (h.sublist.trans List.filter_sublist)

theorem IsRest.drop {P : Key → Bool} {A R : List (Key × V)} (h : IsRest P A R) (n : Nat) :
    IsRest P A (R.drop n) := (List.drop_suffix n R).trans h

/-- the first abstract item is ahead in the cursor of its shard, which therefore sits in the heap -/
theorem Rel.head_mem {sh : Key → Nat} {P : Key → Bool} {A : List (Key × V)} {it : IndexIterator V}
    {R : List (Key × V)} (hS : Struct sh A it) (hRel : Rel sh P it R) (hR : IsRest P A R)
    {y : Key × V} (hy : y ∈ R) : ∃ c ∈ it.heap, y ∈ c.rem := by
  obtain ⟨hyA, hyP⟩ := hR.mem hy
  obtain ⟨c, hc, hsid⟩ := hS.cover y hyA
  have : y ∈ shardPart sh c.sid R := by
    simp [shardPart, List.mem_filter, hy, hsid]
  rw [← hRel c hc] at this
  have hyc : y ∈ c.rem := (List.mem_filter.mp this).1
  rcases mem_all.mp hc with hch | hco
  · exact ⟨c, hch, hyc⟩
  · have := (Cur.valid_false_iff (hS.wf c hc).1).mp (hS.oldInvalid c hco)
    rw [this] at hyc; cases hyc

theorem Rel.nil_of_heap_nil {sh : Key → Nat} {P : Key → Bool} {A : List (Key × V)} {it : IndexIterator V}
    {R : List (Key × V)} (hS : Struct sh A it) (hRel : Rel sh P it R) (hR : IsRest P A R)
    (hh : it.heap = []) : R = [] := by
  cases R with
  | nil => rfl
  | cons y R' =>
    obtain ⟨c, hc, _⟩ := hRel.head_mem hS hR (y := y) (by simp)
    rw [hh] at hc; cases hc

/-- if the top's item passes the filter it is the first abstract item -/
theorem Rel.head {sh : Key → Nat} {P : Key → Bool} {A : List (Key × V)} {it : IndexIterator V}
    {R : List (Key × V)} (hS : Struct sh A it) (hRel : Rel sh P it R) (hR : IsRest P A R)
    {t : Cur V} {x : Key × V} {xs : List (Key × V)} (ht : t ∈ it.heap) (hx : t.rem = x :: xs)
    (hmin : ∀ c ∈ it.all, ∀ y ∈ c.rem, before it.reverse y.1 x.1 = false) (hP : P x.1 = true) :
    ∃ R', R = x :: R' := by
  have htall : t ∈ it.all := mem_all.mpr (Or.inl ht)
  have hxR : x ∈ R := by
    have : x ∈ t.rem.filter (fun x => P x.1) := by simp [hx, hP]
    rw [hRel t htall] at this
    exact (List.mem_filter.mp this).1
  cases R with
  | nil => cases hxR
  | cons y R' =>
    obtain ⟨c, hc, hyc⟩ := hRel.head_mem hS hR (y := y) (by simp)
    have h1 := hmin c (mem_all.mpr (Or.inl hc)) y hyc
    rcases sorted_head_le (hR.sorted hS.sorted) (h := y) rfl hxR with rfl | hlt
    · exact ⟨R', rfl⟩
    · rw [hlt] at h1; cases h1

theorem obs_of_rel {sh : Key → Nat} {P : Key → Bool} {A : List (Key × V)} {it : IndexIterator V}
    {R : List (Key × V)} (hS : Struct sh A it) (hRel : Rel sh P it R) (hR : IsRest P A R)
    (hset : settled P it = true) :
    it.valid = !R.isEmpty ∧ it.key = R.head?.map (·.1) ∧ it.value = R.head?.map (·.2) := by
  cases hp : popTop it.reverse it.heap with
  | none =>
    have hh := popTop_eq_none.mp hp
    have := hRel.nil_of_heap_nil hS hR hh
    subst this
    simp [IndexIterator.valid, IndexIterator.key, IndexIterator.value, IndexIterator.top, hh, popTop]
  | some tr =>
    obtain ⟨t, rest⟩ := tr
    obtain ⟨hperm, x, xs, hx, hk, hv, hmin⟩ := hS.top_spec hp
    have ht : t ∈ it.heap := hperm.mem_iff.mpr (by simp)
    have hne : it.heap ≠ [] := List.ne_nil_of_mem ht
    have hvalid : it.valid = true := by
      simp [IndexIterator.valid, hne]
    have hkey : it.key = some x.1 := by simp [IndexIterator.key, IndexIterator.top, hp, hk]
    have hP : P x.1 = true := by
      simpa [settled, hvalid, hkey] using hset
    obtain ⟨R', rfl⟩ := hRel.head hS hR ht hx hmin hP
    refine ⟨by simp [hvalid], by simp [hkey], ?_⟩
    simp [IndexIterator.value, IndexIterator.top, hp, hv]

/-! ## 7. the calls preserve the invariant -/

/-- a call that keeps every cursor's identity, snapshot and direction, keeps it well formed, and
    sorts the cursors correctly into heap and parked ones, keeps the structural invariant -/
theorem Struct.of_update {sh : Key → Nat} {A : List (Key × V)} {it it' : IndexIterator V}
    (hS : Struct sh A it) (hrev : it'.reverse = it.reverse)
    (hperm : (it'.all.map Cur.sid).Perm (it.all.map Cur.sid))
    (hcur : ∀ c' ∈ it'.all, ∃ c ∈ it.all, c'.sid = c.sid ∧ c'.snap = c.snap ∧ c'.rev = c.rev ∧ c'.WF)
    (hheap : ∀ c' ∈ it'.heap, c'.valid = true) (hold : ∀ c' ∈ it'.oldItems, c'.valid = false) :
    Struct sh A it' := by
  refine ⟨hrev ▸ hS.sorted, hperm.nodup_iff.mpr hS.nodup, ?_, ?_, hheap, hold⟩
  · intro c' hc'
    obtain ⟨c, hc, h1, h2, h3, h4⟩ := hcur c' hc'
    obtain ⟨_, hr, hsnap, hne⟩ := hS.wf c hc
    exact ⟨h4, by rw [h3, hr, hrev], by rw [h2, h1, hsnap], by rw [h2]; exact hne⟩
  · intro x hx
    obtain ⟨c, hc, hsid⟩ := hS.cover x hx
    have : c.sid ∈ it'.all.map Cur.sid := hperm.mem_iff.mpr (List.mem_map_of_mem hc)
    obtain ⟨c', hc', h⟩ := List.mem_map.mp this
    exact ⟨c', hc', h.trans hsid⟩

/-! ### Rewind -/

theorem all_rewind (it : IndexIterator V) : it.rewind.all = it.all.map Cur.rewind := by
  simp [IndexIterator.rewind, IndexIterator.all]

theorem Struct.rewind {sh : Key → Nat} {A : List (Key × V)} {it : IndexIterator V}
    (hS : Struct sh A it) : Struct sh A it.rewind := by
  have hmem : ∀ c' ∈ it.rewind.all, ∃ c ∈ it.all, c' = c.rewind := by
    intro c' hc'
    rw [all_rewind, List.mem_map] at hc'
    obtain ⟨c, hc, rfl⟩ := hc'
    exact ⟨c, hc, rfl⟩
  apply hS.of_update (it' := it.rewind) rfl
  · rw [all_rewind, List.map_map]
    have : (Cur.sid ∘ Cur.rewind : Cur V → Nat) = Cur.sid := by
      funext c; simp
    rw [this]
  · intro c' hc'
    obtain ⟨c, hc, rfl⟩ := hmem c' hc'
    exact ⟨c, hc, by simp, by simp, by simp, Cur.WF_rewind (hS.wf c hc).1⟩
  · intro c' hc'
    obtain ⟨c, hc, rfl⟩ := hmem c' (mem_all.mpr (Or.inl hc'))
    obtain ⟨hwf, _, _, hne⟩ := hS.wf c hc
    rw [Cur.valid_iff (Cur.WF_rewind hwf), Cur.rem_rewind hne]
    exact hne
  · intro c' hc'
    simp [IndexIterator.rewind] at hc'

theorem Rel.rewind {sh : Key → Nat} {P : Key → Bool} {A : List (Key × V)} {it : IndexIterator V}
    (hS : Struct sh A it) : Rel sh P it.rewind (A.filter (fun x => P x.1)) := by
  intro c' hc'
  rw [all_rewind, List.mem_map] at hc'
  obtain ⟨c, hc, rfl⟩ := hc'
  obtain ⟨hwf, _, hsnap, hne⟩ := hS.wf c hc
  rw [Cur.rem_rewind hne, hsnap, Cur.sid_rewind]
  simp only [shardPart, List.filter_filter]
  congr 1
  funext x
  exact Bool.and_comm _ _

/-! ### Seek -/

theorem seek_invalid {it : IndexIterator V} (k : Key) (h : it.heap = []) : it.seek k = it := by
  simp [IndexIterator.seek, IndexIterator.valid, h]

/-- the guard of `Seek`: the target lies before the current key -/
def IndexIterator.passed (k : Key) (it : IndexIterator V) : Bool :=
  before it.reverse k (it.key.getD ByteArray.empty)

theorem seek_passed {it : IndexIterator V} (k : Key) (h : it.passed k = true) : it.seek k = it := by
  unfold IndexIterator.passed at h
  simp [IndexIterator.seek, h]

theorem seek_valid {it : IndexIterator V} (k : Key) (h : it.heap ≠ []) (hp : it.passed k = false) :
    it.seek k = { it with heap := (it.heap.map (Cur.seek k)).filter Cur.valid,
                          oldItems := it.oldItems ++ (it.heap.map (Cur.seek k)).filter (fun c => !c.valid) } := by
  unfold IndexIterator.passed at hp
  simp [IndexIterator.seek, IndexIterator.valid, h, hp]

theorem filter_split_perm {α : Type} (p : α → Bool) (l o : List α) :
    (l.filter p ++ (o ++ l.filter (fun x => !p x))).Perm (l ++ o) := by
  have h1 : (l.filter p ++ (o ++ l.filter (fun x => !p x))).Perm
      (l.filter p ++ (l.filter (fun x => !p x) ++ o)) :=
    List.Perm.append_left _ List.perm_append_comm
  refine h1.trans ?_
  rw [← List.append_assoc]
  exact List.Perm.append_right _ (List.filter_append_perm p l)

theorem mem_all_seek {it : IndexIterator V} {k : Key} (h : it.heap ≠ []) (hp : it.passed k = false)
    {c' : Cur V}
    (hc' : c' ∈ (it.seek k).all) : (∃ c ∈ it.heap, c' = c.seek k) ∨ c' ∈ it.oldItems := by
  rw [seek_valid k h hp] at hc'
  simp only [IndexIterator.all, List.mem_append, List.mem_filter, List.mem_map] at hc'
  rcases hc' with ⟨⟨c, hc, rfl⟩, _⟩ | h | ⟨⟨c, hc, rfl⟩, _⟩
  · exact Or.inl ⟨c, hc, rfl⟩
  · exact Or.inr h
  · exact Or.inl ⟨c, hc, rfl⟩

theorem Struct.seek {sh : Key → Nat} {A : List (Key × V)} {it : IndexIterator V}
    (hS : Struct sh A it) (k : Key) : Struct sh A (it.seek k) := by
  by_cases h : it.heap = []
  · rw [seek_invalid k h]; exact hS
  · cases hp : it.passed k
    case true => rw [seek_passed k hp]; exact hS
    apply hS.of_update
    · rw [seek_valid k h hp]
    · have : (it.seek k).all.Perm (it.heap.map (Cur.seek k) ++ it.oldItems) := by
        rw [seek_valid k h hp]
        exact filter_split_perm _ _ _
      refine (this.map Cur.sid).trans ?_
      simp only [IndexIterator.all, List.map_append, List.map_map]
      have : (Cur.sid ∘ Cur.seek k : Cur V → Nat) = Cur.sid := by
        funext c; simp
      rw [this]
    · intro c' hc'
      rcases mem_all_seek h hp hc' with ⟨c, hc, rfl⟩ | hc
      · have hc := mem_all.mpr (Or.inl hc)
        exact ⟨c, hc, by simp, by simp, by simp, Cur.WF_seek k (hS.wf c hc).1⟩
      · have hc := mem_all.mpr (Or.inr hc)
        exact ⟨c', hc, rfl, rfl, rfl, (hS.wf c' hc).1⟩
    · intro c' hc'
      rw [seek_valid k h hp] at hc'
      exact (List.mem_filter.mp hc').2
    · intro c' hc'
      rw [seek_valid k h hp] at hc'
      simp only [List.mem_append, List.mem_filter] at hc'
      rcases hc' with hc' | ⟨_, hc'⟩
      · exact hS.oldInvalid c' hc'
      · simpa using hc'

theorem shardPart_nil_of_suffix {sh : Key → Nat} {s : Nat} {R R2 : List (Key × V)} (hsuf : R2 <:+ R)
    (h : shardPart sh s R = []) : shardPart sh s R2 = [] := by
  have : (shardPart sh s R2).Sublist (shardPart sh s R) := hsuf.sublist.filter _
  rw [h] at this
  exact List.sublist_nil.mp this

/-- `Seek k` to a target that has not been passed, whose abstract position `R2` is hence not behind
    the current one -/
theorem Rel.seek {sh : Key → Nat} {P : Key → Bool} {A : List (Key × V)} {it : IndexIterator V}
    {R : List (Key × V)} (hS : Struct sh A it) (hRel : Rel sh P it R) (k : Key)
    (h : it.heap ≠ []) (hp : it.passed k = false)
    (hadm : (A.filter (fun x => P x.1)).dropWhile (fun x => before it.reverse x.1 k) <:+ R) :
    Rel sh P (it.seek k) ((A.filter (fun x => P x.1)).dropWhile (fun x => before it.reverse x.1 k)) := by
  intro c' hc'
  rcases mem_all_seek h hp hc' with ⟨c, hc, rfl⟩ | hc
  · have hcall := mem_all.mpr (Or.inl hc)
    obtain ⟨hwf, hrev, hsnap, _⟩ := hS.wf c hcall
    rw [Cur.rem_seek k hwf (hS.heapValid c hc), hrev, hsnap, Cur.sid_seek, shardPart, shardPart,
      filter_dropWhile_before hS.sorted, filter_dropWhile_before hS.sorted]
    simp only [List.filter_filter]
    congr 1
    funext x
    exact Bool.and_comm _ _
  · have hcall := mem_all.mpr (Or.inr hc)
    have hrem := (Cur.valid_false_iff (hS.wf c' hcall).1).mp (hS.oldInvalid c' hc)
    have h1 := hRel c' hcall
    rw [hrem] at h1 ⊢
    exact (shardPart_nil_of_suffix hadm h1.symm).symm

/-! ### Next -/

theorem next_invalid {it : IndexIterator V} (h : it.heap = []) : it.next = it := by
  simp [IndexIterator.next, h, popTop]

theorem next_of_pop {it : IndexIterator V} {t : Cur V} {rest : List (Cur V)}
    (h : popTop it.reverse it.heap = some (t, rest)) :
    it.next = if t.next.valid then { it with heap := rest ++ [t.next] }
              else { it with heap := rest, oldItems := it.oldItems ++ [t.next] } := by
  simp [IndexIterator.next, h]

theorem all_next_perm {it : IndexIterator V} {t : Cur V} {rest : List (Cur V)}
    (h : popTop it.reverse it.heap = some (t, rest)) :
    it.next.all.Perm (t.next :: (rest ++ it.oldItems)) := by
  rw [next_of_pop h]
  split
  · simp only [IndexIterator.all, List.append_assoc, List.singleton_append]
    exact List.perm_middle
  · simp only [IndexIterator.all]
    rw [← List.append_assoc]
    exact List.perm_append_comm.trans (by simp)

theorem Struct.next {sh : Key → Nat} {A : List (Key × V)} {it : IndexIterator V}
    (hS : Struct sh A it) : Struct sh A it.next := by
  cases hp : popTop it.reverse it.heap with
  | none => rw [next_invalid (popTop_eq_none.mp hp)]; exact hS
  | some tr =>
    obtain ⟨t, rest⟩ := tr
    have hperm := popTop_perm hp
    have hall : it.all.Perm (t :: (rest ++ it.oldItems)) := by
      simpa [IndexIterator.all] using hperm.append_right it.oldItems
    have ht : t ∈ it.all := hall.mem_iff.mpr (by simp)
    apply hS.of_update (it' := it.next)
    · rw [next_of_pop hp]; split <;> rfl
    · refine ((all_next_perm hp).map Cur.sid).trans ?_
      refine List.Perm.trans ?_ (hall.map Cur.sid).symm
      simp
    · intro c' hc'
      have := (all_next_perm hp).mem_iff.mp hc'
      rcases List.mem_cons.mp this with rfl | hc
      · exact ⟨t, ht, by simp, by simp, by simp, Cur.WF_next (hS.wf t ht).1⟩
      · have hc : c' ∈ it.all := hall.mem_iff.mpr (List.mem_cons_of_mem _ hc)
        exact ⟨c', hc, rfl, rfl, rfl, (hS.wf c' hc).1⟩
    · intro c' hc'
      rw [next_of_pop hp] at hc'
      split at hc'
      · rename_i hv
        simp only [List.mem_append, List.mem_singleton] at hc'
        rcases hc' with hc' | rfl
        · exact hS.heapValid c' (hperm.mem_iff.mpr (List.mem_cons_of_mem _ hc'))
        · exact hv
      · exact hS.heapValid c' (hperm.mem_iff.mpr (List.mem_cons_of_mem _ hc'))
    · intro c' hc'
      rw [next_of_pop hp] at hc'
      split at hc'
      · exact hS.oldInvalid c' hc'
      · rename_i hv
        simp only [List.mem_append, List.mem_singleton] at hc'
        rcases hc' with hc' | rfl
        · exact hS.oldInvalid c' hc'
        · simpa using hv

/-- `Next` from a state whose top item is `x`: the abstract list loses `x` if `x` passes the
    filter and is unchanged otherwise -/
theorem Rel.next {sh : Key → Nat} {P : Key → Bool} {A : List (Key × V)} {it : IndexIterator V}
    {R : List (Key × V)} (hS : Struct sh A it) (hRel : Rel sh P it R) (hR : IsRest P A R)
    {t : Cur V} {rest : List (Cur V)} (hp : popTop it.reverse it.heap = some (t, rest))
    {x : Key × V} {xs : List (Key × V)} (hx : t.rem = x :: xs)
    (hmin : ∀ c ∈ it.all, ∀ y ∈ c.rem, before it.reverse y.1 x.1 = false) :
    Rel sh P it.next (if P x.1 then R.tail else R) := by
  have hperm := popTop_perm hp
  have hall : it.all.Perm (t :: (rest ++ it.oldItems)) := by
    simpa [IndexIterator.all] using hperm.append_right it.oldItems
  have hth : t ∈ it.heap := hperm.mem_iff.mpr (by simp)
  have ht : t ∈ it.all := hall.mem_iff.mpr (by simp)
  have hnd : ((t :: (rest ++ it.oldItems)).map Cur.sid).Nodup :=
    (hall.map Cur.sid).nodup_iff.mp hS.nodup
  have hxs : sh x.1 = t.sid := (hS.rem_subset ht (by rw [hx]; simp)).2
  intro c' hc'
  have := (all_next_perm hp).mem_iff.mp hc'
  rcases List.mem_cons.mp this with rfl | hc
  · -- the advanced cursor
    obtain ⟨hwf, _, _, _⟩ := hS.wf t ht
    rw [Cur.rem_next hwf (hS.heapValid t hth), hx, List.tail_cons, Cur.sid_next]
    have h1 := hRel t ht
    rw [hx] at h1
    cases hP : P x.1
    · simpa [List.filter_cons, hP] using h1
    · obtain ⟨R', rfl⟩ := hRel.head hS hR hth hx hmin hP
      simp only [List.filter_cons, hP, if_true, shardPart, hxs, beq_self_eq_true] at h1
      simpa [shardPart] using (List.cons.inj h1).2
  · -- every other cursor
    have hc'all : c' ∈ it.all := hall.mem_iff.mpr (List.mem_cons_of_mem _ hc)
    have hne : c'.sid ≠ t.sid := by
      simp only [List.map_cons, List.nodup_cons, List.mem_map, not_exists, not_and] at hnd
      exact hnd.1 c' hc
    rw [hRel c' hc'all]
    cases hP : P x.1
    · rfl
    · obtain ⟨R', rfl⟩ := hRel.head hS hR hth hx hmin hP
      have : (sh x.1 == c'.sid) = false := by
        rw [hxs]; simpa using fun h => hne h.symm
      simp [shardPart, this]

/-! ### skipToNext -/

/-- number of items the heap cursors still have ahead: the number of `Next` calls until `!Valid` -/
def IndexIterator.ahead (it : IndexIterator V) : Nat := (it.heap.map (fun c => c.rem.length)).sum

theorem sum_map_le {α : Type} {f g : α → Nat} {l : List α} (h : ∀ c ∈ l, f c ≤ g c) :
    (l.map f).sum ≤ (l.map g).sum := by
  induction l with
  | nil => simp
  | cons a as ih =>
    simp only [List.map_cons, List.sum_cons]
    have := h a (by simp)
    have := ih (fun c hc => h c (by simp [hc]))
    omega

theorem ahead_le_fuel (it : IndexIterator V) : it.ahead ≤ it.fuel := by
  apply sum_map_le
  intro c _
  rw [Cur.size_eq]
  exact c.rem_suffix.length_le

theorem Struct.ahead_zero {sh : Key → Nat} {A : List (Key × V)} {it : IndexIterator V}
    (hS : Struct sh A it) (h : it.ahead = 0) : it.heap = [] := by
  cases hh : it.heap with
  | nil => rfl
  | cons c cs =>
    have hc : c ∈ it.heap := by simp [hh]
    have := (Cur.valid_iff (hS.wf c (mem_all.mpr (Or.inl hc))).1).mp (hS.heapValid c hc)
    have : 0 < c.rem.length := List.length_pos_iff.mpr this
    simp only [IndexIterator.ahead, hh, List.map_cons, List.sum_cons] at h
    omega

theorem Struct.ahead_next {sh : Key → Nat} {A : List (Key × V)} {it : IndexIterator V}
    (hS : Struct sh A it) {t : Cur V} {rest : List (Cur V)}
    (hp : popTop it.reverse it.heap = some (t, rest)) : it.next.ahead + 1 = it.ahead := by
  have hperm := popTop_perm hp
  have hth : t ∈ it.heap := hperm.mem_iff.mpr (by simp)
  have hwf := (hS.wf t (mem_all.mpr (Or.inl hth))).1
  have hne := (Cur.valid_iff hwf).mp (hS.heapValid t hth)
  have hnext := Cur.rem_next hwf (hS.heapValid t hth)
  have h1 : it.ahead = t.rem.length + (rest.map (fun c => c.rem.length)).sum := by
    have := (hperm.map (fun c => c.rem.length)).sum_nat
    simpa [IndexIterator.ahead] using this
  have hlen : t.next.rem.length + 1 = t.rem.length := by
    rw [hnext, List.length_tail]
    have : 0 < t.rem.length := List.length_pos_iff.mpr hne
    omega
  rw [next_of_pop hp]
  split
  · simp only [IndexIterator.ahead, List.map_append, List.sum_append_nat, List.map_cons, List.map_nil,
      List.sum_cons, List.sum_nil] at h1 ⊢
    omega
  · rename_i hv
    have : t.next.rem = [] := (Cur.valid_false_iff (Cur.WF_next hwf)).mp (by simpa using hv)
    rw [this] at hlen
    simp only [IndexIterator.ahead] at h1 ⊢
    simp only [List.length_nil] at hlen
    omega

/-- the `skipToNext` loop with enough fuel stops at an item passing the filter (or at the end)
    and does not change the abstract position -/
theorem skipLoop_spec {sh : Key → Nat} {P : Key → Bool} {A : List (Key × V)} {R : List (Key × V)}
    (hR : IsRest P A R) (f : Nat) {it : IndexIterator V} (hS : Struct sh A it) (hRel : Rel sh P it R)
    (hf : it.ahead ≤ f) :
    Struct sh A (skipLoop P f it) ∧ Rel sh P (skipLoop P f it) R ∧ settled P (skipLoop P f it) = true := by
  induction f generalizing it with
  | zero =>
    have hh := hS.ahead_zero (by omega)
    exact ⟨hS, hRel, by simp [skipLoop, settled, IndexIterator.valid, hh]⟩
  | succ f ih =>
    simp only [skipLoop]
    cases hv : it.valid
    · exact ⟨hS, hRel, by simp [settled, hv]⟩
    · simp only [if_true]
      split
      · rename_i hP
        exact ⟨hS, hRel, by simp [settled, hP]⟩
      · rename_i hP
        cases hp : popTop it.reverse it.heap with
        | none =>
          have := popTop_eq_none.mp hp
          simp [IndexIterator.valid, this] at hv
        | some tr =>
          obtain ⟨t, rest⟩ := tr
          obtain ⟨_, x, xs, hx, hk, _, hmin⟩ := hS.top_spec hp
          have hkey : it.key = some x.1 := by simp [IndexIterator.key, IndexIterator.top, hp, hk]
          have hPx : P x.1 = false := by simpa [hkey] using hP
          have hrel := hRel.next hS hR hp hx hmin
          simp only [hPx, Bool.false_eq_true, if_false] at hrel
          have := hS.ahead_next hp
          exact ih hS.next hrel (by omega)

/-! ### creation -/

theorem cursors_range' (typ : IndexType) (rev : Bool) (g : Nat → List (Key × V)) (i m : Nat) :
    IndexIterator.cursors typ rev i ((List.range' i m).map g) =
      (List.range' i m).map (fun s => Cur.new typ rev s (g s)) := by
  induction m generalizing i with
  | zero => rfl
  | succ m ih =>
    simp only [List.range'_succ, List.map_cons, IndexIterator.cursors]
    rw [ih]

theorem iterOrder_filter {α : Type} (rev : Bool) (p : α → Bool) (l : List α) :
    iterOrder rev (l.filter p) = (iterOrder rev l).filter p := by
  unfold iterOrder; split
  · exact List.filter_reverse.symm
  · rfl

theorem mem_iterOrder {α : Type} {rev : Bool} {l : List α} {x : α} : x ∈ iterOrder rev l ↔ x ∈ l := by
  unfold iterOrder; split <;> simp

theorem create_heap (typ : IndexType) (rev : Bool) (sh : Key → Nat) (n : Nat) (idx : List (Key × V)) :
    (IndexIterator.create typ rev (shardsOf sh n idx)).heap =
      ((List.range' 0 n).map (fun s => Cur.new typ rev s (idx.filter (fun x => sh x.1 == s)))).filter
        Cur.valid := by
  simp only [IndexIterator.create, shardsOf, List.range_eq_range']
  rw [cursors_range']

theorem Struct.create (typ : IndexType) (rev : Bool) (sh : Key → Nat) (n : Nat) {idx : List (Key × V)}
    (hs : Sorted false idx) (hsh : ∀ x ∈ idx, sh x.1 < n) :
    Struct sh (iterOrder rev idx) (IndexIterator.create typ rev (shardsOf sh n idx)) := by
  have hall : (IndexIterator.create typ rev (shardsOf sh n idx)).all =
      ((List.range' 0 n).map (fun s => Cur.new typ rev s (idx.filter (fun x => sh x.1 == s)))).filter
        Cur.valid := by
    rw [← create_heap]; simp [IndexIterator.all, IndexIterator.create]
  have hwfnew : ∀ s, (Cur.new typ rev s (idx.filter (fun x => sh x.1 == s))).WF :=
    fun s => Cur.WF_new typ rev s (hs.filter _)
  refine ⟨hs.iterOrder, ?_, ?_, ?_, ?_, ?_⟩
  · rw [hall]
    have hsub : ((((List.range' 0 n).map (fun s => Cur.new typ rev s (idx.filter (fun x => sh x.1 == s)))).filter
        Cur.valid).map Cur.sid).Sublist (List.range' 0 n) := by
      have h1 := (List.filter_sublist (p := Cur.valid)
        (l := (List.range' 0 n).map (fun s => Cur.new typ rev s (idx.filter (fun x => sh x.1 == s))))).map Cur.sid
      have h2 : ((List.range' 0 n).map (fun s => Cur.new typ rev s (idx.filter (fun x => sh x.1 == s)))).map Cur.sid
          = List.range' 0 n := by
        rw [List.map_map]
        have : (Cur.sid ∘ fun s => Cur.new typ rev s (idx.filter (fun x => sh x.1 == s))) = id := by
          funext s; simp
        rw [this, List.map_id]
      rwa [h2] at h1
    exact List.Nodup.sublist hsub List.nodup_range'
  · intro c hc
    rw [hall, List.mem_filter, List.mem_map] at hc
    obtain ⟨⟨s, _, rfl⟩, hv⟩ := hc
    refine ⟨hwfnew s, by simp [IndexIterator.create], ?_, ?_⟩
    · rw [Cur.snap_new, Cur.sid_new, iterOrder_filter]; rfl
    · have := (Cur.valid_iff (hwfnew s)).mp hv
      rwa [Cur.rem_new, ← Cur.snap_new typ rev s] at this
  · intro x hx
    have hx' : x ∈ idx := mem_iterOrder.mp hx
    refine ⟨Cur.new typ rev (sh x.1) (idx.filter (fun y => sh y.1 == sh x.1)), ?_, by simp⟩
    rw [hall, List.mem_filter, List.mem_map]
    refine ⟨⟨sh x.1, by simp [List.mem_range', hsh x hx'], rfl⟩, ?_⟩
    rw [Cur.valid_iff (hwfnew _), Cur.rem_new]
    apply List.ne_nil_of_mem (a := x)
    rw [mem_iterOrder, List.mem_filter]
    exact ⟨hx', by simp⟩
  · intro c hc
    rw [create_heap] at hc
    exact (List.mem_filter.mp hc).2
  · intro c hc
    simp [IndexIterator.create] at hc

theorem Rel.create (typ : IndexType) (rev : Bool) (sh : Key → Nat) (P : Key → Bool) (n : Nat)
    (idx : List (Key × V)) :
    Rel sh P (IndexIterator.create typ rev (shardsOf sh n idx))
      ((iterOrder rev idx).filter (fun x => P x.1)) := by
  intro c hc
  have hall : (IndexIterator.create typ rev (shardsOf sh n idx)).all =
      ((List.range' 0 n).map (fun s => Cur.new typ rev s (idx.filter (fun x => sh x.1 == s)))).filter
        Cur.valid := by
    rw [← create_heap]; simp [IndexIterator.all, IndexIterator.create]
  rw [hall, List.mem_filter, List.mem_map] at hc
  obtain ⟨⟨s, _, rfl⟩, _⟩ := hc
  rw [Cur.rem_new, Cur.sid_new, iterOrder_filter]
  simp only [shardPart, List.filter_filter]
  congr 1
  funext x
  exact Bool.and_comm _ _

/-! ## 8. the simulation -/

/-- the simulation relation before `skipToNext` has run: the abstract cursor `a` over the filtered
    snapshot describes what all cursors of `it` still have ahead among the keys passing `P` -/
structure PreSim (sh : Key → Nat) (P : Key → Bool) (A : List (Key × V)) (it : IndexIterator V)
    (a : Abs V) : Prop where
  struct : Struct sh A it
  rel : Rel sh P it (a.A.drop a.i)
  hA : a.A = A.filter (fun x => P x.1)
  hrev : a.reverse = it.reverse

/-- ... and after it: the heap top passes `P` (or the heap is empty) -/
structure Sim (sh : Key → Nat) (P : Key → Bool) (A : List (Key × V)) (it : IndexIterator V)
    (a : Abs V) : Prop extends PreSim sh P A it a where
  settled : settled P it = true

theorem PreSim.isRest {sh : Key → Nat} {P : Key → Bool} {A : List (Key × V)} {it : IndexIterator V}
    {a : Abs V} (h : PreSim sh P A it a) : IsRest P A (a.A.drop a.i) := by
  unfold IsRest; rw [← h.hA]; exact List.drop_suffix _ _

theorem Sim.isRest {sh : Key → Nat} {P : Key → Bool} {A : List (Key × V)} {it : IndexIterator V}
    {a : Abs V} (h : Sim sh P A it a) : IsRest P A (a.A.drop a.i) := h.toPreSim.isRest

theorem Sim.obs {sh : Key → Nat} {P : Key → Bool} {A : List (Key × V)} {it : IndexIterator V}
    {a : Abs V} (h : Sim sh P A it a) : it.obs = a.obs := by
  obtain ⟨h1, h2, h3⟩ := obs_of_rel h.struct h.rel h.isRest h.settled
  simp only [IndexIterator.obs, Abs.obs, h1, h2, h3, Abs.valid, Abs.key, Abs.value, List.head?_drop]
  congr 1
  by_cases hlt : a.i < a.A.length
  · have : a.A.drop a.i ≠ [] := by
      intro h0; have := List.drop_eq_nil_iff.mp h0; omega
    simp [hlt, this]
  · have : a.A.drop a.i = [] := List.drop_eq_nil_iff.mpr (by omega)
    simp [hlt, this]

theorem rewind_reverse (it : IndexIterator V) : it.rewind.reverse = it.reverse := rfl

theorem seek_reverse (k : Key) (it : IndexIterator V) : (it.seek k).reverse = it.reverse := by
  by_cases hh : it.heap = []
  · rw [seek_invalid k hh]
  · cases hp : it.passed k
    · rw [seek_valid k hh hp]
    · rw [seek_passed k hp]

theorem next_reverse (it : IndexIterator V) : it.next.reverse = it.reverse := by
  cases hp : popTop it.reverse it.heap with
  | none => rw [next_invalid (popTop_eq_none.mp hp)]
  | some tr => rw [next_of_pop hp]; split <;> rfl

theorem skipLoop_reverse (P : Key → Bool) (f : Nat) (it : IndexIterator V) :
    (skipLoop P f it).reverse = it.reverse := by
  induction f generalizing it with
  | zero => rfl
  | succ f ih =>
    simp only [skipLoop]
    split
    · split
      · rfl
      · rw [ih, next_reverse]
    · rfl

/-! ### the abstract `Seek` -/

theorem lowerBound_le_of_passed {rev : Bool} {k : Key} {A : List (Key × V)} {i : Nat} (hi : i < A.length)
    (h : before rev k A[i].1 = true) : Abs.lowerBound rev k A ≤ i := by
  by_cases hlt : i < Abs.lowerBound rev k A
  · have := List.not_of_lt_findIdx hlt
    simp [before_asymm h] at this
  · omega

theorem le_lowerBound_of_not_passed {rev : Bool} {k : Key} {A : List (Key × V)} {i : Nat} (hs : Sorted rev A)
    (hi : i < A.length) (h : before rev k A[i].1 = false) : i ≤ Abs.lowerBound rev k A := by
  apply List.le_findIdx_of_not hi
  intro j hji
  have hj := (List.pairwise_iff_getElem.mp hs) j i (by omega) hi hji
  rcases before_cotrans k hj with h1 | h2
  · simp [h1]
  · rw [h] at h2; cases h2

theorem Abs.seek_A (k : Key) (a : Abs V) : (a.seek k).A = a.A := by
  unfold Abs.seek; split <;> rfl

theorem Abs.seek_reverse (k : Key) (a : Abs V) : (a.seek k).reverse = a.reverse := by
  unfold Abs.seek; split <;> rfl

/-- `Seek` on an exhausted cursor does nothing -/
theorem Abs.seek_exhausted {a : Abs V} (k : Key) (h : ¬ a.i < a.A.length) : a.seek k = a := by
  unfold Abs.seek
  rw [if_neg (fun hc => h hc.1)]

/-- a target at or ahead of the cursor: `Seek` is the absolute positioning -/
theorem Abs.seek_eq_seekTo {a : Abs V} {k : Key} (h : a.i ≤ Abs.lowerBound a.reverse k a.A) :
    a.seek k = a.seekTo k := by
  unfold Abs.seek Abs.seekTo
  split
  · rfl
  · rename_i hc
    have hle : Abs.lowerBound a.reverse k a.A ≤ a.A.length := List.findIdx_le_length
    have : Abs.lowerBound a.reverse k a.A = a.i := by
      by_cases hi : a.i < a.A.length
      · exact absurd ⟨hi, h⟩ hc
      · omega
    rw [this]

/-- a target before the current key: `Seek` does nothing -/
theorem Abs.seek_passed {a : Abs V} {k : Key} (hi : a.i < a.A.length)
    (h : before a.reverse k a.A[a.i].1 = true) : a.seek k = a := by
  have hle := lowerBound_le_of_passed hi h
  unfold Abs.seek
  split
  · rename_i hc
    have : Abs.lowerBound a.reverse k a.A = a.i := by omega
    rw [this]
  · rfl

/-- a target not before the current key is at or ahead of the cursor -/
theorem Abs.seek_ahead {a : Abs V} {k : Key} (hs : Sorted a.reverse a.A) (hi : a.i < a.A.length)
    (h : before a.reverse k a.A[a.i].1 = false) :
    a.i ≤ Abs.lowerBound a.reverse k a.A ∧ a.seek k = a.seekTo k :=
  have hle := le_lowerBound_of_not_passed hs hi h
  ⟨hle, Abs.seek_eq_seekTo hle⟩

/-- one raw call on the index iterator (before `skipToNext`) -/
theorem Sim.step_raw {sh : Key → Nat} {P : Key → Bool} {A : List (Key × V)} {it : IndexIterator V}
    {a : Abs V} (h : Sim sh P A it a) (c : Call) :
    PreSim sh P A (it.step c) (a.step c) := by
  have hR := h.isRest
  -- the raw call moves the abstract position as specified ...
  have key : Struct sh A (it.step c) ∧ Rel sh P (it.step c) ((a.step c).A.drop (a.step c).i) ∧
      (a.step c).A = a.A ∧ (a.step c).reverse = a.reverse ∧ (it.step c).reverse = it.reverse := by
    cases c with
    | rewind =>
      refine ⟨h.struct.rewind, ?_, rfl, rfl, rfl⟩
      simp only [Abs.step, Abs.rewind, List.drop_zero, h.hA]
      exact Rel.rewind h.struct
    | next =>
      refine ⟨h.struct.next, ?_, ?_, ?_, ?_⟩
      · cases hp : popTop it.reverse it.heap with
        | none =>
          have hh := popTop_eq_none.mp hp
          have hnil := h.rel.nil_of_heap_nil h.struct hR hh
          have : a.A.length ≤ a.i := List.drop_eq_nil_iff.mp hnil
          simp only [IndexIterator.step, Abs.step, Abs.next, next_invalid hh]
          rw [if_neg (by omega)]
          exact h.rel
        | some tr =>
          obtain ⟨t, rest⟩ := tr
          obtain ⟨hperm, x, xs, hx, hk, _, hmin⟩ := h.struct.top_spec hp
          have hth : t ∈ it.heap := hperm.mem_iff.mpr (by simp)
          have hvalid : it.valid = true := by
            simp [IndexIterator.valid, List.ne_nil_of_mem hth]
          have hkey : it.key = some x.1 := by simp [IndexIterator.key, IndexIterator.top, hp, hk]
          have hP : P x.1 = true := by simpa [ShardIter.settled, hvalid, hkey] using h.settled
          have hrel := h.rel.next h.struct hR hp hx hmin
          simp only [hP, if_true] at hrel
          obtain ⟨R', hR'⟩ := h.rel.head h.struct hR hth hx hmin hP
          have hlt : a.i < a.A.length := by
            have : a.A.drop a.i ≠ [] := by rw [hR']; simp
            have := mt List.drop_eq_nil_iff.mpr this
            omega
          simp only [IndexIterator.step, Abs.step, Abs.next, if_pos hlt]
          rw [List.tail_drop] at hrel
          exact hrel
      · simp only [Abs.step, Abs.next]; split <;> rfl
      · simp only [Abs.step, Abs.next]; split <;> rfl
      · exact next_reverse it
    | seek k =>
      refine ⟨h.struct.seek k, ?_, Abs.seek_A k a, Abs.seek_reverse k a, seek_reverse k it⟩
      simp only [IndexIterator.step, Abs.step]
      cases hp : popTop it.reverse it.heap with
      | none =>
        -- exhausted: both sides ignore the call
        have hh := popTop_eq_none.mp hp
        have hnil := h.rel.nil_of_heap_nil h.struct hR hh
        have : a.A.length ≤ a.i := List.drop_eq_nil_iff.mp hnil
        rw [seek_invalid k hh, Abs.seek_exhausted k (by omega)]
        exact h.rel
      | some tr =>
        obtain ⟨t, rest⟩ := tr
        obtain ⟨hperm, x, xs, hx, hk, _, hmin⟩ := h.struct.top_spec hp
        have hth : t ∈ it.heap := hperm.mem_iff.mpr (by simp)
        have hne : it.heap ≠ [] := List.ne_nil_of_mem hth
        have hvalid : it.valid = true := by simp [IndexIterator.valid, hne]
        have hkey : it.key = some x.1 := by simp [IndexIterator.key, IndexIterator.top, hp, hk]
        have hP : P x.1 = true := by simpa [ShardIter.settled, hvalid, hkey] using h.settled
        obtain ⟨R', hR'⟩ := h.rel.head h.struct hR hth hx hmin hP
        have hlt : a.i < a.A.length := by
          have : a.A.drop a.i ≠ [] := by rw [hR']; simp
          have := mt List.drop_eq_nil_iff.mpr this
          omega
        have hcell : a.A[a.i] = x := by
          have := List.drop_eq_getElem_cons hlt
          rw [hR'] at this
          exact (List.cons.inj this).1.symm
        have hpassed : it.passed k = before a.reverse k a.A[a.i].1 := by
          simp [IndexIterator.passed, hkey, hcell, h.hrev]
        cases hpk : it.passed k
        · -- the target has not been passed: it is at or ahead of the abstract cursor
          have hsA : Sorted a.reverse a.A := by
            rw [h.hA, h.hrev]; exact h.struct.sorted.filter _
          obtain ⟨hle, hseek⟩ := Abs.seek_ahead hsA hlt (by rw [← hpassed]; exact hpk)
          have hdrop : a.A.drop (Abs.lowerBound a.reverse k a.A) =
              (A.filter (fun x => P x.1)).dropWhile (fun x => before it.reverse x.1 k) := by
            rw [Abs.lowerBound, drop_findIdx, h.hA, h.hrev]; simp
          rw [hseek]
          simp only [Abs.seekTo]
          rw [hdrop]
          apply h.rel.seek h.struct k hne hpk
          rw [← hdrop]
          have : a.A.drop (Abs.lowerBound a.reverse k a.A) =
              (a.A.drop a.i).drop (Abs.lowerBound a.reverse k a.A - a.i) := by
            rw [List.drop_drop]; congr 1; omega
          rw [this]
          exact List.drop_suffix _ _
        · -- the target lies before the current key: both sides ignore the call
          rw [seek_passed k hpk, Abs.seek_passed hlt (by rw [← hpassed]; exact hpk)]
          exact h.rel
  obtain ⟨hS', hRel', hA', hrev', hrev''⟩ := key
  exact ⟨hS', hRel', by rw [hA', h.hA], by rw [hrev', h.hrev, ← hrev'']⟩

/-- running the `skipToNext` loop with enough fuel -/
theorem PreSim.skip {sh : Key → Nat} {P : Key → Bool} {A : List (Key × V)} {it : IndexIterator V}
    {a : Abs V} (h : PreSim sh P A it a) {f : Nat} (hf : it.ahead ≤ f) :
    Sim sh P A (skipLoop P f it) a := by
  obtain ⟨h1, h2, h3⟩ := skipLoop_spec h.isRest f h.struct h.rel hf
  exact ⟨⟨h1, h2, h.hA, by rw [h.hrev, skipLoop_reverse]⟩, h3⟩

/-- no filter: nothing to skip -/
theorem PreSim.of_all {sh : Key → Nat} {P : Key → Bool} {A : List (Key × V)} {it : IndexIterator V}
    {a : Abs V} (h : PreSim sh P A it a) (hP : ∀ k, P k = true) : Sim sh P A it a :=
  ⟨h, by simp [ShardIter.settled, hP]⟩

theorem PreSim.create (typ : IndexType) (rev : Bool) (sh : Key → Nat) (P : Key → Bool) (n : Nat)
    {idx : List (Key × V)} (hs : Sorted false idx) (hsh : ∀ x ∈ idx, sh x.1 < n) :
    PreSim sh P (iterOrder rev idx) (IndexIterator.create typ rev (shardsOf sh n idx))
      { reverse := rev, A := (iterOrder rev idx).filter (fun x => P x.1), i := 0 } :=
  ⟨Struct.create typ rev sh n hs hsh, by simpa using Rel.create typ rev sh P n idx, rfl, rfl⟩

/-! ## 9. traces -/

theorem admissible_cons {a : Abs V} {c : Call} {cs : List Call} (h : a.admissible (c :: cs) = true) :
    a.admissible [c] = true ∧ (a.stepTo c).admissible cs = true := by
  simp only [Abs.admissible, Bool.and_eq_true, Bool.and_true] at h ⊢
  exact h

/-- on an admissible call a forward-only `Seek` is the absolute positioning -/
theorem Abs.step_eq_stepTo {a : Abs V} {c : Call} (h : a.admissible [c] = true) : a.step c = a.stepTo c := by
  cases c with
  | rewind => rfl
  | next => rfl
  | seek k =>
    have hle : a.i ≤ Abs.lowerBound a.reverse k a.A := by simpa [Abs.admissible] using h
    exact Abs.seek_eq_seekTo hle

/-- nothing that was claimed for admissible call sequences is lost: on them the forward-only
    abstract cursor shows what the cursor with the absolute `seekTo` shows -/
theorem Abs.trace_eq_traceTo (calls : List Call) : ∀ {a : Abs V}, a.admissible calls = true →
    a.trace calls = a.traceTo calls := by
  induction calls with
  | nil => intro a _; rfl
  | cons c cs ih =>
    intro a h
    obtain ⟨h1, h2⟩ := admissible_cons h
    simp only [Abs.trace, Abs.traceTo, Abs.step_eq_stepTo h1, ih h2]

/-- index level (no filter) -/
theorem trace_index {sh : Key → Nat} {A : List (Key × V)} {it : IndexIterator V} {a : Abs V}
    (h : Sim sh (fun _ => true) A it a) (calls : List Call) :
    it.trace calls = a.trace calls := by
  induction calls generalizing it a with
  | nil => simp [IndexIterator.trace, Abs.trace, h.obs]
  | cons c cs ih =>
    simp only [IndexIterator.trace, Abs.trace, h.obs]
    rw [ih ((h.step_raw c).of_all (fun _ => rfl))]

theorem size_zero_eq_empty {b : ByteArray} (h : b.size = 0) : b = ByteArray.empty := by
  cases b with
  | mk d =>
    have : d = #[] := Array.eq_empty_of_size_eq_zero h
    subst this; rfl

theorem hasPrefix_of_size_zero {pre : Key} (h : pre.size = 0) (k : Key) : hasPrefix pre k = true := by
  have := size_zero_eq_empty h
  subst this
  simp only [hasPrefix, decide_eq_true_eq]
  refine ⟨Nat.zero_le _, ?_⟩
  apply ByteArray.ext
  simp

/-- DB level: the simulation for `DBIter` with prefix `pre` -/
def DSim (sh : Key → Nat) (A : List (Key × V)) (it : DBIter V) (a : Abs V) : Prop :=
  Sim sh (hasPrefix it.pre) A it.indexIter a

theorem PreSim.skipToNext {sh : Key → Nat} {A : List (Key × V)} {it : DBIter V} {a : Abs V}
    (h : PreSim sh (hasPrefix it.pre) A it.indexIter a) : DSim sh A it.skipToNext a := by
  unfold DBIter.skipToNext DSim
  split
  · rename_i h0
    exact h.of_all (hasPrefix_of_size_zero h0)
  · exact h.skip (ahead_le_fuel _)

theorem pre_skipToNext (it : DBIter V) : it.skipToNext.pre = it.pre := by
  unfold DBIter.skipToNext; split <;> rfl

theorem DSim.step {sh : Key → Nat} {A : List (Key × V)} {it : DBIter V} {a : Abs V}
    (h : DSim sh A it a) (c : Call) :
    DSim sh A (it.step c) (a.step c) := by
  have := Sim.step_raw h c
  cases c <;> exact PreSim.skipToNext (it := { it with indexIter := _ }) this

theorem trace_db {sh : Key → Nat} {A : List (Key × V)} {it : DBIter V} {a : Abs V}
    (h : DSim sh A it a) (calls : List Call) :
    it.trace calls = a.trace calls := by
  induction calls generalizing it a with
  | nil => simp [DBIter.trace, Abs.trace, DBIter.obs, DBIter.valid, DBIter.key, DBIter.value,
      ← Sim.obs h, IndexIterator.obs]
  | cons c cs ih =>
    simp only [DBIter.trace, Abs.trace]
    rw [ih (h.step c)]
    simp [DBIter.obs, DBIter.valid, DBIter.key, DBIter.value, ← Sim.obs h, IndexIterator.obs]

theorem DSim.new (typ : IndexType) (rev : Bool) (pre : Key) (sh : Key → Nat) (n : Nat)
    {idx : List (Key × V)} (hs : Sorted false idx) (hsh : ∀ x ∈ idx, sh x.1 < n) :
    DSim sh (iterOrder rev idx) (DBIter.new typ rev pre (shardsOf sh n idx)) (Abs.new rev pre idx) :=
  PreSim.skipToNext (it := { indexIter := _, pre := pre }) (PreSim.create typ rev sh (hasPrefix pre) n hs hsh)

theorem Sim.create (typ : IndexType) (rev : Bool) (sh : Key → Nat) (n : Nat)
    {idx : List (Key × V)} (hs : Sorted false idx) (hsh : ∀ x ∈ idx, sh x.1 < n) :
    Sim sh (fun _ => true) (iterOrder rev idx) (IndexIterator.create typ rev (shardsOf sh n idx))
      (Abs.newIndex rev idx) := by
  have := (PreSim.create typ rev sh (fun _ => true) n hs hsh).of_all (fun _ => rfl)
  have e : (iterOrder rev idx).filter (fun _ => true) = iterOrder rev idx :=
    List.filter_eq_self.mpr (fun _ _ => rfl)
  rw [e] at this
  exact this

/-! ## 10. runs and full enumeration -/

theorem Sim.run {sh : Key → Nat} {A : List (Key × V)} {it : IndexIterator V} {a : Abs V}
    (h : Sim sh (fun _ => true) A it a) (calls : List Call) :
    Sim sh (fun _ => true) A (it.run calls) (a.run calls) := by
  induction calls generalizing it a with
  | nil => exact h
  | cons c cs ih => exact ih ((h.step_raw c).of_all (fun _ => rfl))

theorem DSim.run {sh : Key → Nat} {A : List (Key × V)} {it : DBIter V} {a : Abs V}
    (h : DSim sh A it a) (calls : List Call) :
    DSim sh A (it.run calls) (a.run calls) := by
  induction calls generalizing it a with
  | nil => exact h
  | cons c cs ih => exact ih (h.step c)

/-- the items as the loop body sees them -/
def seen (l : List (Key × V)) : List (Option Key × Option V) := l.map (fun x => (some x.1, some x.2))

theorem abs_next_drop {a : Abs V} {x : Key × V} {R' : List (Key × V)} (h : a.A.drop a.i = x :: R') :
    a.next.A = a.A ∧ a.next.i = a.i + 1 ∧ a.next.A.drop a.next.i = R' := by
  have hlt : a.i < a.A.length := by
    have : a.A.drop a.i ≠ [] := by rw [h]; simp
    have := mt List.drop_eq_nil_iff.mpr this
    omega
  simp only [Abs.next, if_pos hlt, true_and]
  rw [← List.drop_drop, h]; rfl

theorem Sim.collect {sh : Key → Nat} {A : List (Key × V)} (f : Nat) {it : IndexIterator V} {a : Abs V}
    (h : Sim sh (fun _ => true) A it a) (hf : (a.A.drop a.i).length ≤ f) :
    it.collect f = seen (a.A.drop a.i) := by
  induction f generalizing it a with
  | zero =>
    have : a.A.drop a.i = [] := List.length_eq_zero_iff.mp (by omega)
    simp [IndexIterator.collect, this, seen]
  | succ f ih =>
    obtain ⟨h1, h2, h3⟩ := obs_of_rel h.struct h.rel h.isRest h.settled
    cases hR : a.A.drop a.i with
    | nil => simp [IndexIterator.collect, h1, hR, seen]
    | cons x R' =>
      obtain ⟨_, _, hd⟩ := abs_next_drop hR
      have hn : Sim sh (fun _ => true) A it.next a.next :=
        (h.step_raw .next).of_all (fun _ => rfl)
      have := ih hn (by rw [hd]; rw [hR] at hf; simpa using hf)
      simp only [IndexIterator.collect, h1, h2, h3, hR, List.isEmpty_cons, Bool.not_false, if_true,
        List.head?_cons, Option.map_some, this, hd, seen, List.map_cons]

theorem DSim.collect {sh : Key → Nat} {A : List (Key × V)} (f : Nat) {it : DBIter V} {a : Abs V}
    (h : DSim sh A it a) (hf : (a.A.drop a.i).length ≤ f) :
    it.collect f = seen (a.A.drop a.i) := by
  induction f generalizing it a with
  | zero =>
    have : a.A.drop a.i = [] := List.length_eq_zero_iff.mp (by omega)
    simp [DBIter.collect, this, seen]
  | succ f ih =>
    obtain ⟨h1, h2, h3⟩ := obs_of_rel h.struct h.rel h.isRest h.settled
    cases hR : a.A.drop a.i with
    | nil => simp [DBIter.collect, DBIter.valid, h1, hR, seen]
    | cons x R' =>
      obtain ⟨_, _, hd⟩ := abs_next_drop hR
      have hn : DSim sh A it.next a.next := h.step .next
      have := ih hn (by rw [hd]; rw [hR] at hf; simpa using hf)
      simp only [DBIter.collect, DBIter.valid, DBIter.key, DBIter.value, h1, h2, h3, hR,
        List.isEmpty_cons, Bool.not_false, if_true,
        List.head?_cons, Option.map_some, this, hd, seen, List.map_cons]

theorem sorted_of_pairwise {idx : List (Key × V)} (h : idx.Pairwise (fun a b => keyLt a.1 b.1 = true)) :
    Sorted false idx := by
  simpa [Sorted, before] using h

theorem iterOrder_length {α : Type} (rev : Bool) (l : List α) : (iterOrder rev l).length = l.length := by
  unfold iterOrder; split <;> simp

theorem complete_db {sh : Key → Nat} {A : List (Key × V)} {it : DBIter V} {a : Abs V}
    (h : DSim sh A it a) (calls : List Call) (fuel : Nat)
    (hfuel : a.A.length ≤ fuel) :
    ((it.run calls).rewind.collect fuel) = a.A.map (fun x => (some x.1, some x.2)) := by
  have h1 := (h.run calls).step .rewind
  have hA : ∀ (cs : List Call) (b : Abs V), (b.run cs).A = b.A := by
    intro cs
    induction cs with
    | nil => intro b; rfl
    | cons c cs ih =>
      intro b
      simp only [Abs.run, List.foldl_cons] at ih ⊢
      rw [ih]
      cases c
      · rfl
      · simp only [Abs.step, Abs.next]; split <;> rfl
      · exact Abs.seek_A _ _
  have := DSim.collect fuel h1 (by
    simp only [Abs.step, Abs.rewind, List.drop_zero, hA]; exact hfuel)
  simpa [Abs.step, Abs.rewind, hA, seen, DBIter.step] using this

theorem complete_index {sh : Key → Nat} {A : List (Key × V)} {it : IndexIterator V} {a : Abs V}
    (h : Sim sh (fun _ => true) A it a) (fuel : Nat) (hfuel : a.A.length ≤ fuel) :
    (it.rewind.collect fuel) = a.A.map (fun x => (some x.1, some x.2)) := by
  have h1 : Sim sh (fun _ => true) A it.rewind a.rewind := (h.step_raw .rewind).of_all (fun _ => rfl)
  have := Sim.collect fuel h1 (by simpa [Abs.rewind] using hfuel)
  simpa [Abs.rewind, seen] using this

/-! ## 11. the index type is not observable (any call sequence)

Two cursors with the same identity, snapshot and remaining list — e.g. a B-tree cursor and an
array cursor created from the same shard — stay so under every cursor call `IndexIterator` makes
(`seek`/`next` on valid cursors only, `rewind` on non-empty snapshots only), and show the same
`valid/key/value`.  Hence the B-tree cursor's `isIterable` early returns are never exercised and
iterators over different index types have equal traces for *all* call sequences. -/

structure Cur.Same (c d : Cur V) : Prop where
  sid : c.sid = d.sid
  rev : c.rev = d.rev
  snap : c.snap = d.snap
  rem : c.rem = d.rem
  wfc : c.WF
  wfd : d.WF
  ne : c.snap ≠ []

namespace Cur.Same
variable {c d : Cur V}

theorem valid (h : Same c d) : c.valid = d.valid := by
  cases hv : d.valid
  · rw [Cur.valid_false_iff h.wfc, h.rem, ← Cur.valid_false_iff h.wfd]; exact hv
  · rw [Cur.valid_iff h.wfc, h.rem, ← Cur.valid_iff h.wfd]; exact hv

theorem key (h : Same c d) : c.key = d.key := by rw [Cur.key_eq h.wfc, Cur.key_eq h.wfd, h.rem]
theorem value (h : Same c d) : c.value = d.value := by rw [Cur.value_eq h.wfc, Cur.value_eq h.wfd, h.rem]
theorem keyD (h : Same c d) : c.keyD = d.keyD := by simp [Cur.keyD, h.key]

theorem rewind (h : Same c d) : Same c.rewind d.rewind :=
  ⟨by simp [h.sid], by simp [h.rev], by simp [h.snap],
   by rw [Cur.rem_rewind h.ne, Cur.rem_rewind (h.snap ▸ h.ne), h.snap],
   Cur.WF_rewind h.wfc, Cur.WF_rewind h.wfd, by simpa using h.ne⟩

theorem seek (k : Key) (h : Same c d) (hv : c.valid = true) : Same (c.seek k) (d.seek k) :=
  ⟨by simp [h.sid], by simp [h.rev], by simp [h.snap],
   by rw [Cur.rem_seek k h.wfc hv, Cur.rem_seek k h.wfd (h.valid ▸ hv), h.snap, h.rev],
   Cur.WF_seek k h.wfc, Cur.WF_seek k h.wfd, by simpa using h.ne⟩

theorem next (h : Same c d) (hv : c.valid = true) : Same c.next d.next :=
  ⟨by simp [h.sid], by simp [h.rev], by simp [h.snap],
   by rw [Cur.rem_next h.wfc hv, Cur.rem_next h.wfd (h.valid ▸ hv), h.rem],
   Cur.WF_next h.wfc, Cur.WF_next h.wfd, by simpa using h.ne⟩

end Cur.Same

/-- pointwise `Cur.Same` -/
inductive SameL : List (Cur V) → List (Cur V) → Prop where
  | nil : SameL [] []
  | cons {c d : Cur V} {l m : List (Cur V)} : Cur.Same c d → SameL l m → SameL (c :: l) (d :: m)

namespace SameL

theorem append {l m l' m' : List (Cur V)} (h : SameL l m) (h' : SameL l' m') : SameL (l ++ l') (m ++ m') := by
  induction h with
  | nil => exact h'
  | cons hc _ ih => exact .cons hc ih

theorem map {f g : Cur V → Cur V} {l m : List (Cur V)} (h : SameL l m)
    (hf : ∀ c d, c ∈ l → Cur.Same c d → Cur.Same (f c) (g d)) : SameL (l.map f) (m.map g) := by
  induction h with
  | nil => exact .nil
  | cons hc _ ih =>
    exact .cons (hf _ _ (by simp) hc) (ih (fun c d hm => hf c d (by simp [hm])))

theorem filter {p : Cur V → Bool} {l m : List (Cur V)} (h : SameL l m)
    (hp : ∀ c d, Cur.Same c d → p c = p d) : SameL (l.filter p) (m.filter p) := by
  induction h with
  | nil => exact .nil
  | cons hc _ ih =>
    simp only [List.filter_cons, hp _ _ hc]
    split
    · exact .cons hc ih
    · exact ih

theorem left_mem {l m : List (Cur V)} (h : SameL l m) {c : Cur V} (hc : c ∈ l) : ∃ d, Cur.Same c d := by
  induction h with
  | nil => cases hc
  | cons hcd _ ih =>
    rcases List.mem_cons.mp hc with rfl | hc
    · exact ⟨_, hcd⟩
    · exact ih hc

theorem isNil {l m : List (Cur V)} (h : SameL l m) : l = [] ↔ m = [] := by
  cases h <;> simp

theorem popTop {rev : Bool} {l m : List (Cur V)} (h : SameL l m) :
    (popTop rev l = none ∧ popTop rev m = none) ∨
    ∃ t r t' r', popTop rev l = some (t, r) ∧ popTop rev m = some (t', r') ∧ Cur.Same t t' ∧ SameL r r' := by
  induction h with
  | nil => exact Or.inl ⟨rfl, rfl⟩
  | cons hc hl ih =>
    rename_i c d l m
    right
    rcases ih with ⟨h1, h2⟩ | ⟨t, r, t', r', h1, h2, ht, hr⟩
    · have e1 := popTop_eq_none.mp h1
      have e2 := popTop_eq_none.mp h2
      subst e1 e2
      exact ⟨c, [], d, [], rfl, rfl, hc, .nil⟩
    · simp only [ShardIter.popTop, h1, h2, ht.keyD, hc.keyD]
      split
      · exact ⟨t, c :: r, t', d :: r', rfl, rfl, ht, .cons hc hr⟩
      · exact ⟨c, t :: r, d, t' :: r', rfl, rfl, hc, .cons ht hr⟩

end SameL

structure ItSame (it jt : IndexIterator V) : Prop where
  rev : it.reverse = jt.reverse
  heap : SameL it.heap jt.heap
  old : SameL it.oldItems jt.oldItems
  heapValid : ∀ c ∈ it.heap, c.valid = true

theorem ItSame.obs {it jt : IndexIterator V} (h : ItSame it jt) : it.obs = jt.obs := by
  have hv : it.valid = jt.valid := by
    simp only [IndexIterator.valid]
    by_cases e : it.heap = []
    · simp [e, h.heap.isNil.mp e]
    · have e' := mt h.heap.isNil.mpr e
      obtain ⟨a, as, ha⟩ := List.exists_cons_of_ne_nil e
      obtain ⟨b, bs, hb⟩ := List.exists_cons_of_ne_nil e'
      simp [ha, hb]
  simp only [IndexIterator.obs, IndexIterator.key, IndexIterator.value, IndexIterator.top, hv, ← h.rev]
  rcases h.heap.popTop (rev := it.reverse) with ⟨h1, h2⟩ | ⟨t, r, t', r', h1, h2, ht, _⟩
  · simp [h1, h2]
  · simp [h1, h2, ht.key, ht.value]

theorem ItSame.step {it jt : IndexIterator V} (h : ItSame it jt) (c : Call) :
    ItSame (it.step c) (jt.step c) := by
  cases c with
  | rewind =>
    refine ⟨h.rev, ?_, .nil, ?_⟩
    · exact (h.heap.map (fun _ _ _ hs => hs.rewind)).append (h.old.map (fun _ _ _ hs => hs.rewind))
    · intro c hc
      simp only [IndexIterator.step, IndexIterator.rewind, List.mem_append, List.mem_map] at hc
      have : ∃ c0 d, Cur.Same c0 d ∧ c = c0.rewind := by
        rcases hc with ⟨c0, hc0, rfl⟩ | ⟨c0, hc0, rfl⟩
        · obtain ⟨d, hd⟩ := h.heap.left_mem hc0; exact ⟨c0, d, hd, rfl⟩
        · obtain ⟨d, hd⟩ := h.old.left_mem hc0; exact ⟨c0, d, hd, rfl⟩
      obtain ⟨c0, d, hs, rfl⟩ := this
      rw [Cur.valid_iff (Cur.WF_rewind hs.wfc), Cur.rem_rewind hs.ne]
      exact hs.ne
  | next =>
    simp only [IndexIterator.step]
    rcases h.heap.popTop (rev := it.reverse) with ⟨h1, h2⟩ | ⟨t, r, t', r', h1, h2, ht, hr⟩
    · rw [next_invalid (popTop_eq_none.mp h1), next_invalid (popTop_eq_none.mp h2)]; exact h
    · have hperm := popTop_perm h1
      have htv : t.valid = true := h.heapValid t (hperm.mem_iff.mpr (by simp))
      have hn := ht.next htv
      rw [next_of_pop h1, next_of_pop (h.rev ▸ h2), ← hn.valid]
      split
      · rename_i hv
        refine ⟨h.rev, hr.append (.cons hn .nil), h.old, ?_⟩
        intro c hc
        simp only [List.mem_append, List.mem_singleton] at hc
        rcases hc with hc | rfl
        · exact h.heapValid c (hperm.mem_iff.mpr (List.mem_cons_of_mem _ hc))
        · exact hv
      · refine ⟨h.rev, hr, h.old.append (.cons hn .nil), ?_⟩
        intro c hc
        exact h.heapValid c (hperm.mem_iff.mpr (List.mem_cons_of_mem _ hc))
  | seek k =>
    simp only [IndexIterator.step]
    by_cases e : it.heap = []
    · rw [seek_invalid k e, seek_invalid k (h.heap.isNil.mp e)]; exact h
    · have hpass : it.passed k = jt.passed k := by
        have := congrArg Obs.key h.obs
        simp only [IndexIterator.obs] at this
        simp only [IndexIterator.passed, this, h.rev]
      cases hp : it.passed k
      case true => rw [seek_passed k hp, seek_passed k (hpass ▸ hp)]; exact h
      rw [seek_valid k e hp, seek_valid k (mt h.heap.isNil.mpr e) (hpass ▸ hp)]
      have hitems : SameL (it.heap.map (Cur.seek k)) (jt.heap.map (Cur.seek k)) :=
        h.heap.map (fun c _ hc hs => hs.seek k (h.heapValid c hc))
      refine ⟨h.rev, hitems.filter (fun _ _ hs => hs.valid), ?_, ?_⟩
      · exact h.old.append (hitems.filter (fun _ _ hs => by rw [hs.valid]))
      · intro c hc
        exact (List.mem_filter.mp hc).2

theorem ItSame.trace {it jt : IndexIterator V} (h : ItSame it jt) (calls : List Call) :
    it.trace calls = jt.trace calls := by
  induction calls generalizing it jt with
  | nil => simp [IndexIterator.trace, h.obs]
  | cons c cs ih => simp only [IndexIterator.trace, h.obs, ih (h.step c)]

theorem Cur.Same.new (typ typ' : IndexType) (r : Bool) (s : Nat) {l : List (Key × V)} (hs : Sorted false l)
    (hne : l ≠ []) : Cur.Same (Cur.new typ r s l) (Cur.new typ' r s l) :=
  ⟨by simp, by simp, by simp, by rw [Cur.rem_new, Cur.rem_new], Cur.WF_new typ r s hs, Cur.WF_new typ' r s hs,
   by rw [Cur.snap_new]; unfold iterOrder; split <;> simpa using hne⟩

theorem ItSame.create (typ typ' : IndexType) (rev : Bool) {shards : List (List (Key × V))}
    (hs : ∀ s ∈ shards, Sorted false s) :
    ItSame (IndexIterator.create typ rev shards) (IndexIterator.create typ' rev shards) := by
  have key : ∀ (i : Nat) (shards : List (List (Key × V))), (∀ s ∈ shards, Sorted false s) →
      SameL ((IndexIterator.cursors typ rev i shards).filter Cur.valid)
        ((IndexIterator.cursors typ' rev i shards).filter Cur.valid) := by
    intro i shards
    induction shards generalizing i with
    | nil => intro _; exact .nil
    | cons s ss ih =>
      intro hs
      have hss := hs s (by simp)
      simp only [IndexIterator.cursors, List.filter_cons]
      by_cases hne : s = []
      · subst hne
        have e1 : (Cur.new typ rev i ([] : List (Key × V))).valid = false := by
          rw [Cur.valid_false_iff (Cur.WF_new typ rev i hss), Cur.rem_new]; simp [iterOrder]
        have e2 : (Cur.new typ' rev i ([] : List (Key × V))).valid = false := by
          rw [Cur.valid_false_iff (Cur.WF_new typ' rev i hss), Cur.rem_new]; simp [iterOrder]
        simp only [e1, e2, Bool.false_eq_true, if_false]
        exact ih (i + 1) (fun s' h' => hs s' (by simp [h']))
      · have hsame := Cur.Same.new typ typ' rev i hss hne
        have e1 : (Cur.new typ rev i s).valid = true := by
          rw [Cur.valid_iff hsame.wfc, Cur.rem_new, ← Cur.snap_new typ rev i]; exact hsame.ne
        have e2 : (Cur.new typ' rev i s).valid = true := by rw [← hsame.valid]; exact e1
        simp only [e1, e2, if_true]
        exact .cons hsame (ih (i + 1) (fun s' h' => hs s' (by simp [h'])))
  refine ⟨rfl, key 0 shards hs, .nil, ?_⟩
  intro c hc
  exact (List.mem_filter.mp hc).2

theorem SameL.fuel {l m : List (Cur V)} (h : SameL l m) : (l.map Cur.size).sum = (m.map Cur.size).sum := by
  induction h with
  | nil => rfl
  | cons hc _ ih => simp only [List.map_cons, List.sum_cons, ih, Cur.size_eq, hc.snap]

theorem ItSame.skipLoop {it jt : IndexIterator V} (h : ItSame it jt) (P : Key → Bool) (f : Nat) :
    ItSame (skipLoop P f it) (skipLoop P f jt) := by
  induction f generalizing it jt with
  | zero => exact h
  | succ f ih =>
    have ho := h.obs
    simp only [IndexIterator.obs, Obs.mk.injEq] at ho
    simp only [ShardIter.skipLoop, ho.1, ho.2.1]
    split
    · split
      · exact h
      · exact ih (h.step .next)
    · exact h

/-- DB level -/
structure DSame (it jt : DBIter V) : Prop where
  pre : it.pre = jt.pre
  ix : ItSame it.indexIter jt.indexIter

theorem DSame.skipToNext {it jt : DBIter V} (h : DSame it jt) : DSame it.skipToNext jt.skipToNext := by
  unfold DBIter.skipToNext
  rw [← h.pre]
  split
  · exact h
  · refine ⟨rfl, ?_⟩
    have : it.indexIter.fuel = jt.indexIter.fuel := h.ix.heap.fuel
    simp only [this]
    exact h.ix.skipLoop _ _

theorem DSame.step {it jt : DBIter V} (h : DSame it jt) (c : Call) : DSame (it.step c) (jt.step c) := by
  have := h.ix.step c
  cases c <;> exact DSame.skipToNext (it := { it with indexIter := _ }) (jt := { jt with indexIter := _ }) ⟨h.pre, this⟩

theorem DSame.trace {it jt : DBIter V} (h : DSame it jt) (calls : List Call) :
    it.trace calls = jt.trace calls := by
  have hobs : ∀ {it jt : DBIter V}, DSame it jt → it.obs = jt.obs := by
    intro it jt h
    have := h.ix.obs
    simpa [IndexIterator.obs, DBIter.obs, DBIter.valid, DBIter.key, DBIter.value] using this
  induction calls generalizing it jt with
  | nil => simp [DBIter.trace, hobs h]
  | cons c cs ih => simp only [DBIter.trace, hobs h, ih (h.step c)]

theorem DSame.new (typ typ' : IndexType) (rev : Bool) (pre : Key) {shards : List (List (Key × V))}
    (hs : ∀ s ∈ shards, Sorted false s) :
    DSame (DBIter.new typ rev pre shards) (DBIter.new typ' rev pre shards) :=
  DSame.skipToNext (it := { indexIter := _, pre := pre }) (jt := { indexIter := _, pre := pre })
    ⟨rfl, ItSame.create typ typ' rev hs⟩

end XixiKV.ShardIter
