import XixiKV.Proofs.Frame
import XixiKV.Proofs.Chunk
/-! Truncation proofs (property C03 at the byte level): scanning ANY truncation of a written file
    with the reader that tolerates a torn tail (`tol = true`, the reader of the active file) yields
    exactly the records that lie wholly inside the cut, ends with EOF, and reports as `validEnd` the
    end of the last complete record.  The strict reader (`tol = false`, every other reader) reports
    a file that ends inside a chunk as an error (`scan_truncate_strict`). -/
namespace XixiKV.Frame
open XixiKV
variable (C : Codec)

/-! ## small byte lemmas -/

theorem size_extract0 (a : ByteArray) (k : Nat) (hk : k ≤ a.size) : (a.extract 0 k).size = k := by
  rw [ByteArray.size_extract]; simp only [Nat.min_def]; split <;> omega

/-- a prefix cut that reaches past `a` keeps `a` whole -/
theorem extract0_append_ge (a b : ByteArray) (n : Nat) (h : a.size ≤ n) :
    (a ++ b).extract 0 n = a ++ b.extract 0 (n - a.size) := by
  rw [ByteArray.extract_append, extract_all a n h]; simp

/-- a prefix cut inside `a` forgets `b` -/
theorem extract0_append_le (a b : ByteArray) (n : Nat) (h : n ≤ a.size) :
    (a ++ b).extract 0 n = a.extract 0 n := by
  rw [ByteArray.extract_append]
  have : b.extract (0 - a.size) (n - a.size) = ByteArray.empty := by
    rw [ByteArray.extract_eq_empty_iff]; omega
  rw [this]; simp

/-- the strict reader never applies the torn-record-in-a-zero-extended-file rule -/
theorem tornZero_false (f : ByteArray) (base off size : Nat) : tornZero false f base off size = false := rfl

/-! ## one chunk, cut short -/

/-- a chunk cut strictly short (anywhere in its header or payload, or entirely absent) at the end
    of the file reads as end of file -/
theorem chunkSeq_cut (pre p : ByteArray) (t : CT) (block off k : Nat)
    (hpre : pre.size = block * BS + off) (hfit : off + H + p.size ≤ BS) (hp : p.size ≤ 65535)
    (hk : k < H + p.size) :
    chunkSeq C true (pre ++ (C.enc t p).extract 0 k) block off = .eof := by
  have hH := hH; have hBS := hBS
  have hs := C.size_enc t p
  have hes : ((C.enc t p).extract 0 k).size = k := size_extract0 _ _ (by omega)
  unfold chunkSeq
  simp only [ByteArray.size_append, hes, hpre]
  by_cases h1 : block * BS ≥ block * BS + off + k
  · rw [if_pos h1]
  · rw [if_neg h1]
    have hmin : min (block * BS + off + k - block * BS) BS = off + k := by
      simp only [Nat.min_def]; split <;> omega
    rw [hmin]
    by_cases h2 : off ≥ off + k
    · rw [if_pos h2]
    · rw [if_neg h2]
      have hex : (pre ++ (C.enc t p).extract 0 k).extract (block * BS + off) (block * BS + (off + k))
          = (C.enc t p).extract 0 k := by
        rw [ByteArray.extract_append, extract_ge_size pre _ _ (by omega), ← hpre]
        simp only [Nat.sub_self, ByteArray.empty_append]
        rw [extract_all _ _ (by omega)]
      rw [hex, C.dec_short t p k hp hk]
      simp only []
      rw [if_pos (Or.inl ⟨trivial, by omega⟩)]

/-! ## a multi-chunk record, cut short -/

theorem size_enc_mid (d : ByteArray) (t : CT) (c : Nat) (hc : c ≤ d.size) :
    (C.enc t (d.extract 0 c)).size = H + c := by
  rw [C.size_enc, size_extract0 _ _ hc]

/-- every strict prefix of a block-aligned run of Middle…Last chunks reads as end of file -/
theorem nextAt_rest_cut (d : ByteArray) (fuel : Nat) :
    ∀ (pre : ByteArray) (block k rf : Nat), pre.size = block * BS → 0 < d.size → d.size ≤ fuel →
      k < (restChunks C d fuel).size → k < rf →
      nextAt C true (pre ++ (restChunks C d fuel).extract 0 k) block 0 rf = .eof := by
  induction fuel generalizing d with
  | zero => intro pre block k rf _ h1 h2; omega
  | succ n ih =>
    intro pre block k rf hpre hd hf hk hrf
    have hH := hH; have hBS := hBS
    cases rf with
    | zero => omega
    | succ r =>
    by_cases hle : d.size ≤ BS - H
    · have hr : restChunks C d (n+1) = C.enc 3 d := by rw [restChunks, if_pos hle]
      rw [hr] at hk ⊢
      rw [C.size_enc] at hk
      unfold nextAt
      rw [chunkSeq_cut C pre d 3 block 0 k (by omega) (by omega) (by omega) hk]
    · have hr : restChunks C d (n+1)
          = C.enc 2 (d.extract 0 (BS - H)) ++ restChunks C (d.extract (BS - H) d.size) n := by
        rw [restChunks, if_neg hle]
      rw [hr] at hk ⊢
      have hA : (C.enc 2 (d.extract 0 (BS - H))).size = BS := by
        rw [size_enc_mid C d 2 (BS - H) (by omega)]; omega
      have hps : (d.extract 0 (BS - H)).size = BS - H := size_extract0 _ _ (by omega)
      by_cases hkb : k < BS
      · rw [extract0_append_le _ _ _ (by omega)]
        unfold nextAt
        rw [chunkSeq_cut C pre (d.extract 0 (BS - H)) 2 block 0 k (by omega) (by omega) (by omega)
          (by omega)]
      · rw [extract0_append_ge _ _ _ (by omega), hA, ← ByteArray.append_assoc]
        unfold nextAt
        rw [chunkSeq_enc C true pre _ (d.extract 0 (BS - H)) 2 block 0 (by omega) (by omega) (by omega)
          (by decide)]
        simp only []
        rw [if_neg (by decide)]
        have hsz : (pre ++ C.enc 2 (d.extract 0 (BS - H))).size = (block + 1) * BS := by
          rw [ByteArray.size_append, hA, hpre, Nat.add_mul]; omega
        rw [ByteArray.size_append, hA] at hk
        rw [ih (d.extract (BS - H) d.size) _ (block+1) (k - BS) r hsz
          (by simp [ByteArray.size_extract]; omega) (by simp [ByteArray.size_extract]; omega)
          (by omega) (by omega)]
        rfl

/-- every strict prefix of the chunks of one record (first chunk at (block, off)) reads as end of
    file -/
theorem nextAt_rec_cut (d pre : ByteArray) (block off k rf : Nat)
    (hpre : pre.size = block * BS + off) (hoff : off + H < BS) (hd : 0 < d.size)
    (hk : k < (recChunks C d off).size) (hrf : k < rf) :
    nextAt C true (pre ++ (recChunks C d off).extract 0 k) block off rf = .eof := by
  have hH := hH; have hBS := hBS
  cases rf with
  | zero => omega
  | succ r =>
  by_cases hle : d.size ≤ BS - off - H
  · have hr : recChunks C d off = C.enc 0 d := by
      unfold recChunks; simp only []; rw [if_pos hle]
    rw [hr] at hk ⊢
    rw [C.size_enc] at hk
    unfold nextAt
    rw [chunkSeq_cut C pre d 0 block off k hpre (by omega) (by omega) hk]
  · have hr : recChunks C d off = C.enc 1 (d.extract 0 (BS - off - H))
        ++ restChunks C (d.extract (BS - off - H) d.size) d.size := by
      unfold recChunks; simp only []; rw [if_neg hle]
    rw [hr] at hk ⊢
    have hA : (C.enc 1 (d.extract 0 (BS - off - H))).size = BS - off := by
      rw [size_enc_mid C d 1 (BS - off - H) (by omega)]; omega
    have hps : (d.extract 0 (BS - off - H)).size = BS - off - H := size_extract0 _ _ (by omega)
    by_cases hkb : k < BS - off
    · rw [extract0_append_le _ _ _ (by omega)]
      unfold nextAt
      rw [chunkSeq_cut C pre (d.extract 0 (BS - off - H)) 1 block off k hpre (by omega) (by omega)
        (by omega)]
    · rw [extract0_append_ge _ _ _ (by omega), hA, ← ByteArray.append_assoc]
      unfold nextAt
      rw [chunkSeq_enc C true pre _ (d.extract 0 (BS - off - H)) 1 block off hpre (by omega) (by omega)
        (by decide)]
      simp only []
      rw [if_neg (by decide)]
      have hsz : (pre ++ C.enc 1 (d.extract 0 (BS - off - H))).size = (block + 1) * BS := by
        rw [ByteArray.size_append, hA, hpre, Nat.add_mul]; omega
      rw [ByteArray.size_append, hA] at hk
      rw [nextAt_rest_cut C (d.extract (BS - off - H) d.size) d.size _ (block+1) (k - (BS - off)) r hsz
        (by simp [ByteArray.size_extract]; omega) (by simp [ByteArray.size_extract])
        (by omega) (by omega)]
      rfl

/-! ## the writer's bytes for one record, cut short -/

/-- **the cut record**: a file that ends with a strict prefix of the bytes `writeToBuf` appends for
    one record (cut inside the padding, a header, a payload, at a chunk boundary or at a block
    boundary) reads, from the end state of the file before that record, as end of file -/
theorem nextAt_write_cut (d f : ByteArray) (m rf : Nat) (hd : 0 < d.size)
    (hm : m < (writeRec C d (f.size % BS)).size) (hrf : m < rf) :
    nextAt C true (f ++ (writeRec C d (f.size % BS)).extract 0 m) (endB f) (endO f) rf = .eof := by
  have hH := hH; have hBS := hBS
  have hmod := mod_lt_BS f.size
  have hdm := size_split f.size
  rw [writeRec_pos C d _ hd] at hm ⊢
  by_cases hmp : m < padOf (f.size % BS)
  · -- cut inside the padding: the next block does not exist yet
    cases rf with
    | zero => omega
    | succ r =>
    have hsz : (f ++ (zeros (padOf (f.size % BS)) ++ recChunks C d (normO (f.size % BS))).extract 0 m).size
        = f.size + m := by
      rw [ByteArray.size_append, size_extract0 _ _ (by omega)]
    unfold nextAt chunkSeq
    simp only [hsz]
    have hp : f.size % BS + H ≥ BS := by
      unfold padOf at hmp; split at hmp <;> omega
    have hpad : padOf (f.size % BS) = BS - f.size % BS := by unfold padOf; rw [if_pos hp]
    have hb : endB f = f.size / BS + 1 := by unfold endB normB; rw [if_pos hp]
    rw [hb, if_pos (by rw [Nat.add_mul]; omega)]
  · rw [extract0_append_ge _ _ _ (by rw [size_zeros]; omega), size_zeros, ← ByteArray.append_assoc]
    rw [ByteArray.size_append, size_zeros] at hm
    exact nextAt_rec_cut C d (f ++ zeros (padOf (f.size % BS))) (normB (f.size / BS) (f.size % BS))
      (normO (f.size % BS)) (m - padOf (f.size % BS)) rf (size_pad f) (normO_lt _ hmod) hd
      (by omega) (by omega)

/-! ## the whole scan of a truncated file -/

theorem appendAll_cons (f d : ByteArray) (t : List ByteArray) :
    appendAll C f (d :: t) = appendAll C (appendRec C f d) t := by
  simp [appendAll]

/-- **scan of a truncated file, from the end state of an arbitrary prefix `f`**: cut the file
    `appendAll f ds` at any length `n` that keeps `f` whole; the scan returns the first `j` records,
    where `j` is the number of records wholly inside the cut, then end of file (never an error) -/
theorem scanFrom_truncate (fid : Nat) (ds : List ByteArray) :
    ∀ (f : ByteArray) (v n fuel : Nat), (∀ d ∈ ds, 0 < d.size) → f.size ≤ n →
      n ≤ (appendAll C f ds).size → n - f.size < fuel →
      ∃ j, j ≤ ds.length ∧
        (appendAll C f (ds.take j)).size ≤ n ∧
        (j < ds.length → n < (appendAll C f (ds.take (j+1))).size) ∧
        scanFrom C true fid ((appendAll C f ds).extract 0 n) (endB f) (endO f) v fuel
          = { recs := (ds.take j).zip (posAll C fid f (ds.take j)),
              validEnd := if j = 0 then v else (appendAll C f (ds.take j)).size,
              ok := true } := by
  induction ds with
  | nil =>
    intro f v n fuel _ hfn hn hfuel
    refine ⟨0, by simp, by simpa [appendAll] using hfn, by simp, ?_⟩
    cases fuel with
    | zero => omega
    | succ m =>
      simp only [appendAll, List.foldl_nil] at hn ⊢
      rw [extract_all f n hfn]
      simp only [scanFrom]
      rw [nextAt_end C true f f.size]
      simp [posAll]
  | cons d t ih =>
    intro f v n fuel hpos hfn hn hfuel
    have hd : 0 < d.size := hpos d (by simp)
    have ht : ∀ x ∈ t, 0 < x.size := fun x hx => hpos x (by simp [hx])
    cases fuel with
    | zero => omega
    | succ m =>
    obtain ⟨tail, htail⟩ := appendAll_split C t (appendRec C f d)
    have hg : appendAll C f (d :: t) = appendRec C f d ++ tail := by
      rw [appendAll_cons]; exact htail
    have h2 := size_appendRec_gt C f d hd
    by_cases hcut : n < (appendRec C f d).size
    · -- the first record is cut: nothing is read
      refine ⟨0, by simp, by simpa [appendAll] using hfn, ?_, ?_⟩
      · intro _; simpa [appendAll] using hcut
      · have hT : (appendAll C f (d :: t)).extract 0 n
            = f ++ (writeRec C d (f.size % BS)).extract 0 (n - f.size) := by
          rw [hg, extract0_append_le _ _ _ (by omega)]
          unfold appendRec
          rw [extract0_append_ge _ _ _ hfn]
        have hws : (appendRec C f d).size = f.size + (writeRec C d (f.size % BS)).size := by
          unfold appendRec; rw [ByteArray.size_append]
        rw [hT]
        simp only [scanFrom]
        rw [nextAt_write_cut C d f (n - f.size) _ hd (by omega)
          (by rw [ByteArray.size_append, size_extract0 _ _ (by omega)]; omega)]
        simp [posAll]
    · -- the first record is whole: read it, continue behind it
      have hge : (appendRec C f d).size ≤ n := by omega
      have hT : (appendAll C f (d :: t)).extract 0 n
          = appendRec C f d ++ tail.extract 0 (n - (appendRec C f d).size) := by
        rw [hg, extract0_append_ge _ _ _ hge]
      obtain ⟨b', o', hread, hend, h1, h2'⟩ := nextAt_write C true d f
        (tail.extract 0 (n - (appendRec C f d).size))
        ((appendRec C f d ++ tail.extract 0 (n - (appendRec C f d).size)).size + 1) hd
        (by rw [ByteArray.size_append]; omega)
      have hnext := end_after b' o' (appendRec C f d).size hend h1 h2'
      obtain ⟨j, hj, hfit, hnfit, hscan⟩ := ih (appendRec C f d) (b' * BS + o') n m ht hge
        (by rw [← appendAll_cons]; exact hn) (by omega)
      refine ⟨j + 1, by simp only [List.length_cons]; omega, ?_, ?_, ?_⟩
      · simpa only [List.take_succ_cons, appendAll_cons] using hfit
      · intro hlt
        simp only [List.length_cons] at hlt
        simpa only [List.take_succ_cons, appendAll_cons] using hnfit (by omega)
      · simp only [scanFrom]
        rw [hT, hread]
        simp only []
        rw [hnext.1, hnext.2, ← hT, appendAll_cons]
        simp only [endB, endO] at hscan
        rw [hscan]
        simp only [List.take_succ_cons, posAll, List.zip_cons_cons, appendAll_cons,
          Nat.add_one_ne_zero, if_false, ScanRes.mk.injEq, and_true]
        refine ⟨?_, ?_⟩
        · simp [endB, endO, posOf]
        · split
          · rename_i h; subst h; simp [appendAll, hend]
          · rfl

/-- **C03, byte level**: scanning ANY truncation of a file built by appends yields exactly the
    records that lie wholly inside the cut (`j` = the largest number of records whose build fits in
    `n` bytes), with the positions the writer reported, ends with end of file (never an error), and
    reports as `validEnd` the end of the last complete record -/
theorem scan_truncate (fid : Nat) (ds : List ByteArray) (hpos : ∀ d ∈ ds, 0 < d.size) (n : Nat)
    (hn : n ≤ (appendAll C ByteArray.empty ds).size) :
    ∃ j, j ≤ ds.length ∧
      (appendAll C ByteArray.empty (ds.take j)).size ≤ n ∧
      (j < ds.length → n < (appendAll C ByteArray.empty (ds.take (j+1))).size) ∧
      scan C true fid ((appendAll C ByteArray.empty ds).extract 0 n)
        = { recs := (ds.take j).zip (posAll C fid ByteArray.empty (ds.take j)),
            validEnd := (appendAll C ByteArray.empty (ds.take j)).size,
            ok := true } := by
  obtain ⟨j, hj, hfit, hnfit, hscan⟩ := scanFrom_truncate C fid ds ByteArray.empty 0 n (n+1) hpos
    (by simp) hn (by omega)
  refine ⟨j, hj, hfit, hnfit, ?_⟩
  unfold scan
  rw [size_extract0 _ _ hn]
  have e0 : endB ByteArray.empty = 0 := by decide
  have e1 : endO ByteArray.empty = 0 := by decide
  rw [e0, e1] at hscan
  rw [hscan]
  congr 1
  split
  · rename_i h; subst h; simp [appendAll]
  · rfl

/-! ## cutting the torn tail off -/

theorem appendAll_append (f : ByteArray) (as bs : List ByteArray) :
    appendAll C f (as ++ bs) = appendAll C (appendAll C f as) bs := by
  unfold appendAll; rw [List.foldl_append]

/-- the file built from the first `j` records is a byte prefix of the file built from all -/
theorem appendAll_take_prefix (f : ByteArray) (ds : List ByteArray) (j : Nat) :
    ∃ tl, appendAll C f ds = appendAll C f (ds.take j) ++ tl := by
  have h : appendAll C f ds = appendAll C (appendAll C f (ds.take j)) (ds.drop j) := by
    rw [← appendAll_append, List.take_append_drop]
  rw [h]; exact appendAll_split C _ _

theorem size_appendAll_take_le (f : ByteArray) (ds : List ByteArray) (j : Nat) :
    (appendAll C f (ds.take j)).size ≤ (appendAll C f ds).size := by
  obtain ⟨tl, h⟩ := appendAll_take_prefix C f ds j
  rw [h, ByteArray.size_append]; omega

theorem truncate_validEnd_from (f : ByteArray) (ds : List ByteArray) (j n : Nat)
    (hfit : (appendAll C f (ds.take j)).size ≤ n) :
    ((appendAll C f ds).extract 0 n).extract 0 (appendAll C f (ds.take j)).size
      = appendAll C f (ds.take j) := by
  obtain ⟨tl, h⟩ := appendAll_take_prefix C f ds j
  rw [h]
  generalize appendAll C f (ds.take j) = g at hfit ⊢
  rw [extract0_append_ge _ _ _ hfit, extract0_append_le _ _ _ (Nat.le_refl _),
    extract_all _ _ (Nat.le_refl _)]

/-- **recovery truncates to a well-formed file**: cutting a truncated file at the `validEnd` the
    scan reports (for the `j` of `scan_truncate`: any `j` whose build fits in the cut) gives exactly
    the file built from the first `j` records -/
theorem truncate_validEnd (ds : List ByteArray) (j n : Nat)
    (hfit : (appendAll C ByteArray.empty (ds.take j)).size ≤ n) :
    ((appendAll C ByteArray.empty ds).extract 0 n).extract 0
        (appendAll C ByteArray.empty (ds.take j)).size
      = appendAll C ByteArray.empty (ds.take j) :=
  truncate_validEnd_from C ByteArray.empty ds j n hfit

/-- both together, phrased with the scan's own result: after a cut at any length, the scan ends
    with EOF, returns a prefix of the records, and truncating at its `validEnd` and appending
    further records `es` gives exactly the file built from that prefix followed by `es` -/
theorem recover_truncate (fid : Nat) (ds : List ByteArray) (hpos : ∀ d ∈ ds, 0 < d.size) (n : Nat)
    (hn : n ≤ (appendAll C ByteArray.empty ds).size) :
    let T := (appendAll C ByteArray.empty ds).extract 0 n
    ∃ j, j ≤ ds.length ∧ (scan C true fid T).ok = true ∧
      (scan C true fid T).recs = (ds.take j).zip (posAll C fid ByteArray.empty (ds.take j)) ∧
      (scan C true fid T).validEnd ≤ T.size ∧
      T.extract 0 (scan C true fid T).validEnd = appendAll C ByteArray.empty (ds.take j) ∧
      ∀ es, appendAll C (T.extract 0 (scan C true fid T).validEnd) es
        = appendAll C ByteArray.empty (ds.take j ++ es) := by
  intro T
  obtain ⟨j, hj, hfit, _, hscan⟩ := scan_truncate C fid ds hpos n hn
  have hcut := truncate_validEnd C ds j n hfit
  refine ⟨j, hj, ?_, ?_, ?_, ?_, ?_⟩
  · show (scan C true fid ((appendAll C ByteArray.empty ds).extract 0 n)).ok = true
    rw [hscan]
  · show (scan C true fid ((appendAll C ByteArray.empty ds).extract 0 n)).recs = _
    rw [hscan]
  · show (scan C true fid ((appendAll C ByteArray.empty ds).extract 0 n)).validEnd
      ≤ ((appendAll C ByteArray.empty ds).extract 0 n).size
    rw [hscan, size_extract0 _ _ hn]; exact hfit
  · show ((appendAll C ByteArray.empty ds).extract 0 n).extract 0
      (scan C true fid ((appendAll C ByteArray.empty ds).extract 0 n)).validEnd = _
    rw [hscan]; exact hcut
  · intro es
    show appendAll C (((appendAll C ByteArray.empty ds).extract 0 n).extract 0
      (scan C true fid ((appendAll C ByteArray.empty ds).extract 0 n)).validEnd) es = _
    rw [hscan, appendAll_append]
    show appendAll C (((appendAll C ByteArray.empty ds).extract 0 n).extract 0
      (appendAll C ByteArray.empty (ds.take j)).size) es = _
    rw [hcut]

/-! ## the strict reader (`tol = false`): a torn tail is an error

Every reader except the one `loadIndexFromDataFiles` creates for the active file is strict.  For a
strict reader an incomplete chunk at the end of the file is corruption unless only zeros follow.
The statements below mirror the `_cut` lemmas above.  Three kinds of cut leave NO incomplete chunk
behind and are excluded by hypothesis here.  Two of them still read as end of file for both readers
(covered by the `_cut` lemmas for `tol = true`): a cut at a record boundary and a cut inside the
zero padding in front of a record.  The third, a cut at a block boundary between two chunks of a
multi-chunk record (the next block does not exist: `off >= fileSize` in `DataReader.next`), is an
ERROR for the strict reader too (`endOfLog` with `cnt > 0`); it is proved in
`Proofs/TruncateBoundary.lean` (`scan_truncate_boundary`), which also combines both cases into
`scan_truncate_strict'` without the hypothesis `n % BS ≠ 0`. -/

/-- strict reader: a chunk cut strictly short with at least one byte present, whose present bytes are
    not all zero, is an error -/
theorem chunkSeq_cut_strict (pre p : ByteArray) (t : CT) (block off k : Nat)
    (hpre : pre.size = block * BS + off) (hfit : off + H + p.size ≤ BS) (hp : p.size ≤ 65535)
    (hk0 : 0 < k) (hk : k < H + p.size)
    (hnz : allZeroFrom (pre ++ (C.enc t p).extract 0 k) (block * BS + off) = false) :
    chunkSeq C false (pre ++ (C.enc t p).extract 0 k) block off = .err := by
  have hH := hH; have hBS := hBS
  have hs := C.size_enc t p
  have hes : ((C.enc t p).extract 0 k).size = k := size_extract0 _ _ (by omega)
  unfold chunkSeq
  simp only [ByteArray.size_append, hes, hpre]
  rw [if_neg (by omega)]
  have hmin : min (block * BS + off + k - block * BS) BS = off + k := by
    simp only [Nat.min_def]; split <;> omega
  rw [hmin, if_neg (by omega)]
  have hex : (pre ++ (C.enc t p).extract 0 k).extract (block * BS + off) (block * BS + (off + k))
      = (C.enc t p).extract 0 k := by
    rw [ByteArray.extract_append, extract_ge_size pre _ _ (by omega), ← hpre]
    simp only [Nat.sub_self, ByteArray.empty_append]
    rw [extract_all _ _ (by omega)]
  rw [hex, C.dec_short t p k hp hk]
  simp only []
  rw [hnz, tornZero_false, if_neg (by simp)]

/-- strict reader: a strict prefix of a block-aligned run of Middle…Last chunks that ends inside a
    chunk (not at a block boundary) whose present bytes are not all zero is an error -/
theorem nextAt_rest_cut_strict (d : ByteArray) (fuel : Nat) :
    ∀ (pre : ByteArray) (block k rf : Nat), pre.size = block * BS → 0 < d.size → d.size ≤ fuel →
      k < (restChunks C d fuel).size → k < rf → k % BS ≠ 0 →
      allZeroFrom (pre ++ (restChunks C d fuel).extract 0 k) ((block + k / BS) * BS) = false →
      nextAt C false (pre ++ (restChunks C d fuel).extract 0 k) block 0 rf = .err := by
  induction fuel generalizing d with
  | zero => intro pre block k rf _ h1 h2; omega
  | succ n ih =>
    intro pre block k rf hpre hd hf hk hrf hkb hnz
    have hH := hH; have hBS := hBS
    have hk0 : 0 < k := by
      cases k with
      | zero => simp at hkb
      | succ _ => omega
    cases rf with
    | zero => omega
    | succ r =>
    by_cases hle : d.size ≤ BS - H
    · have hr : restChunks C d (n+1) = C.enc 3 d := by rw [restChunks, if_pos hle]
      rw [hr] at hk hnz ⊢
      rw [C.size_enc] at hk
      have hkd : k / BS = 0 := by simp only [hBS] at hk hle ⊢; omega
      rw [hkd] at hnz
      unfold nextAt
      rw [chunkSeq_cut_strict C pre d 3 block 0 k (by omega) (by omega) (by omega) hk0 hk
        (by simpa using hnz)]
    · have hr : restChunks C d (n+1)
          = C.enc 2 (d.extract 0 (BS - H)) ++ restChunks C (d.extract (BS - H) d.size) n := by
        rw [restChunks, if_neg hle]
      rw [hr] at hk hnz ⊢
      have hA : (C.enc 2 (d.extract 0 (BS - H))).size = BS := by
        rw [size_enc_mid C d 2 (BS - H) (by omega)]; omega
      have hps : (d.extract 0 (BS - H)).size = BS - H := size_extract0 _ _ (by omega)
      by_cases hkb' : k < BS
      · rw [extract0_append_le _ _ _ (by omega)] at hnz ⊢
        have hkd : k / BS = 0 := by simp only [hBS] at hkb' ⊢; omega
        rw [hkd] at hnz
        unfold nextAt
        rw [chunkSeq_cut_strict C pre (d.extract 0 (BS - H)) 2 block 0 k (by omega) (by omega)
          (by omega) hk0 (by omega) (by simpa using hnz)]
      · rw [extract0_append_ge _ _ _ (by omega), hA, ← ByteArray.append_assoc] at hnz ⊢
        unfold nextAt
        rw [chunkSeq_enc C false pre _ (d.extract 0 (BS - H)) 2 block 0 (by omega) (by omega) (by omega)
          (by decide)]
        simp only []
        rw [if_neg (by decide)]
        have hsz : (pre ++ C.enc 2 (d.extract 0 (BS - H))).size = (block + 1) * BS := by
          rw [ByteArray.size_append, hA, hpre, Nat.add_mul]; omega
        rw [ByteArray.size_append, hA] at hk
        have hidx : (block + k / BS) * BS = (block + 1 + (k - BS) / BS) * BS := by
          simp only [hBS] at hkb' ⊢; omega
        rw [hidx] at hnz
        rw [ih (d.extract (BS - H) d.size) _ (block+1) (k - BS) r hsz
          (by simp [ByteArray.size_extract]; omega) (by simp [ByteArray.size_extract]; omega)
          (by omega) (by omega) (by simp only [hBS] at hkb hkb' ⊢; omega) hnz]

/-- strict reader: a strict prefix of the chunks of one record (first chunk at (block, off)) that
    ends inside a chunk — at least one chunk byte present, the file does not end at a block
    boundary — whose last, incomplete chunk is not all zero is an error.  The incomplete chunk
    starts at `pre.size` (first chunk) or at the start of the file's last block (later chunks). -/
theorem nextAt_rec_cut_strict (d pre : ByteArray) (block off k rf : Nat)
    (hpre : pre.size = block * BS + off) (hoff : off + H < BS) (hd : 0 < d.size)
    (hk0 : 0 < k) (hk : k < (recChunks C d off).size) (hrf : k < rf) (hkb : (off + k) % BS ≠ 0)
    (hnz : allZeroFrom (pre ++ (recChunks C d off).extract 0 k)
      (max pre.size ((block * BS + off + k) / BS * BS)) = false) :
    nextAt C false (pre ++ (recChunks C d off).extract 0 k) block off rf = .err := by
  have hH := hH; have hBS := hBS
  cases rf with
  | zero => omega
  | succ r =>
  by_cases hle : d.size ≤ BS - off - H
  · have hr : recChunks C d off = C.enc 0 d := by
      unfold recChunks; simp only []; rw [if_pos hle]
    rw [hr] at hk hnz ⊢
    rw [C.size_enc] at hk
    have hmax : max pre.size ((block * BS + off + k) / BS * BS) = block * BS + off := by
      rw [hpre]; simp only [hBS] at hk hle hoff ⊢; omega
    rw [hmax] at hnz
    unfold nextAt
    rw [chunkSeq_cut_strict C pre d 0 block off k hpre (by omega) (by omega) hk0 hk hnz]
  · have hr : recChunks C d off = C.enc 1 (d.extract 0 (BS - off - H))
        ++ restChunks C (d.extract (BS - off - H) d.size) d.size := by
      unfold recChunks; simp only []; rw [if_neg hle]
    rw [hr] at hk hnz ⊢
    have hA : (C.enc 1 (d.extract 0 (BS - off - H))).size = BS - off := by
      rw [size_enc_mid C d 1 (BS - off - H) (by omega)]; omega
    have hps : (d.extract 0 (BS - off - H)).size = BS - off - H := size_extract0 _ _ (by omega)
    by_cases hkb' : k < BS - off
    · rw [extract0_append_le _ _ _ (by omega)] at hnz ⊢
      have hmax : max pre.size ((block * BS + off + k) / BS * BS) = block * BS + off := by
        rw [hpre]; simp only [hBS] at hkb' hoff ⊢; omega
      rw [hmax] at hnz
      unfold nextAt
      rw [chunkSeq_cut_strict C pre (d.extract 0 (BS - off - H)) 1 block off k hpre (by omega) (by omega)
        hk0 (by omega) hnz]
    · have hgt : BS - off < k := by
        have : k ≠ BS - off := by
          intro e; subst e; simp only [hBS] at hkb hoff; omega
        omega
      rw [extract0_append_ge _ _ _ (by omega), hA, ← ByteArray.append_assoc] at hnz ⊢
      unfold nextAt
      rw [chunkSeq_enc C false pre _ (d.extract 0 (BS - off - H)) 1 block off hpre (by omega) (by omega)
        (by decide)]
      simp only []
      rw [if_neg (by decide)]
      have hsz : (pre ++ C.enc 1 (d.extract 0 (BS - off - H))).size = (block + 1) * BS := by
        rw [ByteArray.size_append, hA, hpre, Nat.add_mul]; omega
      rw [ByteArray.size_append, hA] at hk
      have hmax : max pre.size ((block * BS + off + k) / BS * BS)
          = (block + 1 + (k - (BS - off)) / BS) * BS := by
        rw [hpre]; simp only [hBS] at hgt hoff ⊢; omega
      rw [hmax] at hnz
      rw [nextAt_rest_cut_strict C (d.extract (BS - off - H) d.size) d.size _ (block+1) (k - (BS - off)) r hsz
        (by simp [ByteArray.size_extract]; omega) (by simp [ByteArray.size_extract])
        (by omega) (by omega) (by simp only [hBS] at hkb hgt hoff ⊢; omega) hnz]

/-- **the cut record, strict reader**: a file that ends with a strict prefix of the bytes
    `writeToBuf` appends for one record, cut behind the padding and not at a block boundary (so that
    at least one byte of an incomplete chunk is present), reads as an ERROR from the end state of
    the file before that record — unless the incomplete chunk's present bytes are all zero -/
theorem nextAt_write_cut_strict (d f : ByteArray) (m rf : Nat) (hd : 0 < d.size)
    (hm0 : padOf (f.size % BS) < m) (hm : m < (writeRec C d (f.size % BS)).size) (hrf : m < rf)
    (hmb : (f.size + m) % BS ≠ 0)
    (hnz : allZeroFrom (f ++ (writeRec C d (f.size % BS)).extract 0 m)
      (max (f.size + padOf (f.size % BS)) ((f.size + m) / BS * BS)) = false) :
    nextAt C false (f ++ (writeRec C d (f.size % BS)).extract 0 m) (endB f) (endO f) rf = .err := by
  have hH := hH; have hBS := hBS
  have hmod := mod_lt_BS f.size
  have hdm := size_split f.size
  have hpad := size_pad f
  rw [ByteArray.size_append, size_zeros] at hpad
  rw [writeRec_pos C d _ hd] at hm hnz ⊢
  rw [extract0_append_ge _ _ _ (by rw [size_zeros]; omega), size_zeros, ← ByteArray.append_assoc] at hnz ⊢
  rw [ByteArray.size_append, size_zeros] at hm
  have hsum : normB (f.size / BS) (f.size % BS) * BS + normO (f.size % BS) + (m - padOf (f.size % BS))
      = f.size + m := by omega
  exact nextAt_rec_cut_strict C d (f ++ zeros (padOf (f.size % BS))) (normB (f.size / BS) (f.size % BS))
    (normO (f.size % BS)) (m - padOf (f.size % BS)) rf (size_pad f) (normO_lt _ hmod) hd
    (by omega) (by omega) (by omega)
    (by
      have e : (normO (f.size % BS) + (m - padOf (f.size % BS))) % BS = (f.size + m) % BS := by
        rw [← hsum, Nat.add_assoc, Nat.mul_comm, Nat.mul_add_mod]
      rw [e]; exact hmb)
    (by rw [hsum, ByteArray.size_append, size_zeros]; exact hnz)

/-- **scan of a file cut inside record `j`, strict reader, from the end state of an arbitrary prefix
    `f`**: the cut `n` lies behind the padding in front of record `j` and before the record's end, not
    at a block boundary, and the present bytes of the incomplete chunk are not all zero.  The scan
    returns the `j` records in front of the cut and then fails. -/
theorem scanFrom_truncate_strict (fid : Nat) (ds : List ByteArray) :
    ∀ (j : Nat) (f : ByteArray) (v n fuel : Nat), (∀ d ∈ ds, 0 < d.size) → j < ds.length →
      (appendAll C f (ds.take j)).size + padOf ((appendAll C f (ds.take j)).size % BS) < n →
      n < (appendAll C f (ds.take (j+1))).size → n - f.size < fuel → n % BS ≠ 0 →
      allZeroFrom ((appendAll C f ds).extract 0 n)
        (max ((appendAll C f (ds.take j)).size + padOf ((appendAll C f (ds.take j)).size % BS))
          (n / BS * BS)) = false →
      scanFrom C false fid ((appendAll C f ds).extract 0 n) (endB f) (endO f) v fuel
        = { recs := (ds.take j).zip (posAll C fid f (ds.take j)),
            validEnd := if j = 0 then v else (appendAll C f (ds.take j)).size,
            ok := false } := by
  induction ds with
  | nil => intro j f v n fuel _ hj; simp at hj
  | cons d t ih =>
    intro j f v n fuel hpos hj hlo hhi hfuel hnb hnz
    have hd : 0 < d.size := hpos d (by simp)
    have ht : ∀ x ∈ t, 0 < x.size := fun x hx => hpos x (by simp [hx])
    cases fuel with
    | zero => omega
    | succ m =>
    obtain ⟨tail, htail⟩ := appendAll_split C t (appendRec C f d)
    have hg : appendAll C f (d :: t) = appendRec C f d ++ tail := by
      rw [appendAll_cons]; exact htail
    have h2 := size_appendRec_gt C f d hd
    cases j with
    | zero =>
      -- the first record is the cut one
      have e0 : appendAll C f ((d :: t).take 0) = f := by simp [appendAll]
      have e1 : appendAll C f ((d :: t).take (0+1)) = appendRec C f d := by simp [appendAll]
      rw [e0] at hlo hnz
      rw [e1] at hhi
      have hfn : f.size ≤ n := by omega
      have hT : (appendAll C f (d :: t)).extract 0 n
          = f ++ (writeRec C d (f.size % BS)).extract 0 (n - f.size) := by
        rw [hg, extract0_append_le _ _ _ (by omega)]
        unfold appendRec
        rw [extract0_append_ge _ _ _ hfn]
      have hws : (appendRec C f d).size = f.size + (writeRec C d (f.size % BS)).size := by
        unfold appendRec; rw [ByteArray.size_append]
      have hfm : f.size + (n - f.size) = n := by omega
      rw [hT] at hnz ⊢
      simp only [scanFrom]
      rw [nextAt_write_cut_strict C d f (n - f.size) _ hd (by omega) (by omega)
        (by rw [ByteArray.size_append, size_extract0 _ _ (by omega)]; omega)
        (by rw [hfm]; exact hnb) (by rw [hfm]; exact hnz)]
      simp [posAll]
    | succ j' =>
      -- the first record is whole: read it, continue behind it
      have etk : ∀ i, appendAll C f ((d :: t).take (i+1)) = appendAll C (appendRec C f d) (t.take i) := by
        intro i; rw [List.take_succ_cons, appendAll_cons]
      rw [etk] at hlo hhi hnz
      have hge : (appendRec C f d).size ≤ n := by
        obtain ⟨tl, htl⟩ := appendAll_split C (t.take j') (appendRec C f d)
        rw [htl, ByteArray.size_append] at hlo; omega
      have hT : (appendAll C f (d :: t)).extract 0 n
          = appendRec C f d ++ tail.extract 0 (n - (appendRec C f d).size) := by
        rw [hg, extract0_append_ge _ _ _ hge]
      obtain ⟨b', o', hread, hend, h1, h2'⟩ := nextAt_write C false d f
        (tail.extract 0 (n - (appendRec C f d).size))
        ((appendRec C f d ++ tail.extract 0 (n - (appendRec C f d).size)).size + 1) hd
        (by rw [ByteArray.size_append]; omega)
      have hnext := end_after b' o' (appendRec C f d).size hend h1 h2'
      rw [appendAll_cons] at hnz
      have hscan := ih j' (appendRec C f d) (b' * BS + o') n m ht
        (by simp only [List.length_cons] at hj; omega) hlo hhi (by omega) hnb hnz
      simp only [scanFrom]
      rw [hT, hread]
      simp only []
      rw [hnext.1, hnext.2, ← hT, appendAll_cons]
      simp only [endB, endO] at hscan
      rw [hscan]
      simp only [List.take_succ_cons, posAll, List.zip_cons_cons, appendAll_cons,
        Nat.add_one_ne_zero, if_false, ScanRes.mk.injEq, and_true]
      refine ⟨?_, ?_⟩
      · simp [endB, endO, posOf]
      · split
        · rename_i h; subst h; simp [appendAll, hend]
        · rfl

/-- **a torn tail is an error for the strict reader** (every reader except the active file's): cut
    a file built by appends at a length `n` that falls inside the chunk bytes of record `j` — behind
    the padding in front of it, before its end, and not at a block boundary — such that the present
    bytes of the incomplete chunk (which starts at the record's first chunk or at the start of the
    file's last block, whichever is later) are not all zero.  The strict scan returns the `j`
    records in front of the cut with the writer's positions and then reports an ERROR; it does not
    silently drop the rest. -/
theorem scan_truncate_strict (fid : Nat) (ds : List ByteArray) (hpos : ∀ d ∈ ds, 0 < d.size) (j n : Nat)
    (hj : j < ds.length)
    (hlo : (appendAll C ByteArray.empty (ds.take j)).size
      + padOf ((appendAll C ByteArray.empty (ds.take j)).size % BS) < n)
    (hhi : n < (appendAll C ByteArray.empty (ds.take (j+1))).size)
    (hnb : n % BS ≠ 0)
    (hnz : allZeroFrom ((appendAll C ByteArray.empty ds).extract 0 n)
      (max ((appendAll C ByteArray.empty (ds.take j)).size
          + padOf ((appendAll C ByteArray.empty (ds.take j)).size % BS)) (n / BS * BS)) = false) :
    scan C false fid ((appendAll C ByteArray.empty ds).extract 0 n)
      = { recs := (ds.take j).zip (posAll C fid ByteArray.empty (ds.take j)),
          validEnd := (appendAll C ByteArray.empty (ds.take j)).size,
          ok := false } := by
  have hn : n ≤ (appendAll C ByteArray.empty ds).size := by
    have := size_appendAll_take_le C ByteArray.empty ds (j+1); omega
  have hscan := scanFrom_truncate_strict C fid ds j ByteArray.empty 0 n (n+1) hpos hj hlo hhi
    (by omega) hnb hnz
  unfold scan
  rw [size_extract0 _ _ hn]
  have e0 : endB ByteArray.empty = 0 := by decide
  have e1 : endO ByteArray.empty = 0 := by decide
  rw [e0, e1] at hscan
  rw [hscan]
  simp only [ScanRes.mk.injEq, true_and, and_true]
  split
  · rename_i h; subst h; simp [appendAll]
  · rfl

/-! ## non-vacuity -/

/-- the laws of `Codec` are satisfiable: the theorems hold for the concrete CRC-32 codec -/
example := scan_truncate Chunk.crcCodec
example := scan_truncate_strict Chunk.crcCodec

/-- a single record cut anywhere at or before its payload length (in fact anywhere before its end,
    see the next example): the scan sees an empty, clean log -/
example (fid : Nat) (d : ByteArray) (hd : 0 < d.size) (n : Nat) (hn : n ≤ d.size) :
    scan C true fid ((appendAll C ByteArray.empty [d]).extract 0 n)
      = { recs := [], validEnd := 0, ok := true } := by
  have hsz := size_appendRec_gt C ByteArray.empty d hd
  have hb : appendAll C ByteArray.empty [d] = appendRec C ByteArray.empty d := by simp [appendAll]
  have he : ByteArray.empty.size = 0 := rfl
  obtain ⟨j, hj, hfit, _, hscan⟩ := scan_truncate C fid [d] (by simpa using hd) n
    (by rw [hb]; omega)
  have hj0 : j = 0 := by
    cases j with
    | zero => rfl
    | succ k =>
      simp only [List.take_succ_cons, List.take_nil] at hfit
      rw [hb] at hfit; omega
  subst hj0
  rw [hscan]; simp [appendAll, posAll]

/-- two records, the cut anywhere from the end of the first up to (at least) `d2.size` bytes later:
    the scan returns exactly the first record at the writer's position, and `validEnd` is the end
    of the first record -/
example (fid : Nat) (d1 d2 : ByteArray) (hd1 : 0 < d1.size) (hd2 : 0 < d2.size) (n : Nat)
    (h1 : (appendRec C ByteArray.empty d1).size ≤ n)
    (h2 : n ≤ (appendRec C ByteArray.empty d1).size + d2.size) :
    scan C true fid ((appendAll C ByteArray.empty [d1, d2]).extract 0 n)
      = { recs := [(d1, posOf C fid 0 d1)], validEnd := (appendRec C ByteArray.empty d1).size,
          ok := true } := by
  have hsz := size_appendRec_gt C (appendRec C ByteArray.empty d1) d2 hd2
  have hb2 : appendAll C ByteArray.empty [d1, d2]
      = appendRec C (appendRec C ByteArray.empty d1) d2 := by simp [appendAll]
  have hb1 : appendAll C ByteArray.empty [d1] = appendRec C ByteArray.empty d1 := by
    simp [appendAll]
  obtain ⟨j, hj, hfit, hnfit, hscan⟩ := scan_truncate C fid [d1, d2]
    (by intro d hd; simp only [List.mem_cons, List.not_mem_nil, or_false] at hd
        rcases hd with rfl | rfl <;> assumption) n (by rw [hb2]; omega)
  have hj1 : j = 1 := by
    match j, hj, hfit, hnfit with
    | 0, _, _, hnfit =>
      have := hnfit (by simp)
      simp only [Nat.zero_add, List.take_succ_cons, List.take_zero] at this
      rw [hb1] at this; omega
    | 1, _, _, _ => rfl
    | 2, _, hfit, _ =>
      simp only [List.take_succ_cons, List.take_zero] at hfit
      rw [hb2] at hfit; omega
    | k+3, hj, _, _ => simp at hj
  subst hj1
  rw [hscan]
  simp only [List.take_succ_cons, List.take_zero, hb1, posAll, List.zip_cons_cons, List.zip_nil_right]
  rfl


end XixiKV.Frame
