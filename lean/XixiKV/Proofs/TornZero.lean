import XixiKV.Proofs.ZeroExt
import XixiKV.Proofs.Crc
/-!
# A record cut short inside a zero-extended file  (memory-mapped I/O, power failure)

Under memory-mapped I/O a data file is pre-extended with zeros.  A power failure may persist only
the first part of the last record; the rest of the file then reads as zeros.  The tolerant reader
(`tol = true`, the reader of the active file) treats an undecodable chunk as the end of the log when
at least one byte follows the extent the chunk claims and everything from there on is zero
(`tornZero` in `Model/Frame.lean`).

* `chunkSeq_tornZero`  : (a) the chunk-level rule.
* `hdrLen_torn`, `claimedEnd_torn` : (b) the extent a partly persisted chunk claims ends behind the
  cut and not behind the true end of the chunk — whether or not its header was persisted completely.
* `TornRejected`, `NoFalseAccept` : the only assumption about CRC-32.  `TornRejected`: the reader's
  one `DecodeChunk` call at the damaged chunk does not return a chunk.  `NoFalseAccept`: the same,
  but only if the bytes given to that call differ from those of the completely persisted file.
* `scan_torn_zero_rejected` : (c, first form) under `TornRejected` the scan of
  `F ++ (first m bytes of the append of d) ++ zeros k` returns the records of `F`,
  `validEnd = F.size`, no error.
* `scan_torn_zero` : (c, second form) under `NoFalseAccept` the scan never fails and returns the
  records of `F`, or of `F` and `d` (when the lost bytes were zeros anyway);
  `scan_torn_zero_recover` adds what recovery needs (cutting at `validEnd` gives a well-formed file).
* `loadFile_torn_zero`, `loadIndex_append_zero_ext`, `openDB_torn_zero`, `Inv_openDB_torn_zero`,
  `Inv_openDB_torn_zero_take` : (d) `Open` on such a directory succeeds, replays the recovered
  prefix, cuts the files back, and re-establishes the engine invariant.
The `_of` versions hold for every codec with the header layout `LenField` that does not decode a
run of zeros (`ZeroUndec`); the unsuffixed ones are their instances for the engine's CRC-32 codec.
-/
namespace XixiKV.Frame
open XixiKV

/-! ## bytes -/

theorem zeros_append (a b : Nat) : zeros a ++ zeros b = zeros (a + b) := by
  apply ByteArray.ext
  simp [zeros, ByteArray.data_append]

/-- the bytes `DataReader.next` hands to `DecodeChunk` at (block, off): from the chunk's offset to
    the end of the readable part of the block — literally the argument of `C.dec` in `chunkSeq` -/
def chunkWindow (f : ByteArray) (block off : Nat) : ByteArray :=
  f.extract (block * BS + off) (block * BS + min (f.size - block * BS) BS)

/-- `DecodeChunk` does not return a chunk -/
def Undec (C : Codec) (w : ByteArray) : Prop := C.dec w = .incomplete ∨ C.dec w = .badCrc

/-- `Undec` as a Boolean test, for evaluation on concrete bytes -/
def undecB (C : Codec) (w : ByteArray) : Bool :=
  match C.dec w with
  | .ok _ _ => false
  | _ => true

theorem undec_of_undecB {C : Codec} {w : ByteArray} (h : undecB C w = true) : Undec C w := by
  unfold undecB at h
  unfold Undec
  cases hd : C.dec w with
  | ok p t => rw [hd] at h; cases h
  | incomplete => exact Or.inl rfl
  | badCrc => exact Or.inr rfl

/-- the codec stores the payload length in bytes 4 and 5 of the header, little endian (the layout
    `hdrLen` — the Go reader's `binary.LittleEndian.Uint16(buf[offset+4:offset+6])` — relies on) -/
def LenField (C : Codec) : Prop :=
  ∀ t p, p.size ≤ 65535 → (C.enc t p).extract 4 6 = Chunk.le16 p.size

variable (C : Codec)

/-! ## (a) the chunk-level rule -/

/-- **the torn-record rule of the tolerant reader**: an undecodable chunk whose claimed extent ends
    before the end of the file, with nothing but zeros from there on, is the end of the log -/
theorem chunkSeq_tornZero (f : ByteArray) (block off : Nat)
    (hdec : Undec C (chunkWindow f block off))
    (hlt : claimedEnd f (block * BS) off (min (f.size - block * BS) BS) < f.size)
    (hz : allZeroFrom f (claimedEnd f (block * BS) off (min (f.size - block * BS) BS)) = true) :
    chunkSeq C true f block off = .eof := by
  have ht : tornZero true f (block * BS) off (min (f.size - block * BS) BS) = true := by
    unfold tornZero; rw [hz]; simp [hlt]
  unfold chunkSeq
  simp only []
  split
  · rfl
  · split
    · rfl
    · unfold Undec chunkWindow at hdec
      rcases hdec with e | e <;> rw [e] <;> simp only [] <;> rw [if_pos (by simp [ht])]

/-! ## (b) the extent a partly persisted chunk claims -/

theorem hdrLen_of (f : ByteArray) (i : Nat) (x y : UInt8) (h : f.extract (i + 4) (i + 6) = ⟨#[x, y]⟩) :
    hdrLen f i = x.toNat + 256 * y.toNat := by
  unfold hdrLen; rw [h]

/-- the two length bytes of a chunk of which only the first `c` bytes were persisted, followed by
    zeros: the persisted part of the field, the rest zero -/
theorem lenBytes_torn (hL : LenField C) (pre p : ByteArray) (t : CT) (c k : Nat) (hp : p.size ≤ 65535)
    (hc : c ≤ H + p.size) (hk : 6 ≤ c + k) :
    (pre ++ (C.enc t p).extract 0 c ++ zeros k).extract (pre.size + 4) (pre.size + 6)
      = (Chunk.le16 p.size).extract 0 (min 6 c - 4) ++ zeros (2 - (min 6 c - 4)) := by
  have hH := hH
  have hs := C.size_enc t p
  have hes : ((C.enc t p).extract 0 c).size = c := size_extract0 _ _ (by omega)
  rw [ByteArray.append_assoc, ByteArray.extract_append, extract_ge_size pre _ _ (by omega),
    ByteArray.empty_append, ByteArray.extract_append, ByteArray.extract_extract, extract_zeros, hes]
  rw [← hL t p hp, ByteArray.extract_extract]
  have e1 : 0 + (pre.size + 4 - pre.size) = 4 := by omega
  have e2 : min (0 + (pre.size + 6 - pre.size)) c = min 6 c := by omega
  have e3 : min (pre.size + 6 - pre.size - c) k - (pre.size + 4 - pre.size - c) = 2 - (min 6 c - 4) := by omega
  rw [e1, e2, e3]
  congr 1
  by_cases h4 : c < 4
  · have he : ∀ j, j ≤ 4 → (C.enc t p).extract 4 j = ByteArray.empty := by
      intro j hj; rw [ByteArray.extract_eq_empty_iff]; omega
    rw [he _ (by omega), he _ (by omega)]
  · congr 1; omega

/-- **the length a partly persisted header announces**: of a chunk `enc t p` only the first `c`
    bytes were persisted and zeros follow.  Whether or not the two length bytes were persisted (both,
    only the low one, or none), the announced length is at most the true one — the missing bytes
    read as 0 — and the announced extent still reaches behind the cut. -/
theorem hdrLen_torn (hL : LenField C) (pre p : ByteArray) (t : CT) (c k : Nat) (hp : p.size ≤ 65535)
    (hc : c < H + p.size) (hk : H + p.size < c + k) :
    hdrLen (pre ++ (C.enc t p).extract 0 c ++ zeros k) pre.size ≤ p.size ∧
      c < H + hdrLen (pre ++ (C.enc t p).extract 0 c ++ zeros k) pre.size := by
  have hH := hH
  have hb := lenBytes_torn C hL pre p t c k hp (by omega) (by omega)
  have hle : Chunk.le16 p.size = ⟨#[(p.size % 256).toUInt8, (p.size / 256 % 256).toUInt8]⟩ := rfl
  have t8 : ∀ x : Nat, (Nat.toUInt8 x).toNat = x % 256 := by intro x; simp
  rw [hle] at hb
  by_cases h6 : 6 ≤ c
  · have e : min 6 c - 4 = 2 := by omega
    rw [e] at hb
    rw [hdrLen_of _ _ (p.size % 256).toUInt8 (p.size / 256 % 256).toUInt8 (hb.trans rfl), t8, t8]
    omega
  · by_cases h5 : c = 5
    · have e : min 6 c - 4 = 1 := by omega
      rw [e] at hb
      rw [hdrLen_of _ _ (p.size % 256).toUInt8 0 (hb.trans rfl), t8]
      have : (0 : UInt8).toNat = 0 := rfl
      omega
    · have e : min 6 c - 4 = 0 := by omega
      rw [e] at hb
      rw [hdrLen_of _ _ 0 0 (hb.trans rfl)]
      have : (0 : UInt8).toNat = 0 := rfl
      omega

/-- **(b) the claimed extent of the damaged chunk**: the image `J` holds, at (block, off), the first
    `c` bytes of the chunk `enc t p` (any `c` short of the whole chunk: nothing, a part of the header,
    the header and a part of the payload) followed by `k` zero bytes that reach beyond the true end
    of the chunk.  Then the extent the reader computes for it (`claimedEnd`) ends behind the cut, not
    behind the true end of the chunk, hence before the end of the file, and only zeros follow. -/
theorem claimedEnd_torn (hL : LenField C) (J pre p : ByteArray) (t : CT) (block off c k : Nat)
    (hJ : J = pre ++ (C.enc t p).extract 0 c ++ zeros k)
    (hpre : pre.size = block * BS + off) (hfit : off + H + p.size ≤ BS) (hp : p.size ≤ 65535)
    (hc : c < H + p.size) (hk : H + p.size < c + k) :
    pre.size + c < claimedEnd J (block * BS) off (min (J.size - block * BS) BS) ∧
    claimedEnd J (block * BS) off (min (J.size - block * BS) BS) ≤ pre.size + H + p.size ∧
    claimedEnd J (block * BS) off (min (J.size - block * BS) BS) < J.size ∧
    allZeroFrom J (claimedEnd J (block * BS) off (min (J.size - block * BS) BS)) = true := by
  have hH := hH; have hBS := hBS
  have hes : ((C.enc t p).extract 0 c).size = c := size_extract0 _ _ (by rw [C.size_enc]; omega)
  have hsz : J.size = pre.size + c + k := by
    rw [hJ, ByteArray.size_append, ByteArray.size_append, hes, size_zeros]
  obtain ⟨h1, h2⟩ := hdrLen_torn C hL pre p t c k hp hc hk
  rw [← hJ, hpre] at h1 h2
  have hce : claimedEnd J (block * BS) off (min (J.size - block * BS) BS)
      = min (block * BS + min (J.size - block * BS) BS)
          (block * BS + off + H + hdrLen J (block * BS + off)) := by
    unfold claimedEnd; rw [if_pos (by omega)]
  generalize hdrLen J (block * BS + off) = L at h1 h2 hce
  generalize claimedEnd J (block * BS) off (min (J.size - block * BS) BS) = e at hce
  have hlo : pre.size + c < e := by omega
  refine ⟨hlo, by omega, by omega, ?_⟩
  rw [hJ]
  exact allZeroFrom_append_zeros _ k e (by rw [ByteArray.size_append, hes]; omega)

/-- the damaged chunk reads as end of log, provided `DecodeChunk` does not accept it -/
theorem chunkSeq_torn (hL : LenField C) (J pre p : ByteArray) (t : CT) (block off c k : Nat)
    (hJ : J = pre ++ (C.enc t p).extract 0 c ++ zeros k)
    (hpre : pre.size = block * BS + off) (hfit : off + H + p.size ≤ BS) (hp : p.size ≤ 65535)
    (hc : c < H + p.size) (hk : H + p.size < c + k) (hu : Undec C (chunkWindow J block off)) :
    chunkSeq C true J block off = .eof := by
  obtain ⟨_, _, h3, h4⟩ := claimedEnd_torn C hL J pre p t block off c k hJ hpre hfit hp hc hk
  exact chunkSeq_tornZero C J block off hu h3 h4

/-! ## a multi-chunk record, partly persisted -/

/-- a block-aligned run of Middle…Last chunks of which only the first `c` bytes were persisted,
    followed by zeros that reach beyond the end of the run: end of log, provided the chunk that
    contains the cut is not accepted -/
theorem nextAt_rest_torn (hL : LenField C) (d : ByteArray) (fuel : Nat) :
    ∀ (J pre : ByteArray) (block c k rf : Nat),
      J = pre ++ (restChunks C d fuel).extract 0 c ++ zeros k →
      pre.size = block * BS → 0 < d.size → d.size ≤ fuel →
      c < (restChunks C d fuel).size → (restChunks C d fuel).size < c + k → c < rf →
      Undec C (chunkWindow J (block + c / BS) 0) →
      nextAt C true J block 0 rf = .eof := by
  induction fuel generalizing d with
  | zero => intro J pre block c k rf _ _ h1 h2; omega
  | succ n ih =>
    intro J pre block c k rf hJ hpre hd hf hc hk hrf hu
    have hH := hH; have hBS := hBS
    cases rf with
    | zero => omega
    | succ r =>
    by_cases hle : d.size ≤ BS - H
    · have hr : restChunks C d (n+1) = C.enc 3 d := by rw [restChunks, if_pos hle]
      rw [hr] at hc hk hJ
      rw [C.size_enc] at hc hk
      have hcd : c / BS = 0 := by simp only [hBS] at hc hle ⊢; omega
      rw [hcd] at hu
      unfold nextAt
      rw [chunkSeq_torn C hL J pre d 3 block 0 c k hJ (by omega) (by omega) (by omega) hc hk hu]
    · have hr : restChunks C d (n+1)
          = C.enc 2 (d.extract 0 (BS - H)) ++ restChunks C (d.extract (BS - H) d.size) n := by
        rw [restChunks, if_neg hle]
      rw [hr] at hc hk hJ
      have hA : (C.enc 2 (d.extract 0 (BS - H))).size = BS := by
        rw [size_enc_mid C d 2 (BS - H) (by omega)]; omega
      have hps : (d.extract 0 (BS - H)).size = BS - H := size_extract0 _ _ (by omega)
      rw [ByteArray.size_append, hA] at hc hk
      by_cases hcb : c < BS
      · rw [extract0_append_le _ _ _ (by omega)] at hJ
        have hcd : c / BS = 0 := by simp only [hBS] at hcb ⊢; omega
        rw [hcd] at hu
        unfold nextAt
        rw [chunkSeq_torn C hL J pre (d.extract 0 (BS - H)) 2 block 0 c k hJ (by omega) (by omega)
          (by omega) (by omega) (by omega) hu]
      · rw [extract0_append_ge _ _ _ (by omega), hA, ← ByteArray.append_assoc] at hJ
        have hcs : chunkSeq C true J block 0 = .ok (d.extract 0 (BS - H), 2) := by
          rw [hJ, ByteArray.append_assoc]
          exact chunkSeq_enc C true pre _ (d.extract 0 (BS - H)) 2 block 0 (by omega) (by omega)
            (by omega) (by decide)
        have hsz : (pre ++ C.enc 2 (d.extract 0 (BS - H))).size = (block + 1) * BS := by
          rw [ByteArray.size_append, hA, hpre, Nat.add_mul]; omega
        have hidx : block + c / BS = block + 1 + (c - BS) / BS := by
          simp only [hBS] at hcb ⊢; omega
        rw [hidx] at hu
        unfold nextAt
        rw [hcs]
        simp only []
        rw [if_neg (by decide)]
        rw [ih (d.extract (BS - H) d.size) J _ (block+1) (c - BS) k r hJ hsz
          (by simp [ByteArray.size_extract]; omega) (by simp [ByteArray.size_extract]; omega)
          (by omega) (by omega) (by omega) hu]
        rfl

/-- the chunks of one record (first chunk at (block, off)) of which only the first `c` bytes were
    persisted, followed by zeros that reach beyond the end of the record: end of log, provided the
    chunk that contains the cut — the record's first chunk when the cut is in block `block`,
    otherwise the chunk at the start of the block the cut lies in — is not accepted -/
theorem nextAt_rec_torn (hL : LenField C) (d J pre : ByteArray) (block off c k rf : Nat)
    (hJ : J = pre ++ (recChunks C d off).extract 0 c ++ zeros k)
    (hpre : pre.size = block * BS + off) (hoff : off + H < BS) (_hd : 0 < d.size)
    (hc : c < (recChunks C d off).size) (hk : (recChunks C d off).size < c + k) (hrf : c < rf)
    (hu : Undec C (chunkWindow J ((pre.size + c) / BS) (if (pre.size + c) / BS = block then off else 0))) :
    nextAt C true J block off rf = .eof := by
  have hH := hH; have hBS := hBS
  cases rf with
  | zero => omega
  | succ r =>
  by_cases hle : d.size ≤ BS - off - H
  · have hr : recChunks C d off = C.enc 0 d := by
      unfold recChunks; simp only []; rw [if_pos hle]
    rw [hr] at hc hk hJ
    rw [C.size_enc] at hc hk
    have hb : (pre.size + c) / BS = block := by
      rw [hpre]; simp only [hBS] at hc hle hoff ⊢; omega
    rw [hb, if_pos rfl] at hu
    unfold nextAt
    rw [chunkSeq_torn C hL J pre d 0 block off c k hJ hpre (by omega) (by omega) hc hk hu]
  · have hr : recChunks C d off = C.enc 1 (d.extract 0 (BS - off - H))
        ++ restChunks C (d.extract (BS - off - H) d.size) d.size := by
      unfold recChunks; simp only []; rw [if_neg hle]
    rw [hr] at hc hk hJ
    have hA : (C.enc 1 (d.extract 0 (BS - off - H))).size = BS - off := by
      rw [size_enc_mid C d 1 (BS - off - H) (by omega)]; omega
    have hps : (d.extract 0 (BS - off - H)).size = BS - off - H := size_extract0 _ _ (by omega)
    rw [ByteArray.size_append, hA] at hc hk
    by_cases hcb : c < BS - off
    · rw [extract0_append_le _ _ _ (by omega)] at hJ
      have hb : (pre.size + c) / BS = block := by
        rw [hpre]; simp only [hBS] at hcb hoff ⊢; omega
      rw [hb, if_pos rfl] at hu
      unfold nextAt
      rw [chunkSeq_torn C hL J pre (d.extract 0 (BS - off - H)) 1 block off c k hJ hpre (by omega)
        (by omega) (by omega) (by omega) hu]
    · rw [extract0_append_ge _ _ _ (by omega), hA, ← ByteArray.append_assoc] at hJ
      have hcs : chunkSeq C true J block off = .ok (d.extract 0 (BS - off - H), 1) := by
        rw [hJ, ByteArray.append_assoc]
        exact chunkSeq_enc C true pre _ (d.extract 0 (BS - off - H)) 1 block off hpre (by omega)
          (by omega) (by decide)
      have hsz : (pre ++ C.enc 1 (d.extract 0 (BS - off - H))).size = (block + 1) * BS := by
        rw [ByteArray.size_append, hA, hpre, Nat.add_mul]; omega
      have hb : (pre.size + c) / BS = block + 1 + (c - (BS - off)) / BS := by
        rw [hpre]; simp only [hBS] at hcb hoff ⊢; omega
      have hne : block + 1 + (c - (BS - off)) / BS ≠ block := by
        generalize (c - (BS - off)) / BS = q; omega
      rw [hb, if_neg hne] at hu
      unfold nextAt
      rw [hcs]
      simp only []
      rw [if_neg (by decide)]
      rw [nextAt_rest_torn C hL (d.extract (BS - off - H) d.size) d.size J _ (block+1)
        (c - (BS - off)) k r hJ hsz
        (by simp [ByteArray.size_extract]; omega) (by simp [ByteArray.size_extract])
        (by omega) (by omega) (by omega) hu]
      rfl

/-! ## the writer's bytes for one record, partly persisted -/

/-- in-block offset of the chunk, of the record appended to `F`, that contains file position `P`
    (its block is `P / BS`): the record's first chunk starts at the reader's end state of `F`, every
    later chunk at the start of a block -/
def tornOff (F : ByteArray) (P : Nat) : Nat := if P / BS = endB F then endO F else 0

/-- `m` bytes of padding, none of the record: a zero-extended `F` -/
theorem extract_writeRec_pad (d : ByteArray) (o m : Nat) (hm : m ≤ padOf o) :
    (writeRec C d o).extract 0 m = zeros m := by
  unfold writeRec
  rw [extract0_append_le _ _ _ (by rw [size_zeros]; exact hm), extract_zeros]
  congr 1; omega

/-- **the partly persisted record**: the file holds `F`, then the first `m` bytes of what
    `writeToBuf` appends for `d` (padding included), then `k` zero bytes that reach beyond the end of
    the record.  From the end state of `F` the tolerant reader reports end of log, provided the
    chunk that contains the cut is not accepted (no assumption when the cut lies in the padding). -/
theorem nextAt_write_torn (hz : ZeroUndec C) (hL : LenField C) (d F : ByteArray) (m k rf : Nat)
    (hd : 0 < d.size) (hm : m < (writeRec C d (F.size % BS)).size)
    (hk : (writeRec C d (F.size % BS)).size < m + k) (hrf : m < rf)
    (hu : padOf (F.size % BS) < m →
      Undec C (chunkWindow (F ++ (writeRec C d (F.size % BS)).extract 0 m ++ zeros k)
        ((F.size + m) / BS) (tornOff F (F.size + m)))) :
    nextAt C true (F ++ (writeRec C d (F.size % BS)).extract 0 m ++ zeros k) (endB F) (endO F) rf
      = .eof := by
  have hH := hH; have hBS := hBS
  have hmod := mod_lt_BS F.size
  by_cases hmp : m ≤ padOf (F.size % BS)
  · cases rf with
    | zero => omega
    | succ r =>
    rw [extract_writeRec_pad C d _ m hmp, ByteArray.append_assoc, zeros_append]
    exact nextAt_end_zero_ext C hz true F (m + k) r
  · have hu' := hu (by omega)
    have hpad := size_pad F
    rw [writeRec_pos C d _ hd] at hm hk hu' ⊢
    rw [ByteArray.size_append, size_zeros] at hm hk
    have hJ : F ++ (zeros (padOf (F.size % BS)) ++ recChunks C d (normO (F.size % BS))).extract 0 m ++ zeros k
        = (F ++ zeros (padOf (F.size % BS)))
          ++ (recChunks C d (normO (F.size % BS))).extract 0 (m - padOf (F.size % BS)) ++ zeros k := by
      rw [extract0_append_ge _ _ _ (by rw [size_zeros]; omega), size_zeros, ← ByteArray.append_assoc]
    have hsum : (F ++ zeros (padOf (F.size % BS))).size + (m - padOf (F.size % BS)) = F.size + m := by
      rw [ByteArray.size_append, size_zeros]; omega
    exact nextAt_rec_torn C hL d _ (F ++ zeros (padOf (F.size % BS))) (normB (F.size / BS) (F.size % BS))
      (normO (F.size % BS)) (m - padOf (F.size % BS)) k rf hJ hpad (normO_lt _ hmod) hd
      (by omega) (by omega) (by omega) (by rw [hsum]; exact hu')

/-! ## (c) the whole scan -/

/-- **the damaged chunk is rejected**: on the image `F ++ (first m bytes of W) ++ zeros k`, where `W`
    are the bytes appended for the last record, `DecodeChunk` — called by the reader at the chunk
    that contains the cut, on exactly the bytes the reader passes to it — does not return a chunk.
    This is the strong form of the assumption; `NoFalseAccept` is the conditional form. -/
def TornRejected (C : Codec) (F W : ByteArray) (m k : Nat) : Prop :=
  Undec C (chunkWindow (F ++ W.extract 0 m ++ zeros k) ((F.size + m) / BS) (tornOff F (F.size + m)))

/-- scan of the image, any codec with the header layout that does not decode a run of zeros: the
    records of `F`, `validEnd = F.size`, no error — provided the damaged chunk is rejected (needed
    only when the cut lies behind the padding) -/
theorem scan_torn_zero_of (hz : ZeroUndec C) (hL : LenField C) (fid : Nat) (ds : List ByteArray)
    (hpos : ∀ x ∈ ds, 0 < x.size) (d : ByteArray) (hd : 0 < d.size) (m k : Nat)
    (hm : m < (writeRec C d ((appendAll C ByteArray.empty ds).size % BS)).size)
    (hk : (writeRec C d ((appendAll C ByteArray.empty ds).size % BS)).size < m + k)
    (hu : padOf ((appendAll C ByteArray.empty ds).size % BS) < m →
      TornRejected C (appendAll C ByteArray.empty ds)
        (writeRec C d ((appendAll C ByteArray.empty ds).size % BS)) m k) :
    scan C true fid (appendAll C ByteArray.empty ds
        ++ (writeRec C d ((appendAll C ByteArray.empty ds).size % BS)).extract 0 m ++ zeros k)
      = { recs := ds.zip (posAll C fid ByteArray.empty ds),
          validEnd := (appendAll C ByteArray.empty ds).size, ok := true } := by
  have hsz : (appendAll C ByteArray.empty ds
        ++ ((writeRec C d ((appendAll C ByteArray.empty ds).size % BS)).extract 0 m ++ zeros k)).size
      = (appendAll C ByteArray.empty ds).size + m + k := by
    rw [ByteArray.size_append, ByteArray.size_append, size_extract0 _ _ (by omega), size_zeros]
    omega
  have hend := nextAt_write_torn C hz hL d (appendAll C ByteArray.empty ds) m k
    ((appendAll C ByteArray.empty ds).size + m + k + 1) hd hm hk (by omega) hu
  unfold scan
  rw [ByteArray.append_assoc] at hend ⊢
  rw [hsz]
  have h := scanFrom_appendAll_post C true fid
    ((writeRec C d ((appendAll C ByteArray.empty ds).size % BS)).extract 0 m ++ zeros k) ds
    ByteArray.empty 0 ((appendAll C ByteArray.empty ds).size + m + k + 1) hpos
    (by have := size_appendAll_ge C ds ByteArray.empty hpos
        omega)
    (by rw [hsz]; exact hend)
  have e0 : endB ByteArray.empty = 0 := by decide
  have e1 : endO ByteArray.empty = 0 := by decide
  rw [e0, e1] at h
  rw [h]
  congr 1
  split
  · rename_i h; subst h; simp [appendAll]
  · rfl

/-! ## the conditional form of the assumption -/

/-- **no false accept** — the only property of CRC-32 the recovery of a partly persisted record
    relies on.  `F` is the file before the last append, `W` the bytes the append adds, `m < W.size`
    the number of them that were persisted, `k` the number of zero bytes behind them.  Consider the
    one call of `DecodeChunk` the reader makes at the chunk that contains the cut (block
    `(F.size + m) / BS`, offset `tornOff`): if the bytes it is given (`chunkWindow` of the image on disk)
    differ from the bytes it would have been given had the record been persisted completely
    (`chunkWindow` of `F ++ W ++ zeros`; the two can differ only inside the chunk's extent), then it does
    not return a chunk — it answers `.incomplete` or `.badCrc`.  A CRC-32 cannot be proved to reject
    every damaged chunk (a damaged chunk passes with probability about 2⁻³²), hence the hypothesis.
    When the lost bytes were zeros anyway the premise is false and nothing is assumed. -/
def NoFalseAccept (C : Codec) (F W : ByteArray) (m k : Nat) : Prop :=
  chunkWindow (F ++ W.extract 0 m ++ zeros k) ((F.size + m) / BS) (tornOff F (F.size + m))
      ≠ chunkWindow (F ++ W ++ zeros (m + k - W.size)) ((F.size + m) / BS) (tornOff F (F.size + m)) →
    TornRejected C F W m k

theorem TornRejected.noFalseAccept {C : Codec} {F W : ByteArray} {m k : Nat}
    (h : TornRejected C F W m k) : NoFalseAccept C F W m k := fun _ => h

/-- a chunk window that starts inside the zero tail is not decodable -/
theorem undec_window_zero_tail (hz : ZeroUndec C) (A : ByteArray) (k block off : Nat)
    (h : A.size ≤ block * BS + off) : Undec C (chunkWindow (A ++ zeros k) block off) := by
  unfold chunkWindow
  rw [extract_append_zeros _ _ _ _ h]
  exact hz _

/-- where the damaged chunk lies, relative to the cut -/
theorem torn_geom (F : ByteArray) (m : Nat) (hmp : padOf (F.size % BS) < m) :
    (F.size + m) / BS * BS + tornOff F (F.size + m) ≤ F.size + m ∧
    endB F ≤ (F.size + m) / BS ∧ F.size + m < ((F.size + m) / BS + 1) * BS := by
  have hBS := hBS
  have hpad := size_pad F
  rw [ByteArray.size_append, size_zeros] at hpad
  have hb : endB F = normB (F.size / BS) (F.size % BS) := rfl
  have ho : endO F = normO (F.size % BS) := rfl
  rw [← hb, ← ho] at hpad
  have hlo : endB F ≤ (F.size + m) / BS := by
    rw [Nat.le_div_iff_mul_le (by decide)]; omega
  refine ⟨?_, hlo, ?_⟩
  · unfold tornOff
    split
    · rename_i e; rw [e]; omega
    · simp only [hBS]; omega
  · simp only [hBS]; omega

/-- if the lost bytes `W[m, e)` read the same in the image and in the complete file, the image is
    also the image of the later cut `e` -/
theorem recut (F W : ByteArray) (m k r s w e : Nat)
    (h : (F ++ W.extract 0 m ++ zeros k).extract s w = (F ++ W ++ zeros r).extract s w)
    (hs : s ≤ F.size + m) (he : F.size + e ≤ w) (hme : m ≤ e) (heW : e ≤ W.size) (hek : e ≤ m + k) :
    F ++ W.extract 0 m ++ zeros k = F ++ W.extract 0 e ++ zeros (m + k - e) := by
  have h' := congrArg (fun a => a.extract (F.size + m - s) (F.size + e - s)) h
  simp only [ByteArray.extract_extract] at h'
  have e1 : s + (F.size + m - s) = F.size + m := by omega
  have e2 : min (s + (F.size + e - s)) w = F.size + e := by omega
  rw [e1, e2] at h'
  have hI : (F ++ W.extract 0 m ++ zeros k).extract (F.size + m) (F.size + e) = zeros (e - m) := by
    rw [extract_append_zeros _ _ _ _
      (by rw [ByteArray.size_append, size_extract0 _ _ (by omega)]; omega),
      ByteArray.size_append, size_extract0 _ _ (by omega)]
    congr 1; omega
  have hX : (F ++ W ++ zeros r).extract (F.size + m) (F.size + e) = W.extract m e := by
    rw [ByteArray.extract_append, ByteArray.extract_append, extract_ge_size F _ _ (by omega),
      ByteArray.empty_append, ByteArray.size_append]
    have : (zeros r).extract (F.size + m - (F.size + W.size)) (F.size + e - (F.size + W.size))
        = ByteArray.empty := by
      rw [ByteArray.extract_eq_empty_iff]; omega
    rw [this, ByteArray.append_empty]
    congr 1 <;> omega
  rw [hI, hX] at h'
  have hsplit : W.extract 0 e = W.extract 0 m ++ zeros (e - m) := by
    rw [h', ByteArray.extract_append_extract]
    congr 1 <;> omega
  rw [hsplit, ByteArray.append_assoc (a := F), ByteArray.append_assoc (a := F),
    ByteArray.append_assoc (a := W.extract 0 m), zeros_append]
  have e3 : e - m + (m + k - e) = k := by omega
  rw [e3]

/-- **what `NoFalseAccept` leaves open.**  Either the damaged chunk is rejected; or the lost bytes of
    that chunk were zeros anyway, and then the image is the image of a later cut: behind the whole
    record (nothing was lost), or at the block boundary where the record's next chunk starts (that
    chunk is then all zero, hence rejected by any codec that does not decode a run of zeros). -/
theorem torn_cases (hz : ZeroUndec C) (F W : ByteArray) (m k : Nat) (hm : m < W.size)
    (hk : W.size < m + k) (hmp : padOf (F.size % BS) < m) (hnfa : NoFalseAccept C F W m k) :
    TornRejected C F W m k ∨
    F ++ W.extract 0 m ++ zeros k = F ++ W ++ zeros (m + k - W.size) ∨
    ∃ m' k', padOf (F.size % BS) < m' ∧ m' < W.size ∧ W.size < m' + k' ∧
      F ++ W.extract 0 m ++ zeros k = F ++ W.extract 0 m' ++ zeros k' ∧ TornRejected C F W m' k' := by
  have hBS := hBS
  by_cases hw : chunkWindow (F ++ W.extract 0 m ++ zeros k) ((F.size + m) / BS) (tornOff F (F.size + m))
      = chunkWindow (F ++ W ++ zeros (m + k - W.size)) ((F.size + m) / BS) (tornOff F (F.size + m))
  · right
    obtain ⟨hg1, hg2, hg3⟩ := torn_geom F m hmp
    have hIs : (F ++ W.extract 0 m ++ zeros k).size = F.size + m + k := by
      rw [ByteArray.size_append, ByteArray.size_append, size_extract0 _ _ (by omega), size_zeros]
    have hXs : (F ++ W ++ zeros (m + k - W.size)).size = F.size + m + k := by
      rw [ByteArray.size_append, ByteArray.size_append, size_zeros]; omega
    unfold chunkWindow at hw
    rw [hIs, hXs] at hw
    generalize (F.size + m) / BS = b at hw hg1 hg2 hg3
    generalize tornOff F (F.size + m) = o at hw hg1
    by_cases hE : F.size + W.size ≤ (b + 1) * BS
    · left
      have hrc := recut F W m k _ _ _ W.size hw hg1 (by simp only [hBS] at *; omega) (by omega)
        (Nat.le_refl _) (by omega)
      rw [hrc, extract_all W _ (Nat.le_refl _)]
    · right
      have hFb : F.size ≤ (b + 1) * BS := by omega
      have hsum : F.size + ((b + 1) * BS - F.size) = (b + 1) * BS := by omega
      have hrc := recut F W m k _ _ _ ((b + 1) * BS - F.size) hw hg1
        (by simp only [hBS] at *; omega) (by omega) (by omega) (by omega)
      refine ⟨(b + 1) * BS - F.size, m + k - ((b + 1) * BS - F.size), by omega, by omega, by omega,
        hrc, ?_⟩
      unfold TornRejected
      rw [hsum]
      have hdiv : (b + 1) * BS / BS = b + 1 := Nat.mul_div_cancel _ (by decide)
      have hoff : tornOff F ((b + 1) * BS) = 0 := by
        unfold tornOff; rw [hdiv, if_neg (by omega)]
      rw [hdiv, hoff]
      exact undec_window_zero_tail C hz _ _ _ _
        (by rw [ByteArray.size_append, size_extract0 _ _ (by omega)]; omega)
  · exact Or.inl (hnfa hw)

theorem appendAll_snoc (f : ByteArray) (ds : List ByteArray) (d : ByteArray) :
    appendAll C f (ds ++ [d])
      = appendAll C f ds ++ writeRec C d ((appendAll C f ds).size % BS) := by
  rw [appendAll_append]; rfl

/-- scan of the image under the conditional assumption `NoFalseAccept`: never an error; the records
    of `F` with `validEnd = F.size`, or — only possible when the lost bytes were zeros anyway — also
    the last record itself, with `validEnd` = the end of that record -/
theorem scan_torn_zero_gen_of (hz : ZeroUndec C) (hL : LenField C) (fid : Nat) (ds : List ByteArray)
    (hpos : ∀ x ∈ ds, 0 < x.size) (d : ByteArray) (hd : 0 < d.size) (m k : Nat)
    (hm : m < (writeRec C d ((appendAll C ByteArray.empty ds).size % BS)).size)
    (hk : (writeRec C d ((appendAll C ByteArray.empty ds).size % BS)).size < m + k)
    (hnfa : NoFalseAccept C (appendAll C ByteArray.empty ds)
      (writeRec C d ((appendAll C ByteArray.empty ds).size % BS)) m k) :
    scan C true fid (appendAll C ByteArray.empty ds
        ++ (writeRec C d ((appendAll C ByteArray.empty ds).size % BS)).extract 0 m ++ zeros k)
      = { recs := ds.zip (posAll C fid ByteArray.empty ds),
          validEnd := (appendAll C ByteArray.empty ds).size, ok := true } ∨
    scan C true fid (appendAll C ByteArray.empty ds
        ++ (writeRec C d ((appendAll C ByteArray.empty ds).size % BS)).extract 0 m ++ zeros k)
      = { recs := (ds ++ [d]).zip (posAll C fid ByteArray.empty (ds ++ [d])),
          validEnd := (appendAll C ByteArray.empty (ds ++ [d])).size, ok := true } := by
  by_cases hmp : padOf ((appendAll C ByteArray.empty ds).size % BS) < m
  · rcases torn_cases C hz _ _ m k hm hk hmp hnfa with h | h | ⟨m', k', _, h2, h3, h4, h5⟩
    · exact Or.inl (scan_torn_zero_of C hz hL fid ds hpos d hd m k hm hk (fun _ => h))
    · right
      rw [h, ← appendAll_snoc]
      exact scan_zero_ext_of C hz true fid (ds ++ [d])
        (by
          intro x hx
          simp only [List.mem_append, List.mem_singleton] at hx
          rcases hx with hx | rfl
          · exact hpos x hx
          · exact hd) _
    · left
      rw [h4]
      exact scan_torn_zero_of C hz hL fid ds hpos d hd m' k' h2 h3 (fun _ => h5)
  · exact Or.inl (scan_torn_zero_of C hz hL fid ds hpos d hd m k hm hk (fun h => absurd h hmp))

/-- **recovery form** (what `loadIndexFromDataFiles` needs): under `NoFalseAccept` the scan of the
    image ends without error and returns the records `ds'` — `ds`, or `ds ++ [d]` (possible only when
    the damaged chunk is not rejected, i.e. when the lost bytes were zeros anyway) — with the writer's
    positions; `validEnd` is the size of the file built from `ds'`, it lies before the end of the
    image, and cutting the image there gives exactly that file. -/
theorem scan_torn_zero_recover_of (hz : ZeroUndec C) (hL : LenField C) (fid : Nat) (ds : List ByteArray)
    (hpos : ∀ x ∈ ds, 0 < x.size) (d : ByteArray) (hd : 0 < d.size) (m k : Nat)
    (hm : m < (writeRec C d ((appendAll C ByteArray.empty ds).size % BS)).size)
    (hk : (writeRec C d ((appendAll C ByteArray.empty ds).size % BS)).size < m + k)
    (hnfa : NoFalseAccept C (appendAll C ByteArray.empty ds)
      (writeRec C d ((appendAll C ByteArray.empty ds).size % BS)) m k) :
    ∃ ds', (ds' = ds ∨ ds' = ds ++ [d]) ∧
      ((padOf ((appendAll C ByteArray.empty ds).size % BS) < m →
          TornRejected C (appendAll C ByteArray.empty ds)
            (writeRec C d ((appendAll C ByteArray.empty ds).size % BS)) m k) → ds' = ds) ∧
      scan C true fid (appendAll C ByteArray.empty ds
          ++ (writeRec C d ((appendAll C ByteArray.empty ds).size % BS)).extract 0 m ++ zeros k)
        = { recs := ds'.zip (posAll C fid ByteArray.empty ds'),
            validEnd := (appendAll C ByteArray.empty ds').size, ok := true } ∧
      (appendAll C ByteArray.empty ds').size
        < (appendAll C ByteArray.empty ds
          ++ (writeRec C d ((appendAll C ByteArray.empty ds).size % BS)).extract 0 m ++ zeros k).size ∧
      (appendAll C ByteArray.empty ds
          ++ (writeRec C d ((appendAll C ByteArray.empty ds).size % BS)).extract 0 m ++ zeros k).extract 0
          (appendAll C ByteArray.empty ds').size
        = appendAll C ByteArray.empty ds' := by
  have hsz : (appendAll C ByteArray.empty ds
        ++ (writeRec C d ((appendAll C ByteArray.empty ds).size % BS)).extract 0 m ++ zeros k).size
      = (appendAll C ByteArray.empty ds).size + m + k := by
    rw [ByteArray.size_append, ByteArray.size_append, size_extract0 _ _ (by omega), size_zeros]
  have hcut : (appendAll C ByteArray.empty ds
        ++ (writeRec C d ((appendAll C ByteArray.empty ds).size % BS)).extract 0 m ++ zeros k).extract 0
        (appendAll C ByteArray.empty ds).size = appendAll C ByteArray.empty ds := by
    rw [ByteArray.append_assoc, extract0_append_le _ _ _ (Nat.le_refl _), extract_all _ _ (Nat.le_refl _)]
  by_cases hR : padOf ((appendAll C ByteArray.empty ds).size % BS) < m →
      TornRejected C (appendAll C ByteArray.empty ds)
        (writeRec C d ((appendAll C ByteArray.empty ds).size % BS)) m k
  · exact ⟨ds, Or.inl rfl, fun _ => rfl, scan_torn_zero_of C hz hL fid ds hpos d hd m k hm hk hR,
      by rw [hsz]; omega, hcut⟩
  · have hmp : padOf ((appendAll C ByteArray.empty ds).size % BS) < m :=
      Classical.byContradiction (fun h => hR (fun h' => absurd h' h))
    have hnR : ¬ TornRejected C (appendAll C ByteArray.empty ds)
        (writeRec C d ((appendAll C ByteArray.empty ds).size % BS)) m k := fun h => hR (fun _ => h)
    rcases torn_cases C hz _ _ m k hm hk hmp hnfa with h | h | ⟨m', k', _, h2, h3, h4, h5⟩
    · exact absurd h hnR
    · refine ⟨ds ++ [d], Or.inr rfl, fun h' => absurd h' hR, ?_, ?_, ?_⟩
      · rw [h, ← appendAll_snoc]
        exact scan_zero_ext_of C hz true fid (ds ++ [d])
          (by
            intro x hx
            simp only [List.mem_append, List.mem_singleton] at hx
            rcases hx with hx | rfl
            · exact hpos x hx
            · exact hd) _
      · rw [hsz, appendAll_snoc, ByteArray.size_append]; omega
      · rw [h, ← appendAll_snoc]
        exact extract0_append_zeros _ _
    · refine ⟨ds, Or.inl rfl, fun _ => rfl, ?_, by rw [hsz]; omega, hcut⟩
      rw [h4]
      exact scan_torn_zero_of C hz hL fid ds hpos d hd m' k' h2 h3 (fun _ => h5)

end XixiKV.Frame

/-! ## the concrete CRC-32 codec -/
namespace XixiKV.Chunk
open XixiKV XixiKV.Frame

/-- bytes 4 and 5 of an encoded chunk are the little-endian payload length -/
theorem lenField_crc : LenField crcCodec := by
  intro t p _
  show (enc t p).extract 4 6 = le16 p.size
  have : enc t p = le32 (update (checksum (le16 p.size ++ ⟨#[t.toUInt8]⟩)) p) ++ le16 p.size
      ++ (⟨#[t.toUInt8]⟩ ++ p) := by
    simp [enc, ByteArray.append_assoc]
  rw [this, extract_exact _ (le16 p.size) _ 4 6 (by simp) (by simp)]

end XixiKV.Chunk

namespace XixiKV.Frame
open XixiKV
open XixiKV.Engine (C)

theorem lenField_C : LenField C := Chunk.lenField_crc

/-- (b) for the engine's codec -/
theorem claimedEnd_torn_C (J pre p : ByteArray) (t : CT) (block off c k : Nat)
    (hJ : J = pre ++ (C.enc t p).extract 0 c ++ zeros k)
    (hpre : pre.size = block * BS + off) (hfit : off + H + p.size ≤ BS) (hp : p.size ≤ 65535)
    (hc : c < H + p.size) (hk : H + p.size < c + k) :
    pre.size + c < claimedEnd J (block * BS) off (min (J.size - block * BS) BS) ∧
    claimedEnd J (block * BS) off (min (J.size - block * BS) BS) ≤ pre.size + H + p.size ∧
    claimedEnd J (block * BS) off (min (J.size - block * BS) BS) < J.size ∧
    allZeroFrom J (claimedEnd J (block * BS) off (min (J.size - block * BS) BS)) = true :=
  claimedEnd_torn C lenField_C J pre p t block off c k hJ hpre hfit hp hc hk

/-- **(c), first form**: `F` = a well-formed file, `W` = the bytes the append of `d` adds, of which
    only the first `m` were persisted, then `k` zero bytes reaching beyond the end of the record.
    If the damaged chunk is rejected (`TornRejected`; nothing is assumed when the cut lies in the
    padding in front of the record) the tolerant scan returns exactly the records of `F` with the
    writer's positions, reports `validEnd = F.size`, and ends without error. -/
theorem scan_torn_zero_rejected (fid : Nat) (ds : List ByteArray) (hpos : ∀ x ∈ ds, 0 < x.size)
    (d : ByteArray) (hd : 0 < d.size) (m k : Nat)
    (hm : m < (writeRec C d ((appendAll C ByteArray.empty ds).size % BS)).size)
    (hk : (writeRec C d ((appendAll C ByteArray.empty ds).size % BS)).size < m + k)
    (hu : padOf ((appendAll C ByteArray.empty ds).size % BS) < m →
      TornRejected C (appendAll C ByteArray.empty ds)
        (writeRec C d ((appendAll C ByteArray.empty ds).size % BS)) m k) :
    scan C true fid (appendAll C ByteArray.empty ds
        ++ (writeRec C d ((appendAll C ByteArray.empty ds).size % BS)).extract 0 m ++ zeros k)
      = { recs := ds.zip (posAll C fid ByteArray.empty ds),
          validEnd := (appendAll C ByteArray.empty ds).size, ok := true } :=
  scan_torn_zero_of C zeroUndec_C lenField_C fid ds hpos d hd m k hm hk hu

/-- **(c), second form**: under `NoFalseAccept` the tolerant scan of the image never fails; it
    returns the records of `F` (`validEnd = F.size`), or — only when the lost bytes were zeros
    anyway, so that the image contains the complete record — the records of `F` and `d`
    (`validEnd` = the end of `d`). -/
theorem scan_torn_zero (fid : Nat) (ds : List ByteArray) (hpos : ∀ x ∈ ds, 0 < x.size)
    (d : ByteArray) (hd : 0 < d.size) (m k : Nat)
    (hm : m < (writeRec C d ((appendAll C ByteArray.empty ds).size % BS)).size)
    (hk : (writeRec C d ((appendAll C ByteArray.empty ds).size % BS)).size < m + k)
    (hnfa : NoFalseAccept C (appendAll C ByteArray.empty ds)
      (writeRec C d ((appendAll C ByteArray.empty ds).size % BS)) m k) :
    scan C true fid (appendAll C ByteArray.empty ds
        ++ (writeRec C d ((appendAll C ByteArray.empty ds).size % BS)).extract 0 m ++ zeros k)
      = { recs := ds.zip (posAll C fid ByteArray.empty ds),
          validEnd := (appendAll C ByteArray.empty ds).size, ok := true } ∨
    scan C true fid (appendAll C ByteArray.empty ds
        ++ (writeRec C d ((appendAll C ByteArray.empty ds).size % BS)).extract 0 m ++ zeros k)
      = { recs := (ds ++ [d]).zip (posAll C fid ByteArray.empty (ds ++ [d])),
          validEnd := (appendAll C ByteArray.empty (ds ++ [d])).size, ok := true } :=
  scan_torn_zero_gen_of C zeroUndec_C lenField_C fid ds hpos d hd m k hm hk hnfa

/-- `NoFalseAccept` and a damage that is real (the reader's window at the damaged chunk differs
    from the one of the completely persisted file): the first form -/
theorem scan_torn_zero_damaged (fid : Nat) (ds : List ByteArray) (hpos : ∀ x ∈ ds, 0 < x.size)
    (d : ByteArray) (hd : 0 < d.size) (m k : Nat)
    (hm : m < (writeRec C d ((appendAll C ByteArray.empty ds).size % BS)).size)
    (hk : (writeRec C d ((appendAll C ByteArray.empty ds).size % BS)).size < m + k)
    (hnfa : NoFalseAccept C (appendAll C ByteArray.empty ds)
      (writeRec C d ((appendAll C ByteArray.empty ds).size % BS)) m k)
    (hdmg : chunkWindow (appendAll C ByteArray.empty ds
          ++ (writeRec C d ((appendAll C ByteArray.empty ds).size % BS)).extract 0 m ++ zeros k)
        (((appendAll C ByteArray.empty ds).size + m) / BS)
        (tornOff (appendAll C ByteArray.empty ds) ((appendAll C ByteArray.empty ds).size + m))
      ≠ chunkWindow (appendAll C ByteArray.empty ds
          ++ writeRec C d ((appendAll C ByteArray.empty ds).size % BS)
          ++ zeros (m + k - (writeRec C d ((appendAll C ByteArray.empty ds).size % BS)).size))
        (((appendAll C ByteArray.empty ds).size + m) / BS)
        (tornOff (appendAll C ByteArray.empty ds) ((appendAll C ByteArray.empty ds).size + m))) :
    scan C true fid (appendAll C ByteArray.empty ds
        ++ (writeRec C d ((appendAll C ByteArray.empty ds).size % BS)).extract 0 m ++ zeros k)
      = { recs := ds.zip (posAll C fid ByteArray.empty ds),
          validEnd := (appendAll C ByteArray.empty ds).size, ok := true } :=
  scan_torn_zero_rejected fid ds hpos d hd m k hm hk (fun _ => hnfa hdmg)

/-- the recovery form for the engine's codec (see `scan_torn_zero_recover_of`) -/
theorem scan_torn_zero_recover (fid : Nat) (ds : List ByteArray) (hpos : ∀ x ∈ ds, 0 < x.size)
    (d : ByteArray) (hd : 0 < d.size) (m k : Nat)
    (hm : m < (writeRec C d ((appendAll C ByteArray.empty ds).size % BS)).size)
    (hk : (writeRec C d ((appendAll C ByteArray.empty ds).size % BS)).size < m + k)
    (hnfa : NoFalseAccept C (appendAll C ByteArray.empty ds)
      (writeRec C d ((appendAll C ByteArray.empty ds).size % BS)) m k) :
    ∃ ds', (ds' = ds ∨ ds' = ds ++ [d]) ∧
      ((padOf ((appendAll C ByteArray.empty ds).size % BS) < m →
          TornRejected C (appendAll C ByteArray.empty ds)
            (writeRec C d ((appendAll C ByteArray.empty ds).size % BS)) m k) → ds' = ds) ∧
      scan C true fid (appendAll C ByteArray.empty ds
          ++ (writeRec C d ((appendAll C ByteArray.empty ds).size % BS)).extract 0 m ++ zeros k)
        = { recs := ds'.zip (posAll C fid ByteArray.empty ds'),
            validEnd := (appendAll C ByteArray.empty ds').size, ok := true } ∧
      (appendAll C ByteArray.empty ds').size
        < (appendAll C ByteArray.empty ds
          ++ (writeRec C d ((appendAll C ByteArray.empty ds).size % BS)).extract 0 m ++ zeros k).size ∧
      (appendAll C ByteArray.empty ds
          ++ (writeRec C d ((appendAll C ByteArray.empty ds).size % BS)).extract 0 m ++ zeros k).extract 0
          (appendAll C ByteArray.empty ds').size
        = appendAll C ByteArray.empty ds' :=
  scan_torn_zero_recover_of C zeroUndec_C lenField_C fid ds hpos d hd m k hm hk hnfa

end XixiKV.Frame

/-! ## non-vacuity: the assumption holds on concrete images -/
namespace XixiKV.Frame
open XixiKV
open XixiKV.Engine (C)

/-- a file with the record `01 02 03`, then the record `61 62 63` of which the last payload byte
    was lost (9 of its 10 bytes persisted), then 5 zero bytes: `DecodeChunk` on the reader's window
    does not return a chunk (evaluated by the kernel; the answer is `.badCrc`) -/
theorem tornRejected_ex1 : TornRejected C (appendAll C ByteArray.empty [⟨#[1, 2, 3]⟩])
    (writeRec C ⟨#[0x61, 0x62, 0x63]⟩ ((appendAll C ByteArray.empty [⟨#[1, 2, 3]⟩]).size % BS)) 9 5 :=
  undec_of_undecB (by decide +kernel)

/-- the same record cut inside the length field of its header (5 bytes persisted: the stored CRC
    and the low length byte), then 20 zero bytes: rejected again -/
theorem tornRejected_ex2 : TornRejected C (appendAll C ByteArray.empty [⟨#[1, 2, 3]⟩])
    (writeRec C ⟨#[0x61, 0x62, 0x63]⟩ ((appendAll C ByteArray.empty [⟨#[1, 2, 3]⟩]).size % BS)) 5 20 :=
  undec_of_undecB (by decide +kernel)

/-- `NoFalseAccept` holds on these instances -/
example : NoFalseAccept C (appendAll C ByteArray.empty [⟨#[1, 2, 3]⟩])
    (writeRec C ⟨#[0x61, 0x62, 0x63]⟩ ((appendAll C ByteArray.empty [⟨#[1, 2, 3]⟩]).size % BS)) 9 5 :=
  tornRejected_ex1.noFalseAccept
example : NoFalseAccept C (appendAll C ByteArray.empty [⟨#[1, 2, 3]⟩])
    (writeRec C ⟨#[0x61, 0x62, 0x63]⟩ ((appendAll C ByteArray.empty [⟨#[1, 2, 3]⟩]).size % BS)) 5 20 :=
  tornRejected_ex2.noFalseAccept

set_option maxRecDepth 100000 in
/-- … and `scan_torn_zero_rejected` applies: the scan of that image returns the first record,
    `validEnd` = the end of the first record, no error -/
example (fid : Nat) :
    scan C true fid (appendAll C ByteArray.empty [⟨#[1, 2, 3]⟩]
        ++ (writeRec C ⟨#[0x61, 0x62, 0x63]⟩
              ((appendAll C ByteArray.empty [⟨#[1, 2, 3]⟩]).size % BS)).extract 0 9 ++ zeros 5)
      = { recs := [(⟨#[1, 2, 3]⟩, posOf C fid 0 ⟨#[1, 2, 3]⟩)],
          validEnd := (appendAll C ByteArray.empty [⟨#[1, 2, 3]⟩]).size, ok := true } :=
  scan_torn_zero_rejected fid [⟨#[1, 2, 3]⟩]
    (by intro x hx; simp only [List.mem_singleton] at hx; subst hx; decide)
    ⟨#[0x61, 0x62, 0x63]⟩ (by decide) 9 5 (by decide) (by decide) (fun _ => tornRejected_ex1)

end XixiKV.Frame

/-! ## (d) restart: `Open` on a directory whose last file holds a partly persisted record

Power failure under memory-mapped I/O: the older files are zero-extended ghost files (`MatchesZ`);
the last file holds the records `g0`, then the first `m` bytes of what the append of one more record
`r` adds, then `k` zero bytes that reach beyond the end of that record. -/
namespace XixiKV.Engine.Restart
open XixiKV XixiKV.Engine XixiKV.Frame XixiKV.Record XixiKV.Index XixiKV.Adopt XixiKV.Engine.MergeP

theorem payloads_snoc (g0 : GFile) (r : Record) : payloads (g0 ++ [r]) = payloads g0 ++ [encodeRecord r] := by
  simp [payloads]

/-- **one file with a partly persisted last record** (tolerant reader): `loadFile` replays the
    records `g'` — `g0`, or `g0 ++ [r]` when the damaged chunk is not rejected (then the lost bytes
    were zeros anyway) — and cuts the file back to exactly the bytes of `g'` -/
theorem loadFile_torn_zero (rp : Replay) (id : Nat) (g0 : GFile) (r : Record) (sy m k : Nat)
    (hok : ∀ x ∈ g0, RecOK x) (hr : RecOK r)
    (hm : m < (writeRec C (encodeRecord r) ((bytesOf g0).size % BS)).size)
    (hk : (writeRec C (encodeRecord r) ((bytesOf g0).size % BS)).size < m + k)
    (hnfa : NoFalseAccept C (bytesOf g0) (writeRec C (encodeRecord r) ((bytesOf g0).size % BS)) m k) :
    ∃ g', (g' = g0 ∨ g' = g0 ++ [r]) ∧
      ((padOf ((bytesOf g0).size % BS) < m →
        TornRejected C (bytesOf g0) (writeRec C (encodeRecord r) ((bytesOf g0).size % BS)) m k) → g' = g0) ∧
      loadFile rp id
          ⟨bytesOf g0 ++ (writeRec C (encodeRecord r) ((bytesOf g0).size % BS)).extract 0 m ++ zeros k, sy⟩ true
        = some (replayFrom rp (g'.zip (possOf id g')), ⟨bytesOf g', min sy (bytesOf g').size⟩) := by
  have hd : 0 < (encodeRecord r).size := by have := encodeRecord_size_ge r; omega
  obtain ⟨ds', hds, hcl, hscan, hlt, hcut⟩ :=
    scan_torn_zero_recover id (payloads g0) (payloads_pos g0) (encodeRecord r) hd m k hm hk hnfa
  have hg : ∃ g', (g' = g0 ∨ g' = g0 ++ [r]) ∧ ds' = payloads g' ∧ (ds' = payloads g0 → g' = g0) := by
    rcases hds with e | e
    · exact ⟨g0, Or.inl rfl, e, fun _ => rfl⟩
    · refine ⟨g0 ++ [r], Or.inr rfl, by rw [e, payloads_snoc], ?_⟩
      intro e'
      rw [e'] at e
      have := congrArg List.length e
      simp at this
  obtain ⟨g', hg1, hg2, hg3⟩ := hg
  subst hg2
  have hok' : ∀ x ∈ g', RecOK x := by
    rcases hg1 with e | e
    · rw [e]; exact hok
    · rw [e]
      intro x hx
      simp only [List.mem_append, List.mem_singleton] at hx
      rcases hx with hx | rfl
      · exact hok x hx
      · exact hr
  refine ⟨g', hg1, fun h => hg3 (hcl h), ?_⟩
  have := loadFile_of_scan rp id
    ⟨bytesOf g0 ++ (writeRec C (encodeRecord r) ((bytesOf g0).size % BS)).extract 0 m ++ zeros k, sy⟩
    true g' (possOf id g') (bytesOf g').size hok' hscan
  have hlt' : (bytesOf g').size
      < (bytesOf g0 ++ (writeRec C (encodeRecord r) ((bytesOf g0).size % BS)).extract 0 m ++ zeros k).size := hlt
  have hcut' : (bytesOf g0 ++ (writeRec C (encodeRecord r) ((bytesOf g0).size % BS)).extract 0 m
      ++ zeros k).extract 0 (bytesOf g').size = bytesOf g' := hcut
  rw [this]
  simp only [if_pos hlt', hcut']

/-- zero-extended ghost files, followed by arbitrary files: the zero-extended part replays the
    ghost log and is cut back to its logical bytes -/
theorem loadIndex_append_zero_ext : ∀ (dataI : List (Nat × FileSt)) (gI : GDir) (r : Replay)
    (rest : List (Nat × FileSt)), MatchesZ dataI gI → (∀ x ∈ gI, ∀ r ∈ x.2, RecOK r) →
    loadIndex r 0 (dataI ++ rest)
      = match loadIndex (replayFrom r (logOf gI)) 0 rest with
        | some (r', fs) => some (r', cutBack dataI gI ++ fs)
        | none => none := by
  intro dataI
  induction dataI with
  | nil =>
    intro gI r rest hm _
    rw [MatchesZ_nil_left] at hm; subst hm
    simp only [List.nil_append, logOf, List.flatMap_nil, replayFrom_nil, cutBack]
    cases loadIndex r 0 rest with
    | none => rfl
    | some p => rfl
  | cons x data ih =>
    intro gI r rest hm hok
    rw [MatchesZ_cons] at hm
    obtain ⟨y, g', rfl, hid, ⟨k, hb⟩, hm'⟩ := hm
    obtain ⟨id, fb, sy⟩ := x
    simp only at hid hb
    subst hb
    have hoky : ∀ r ∈ y.2, RecOK r := hok y (by simp)
    have hok' : ∀ x ∈ g', ∀ r ∈ x.2, RecOK r := fun x hx => hok x (by simp [hx])
    simp only [List.cons_append, loadIndex, Nat.not_lt_zero, if_false]
    rw [loadFile_zero_ext r id y.2 sy k _ hoky]
    simp only []
    rw [ih g' _ rest hm' hok', logOf_cons, replayFrom_append, hid]
    have hcb : cutBack ((y.1, (⟨bytesOf y.2 ++ zeros k, sy⟩ : FileSt)) :: data) (y :: g')
        = (y.1, ⟨bytesOf y.2, if 0 < k then min sy (bytesOf y.2).size else sy⟩) :: cutBack data g' := by
      simp only [cutBack, ByteArray.size_append, size_zeros]
      by_cases hk : 0 < k
      · rw [if_pos hk, if_pos (by omega)]
      · rw [if_neg hk, if_neg (by omega)]
    rw [hcb]
    unfold replayFrom
    cases loadIndex (List.foldl (fun r x => replayRec r x.1 x.2)
      (List.foldl (fun r x => replayRec r x.1 x.2) r (y.2.zip (possOf y.1 y.2))) (logOf g')) 0 rest with
    | none => rfl
    | some p => rfl

/-- **`Open` after a power failure under memory-mapped I/O** (decomposed form, mirrors
    `openDB_crash` and `openDB_zero_ext`): a closed, unlocked directory with nothing to adopt; the
    older files are zero-extended ghost files; the last file holds the records `g0`, the first `m`
    bytes of the append of `r`, and `k` zero bytes reaching beyond the end of that record.  Under
    `NoFalseAccept`, `Open` succeeds; the handle is built from the replay of `gI ++ [(id, g')]` with
    `g' = g0` — or `g' = g0 ++ [r]`, possible only when the damaged chunk is not rejected because the
    lost bytes were zeros anyway —; the older files are cut back to their logical bytes and the last
    file to exactly the bytes of `g'`. -/
theorem openDB_torn_zero (s : St) (dir : String) (cfg : Cfg) (d : DirSt)
    (gI : GDir) (id : Nat) (g0 : GFile) (r : Record) (dataI : List (Nat × FileSt)) (fl : FileSt) (m k : Nat)
    (hdb : s.db = none) (hcfg : cfg.Valid)
    (hd : s.world.get dir = some d) (hl : d.locked = false) (hpl : plan s.world dir = none)
    (hrecs : ∀ x ∈ gI ++ [(id, g0 ++ [r])], ∀ r ∈ x.2, RecOK r)
    (hdata : d.data = dataI ++ [(id, fl)]) (hI : MatchesZ dataI gI)
    (hm : m < (writeRec C (encodeRecord r) ((bytesOf g0).size % BS)).size)
    (hk : (writeRec C (encodeRecord r) ((bytesOf g0).size % BS)).size < m + k)
    (hnfa : NoFalseAccept C (bytesOf g0) (writeRec C (encodeRecord r) ((bytesOf g0).size % BS)) m k)
    (hfl : fl.bytes
      = bytesOf g0 ++ (writeRec C (encodeRecord r) ((bytesOf g0).size % BS)).extract 0 m ++ zeros k) :
    ∃ g', (g' = g0 ∨ g' = g0 ++ [r]) ∧
      ((padOf ((bytesOf g0).size % BS) < m →
        TornRejected C (bytesOf g0) (writeRec C (encodeRecord r) ((bytesOf g0).size % BS)) m k) → g' = g0) ∧
      openDB s dir cfg
        = ({ world := s.world.set dir
               { d with data := cutBack dataI gI ++ [(id, ⟨bytesOf g', min fl.synced (bytesOf g').size⟩)],
                        locked := true },
             db := some (mkDB cfg dir (replayLog (logOf (gI ++ [(id, g')])))
               (cutBack dataI gI ++ [(id, ⟨bytesOf g', min fl.synced (bytesOf g').size⟩)])) }, .ok) := by
  have hokI : ∀ x ∈ gI, ∀ r ∈ x.2, RecOK r := fun x hx => hrecs x (by simp [hx])
  have hokl : ∀ x ∈ g0 ++ [r], RecOK x := hrecs (id, g0 ++ [r]) (by simp)
  obtain ⟨g', hg1, hg2, hload⟩ :=
    loadFile_torn_zero (replayFrom Replay.init (logOf gI)) id g0 r fl.synced m k
      (fun x hx => hokl x (by simp [hx])) (hokl r (by simp)) hm hk hnfa
  refine ⟨g', hg1, hg2, ?_⟩
  have hfl' : fl = ⟨bytesOf g0 ++ (writeRec C (encodeRecord r) ((bytesOf g0).size % BS)).extract 0 m
      ++ zeros k, fl.synced⟩ := by
    obtain ⟨b, sy⟩ := fl; simp only at hfl; rw [hfl]
  have hli : loadIndex Replay.init 0 d.data
      = some (replayLog (logOf (gI ++ [(id, g')])),
          cutBack dataI gI ++ [(id, ⟨bytesOf g', min fl.synced (bytesOf g').size⟩)]) := by
    rw [hdata, loadIndex_append_zero_ext dataI gI Replay.init [(id, fl)] hI hokI]
    rw [hfl']
    simp only [loadIndex, Nat.not_lt_zero, if_false, List.isEmpty_nil, hload]
    rw [replayLog_eq, logOf_append, replayFrom_append]
    simp [logOf]
  exact openDB_scan' s dir cfg d _ _ hdb hcfg hd hl hpl (by rw [hdata]; simp) hli

/-- … and the engine invariant holds again for the recovered ghost directory (mirrors
    `C03_open_crash`): `Open` returns `.ok`; the index is the replay of `gI ++ [(id, g')]`; the
    directory's files are byte for byte the ghost files (`Matches`, part of `Inv`), the last one cut
    back to the bytes of the recovered records -/
theorem Inv_openDB_torn_zero (s : St) (dir : String) (cfg : Cfg) (d : DirSt)
    (gI : GDir) (id : Nat) (g0 : GFile) (r : Record) (dataI : List (Nat × FileSt)) (fl : FileSt) (m k : Nat)
    (hdb : s.db = none) (hcfg : cfg.Valid)
    (hd : s.world.get dir = some d) (hl : d.locked = false) (hpl : plan s.world dir = none)
    (hasc : AscIds (gI ++ [(id, g0 ++ [r])]))
    (hrecs : ∀ x ∈ gI ++ [(id, g0 ++ [r])], ∀ r ∈ x.2, RecOK r)
    (hdata : d.data = dataI ++ [(id, fl)]) (hI : MatchesZ dataI gI)
    (hm : m < (writeRec C (encodeRecord r) ((bytesOf g0).size % BS)).size)
    (hk : (writeRec C (encodeRecord r) ((bytesOf g0).size % BS)).size < m + k)
    (hnfa : NoFalseAccept C (bytesOf g0) (writeRec C (encodeRecord r) ((bytesOf g0).size % BS)) m k)
    (hfl : fl.bytes
      = bytesOf g0 ++ (writeRec C (encodeRecord r) ((bytesOf g0).size % BS)).extract 0 m ++ zeros k) :
    ∃ g', (g' = g0 ∨ g' = g0 ++ [r]) ∧
      ((padOf ((bytesOf g0).size % BS) < m →
        TornRejected C (bytesOf g0) (writeRec C (encodeRecord r) ((bytesOf g0).size % BS)) m k) → g' = g0) ∧
      ∃ s' db', openDB s dir cfg = (s', .ok) ∧ s'.db = some db' ∧
        db'.dir = dir ∧ db'.cfg = cfg ∧ db'.activeId = id ∧
        db'.index = (replayLog (logOf (gI ++ [(id, g')]))).index ∧
        (∃ d', s'.world.get dir = some d' ∧
          d'.data = cutBack dataI gI ++ [(id, ⟨bytesOf g', min fl.synced (bytesOf g').size⟩)]) ∧
        Inv s' db' (gI ++ [(id, g')]) := by
  obtain ⟨g', hg1, hg2, hopen⟩ := openDB_torn_zero s dir cfg d gI id g0 r dataI fl m k hdb hcfg hd hl hpl
    hrecs hdata hI hm hk hnfa hfl
  have hact : (mkDB cfg dir (replayLog (logOf (gI ++ [(id, g')])))
      (cutBack dataI gI ++ [(id, ⟨bytesOf g', min fl.synced (bytesOf g').size⟩)])).activeId = id := by
    unfold mkDB
    exact activeId_of_getLast (by rw [List.getLast?_concat]; rfl)
  have hsub : ∀ x ∈ g', x ∈ g0 ++ [r] := by
    rcases hg1 with e | e
    · rw [e]; intro x hx; simp [hx]
    · rw [e]; intro x hx; exact hx
  refine ⟨g', hg1, hg2, _, _, hopen, rfl, rfl, rfl, hact, rfl, ⟨_, World.get_set_self _ _ _, rfl⟩, ?_⟩
  exact {
    dir := ⟨_, World.get_set_self _ _ _, rfl, Matches_append (Matches_cutBack hI) (by simp [Matches])⟩
    asc := AscIds_cut _ hasc
    active := by rw [List.getLast?_concat, hact]; rfl
    recs := by
      intro x hx r' hr'
      simp only [List.mem_append, List.mem_singleton] at hx
      rcases hx with hx | hx
      · exact hrecs x (by simp [hx]) r' hr'
      · subst hx
        exact hrecs (id, g0 ++ [r]) (by simp) r' (hsub r' hr')
    index := rfl
    sorted := replay_sorted _
    counters := replay_counters _
    nobatch := rfl }

/-- the same in the form of `C03_open_crash`: the last file's ghost content at the time of the power
    failure is `gl`; the image holds its first `j` records completely, a proper prefix of the bytes
    of record `j`, and zeros.  `Open` recovers `gl.take j'` with `j' = j` (or `j' = j + 1` in the
    degenerate case where nothing but zeros was lost). -/
theorem Inv_openDB_torn_zero_take (s : St) (dir : String) (cfg : Cfg) (d : DirSt)
    (gI : GDir) (id : Nat) (gl : GFile) (j : Nat) (hj : j < gl.length)
    (dataI : List (Nat × FileSt)) (fl : FileSt) (m k : Nat)
    (hdb : s.db = none) (hcfg : cfg.Valid)
    (hd : s.world.get dir = some d) (hl : d.locked = false) (hpl : plan s.world dir = none)
    (hasc : AscIds (gI ++ [(id, gl)]))
    (hrecs : ∀ x ∈ gI ++ [(id, gl)], ∀ r ∈ x.2, RecOK r)
    (hdata : d.data = dataI ++ [(id, fl)]) (hI : MatchesZ dataI gI)
    (hm : m < (writeRec C (encodeRecord gl[j]) ((bytesOf (gl.take j)).size % BS)).size)
    (hk : (writeRec C (encodeRecord gl[j]) ((bytesOf (gl.take j)).size % BS)).size < m + k)
    (hnfa : NoFalseAccept C (bytesOf (gl.take j))
      (writeRec C (encodeRecord gl[j]) ((bytesOf (gl.take j)).size % BS)) m k)
    (hfl : fl.bytes = bytesOf (gl.take j)
      ++ (writeRec C (encodeRecord gl[j]) ((bytesOf (gl.take j)).size % BS)).extract 0 m ++ zeros k) :
    ∃ j', (j' = j ∨ j' = j + 1) ∧
      ((padOf ((bytesOf (gl.take j)).size % BS) < m →
        TornRejected C (bytesOf (gl.take j))
          (writeRec C (encodeRecord gl[j]) ((bytesOf (gl.take j)).size % BS)) m k) → j' = j) ∧
      ∃ s' db', openDB s dir cfg = (s', .ok) ∧ s'.db = some db' ∧
        db'.dir = dir ∧ db'.cfg = cfg ∧ db'.activeId = id ∧
        db'.index = (replayLog (logOf (gI ++ [(id, gl.take j')]))).index ∧
        (∃ d', s'.world.get dir = some d' ∧
          d'.data = cutBack dataI gI
            ++ [(id, ⟨bytesOf (gl.take j'), min fl.synced (bytesOf (gl.take j')).size⟩)]) ∧
        Inv s' db' (gI ++ [(id, gl.take j')]) := by
  have htk : gl.take j ++ [gl[j]] = gl.take (j + 1) := List.take_append_getElem hj
  have hrecs' : ∀ x ∈ gI ++ [(id, gl.take j ++ [gl[j]])], ∀ r ∈ x.2, RecOK r := by
    intro x hx r' hr'
    simp only [List.mem_append, List.mem_singleton] at hx
    rcases hx with hx | hx
    · exact hrecs x (by simp [hx]) r' hr'
    · subst hx
      rw [htk] at hr'
      exact hrecs (id, gl) (by simp) r' (List.mem_of_mem_take hr')
  obtain ⟨g', hg1, hg2, hrest⟩ := Inv_openDB_torn_zero s dir cfg d gI id (gl.take j) gl[j] dataI fl m k
    hdb hcfg hd hl hpl (AscIds_cut _ hasc) hrecs' hdata hI hm hk hnfa hfl
  rcases hg1 with e | e
  · subst e
    exact ⟨j, Or.inl rfl, fun _ => rfl, hrest⟩
  · rw [htk] at e
    subst e
    refine ⟨j + 1, Or.inr rfl, ?_, hrest⟩
    intro h
    have := congrArg List.length (hg2 h)
    simp only [List.length_take] at this
    omega

/-! ### non-vacuity -/

def exR1 : Record := { typ := 0, key := ⟨#[0x61]⟩, value := ⟨#[0x31]⟩, batch := 0 }
def exR2 : Record := { typ := 0, key := ⟨#[0x62]⟩, value := ⟨#[0x32]⟩, batch := 0 }

theorem exR1_ok : RecOK exR1 := by
  refine ⟨by decide, by decide, ?_, ?_, by decide⟩
  · show (⟨#[0x61]⟩ : ByteArray).size < 2 ^ 31
    have : (⟨#[0x61]⟩ : ByteArray).size = 1 := rfl
    omega
  · show (⟨#[0x31]⟩ : ByteArray).size < 2 ^ 31
    have : (⟨#[0x31]⟩ : ByteArray).size = 1 := rfl
    omega

theorem exR2_ok : RecOK exR2 := by
  refine ⟨by decide, by decide, ?_, ?_, by decide⟩
  · show (⟨#[0x62]⟩ : ByteArray).size < 2 ^ 31
    have : (⟨#[0x62]⟩ : ByteArray).size = 1 := rfl
    omega
  · show (⟨#[0x32]⟩ : ByteArray).size < 2 ^ 31
    have : (⟨#[0x32]⟩ : ByteArray).size = 1 := rfl
    omega

theorem enc_exR1 : encodeRecord exR1 = ⟨#[0, 2, 2, 0, 0x61, 0x31]⟩ := by
  unfold encodeRecord Varint.putVarintNat
  rw [Varint.putUvarint_lt _ (by decide), Varint.putUvarint_lt _ (by decide),
    Varint.putUvarint_lt _ (by decide)]
  rfl

theorem enc_exR2 : encodeRecord exR2 = ⟨#[0, 2, 2, 0, 0x62, 0x32]⟩ := by
  unfold encodeRecord Varint.putVarintNat
  rw [Varint.putUvarint_lt _ (by decide), Varint.putUvarint_lt _ (by decide),
    Varint.putUvarint_lt _ (by decide)]
  rfl

theorem bytesOf_exR1 : bytesOf [exR1] = appendAll C ByteArray.empty [⟨#[0, 2, 2, 0, 0x61, 0x31]⟩] := by
  unfold bytesOf payloads
  rw [List.map_cons, List.map_nil, enc_exR1]

/-- the damaged chunk of the example image is rejected (evaluated by the kernel) -/
theorem exRejected : TornRejected C (bytesOf [exR1])
    (writeRec C (encodeRecord exR2) ((bytesOf [exR1]).size % BS)) 9 100 := by
  rw [bytesOf_exR1, enc_exR2]
  exact undec_of_undecB (by decide +kernel)

theorem exSize : (writeRec C (encodeRecord exR2) ((bytesOf [exR1]).size % BS)).size = 13 := by
  rw [bytesOf_exR1, enc_exR2]
  decide +kernel

set_option maxRecDepth 100000 in
/-- `Inv_openDB_torn_zero` is not vacuous: one data file holding the record `exR1`, 9 bytes of the
    append of `exR2` (its header and two payload bytes), and 100 zero bytes.  `Open` succeeds, recovers
    exactly `exR1`, and the invariant holds for the ghost directory `[(0, [exR1])]`. -/
example : ∃ s' db',
    openDB { world := [("d", { data := [(0, ⟨bytesOf [exR1]
                ++ (writeRec C (encodeRecord exR2) ((bytesOf [exR1]).size % BS)).extract 0 9 ++ zeros 100, 0⟩)],
                               hint := none, marker := none, locked := false })], db := none }
      "d" { fileSize := 100, sync := 0, bps := 0, idx := 0, io := 1, shards := 1 } = (s', .ok) ∧
    Inv s' db' [(0, [exR1])] := by
  obtain ⟨g', _, hg2, s', db', hopen, _, _, _, _, _, _, hinv⟩ := Inv_openDB_torn_zero
    { world := [("d", { data := [(0, ⟨bytesOf [exR1]
          ++ (writeRec C (encodeRecord exR2) ((bytesOf [exR1]).size % BS)).extract 0 9 ++ zeros 100, 0⟩)],
                        hint := none, marker := none, locked := false })], db := none }
    "d" { fileSize := 100, sync := 0, bps := 0, idx := 0, io := 1, shards := 1 }
    { data := [(0, ⟨bytesOf [exR1]
        ++ (writeRec C (encodeRecord exR2) ((bytesOf [exR1]).size % BS)).extract 0 9 ++ zeros 100, 0⟩)],
      hint := none, marker := none, locked := false }
    [] 0 [exR1] exR2 []
    ⟨bytesOf [exR1] ++ (writeRec C (encodeRecord exR2) ((bytesOf [exR1]).size % BS)).extract 0 9 ++ zeros 100, 0⟩
    9 100 rfl (by decide) (by simp [World.get]) rfl
    (plan_none_of_no_dir (by simp [World.get, mergeDirName])) (by simp [AscIds])
    (by
      intro x hx r hr
      simp only [List.nil_append, List.mem_singleton] at hx
      subst hx
      simp only [List.cons_append, List.nil_append, List.mem_cons, List.not_mem_nil, or_false] at hr
      rcases hr with rfl | rfl
      · exact exR1_ok
      · exact exR2_ok)
    rfl (by simp [MatchesZ]) (by rw [exSize]; decide) (by rw [exSize]; decide)
    exRejected.noFalseAccept rfl
  have e : g' = [exR1] := hg2 (fun _ => exRejected)
  subst e
  exact ⟨s', db', hopen, hinv⟩

end XixiKV.Engine.Restart
