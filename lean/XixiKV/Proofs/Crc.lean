import XixiKV.Proofs.Chunk
/-!
# C12: a single-bit flip is always detected by the chunk checksum

* the CRC-32 shift register update is injective in the register (`stepBit_inj`, `stepByte_inj_left`,
  `crcRaw_inj`) and, for a fixed register, injective in the input byte (`stepByte_inj_right`);
* hence two messages differing in exactly one byte have different checksums (`checksum_single_byte`,
  `checksum_one_byte_diff`), in particular a one-bit flip changes the checksum (`checksum_flip`);
* chunk level: a one-bit flip anywhere in an encoded chunk except its two length bytes makes `dec`
  answer `.badCrc` (`dec_flip`); bytes after the chunk never matter (`dec_ignores_rest_beyond`).
Kernel-only proofs (no `native_decide`/`bv_decide`).
-/
namespace XixiKV.Chunk
open XixiKV XixiKV.Frame

theorem and_one_beq (c : UInt32) : (c &&& 1 == 1) = c.toBitVec.getLsbD 0 := by
  have h1 : (c &&& 1 == 1) = decide (c.toNat % 2 = 1) := by
    have : (c &&& 1 = 1) ↔ c.toNat % 2 = 1 := by
      rw [← UInt32.toNat_inj, UInt32.toNat_and]
      show c.toNat &&& 1 = 1 ↔ _
      rw [Nat.and_one_is_mod]
    rw [← decide_eq_decide] at this
    rw [← this]
    rfl
  rw [h1]
  simp only [BitVec.getLsbD, Nat.testBit, Nat.shiftRight_zero]
  by_cases h : c.toNat % 2 = 1 <;> simp [h]

theorem stepBit_toBitVec (c : UInt32) :
    (stepBit c).toBitVec
      = (c.toBitVec >>> 1) ^^^ (if c.toBitVec.getLsbD 0 then 0xEDB88320#32 else 0#32) := by
  unfold stepBit
  rw [and_one_beq]
  cases c.toBitVec.getLsbD 0 <;> simp [poly]

/-- one shift-register step on `BitVec 32` -/
def bvStep (c : BitVec 32) : BitVec 32 :=
  (c >>> 1) ^^^ (if c.getLsbD 0 then 0xEDB88320#32 else 0#32)

/-- the bit shifted out of the register reappears as the top bit of the next register -/
theorem msb_bvStep (c : BitVec 32) : (bvStep c).msb = c.getLsbD 0 := by
  unfold bvStep
  rw [BitVec.msb_xor]
  have h1 : (c >>> 1).msb = false := by
    simp [BitVec.msb_ushiftRight]
  rw [h1]
  cases c.getLsbD 0 <;> simp <;> decide

theorem bvStep_inj (a b : BitVec 32) (h : bvStep a = bvStep b) : a = b := by
  have hl : a.getLsbD 0 = b.getLsbD 0 := by rw [← msb_bvStep, ← msb_bvStep, h]
  have hs : a >>> 1 = b >>> 1 := by
    unfold bvStep at h
    rw [hl] at h
    have := congrArg (· ^^^ (if b.getLsbD 0 = true then 0xEDB88320#32 else 0#32)) h
    simpa [BitVec.xor_assoc] using this
  have ha : a.toNat / 2 = b.toNat / 2 := by
    have := congrArg BitVec.toNat hs
    simpa [BitVec.toNat_ushiftRight, Nat.shiftRight_eq_div_pow] using this
  have hb : a.toNat % 2 = b.toNat % 2 := by
    have e : ∀ x : BitVec 32, x.getLsbD 0 = decide (x.toNat % 2 = 1) := by
      intro x
      simp only [BitVec.getLsbD, Nat.testBit, Nat.shiftRight_zero]
      by_cases h : x.toNat % 2 = 1 <;> simp [h]
    rw [e, e] at hl
    by_cases x : a.toNat % 2 = 1 <;> by_cases y : b.toNat % 2 = 1 <;>
      simp [x, y] at hl <;> omega
  apply BitVec.eq_of_toNat_eq
  omega

theorem stepBit_inj (a b : UInt32) (h : stepBit a = stepBit b) : a = b := by
  apply UInt32.eq_of_toBitVec_eq
  apply bvStep_inj
  have h' := congrArg UInt32.toBitVec h
  rwa [stepBit_toBitVec, stepBit_toBitVec] at h'

theorem xor_left_inj32 (c x y : UInt32) (h : c ^^^ x = c ^^^ y) : x = y := by
  have := congrArg (c ^^^ ·) h
  simpa [← UInt32.xor_assoc] using this

theorem stepByte_inj_left (b : UInt8) (c d : UInt32) (h : stepByte c b = stepByte d b) : c = d := by
  unfold stepByte at h
  have h := stepBit_inj _ _ (stepBit_inj _ _ (stepBit_inj _ _ (stepBit_inj _ _
    (stepBit_inj _ _ (stepBit_inj _ _ (stepBit_inj _ _ (stepBit_inj _ _ h)))))))
  have := congrArg (· ^^^ b.toUInt32) h
  simpa [UInt32.xor_assoc] using this

theorem toUInt32_inj (x y : UInt8) (h : x.toUInt32 = y.toUInt32) : x = y := by
  have := congrArg UInt32.toNat h
  simp at this
  exact UInt8.toNat_inj.mp this

theorem stepByte_inj_right (c : UInt32) (x y : UInt8) (h : stepByte c x = stepByte c y) : x = y := by
  unfold stepByte at h
  have h := stepBit_inj _ _ (stepBit_inj _ _ (stepBit_inj _ _ (stepBit_inj _ _
    (stepBit_inj _ _ (stepBit_inj _ _ (stepBit_inj _ _ (stepBit_inj _ _ h)))))))
  exact toUInt32_inj _ _ (xor_left_inj32 _ _ _ h)

theorem foldl_stepByte_inj (l : List UInt8) (c d : UInt32)
    (h : l.foldl stepByte c = l.foldl stepByte d) : c = d := by
  induction l generalizing c d with
  | nil => exact h
  | cons x xs ih => exact stepByte_inj_left x c d (ih _ _ h)

theorem crcRaw_inj (bs : ByteArray) (c d : UInt32) (h : crcRaw c bs = crcRaw d bs) : c = d := by
  unfold crcRaw at h
  rw [← Array.foldl_toList, ← Array.foldl_toList] at h
  exact foldl_stepByte_inj _ c d h

theorem crcRaw_one (c : UInt32) (x : UInt8) : crcRaw c ⟨#[x]⟩ = stepByte c x := rfl

theorem not_inj32 (a b : UInt32) (h : ~~~ a = ~~~ b) : a = b := by
  have := congrArg (~~~ ·) h
  simpa using this

/-- two messages that differ in exactly one byte have different CRC-32 checksums -/
theorem checksum_single_byte (pre post : ByteArray) (x y : UInt8) (hxy : x ≠ y) :
    checksum (pre ++ ⟨#[x]⟩ ++ post) ≠ checksum (pre ++ ⟨#[y]⟩ ++ post) := by
  intro h
  unfold checksum at h
  have h := not_inj32 _ _ h
  rw [crcRaw_append, crcRaw_append, crcRaw_append, crcRaw_append] at h
  have h := crcRaw_inj _ _ _ h
  rw [crcRaw_one, crcRaw_one] at h
  exact hxy (stepByte_inj_right _ _ _ h)

theorem data_set! (m : ByteArray) (i : Nat) (v : UInt8) : (m.set! i v).data = m.data.setIfInBounds i v := by
  rcases m with ⟨a⟩; rfl
theorem get!_eq (m : ByteArray) (i : Nat) : m.get! i = m.data[i]! := by
  rcases m with ⟨a⟩; rfl

theorem set!_eq_splice (m : ByteArray) (i : Nat) (v : UInt8) (hi : i < m.size) :
    m.set! i v = m.extract 0 i ++ ⟨#[v]⟩ ++ m.extract (i+1) m.size := by
  apply ByteArray.ext
  rw [data_set!]
  simp only [ByteArray.data_append, ByteArray.data_extract]
  have hs : m.data.size = m.size := rfl
  apply Array.ext
  · simp; omega
  · intro j h1 h2
    have hj : j < m.data.size := by simpa using h1
    rw [Array.getElem_setIfInBounds hj]
    simp only [Array.getElem_append, Array.getElem_extract, Array.size_append, Array.size_extract]
    have hm : min i m.data.size - 0 = i := by omega
    simp only [hm]
    by_cases h : i = j
    · subst h; simp
    · by_cases h' : j < i
      · simp [h, h']; intro h''; omega
      · have : ¬ j < i + 1 := by omega
        simp [h, this]
        congr 1; omega

theorem eq_splice (m : ByteArray) (i : Nat) (hi : i < m.size) :
    m = m.extract 0 i ++ ⟨#[m.get! i]⟩ ++ m.extract (i+1) m.size := by
  rw [← set!_eq_splice m i _ hi]
  apply ByteArray.ext
  rw [data_set!, get!_eq]
  have hs : m.data.size = m.size := rfl
  rw [getElem!_pos m.data i (by omega)]
  rw [Array.setIfInBounds_def, dif_pos (by omega), Array.set_getElem_self]

/-- flip bit `b` (0 = least significant) of byte `i` of `m`; a no-op when `i` is out of range -/
def flipBit (m : ByteArray) (i : Nat) (b : Nat) : ByteArray :=
  m.set! i (m.get! i ^^^ (1 <<< b.toUInt8))

theorem mask_ne_zero (b : Nat) (hb : b < 8) : (1 : UInt8) <<< b.toUInt8 ≠ 0 := by
  have : b = 0 ∨ b = 1 ∨ b = 2 ∨ b = 3 ∨ b = 4 ∨ b = 5 ∨ b = 6 ∨ b = 7 := by omega
  rcases this with h | h | h | h | h | h | h | h <;> subst h <;> decide

theorem xor_ne_self8 (x k : UInt8) (hk : k ≠ 0) : x ^^^ k ≠ x := by
  intro h
  apply hk
  have := congrArg (x ^^^ ·) h
  simpa [← UInt8.xor_assoc] using this

@[simp] theorem flipBit_size (m : ByteArray) (i b : Nat) : (flipBit m i b).size = m.size := by
  show (flipBit m i b).data.size = m.data.size
  rw [flipBit, data_set!]; simp

theorem flipBit_eq_splice (m : ByteArray) (i b : Nat) (hi : i < m.size) :
    flipBit m i b
      = m.extract 0 i ++ ⟨#[m.get! i ^^^ (1 <<< b.toUInt8)]⟩ ++ m.extract (i+1) m.size :=
  set!_eq_splice m i _ hi

/-- C12: a single-bit flip anywhere in a message changes its CRC-32 -/
theorem checksum_flip (m : ByteArray) (i b : Nat) (hi : i < m.size) (hb : b < 8) :
    checksum (flipBit m i b) ≠ checksum m := by
  rw [flipBit_eq_splice m i b hi]
  have := checksum_single_byte (m.extract 0 i) (m.extract (i+1) m.size) _ _
    (xor_ne_self8 (m.get! i) _ (mask_ne_zero b hb))
  rwa [← eq_splice m i hi] at this

theorem flipBit_ne (m : ByteArray) (i b : Nat) (hi : i < m.size) (hb : b < 8) : flipBit m i b ≠ m := by
  intro h
  exact checksum_flip m i b hi hb (by rw [h])

theorem get!_append_left (a c : ByteArray) (j : Nat) (hj : j < a.size) : (a ++ c).get! j = a.get! j := by
  have hs : a.data.size = a.size := rfl
  rw [get!_eq, get!_eq, ByteArray.data_append, getElem!_pos _ j (by simp; omega),
    getElem!_pos _ j (by omega), Array.getElem_append_left]

theorem get!_append_right (a c : ByteArray) (j : Nat) (hj : a.size ≤ j) :
    (a ++ c).get! j = c.get! (j - a.size) := by
  have hs : a.data.size = a.size := rfl
  rw [get!_eq, get!_eq, ByteArray.data_append]
  simp only [getElem!_def, Array.getElem?_append_right (by omega : a.data.size ≤ j), hs]

theorem flipBit_append_left (a c : ByteArray) (j b : Nat) (hj : j < a.size) :
    flipBit (a ++ c) j b = flipBit a j b ++ c := by
  have hs : a.data.size = a.size := rfl
  apply ByteArray.ext
  rw [flipBit, flipBit, get!_append_left a c j hj, data_set!, ByteArray.data_append,
    ByteArray.data_append, data_set!, Array.setIfInBounds_append_left (by omega)]

theorem flipBit_append_right (a c : ByteArray) (j b : Nat) (hj : a.size ≤ j) :
    flipBit (a ++ c) j b = a ++ flipBit c (j - a.size) b := by
  have hs : a.data.size = a.size := rfl
  apply ByteArray.ext
  rw [flipBit, flipBit, get!_append_right a c j hj, data_set!, ByteArray.data_append,
    ByteArray.data_append, data_set!, Array.setIfInBounds_append_right (by omega), hs]


/-- general form: equal-size messages that agree everywhere except at byte `i` -/
theorem checksum_one_byte_diff (m m' : ByteArray) (i : Nat) (hs : m.size = m'.size) (hi : i < m.size)
    (hne : m.get! i ≠ m'.get! i) (hpre : m.extract 0 i = m'.extract 0 i)
    (hpost : m.extract (i+1) m.size = m'.extract (i+1) m'.size) : checksum m ≠ checksum m' := by
  have := checksum_single_byte (m.extract 0 i) (m.extract (i+1) m.size) _ _ hne
  rw [← eq_splice m i hi] at this
  rw [hpre, hpost, ← eq_splice m' i (hs ▸ hi)] at this
  exact this

theorem rd32_prefix (h4 post : ByteArray) (hs : h4.size = 4) : rd32 (h4 ++ post) 0 = rd32 h4 0 := by
  unfold rd32
  have e1 : (h4 ++ post).extract 0 (0+4) = h4 := by
    have : h4 ++ post = ByteArray.empty ++ h4 ++ post := by simp
    rw [this]
    exact extract_exact _ _ _ _ _ rfl (by simp [hs])
  have e2 : h4.extract 0 (0+4) = h4 := extract_all _ _ (by omega)
  rw [e1, e2]

theorem le32_rd32 (h4 : ByteArray) (hs : h4.size = 4) : le32 (rd32 h4 0) = h4 := by
  unfold rd32
  rw [extract_all _ _ (by omega)]
  rcases h4 with ⟨⟨l⟩⟩
  have hl : l.length = 4 := hs
  match l, hl with
  | [a, b, c, d], _ =>
    show le32 (UInt32.ofNat (a.toNat + 256 * b.toNat + 65536 * c.toNat + 16777216 * d.toNat)) = _
    have ha := a.toNat_lt; have hb := b.toNat_lt; have hc := c.toNat_lt; have hd := d.toNat_lt
    have e : (UInt32.ofNat (a.toNat + 256 * b.toNat + 65536 * c.toNat + 16777216 * d.toNat)).toNat
        = a.toNat + 256 * b.toNat + 65536 * c.toNat + 16777216 * d.toNat := by
      rw [UInt32.toNat_ofNat']
      omega
    unfold le32
    rw [e]
    have t8 : ∀ (x : UInt8) (n : Nat), n = x.toNat → Nat.toUInt8 n = x := by
      intro x n h; subst h; simp
    rw [t8 a _ (by omega), t8 b _ (by omega), t8 c _ (by omega), t8 d _ (by omega)]


/-- generic "checksum mismatch" case of the decoder: any 4 stored bytes, an intact length field,
a body of the announced size -/
theorem dec_bad (h4 body rest : ByteArray) (n : Nat) (h4s : h4.size = 4) (hb : body.size = n + 1)
    (hn : n ≤ 65535) (hne : checksum (le16 n ++ body) ≠ rd32 h4 0) :
    dec (h4 ++ le16 n ++ body ++ rest) = .badCrc := by
  have hH : H = 7 := rfl
  unfold dec
  have hsz : (h4 ++ le16 n ++ body ++ rest).size = 4 + 2 + (n + 1) + rest.size := by
    simp [ByteArray.size_append, h4s, hb]
  rw [if_neg (by omega)]
  have hlen : rd16 (h4 ++ le16 n ++ body ++ rest) 4 = n := by
    rw [ByteArray.append_assoc (b := body) (c := rest), ← h4s]
    exact rd16_at h4 _ n (by omega)
  simp only [hlen]
  rw [if_neg (by omega)]
  have hcrc : rd32 (h4 ++ le16 n ++ body ++ rest) 0 = rd32 h4 0 := by
    rw [ByteArray.append_assoc, ByteArray.append_assoc]
    exact rd32_prefix h4 _ h4s
  have hbody : (h4 ++ le16 n ++ body ++ rest).extract 4 (H + n) = le16 n ++ body := by
    have : h4 ++ le16 n ++ body ++ rest = h4 ++ (le16 n ++ body) ++ rest := by
      simp [ByteArray.append_assoc]
    rw [this]
    exact extract_exact _ _ _ _ _ h4s.symm (by simp [ByteArray.size_append, h4s, hb, hH]; omega)
  rw [hbody, hcrc]
  simp [hne]


theorem rd32_le32 (n : UInt32) : rd32 (le32 n) 0 = n := by
  have := rd32_at ByteArray.empty ByteArray.empty n
  simpa using this

theorem enc_eq (t : CT) (p : ByteArray) :
    enc t p = le32 (checksum (le16 p.size ++ (⟨#[t.toUInt8]⟩ ++ p))) ++ le16 p.size
      ++ (⟨#[t.toUInt8]⟩ ++ p) := by
  simp [enc, update_checksum, ByteArray.append_assoc]

/-- C12 at chunk level: flipping any single bit of an encoded chunk outside the two length bytes
makes `DecodeChunk` report a checksum mismatch, whatever follows the chunk in the block -/
theorem dec_flip (t : CT) (p rest : ByteArray) (j b : Nat) (hp : p.size ≤ 65535)
    (hj : j < (enc t p).size) (hnl : j < 4 ∨ 6 ≤ j) (hb : b < 8) :
    dec (flipBit (enc t p) j b ++ rest) = .badCrc := by
  have hH : H = 7 := rfl
  rw [size_enc] at hj
  rw [enc_eq]
  rcases hnl with h | h
  · -- the flipped bit is in the stored checksum
    rw [ByteArray.append_assoc (a := le32 _), flipBit_append_left _ _ _ _ (by simpa using h),
      ← ByteArray.append_assoc]
    apply dec_bad _ _ _ _ (by simp) (by simp [ByteArray.size_append]; omega) hp
    intro e
    have := le32_rd32 (flipBit (le32 (checksum (le16 p.size ++ (⟨#[t.toUInt8]⟩ ++ p)))) j b) (by simp)
    rw [← e] at this
    exact flipBit_ne _ j b (by simpa using h) hb this.symm
  · -- the flipped bit is in the type byte or the payload
    rw [flipBit_append_right _ _ _ _ (by simp [ByteArray.size_append]; omega)]
    apply dec_bad _ _ _ _ (by simp) (by simp [ByteArray.size_append]; omega) hp
    rw [rd32_le32]
    have e : j - (le32 (checksum (le16 p.size ++ (⟨#[t.toUInt8]⟩ ++ p))) ++ le16 p.size).size
        = (j - 4) - (le16 p.size).size := by
      simp [ByteArray.size_append]; omega
    rw [e, ← flipBit_append_right _ _ _ _ (by simp; omega)]
    exact checksum_flip _ _ _ (by simp [ByteArray.size_append]; omega) hb

theorem dec_ignores_rest_beyond (t : CT) (p rest rest' : ByteArray) (hp : p.size ≤ 65535)
    (ht : t < 256) : dec (enc t p ++ rest) = dec (enc t p ++ rest') := by
  rw [dec_enc t p rest hp ht, dec_enc t p rest' hp ht]


/-! Hypotheses are satisfiable on concrete data. -/
example : checksum (flipBit ⟨#[1, 2, 3]⟩ 1 0) ≠ checksum ⟨#[1, 2, 3]⟩ :=
  checksum_flip _ 1 0 (by decide) (by decide)
example : flipBit ⟨#[1, 2, 3]⟩ 1 0 = ⟨#[1, 3, 3]⟩ := by decide
example : dec (flipBit (enc 0 ⟨#[0x61, 0x62]⟩) 8 7 ++ ⟨#[0, 0, 0]⟩) = .badCrc :=
  dec_flip 0 ⟨#[0x61, 0x62]⟩ ⟨#[0, 0, 0]⟩ 8 7 (by decide) (by rw [size_enc]; decide) (by decide) (by decide)
example : dec (flipBit (enc 3 ⟨#[0x61, 0x62]⟩) 2 5 ++ ByteArray.empty) = .badCrc :=
  dec_flip 3 ⟨#[0x61, 0x62]⟩ ByteArray.empty 2 5 (by decide) (by rw [size_enc]; decide) (by decide) (by decide)


end XixiKV.Chunk
