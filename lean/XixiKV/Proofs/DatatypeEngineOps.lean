import XixiKV.Proofs.DatatypeEngineKV
import XixiKV.Proofs.HistoryCost
/-!
# The engine model simulates the abstract store, operation by operation

`Rel dir V s kv`: the engine state `s` satisfies the invariant of `Properties/C01History.lean` with the
mapping `kv.get` and an empty batch slot (`HInvQ dir s kv.get false`), and every value of the mapping is
at most `V + 64` bytes long (needed because `ZAdd` deletes a key that CONTAINS a stored value — the old
score).  Under `Rel`:

* `sim_get`    — `db.Get`   answers what `kvStore.get` answers (`getQ`);
* `sim_put`    — `db.Put`   (`putQ`, C01);
* `sim_delete` — `db.Delete` (`delQ`, C01);
* `sim_batch`  — `NewBatch; Put/Delete…; Commit` (`bnewQ`, `bputL`, `bdelL`, `bcommitL`, `bdropQ`: C05) —
  the committed batch acts on the mapping as `KV.batch`, i.e. its operations one by one in issue order;
* `sim_restart`, `sim_merge` — C02 / C06: the mapping is unchanged.

Each lemma also transports the size bound `Bnd s A W` of `Proofs/HistoryCost.lean` (active file id ≤ `A`,
total weight ≤ `W`), from which the two `uint32` range conditions of `Merge` and of the restart follow.
-/
namespace XixiKV.Datatype.On
open XixiKV XixiKV.Engine XixiKV.Engine.BatchP XixiKV.Engine.HistP
open XixiKV.Record (diskSizeEstimate)

/-- every stored value is at most `B` bytes long -/
def ValsLE (kv : KV) (B : Nat) : Prop := ∀ k v, kv.get k = some v → v.size ≤ B

def Rel (dir : String) (V : Nat) (s : St) (kv : KV) : Prop :=
  HInvQ dir s (fun k => kv.get k) false ∧ ValsLE kv (V + 64)

theorem getRes_eq (o : Option ByteArray) : C01.getRes o = optRes o := by cases o <;> rfl

theorem specPut_kv (kv : KV) (k v : ByteArray) :
    C01.specPut (fun x => kv.get x) k v = fun x => (kv.put k v).get x := by
  funext x
  simp only [C01.specPut, KV.get_put]

theorem specDel_kv (kv : KV) (k : ByteArray) :
    C01.specDel (fun x => kv.get x) k = fun x => (kv.delete k).get x := by
  funext x
  simp only [C01.specDel, KV.get_delete]

theorem ValsLE.put {kv : KV} {B : Nat} (h : ValsLE kv B) (k v : ByteArray) (hv : v.size ≤ B) :
    ValsLE (kv.put k v) B := by
  intro x w hx
  rw [KV.get_put] at hx
  split at hx
  · cases hx; exact hv
  · exact h x w hx

theorem ValsLE.delete {kv : KV} {B : Nat} (h : ValsLE kv B) (k : ByteArray) : ValsLE (kv.delete k) B := by
  intro x w hx
  rw [KV.get_delete] at hx
  split at hx
  · cases hx
  · exact h x w hx

section
variable {dir : String} {V : Nat} {s : St} {kv : KV}

/-- `db.Get` -/
theorem sim_get (h : Rel dir V s kv) (bid : Nat) (k : ByteArray) : (engineStore bid).get s k = kvRes kv k := by
  show (Engine.get s k).2 = _
  rw [(getQ h.1 k).1, getRes_eq]
  rfl

theorem sim_get_fun (h : Rel dir V s kv) (bid : Nat) : (engineStore bid).get s = kvStore.get kv := by
  funext k
  exact sim_get h bid k

/-- `db.Put` -/
theorem sim_put (h : Rel dir V s kv) (k v : ByteArray) (hkv : k.size + v.size ≤ 2 ^ 27) (hv : v.size ≤ V + 64) :
    (Engine.put s k v).2 = (kvStore.put kv k v).2 ∧ Rel dir V (Engine.put s k v).1 (kvStore.put kv k v).1 ∧
    ∀ A W, Bnd s A W → Bnd (Engine.put s k v).1 (A + 1) (W + diskSizeEstimate k.size v.size) := by
  have h27 : (2:Nat) ^ 27 < 2 ^ 31 := by decide
  obtain ⟨h1, h2⟩ := putQ h.1 k v (by omega) (by omega)
  refine ⟨?_, ?_, fun A W hb => Bnd_put hb k v (by omega) (by omega) hkv⟩
  · rw [h1, kvStore_put]
    split <;> rfl
  · rw [kvStore_put]
    by_cases h0 : k.size = 0
    · rw [if_pos h0] at h2 ⊢
      exact ⟨h2, h.2⟩
    · rw [if_neg h0] at h2 ⊢
      rw [specPut_kv] at h2
      exact ⟨h2, h.2.put k v hv⟩

/-- `db.Delete` -/
theorem sim_delete (h : Rel dir V s kv) (k : ByteArray) (hk : k.size ≤ 2 ^ 27) :
    (Engine.delete s k).2 = (kvStore.delete kv k).2 ∧ Rel dir V (Engine.delete s k).1 (kvStore.delete kv k).1 ∧
    ∀ A W, Bnd s A W → Bnd (Engine.delete s k).1 (A + 1) (W + diskSizeEstimate k.size 0) := by
  have h27 : (2:Nat) ^ 27 < 2 ^ 31 := by decide
  obtain ⟨h1, h2⟩ := delQ h.1 k (by omega)
  refine ⟨?_, ?_, fun A W hb => Bnd_delete hb k (by omega) hk⟩
  · rw [h1, kvStore_delete]
    split <;> rfl
  · rw [kvStore_delete]
    by_cases h0 : k.size = 0
    · rw [if_pos h0] at h2 ⊢
      exact ⟨h2, h.2⟩
    · rw [if_neg h0] at h2 ⊢
      rw [specDel_kv] at h2
      exact ⟨h2, h.2.delete k⟩

/-! ## one batch -/

/-- a staged operation is small: key and value together at most `2^27` bytes, the value at most `B` -/
def OpLE (B : Nat) : KV.Op → Prop
  | .put k v => k.size + v.size ≤ 2 ^ 27 ∧ v.size ≤ B
  | .del k => k.size ≤ 2 ^ 27

/-- the size estimate of the record an operation stages -/
def opCost : KV.Op → Nat
  | .put k v => diskSizeEstimate k.size v.size
  | .del k => diskSizeEstimate k.size 0

def opsCost (ops : List KV.Op) : Nat := (ops.map opCost).sum

/-- the issued mutation of an operation (`foldIssued`'s vocabulary) -/
def issuedOf : KV.Op → ByteArray × Option ByteArray
  | .put k v => (k, some v)
  | .del k => (k, none)

theorem applyIssued_kv (kvc : KV) (m : BSpec) (hm : ∀ x, m x = kvc.get x) (op : KV.Op) (x : ByteArray) :
    (if x = (issuedOf op).1 then (issuedOf op).2 else m x) = (kvc.apply op).get x := by
  cases op with
  | put k v => simp only [issuedOf, KV.apply, KV.get_put, hm]
  | del k => simp only [issuedOf, KV.apply, KV.get_delete, hm]

theorem ValsLE.apply {kvc : KV} {B : Nat} (h : ValsLE kvc B) (op : KV.Op) (hop : OpLE B op) : ValsLE (kvc.apply op) B := by
  cases op with
  | put k v => exact h.put k v hop.2
  | del k => exact h.delete k

/-- the staging loop: the layered view of the live batch follows `KV.batch` on the keyed operations -/
theorem stage_loop (base : BSpec) (B : Nat) : ∀ (ops : List KV.Op) (s : St) (issued : List (ByteArray × Option ByteArray))
    (kvc : KV), HInvL dir s base issued → (∀ x, foldIssued base issued x = kvc.get x) → ValsLE kvc B →
    (∀ op ∈ ops, OpLE B op) →
    (∃ issued', HInvL dir (ops.foldl stageOp s) base issued' ∧
      ∀ x, foldIssued base issued' x = (kvc.batch (ops.filter KVOp.keyed)).get x) ∧
    ValsLE (kvc.batch (ops.filter KVOp.keyed)) B ∧
    ∀ A W, Bnd s A W → Bnd (ops.foldl stageOp s) (A + 2 * ops.length) (W + opsCost ops) := by
  have h27 : (2:Nat) ^ 27 < 2 ^ 31 := by decide
  intro ops
  induction ops with
  | nil =>
    intro s issued kvc hl hv hle _
    exact ⟨⟨issued, hl, hv⟩, hle, fun A W hb => hb⟩
  | cons op ops ih =>
    intro s issued kvc hl hv hle hops
    have hop := hops op (by simp)
    have hrest : ∀ o ∈ ops, OpLE B o := fun o ho => hops o (by simp [ho])
    have hcost : opsCost (op :: ops) = opCost op + opsCost ops := by
      simp only [opsCost, List.map_cons, List.sum_cons]
    -- one staging call
    have key : ∃ issued1 kv1, HInvL dir (stageOp s op) base issued1 ∧ (∀ x, foldIssued base issued1 x = kv1.get x) ∧
        ValsLE kv1 B ∧ kv1.batch (ops.filter KVOp.keyed) = kvc.batch ((op :: ops).filter KVOp.keyed) ∧
        ∀ A W, Bnd s A W → Bnd (stageOp s op) (A + 2) (W + opCost op) := by
      cases op with
      | put k v =>
        obtain ⟨_, h2⟩ := bputL hl k v (by have := hop.1; omega) (by have := hop.1; omega)
        have hb : ∀ A W, Bnd s A W → Bnd (stageOp s (.put k v)) (A + 2) (W + opCost (.put k v)) :=
          fun A W hb => Bnd_bput hb k v (by have := hop.1; omega) (by have := hop.1; omega) hop.1
        by_cases h0 : k.size = 0
        · rw [if_pos h0] at h2
          refine ⟨issued, kvc, h2, hv, hle, ?_, hb⟩
          rw [List.filter_cons_of_neg (by simp [KVOp.keyed, h0])]
        · rw [if_neg h0] at h2
          refine ⟨_, kvc.apply (.put k v), h2, ?_, hle.apply _ hop, ?_, hb⟩
          · intro x
            rw [foldIssued_snoc]
            exact applyIssued_kv kvc _ hv (.put k v) x
          · rw [List.filter_cons_of_pos (by simp [KVOp.keyed, h0]), KV.batch_cons]
      | del k =>
        obtain ⟨_, h2⟩ := bdelL hl k (by have := hop; simp only [OpLE] at this; omega)
        have hb : ∀ A W, Bnd s A W → Bnd (stageOp s (.del k)) (A + 2) (W + opCost (.del k)) :=
          fun A W hb => Bnd_bdel hb k (by have := hop; simp only [OpLE] at this; omega) hop
        by_cases h0 : k.size = 0
        · rw [if_pos h0] at h2
          refine ⟨issued, kvc, h2, hv, hle, ?_, hb⟩
          rw [List.filter_cons_of_neg (by simp [KVOp.keyed, h0])]
        · rw [if_neg h0] at h2
          refine ⟨_, kvc.apply (.del k), h2, ?_, hle.apply _ hop, ?_, hb⟩
          · intro x
            rw [foldIssued_snoc]
            exact applyIssued_kv kvc _ hv (.del k) x
          · rw [List.filter_cons_of_pos (by simp [KVOp.keyed, h0]), KV.batch_cons]
    obtain ⟨issued1, kv1, hl1, hv1, hle1, hbatch, hb1⟩ := key
    obtain ⟨⟨issued', hl', hv'⟩, hle', hb'⟩ := ih (stageOp s op) issued1 kv1 hl1 hv1 hle1 hrest
    rw [hbatch] at hv' hle'
    refine ⟨⟨issued', hl', hv'⟩, hle', fun A W hb => ?_⟩
    have := hb' _ _ (hb1 A W hb)
    rw [hcost]
    exact this.mono (by simp only [List.length_cons]; omega) (by omega)

/-- **one committed batch** (C05): `Commit` answers `.ok`, the mapping becomes `KV.batch` of the keyed
    operations, the slot is empty again -/
theorem sim_batch (h : Rel dir V s kv) (bid : Nat) (h0 : 0 < bid) (hlt : bid < 2 ^ 63) (ops : List KV.Op)
    (hops : ∀ op ∈ ops, OpLE (V + 64) op) :
    (engineBatch bid s ops).2 = .ok ∧ Rel dir V (engineBatch bid s ops).1 (kvStore.batch kv ops).1 ∧
    ∀ A W, Bnd s A W → Bnd (engineBatch bid s ops).1 (A + 2 * ops.length + 2) (W + opsCost ops + finCost) := by
  obtain ⟨_, hl0⟩ := bnewQ h.1 false bid h0 hlt
  obtain ⟨⟨issued', hl', hv'⟩, hle', hb'⟩ := stage_loop (dir := dir) (fun k => kv.get k) (V + 64) ops
    (bnew s false bid).1 [] kv hl0 (fun x => rfl) h.2 hops
  obtain ⟨hc1, hc2⟩ := bcommitL hl'
  obtain ⟨_, hd2⟩ := bdropQ hc2
  refine ⟨hc1, ⟨?_, hle'⟩, fun A W hb => ?_⟩
  · have e : foldIssued (fun k => kv.get k) issued' = fun x => (kv.batch (ops.filter KVOp.keyed)).get x := funext hv'
    rw [e] at hd2
    exact hd2
  · have b1 := Bnd_bnew hb false bid hlt
    have b2 := hb' A W b1
    have b3 := Bnd_bcommit b2
    exact Bnd_bdrop b3

/-! ## restart and merge (C02 / C06): the mapping is unchanged -/

theorem sim_restart (h : Rel dir V s kv) (cfg : Cfg) (hcfg : cfg.Valid)
    (hsz : ∀ md, s.world.get (mergeDirName dir) = some md → md.marker ≠ none → ∀ x ∈ md.data, x.2.bytes.size < 2 ^ 32) :
    (close s).2 = .ok ∧ (openDB (close s).1 dir cfg).2 = .ok ∧ Rel dir V (openDB (close s).1 dir cfg).1 kv := by
  obtain ⟨h1, h2, h3⟩ := restartQ h.1 cfg hcfg hsz
  exact ⟨h1, h2, h3, h.2⟩

theorem sim_merge (h : Rel dir V s kv) (order : List Nat) (ho : order.Nodup)
    (hsmall : ∀ db, s.db = some db → db.activeId + 1 < 2 ^ 32) :
    ((merge s order).2 = .ok ∨ ∃ e, (merge s order).2 = .err e) ∧ Rel dir V (merge s order).1 kv := by
  obtain ⟨h1, h2⟩ := mergeQ h.1 order ho hsmall
  exact ⟨h1, h2, h.2⟩

/-- the freshly opened empty database represents the empty store -/
theorem Rel_fresh (dir : String) (V : Nat) (cfg : Cfg) (hcfg : cfg.Valid) :
    (openDB St.init dir cfg).2 = .ok ∧ Rel dir V (openDB St.init dir cfg).1 KV.empty := by
  obtain ⟨h0, hi0⟩ := HInv0_fresh dir cfg hcfg
  exact ⟨h0, hi0.toQ, fun k v hk => by cases hk⟩

end
end XixiKV.Datatype.On
