import XixiKV.Proofs.TransEq2Codec
import XixiKV.Proofs.TransEqChunk
/-! # translated `(*DataFile).Size` / `(*DataFile).readToBuf` = model (split out of `TransEq2.lean`) -/
namespace XixiKV.TransEq
open XixiKV XixiKV.Generated.Trans XixiKV.Frame XixiKV.Varint XixiKV.Record
/-! ## `(*DataFile).Size` and `(*DataFile).readToBuf` -/

/-- `df.Size()` of a writer state `(lastBlockID, lastBlockSize) = (size / BS, size % BS)` is the file size -/
theorem trans_Size_eq (n : Nat) (h : n / BS < 2^32) : datafile.Size (n / BS) (n % BS) = (n : Int) := by
  rw [hBS] at h ⊢
  simp (disch := omega) only [datafile.Size, i64_of_range]
  omega

example : datafile.Size 3 17 = 98321 := by decide

abbrev RSt := datafile.readToBuf.St

/-- the window of the block buffer that `DecodeChunk` looks at, after the read effect -/
theorem read_window (b file : ByteArray) (base size lo : Nat) (hsz : base + size ≤ file.size) :
    (putAt b 0 (file.extract base (base + (size - 0)))).extract lo size = file.extract (base + lo) (base + size) := by
  have hs : (file.extract base (base + size)).size = size := by rw [ByteArray.size_extract]; omega
  unfold putAt
  rw [Nat.sub_zero, hs, ByteArray.extract_eq_empty_iff.2 (by omega : min 0 b.size ≤ 0), ByteArray.empty_append,
    ByteArray.extract_append, hs, ByteArray.extract_extract,
    ByteArray.extract_eq_empty_iff.2 (by omega : min (size - size) (b.extract (0 + size) b.size).size ≤ lo - size)]
  simp only [ByteArray.append_empty]
  congr 1
  omega

theorem size_read (b file : ByteArray) (base size : Nat) (hsz : base + size ≤ file.size) (hb : size ≤ b.size) :
    (putAt b 0 (file.extract base (base + (size - 0)))).size = b.size := by
  have hs : (file.extract base (base + (size - 0))).size = size := by rw [ByteArray.size_extract]; omega
  rw [size_putAt _ _ _ (by omega)]

/-- Go's error value for a model read result -/
def ofOutErr : Out ByteArray → Option String
  | .ok _ => none
  | .eof => some "io.EOF"
  | .err => some "ErrInvalidCRC"

set_option linter.unusedSimpArgs false in
/-- one iteration of the translated loop is the model's `chunkRand` -/
theorem rbody0_spec (file : ByteArray) (st : RSt) (B O : Nat)
    (hB : st.blockID = B) (hO : st.offset = O) (hbs : st.block.size = 32768) (hfs : st.fileSize = (file.size : Int))
    (hB32 : B < 2^32) (hO32 : O < 2^32) (hf : file.size < 2^62) :
    match chunkRand Chunk.crcCodec file B O with
    | .eof => datafile.readToBuf.body0 file crcNat st = .ret (some "io.EOF", st.out)
    | .err => datafile.readToBuf.body0 file crcNat st = .ret (some "ErrInvalidCRC", st.out)
    | .ok (p, t) =>
      if @Eq Nat t 0 ∨ @Eq Nat t 3 then ∃ st', datafile.readToBuf.body0 file crcNat st = .brk st' ∧ st'.out = st.out ++ p
      else ∃ st', datafile.readToBuf.body0 file crcNat st = .next st' ∧ st'.out = st.out ++ p ∧
        st'.blockID = (B + 1) % 2^32 ∧ st'.offset = 0 ∧ st'.block.size = 32768 ∧ st'.fileSize = (file.size : Int) := by
  subst hB hO
  generalize hr : chunkRand Chunk.crcCodec file st.blockID st.offset = r
  unfold chunkRand at hr
  simp only [] at hr
  split at hr
  · rename_i h1
    rw [hBS] at h1
    subst hr
    simp (disch := omega) only [datafile.readToBuf.body0, datafile.blockSize, hfs, i64_of_range, if_pos]
  · rename_i h1
    split at hr
    · rename_i h2
      rw [hBS] at h1 h2
      subst hr
      simp (disch := omega) only [datafile.readToBuf.body0, datafile.blockSize, hfs, i64_of_range, if_pos, if_neg]
    · rename_i h2
      rw [hBS] at h1 h2 hr
      have hsize : (min ((file.size : Int) - (st.blockID : Int) * ((32768 : Nat) : Int)) ((32768 : Nat) : Int) % 2 ^ 32).toNat
          = min (file.size - st.blockID * 32768) 32768 := by omega
      have hoff : ((st.blockID : Int) * ((32768 : Nat) : Int)).toNat = st.blockID * 32768 := by omega
      have hwin := read_window st.block file (st.blockID * 32768) (min (file.size - st.blockID * 32768) 32768) st.offset (by omega)
      have hdec := trans_DecodeChunk_eq (file.extract (st.blockID * 32768 + st.offset)
              (st.blockID * 32768 + min (file.size - st.blockID * 32768) 32768))
      have hsr := size_read st.block file (st.blockID * 32768) (min (file.size - st.blockID * 32768) 32768) (by omega) (by omega)
      have hcd : Chunk.crcCodec.dec = Chunk.dec := rfl
      rw [hcd] at hr
      generalize Chunk.dec (file.extract (st.blockID * 32768 + st.offset)
              (st.blockID * 32768 + min (file.size - st.blockID * 32768) 32768)) = d at hr hdec
      cases d with
      | ok p t =>
        simp only [] at hr
        subst hr
        simp only [ofDecOut] at hdec
        by_cases ht : @Eq Nat t 0 ∨ @Eq Nat t 3
        · simp (disch := omega) only [datafile.readToBuf.body0, datafile.blockSize, datafile.Full, datafile.Last, hfs,
            i64_of_range, if_pos, if_neg, hsize, hoff, hwin, hdec, ne_eq, not_true_eq_false, ↓reduceIte]
          exact ⟨_, rfl, rfl⟩
        · simp (disch := omega) only [datafile.readToBuf.body0, datafile.blockSize, datafile.Full, datafile.Last, hfs,
            i64_of_range, if_pos, if_neg, hsize, hoff, hwin, hdec, ne_eq, not_true_eq_false, ↓reduceIte]
          exact ⟨_, rfl, rfl, rfl, rfl, hsr.trans hbs, rfl⟩
      | incomplete =>
        simp only [] at hr
        subst hr
        simp only [ofDecOut] at hdec
        simp (decide := true) (disch := omega) only [datafile.readToBuf.body0, datafile.blockSize, hfs,
          i64_of_range, if_pos, if_neg, hsize, hoff, hwin, hdec, ne_eq, not_true_eq_false, not_false_eq_true, ↓reduceIte, reduceCtorEq]
      | badCrc =>
        simp only [] at hr
        subst hr
        simp only [ofDecOut] at hdec
        simp (decide := true) (disch := omega) only [datafile.readToBuf.body0, datafile.blockSize, hfs,
          i64_of_range, if_pos, if_neg, hsize, hoff, hwin, hdec, ne_eq, not_true_eq_false, not_false_eq_true, ↓reduceIte, reduceCtorEq]

theorem chunkRand_ok_lt {C : Codec} {f : ByteArray} {B O : Nat} {x : ByteArray × CT}
    (h : chunkRand C f B O = .ok x) : B * BS < f.size := by
  unfold chunkRand at h
  simp only [] at h
  split at h
  · cases h
  · omega

/-- how the result of the translated loop corresponds to a model result, from a state with output `acc` -/
def LoopRel (acc : ByteArray) (res : Option (RSt ⊕ (Option String × ByteArray))) : Out ByteArray → Prop
  | .ok p => ∃ st', res = some (.inl st') ∧ st'.out = acc ++ p
  | .eof => ∃ o, res = some (.inr (some "io.EOF", o))
  | .err => ∃ o, res = some (.inr (some "ErrInvalidCRC", o))

theorem rloop0_spec (file : ByteArray) (hf : file.size / BS + 1 < 2^32) :
    ∀ (fuel : Nat) (st : RSt) (B O : Nat), st.blockID = B → st.offset = O → st.block.size = 32768 →
      st.fileSize = (file.size : Int) → B < 2^32 → O < 2^32 →
      (file.size + BS - 1) / BS + 1 ≤ B + fuel → 1 ≤ fuel →
      LoopRel st.out (datafile.readToBuf.loop0 file crcNat fuel st) (readLoop Chunk.crcCodec file B O fuel) := by
  have hBS := hBS
  rw [hBS] at hf
  intro fuel
  induction fuel with
  | zero => intro st B O _ _ _ _ _ _ _ h; omega
  | succ fuel ih =>
    intro st B O hB hO hbs hfs hB32 hO32 hfuel _
    rw [hBS] at hfuel
    have hb := rbody0_spec file st B O hB hO hbs hfs hB32 hO32 (by omega)
    rw [readLoop, datafile.readToBuf.loop0]
    generalize hc : chunkRand Chunk.crcCodec file B O = c at hb
    cases c with
    | eof =>
      simp only [] at hb ⊢
      rw [hb]
      exact ⟨_, rfl⟩
    | err =>
      simp only [] at hb ⊢
      rw [hb]
      exact ⟨_, rfl⟩
    | ok x =>
      obtain ⟨p, t⟩ := x
      have hlt := chunkRand_ok_lt hc
      rw [hBS] at hlt
      simp only [] at hb ⊢
      by_cases ht : @Eq Nat t 0 ∨ @Eq Nat t 3
      · rw [if_pos ht] at hb ⊢
        obtain ⟨st', e1, e2⟩ := hb
        rw [e1]
        exact ⟨st', rfl, e2⟩
      · rw [if_neg ht] at hb ⊢
        obtain ⟨st', e1, e2, e3, e4, e5, e6⟩ := hb
        rw [e1]
        simp only [Ctl.step]
        have e3' : st'.blockID = B + 1 := by rw [e3]; omega
        have := ih st' (B + 1) 0 e3' e4 e5 e6 (by omega) (by omega) (by rw [hBS]; omega) (by omega)
        generalize readLoop Chunk.crcCodec file (B + 1) 0 fuel = r at this ⊢
        cases r with
        | ok q =>
          obtain ⟨st'', f1, f2⟩ := this
          exact ⟨st'', f1, by rw [f2, e2, ByteArray.append_assoc]⟩
        | eof => exact this
        | err => exact this

/-- **`(*DataFile).readToBuf` = the model's `readAt`** (with the concrete CRC codec), for every file whose
    block count fits `uint32`, every pooled block buffer content, every `(blockID, offset)` in `uint32` range,
    and the writer state `(lastBlockID, lastBlockSize) = (size / BS, size % BS)` of that file:
    `.ok payload ↦ (nil, payload)`, `.eof ↦ io.EOF`, `.err ↦ ErrInvalidCRC` -/
theorem trans_readToBuf_eq (file block0 : ByteArray) (blockID offset : Nat)
    (hb0 : block0.size = 32768) (hfile : file.size / BS + 1 < 2^32) (hblk : blockID < 2^32) (hoff : offset < 2^32) :
    ∃ out, datafile.readToBuf block0 file crcNat (file.size / BS) (file.size % BS) blockID offset
        = some (ofOutErr (readAt Chunk.crcCodec file blockID offset), out) ∧
      ∀ p, readAt Chunk.crcCodec file blockID offset = .ok p → out = p := by
  have hBS := hBS
  unfold readAt
  simp only [datafile.readToBuf]
  by_cases h0 : blockID > file.size / BS
  · rw [if_pos h0, if_pos h0]
    exact ⟨_, rfl, fun p h => by cases h⟩
  · rw [if_neg h0, if_neg h0]
    have hsz := trans_Size_eq file.size (by omega)
    have := rloop0_spec file hfile (file.size + 1)
      { blockID := blockID, offset := offset, block := block0, fileSize := datafile.Size (file.size / BS) (file.size % BS),
        off := 0, size := 0, data := ByteArray.empty, chunkType := 0, err := none, out := ByteArray.empty }
      blockID offset rfl rfl hb0 hsz hblk hoff (by rw [hBS] at h0 ⊢; omega) (by omega)
    generalize readLoop Chunk.crcCodec file blockID offset (file.size + 1) = r at this ⊢
    cases r with
    | ok q =>
      obtain ⟨st', f1, f2⟩ := this
      rw [f1]
      refine ⟨_, rfl, fun p h => ?_⟩
      cases h
      rw [f2]; simp
    | eof =>
      obtain ⟨o, f1⟩ := this
      rw [f1]
      exact ⟨_, rfl, fun p h => by cases h⟩
    | err =>
      obtain ⟨o, f1⟩ := this
      rw [f1]
      exact ⟨_, rfl, fun p h => by cases h⟩

/-- read-back through the translated reader (with `Frame.readAt_write`): at the position the model writer
    reports for a record `d` appended to `f`, `readToBuf` returns `(nil, d)`, whatever was appended later -/
theorem trans_readToBuf_write (d f post block0 : ByteArray) (fid : Nat) (hd : 0 < d.size)
    (hb0 : block0.size = 32768)
    (hF : (appendRec Chunk.crcCodec f d ++ post).size / BS + 1 < 2^32) :
    datafile.readToBuf block0 (appendRec Chunk.crcCodec f d ++ post) crcNat
        ((appendRec Chunk.crcCodec f d ++ post).size / BS) ((appendRec Chunk.crcCodec f d ++ post).size % BS)
        (posOf Chunk.crcCodec fid f.size d).block (posOf Chunk.crcCodec fid f.size d).off
      = some (none, d) := by
  have hBS := hBS; have hH := hH
  have hgt := size_appendRec_gt Chunk.crcCodec f d hd
  have hm := mod_lt_BS f.size
  have hle : f.size / BS ≤ (appendRec Chunk.crcCodec f d ++ post).size / BS := by
    apply Nat.div_le_div_right
    rw [ByteArray.size_append]; omega
  have hblk : (posOf Chunk.crcCodec fid f.size d).block < 2^32 := by
    simp only [posOf, normB]; split <;> omega
  have hoff : (posOf Chunk.crcCodec fid f.size d).off < 2^32 := by
    simp only [posOf, normO]; split <;> omega
  obtain ⟨out, h1, h2⟩ := trans_readToBuf_eq (appendRec Chunk.crcCodec f d ++ post) block0 _ _ hb0 hF hblk hoff
  have hr := readAt_write Chunk.crcCodec d f post fid hd
  rw [h1, hr, h2 d hr]
  rfl

/-- an empty file: `io.EOF` -/
example : ∃ out, datafile.readToBuf (mkBytes 32768) ByteArray.empty crcNat 0 0 0 0 = some (some "io.EOF", out) := by
  obtain ⟨out, h, _⟩ := trans_readToBuf_eq ByteArray.empty (mkBytes 32768) 0 0 (by simp) (by decide) (by decide) (by decide)
  exact ⟨out, h⟩

end XixiKV.TransEq
