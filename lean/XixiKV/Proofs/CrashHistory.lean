import XixiKV.Proofs.EnginePolicy
import XixiKV.Properties.C03
/-!
# Crash recovery at the level of acknowledged MUTATIONS — part 1: logs and mutation units

`Properties/C03.lean` describes a crash in terms of the ghost log (records with positions).  This
file relates a log to the list of *mutation units* it denotes:

* a record without batch id is one unit (`MUnit.put` / `MUnit.del`);
* the sealing record of batch `b` is one unit `MUnit.batch b ops`, where `ops` are the records
  parked under `b` at that moment (exactly the records `loadIndexFromDataFiles` applies then);
* a tagged, non-sealing record is no unit (it is parked).

`unitsOfLog l` is defined along `replayRec`, so the parked records are literally those of the
model's replay.  Results:

* `unitsFrom_append`, `unitsOfLog_prefix`: a prefix of the log denotes a prefix of the units;
* `absGet_units`: for a handle whose index is the replay of its ghost log (every freshly opened
  handle), the abstract mapping is `specOfUnits (unitsOfLog (logOf g))`;
* `crash_restart_files`: `C03.C03_crash_restart` from the FILE part of the invariant only (the
  crashing handle may have an open, partly flushed batch, so `Inv` does not hold for it).
-/
namespace XixiKV.C03H
open XixiKV XixiKV.Frame XixiKV.Record XixiKV.Index XixiKV.Engine XixiKV.Engine.Restart
open XixiKV.Engine.BatchP
open XixiKV.C01 (Spec specEmpty specPut specDel)

/-! ## mutation units and their meaning -/

/-- one acknowledged mutation: a `Put`, a `Delete` that wrote a tombstone, or a committed batch
    (ONE unit: its staged operations `typ = 1` delete / otherwise put, in staging order) -/
inductive MUnit where
  | put (k v : ByteArray) : MUnit
  | del (k : ByteArray) : MUnit
  | batch (id : Nat) (ops : List Staged) : MUnit

/-- one staged operation on the abstract map -/
def applyOp (m : Spec) (o : Staged) : Spec :=
  if o.typ = 1 then specDel m o.key else specPut m o.key o.value

/-- one unit on the abstract map -/
def applyUnit (m : Spec) : MUnit → Spec
  | .put k v => specPut m k v
  | .del k => specDel m k
  | .batch _ ops => ops.foldl applyOp m

/-- the units applied in order to the map `m` -/
def specFrom (m : Spec) (us : List MUnit) : Spec := us.foldl applyUnit m

/-- the map produced by a list of units, starting from the empty map -/
def specOfUnits (us : List MUnit) : Spec := specFrom specEmpty us

theorem specFrom_append (m : Spec) (a b : List MUnit) : specFrom m (a ++ b) = specFrom (specFrom m a) b := by
  simp only [specFrom, List.foldl_append]

theorem specOfUnits_append (a b : List MUnit) : specOfUnits (a ++ b) = specFrom (specOfUnits a) b :=
  specFrom_append _ a b

/-! ## the units a log denotes -/

abbrev Pend := List (Nat × List (Record × Pos))

/-- a log record as a staged operation (forget the batch id) -/
def unRec (r : Record) : Staged := { typ := r.typ, key := r.key, value := r.value }

theorem unRec_toRec (id : Nat) (st : Staged) : unRec (toRec id st) = st := rfl

/-- the unit (if any) that record `r` completes when `P` is parked -/
def emit (P : Pend) (r : Record) : List MUnit :=
  if r.batch = 0 then [if r.typ = 1 then MUnit.del r.key else MUnit.put r.key r.value]
  else if r.typ = 2 then [MUnit.batch r.batch ((pendingGet P r.batch).map (fun x => unRec x.1))]
  else []

/-- the units completed by the log `l`, replayed on top of the replay state `R` -/
def unitsFrom (R : Replay) : List (Record × Pos) → List MUnit
  | [] => []
  | x :: l => emit R.pending x.1 ++ unitsFrom (replayRec R x.1 x.2) l

/-- the units a whole log denotes -/
def unitsOfLog (l : List (Record × Pos)) : List MUnit := unitsFrom Replay.init l

theorem unitsFrom_append (a b : List (Record × Pos)) : ∀ R : Replay,
    unitsFrom R (a ++ b) = unitsFrom R a ++ unitsFrom (replayFrom R a) b := by
  induction a with
  | nil => intro R; rfl
  | cons x t ih =>
    intro R
    simp only [List.cons_append, unitsFrom, ih, replayFrom_cons, List.append_assoc]

theorem unitsOfLog_append (a b : List (Record × Pos)) :
    unitsOfLog (a ++ b) = unitsOfLog a ++ unitsFrom (replayLog a) b := by
  unfold unitsOfLog
  rw [unitsFrom_append, ← replayLog_eq]

/-- **a prefix of the log denotes a prefix of the units** -/
theorem unitsOfLog_prefix {a l : List (Record × Pos)} (h : a <+: l) : unitsOfLog a <+: unitsOfLog l := by
  obtain ⟨b, rfl⟩ := h
  rw [unitsOfLog_append]
  exact List.prefix_append _ _

theorem prefix_eq_take {α : Type} {a l : List α} (h : a <+: l) : a = l.take a.length := by
  obtain ⟨b, rfl⟩ := h
  simp

/-- one plain record at the end of the log: one more unit, nothing parked or released -/
theorem ext_plain (l : List (Record × Pos)) (r : Record) (p : Pos) (hb : r.batch = 0) :
    unitsOfLog (l ++ [(r, p)]) = unitsOfLog l ++ [if r.typ = 1 then MUnit.del r.key else MUnit.put r.key r.value] ∧
    (replayLog (l ++ [(r, p)])).pending = (replayLog l).pending := by
  refine ⟨?_, ?_⟩
  · rw [unitsOfLog_append]
    simp only [unitsFrom, emit, if_pos hb, List.append_nil]
  · rw [replayLog_append]
    unfold replayRec
    rw [if_pos hb, Engine.Restart.apply_pending]

/-- a run of tagged, non-sealing records of batch `b` at the end of the log: no unit, all parked -/
theorem unitsFrom_tagged (b : Nat) (hb : b ≠ 0) (tagged : List (Record × Pos)) :
    ∀ (R : Replay), (∀ x ∈ tagged, x.1.batch = b ∧ x.1.typ ≠ 2) → unitsFrom R tagged = [] := by
  induction tagged with
  | nil => intro R _; rfl
  | cons x t ih =>
    intro R h
    obtain ⟨h1, h2⟩ := h x (by simp)
    simp only [unitsFrom, emit]
    rw [if_neg (by rw [h1]; exact hb), if_neg h2, ih _ (fun y hy => h y (by simp [hy]))]
    rfl

theorem ext_tagged (l tagged : List (Record × Pos)) (b : Nat) (hb : b ≠ 0)
    (ht : ∀ x ∈ tagged, x.1.batch = b ∧ x.1.typ ≠ 2) :
    unitsOfLog (l ++ tagged) = unitsOfLog l ∧
    (replayLog (l ++ tagged)).pending = parkAll (replayLog l).pending b tagged := by
  refine ⟨?_, ?_⟩
  · rw [unitsOfLog_append, unitsFrom_tagged b hb tagged _ ht, List.append_nil]
  · rw [replayLog_eq, replayFrom_append, ← replayLog_eq, replayFrom_tagged b hb tagged _ ht]

/-- the sealing record of batch `b` at the end of the log: one batch unit made of what is parked
    under `b`; those parked records are released -/
theorem ext_fin (l : List (Record × Pos)) (fin : Record) (p : Pos) (hb : fin.batch ≠ 0) (ht : fin.typ = 2) :
    unitsOfLog (l ++ [(fin, p)])
      = unitsOfLog l ++ [MUnit.batch fin.batch ((pendingGet (replayLog l).pending fin.batch).map (fun x => unRec x.1))] ∧
    (replayLog (l ++ [(fin, p)])).pending = (replayLog l).pending.filter (·.1 ≠ fin.batch) := by
  refine ⟨?_, ?_⟩
  · rw [unitsOfLog_append]
    simp only [unitsFrom, emit, if_neg hb, if_pos ht, List.append_nil]
  · rw [replayLog_append, replayRec_fin _ _ _ hb ht]

theorem pendingGet_parkAll_ne (b c : Nat) (h : c ≠ b) (l : List (Record × Pos)) :
    ∀ P, pendingGet (parkAll P b l) c = pendingGet P c := by
  induction l with
  | nil => intro P; rfl
  | cons x t ih =>
    intro P
    simp only [parkAll, List.foldl_cons] at ih ⊢
    rw [ih, pendingGet_add_ne _ _ _ _ h]

theorem pendingGet_filter_self (P : Pend) (b : Nat) : pendingGet (P.filter (·.1 ≠ b)) b = [] := by
  induction P with
  | nil => rfl
  | cons y rest ih =>
    obtain ⟨i, l⟩ := y
    by_cases e : i = b
    · rw [List.filter_cons, if_neg (by simp [e])]; exact ih
    · rw [List.filter_cons, if_pos (by simp [e])]
      simp only [pendingGet, if_neg e]; exact ih

/-! ## the replayed index read through the files IS the map of the units -/

/-- the replay state `R` (index, parked records) represents the abstract map `m`, all positions
    being positions of the log `L` -/
structure SimR (L : List (Record × Pos)) (R : Replay) (m : Spec) : Prop where
  sorted : SortedKeys R.index
  hit : ∀ k p, Index.get R.index k = some p → ∃ r, (r, p) ∈ L ∧ m k = some r.value
  miss : ∀ k, Index.get R.index k = none → m k = none
  pend : ∀ e ∈ R.pending, ∀ x ∈ e.2, x ∈ L

theorem applyOp_del (m : Spec) (o : Staged) (h : o.typ = 1) (k : ByteArray) :
    applyOp m o k = if k = o.key then none else m k := by
  unfold applyOp; rw [if_pos h]; rfl

theorem applyOp_put (m : Spec) (o : Staged) (h : o.typ ≠ 1) (k : ByteArray) :
    applyOp m o k = if k = o.key then some o.value else m k := by
  unfold applyOp; rw [if_neg h]; rfl

theorem SimR.apply {L : List (Record × Pos)} {R : Replay} {m : Spec} (h : SimR L R m) {r : Record} {p : Pos}
    (hm : (r, p) ∈ L) : SimR L (R.apply r.key r.typ p) (applyOp m (unRec r)) := by
  have hsorted : Index.Sorted R.index := h.sorted
  refine ⟨?_, ?_, ?_, ?_⟩
  · rw [Engine.Restart.apply_index]
    split
    · exact SortedKeys_erase _ h.sorted
    · exact SortedKeys_put _ _ h.sorted
  · intro k q hq
    rw [Engine.Restart.apply_index] at hq
    by_cases ht : r.typ = 1
    · rw [if_pos ht, Index.get_erase hsorted] at hq
      rw [applyOp_del m (unRec r) ht k]
      show ∃ r', (r', q) ∈ L ∧ (if k = r.key then none else m k) = some r'.value
      by_cases e : k = r.key
      · rw [if_pos e] at hq; cases hq
      · rw [if_neg e] at hq ⊢; exact h.hit k q hq
    · rw [if_neg ht, Index.get_put] at hq
      rw [applyOp_put m (unRec r) ht k]
      show ∃ r', (r', q) ∈ L ∧ (if k = r.key then some r.value else m k) = some r'.value
      by_cases e : k = r.key
      · rw [if_pos e] at hq ⊢
        cases hq
        exact ⟨r, hm, rfl⟩
      · rw [if_neg e] at hq ⊢; exact h.hit k q hq
  · intro k hq
    rw [Engine.Restart.apply_index] at hq
    by_cases ht : r.typ = 1
    · rw [if_pos ht, Index.get_erase hsorted] at hq
      rw [applyOp_del m (unRec r) ht k]
      show (if k = r.key then none else m k) = none
      by_cases e : k = r.key
      · rw [if_pos e]
      · rw [if_neg e] at hq ⊢; exact h.miss k hq
    · rw [if_neg ht, Index.get_put] at hq
      rw [applyOp_put m (unRec r) ht k]
      show (if k = r.key then some r.value else m k) = none
      by_cases e : k = r.key
      · rw [if_pos e] at hq; cases hq
      · rw [if_neg e] at hq ⊢; exact h.miss k hq
  · rw [Engine.Restart.apply_pending]; exact h.pend

theorem SimR.applyAll {L : List (Record × Pos)} (xs : List (Record × Pos)) :
    ∀ {R : Replay} {m : Spec}, SimR L R m → (∀ x ∈ xs, x ∈ L) →
      SimR L (Restart.applyAll R xs) ((xs.map (fun x => unRec x.1)).foldl applyOp m) := by
  induction xs with
  | nil => intro R m h _; exact h
  | cons x t ih =>
    intro R m h hx
    simp only [Restart.applyAll, List.foldl_cons, List.map_cons]
    exact ih (h.apply (r := x.1) (p := x.2) (hx x (by simp))) (fun y hy => hx y (by simp [hy]))

theorem SimR.replayRec {L : List (Record × Pos)} {R : Replay} {m : Spec} (h : SimR L R m) {r : Record} {p : Pos}
    (hm : (r, p) ∈ L) : SimR L (Engine.replayRec R r p) (specFrom m (emit R.pending r)) := by
  by_cases hb : r.batch = 0
  · have e1 : Engine.replayRec R r p = R.apply r.key r.typ p := by unfold Engine.replayRec; rw [if_pos hb]
    have e2 : specFrom m (emit R.pending r) = applyOp m (unRec r) := by
      simp only [emit, if_pos hb, specFrom, List.foldl_cons, List.foldl_nil]
      by_cases ht : r.typ = 1
      · rw [if_pos ht]; unfold applyOp; rw [if_pos (show (unRec r).typ = 1 from ht)]; rfl
      · rw [if_neg ht]; unfold applyOp; rw [if_neg (show ¬ (unRec r).typ = 1 from ht)]; rfl
    rw [e1, e2]
    exact h.apply hm
  · by_cases ht : r.typ = 2
    · rw [replayRec_fin R r p hb ht]
      have e2 : specFrom m (emit R.pending r)
          = ((pendingGet R.pending r.batch).map (fun x => unRec x.1)).foldl applyOp m := by
        simp only [emit, if_neg hb, if_pos ht, specFrom, List.foldl_cons, List.foldl_nil, applyUnit]
      rw [e2]
      have h0 : SimR L { R with total := R.total + p.size, reclaim := R.reclaim + p.size } m :=
        ⟨h.sorted, h.hit, h.miss, h.pend⟩
      have h1 := SimR.applyAll (pendingGet R.pending r.batch) h0 (fun x hx => by
        obtain ⟨e, he, hxe⟩ := mem_pendingGet hx
        exact h.pend e he x hxe)
      refine ⟨h1.sorted, h1.hit, h1.miss, ?_⟩
      intro e he x hx
      exact h.pend e (List.mem_filter.mp he).1 x hx
    · rw [replayRec_tagged R r p hb ht]
      have e2 : specFrom m (emit R.pending r) = m := by
        simp only [emit, if_neg hb, if_neg ht, specFrom, List.foldl_nil]
      rw [e2]
      refine ⟨h.sorted, h.hit, h.miss, ?_⟩
      intro e he x hx
      rcases mem_pendingAdd he hx with e1 | ⟨e', he', hx'⟩
      · rw [e1]; exact hm
      · exact h.pend e' he' x hx'

theorem SimR.replayFrom {L : List (Record × Pos)} (l : List (Record × Pos)) :
    ∀ {R : Replay} {m : Spec}, SimR L R m → (∀ x ∈ l, x ∈ L) →
      SimR L (replayFrom R l) (specFrom m (unitsFrom R l)) := by
  induction l with
  | nil => intro R m h _; exact h
  | cons x t ih =>
    intro R m h hx
    rw [replayFrom_cons]
    simp only [unitsFrom]
    rw [specFrom_append]
    exact ih (h.replayRec (r := x.1) (p := x.2) (hx x (by simp))) (fun y hy => hx y (by simp [hy]))

theorem SimR.init (L : List (Record × Pos)) : SimR L Replay.init specEmpty :=
  ⟨SortedKeys_nil, fun k p h => by simp [Replay.init, Index.get] at h, fun _ _ => rfl,
   fun e he => by simp [Replay.init] at he⟩

theorem simR_replayLog (L : List (Record × Pos)) : SimR L (replayLog L) (specOfUnits (unitsOfLog L)) := by
  rw [replayLog_eq]
  exact SimR.replayFrom L (SimR.init L) (fun _ h => h)

/-- **the abstract mapping of a handle whose index is the replay of its ghost log** (every freshly
    opened handle; every handle satisfying `Inv`) is the map of the units its log denotes -/
theorem absGet_units {s : St} {db : DB} {g : GDir} (hf : Files s db g)
    (hix : db.index = (replayLog (logOf g)).index) (k : ByteArray) :
    absGet s db k = specOfUnits (unitsOfLog (logOf g)) k := by
  have hsim := simR_replayLog (logOf g)
  unfold absGet
  rw [hix]
  cases hg : Index.get (replayLog (logOf g)).index k with
  | none => exact (hsim.miss k hg).symm
  | some p =>
    obtain ⟨r, hr, hv⟩ := hsim.hit k p hg
    simp only [valueAt_log hf hr, hv]

/-! ## the ids under which the replay parks records are batch ids of log records -/

theorem mem_pendingAdd_fst {P : Pend} {id : Nat} {x : Record × Pos} {e : Nat × List (Record × Pos)}
    (he : e ∈ pendingAdd P id x) : e.1 = id ∨ ∃ e' ∈ P, e'.1 = e.1 := by
  induction P with
  | nil =>
    simp only [pendingAdd, List.mem_singleton] at he
    subst he
    exact Or.inl rfl
  | cons e0 t ih =>
    obtain ⟨i, l⟩ := e0
    simp only [pendingAdd] at he
    by_cases c : i = id
    · rw [if_pos c] at he
      rcases List.mem_cons.mp he with he | he
      · subst he; exact Or.inl c
      · exact Or.inr ⟨e, List.mem_cons_of_mem _ he, rfl⟩
    · rw [if_neg c] at he
      rcases List.mem_cons.mp he with he | he
      · subst he; exact Or.inr ⟨(i, l), by simp, rfl⟩
      · rcases ih he with h | ⟨e', he', h⟩
        · exact Or.inl h
        · exact Or.inr ⟨e', List.mem_cons_of_mem _ he', h⟩

/-- every id with parked records is the (non-zero) batch id of some record of the log -/
def PendFrom (L : List (Record × Pos)) (R : Replay) : Prop :=
  ∀ e ∈ R.pending, e.1 ≠ 0 ∧ ∃ x ∈ L, x.1.batch = e.1

theorem PendFrom.replayRec {L : List (Record × Pos)} {R : Replay} (h : PendFrom L R) {r : Record} {p : Pos}
    (hm : (r, p) ∈ L) : PendFrom L (Engine.replayRec R r p) := by
  by_cases hb : r.batch = 0
  · have e1 : Engine.replayRec R r p = R.apply r.key r.typ p := by unfold Engine.replayRec; rw [if_pos hb]
    rw [e1]
    intro e he
    rw [Engine.Restart.apply_pending] at he
    exact h e he
  · by_cases ht : r.typ = 2
    · rw [replayRec_fin R r p hb ht]
      intro e he
      exact h e (List.mem_filter.mp he).1
    · rw [replayRec_tagged R r p hb ht]
      intro e he
      rcases mem_pendingAdd_fst he with e1 | ⟨e', he', e1⟩
      · rw [e1]; exact ⟨hb, (r, p), hm, rfl⟩
      · rw [← e1]; exact h e' he'

theorem PendFrom.replayFrom {L : List (Record × Pos)} (l : List (Record × Pos)) :
    ∀ {R : Replay}, PendFrom L R → (∀ x ∈ l, x ∈ L) → PendFrom L (replayFrom R l) := by
  induction l with
  | nil => intro R h _; exact h
  | cons x t ih =>
    intro R h hx
    rw [replayFrom_cons]
    exact ih (h.replayRec (r := x.1) (p := x.2) (hx x (by simp))) (fun y hy => hx y (by simp [hy]))

theorem pendFrom_replayLog (L : List (Record × Pos)) : PendFrom L (replayLog L) := by
  rw [replayLog_eq]
  exact PendFrom.replayFrom L (fun e he => by simp [Replay.init] at he) (fun _ h => h)

/-! ## flush marks after `Open` on a crash image -/

open XixiKV.Engine.PolicyP.Dur in
/-- `loadFile` keeps "the flush mark does not exceed the file" -/
theorem loadFile_synced_le {r r' : Replay} {id : Nat} {f f' : FileSt} {tol : Bool}
    (h : loadFile r id f tol = some (r', f')) (hle : f.synced ≤ f.bytes.size) : f'.synced ≤ f'.bytes.size := by
  unfold loadFile at h
  simp only [] at h
  split at h
  · cases h
  · split at h
    · cases h
    · simp only [Option.some.injEq, Prod.mk.injEq] at h
      obtain ⟨_, h2⟩ := h
      rw [← h2]
      split
      · rename_i hlt
        show min f.synced _ ≤ (f.bytes.extract 0 _).size
        rw [ByteArray.size_extract]
        omega
      · exact hle

/-- `Restart.openDB_crash`, also bounding the flush mark of the truncated last file -/
theorem openDB_crash_le (s : St) (dir : String) (cfg : Cfg) (d : DirSt)
    (gI : GDir) (id : Nat) (gl : GFile) (dataI : List (Nat × FileSt)) (fl : FileSt) (n : Nat)
    (hdb : s.db = none) (hcfg : cfg.Valid)
    (hd : s.world.get dir = some d) (hl : d.locked = false)
    (hnomerge : s.world.get (mergeDirName dir) = none)
    (hrecs : ∀ x ∈ gI ++ [(id, gl)], ∀ r ∈ x.2, RecOK r)
    (hdata : d.data = dataI ++ [(id, fl)]) (hI : Matches dataI gI)
    (hn : n ≤ (bytesOf gl).size) (hfl : fl.bytes = (bytesOf gl).extract 0 n)
    (hsy : fl.synced ≤ fl.bytes.size) :
    ∃ j, j ≤ gl.length ∧ (bytesOf (gl.take j)).size ≤ n ∧
      (j < gl.length → n < (bytesOf (gl.take (j+1))).size) ∧
      ∃ sy', sy' ≤ (bytesOf (gl.take j)).size ∧ openDB s dir cfg
        = ({ world := s.world.set dir
               { d with data := dataI ++ [(id, ⟨bytesOf (gl.take j), sy'⟩)], locked := true },
             db := some (mkDB cfg dir (replayLog (logOf (gI ++ [(id, gl.take j)])))
               (dataI ++ [(id, ⟨bytesOf (gl.take j), sy'⟩)])) }, .ok) := by
  have hokI : ∀ x ∈ gI, ∀ r ∈ x.2, RecOK r := fun x hx => hrecs x (by simp [hx])
  have hokl : ∀ r ∈ gl, RecOK r := hrecs (id, gl) (by simp)
  obtain ⟨j, hj, hfit, hnfit, sy', hload⟩ :=
    loadFile_cut (replayFrom Replay.init (logOf gI)) id gl fl.synced n hokl hn
  have hsy' : sy' ≤ (bytesOf (gl.take j)).size := by
    have := loadFile_synced_le hload (by
      show fl.synced ≤ ((bytesOf gl).extract 0 n).size
      rw [← hfl]; exact hsy)
    exact this
  refine ⟨j, hj, hfit, hnfit, sy', hsy', ?_⟩
  have hfl' : fl = ⟨(bytesOf gl).extract 0 n, fl.synced⟩ := by
    obtain ⟨b, sy⟩ := fl; simp only at hfl; rw [hfl]
  have hli : loadIndex Replay.init 0 d.data
      = some (replayLog (logOf (gI ++ [(id, gl.take j)])), dataI ++ [(id, ⟨bytesOf (gl.take j), sy'⟩)]) := by
    rw [hdata, loadIndex_append_ghost dataI gI Replay.init [(id, fl)] hI hokI]
    rw [hfl']
    simp only [loadIndex, Nat.not_lt_zero, if_false, List.isEmpty_nil, hload]
    rw [replayLog_eq, Restart.logOf_append, replayFrom_append]
    simp [logOf]
  exact openDB_scan s dir cfg d _ _ hdb (by omega) hd hl hnomerge (by rw [hdata]; simp) hli

/-! ## `C03_crash_restart` from the file part of the invariant -/

/-- the flush marks of a crash image are sane: no mark exceeds its file, and every file but the
    last is marked completely flushed (before the crash these files WERE completely flushed and a
    crash image keeps their bytes; the marks of an image are otherwise unconstrained by
    `CrashImage`).  Needed only to re-establish the durability invariant after the restart. -/
def SaneMarks (data : List (Nat × FileSt)) : Prop :=
  OnlyLastCut data ∧ ∀ x ∈ data, x.2.synced ≤ x.2.bytes.size

open XixiKV.Engine.PolicyP.Dur in
/-- `C03.C03_crash_restart` with `Files` instead of `Inv` for the crashing handle: its index may
    run ahead of the replay (flushed pieces of an open batch), which the restart does not see.
    Additionally: with sane flush marks in the image the recovered handle satisfies the durability
    invariant again. -/
theorem crash_restart_files (s sc : St) (db : DB) (g : GDir) (cfg : Cfg) (d dc : DirSt)
    (hf : Files s db g) (hd : s.world.get db.dir = some d) (hlast : OnlyLastCut d.data)
    (hnodb : sc.db = none) (hdc : sc.world.get db.dir = some dc) (hunl : dc.locked = false)
    (himg : CrashImage d.data dc.data)
    (hnomerge : sc.world.get (mergeDirName db.dir) = none) (hcfg : cfg.Valid) :
    ∃ g' s' db', openDB sc db.dir cfg = (s', .ok) ∧ s'.db = some db' ∧ Inv s' db' g' ∧
      db'.activeId = db.activeId ∧ db'.dir = db.dir ∧ db'.cfg = cfg ∧
      logOf g' <+: logOf g ∧
      (∀ gI id gl f m, g = gI ++ [(id, gl)] → d.data.getLast? = some (id, f) → m ≤ gl.length →
        (bytesOf (gl.take m)).size ≤ f.synced → logOf (gI ++ [(id, gl.take m)]) <+: logOf g') ∧
      (dc.data.map (fun x => (x.1, x.2.bytes.size)) = d.data.map (fun x => (x.1, x.2.bytes.size)) →
        g' = g) ∧
      (SaneMarks dc.data → DInv s' db') ∧
      s'.world.get (mergeDirName db.dir) = none := by
  obtain ⟨d0, hd0, _, hm⟩ := hf.dir
  rw [hd] at hd0; cases hd0
  have hgne : g ≠ [] := getLast?_ne_none_of_map hf.active
  obtain ⟨gI, id, gl, dataI, f, fl, n, hg, hlastf, hdcdata, hI, hfb, hsn, hn, hfl⟩ :=
    crashImage_decomp d.data dc.data g hm hlast himg hgne
  subst hg
  have hid : db.activeId = id := by
    have := hf.active
    rw [List.getLast?_concat] at this
    simpa using this.symm
  -- the two readings of `Open` on the image: the published one and the one with the mark bound
  obtain ⟨j, hj, hfit, hnfit, s', db', hopen, hdb', hdir', hcfg'', hact, hix, ⟨d', sy', hd', hdata'⟩, hinv', hnm'⟩ :=
    C03.C03_open_crash sc db.dir cfg dc gI id gl dataI fl n hnodb hcfg hdc hunl hnomerge hf.asc
      hf.recs hdcdata hI hn hfl
  obtain ⟨hpre, hsync, hall⟩ := C03.C03_prefix gI id gl n j hj hnfit
  refine ⟨gI ++ [(id, gl.take j)], s', db', hopen, hdb', hinv', by rw [hact, hid], hdir', hcfg'', hpre, ?_, ?_, ?_, hnm'⟩
  · intro gI' id' gl' f' m hg' hlast' hm' hsz
    have hlen : (gI ++ [(id, gl)]).getLast? = (gI' ++ [(id', gl')]).getLast? := by rw [hg']
    rw [List.getLast?_concat, List.getLast?_concat] at hlen
    cases hlen
    have hgI : gI = gI' := List.append_cancel_right hg'
    subst hgI
    rw [hlastf] at hlast'
    cases hlast'
    exact (hsync m hm' (by omega)).2
  · intro hsame
    have hlastc : dc.data.getLast? = some (id, fl) := by rw [hdcdata, List.getLast?_concat]
    have h1 : (dc.data.map (fun x => (x.1, x.2.bytes.size))).getLast? = some (id, fl.bytes.size) := by
      rw [List.getLast?_map, hlastc]; rfl
    have h2 : (d.data.map (fun x => (x.1, x.2.bytes.size))).getLast? = some (id, f.bytes.size) := by
      rw [List.getLast?_map, hlastf]; rfl
    rw [hsame, h2] at h1
    have hsz : fl.bytes.size = f.bytes.size := by
      simp only [Option.some.injEq, Prod.mk.injEq, true_and] at h1; exact h1.symm
    rw [hfl, size_extract0 _ _ hn, hfb] at hsz
    exact (hall hsz).2
  · intro hsane
    obtain ⟨holder, hle⟩ := hsane
    rw [hdcdata] at holder hle
    have hflsy : fl.synced ≤ fl.bytes.size := hle (id, fl) (by simp)
    obtain ⟨j2, _, _, _, sy2, hsy2, hopen2⟩ :=
      openDB_crash_le sc db.dir cfg dc gI id gl dataI fl n hnodb hcfg hdc hunl hnomerge hf.recs hdcdata hI hn hfl hflsy
    -- both describe the same result of `openDB`
    rw [hopen] at hopen2
    have hs' : s' = _ := (Prod.mk.inj hopen2).1
    have hw : s'.world.get db.dir = some { dc with data := dataI ++ [(id, ⟨bytesOf (gl.take j2), sy2⟩)], locked := true } := by
      rw [hs']; exact World.get_set_self _ _ _
    rw [hd'] at hw
    have hdd : d'.data = dataI ++ [(id, ⟨bytesOf (gl.take j2), sy2⟩)] := by
      have := Option.some.inj hw
      rw [this]
    have hltI : ∀ x ∈ dataI, x.1 < id := by
      intro x hx
      have hids := Matches_ids hI
      have hxm : x.1 ∈ gI.map (·.1) := by rw [← hids]; exact List.mem_map.mpr ⟨x, hx, rfl⟩
      obtain ⟨y, hy, hyx⟩ := List.mem_map.mp hxm
      have := (List.pairwise_append.mp hf.asc).2.2 y hy (id, gl) (by simp)
      rw [← hyx]; exact this
    have hdir : (dirOf s' db').data = dataI ++ [(id, ⟨bytesOf (gl.take j2), sy2⟩)] := by
      rw [← hdir'] at hd'
      rw [dirOf_eq hd', hdd]
    refine ⟨⟨dataI, _, by rw [hdir, hact], by rw [hact]; exact hltI⟩, ?_, ?_⟩
    · rw [hdir, OnlyLastCut_concat]
      exact (OnlyLastCut_concat _ _).mp holder
    · rw [hdir]
      intro x hx
      rcases List.mem_append.mp hx with hx | hx
      · exact hle x (List.mem_append_left _ hx)
      · simp only [List.mem_singleton] at hx
        rw [hx]; exact hsy2

end XixiKV.C03H
