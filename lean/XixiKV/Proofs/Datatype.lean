import XixiKV.Model.Datatype
import XixiKV.Spec.Datatype
import XixiKV.Proofs.Record
/-!
# Lemmas for C19: the datatype layer refines its specification

1. the abstract store (`KV.get` of `put` / `delete` / `batch`),
2. byte strings: internal keys are injective in (version, suffix) and, for a prefix-free set of
   user keys, never meet a user key or an internal key of another user key,
3. codec round trips (`decodeMeta ∘ encodeMeta`, the string record),
4. association lists of the specification,
5. the simulation relation `R` and its preservation by every command.
-/
namespace XixiKV.Datatype
open XixiKV XixiKV.Varint XixiKV.Record

/-! ## 1. the abstract store -/
namespace KV

@[simp] theorem get_empty (k : ByteArray) : KV.empty.get k = none := rfl

theorem get_cons (a v : ByteArray) (r : List (ByteArray × ByteArray)) (k : ByteArray) :
    KV.get ((a, v) :: r : List (ByteArray × ByteArray)) k = if a = k then some v else KV.get r k := rfl

theorem get_delete (kv : KV) (k x : ByteArray) : (kv.delete k).get x = if x = k then none else kv.get x := by
  induction kv with
  | nil => simp [delete, get]
  | cons p r ih =>
    obtain ⟨a, v⟩ := p
    unfold delete at ih ⊢
    rw [List.filter_cons]
    by_cases ha : a = k
    · subst ha
      simp only [ne_eq, not_true_eq_false, decide_false, Bool.false_eq_true, ↓reduceIte]
      rw [ih, get_cons]
      by_cases hx : x = a
      · simp [hx]
      · have : ¬ a = x := fun h => hx h.symm
        simp [hx, this]
    · simp only [ne_eq, ha, not_false_eq_true, decide_true, ↓reduceIte]
      rw [get_cons, get_cons, ih]
      by_cases hx : x = k
      · subst hx; simp [ha]
      · simp [hx]

theorem get_put (kv : KV) (k v x : ByteArray) : (kv.put k v).get x = if x = k then some v else kv.get x := by
  unfold put
  rw [get_cons, get_delete]
  by_cases hx : x = k
  · subst hx; simp
  · have : ¬ k = x := fun h => hx h.symm
    simp [hx, this]

theorem batch_nil (kv : KV) : kv.batch [] = kv := rfl
theorem batch_cons (kv : KV) (op : Op) (ops : List Op) : kv.batch (op :: ops) = (kv.apply op).batch ops := rfl
theorem apply_put (kv : KV) (k v : ByteArray) : kv.apply (.put k v) = kv.put k v := rfl
theorem apply_del (kv : KV) (k : ByteArray) : kv.apply (.del k) = kv.delete k := rfl

end KV

/-! ## 2. byte strings -/

/-- the bytes of a `ByteArray` as a list -/
def toL (b : ByteArray) : List UInt8 := b.data.toList

theorem toL_append (a b : ByteArray) : toL (a ++ b) = toL a ++ toL b := by
  simp [toL, ByteArray.data_append]

theorem toL_ofList (l : List UInt8) : toL (ofList l) = l := rfl

theorem toL_inj {a b : ByteArray} (h : toL a = toL b) : a = b := by
  apply ByteArray.ext
  exact Array.toList_inj.mp h

theorem toL_length (a : ByteArray) : (toL a).length = a.size := by
  show a.data.toList.length = a.data.size
  exact Array.length_toList

theorem leBytes_length (n v : Nat) : (leBytes n v).length = n := by
  induction n generalizing v with
  | zero => rfl
  | succ n ih => simp [leBytes, ih]

theorem leBytes_inj (n : Nat) : ∀ v w : Nat, leBytes n v = leBytes n w → v % 256 ^ n = w % 256 ^ n := by
  induction n with
  | zero => intro v w _; simp [Nat.mod_one]
  | succ n ih =>
    intro v w h
    simp only [leBytes, List.cons.injEq] at h
    obtain ⟨h0, h1⟩ := h
    have h1' := ih _ _ h1
    have h0' : v % 256 = w % 256 := by
      have := congrArg UInt8.toNat h0
      simpa using this
    rw [Nat.pow_succ, Nat.mul_comm, Nat.mod_mul, Nat.mod_mul, h0', h1']

theorem le64_size (v : Nat) : (le64 v).size = 8 := by simp [le64, leBytes_length]
theorem le32_size (v : Nat) : (le32 v).size = 4 := by simp [le32, leBytes_length]

theorem le64_inj {v w : Nat} (hv : v < 2 ^ 64) (hw : w < 2 ^ 64) (h : le64 v = le64 w) : v = w := by
  have h' : leBytes 8 v = leBytes 8 w := by
    have := congrArg toL h
    simpa [le64, toL_ofList] using this
  have := leBytes_inj 8 v w h'
  have e : (256 : Nat) ^ 8 = 2 ^ 64 := by decide
  rw [e, Nat.mod_eq_of_lt hv, Nat.mod_eq_of_lt hw] at this
  exact this

theorem toL_ikey (k : ByteArray) (v : Nat) (s : ByteArray) : toL (ikey k v s) = toL k ++ (leBytes 8 v ++ toL s) := by
  simp [ikey, toL_append, le64, toL_ofList]

theorem ikey_size (k : ByteArray) (v : Nat) (s : ByteArray) : (ikey k v s).size = k.size + 8 + s.size := by
  simp [ikey, ByteArray.size_append, le64_size]

theorem ikey_ne_self (k : ByteArray) (v : Nat) (s : ByteArray) : ikey k v s ≠ k := by
  intro h
  have := congrArg ByteArray.size h
  rw [ikey_size] at this
  omega

/-- same user key: version and suffix can be read back -/
theorem ikey_inj {k : ByteArray} {v w : Nat} {s s' : ByteArray} (hv : v < 2 ^ 64) (hw : w < 2 ^ 64)
    (h : ikey k v s = ikey k w s') : v = w ∧ s = s' := by
  have h' := congrArg toL h
  rw [toL_ikey, toL_ikey] at h'
  have h2 := List.append_cancel_left h'
  obtain ⟨h3, h4⟩ := List.append_inj h2 (by rw [leBytes_length, leBytes_length])
  refine ⟨?_, toL_inj h4⟩
  apply le64_inj hv hw
  apply toL_inj
  simpa [le64, toL_ofList] using h3

theorem ikey_prefix (k : ByteArray) (v : Nat) (s : ByteArray) : toL k <+: toL (ikey k v s) := by
  rw [toL_ikey]; exact List.prefix_append _ _

/-- **(i)** no user key is a proper prefix of another one -/
def PrefixFree (U : List ByteArray) : Prop :=
  ∀ a ∈ U, ∀ b ∈ U, toL a <+: toL b → a = b

instance (U : List ByteArray) : Decidable (PrefixFree U) := by unfold PrefixFree; infer_instance

theorem prefix_comparable {a b x : ByteArray} (ha : toL a <+: toL x) (hb : toL b <+: toL x) :
    toL a <+: toL b ∨ toL b <+: toL a := by
  by_cases h : (toL a).length ≤ (toL b).length
  · exact Or.inl (List.prefix_of_prefix_length_le ha hb h)
  · exact Or.inr (List.prefix_of_prefix_length_le hb ha (by omega))

theorem PrefixFree.eq_of_common {U : List ByteArray} (hU : PrefixFree U) {a b x : ByteArray}
    (ha : a ∈ U) (hb : b ∈ U) (hax : toL a <+: toL x) (hbx : toL b <+: toL x) : a = b := by
  rcases prefix_comparable hax hbx with h | h
  · exact hU a ha b hb h
  · exact (hU b hb a ha h).symm

theorem prefix_refl' (a : ByteArray) : toL a <+: toL a := List.prefix_refl _

/-- equal-length distinct keys (the "small key space" of the property) are prefix-free -/
theorem prefixFree_of_same_size (U : List ByteArray) (n : Nat) (h : ∀ a ∈ U, a.size = n) : PrefixFree U := by
  intro a ha b hb hp
  apply toL_inj
  apply List.IsPrefix.eq_of_length hp
  rw [toL_length, toL_length, h a ha, h b hb]

theorem ikey_ne_user {U : List ByteArray} (hU : PrefixFree U) {k k' : ByteArray} (hk : k ∈ U) (hk' : k' ∈ U)
    (hne : k ≠ k') (v : Nat) (s : ByteArray) : ikey k v s ≠ k' := by
  intro h
  apply hne
  apply hU k hk k' hk'
  rw [← h]; exact ikey_prefix k v s

theorem ikey_ne_ikey {U : List ByteArray} (hU : PrefixFree U) {k k' : ByteArray} (hk : k ∈ U) (hk' : k' ∈ U)
    (hne : k ≠ k') (v : Nat) (s : ByteArray) (v' : Nat) (s' : ByteArray) : ikey k v s ≠ ikey k' v' s' := by
  intro h
  apply hne
  apply hU.eq_of_common hk hk' (ikey_prefix k v s)
  rw [h]; exact ikey_prefix k' v' s'

/-- the member can be read back from a set key suffix -/
theorem setSuffix_inj {m m' : ByteArray} (h : m ++ le32 m.size = m' ++ le32 m'.size) : m = m' := by
  have h' := congrArg toL h
  rw [toL_append, toL_append] at h'
  have hl := congrArg List.length h'
  simp only [List.length_append, toL_length, le32_size] at hl
  exact toL_inj (List.append_inj h' (by rw [toL_length, toL_length]; omega)).1

theorem setKey_inj {k : ByteArray} {v : Nat} {m m' : ByteArray} (hv : v < 2 ^ 64)
    (h : setKey k v m = setKey k v m') : m = m' :=
  setSuffix_inj (ikey_inj hv hv h).2

theorem listKey_inj {k : ByteArray} {v i j : Nat} (hv : v < 2 ^ 64) (hi : i < 2 ^ 64) (hj : j < 2 ^ 64)
    (h : listKey k v i = listKey k v j) : i = j :=
  le64_inj hi hj (ikey_inj hv hv h).2

/-- **(iii)** sorted-set members: no member is a non-empty byte string (a score text) followed by
    another member followed by that member's 4-byte length, i.e. no `encodeWithMember` key can be an
    `encodeWithScore` key.  (Slightly stronger than needed — the bytes in front would have to be a
    score text that is actually used — but independent of the scores.) -/
def ZNoClash (M : List ByteArray) : Prop :=
  ∀ m ∈ M, ∀ m' ∈ M, ¬ (toL (m' ++ le32 m'.size) <:+ toL m ∧ m'.size + 4 < m.size)

instance (M : List ByteArray) : Decidable (ZNoClash M) := by unfold ZNoClash; infer_instance

theorem ZNoClash.ne {M : List ByteArray} (hM : ZNoClash M) {m m' : ByteArray} (hm : m ∈ M) (hm' : m' ∈ M)
    {s : ByteArray} (hs : s.size ≠ 0) : m ≠ s ++ m' ++ le32 m'.size := by
  intro h
  apply hM m hm m' hm'
  constructor
  · rw [h, ByteArray.append_assoc, toL_append]
    exact List.suffix_append _ _
  · rw [h]
    simp only [ByteArray.size_append, le32_size]
    omega

theorem zmem_ne_zscore {M : List ByteArray} (hM : ZNoClash M) {m m' : ByteArray} (hm : m ∈ M) (hm' : m' ∈ M)
    (k : ByteArray) {v : Nat} (hv : v < 2 ^ 64) {s : Score} (hs : s.size ≠ 0) :
    zmemKey k v m ≠ zscoreKey k v s m' := by
  intro h
  exact hM.ne hm hm' hs (ikey_inj hv hv h).2

/-- members of one length never clash -/
theorem zNoClash_of_same_size (M : List ByteArray) (n : Nat) (h : ∀ a ∈ M, a.size = n) : ZNoClash M := by
  intro m hm m' hm' hs
  have := hs.2
  rw [h m hm, h m' hm'] at this
  omega

/-! ## 3. codecs -/

structure Meta.Valid (m : Meta) : Prop where
  expire : m.expire < 2 ^ 63
  version : m.version < 2 ^ 63
  size : m.size < 2 ^ 32
  head : m.head < 2 ^ 64
  tail : m.tail < 2 ^ 64
  nonlist : m.dataType ≠ tList → m.head = 0 ∧ m.tail = 0

theorem encodeMeta_toL (m : Meta) : (encodeMeta m).data.toList =
    m.dataType :: (putVarintNat m.expire ++ (putVarintNat m.version ++ (putVarintNat m.size
      ++ (if m.dataType = tList then putUvarint m.head ++ putUvarint m.tail else [])))) := by
  show toL (encodeMeta m) = _
  rw [encodeMeta, toL_ofList, List.append_assoc, List.append_assoc]

theorem decodeMeta_encodeMeta (m : Meta) (h : m.Valid) : decodeMeta (encodeMeta m) = some m := by
  have h32 : (2:Nat) ^ 32 ≤ 2 ^ 63 := by decide
  unfold decodeMeta
  rw [encodeMeta_toL]
  simp only
  rw [varintNat_putVarintNat _ _ h.expire]
  simp only [List.drop_left]
  rw [varintNat_putVarintNat _ _ h.version]
  simp only [List.drop_left]
  rw [varintNat_putVarintNat _ _ (by have := h.size; omega)]
  simp only [List.drop_left]
  by_cases hl : m.dataType = tList
  · simp only [hl, if_true]
    rw [uvarint_putUvarint _ _ h.head]
    simp only [List.drop_left]
    have := uvarint_putUvarint m.tail [] h.tail
    rw [List.append_nil] at this
    rw [this]
    simp only [Nat.mod_eq_of_lt h.size]
    cases m; simp_all
  · simp only [hl, if_false]
    obtain ⟨h1, h2⟩ := h.nonlist hl
    simp only [Nat.mod_eq_of_lt h.size]
    cases m; simp_all

/-! `decodeMetadata` does not panic on encoder output -/

theorem uvarintLen_put (n : Nat) (rest : List UInt8) (h : n < 2 ^ 64) :
    uvarintLen (putUvarint n ++ rest) = ((putUvarint n).length : Int) := by
  unfold uvarintLen
  rw [uvarint_putUvarint n rest h]

theorem panicsFrom_step (pre : List UInt8) (n : Nat) (rest : List UInt8) (hn : n < 2 ^ 64) (k : Nat) :
    panicsFrom (pre ++ (putUvarint n ++ rest)) (k + 1) (pre.length : Int)
      = panicsFrom (pre ++ (putUvarint n ++ rest)) k ((pre ++ putUvarint n).length : Int) := by
  have h0 : ¬ ((pre.length : Int) < 0) := by omega
  rw [panicsFrom, if_neg h0, Int.toNat_natCast, List.drop_left, uvarintLen_put n rest hn, List.length_append]
  congr 1

theorem panicsFrom_varints : ∀ (ns : List Nat), (∀ n ∈ ns, n < 2 ^ 64) → ∀ (pre rest : List UInt8),
    panicsFrom (pre ++ (ns.flatMap putUvarint ++ rest)) ns.length (pre.length : Int) = false := by
  intro ns
  induction ns with
  | nil => intro _ pre rest; rfl
  | cons n ns ih =>
    intro h pre rest
    have hn : n < 2 ^ 64 := h n List.mem_cons_self
    have e : pre ++ ((n :: ns).flatMap putUvarint ++ rest)
        = pre ++ (putUvarint n ++ (ns.flatMap putUvarint ++ rest)) := by
      rw [List.flatMap_cons, List.append_assoc]
    rw [e, List.length_cons, panicsFrom_step pre n _ hn]
    have e2 : pre ++ (putUvarint n ++ (ns.flatMap putUvarint ++ rest))
        = (pre ++ putUvarint n) ++ (ns.flatMap putUvarint ++ rest) := by rw [List.append_assoc]
    rw [e2]
    exact ih (fun x hx => h x (List.mem_cons_of_mem _ hx)) _ _

theorem metaDecodePanics_encodeMeta (m : Meta) (h : m.Valid) : metaDecodePanics (encodeMeta m) = false := by
  have h64 : (2:Nat) ^ 64 = 2 * 2 ^ 63 := by decide
  have h32 : (2:Nat) ^ 32 ≤ 2 ^ 63 := by decide
  have he := h.expire
  have hv := h.version
  have hs := h.size
  unfold metaDecodePanics
  rw [encodeMeta_toL]
  simp only
  by_cases hl : m.dataType = tList
  · have := panicsFrom_varints [2 * m.expire, 2 * m.version, 2 * m.size, m.head, m.tail]
      (by
        intro n hn
        simp only [List.mem_cons, List.not_mem_nil, or_false] at hn
        rcases hn with rfl | rfl | rfl | rfl | rfl
        · omega
        · omega
        · omega
        · exact h.head
        · exact h.tail) [m.dataType] []
    simpa [hl, List.flatMap_cons, putVarintNat] using this
  · have := panicsFrom_varints [2 * m.expire, 2 * m.version, 2 * m.size]
      (by
        intro n hn
        simp only [List.mem_cons, List.not_mem_nil, or_false] at hn
        rcases hn with rfl | rfl | rfl <;> omega) [m.dataType] []
    simpa [hl, List.flatMap_cons, putVarintNat] using this

theorem encodeMeta_head (m : Meta) : ∃ r, (encodeMeta m).data.toList = m.dataType :: r :=
  ⟨_, encodeMeta_toL m⟩

theorem encodeStr_toL (e : Nat) (v : ByteArray) :
    (encodeStr e v).data.toList = tString :: (putVarintNat e ++ v.data.toList) := by
  show toL (encodeStr e v) = _
  rw [encodeStr, toL_append, toL_ofList]; rfl

theorem encodeStr_value (e : Nat) (v : ByteArray) :
    (encodeStr e v).extract (1 + (putVarintNat e).length) (encodeStr e v).size = v := by
  unfold encodeStr
  apply extract_suffix
  · simp [size_ofList]; omega
  · rfl

/-! ## 4. association lists of the specification -/
namespace Spec

theorem lookup_cons {β : Type} (a : ByteArray) (b : β) (r : List (ByteArray × β)) (k : ByteArray) :
    lookup ((a, b) :: r) k = if a = k then some b else lookup r k := rfl

theorem lookup_remove {β : Type} (l : List (ByteArray × β)) (k x : ByteArray) :
    lookup (remove l k) x = if x = k then none else lookup l x := by
  induction l with
  | nil => simp [remove, lookup]
  | cons p r ih =>
    obtain ⟨a, b⟩ := p
    unfold remove at ih ⊢
    rw [List.filter_cons]
    by_cases ha : a = k
    · subst ha
      simp only [ne_eq, not_true_eq_false, decide_false, Bool.false_eq_true, ↓reduceIte]
      rw [ih, lookup_cons]
      by_cases hx : x = a
      · simp [hx]
      · have : ¬ a = x := fun h => hx h.symm
        simp [hx, this]
    · simp only [ne_eq, ha, not_false_eq_true, decide_true, ↓reduceIte]
      rw [lookup_cons, lookup_cons, ih]
      by_cases hx : x = k
      · subst hx; simp [ha]
      · simp [hx]

theorem lookup_insert {β : Type} (l : List (ByteArray × β)) (k : ByteArray) (b : β) (x : ByteArray) :
    lookup (insert l k b) x = if x = k then some b else lookup l x := by
  unfold insert
  rw [lookup_cons, lookup_remove]
  by_cases hx : x = k
  · subst hx; simp
  · have : ¬ k = x := fun h => hx h.symm
    simp [hx, this]

/-- no key occurs twice -/
def NodupKeys {β : Type} (l : List (ByteArray × β)) : Prop := (l.map (·.1)).Nodup

theorem lookup_isSome_iff {β : Type} (l : List (ByteArray × β)) (k : ByteArray) :
    (lookup l k).isSome = true ↔ k ∈ l.map (·.1) := by
  induction l with
  | nil => simp [lookup]
  | cons p r ih =>
    obtain ⟨a, b⟩ := p
    rw [lookup_cons]
    by_cases ha : a = k
    · simp [ha]
    · have : ¬ k = a := fun h => ha h.symm
      simp [ha, ih, this]

theorem lookup_eq_none_iff {β : Type} (l : List (ByteArray × β)) (k : ByteArray) :
    lookup l k = none ↔ k ∉ l.map (·.1) := by
  rw [← lookup_isSome_iff]
  cases lookup l k <;> simp

theorem mem_of_lookup {β : Type} {l : List (ByteArray × β)} {k : ByteArray} {b : β} (h : lookup l k = some b) :
    (k, b) ∈ l := by
  induction l with
  | nil => simp [lookup] at h
  | cons p r ih =>
    obtain ⟨a, c⟩ := p
    rw [lookup_cons] at h
    by_cases ha : a = k
    · simp only [ha, if_true, Option.some.injEq] at h
      simp [ha, h]
    · simp only [ha, if_false] at h
      exact List.mem_cons_of_mem _ (ih h)

theorem remove_of_not_mem {β : Type} (l : List (ByteArray × β)) (k : ByteArray) (h : k ∉ l.map (·.1)) :
    remove l k = l := by
  unfold remove
  rw [List.filter_eq_self]
  intro p hp
  have : p.1 ≠ k := fun e => h (e ▸ List.mem_map_of_mem hp)
  simp [this]

theorem map_fst_remove {β : Type} (l : List (ByteArray × β)) (k : ByteArray) :
    (remove l k).map (·.1) = (l.map (·.1)).filter (fun a => decide (a ≠ k)) := by
  unfold remove
  rw [List.filter_map]
  rfl

theorem nodupKeys_remove {β : Type} {l : List (ByteArray × β)} (h : NodupKeys l) (k : ByteArray) :
    NodupKeys (remove l k) := by
  unfold NodupKeys at *
  rw [map_fst_remove]
  exact h.filter _

theorem not_mem_remove {β : Type} (l : List (ByteArray × β)) (k : ByteArray) : k ∉ (remove l k).map (·.1) := by
  rw [map_fst_remove]
  simp

theorem nodupKeys_insert {β : Type} {l : List (ByteArray × β)} (h : NodupKeys l) (k : ByteArray) (b : β) :
    NodupKeys (insert l k b) := by
  unfold insert NodupKeys
  rw [List.map_cons, List.nodup_cons]
  exact ⟨not_mem_remove l k, nodupKeys_remove h k⟩

/-- removing the one occurrence of `k` from a duplicate-free list -/
theorem length_filter_ne {l : List ByteArray} (h : l.Nodup) {k : ByteArray} (hk : k ∈ l) :
    (l.filter (fun a => decide (a ≠ k))).length + 1 = l.length := by
  induction l with
  | nil => simp at hk
  | cons a r ih =>
    rw [List.nodup_cons] at h
    rw [List.filter_cons]
    by_cases ha : a = k
    · subst ha
      simp only [ne_eq, not_true_eq_false, decide_false, Bool.false_eq_true, ↓reduceIte, List.length_cons]
      rw [List.filter_eq_self.mpr]
      intro x hx
      have : x ≠ a := fun e => h.1 (e ▸ hx)
      simp [this]
    · have hk' : k ∈ r := by
        rcases List.mem_cons.mp hk with e | e
        · exact absurd e.symm ha
        · exact e
      simp only [ne_eq, ha, not_false_eq_true, decide_true, ↓reduceIte, List.length_cons]
      have := ih h.2 hk'
      simp only [ne_eq] at this
      omega

theorem length_remove_of_mem {β : Type} {l : List (ByteArray × β)} (h : NodupKeys l) {k : ByteArray}
    (hk : k ∈ l.map (·.1)) : (remove l k).length + 1 = l.length := by
  have := length_filter_ne h hk
  rw [← map_fst_remove, List.length_map, List.length_map] at this
  exact this

theorem length_insert_of_not_mem {β : Type} (l : List (ByteArray × β)) (k : ByteArray) (b : β)
    (hk : k ∉ l.map (·.1)) : (insert l k b).length = l.length + 1 := by
  unfold insert
  rw [remove_of_not_mem l k hk]; rfl

theorem length_insert_of_mem {β : Type} {l : List (ByteArray × β)} (h : NodupKeys l) (k : ByteArray) (b : β)
    (hk : k ∈ l.map (·.1)) : (insert l k b).length = l.length := by
  unfold insert
  have := length_remove_of_mem h hk
  simp only [List.length_cons]; omega

theorem has_iff (ms : List ByteArray) (m : ByteArray) : has ms m = true ↔ m ∈ ms := by
  unfold has
  rw [List.any_eq_true]
  constructor
  · rintro ⟨x, hx, he⟩
    have : x = m := by simpa using he
    exact this ▸ hx
  · intro h
    exact ⟨m, h, by simp⟩

theorem find_store (s : State) (k : ByteArray) (o : Obj) (x : ByteArray) :
    (s.store k o).find x = if x = k then some o else s.find x := lookup_insert s k o x

theorem find_drop (s : State) (k x : ByteArray) :
    (s.drop k).find x = if x = k then none else s.find x := lookup_remove s k x

@[simp] theorem find_empty (x : ByteArray) : State.empty.find x = none := rfl

end Spec

end XixiKV.Datatype
