import XixiKV.Proofs.IterStable
/-!
# Snapshot stability, part 2: `Merge` only rotates the active file of the data directory

`Merge` (any visiting order, with or without an open batch, whatever its outcome) touches the
handle's own directory by exactly one rotation; every later write of the run goes through the
temporary handle `mdb`, whose directory is the merge directory (`mergeDirName db.dir ≠ db.dir`).
Hence `Step s (merge s order).1` (`Step_merge`), with no hypothesis at all.

`HOp` / `hrun` is the trace type of the stability theorem: plain operations, batch operations,
`Merge` runs and `Backup`s (`Step_backup`) in any interleaving (`Step_hrun`).
-/
namespace XixiKV.Engine.IterP
open XixiKV.Frame XixiKV.Record XixiKV.Index XixiKV.Engine XixiKV.Engine.BatchP XixiKV.Engine.MergeP
open XixiKV.Engine.PolicyP.Size (AOp astep arun)

/-- loop invariant of the rewrite loop: the live handle is untouched, its directory entry is the
    one after the initial rotation, the temporary handle writes into the merge directory -/
structure MFrame (W : Option DirSt) (db1 : DB) (s : St) (m : MergeSt) : Prop where
  db : s.db = some db1
  dir : s.world.get db1.dir = W
  mdir : m.mdb.dir = mergeDirName db1.dir

theorem MFrame_mergeRec {W : Option DirSt} {db1 : DB} {s : St} {m : MergeSt} (h : MFrame W db1 s m)
    (n fileId : Nat) (payload : ByteArray) (pos : Pos) :
    MFrame W db1 (mergeRec s db1 m n fileId payload pos).1 (mergeRec s db1 m n fileId payload pos).2 := by
  unfold mergeRec
  split
  · exact h
  · cases decodeRecord payload with
    | none => exact ⟨h.db, h.dir, h.mdir⟩
    | some rec =>
      simp only []
      cases Index.get db1.index rec.key with
      | none => exact h
      | some p =>
        simp only []
        split
        · have hne : db1.dir ≠ m.mdb.dir := by rw [h.mdir]; exact (mname_ne db1.dir).symm
          have e1 := appendLog_db s m.mdb { rec with batch := 0 }
          have e2 := appendLog_get_other s m.mdb { rec with batch := 0 } db1.dir hne
          have e3 := (PolicyP.Fr_appendLog s m.mdb { rec with batch := 0 }).2
          generalize appendLog s m.mdb { rec with batch := 0 } = A at e1 e2 e3 ⊢
          obtain ⟨s1, mdb1, np⟩ := A
          simp only at e1 e2 e3 ⊢
          split
          · exact ⟨e1.trans h.db, e2.trans h.dir, e3.trans h.mdir⟩
          · exact ⟨e1.trans h.db, e2.trans h.dir, e3.trans h.mdir⟩
        · exact h

theorem MFrame_mergeRec_fold {W : Option DirSt} {db1 : DB} (n fileId : Nat) (xs : List (ByteArray × Pos)) :
    ∀ {s : St} {m : MergeSt}, MFrame W db1 s m →
    MFrame W db1
      (xs.foldl (fun (acc : St × MergeSt) (x : ByteArray × Pos) => mergeRec acc.1 db1 acc.2 n fileId x.1 x.2) (s, m)).1
      (xs.foldl (fun (acc : St × MergeSt) (x : ByteArray × Pos) => mergeRec acc.1 db1 acc.2 n fileId x.1 x.2) (s, m)).2 := by
  induction xs with
  | nil => intro s m h; exact h
  | cons x t ih =>
    intro s m h
    simp only [List.foldl_cons]
    exact ih (MFrame_mergeRec h n fileId x.1 x.2)

theorem MFrame_mergeFile {W : Option DirSt} {db1 : DB} {s : St} {m : MergeSt} (h : MFrame W db1 s m)
    (n id : Nat) :
    MFrame W db1 (mergeFile db1 n (s, m) id).1 (mergeFile db1 n (s, m) id).2 := by
  unfold mergeFile
  simp only []
  split
  · exact h
  · cases getFile (dirOf s db1).data id with
    | none => exact h
    | some f =>
      simp only []
      have hR := MFrame_mergeRec_fold (W := W) (db1 := db1) n id (scan C false id f.bytes).recs h
      generalize (scan C false id f.bytes).recs.foldl (fun (acc : St × MergeSt) (x : ByteArray × Pos) =>
            mergeRec acc.1 db1 acc.2 n id x.1 x.2) (s, m) = R at hR ⊢
      obtain ⟨s1, m1⟩ := R
      simp only at hR ⊢
      split
      · exact ⟨hR.db, hR.dir, hR.mdir⟩
      · exact hR

theorem MFrame_mergeFile_fold {W : Option DirSt} {db1 : DB} (n : Nat) (ids : List Nat) :
    ∀ {s : St} {m : MergeSt}, MFrame W db1 s m →
    MFrame W db1 (ids.foldl (mergeFile db1 n) (s, m)).1 (ids.foldl (mergeFile db1 n) (s, m)).2 := by
  induction ids with
  | nil => intro s m h; exact h
  | cons x t ih =>
    intro s m h
    simp only [List.foldl_cons]
    exact ih (MFrame_mergeFile h n x)

theorem MFrame_start (s : St) (db : DB) :
    MFrame ((rotate s db).1.world.get db.dir) (rotate s db).2 (mergeStart s db) (mergeM0 (rotate s db).2) := by
  refine ⟨rfl, ?_, rfl⟩
  have hne : db.dir ≠ mergeDirName db.dir := (mname_ne db.dir).symm
  show (((rotate s db).1.world.remove (mergeDirName db.dir)).set (mergeDirName db.dir) _).get db.dir = _
  rw [get_set_ne _ _ _ _ hne, get_remove_ne _ _ _ hne]

theorem merge_frame {s : St} {db : DB} (hs : s.db = some db) (order : List Nat) :
    (merge s order).1.db = some (rotate s db).2 ∧
    (merge s order).1.world.get db.dir = (rotate s db).1.world.get db.dir := by
  rw [MergeP.merge_eq hs order]
  have hL := MFrame_mergeFile_fold (rotate s db).2.activeId
    (mergeIds order (dirOf (mergeStart s db) (rotate s db).2) (rotate s db).2.activeId) (MFrame_start s db)
  change MFrame _ _ (mergeLoop s db order).1 (mergeLoop s db order).2 at hL
  generalize mergeLoop s db order = R at hL ⊢
  obtain ⟨s1, m1⟩ := R
  simp only at hL
  unfold mergeFinish
  simp only []
  cases m1.failed with
  | some e => exact ⟨hL.db, hL.dir⟩
  | none =>
    refine ⟨hL.db, ?_⟩
    have hne : db.dir ≠ mergeDirName db.dir := (mname_ne db.dir).symm
    show ((s1.world.set (mergeDirName db.dir) _).get db.dir) = _
    rw [get_set_ne _ _ _ _ hne]
    exact hL.dir

/-- only the directory entry matters -/
theorem Adv.same_dir {s s' : St} {db db' : DB} (hd : db'.dir = db.dir)
    (hw : s'.world.get db.dir = s.world.get db.dir) (ha : db'.activeId = db.activeId) : Adv s db s' db' := by
  refine ⟨hd, Nat.le_of_eq ha.symm, fun ht => ?_⟩
  have : filesOf s' db' = filesOf s db := by
    unfold filesOf dirOf
    rw [hd, hw]
  rw [this, ha]
  exact ⟨ht, DExt.refl _ _⟩

/-- **`Merge` only extends the handle's data files** (it adds one empty file), whatever the
    visiting order and whatever the outcome -/
theorem Step_merge (s : St) (order : List Nat) : Step s (merge s order).1 := by
  intro db hs
  obtain ⟨h1, h2⟩ := merge_frame hs order
  refine ⟨_, h1, (Adv_rotate s db).trans ?_⟩
  exact Adv.same_dir rfl h2 rfl

/-! ## `Backup` -/

/-- copying files of `d` (ascending ids) over a list that already agrees with `d` byte for byte
    keeps that agreement — the case `Backup(dir)` with `dir` = the data directory itself -/
theorem backup_self_fold (d : List (Nat × FileSt)) (hd : AscF d) (l : List (Nat × FileSt)) :
    ∀ (acc : List (Nat × FileSt)), (∀ x ∈ l, x ∈ d) → AscF acc →
      (∀ id, (getFile acc id).map (·.bytes) = (getFile d id).map (·.bytes)) →
      AscF (l.foldl (fun acc (x : Nat × FileSt) => setFile acc x.1 { x.2 with synced := x.2.bytes.size }) acc) ∧
      ∀ id, (getFile (l.foldl (fun acc (x : Nat × FileSt) =>
          setFile acc x.1 { x.2 with synced := x.2.bytes.size }) acc) id).map (·.bytes)
        = (getFile d id).map (·.bytes) := by
  induction l with
  | nil => intro acc _ ha hb; exact ⟨ha, hb⟩
  | cons x rest ih =>
    intro acc hm ha hb
    simp only [List.foldl_cons]
    refine ih _ (fun y hy => hm y (by simp [hy])) (AscF_setFile ha _ _) ?_
    intro id
    rw [getFile_setFile]
    by_cases e : id = x.1
    · rw [if_pos e, e, getFile_of_mem hd (hm x (by simp))]
      rfl
    · rw [if_neg e]; exact hb id

/-- the state after `Backup` (the body of `Engine.backup` for the open handle `db`) -/
def backupSt (s : St) (db : DB) (dest : String) : St :=
  let d := dirOf s db
  let old := (s.world.get dest).getD DirSt.empty
  let data := d.data.map (fun (x : Nat × FileSt) => (x.1, { x.2 with synced := x.2.bytes.size }))
  let w := if mergeDirName dest = db.dir then s.world else s.world.remove (mergeDirName dest)
  { s with world := w.set dest { old with data := data, hint := d.hint } }

theorem backup_eq_st {s : St} {db : DB} (hs : s.db = some db) (dest : String) :
    backup s dest = (backupSt s db dest, .ok) := by
  unfold backup withDB backupSt
  simp only [hs]

theorem getFile_map_sync (l : List (Nat × FileSt)) (id : Nat) :
    getFile (l.map (fun (x : Nat × FileSt) => (x.1, ({ x.2 with synced := x.2.bytes.size } : FileSt)))) id
      = (getFile l id).map (fun f => { f with synced := f.bytes.size }) := by
  induction l with
  | nil => rfl
  | cons x rest ih =>
    obtain ⟨i, f⟩ := x
    simp only [List.map_cons, getFile]
    by_cases e : i = id
    · rw [if_pos e, if_pos e]; rfl
    · rw [if_neg e, if_neg e]; exact ih

theorem AscF_map_sync (l : List (Nat × FileSt)) (h : AscF l) :
    AscF (l.map (fun (x : Nat × FileSt) => (x.1, ({ x.2 with synced := x.2.bytes.size } : FileSt)))) := by
  unfold AscF at h ⊢
  exact List.pairwise_map.mpr h

theorem Step_backup (s : St) (dest : String) : Step s (backup s dest).1 := by
  intro db hs
  rw [backup_eq_st hs dest]
  refine ⟨db, hs, ?_⟩
  by_cases hne : dest = db.dir
  · subst hne
    refine ⟨rfl, Nat.le_refl _, fun ht => ?_⟩
    have hfs : filesOf (backupSt s db db.dir) db
        = (filesOf s db).map (fun (x : Nat × FileSt) => (x.1, ({ x.2 with synced := x.2.bytes.size } : FileSt))) := by
      unfold filesOf backupSt
      simp only []
      unfold dirOf
      rw [get_set_self]
      rfl
    rw [hfs]
    refine ⟨⟨AscF_map_sync _ ht.1, fun id hid => ?_⟩, fun id f hf => ?_⟩
    · rw [getFile_map_sync, ht.2 id hid]; rfl
    · refine ⟨{ f with synced := f.bytes.size }, ?_, FExt.refl _, fun _ => rfl⟩
      rw [getFile_map_sync, hf]; rfl
  · refine Adv.same_dir rfl ?_ rfl
    unfold backupSt
    simp only []
    rw [get_set_ne _ _ _ _ (fun e => hne e.symm)]
    split
    · rfl
    · rename_i hm
      exact get_remove_ne _ _ _ (fun e => hm e.symm)

/-! ## histories: plain operations, batch operations, `Merge` runs and `Backup`s, interleaved -/

inductive HOp where
  | op : AOp → HOp
  /-- `Merge`; the argument is the order in which Go's map iteration visits the older files -/
  | merge : List Nat → HOp
  /-- `Backup(dir)` into any directory (another one, the merge directory, even the data directory) -/
  | backup : String → HOp

def hstep (s : St) : HOp → St × Res
  | .op o => astep s o
  | .merge order => merge s order
  | .backup dest => backup s dest

def hrun (s : St) : List HOp → St
  | [] => s
  | h :: hs => hrun (hstep s h).1 hs

theorem Step_hstep (s : St) (h : HOp) : Step s (hstep s h).1 := by
  cases h with
  | op o => exact Step_astep s o
  | merge order => exact Step_merge s order
  | backup dest => exact Step_backup s dest

theorem Step_hrun (hs : List HOp) : ∀ s : St, Step s (hrun s hs) := by
  induction hs with
  | nil => intro s; exact Step.refl s
  | cons h hs ih => intro s; exact (Step_hstep s h).trans (ih _)

end XixiKV.Engine.IterP
