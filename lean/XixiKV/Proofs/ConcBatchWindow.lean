import XixiKV.Proofs.ConcBatchLin
/-!
# Between a flush of an open batch and its commit nothing takes effect but reads   (C05)

`window`: if the history is `h2 ++ flush t … :: h1` and `h2` has no linearization event of `t`
(the batch of `t` has not committed yet), then `t` is still inside its batch (so it holds
`db.mu`) and every linearization event in `h2` is a `Get`.
-/
namespace XixiKV.ConcBatch
open XixiKV.Conc (Tid Key Val upd updK Res upd_same upd_ne)

/-- events that do not change the state of the sequential specification -/
def quietEv : Ev → Bool
  | .lin _ (.get _) _ => true
  | .lin _ _ _ => false
  | _ => true

theorem quiet_commitEvs_has_lin (t : Tid) (ops : List BOp) (log : List Rec)
    (ws : List (Tid × Key × Nat)) : Ev.lin t (.batch ops) .ok ∈ commitEvs t ops log ws := by
  simp [commitEvs]

/-- what one step contributes: the events of ONE thread `t'`; they are quiet unless `t'` holds the
lock outside a batch or they contain a linearization event of `t'` itself; a thread inside a batch
stays inside unless it emits its linearization event; a flush event is emitted alone, by a thread
that stays inside its batch. -/
theorem step_window {sh : Shape} {g g' : G} (hs : Step sh g g') :
    ∃ t' evs, g'.hist = evs ++ g.hist ∧ (∀ t'', t'' ≠ t' → g'.pc t'' = g.pc t'') ∧
      ((∀ e ∈ evs, quietEv e = true) ∨ (inCS (g.pc t') = true ∧ isBat (g.pc t') = false) ∨
        (isBat (g.pc t') = true ∧ ∃ op r, Ev.lin t' op r ∈ evs)) ∧
      (isBat (g.pc t') = true → isBat (g'.pc t') = true ∨ ∃ op r, Ev.lin t' op r ∈ evs) ∧
      (∀ t0 recs rest, Ev.flush t0 recs rest ∈ evs →
        evs = [.flush t0 recs rest] ∧ t0 = t' ∧ isBat (g'.pc t') = true) := by
  cases hs with
  | call t op hpc =>
    exact ⟨t, [.inv t op], rfl, fun _ e => upd_ne _ _ e, .inl (by simp [quietEv]),
      (by rw [hpc]; intro h; cases h), by simp⟩
  | ret t r hr =>
    exact ⟨t, [.ret t r], rfl, fun _ e => upd_ne _ _ e, .inl (by simp [quietEv]),
      (by rw [(retOf_some hr).2.2.1]; intro h; cases h), by simp⟩
  | rel t c' hr =>
    exact ⟨t, [], rfl, fun _ e => upd_ne _ _ e, .inl (by simp),
      (by rw [(relOf_some hr).2.2.2.1]; intro h; cases h), by simp⟩
  | putAcq t k v hpc hw =>
    exact ⟨t, [], rfl, fun _ e => upd_ne _ _ e, .inl (by simp),
      (by rw [hpc]; intro h; cases h), by simp⟩
  | putAppend t k v hpc =>
    exact ⟨t, [], rfl, fun _ e => upd_ne _ _ e, .inl (by simp),
      (by rw [hpc]; intro h; cases h), by simp⟩
  | putIndex t k v p hpc =>
    exact ⟨t, [.lin t (.put k v) .ok], rfl, fun _ e => upd_ne _ _ e,
      .inr (.inl (by rw [hpc]; exact ⟨rfl, rfl⟩)), (by rw [hpc]; intro h; cases h), by simp⟩
  | delAcq t k hpc hw =>
    exact ⟨t, [], rfl, fun _ e => upd_ne _ _ e, .inl (by simp),
      (by rw [hpc]; intro h; cases h), by simp⟩
  | delCheckMiss t k hpc hk =>
    exact ⟨t, [.lin t (.del k) .ok], rfl, fun _ e => upd_ne _ _ e,
      .inr (.inl (by rw [hpc]; exact ⟨rfl, rfl⟩)), (by rw [hpc]; intro h; cases h), by simp⟩
  | delCheckHit t k p hpc hk =>
    exact ⟨t, [], rfl, fun _ e => upd_ne _ _ e, .inl (by simp),
      (by rw [hpc]; intro h; cases h), by simp⟩
  | delAppend t k hpc =>
    exact ⟨t, [], rfl, fun _ e => upd_ne _ _ e, .inl (by simp),
      (by rw [hpc]; intro h; cases h), by simp⟩
  | delIndex t k hpc =>
    exact ⟨t, [.lin t (.del k) (delRes (g.idx k))], rfl, fun _ e => upd_ne _ _ e,
      .inr (.inl (by rw [hpc]; exact ⟨rfl, rfl⟩)), (by rw [hpc]; intro h; cases h), by simp⟩
  | getIdxMiss t k hpc hg hk =>
    exact ⟨t, [.lin t (.get k) (.val none)], rfl, fun _ e => upd_ne _ _ e,
      .inl (by simp [quietEv]), (by rw [hpc]; intro h; cases h), by simp⟩
  | getIdxHit t k p hpc hg hk ho =>
    exact ⟨t, [.lin t (.get k) (readPos g.log (some p))], rfl, fun _ e => upd_ne _ _ e,
      .inl (by simp [quietEv]), (by rw [hpc]; intro h; cases h), by simp⟩
  | getIdxWait t k p hpc hg hk ho =>
    exact ⟨t, [], rfl, fun _ e => upd_ne _ _ e, .inl (by simp),
      (by rw [hpc]; intro h; cases h), by simp⟩
  | getResolve t k p hpc hw =>
    exact ⟨t, [], rfl, fun _ e => upd_ne _ _ e, .inl (by simp),
      (by rw [hpc]; intro h; cases h), by simp⟩
  | batAcq t ops hpc hw =>
    exact ⟨t, [], rfl, fun _ e => upd_ne _ _ e, .inl (by simp),
      (by rw [hpc]; intro h; cases h), by simp⟩
  | batStage t ops b s staged op rest hpc =>
    exact ⟨t, [], rfl, fun _ e => upd_ne _ _ e, .inl (by simp),
      fun _ => .inl (by simp [isBat]), by simp⟩
  | batFlushEarly t ops b s staged op rest hpc hmf =>
    refine ⟨t, [.flush t staged (op :: rest)], rfl, fun _ e => upd_ne _ _ e,
      .inl (by simp [quietEv]), fun _ => .inl (by simp [isBat]), ?_⟩
    intro t0 recs rest' h
    simp only [List.mem_singleton] at h
    cases h
    exact ⟨rfl, rfl, by simp [isBat]⟩
  | batIndex t ops b s k po todo next hpc =>
    exact ⟨t, [], rfl, fun _ e => upd_ne _ _ e, .inl (by simp),
      fun _ => .inl (by simp [isBat]), by simp⟩
  | batResume t ops b s op rest hpc =>
    exact ⟨t, [], rfl, fun _ e => upd_ne _ _ e, .inl (by simp),
      fun _ => .inl (by simp [isBat]), by simp⟩
  | batCommitEmpty t ops b s hpc =>
    exact ⟨t, commitEvs t ops g.log g.waiters, rfl, fun _ e => upd_ne _ _ e,
      .inr (.inr ⟨by rw [hpc]; rfl, _, _, quiet_commitEvs_has_lin _ _ _ _⟩),
      fun _ => .inr ⟨_, _, quiet_commitEvs_has_lin _ _ _ _⟩, by simp [commitEvs]⟩
  | batCommitFlush t ops b s staged hpc hne =>
    refine ⟨t, [.flush t staged []], rfl, fun _ e => upd_ne _ _ e,
      .inl (by simp [quietEv]), fun _ => .inl (by simp [isBat]), ?_⟩
    intro t0 recs rest' h
    simp only [List.mem_singleton] at h
    cases h
    exact ⟨rfl, rfl, by simp [isBat]⟩
  | batSeal t ops b s hpc =>
    exact ⟨t, commitEvs t ops g.log g.waiters, rfl, fun _ e => upd_ne _ _ e,
      .inr (.inr ⟨by rw [hpc]; rfl, _, _, quiet_commitEvs_has_lin _ _ _ _⟩),
      fun _ => .inr ⟨_, _, quiet_commitEvs_has_lin _ _ _ _⟩, by simp [commitEvs]⟩

def Window (g : G) : Prop :=
  ∀ h2 t recs rest h1, g.hist = h2 ++ Ev.flush t recs rest :: h1 →
    (∀ op r, Ev.lin t op r ∉ h2) → isBat (g.pc t) = true ∧ ∀ e ∈ h2, quietEv e = true

theorem step_window_inv {sh : Shape} {g g' : G} (hI : Inv0 g) (hW : Window g) (hs : Step sh g g') :
    Window g' := by
  obtain ⟨t', evs, hh, hpc, hq, hb, hf⟩ := step_window hs
  intro h2 t recs rest h1 hsplit hno
  rw [hh] at hsplit
  -- the flush event lies in the old history
  have key : ∀ a, h2 = evs ++ a → g.hist = a ++ Ev.flush t recs rest :: h1 →
      isBat (g'.pc t) = true ∧ ∀ e ∈ h2, quietEv e = true := by
    intro a ha hg
    have hno' : ∀ op r, Ev.lin t op r ∉ a := fun op r hm => hno op r (by rw [ha]; simp [hm])
    obtain ⟨hbat, hqa⟩ := hW a t recs rest h1 hg hno'
    have hevs : ∀ op r, Ev.lin t op r ∉ evs := fun op r hm => hno op r (by rw [ha]; simp [hm])
    constructor
    · by_cases e : t = t'
      · subst e
        rcases hb hbat with h | ⟨op, r, h⟩
        · exact h
        · exact absurd h (hevs op r)
      · rw [hpc t e]; exact hbat
    · intro e he
      rw [ha] at he
      rcases List.mem_append.1 he with he | he
      · rcases hq with h | ⟨h1', h2'⟩ | ⟨h1', op, r, h⟩
        · exact h e he
        · have := cs_unique hI (isBat_inCS hbat) h1'
          subst this
          rw [hbat] at h2'; cases h2'
        · have := cs_unique hI (isBat_inCS hbat) (isBat_inCS h1')
          subst this
          exact absurd h (hevs op r)
      · exact hqa e he
  rcases List.append_eq_append_iff.1 hsplit with ⟨a, ha, hg⟩ | ⟨c, hc, hg⟩
  · exact key a ha hg
  · cases c with
    | nil =>
      simp only [List.append_nil, List.nil_append] at hc hg
      exact key [] (by simp [hc]) (by simpa using hg.symm)
    | cons x c =>
      simp only [List.cons_append, List.cons.injEq] at hg
      obtain ⟨hx, _⟩ := hg
      subst hx
      obtain ⟨h1', h2', h3'⟩ := hf t recs rest (by rw [hc]; simp)
      subst h2'
      rw [h1'] at hc
      have : h2 = [] := by
        cases h2 with
        | nil => rfl
        | cons y ys => simp at hc
      subst this
      exact ⟨h3', fun e he => by cases he⟩

theorem reachable_window {sh : Shape} {g : G} (hr : Reachable sh g) : Window g := by
  induction hr with
  | init =>
    intro h2 t recs rest h1 h
    simp [init] at h
  | step hr hs ih => exact step_window_inv (reachable_inv0 hr) ih hs

/-- quiet events leave the specification state alone, and every `Get` among them reads it -/
theorem specRun_quiet {h2 h1 : List Ev} {M : Map} (hq : ∀ e ∈ h2, quietEv e = true)
    (hs : specRun (h2 ++ h1) = some M) :
    specRun h1 = some M ∧ ∀ t' op r, Ev.lin t' op r ∈ h2 → ∃ k, op = .get k ∧ r = .val (M k) := by
  induction h2 with
  | nil => exact ⟨hs, fun _ _ _ h => by cases h⟩
  | cons e es ih =>
    have hq' : ∀ e ∈ es, quietEv e = true := fun e' he' => hq e' (List.mem_cons_of_mem _ he')
    have he := hq e List.mem_cons_self
    cases e with
    | lin t' op r =>
      cases op with
      | get k =>
        simp only [List.cons_append, specRun] at hs
        cases hm : specRun (es ++ h1) with
        | none => rw [hm] at hs; cases hs
        | some m =>
          rw [hm] at hs
          change (if Res.val (m k) = r then some m else none) = some M at hs
          by_cases hr : Res.val (m k) = r
          · rw [if_pos hr] at hs
            cases hs
            obtain ⟨ih1, ih2⟩ := ih hq' hm
            refine ⟨ih1, ?_⟩
            intro t'' op' r' hmem
            rcases List.mem_cons.1 hmem with h | h
            · cases h; exact ⟨k, rfl, hr.symm⟩
            · exact ih2 t'' op' r' h
          · rw [if_neg hr] at hs; cases hs
      | put k v => simp [quietEv] at he
      | del k => simp [quietEv] at he
      | batch ops => simp [quietEv] at he
    | inv t' op =>
      obtain ⟨ih1, ih2⟩ := ih hq' hs
      exact ⟨ih1, fun t'' op' r' hmem => by
        rcases List.mem_cons.1 hmem with h | h
        · cases h
        · exact ih2 t'' op' r' h⟩
    | ret t' r =>
      obtain ⟨ih1, ih2⟩ := ih hq' hs
      exact ⟨ih1, fun t'' op' r' hmem => by
        rcases List.mem_cons.1 hmem with h | h
        · cases h
        · exact ih2 t'' op' r' h⟩
    | flush t' a b =>
      obtain ⟨ih1, ih2⟩ := ih hq' hs
      exact ⟨ih1, fun t'' op' r' hmem => by
        rcases List.mem_cons.1 hmem with h | h
        · cases h
        · exact ih2 t'' op' r' h⟩

end XixiKV.ConcBatch
