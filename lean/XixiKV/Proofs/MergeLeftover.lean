import XixiKV.Model.Batch
import XixiKV.Proofs.EngineRestart

/-! helper lemmas for `Properties/C07Leftover.lean`: `World.set` / `World.remove` commute on different names -/

namespace XixiKV.Engine.Leftover
open XixiKV XixiKV.Engine

theorem remove_set_ne (w : World) (a m : String) (x : DirSt) (h : a ≠ m) :
    (w.set a x).remove m = (w.remove m).set a x := by
  induction w with
  | nil => simp [World.set, World.remove, h]
  | cons hd rest ih =>
    obtain ⟨n, s'⟩ := hd
    unfold World.remove at ih ⊢
    by_cases hna : n = a
    · subst hna
      simp [World.set, h]
    · by_cases hnm : n = m
      · subst hnm
        simp [World.set, hna]
        simpa using ih
      · simp [World.set, hna, hnm]
        simpa using ih

theorem remove_set_same (w : World) (m : String) (x : DirSt) :
    (w.set m x).remove m = w.remove m := by
  induction w with
  | nil => simp [World.set, World.remove]
  | cons hd rest ih =>
    obtain ⟨n, s'⟩ := hd
    unfold World.remove at ih ⊢
    by_cases hnm : n = m
    · subst hnm
      simp [World.set]
    · simp [World.set, hnm]
      simpa using ih

theorem get_remove_ne (w : World) (a m : String) (h : a ≠ m) : (w.remove m).get a = w.get a := by
  induction w with
  | nil => simp [World.remove, World.get]
  | cons hd rest ih =>
    obtain ⟨n, s'⟩ := hd
    unfold World.remove at ih ⊢
    by_cases hnm : n = m
    · subst hnm
      have : ¬ n = a := fun e => h e.symm
      simp [World.get, this]
      simpa using ih
    · by_cases hna : n = a
      · subst hna
        simp [World.get, List.filter, hnm]
      · simp [World.get, hnm, hna]
        simpa using ih

theorem remove_remove (w : World) (m : String) : (w.remove m).remove m = w.remove m := by
  simp [World.remove, List.filter_filter]

/-- the two directory states `rotate` writes, as functions of the data directory it finds -/
def rot1 (od : Option DirSt) (db : DB) : DirSt :=
  let d := od.getD DirSt.empty
  let af := (getFile d.data db.activeId).getD ⟨ByteArray.empty, 0⟩
  { d with data := setFile d.data db.activeId { af with synced := af.bytes.size } }

def rot2 (od : Option DirSt) (db : DB) : DirSt :=
  let d1 := rot1 od db
  { d1 with data := setFile d1.data (db.activeId + 1) ⟨ByteArray.empty, 0⟩ }

theorem rotate_eq (s : St) (db : DB) :
    rotate s db = (⟨(s.world.set db.dir (rot1 (s.world.get db.dir) db)).set db.dir (rot2 (s.world.get db.dir) db), s.db⟩,
                   { db with bytesWrite := 0, activeId := db.activeId + 1 }) := by
  simp [rotate, putFile, dirOf, activeFile, rot1, rot2, Restart.World.get_set_self]

end XixiKV.Engine.Leftover
