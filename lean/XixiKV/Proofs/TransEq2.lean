import XixiKV.Proofs.TransEq2Codec
import XixiKV.Proofs.TransEq2Read
/-!
# The mechanically translated record / hint codecs and the position-based read equal the model

Second part of `TransEq.lean` (same translator, `harness/cmd/trans`; definitions in
`XixiKV/Generated/Trans.lean`, regenerated from the Go sources on every run).

| Go function                         | generated definition            | model                        | theorem |
|-------------------------------------|---------------------------------|------------------------------|---------|
| `datafile.DecodeLogRecord`          | `datafile.DecodeLogRecord`      | `Record.decodeRecord`        | `trans_DecodeLogRecord_eq` (`_enc`) |
| `datafile.DecodeLogRecordValue`     | `datafile.DecodeLogRecordValue` | `Record.decodeValue`         | `trans_DecodeLogRecordValue_eq` (`_enc`) |
| `datafile.EncodeLogRecord`          | `datafile.EncodeLogRecord`      | `Record.encodeRecord`        | `trans_EncodeLogRecord_eq` (`_eq21`) |
| `datafile.EncodeHintRecord`         | `datafile.EncodeHintRecord`     | `Record.encodeHint`          | `trans_EncodeHintRecord_eq` (`_eq25`) |
| `datafile.DecodeHintRecord`         | `datafile.DecodeHintRecord`     | `Record.decodeHint`          | `trans_DecodeHintRecord_eq` (`_enc`) |
| `datafile.(*DataFile).Size`         | `datafile.Size`                 | `ByteArray.size`             | `trans_Size_eq` |
| `datafile.(*DataFile).readToBuf`    | `datafile.readToBuf`            | `Frame.readAt` (`readLoop`, `chunkRand`) with `Chunk.crcCodec` | `trans_readToBuf_eq` (`trans_readToBuf_write`) |

The decoders are compared under the hypothesis that the *model* decoder returns `some` (the model returns
`none` exactly where Go panics, mis-slices, or silently continues after a truncated / overflowing /
negative varint; see `harness/cmd/trans/NOTES.md` for the list of excluded inputs).  Go's `nil` and empty
slices are both the empty `ByteArray`.  The varint primitives of the generated prelude are the model's
`Varint` functions behind Go's return convention; `Uvarint_at` / `Varint_at` / `PutVarint_eq` connect them
to the forms (`window`, `varintNat`, `putVarintNat`) the model codecs use.
-/
