import XixiKV.Proofs.ConcBatchInv
/-!
# The history invariant of `Model/ConcBatch.lean`: linearizability with batches

`InvL sh g` (on top of `Inv0 g`) says that the ghost history is explained by the sequential
specification in which a batch is one atomic multi-key update at its commit:

* `spec`: running the linearization events through the specification succeeds and yields
  `specMap g` — the live mapping `absMap g` while no batch is open, and the mapping a restart
  would recover (`view (recovered log)`: WITHOUT the records of the open batch) while one is;
* `phases`: every thread's events are `inv · lin · ret` triples in step with its control state; a
  `Get` that has read a position of the open batch (`waiters`) is still un-linearized;
* `ben`: what a lock-free index reader can rely on while a batch is open, PROVIDED every flush so
  far was benign (`BenignFlushes`): the index shows, for every key, either the recovered position
  or a position of the open batch that is final (no later operation of the batch touches the key).

`step_invL` needs `sh.getIdxGated = true ∨ BenignFlushes g'.hist`: either the index read of `Get`
is inside an R section of `db.mu`, or the batches are such that their flushes are benign.  Without
either the statement is false (`Properties/C08Batch.lean`, `C08B_needs_gate_*`).
-/
namespace XixiKV.ConcBatch
open XixiKV.Conc (Tid Key Val upd updK Res upd_same upd_ne updK_same updK_ne lt_of_getElem?_eq_some)

def specMap (g : G) : Map :=
  match g.bstart with
  | some _ => view g.log (recovered g.log)
  | none => absMap g

def isWaiter (ws : List (Tid × Key × Nat)) (t : Tid) : Bool := ws.any fun w => w.1 == t

def phaseOfPC (log : List Rec) (waiting : Bool) : PC → Phase
  | .idle => .idle
  | .putWant k v | .putLocked k v | .putAppended k v _ => .invoked (.put k v)
  | .putIndexed k v _ => .linearized (.put k v) .ok
  | .delWant k | .delLocked k | .delFound k | .delAppended k => .invoked (.del k)
  | .delMiss k _ => .linearized (.del k) .ok
  | .delIndexed k r _ => .linearized (.del k) r
  | .getWant k => .invoked (.get k)
  | .getFound k p =>
    if waiting then .invoked (.get k) else .linearized (.get k) (readPos log (some p))
  | .getResolved k r => .linearized (.get k) r
  | .batWant ops | .batOpen ops _ _ _ _ | .batFlush ops _ _ _ _ => .invoked (.batch ops)
  | .batSealed ops _ => .linearized (.batch ops) .ok

def phaseOf (g : G) (t : Tid) : Phase := phaseOfPC g.log (isWaiter g.waiters t) (g.pc t)

def todoHas (todo : List (Key × Option Nat)) (k : Key) : Bool := todo.any fun x => x.1 == k

/-- what a lock-free index reader can rely on while a batch with benign flushes is open -/
structure Ben (log : List Rec) (idx : Key → Option Nat) (ws : List (Tid × Key × Nat)) (s : Nat)
    (todo : List (Key × Option Nat)) (staged rest : List BOp) : Prop where
  agree : ∀ k, idx k = recovered log k ∨ ∃ p, idx k = some p ∧ s ≤ p
  fresh : ∀ k p, idx k = some p → s ≤ p →
    todoHas todo k = false ∧ hasKey staged k = false ∧ hasKey rest k = false
  todoN : (todo.map (·.1)).Nodup
  todoB : ∀ x ∈ todo, (∃ p, x.2 = some p ∧ s ≤ p) ∧ hasKey staged x.1 = false ∧ hasKey rest x.1 = false
  waitIdx : ∀ w ∈ ws, idx w.2.1 = some w.2.2

def BenFacts (log : List Rec) (idx : Key → Option Nat) (ws : List (Tid × Key × Nat)) : PC → Prop
  | .batOpen _ _ s staged rest => Ben log idx ws s [] staged rest
  | .batFlush _ _ s todo next => Ben log idx ws s todo (stagedOf next) (restOfN next)
  | _ => True

structure InvL (sh : Shape) (g : G) : Prop where
  spec : specRun g.hist = some (specMap g)
  phases : ∀ t, phase g.hist t = some (phaseOf g t)
  gatedW : sh.getIdxGated = true → g.waiters = []
  ben : BenignFlushes g.hist → ∀ t, BenFacts g.log g.idx g.waiters (g.pc t)

/-! ## small facts -/

theorem specMap_none {g : G} (h : g.bstart = none) : specMap g = view g.log g.idx := by
  simp only [specMap, h]; rfl

theorem specMap_some {g : G} {s : Nat} (h : g.bstart = some s) :
    specMap g = view g.log (recovered g.log) := by
  simp only [specMap, h]

theorem view_updK (log : List Rec) (ix : Key → Option Nat) (k : Key) (po : Option Nat) :
    view log (updK ix k po) = updK (view log ix) k (valAt log po) := by
  funext k'
  by_cases e : k' = k
  · subst e; simp [view]
  · simp [view, updK_ne _ _ e]

theorem benign_suffix {evs h : List Ev} (hb : BenignFlushes (evs ++ h)) : BenignFlushes h := by
  unfold BenignFlushes at hb ⊢
  rw [List.all_append, Bool.and_eq_true] at hb
  exact hb.2

theorem benign_cons {e : Ev} {h : List Ev} (hb : BenignFlushes (e :: h)) :
    benignEv e = true ∧ BenignFlushes h := by
  unfold BenignFlushes at hb ⊢
  rw [List.all_cons, Bool.and_eq_true] at hb
  exact hb

theorem benFacts_of_not_isBat {c : PC} (log : List Rec) (idx : Key → Option Nat)
    (ws : List (Tid × Key × Nat)) (h : isBat c = false) : BenFacts log idx ws c := by
  cases c <;> simp_all [BenFacts, isBat]

theorem phaseOfPC_append {log : List Rec} (l : List Rec) (w : Bool) {c : PC} (h : LogFacts log c) :
    phaseOfPC (log ++ l) w c = phaseOfPC log w c := by
  cases c with
  | getFound k p =>
    simp only [phaseOfPC, LogFacts] at h ⊢
    rw [readPos_append _ _ _ h]
  | _ => rfl

theorem isWaiter_false_of_pc {g : G} (hI : Inv0 g) {t : Tid} (h : ∀ k p, g.pc t ≠ .getFound k p) :
    isWaiter g.waiters t = false := by
  cases hw : isWaiter g.waiters t with
  | false => rfl
  | true =>
    simp only [isWaiter, List.any_eq_true, beq_iff_eq] at hw
    obtain ⟨w, hw, he⟩ := hw
    have := (hI.waitF w hw).1
    rw [he] at this
    exact absurd this (h _ _)

/-! ## histories -/

theorem phaseStep_other {t : Tid} {e : Ev} (ph : Option Phase) (h : e.tid ≠ t) :
    phaseStep t ph e = ph := by
  cases e <;> simp_all [phaseStep, Ev.tid]

theorem phase_append_other {t : Tid} (evs h : List Ev) (hev : ∀ e ∈ evs, e.tid ≠ t) :
    phase (evs ++ h) t = phase h t := by
  induction evs with
  | nil => rfl
  | cons e es ih =>
    simp only [List.cons_append, phase]
    rw [ih (fun e' he' => hev e' (List.mem_cons_of_mem _ he')),
      phaseStep_other _ (hev e (List.mem_cons_self))]

/-- the phases after a step of thread `t` whose events are all its own -/
theorem phases_of {g g' : G} {t : Tid} {evs : List Ev}
    (hL : ∀ t, phase g.hist t = some (phaseOf g t))
    (hh : g'.hist = evs ++ g.hist) (hev : ∀ e ∈ evs, e.tid = t)
    (ht : phase (evs ++ g.hist) t = some (phaseOf g' t))
    (ho : ∀ t', t' ≠ t → phaseOf g' t' = phaseOf g t') :
    ∀ t', phase g'.hist t' = some (phaseOf g' t') := by
  intro t'
  rw [hh]
  by_cases e : t' = t
  · subst e; exact ht
  · rw [phase_append_other _ _ (fun e' he' => by rw [hev e' he']; exact Ne.symm e), ho t' e]
    exact hL t'

theorem find_none_of_not_waiter {ws : List (Tid × Key × Nat)} {t : Tid}
    (h : isWaiter ws t = false) : ws.find? (fun w => w.1 == t) = none := by
  rw [List.find?_eq_none]
  intro w hw
  simp only [isWaiter, List.any_eq_false, beq_iff_eq] at h
  simpa using h w hw

/-- the phases after the commit events: the batch thread and every waiter are linearized -/
theorem phase_commitEvs (t : Tid) (ops : List BOp) (log : List Rec) (ws : List (Tid × Key × Nat))
    (h : List Ev) (hnd : (ws.map (·.1)).Nodup) (ht : isWaiter ws t = false) (t' : Tid) :
    phase (commitEvs t ops log ws ++ h) t' =
      if t' = t then phaseStep t (phase h t) (.lin t (.batch ops) .ok)
      else match ws.find? (fun w => w.1 == t') with
        | some w => phaseStep t' (phase h t') (.lin t' (.get w.2.1) (readPos log (some w.2.2)))
        | none => phase h t' := by
  induction ws with
  | nil =>
    simp only [commitEvs, List.map_nil, List.nil_append, List.cons_append, phase, List.find?_nil]
    by_cases e : t' = t
    · subst e; simp
    · rw [if_neg e, phaseStep_other _ (by simpa [Ev.tid] using Ne.symm e)]
  | cons w ws ih =>
    have hnd' : w.1 ∉ ws.map (·.1) ∧ (ws.map (·.1)).Nodup := by simpa using hnd
    have ht' : w.1 ≠ t ∧ isWaiter ws t = false := by
      simp only [isWaiter, List.any_cons, Bool.or_eq_false_iff, beq_eq_false_iff_ne] at ht
      exact ⟨ht.1, ht.2⟩
    have hc : commitEvs t ops log (w :: ws) ++ h =
        .lin w.1 (.get w.2.1) (readPos log (some w.2.2)) :: (commitEvs t ops log ws ++ h) := by
      simp [commitEvs]
    rw [hc]
    simp only [phase]
    rw [ih hnd'.2 ht'.2]
    by_cases e : t' = t
    · subst e
      rw [if_pos rfl, if_pos rfl, phaseStep_other _ (by simpa [Ev.tid] using ht'.1)]
    · rw [if_neg e, if_neg e]
      by_cases e' : w.1 = t'
      · subst e'
        have hn : isWaiter ws w.1 = false := by
          cases hx : isWaiter ws w.1 with
          | false => rfl
          | true =>
            simp only [isWaiter, List.any_eq_true, beq_iff_eq] at hx
            obtain ⟨w', hw', he'⟩ := hx
            exact absurd (List.mem_map.2 ⟨w', hw', he'⟩) hnd'.1
        rw [find_none_of_not_waiter hn]
        simp
      · rw [phaseStep_other _ (by simpa [Ev.tid] using e')]
        have : (w.1 == t') = false := by simpa using e'
        simp [this]

/-- the specification accepts the commit events when every waiter read a position whose value is
the one the committed batch leaves for its key -/
theorem specRun_commitEvs (t : Tid) (ops : List BOp) (log : List Rec) (ws : List (Tid × Key × Nat))
    (h : List Ev) (m : Map) (hs : specRun h = some m)
    (hw : ∀ w ∈ ws, valAt log (some w.2.2) = applyOps m ops w.2.1) :
    specRun (commitEvs t ops log ws ++ h) = some (applyOps m ops) := by
  induction ws with
  | nil => simp [commitEvs, specRun, hs, specStep]
  | cons w ws ih =>
    have hc : commitEvs t ops log (w :: ws) ++ h =
        .lin w.1 (.get w.2.1) (readPos log (some w.2.2)) :: (commitEvs t ops log ws ++ h) := by
      simp [commitEvs]
    rw [hc]
    simp only [specRun]
    rw [ih (fun w' hw' => hw w' (List.mem_cons_of_mem _ hw'))]
    simp [specStep, readPos, hw w List.mem_cons_self]

/-! ## preservation -/

/-- a step of thread `t` that leaves the log, the index, `bstart` and the waiters alone -/
theorem invL_pc_step {sh : Shape} {g : G} {t : Tid} {c' : PC} {evs : List Ev} {w' : Option Tid}
    {nb : Nat} (hL : InvL sh g)
    (hev : ∀ e ∈ evs, e.tid = t)
    (hph : phase (evs ++ g.hist) t = some (phaseOfPC g.log (isWaiter g.waiters t) c'))
    (hspec : specRun (evs ++ g.hist) = some (specMap g))
    (hben : BenignFlushes (evs ++ g.hist) → BenFacts g.log g.idx g.waiters c') :
    InvL sh { g with writer := w', pc := upd g.pc t c', nextBid := nb, hist := evs ++ g.hist } := by
  refine ⟨hspec, ?_, hL.gatedW, ?_⟩
  · apply phases_of (g := g) (evs := evs) hL.phases rfl hev
    · simpa [phaseOf] using hph
    · intro t' e; simp [phaseOf, upd_ne _ _ e]
  · intro hb t'
    by_cases e : t' = t
    · subst e; simpa using hben hb
    · show BenFacts _ _ _ (upd g.pc t c' t')
      rw [upd_ne _ _ e]; exact hL.ben (benign_suffix hb) t'

theorem retOf_phase {c : PC} {r : Res} (log : List Rec) (w : Bool) (h : retOf c = some r) :
    ∃ op, phaseOfPC log w c = .linearized op r := by
  cases c <;> (try (rename_i b; cases b)) <;> simp only [retOf] at h <;> cases h <;>
    exact ⟨_, rfl⟩

theorem relOf_phase {c c' : PC} (log : List Rec) (w : Bool) (h : relOf c = some c') :
    phaseOfPC log w c' = phaseOfPC log w c ∧ isBat c' = false := by
  cases c <;> (try (rename_i b; cases b)) <;> simp only [relOf] at h <;> cases h <;>
    exact ⟨rfl, rfl⟩

theorem updK_self {m : Map} {k : Key} {a : Option Val} (h : m k = a) : updK m k a = m := by
  funext k'
  by_cases e : k' = k
  · subst e; simp [h]
  · rw [updK_ne _ _ e]

/-- the reader's facts about the open batch -/
theorem ben_of_open {sh : Shape} {g : G} (hI : Inv0 g) (hL : InvL sh g) (hb : BenignFlushes g.hist)
    {s : Nat} (hs : g.bstart = some s) :
    ∃ todo staged rest, Ben g.log g.idx g.waiters s todo staged rest := by
  obtain ⟨t', ht'⟩ := hI.bstartF (by rw [hs]; simp)
  have hb' := hL.ben hb t'
  have hh := hI.heldF t'
  cases hc : g.pc t' <;> rw [hc] at ht' <;> simp only [isBat] at ht' <;> try cases ht'
  · rw [hc] at hb' hh
    have := hh.1.bs
    rw [hs] at this; cases this
    exact ⟨_, _, _, hb'⟩
  · rw [hc] at hb' hh
    have := hh.bs
    rw [hs] at this; cases this
    exact ⟨_, _, _, hb'⟩

/-- what a lock-free index reader needs: the index agrees with the pre-batch state on every key
that does not show a position of the open batch -/
theorem reader_agree {sh : Shape} {g : G} (hI : Inv0 g) (hL : InvL sh g)
    (hok : sh.getIdxGated = true ∨ BenignFlushes g.hist)
    (hg : sh.getIdxGated = true → g.writer = none) (k : Key)
    (hk : ∀ p, g.idx k = some p → openPos g p = false) : specMap g k = valAt g.log (g.idx k) := by
  cases hs : g.bstart with
  | none => rw [specMap_none hs]; rfl
  | some s =>
    rw [specMap_some hs]
    have hb : BenignFlushes g.hist := by
      rcases hok with h | h
      · have := bstart_none_of_free hI (hg h); rw [hs] at this; cases this
      · exact h
    obtain ⟨todo, staged, rest, hB⟩ := ben_of_open hI hL hb hs
    rcases hB.agree k with h | ⟨p, hp, hsp⟩
    · simp only [view, ← h]
    · have := hk p hp
      simp [openPos, hs, hsp] at this

theorem not_isBat_of_ne {g : G} (hI : Inv0 g) {t t' : Tid} (hcs : inCS (g.pc t) = true)
    (e : t' ≠ t) : isBat (g.pc t') = false := by
  cases h : isBat (g.pc t') with
  | false => rfl
  | true => have := not_inCS_of_ne hI hcs e; rw [isBat_inCS h] at this; cases this

theorem not_isBat_of_free {g : G} (hI : Inv0 g) (hw : g.writer = none) (t' : Tid) :
    isBat (g.pc t') = false := by
  cases h : isBat (g.pc t') with
  | false => rfl
  | true => have := not_inCS_of_free hI hw t'; rw [isBat_inCS h] at this; cases this

/-- the holder appends records -/
theorem invL_append_step {sh : Shape} {g : G} {t : Tid} {c' : PC} {l : List Rec} {evs : List Ev}
    (hI : Inv0 g) (hL : InvL sh g) (hcs : inCS (g.pc t) = true)
    (hev : ∀ e ∈ evs, e.tid = t)
    (hph : phase (evs ++ g.hist) t = some (phaseOfPC (g.log ++ l) (isWaiter g.waiters t) c'))
    (hspec : specRun (evs ++ g.hist) = some (specMap g))
    (hrec : g.bstart ≠ none → recovered (g.log ++ l) = recovered g.log)
    (hben : BenignFlushes (evs ++ g.hist) → BenFacts (g.log ++ l) g.idx g.waiters c') :
    InvL sh { g with log := g.log ++ l, pc := upd g.pc t c', hist := evs ++ g.hist } := by
  refine ⟨?_, ?_, hL.gatedW, ?_⟩
  · rw [hspec]
    congr 1
    cases hs : g.bstart with
    | none =>
      rw [specMap_none hs]
      simp only [specMap]
      exact (view_append _ _ _ (fun k p h => idx_lt hI h)).symm
    | some s =>
      rw [specMap_some hs]
      simp only [specMap]
      rw [hrec (by rw [hs]; simp)]
      exact (view_append _ _ _ (fun k p h => recovered_lt h)).symm
  · apply phases_of (g := g) (evs := evs) hL.phases rfl hev
    · simpa [phaseOf] using hph
    · intro t' e
      simp only [phaseOf, upd_ne _ _ e]
      exact phaseOfPC_append _ _ (hI.logF t')
  · intro hb t'
    by_cases e : t' = t
    · subst e; simpa using hben hb
    · show BenFacts _ _ _ (upd g.pc t c' t')
      rw [upd_ne _ _ e]
      exact benFacts_of_not_isBat _ _ _ (not_isBat_of_ne hI hcs e)

/-- the holder updates the index -/
theorem invL_idx_step {sh : Shape} {g : G} {t : Tid} {c' : PC} {idx' : Key → Option Nat}
    {evs : List Ev} (hI : Inv0 g) (hL : InvL sh g) (hcs : inCS (g.pc t) = true)
    (hev : ∀ e ∈ evs, e.tid = t)
    (hph : phase (evs ++ g.hist) t = some (phaseOfPC g.log (isWaiter g.waiters t) c'))
    (hspec : specRun (evs ++ g.hist) = some (specMap { g with idx := idx' }))
    (hben : BenignFlushes (evs ++ g.hist) → BenFacts g.log idx' g.waiters c') :
    InvL sh { g with idx := idx', pc := upd g.pc t c', hist := evs ++ g.hist } := by
  refine ⟨hspec, ?_, hL.gatedW, ?_⟩
  · apply phases_of (g := g) (evs := evs) hL.phases rfl hev
    · simpa [phaseOf] using hph
    · intro t' e; simp [phaseOf, upd_ne _ _ e]
  · intro hb t'
    by_cases e : t' = t
    · subst e; simpa using hben hb
    · show BenFacts _ _ _ (upd g.pc t c' t')
      rw [upd_ne _ _ e]
      exact benFacts_of_not_isBat _ _ _ (not_isBat_of_ne hI hcs e)

theorem hasKey_cons_false {op : BOp} {rest : List BOp} {k : Key}
    (h : hasKey (op :: rest) k = false) : op.1 ≠ k ∧ hasKey rest k = false := by
  simp only [hasKey, List.any_cons, Bool.or_eq_false_iff, beq_eq_false_iff_ne] at h
  exact ⟨h.1, h.2⟩

theorem hasKey_single_false {op : BOp} {k : Key} (h : op.1 ≠ k) : hasKey [op] k = false := by
  simp [hasKey, h]

theorem todoHas_todoOf (q : Nat) (staged : List BOp) (k : Key) :
    todoHas (todoOf q staged) k = hasKey staged k := by
  induction staged generalizing q with
  | nil => rfl
  | cons x l ih =>
    simp only [todoOf, todoHas, hasKey, List.any_cons] at ih ⊢
    rw [ih]

theorem mem_todoOf' {q : Nat} {staged : List BOp} {x : Key × Option Nat}
    (h : x ∈ todoOf q staged) : ∃ i y, y ∈ staged ∧ x = (y.1, y.2.map fun _ => q + i) := by
  induction staged generalizing q with
  | nil => simp [todoOf] at h
  | cons z l ih =>
    simp only [todoOf, List.mem_cons] at h
    rcases h with h | h
    · exact ⟨0, z, List.mem_cons_self, by simpa using h⟩
    · obtain ⟨i, y, hy, hx⟩ := ih h
      exact ⟨i + 1, y, List.mem_cons_of_mem _ hy, by rw [hx, show q + 1 + i = q + (i + 1) by omega]⟩

theorem ben_stage {log : List Rec} {idx : Key → Option Nat} {ws : List (Tid × Key × Nat)} {s : Nat}
    {staged rest : List BOp} {op : BOp} (present : Bool)
    (hB : Ben log idx ws s [] staged (op :: rest)) : Ben log idx ws s [] (stage staged present op) rest := by
  refine ⟨hB.agree, ?_, List.nodup_nil, fun x hx => (by cases hx), hB.waitIdx⟩
  intro k p hk hsp
  obtain ⟨h1, h2, h3⟩ := hB.fresh k p hk hsp
  obtain ⟨h4, h5⟩ := hasKey_cons_false h3
  refine ⟨h1, ?_, h5⟩
  cases hx : hasKey (stage staged present op) k with
  | false => rfl
  | true =>
    rcases hasKey_stage hx with h | h
    · rw [h2] at h; cases h
    · exact absurd h.symm h4

theorem ben_single {log : List Rec} {idx : Key → Option Nat} {ws : List (Tid × Key × Nat)} {s : Nat}
    {todo : List (Key × Option Nat)} {rest : List BOp} {op : BOp}
    (hB : Ben log idx ws s todo [] (op :: rest)) : Ben log idx ws s todo [op] rest := by
  refine ⟨hB.agree, ?_, hB.todoN, ?_, hB.waitIdx⟩
  · intro k p hk hsp
    obtain ⟨h1, _, h3⟩ := hB.fresh k p hk hsp
    obtain ⟨h4, h5⟩ := hasKey_cons_false h3
    exact ⟨h1, hasKey_single_false h4, h5⟩
  · intro x hx
    obtain ⟨h1, _, h3⟩ := hB.todoB x hx
    obtain ⟨h4, h5⟩ := hasKey_cons_false h3
    exact ⟨h1, hasKey_single_false h4, h5⟩

theorem ben_flush {log : List Rec} {idx : Key → Option Nat} {ws : List (Tid × Key × Nat)} {s : Nat}
    {staged rest : List BOp} (l : List Rec)
    (hB : Ben log idx ws s [] staged rest) (hbf : benignFlush staged rest = true)
    (hn : KeysNodup staged) (hs : s ≤ log.length) (hrec : recovered (log ++ l) = recovered log) :
    Ben (log ++ l) idx ws s (todoOf log.length staged) [] rest := by
  simp only [benignFlush, List.all_eq_true, Bool.and_eq_true, Bool.not_eq_true'] at hbf
  refine ⟨by rw [hrec]; exact hB.agree, ?_, by rw [todoOf_keys]; exact hn, ?_, hB.waitIdx⟩
  · intro k p hk hsp
    obtain ⟨_, h2, h3⟩ := hB.fresh k p hk hsp
    exact ⟨by rw [todoHas_todoOf]; exact h2, rfl, h3⟩
  · intro x hx
    obtain ⟨i, y, hy, rfl⟩ := mem_todoOf' hx
    obtain ⟨h1, h2⟩ := hbf y hy
    obtain ⟨v, hv⟩ := Option.isSome_iff_exists.1 h1
    exact ⟨⟨log.length + i, by simp [hv], by omega⟩, rfl, h2⟩

theorem ben_index {log : List Rec} {idx : Key → Option Nat} {ws : List (Tid × Key × Nat)} {s : Nat}
    {k : Key} {po : Option Nat} {todo : List (Key × Option Nat)} {staged rest : List BOp}
    (hB : Ben log idx ws s ((k, po) :: todo) staged rest) (hws : ∀ w ∈ ws, s ≤ w.2.2) :
    Ben log (updK idx k po) ws s todo staged rest := by
  obtain ⟨⟨p0, hp0, hsp0⟩, hk1, hk2⟩ := hB.todoB (k, po) List.mem_cons_self
  simp only at hp0 hk1 hk2
  subst hp0
  have hnd : k ∉ todo.map (·.1) ∧ (todo.map (·.1)).Nodup := by simpa using hB.todoN
  have hth : todoHas todo k = false := by
    cases hx : todoHas todo k with
    | false => rfl
    | true =>
      simp only [todoHas, List.any_eq_true, beq_iff_eq] at hx
      obtain ⟨x, hx, he⟩ := hx
      exact absurd (List.mem_map.2 ⟨x, hx, he⟩) hnd.1
  refine ⟨?_, ?_, hnd.2, fun x hx => hB.todoB x (List.mem_cons_of_mem _ hx), ?_⟩
  · intro k'
    by_cases e : k' = k
    · subst e; right; exact ⟨p0, by simp, hsp0⟩
    · rw [updK_ne _ _ e]; exact hB.agree k'
  · intro k' p hk hsp
    by_cases e : k' = k
    · subst e; exact ⟨hth, hk1, hk2⟩
    · rw [updK_ne _ _ e] at hk
      obtain ⟨h1, h2, h3⟩ := hB.fresh k' p hk hsp
      refine ⟨?_, h2, h3⟩
      simp only [todoHas, List.any_cons, Bool.or_eq_false_iff] at h1
      exact h1.2
  · intro w hw
    have hi := hB.waitIdx w hw
    have := (hB.fresh _ _ hi (hws w hw)).1
    simp only [todoHas, List.any_cons, Bool.or_eq_false_iff, beq_eq_false_iff_ne] at this
    rw [updK_ne _ _ (Ne.symm this.1)]; exact hi

theorem benFacts_add_waiter {log : List Rec} {idx : Key → Option Nat} {ws : List (Tid × Key × Nat)}
    {c : PC} (w : Tid × Key × Nat) (h : BenFacts log idx ws c) (hw : idx w.2.1 = some w.2.2) :
    BenFacts log idx (w :: ws) c := by
  have key : ∀ {s todo staged rest}, Ben log idx ws s todo staged rest →
      Ben log idx (w :: ws) s todo staged rest := by
    intro s todo staged rest hB
    refine ⟨hB.agree, hB.fresh, hB.todoN, hB.todoB, ?_⟩
    intro w' hw'
    rcases List.mem_cons.1 hw' with h | h
    · subst h; exact hw
    · exact hB.waitIdx w' h
  cases c <;> first | trivial | exact key h

theorem isWaiter_nil (t : Tid) : isWaiter [] t = false := rfl

/-- the commit step: the batch and all waiting `Get`s are linearized together -/
theorem invL_commit {sh : Shape} {g : G} {t : Tid} {ops : List BOp} {s : Nat} {l log' : List Rec}
    (hI : Inv0 g) (hL : InvL sh g) (hok : sh.getIdxGated = true ∨ BenignFlushes g.hist)
    (hlog' : log' = g.log ++ l)
    (hcs : inCS (g.pc t) = true)
    (hph0 : phase g.hist t = some (.invoked (.batch ops)))
    (hs : g.bstart = some s)
    (hseq : view g.log g.idx = applyOps (view g.log (recovered g.log)) ops) :
    InvL sh { g with log := log', pc := upd g.pc t (.batSealed ops true), bstart := none,
                     waiters := [], hist := commitEvs t ops g.log g.waiters ++ g.hist } := by
  have hwi : ∀ w ∈ g.waiters, g.idx w.2.1 = some w.2.2 := by
    rcases hok with h | h
    · rw [hL.gatedW h]; intro w hw; cases hw
    · obtain ⟨_, _, _, hB⟩ := ben_of_open hI hL h hs
      exact hB.waitIdx
  have hnt : isWaiter g.waiters t = false :=
    isWaiter_false_of_pc hI (fun k p h => by rw [h] at hcs; cases hcs)
  refine ⟨?_, ?_, fun _ => rfl, ?_⟩
  · show specRun (commitEvs t ops g.log g.waiters ++ g.hist) = some (view log' g.idx)
    rw [specRun_commitEvs t ops g.log g.waiters g.hist (specMap g) hL.spec]
    · rw [specMap_some hs, ← hseq, hlog', view_append _ _ _ (fun k p h => idx_lt hI h)]
    · intro w hw
      rw [specMap_some hs, ← hseq]
      simp [view, hwi w hw]
  · intro t'
    show phase (commitEvs t ops g.log g.waiters ++ g.hist) t' = _
    rw [phase_commitEvs _ _ _ _ _ hI.waitNodup hnt]
    by_cases e : t' = t
    · subst e
      rw [if_pos rfl, hph0]
      simp [phaseStep, phaseOf, phaseOfPC]
    · rw [if_neg e]
      cases hf : g.waiters.find? (fun w => w.1 == t') with
      | none =>
        have hnw : isWaiter g.waiters t' = false := by
          rw [List.find?_eq_none] at hf
          simp only [isWaiter, List.any_eq_false]
          exact hf
        simp only [hL.phases t', phaseOf, upd_ne _ _ e, hnw, isWaiter_nil, hlog']
        rw [phaseOfPC_append _ _ (hI.logF t')]
      | some w =>
        have hw : w.1 = t' := by simpa using List.find?_some hf
        have hmem := List.mem_of_find?_eq_some hf
        have hpcw := (hI.waitF w hmem).1
        rw [hw] at hpcw
        have hiw : isWaiter g.waiters t' = true := by
          simp only [isWaiter, List.any_eq_true, beq_iff_eq]
          exact ⟨w, hmem, hw⟩
        have hlf := hI.logF t'
        rw [hpcw] at hlf
        simp only [LogFacts] at hlf
        simp only [hL.phases t', phaseOf, upd_ne _ _ e, hpcw, hiw, phaseOfPC, if_true, phaseStep,
          isWaiter_nil, hlog', readPos_append _ _ _ hlf]
        simp
  · intro hb t'
    by_cases e : t' = t
    · subst e
      show BenFacts _ _ _ (upd g.pc t' _ t')
      rw [upd_same]; trivial
    · show BenFacts _ _ _ (upd g.pc t _ t')
      rw [upd_ne _ _ e]
      exact benFacts_of_not_isBat _ _ _ (not_isBat_of_ne hI hcs e)

theorem step_invL {sh : Shape} {g g' : G} (hI : Inv0 g) (hL : InvL sh g) (hs : Step sh g g')
    (hok : sh.getIdxGated = true ∨ BenignFlushes g'.hist) : InvL sh g' := by
  cases hs with
  | call t op hpc =>
    have hph0 := hL.phases t
    simp only [phaseOf, hpc, phaseOfPC] at hph0
    exact invL_pc_step (evs := [.inv t op]) hL (by simp [Ev.tid])
      (by simp only [List.cons_append, List.nil_append, phase, phaseStep, hph0, if_true]
          cases op <;> rfl)
      hL.spec (fun _ => benFacts_of_not_isBat _ _ _ (by cases op <;> rfl))
  | ret t r hr =>
    have hph0 := hL.phases t
    obtain ⟨op, hop⟩ := retOf_phase g.log (isWaiter g.waiters t) hr
    simp only [phaseOf, hop] at hph0
    exact invL_pc_step (evs := [.ret t r]) hL (by simp [Ev.tid])
      (by simp [phase, phaseStep, hph0, phaseOfPC])
      hL.spec (fun _ => trivial)
  | rel t c' hr =>
    have hph0 := hL.phases t
    obtain ⟨h1, h2⟩ := relOf_phase g.log (isWaiter g.waiters t) hr
    exact invL_pc_step (evs := []) hL (by simp)
      (by rw [h1]; exact hph0) hL.spec (fun _ => benFacts_of_not_isBat _ _ _ h2)
  | putAcq t k v hpc hw =>
    have hph0 := hL.phases t
    simp only [phaseOf, hpc] at hph0
    exact invL_pc_step (evs := []) hL (by simp) hph0 hL.spec (fun _ => trivial)
  | delAcq t k hpc hw =>
    have hph0 := hL.phases t
    simp only [phaseOf, hpc] at hph0
    exact invL_pc_step (evs := []) hL (by simp) hph0 hL.spec (fun _ => trivial)
  | delCheckMiss t k hpc hk =>
    have hph0 := hL.phases t
    simp only [phaseOf, hpc, phaseOfPC] at hph0
    have hbn := bstart_none_of_holder hI (t := t) (by rw [hpc]; rfl) (by rw [hpc]; rfl)
    refine invL_pc_step (evs := [.lin t (.del k) .ok]) hL (by simp [Ev.tid])
      (by simp [phase, phaseStep, hph0, phaseOfPC]) ?_ (fun _ => trivial)
    have : updK (specMap g) k none = specMap g :=
      updK_self (by rw [specMap_none hbn]; simp [view, hk, valAt])
    simp [specRun, hL.spec, specStep, this]
  | delCheckHit t k p hpc hk =>
    have hph0 := hL.phases t
    simp only [phaseOf, hpc] at hph0
    exact invL_pc_step (evs := []) hL (by simp) hph0 hL.spec (fun _ => trivial)
  | getIdxMiss t k hpc hg hk =>
    have hph0 := hL.phases t
    simp only [phaseOf, hpc, phaseOfPC] at hph0
    refine invL_pc_step (evs := [.lin t (.get k) (.val none)]) hL (by simp [Ev.tid])
      (by simp [phase, phaseStep, hph0, phaseOfPC]) ?_ (fun _ => trivial)
    have hm := reader_agree hI hL (hok.imp id (benign_suffix (evs := [_]))) hg k
      (fun p hp => by rw [hk] at hp; cases hp)
    rw [hk] at hm
    simp [specRun, hL.spec, specStep, hm, valAt]
  | getIdxHit t k p hpc hg hk ho =>
    have hph0 := hL.phases t
    simp only [phaseOf, hpc, phaseOfPC] at hph0
    have hnw := isWaiter_false_of_pc hI (t := t) (by rw [hpc]; intro k p h; cases h)
    refine invL_pc_step (evs := [.lin t (.get k) (readPos g.log (some p))]) hL (by simp [Ev.tid])
      (by simp [phase, phaseStep, hph0, phaseOfPC, hnw]) ?_ (fun _ => trivial)
    have hm := reader_agree hI hL (hok.imp id (benign_suffix (evs := [_]))) hg k
      (fun p' hp => by rw [hk] at hp; cases hp; exact ho)
    rw [hk] at hm
    simp [specRun, hL.spec, specStep, hm, readPos]
  | getResolve t k p hpc hw =>
    have hph0 := hL.phases t
    have hwn := waiters_nil_of_bstart_none hI (bstart_none_of_free hI hw)
    simp only [phaseOf, hpc, phaseOfPC, hwn, isWaiter, List.any_nil] at hph0
    exact invL_pc_step (evs := []) hL (by simp) (by simpa [phaseOfPC] using hph0) hL.spec
      (fun _ => trivial)
  | putAppend t k v hpc =>
    have hcs : inCS (g.pc t) = true := by rw [hpc]; rfl
    have hbn := bstart_none_of_holder hI hcs (by rw [hpc]; rfl)
    have hph0 := hL.phases t
    simp only [phaseOf, hpc, phaseOfPC] at hph0
    exact invL_append_step (evs := []) hI hL hcs (by simp) (by simpa [phaseOfPC] using hph0)
      hL.spec (fun h => absurd hbn h) (fun _ => trivial)
  | delAppend t k hpc =>
    have hcs : inCS (g.pc t) = true := by rw [hpc]; rfl
    have hbn := bstart_none_of_holder hI hcs (by rw [hpc]; rfl)
    have hph0 := hL.phases t
    simp only [phaseOf, hpc, phaseOfPC] at hph0
    exact invL_append_step (evs := []) hI hL hcs (by simp) (by simpa [phaseOfPC] using hph0)
      hL.spec (fun h => absurd hbn h) (fun _ => trivial)
  | putIndex t k v p hpc =>
    have hcs : inCS (g.pc t) = true := by rw [hpc]; rfl
    have hbn := bstart_none_of_holder hI hcs (by rw [hpc]; rfl)
    have hl := hI.logF t
    rw [hpc] at hl
    simp only [LogFacts] at hl
    have hph0 := hL.phases t
    simp only [phaseOf, hpc, phaseOfPC] at hph0
    refine invL_idx_step (evs := [.lin t (.put k v) .ok]) hI hL hcs (by simp [Ev.tid])
      (by simp [phase, phaseStep, hph0, phaseOfPC]) ?_ (fun _ => trivial)
    have : specMap { g with idx := updK g.idx k (some p) } = updK (specMap g) k (some v) := by
      rw [specMap_none hbn, specMap_none (g := { g with idx := updK g.idx k (some p) }) hbn]
      show view g.log (updK g.idx k (some p)) = _
      rw [view_updK]; simp [valAt, hl]
    simp [specRun, hL.spec, specStep, this]
  | delIndex t k hpc =>
    have hcs : inCS (g.pc t) = true := by rw [hpc]; rfl
    have hbn := bstart_none_of_holder hI hcs (by rw [hpc]; rfl)
    have hh := hI.heldF t
    rw [hpc] at hh
    obtain ⟨l, _, _, _, hk⟩ := hh
    have hr : delRes (g.idx k) = .ok := by
      cases h : g.idx k with
      | none => exact absurd h hk
      | some p => rfl
    have hph0 := hL.phases t
    simp only [phaseOf, hpc, phaseOfPC] at hph0
    rw [hr]
    refine invL_idx_step (evs := [.lin t (.del k) .ok]) hI hL hcs (by simp [Ev.tid])
      (by simp [phase, phaseStep, hph0, phaseOfPC]) ?_ (fun _ => trivial)
    have : specMap { g with idx := updK g.idx k none } = updK (specMap g) k none := by
      rw [specMap_none hbn, specMap_none (g := { g with idx := updK g.idx k none }) hbn]
      show view g.log (updK g.idx k none) = _
      rw [view_updK]; rfl
    simp [specRun, hL.spec, specStep, this]
  | getIdxWait t k p hpc hg hk ho =>
    have hph0 := hL.phases t
    simp only [phaseOf, hpc, phaseOfPC] at hph0
    refine ⟨hL.spec, ?_, ?_, ?_⟩
    · apply phases_of (g := g) (evs := []) (t := t) hL.phases (by rfl) (by simp)
      · simpa [phaseOf, phaseOfPC, isWaiter] using hph0
      · intro t' e
        have : (t == t') = false := by simpa using Ne.symm e
        simp [phaseOf, upd_ne _ _ e, isWaiter, this]
    · intro h
      have := openPos_false_of_none (bstart_none_of_free hI (hg h)) p
      rw [ho] at this; cases this
    · intro hb t'
      by_cases e : t' = t
      · subst e
        show BenFacts _ _ _ (upd g.pc t' _ t')
        rw [upd_same]; trivial
      · show BenFacts _ _ _ (upd g.pc t _ t')
        rw [upd_ne _ _ e]
        exact benFacts_add_waiter (t, k, p) (hL.ben hb t') hk
  | batAcq t ops hpc hw =>
    have hc := hI.consistent (no_mid_of_free hI hw)
    have hbn := bstart_none_of_free hI hw
    have hwn := waiters_nil_of_bstart_none hI hbn
    have hph0 := hL.phases t
    simp only [phaseOf, hpc, phaseOfPC] at hph0
    refine ⟨?_, ?_, hL.gatedW, ?_⟩
    · rw [hL.spec, specMap_none hbn]
      congr 1
      show view g.log g.idx = view g.log (recovered g.log)
      rw [← hc.1]
    · apply phases_of (g := g) (evs := []) (t := t) hL.phases (by rfl) (by simp)
      · simpa [phaseOf, phaseOfPC] using hph0
      · intro t' e; simp [phaseOf, upd_ne _ _ e]
    · intro hb t'
      by_cases e : t' = t
      · subst e
        show BenFacts _ _ _ (upd g.pc t' _ t')
        rw [upd_same]
        refine ⟨fun k => Or.inl (by rw [← hc.1]), ?_, List.nodup_nil, fun x hx => (by cases hx), ?_⟩
        · intro k p hk hsp
          have := idx_lt hI hk
          omega
        · show ∀ w ∈ g.waiters, _
          rw [hwn]; intro w h; cases h
      · show BenFacts _ _ _ (upd g.pc t _ t')
        rw [upd_ne _ _ e]
        exact benFacts_of_not_isBat _ _ _ (not_isBat_of_free hI hw t')
  | batStage t ops b s staged op rest hpc =>
    have hph0 := hL.phases t
    simp only [phaseOf, hpc] at hph0
    refine invL_pc_step (evs := []) hL (by simp) hph0 hL.spec ?_
    intro hb
    have := hL.ben hb t
    rw [hpc] at this
    exact ben_stage _ this
  | batResume t ops b s op rest hpc =>
    have hph0 := hL.phases t
    simp only [phaseOf, hpc] at hph0
    refine invL_pc_step (evs := []) hL (by simp) hph0 hL.spec ?_
    intro hb
    have := hL.ben hb t
    rw [hpc] at this
    exact this
  | batFlushEarly t ops b s staged op rest hpc hmf =>
    have hcs : inCS (g.pc t) = true := by rw [hpc]; rfl
    have hh := hI.heldF t
    rw [hpc] at hh
    have hrec := (recovered_append_tagged g.log _ b hh.1.bne (recOf_tagged b staged)).1
    have hph0 := hL.phases t
    simp only [phaseOf, hpc, phaseOfPC] at hph0
    refine invL_append_step (evs := [.flush t staged (op :: rest)]) hI hL hcs (by simp [Ev.tid])
      (by simpa [phase, phaseStep, phaseOfPC] using hph0) hL.spec (fun _ => hrec) ?_
    intro hb
    obtain ⟨he, hb'⟩ := benign_cons (e := .flush t staged (op :: rest)) (h := g.hist) hb
    have hB := hL.ben hb' t
    rw [hpc] at hB
    exact ben_single (ben_flush _ hB he hh.1.nodup hh.1.sle hrec)
  | batCommitFlush t ops b s staged hpc hne =>
    have hcs : inCS (g.pc t) = true := by rw [hpc]; rfl
    have hh := hI.heldF t
    rw [hpc] at hh
    have hrec := (recovered_append_tagged g.log _ b hh.1.bne (recOf_tagged b staged)).1
    have hph0 := hL.phases t
    simp only [phaseOf, hpc, phaseOfPC] at hph0
    refine invL_append_step (evs := [.flush t staged []]) hI hL hcs (by simp [Ev.tid])
      (by simpa [phase, phaseStep, phaseOfPC] using hph0) hL.spec (fun _ => hrec) ?_
    intro hb
    obtain ⟨he, hb'⟩ := benign_cons (e := .flush t staged []) (h := g.hist) hb
    have hB := hL.ben hb' t
    rw [hpc] at hB
    exact ben_flush _ hB he hh.1.nodup hh.1.sle hrec
  | batIndex t ops b s k po todo next hpc =>
    have hcs : inCS (g.pc t) = true := by rw [hpc]; rfl
    have bf := hI.heldF t
    rw [hpc] at bf
    have hph0 := hL.phases t
    simp only [phaseOf, hpc, phaseOfPC] at hph0
    refine invL_idx_step (evs := []) hI hL hcs (by simp) (by simpa [phaseOfPC] using hph0) ?_ ?_
    · rw [List.nil_append, hL.spec, specMap_some bf.bs,
        specMap_some (g := { g with idx := updK g.idx k po }) bf.bs]
    · intro hb
      have hB := hL.ben hb t
      rw [hpc] at hB
      refine ben_index hB (fun w hw => ?_)
      have := (hI.waitF w hw).2
      simpa [openPos, bf.bs] using this
  | batCommitEmpty t ops b s hpc =>
    have hcs : inCS (g.pc t) = true := by rw [hpc]; rfl
    have hh := hI.heldF t
    rw [hpc] at hh
    obtain ⟨bf, _⟩ := hh
    have hph0 := hL.phases t
    simp only [phaseOf, hpc, phaseOfPC] at hph0
    obtain ⟨done, hd, hseq⟩ := bf.seq
    rw [List.append_nil] at hd
    subst hd
    have := invL_commit (l := []) (log' := g.log) hI hL (hok.imp id benign_suffix)
      (List.append_nil _).symm hcs hph0 bf.bs hseq
    exact this
  | batSeal t ops b s hpc =>
    have hcs : inCS (g.pc t) = true := by rw [hpc]; rfl
    have bf := hI.heldF t
    rw [hpc] at bf
    have hph0 := hL.phases t
    simp only [phaseOf, hpc, phaseOfPC] at hph0
    obtain ⟨done, hd, hseq⟩ := bf.seq
    have hd' : done = ops := by simpa [restOfN] using hd
    subst hd'
    exact invL_commit (l := [.fin b]) hI hL (hok.imp id benign_suffix) rfl hcs hph0 bf.bs hseq

theorem init_invL (sh : Shape) : InvL sh init :=
  ⟨rfl, fun _ => rfl, fun _ => rfl, fun _ _ => trivial⟩

/-- the history only grows -/
theorem step_hist {sh : Shape} {g g' : G} (hs : Step sh g g') : ∃ evs, g'.hist = evs ++ g.hist := by
  cases hs <;> first | exact ⟨[], rfl⟩ | exact ⟨[_], rfl⟩ | exact ⟨_, rfl⟩

theorem reachable_invL {sh : Shape} {g : G} (hr : Reachable sh g)
    (hok : sh.getIdxGated = true ∨ BenignFlushes g.hist) : InvL sh g := by
  induction hr with
  | init => exact init_invL sh
  | step hr hs ih =>
    obtain ⟨evs, he⟩ := step_hist hs
    have hok' := hok.imp id (fun h => by rw [he] at h; exact benign_suffix h)
    exact step_invL (reachable_inv0 hr) (ih hok') hs hok

theorem linearizable_of_invL {sh : Shape} {g : G} (hL : InvL sh g) : Linearizable g.hist :=
  ⟨fun t => by rw [hL.phases t]; simp, by rw [hL.spec]; rfl⟩

end XixiKV.ConcBatch
