import XixiKV.Proofs.DatatypeZSet
/-! # One step of any command; histories -/
namespace XixiKV.Datatype
open XixiKV XixiKV.Varint XixiKV.Record Spec

section
variable {U M : List ByteArray} {t : Nat} {kv : KV} {sp : State}

theorem findMetadata_emptyKey (kv : KV) (now : Nat) {k : ByteArray} (dt : UInt8) (h : k.size = 0) :
    findMetadata kv now k dt = .error .keyEmpty := by
  simp only [findMetadata, h, ↓reduceIte]

/-- the store rejects the empty key: nothing happens on either side -/
theorem refines_emptyKey (hR : R U M t kv sp) (c : Cmd) (h : c.key.size = 0) {now : Nat} (ht : t ≤ now) :
    Refines U M kv sp c now := by
  unfold Refines
  cases c with
  | set k v ttl =>
    cases v with
    | none => exact ⟨rfl, R_same hR ht⟩
    | some v =>
      have h' : k.size = 0 := h
      simp only [run, set, Spec.step, Cmd.key, h', ↓reduceIte]
      fin (R_same hR ht)
  | get k | del k | type k =>
    have h' : k.size = 0 := h
    simp only [run, get, del, type, Spec.step, Cmd.key, h', ↓reduceIte]
    fin (R_same hR ht)
  | hset k _ _ | hget k _ | hdel k _ | sadd k _ | sismember k _ | srem k _ | lpush k _ | rpush k _
  | lpop k | rpop k | zadd k _ _ | zscore k _ =>
    have h' : k.size = 0 := h
    simp only [run, hset, hget, hdel, sadd, sismember, srem, lpush, rpush, lpop, rpop, push, pop, zadd, zscore,
      findMetadata_emptyKey kv now _ h', Spec.step, Cmd.key, h', ↓reduceIte]
    fin (R_same hR ht)

/-- **one command**: same reply, and the relation holds again (with the clock bound moved past `now`) -/
theorem step_refines (hU : PrefixFree U) (hM : ZNoClash M) (hR : R U M t kv sp) (c : Cmd) (now : Nat)
    (hc : CmdOK U M c) (ht : t ≤ now) (hnow : now < 2 ^ 62) (hok : StepOK sp c now = true) :
    Refines U M kv sp c now := by
  by_cases hne : c.key.size = 0
  · exact refines_emptyKey hR c hne ht
  · obtain ⟨hk, hargs⟩ := hc
    cases c with
    | set k v ttl => exact refines_set hU hR hk hne v ttl ht hnow hok
    | get k => exact refines_get hR hk hne ht
    | del k => exact refines_del hU hR hk hne ht hnow
    | type k => exact refines_type hR hk hne ht
    | hset k f v => exact refines_hset hU hR hk hne f v ht hnow hok
    | hget k f => exact refines_hget hR hk hne f ht hnow
    | hdel k f => exact refines_hdel hU hR hk hne f ht hnow
    | sadd k m => exact refines_sadd hU hR hk hne m ht hnow hok
    | sismember k m => exact refines_sismember hR hk hne m ht hnow
    | srem k m => exact refines_srem hU hR hk hne m ht hnow
    | lpush k e => exact refines_lpush hU hR hk hne e ht hnow hok
    | rpush k e => exact refines_rpush hU hR hk hne e ht hnow hok
    | lpop k => exact refines_lpop hU hR hk hne ht hnow
    | rpop k => exact refines_rpop hU hR hk hne ht hnow
    | zadd k s m => exact refines_zadd hU hM hR hk hne s hargs.1 hargs.2 ht hnow hok
    | zscore k m => exact refines_zscore hR hk hne hargs ht hnow

end

/-- **hypotheses on a history**, decidable by running the specification along it:
    arguments from `U` / `M`, a strictly increasing clock below `2^62` ns (year 2116),
    and the size bounds `StepOK` at every step. -/
def HistOK (U M : List ByteArray) : Nat → State → List (Cmd × Nat) → Prop
  | _, _, [] => True
  | t, sp, (c, now) :: cs =>
    CmdOK U M c ∧ t ≤ now ∧ now < 2 ^ 62 ∧ StepOK sp c now = true ∧
    HistOK U M (now + 1) (Spec.step c sp now).1 cs

/-- `∈` on byte strings is decidable (the derived `BEq ByteArray` carries no lawfulness proof, so
    the library instance does not apply) -/
instance decMemBytes (k : ByteArray) (l : List ByteArray) : Decidable (k ∈ l) :=
  decidable_of_iff _ (Spec.has_iff l k)

instance (U M : List ByteArray) (c : Cmd) : Decidable (CmdOK U M c) := by
  unfold CmdOK
  cases c <;> infer_instance

instance decHistOK (U M : List ByteArray) : ∀ (t : Nat) (sp : State) (h : List (Cmd × Nat)), Decidable (HistOK U M t sp h)
  | _, _, [] => isTrue trivial
  | t, sp, (c, now) :: cs =>
    have := decHistOK U M (now + 1) (Spec.step c sp now).1 cs
    by unfold HistOK; infer_instance

theorem runAll_cons (c : Cmd) (now : Nat) (cs : List (Cmd × Nat)) (kv : KV) :
    runAll ((c, now) :: cs) kv = ((runAll cs (run c kv now).1).1, (run c kv now).2 :: (runAll cs (run c kv now).1).2) := rfl

theorem stepAll_cons (c : Cmd) (now : Nat) (cs : List (Cmd × Nat)) (sp : State) :
    Spec.stepAll ((c, now) :: cs) sp
      = ((Spec.stepAll cs (Spec.step c sp now).1).1, (Spec.step c sp now).2 :: (Spec.stepAll cs (Spec.step c sp now).1).2) := rfl

/-- the clock bound after a history: one past its last clock value -/
def endTime : Nat → List (Cmd × Nat) → Nat
  | t, [] => t
  | _, (_, now) :: cs => endTime (now + 1) cs

theorem hist_refines {U M : List ByteArray} (hU : PrefixFree U) (hM : ZNoClash M) :
    ∀ (h : List (Cmd × Nat)) (t : Nat) (kv : KV) (sp : State), R U M t kv sp → HistOK U M t sp h →
      (runAll h kv).2 = (Spec.stepAll h sp).2 ∧ R U M (endTime t h) (runAll h kv).1 (Spec.stepAll h sp).1 := by
  intro h
  induction h with
  | nil => intro t kv sp hR _; exact ⟨rfl, hR⟩
  | cons p cs ih =>
    obtain ⟨c, now⟩ := p
    intro t kv sp hR hok
    obtain ⟨hc, ht, hnow, hs, hrest⟩ := hok
    obtain ⟨h1, h2⟩ := step_refines hU hM hR c now hc ht hnow hs
    obtain ⟨h3, h4⟩ := ih (now + 1) _ _ h2 hrest
    rw [runAll_cons, stepAll_cons]
    exact ⟨by simp only [h1, h3], h4⟩

/-- the hypotheses on `h₁ ++ h₂` are those on `h₁` and then, from where `h₁` ends, those on `h₂` -/
theorem histOK_append {U M : List ByteArray} : ∀ (h₁ h₂ : List (Cmd × Nat)) (t : Nat) (sp : State),
    HistOK U M t sp (h₁ ++ h₂) ↔
      HistOK U M t sp h₁ ∧ HistOK U M (endTime t h₁) (Spec.stepAll h₁ sp).1 h₂ := by
  intro h₁
  induction h₁ with
  | nil => intro h₂ t sp; simp [HistOK, endTime, Spec.stepAll]
  | cons p cs ih =>
    obtain ⟨c, now⟩ := p
    intro h₂ t sp
    simp only [List.cons_append, HistOK, endTime, stepAll_cons, ih]
    constructor
    · rintro ⟨a, b, c, d, e, f⟩; exact ⟨⟨a, b, c, d, e⟩, f⟩
    · rintro ⟨⟨a, b, c, d, e⟩, f⟩; exact ⟨a, b, c, d, e, f⟩

end XixiKV.Datatype
