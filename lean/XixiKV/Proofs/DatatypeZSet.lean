import XixiKV.Proofs.DatatypeList
/-! # Sorted-set commands -/
namespace XixiKV.Datatype
open XixiKV XixiKV.Varint XixiKV.Record Spec

theorem zmemKey_eq_iff {k : ByteArray} {ver : Nat} (hv : ver < 2 ^ 64) (m m' : ByteArray) :
    zmemKey k ver m' = zmemKey k ver m ↔ m' = m :=
  ⟨fun h => (ikey_inj hv hv h).2, fun h => h ▸ rfl⟩

theorem scoreOfBytes_scoreBytes {s : Score} (h : s.size ≠ 0) : scoreOfBytes (scoreBytes s) = s := by
  simp [scoreOfBytes, scoreBytes, h]

theorem scoreOfBytes_id {s : Score} (h : s.size ≠ 0) : scoreOfBytes s = s := by
  simp [scoreOfBytes, h]

structure ZSetView (M : List ByteArray) (kv : KV) (now : Nat) (k : ByteArray) (zs : List (ByteArray × Score))
    (ver : Nat) : Prop where
  ver_le : ver ≤ now
  find : findMetadata kv now k tZSet = .ok (zsetMeta ver zs.length)
  len : zs.length < 2 ^ 32
  inv : ZSetInv M kv k ver zs
  stored : zs ≠ [] → kv.get k = some (encodeMeta (zsetMeta ver zs.length))

section
variable {U M : List ByteArray} {t : Nat} {kv : KV} {sp : State}

theorem zsetView_none (hR : R U M t kv sp) {k : ByteArray} (hk : k ∈ U) (hne : k.size ≠ 0) {now : Nat}
    (ht : t ≤ now) (hnow : now < 2 ^ 62) (hl : sp.live now k = none) : ZSetView M kv now k [] now := by
  have h64 : (2:Nat) ^ 62 < 2 ^ 64 := by decide
  refine ⟨Nat.le_refl _, ?_, by simp, ⟨List.nodup_nil, by simp, ?_⟩, fun h => absurd rfl h⟩
  · rw [find_absent hR hk hne hl tZSet (by decide)]
    simp [freshMeta, zsetMeta, dt_ne]
  · intro m _
    rw [zmemKey, hR.fresh k hk now ht (by omega)]
    rfl

theorem zsetView_some (hR : R U M t kv sp) {k : ByteArray} (hk : k ∈ U) (hne : k.size ≠ 0) {now : Nat}
    (ht : t ≤ now) (hnow : now < 2 ^ 62) {zs : List (ByteArray × Score)} (hf : sp.find k = some (.zset zs)) :
    ∃ ver, ZSetView M kv now k zs ver := by
  have h63 : (2:Nat) ^ 62 < 2 ^ 63 := by decide
  have hobj := hR.obj k hk
  rw [hf] at hobj
  obtain ⟨ver, h1, h2, h3, h4⟩ := (show Stored M t kv k (.zset zs) from hobj)
  refine ⟨ver, by omega, ?_, h2, h4, fun _ => h3⟩
  rw [findMetadata_meta tZSet hne (zsetMeta_valid (by omega) h2) rfl h3]
  simp [zsetMeta]

end

theorem mem_remove {β : Type} {l : List (ByteArray × β)} {k : ByteArray} {p : ByteArray × β}
    (h : p ∈ remove l k) : p ∈ l := (List.mem_filter.mp h).1

theorem zsetInv_insert {M : List ByteArray} {kv kv' : KV} {k : ByteArray} {ver : Nat}
    {zs : List (ByteArray × Score)} (hinv : ZSetInv M kv k ver zs) {m : ByteArray} {s : Score}
    (hm : m ∈ M) (hs : s.size ≠ 0)
    (hget : ∀ m' ∈ M, kv'.get (zmemKey k ver m') = if m' = m then some s else kv.get (zmemKey k ver m')) :
    ZSetInv M kv' k ver (insert zs m s) := by
  refine ⟨nodupKeys_insert hinv.1 m s, ?_, ?_⟩
  · intro p hp
    rcases List.mem_cons.mp hp with e | e
    · subst e; exact ⟨hm, hs⟩
    · exact hinv.2.1 p (mem_remove e)
  · intro m' hm'
    rw [hget m' hm', lookup_insert]
    by_cases hmm : m' = m
    · simp [hmm, scoreBytes]
    · rw [if_neg hmm, if_neg hmm, hinv.2.2 m' hm']

theorem zadd_core_new {M : List ByteArray} (hM : ZNoClash M) {kv : KV} {now : Nat} {k : ByteArray}
    {zs : List (ByteArray × Score)} {ver : Nat}
    (hv : ZSetView M kv now k zs ver) (hnow : now < 2 ^ 62) (hfit : zs.length + 1 < 2 ^ 32)
    (s : Score) {m : ByteArray} (hm : m ∈ M) (hs : s.size ≠ 0) (hl : lookup zs m = none) :
    (zadd kv now k s m).2 = .flag true ∧
    (zadd kv now k s m).1.get k = some (encodeMeta (zsetMeta ver (insert zs m s).length)) ∧
    ZSetInv M (zadd kv now k s m).1 k ver (insert zs m s) ∧
    (∀ x, x ≠ k → (∀ s, x ≠ ikey k ver s) → (zadd kv now k s m).1.get x = kv.get x) := by
  have h64 : (2:Nat) ^ 62 < 2 ^ 64 := by decide
  have hver : ver < 2 ^ 64 := by have := hv.ver_le; omega
  have hkne : ∀ sfx, k ≠ ikey k ver sfx := fun sfx e => ikey_ne_self k ver _ e.symm
  have hkz : ∀ s m, k ≠ zscoreKey k ver s m := fun _ _ => hkne _
  have hkm : ∀ m, k ≠ zmemKey k ver m := fun _ => hkne _
  have hnm : m ∉ zs.map (·.1) := (lookup_eq_none_iff zs m).mp hl
  have hget0 : kv.get (zmemKey k ver m) = none := by rw [hv.inv.2.2 m hm, hl]; rfl
  have hrun : zadd kv now k s m
      = (((kv.put k (encodeMeta (zsetMeta ver (zs.length + 1)))).put (zmemKey k ver m) s).put
          (zscoreKey k ver s m) ByteArray.empty, .flag true) := by
    simp only [zadd, hv.find, zsetMeta, hget0, scoreBytes, KV.batch_cons, KV.batch_nil, KV.apply_put,
      Nat.mod_eq_of_lt hfit]
  rw [hrun]
  refine ⟨rfl, ?_, ?_, ?_⟩
  · rw [KV.get_put, if_neg (hkz _ _), KV.get_put, if_neg (hkm _), KV.get_put, if_pos rfl,
      length_insert_of_not_mem zs m s hnm]
  · apply zsetInv_insert hv.inv hm hs
    intro m' hm'
    rw [KV.get_put, if_neg (zmem_ne_zscore hM hm' hm k hver hs), KV.get_put, KV.get_put]
    simp only [zmemKey_eq_iff hver]
    by_cases hmm : m' = m
    · simp [hmm]
    · rw [if_neg hmm, if_neg hmm, if_neg (fun e => hkm _ e.symm)]
  · intro x hx hxs
    rw [KV.get_put, if_neg (show x ≠ zscoreKey k ver s m from hxs _), KV.get_put,
      if_neg (show x ≠ zmemKey k ver m from hxs _), KV.get_put, if_neg hx]

theorem zadd_core_same {M : List ByteArray} {kv : KV} {now : Nat} {k : ByteArray}
    {zs : List (ByteArray × Score)} {ver : Nat}
    (hv : ZSetView M kv now k zs ver) (s : Score) {m : ByteArray} (hm : m ∈ M) (hl : lookup zs m = some s) :
    zadd kv now k s m = (kv, .flag false) := by
  have hs : s.size ≠ 0 := (hv.inv.2.1 _ (mem_of_lookup hl)).2
  have hget0 : kv.get (zmemKey k ver m) = some (scoreBytes s) := by rw [hv.inv.2.2 m hm, hl]; rfl
  simp only [zadd, hv.find, zsetMeta, hget0, scoreBytes, scoreOfBytes_id hs, ↓reduceIte]

theorem zadd_core_upd {M : List ByteArray} (hM : ZNoClash M) {kv : KV} {now : Nat} {k : ByteArray}
    {zs : List (ByteArray × Score)} {ver : Nat}
    (hv : ZSetView M kv now k zs ver) (hnow : now < 2 ^ 62)
    (s : Score) {m : ByteArray} (hm : m ∈ M) (hs : s.size ≠ 0) {old : Score} (hl : lookup zs m = some old)
    (hso : s ≠ old) :
    (zadd kv now k s m).2 = .flag false ∧
    (zadd kv now k s m).1.get k = some (encodeMeta (zsetMeta ver (insert zs m s).length)) ∧
    ZSetInv M (zadd kv now k s m).1 k ver (insert zs m s) ∧
    (∀ x, x ≠ k → (∀ s, x ≠ ikey k ver s) → (zadd kv now k s m).1.get x = kv.get x) := by
  have h64 : (2:Nat) ^ 62 < 2 ^ 64 := by decide
  have hver : ver < 2 ^ 64 := by have := hv.ver_le; omega
  have hkne : ∀ sfx, k ≠ ikey k ver sfx := fun sfx e => ikey_ne_self k ver _ e.symm
  have hkz : ∀ s m, k ≠ zscoreKey k ver s m := fun _ _ => hkne _
  have hkm : ∀ m, k ≠ zmemKey k ver m := fun _ => hkne _
  have hmem : m ∈ zs.map (·.1) := (lookup_isSome_iff zs m).mp (by rw [hl]; rfl)
  have hne : zs ≠ [] := by intro e; rw [e] at hmem; simp at hmem
  have ho : old.size ≠ 0 := (hv.inv.2.1 _ (mem_of_lookup hl)).2
  have hget0 : kv.get (zmemKey k ver m) = some (scoreBytes old) := by rw [hv.inv.2.2 m hm, hl]; rfl
  have hrun : zadd kv now k s m
      = (((kv.delete (zscoreKey k ver old m)).put (zmemKey k ver m) s).put
          (zscoreKey k ver s m) ByteArray.empty, .flag false) := by
    simp only [zadd, hv.find, zsetMeta, hget0, scoreBytes, scoreOfBytes_id ho, hso, ↓reduceIte,
      KV.batch_cons, KV.batch_nil, KV.apply_put, KV.apply_del]
  rw [hrun]
  refine ⟨rfl, ?_, ?_, ?_⟩
  · rw [KV.get_put, if_neg (hkz _ _), KV.get_put, if_neg (hkm _), KV.get_delete, if_neg (hkz _ _),
      length_insert_of_mem hv.inv.1 m s hmem, hv.stored hne]
  · apply zsetInv_insert hv.inv hm hs
    intro m' hm'
    rw [KV.get_put, if_neg (zmem_ne_zscore hM hm' hm k hver hs), KV.get_put, KV.get_delete,
      if_neg (zmem_ne_zscore hM hm' hm k hver ho)]
    simp only [zmemKey_eq_iff hver]
  · intro x hx hxs
    rw [KV.get_put, if_neg (show x ≠ zscoreKey k ver s m from hxs _), KV.get_put,
      if_neg (show x ≠ zmemKey k ver m from hxs _), KV.get_delete,
      if_neg (show x ≠ zscoreKey k ver old m from hxs _)]

theorem zscore_core {M : List ByteArray} {kv : KV} {now : Nat} {k : ByteArray}
    {zs : List (ByteArray × Score)} {ver : Nat}
    (hv : ZSetView M kv now k zs ver) {m : ByteArray} (hm : m ∈ M) :
    zscore kv now k m = (kv, if zs.isEmpty then .score "-1".toUTF8 else
      match lookup zs m with
      | none => .notFound
      | some sc => .score sc) := by
  cases zs with
  | nil => simp only [zscore, hv.find, zsetMeta, List.length_nil, ↓reduceIte, List.isEmpty_nil]
  | cons p r =>
    have : ¬ (p :: r).length = 0 := by simp
    simp only [zscore, hv.find, zsetMeta, this, ↓reduceIte, hv.inv.2.2 m hm, List.isEmpty_cons,
      Bool.false_eq_true]
    cases hl : lookup (p :: r) m with
    | none => rfl
    | some sc =>
      have hs : sc.size ≠ 0 := (hv.inv.2.1 _ (mem_of_lookup hl)).2
      simp only [Option.map_some, scoreBytes, scoreOfBytes_id hs]

section
variable {U M : List ByteArray} {t : Nat} {kv : KV} {sp : State}

theorem zset_close (hU : PrefixFree U) (hR : R U M t kv sp) {k : ByteArray} (hk : k ∈ U) {now : Nat}
    (ht : t ≤ now) (hnow : now < 2 ^ 62) {ver : Nat} (hver : ver ≤ now)
    {kv' : KV} {zs' : List (ByteArray × Score)} (hlen : zs'.length < 2 ^ 32)
    (hget : kv'.get k = some (encodeMeta (zsetMeta ver zs'.length))) (hinv : ZSetInv M kv' k ver zs')
    (hframe : ∀ x, x ≠ k → (∀ s, x ≠ ikey k ver s) → kv'.get x = kv.get x) :
    R U M (now + 1) kv' (sp.store k (.zset zs')) := by
  apply R_step hU hR hk ht hnow hver hframe
  · intro x hx; rw [find_store, if_neg hx]
  · rw [find_store, if_pos rfl]
    exact ⟨ver, by omega, hlen, hget, hinv⟩

theorem length_insert_le {β : Type} (l : List (ByteArray × β)) (k : ByteArray) (b : β) :
    (insert l k b).length ≤ l.length + 1 := by
  simp only [Spec.insert, Spec.remove, List.length_cons]
  have := List.length_filter_le (fun p : ByteArray × β => decide (p.1 ≠ k)) l
  omega

theorem refines_zadd (hU : PrefixFree U) (hM : ZNoClash M) (hR : R U M t kv sp) {k : ByteArray} (hk : k ∈ U)
    (hne : k.size ≠ 0) (s : Score) {m : ByteArray} (hm : m ∈ M) (hs : s.size ≠ 0) {now : Nat} (ht : t ≤ now)
    (hnow : now < 2 ^ 62) (hok : StepOK sp (.zadd k s m) now = true) : Refines U M kv sp (.zadd k s m) now := by
  unfold Refines
  rw [step_of_ne (.zadd k s m) _ _ hne]
  simp only [run, Spec.stepNE]
  cases hl : sp.live now k with
  | none =>
    have hv := zsetView_none (M := M) hR hk hne ht hnow hl
    obtain ⟨h1, h2, h3, h4⟩ := zadd_core_new hM hv hnow (by simp) s hm hs rfl
    exact ⟨h1, zset_close hU hR hk ht hnow hv.ver_le (by simp) h2 h3 h4⟩
  | some o =>
    obtain ⟨hf, hnx⟩ := live_some hl
    cases o with
    | zset zs =>
      obtain ⟨ver, hv⟩ := zsetView_some hR hk hne ht hnow hf
      have hfit : zs.length + 1 < 2 ^ 32 := stepOK_card hok hf
      have hlen : (insert zs m s).length < 2 ^ 32 := by have := length_insert_le zs m s; omega
      simp only
      cases hl : lookup zs m with
      | none =>
        obtain ⟨h1, h2, h3, h4⟩ := zadd_core_new hM hv hnow hfit s hm hs hl
        exact ⟨h1, zset_close hU hR hk ht hnow hv.ver_le hlen h2 h3 h4⟩
      | some old =>
        simp only
        by_cases hso : s = old
        · subst hso
          rw [zadd_core_same hv s hm hl]
          simp only [↓reduceIte]
          fin (R_same hR ht)
        · obtain ⟨h1, h2, h3, h4⟩ := zadd_core_upd hM hv hnow s hm hs hl hso
          simp only [hso, ↓reduceIte]
          exact ⟨h1, zset_close hU hR hk ht hnow hv.ver_le hlen h2 h3 h4⟩
    | str _ _ | hash _ | set _ | list _ =>
      simp only [zadd, wrong_find hR hk hne ht hnow hf tZSet (by simp [dtOf, dt_ne])
        hnx]
      fin (R_same hR ht)

theorem refines_zscore (hR : R U M t kv sp) {k : ByteArray} (hk : k ∈ U) (hne : k.size ≠ 0)
    {m : ByteArray} (hm : m ∈ M) {now : Nat} (ht : t ≤ now) (hnow : now < 2 ^ 62)
    : Refines U M kv sp (.zscore k m) now := by
  unfold Refines
  rw [step_of_ne (.zscore k m) _ _ hne]
  simp only [run, Spec.stepNE]
  cases hl : sp.live now k with
  | none =>
    rw [zscore_core (zsetView_none (M := M) hR hk hne ht hnow hl) hm]
    fin (R_same hR ht)
  | some o =>
    obtain ⟨hf, hnx⟩ := live_some hl
    cases o with
    | zset zs =>
      obtain ⟨ver, hv⟩ := zsetView_some hR hk hne ht hnow hf
      rw [zscore_core hv hm]
      cases zs with
      | nil => simp only [List.isEmpty_nil, ↓reduceIte]; fin (R_same hR ht)
      | cons p r =>
        simp only [List.isEmpty_cons, Bool.false_eq_true, ↓reduceIte]
        cases lookup (p :: r) m <;> simp only <;> fin (R_same hR ht)
    | str _ _ | hash _ | set _ | list _ =>
      simp only [zscore, wrong_find hR hk hne ht hnow hf tZSet (by simp [dtOf, dt_ne])
        hnx]
      fin (R_same hR ht)

end

end XixiKV.Datatype
