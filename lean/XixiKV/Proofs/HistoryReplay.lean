import XixiKV.Proofs.EngineMerge.AdoptOpen
import XixiKV.Proofs.EngineBatch
/-!
# Histories, part 1: the replay after a merge when batches were committed above the marker

`MergeOutW` (`Proofs/EngineMerge/Out.lean`) demands that the files with id `≥ n` hold plain records
only (`hiPlain`).  `MergeOutB` below drops that and demands instead `loSealed`: the replay of the
files BELOW the marker leaves nothing parked (every batch below the marker is sealed — true whenever
`Merge` runs, because `Merge` cannot run while a batch holds the DB lock).  Then a sealing record
written after the merge can only seal records parked after the merge, and the two replays
`files < n ++ files ≥ n` and `merged files ++ files ≥ n` treat the files `≥ n` alike — whatever
batch ids those files use (in particular ids that were already used below the marker: `NewBatch`
builds a new snowflake node per batch, so two batches created in the same millisecond share an id).

* `RRel` / `RRel.steps`: the two replays stay related record by record, parked records included;
* `ValRel_mergedB`: the semantic core of C06 for `MergeOutB`;
* `open_after_mergeB`: the adopting `Open` for `MergeOutB` (the proof of `open_after_merge` does not
  use `hiPlain`; it is repeated here for the weaker structure).
-/
namespace XixiKV.Engine.HistP
open XixiKV XixiKV.Frame XixiKV.Record XixiKV.Index XixiKV.Engine XixiKV.Engine.Restart XixiKV.Engine.MergeP
open XixiKV.Adopt

/-! ## `ValRel` for records that are already in both logs -/

theorem ValRel_mono {A1 A2 B1 B2 : List (Record × Pos)} {I1 I2 : Index} (h : ValRel A1 A2 I1 I2)
    (h1 : ∀ x ∈ A1, x ∈ B1) (h2 : ∀ x ∈ A2, x ∈ B2) : ValRel B1 B2 I1 I2 := by
  intro k
  rcases h k with h | ⟨p1, p2, r1, r2, e1, e2, m1, m2, hv⟩
  · exact Or.inl h
  · exact Or.inr ⟨p1, p2, r1, r2, e1, e2, h1 _ m1, h2 _ m2, hv⟩

theorem ValRel_stepIn {A1 A2 : List (Record × Pos)} {I1 I2 : Index} (h : ValRel A1 A2 I1 I2)
    (hs1 : SortedKeys I1) (hs2 : SortedKeys I2) (x : Record × Pos) (m1 : x ∈ A1) (m2 : x ∈ A2) :
    ValRel A1 A2 (updIx I1 x) (updIx I2 x) := by
  intro k
  unfold updIx
  by_cases ht : x.1.typ = 1
  · rw [if_pos ht, if_pos ht, Index.get_erase hs1, Index.get_erase hs2]
    by_cases e : k = x.1.key
    · rw [if_pos e, if_pos e]; exact Or.inl ⟨rfl, rfl⟩
    · rw [if_neg e, if_neg e]; exact h k
  · rw [if_neg ht, if_neg ht, Index.get_put, Index.get_put]
    by_cases e : k = x.1.key
    · rw [if_pos e, if_pos e]
      exact Or.inr ⟨x.2, x.2, x.1, x.1, rfl, rfl, m1, m2, rfl⟩
    · rw [if_neg e, if_neg e]; exact h k

theorem ValRel_stepsIn (L : List (Record × Pos)) : ∀ {A1 A2 : List (Record × Pos)} {I1 I2 : Index},
    ValRel A1 A2 I1 I2 → SortedKeys I1 → SortedKeys I2 → (∀ x ∈ L, x ∈ A1 ∧ x ∈ A2) →
    ValRel A1 A2 (L.foldl updIx I1) (L.foldl updIx I2) ∧ SortedKeys (L.foldl updIx I1) ∧
      SortedKeys (L.foldl updIx I2) := by
  induction L with
  | nil => intro A1 A2 I1 I2 h s1 s2 _; exact ⟨h, s1, s2⟩
  | cons x t ih =>
    intro A1 A2 I1 I2 h s1 s2 hm
    simp only [List.foldl_cons]
    exact ih (ValRel_stepIn h s1 s2 x (hm x (by simp)).1 (hm x (by simp)).2) (SortedKeys_updIx s1 x)
      (SortedKeys_updIx s2 x) (fun y hy => hm y (by simp [hy]))

theorem applyIx_eq_foldl (ix : Index) (l : List (Record × Pos)) : applyIx ix l = l.foldl updIx ix := rfl

theorem pendingGet_filter_self (P : List (Nat × List (Record × Pos))) (b : Nat) :
    pendingGet (P.filter (·.1 ≠ b)) b = [] := by
  induction P with
  | nil => rfl
  | cons y rest ih =>
    obtain ⟨i, l⟩ := y
    by_cases hib : i = b
    · subst hib; simpa using ih
    · simp only [List.filter_cons, hib, ne_eq, not_false_eq_true, decide_true, if_true, pendingGet, if_false, ih]

/-! ## the two replays, related -/

/-- the replay `R1` over the log `A1` and the replay `R2` over the log `A2` agree: key by key the
    indexes point at records with the same value, and under every batch id in `S` exactly the same
    entries are parked, all of them present in both logs -/
structure RRel (S : Nat → Prop) (A1 A2 : List (Record × Pos)) (R1 R2 : Replay) : Prop where
  val : ValRel A1 A2 R1.index R2.index
  s1 : SortedKeys R1.index
  s2 : SortedKeys R2.index
  pend : ∀ id, S id → pendingGet R1.pending id = pendingGet R2.pending id
  mem : ∀ id, S id → ∀ x ∈ pendingGet R1.pending id, x ∈ A1 ∧ x ∈ A2

theorem RRel.step {S : Nat → Prop} {A1 A2 : List (Record × Pos)} {R1 R2 : Replay} (h : RRel S A1 A2 R1 R2)
    (x : Record × Pos) (hx : x.1.batch = 0 ∨ S x.1.batch) :
    RRel S (A1 ++ [x]) (A2 ++ [x]) (replayRec R1 x.1 x.2) (replayRec R2 x.1 x.2) := by
  have hmono : ValRel (A1 ++ [x]) (A2 ++ [x]) R1.index R2.index :=
    ValRel_mono h.val (fun y hy => by simp [hy]) (fun y hy => by simp [hy])
  by_cases h0 : x.1.batch = 0
  · -- a plain record: applied on both sides
    have e1 : replayRec R1 x.1 x.2 = R1.apply x.1.key x.1.typ x.2 := by unfold replayRec; rw [if_pos h0]
    have e2 : replayRec R2 x.1 x.2 = R2.apply x.1.key x.1.typ x.2 := by unfold replayRec; rw [if_pos h0]
    rw [e1, e2]
    refine ⟨?_, ?_, ?_, ?_, ?_⟩
    · rw [Restart.apply_index, Restart.apply_index]
      exact ValRel_stepIn hmono h.s1 h.s2 x (by simp) (by simp)
    · rw [Restart.apply_index]; exact SortedKeys_updIx h.s1 x
    · rw [Restart.apply_index]; exact SortedKeys_updIx h.s2 x
    · intro id hid; rw [Restart.apply_pending, Restart.apply_pending]; exact h.pend id hid
    · intro id hid y hy
      rw [Restart.apply_pending] at hy
      obtain ⟨m1, m2⟩ := h.mem id hid y hy
      exact ⟨by simp [m1], by simp [m2]⟩
  · have hS : S x.1.batch := by rcases hx with hx | hx; exact absurd hx h0; exact hx
    by_cases h2 : x.1.typ = 2
    · -- a sealing record: the same parked entries are applied on both sides
      rw [replayRec_fin _ _ _ h0 h2, replayRec_fin _ _ _ h0 h2]
      have hL := h.pend _ hS
      have hmemL : ∀ y ∈ pendingGet R1.pending x.1.batch, y ∈ A1 ++ [x] ∧ y ∈ A2 ++ [x] := by
        intro y hy
        obtain ⟨m1, m2⟩ := h.mem _ hS y hy
        exact ⟨by simp [m1], by simp [m2]⟩
      obtain ⟨v, t1, t2⟩ := ValRel_stepsIn (pendingGet R1.pending x.1.batch) hmono h.s1 h.s2 hmemL
      refine ⟨?_, ?_, ?_, ?_, ?_⟩
      · show ValRel _ _ (applyAll _ _).index (applyAll _ _).index
        rw [applyAll_index, applyAll_index, ← hL, applyIx_eq_foldl, applyIx_eq_foldl]
        exact v
      · show SortedKeys (applyAll _ _).index
        rw [applyAll_index, applyIx_eq_foldl]; exact t1
      · show SortedKeys (applyAll _ _).index
        rw [applyAll_index, ← hL, applyIx_eq_foldl]; exact t2
      · intro id hid
        show pendingGet (R1.pending.filter (·.1 ≠ x.1.batch)) id = pendingGet (R2.pending.filter (·.1 ≠ x.1.batch)) id
        by_cases e : id = x.1.batch
        · rw [e, pendingGet_filter_self, pendingGet_filter_self]
        · rw [pendingGet_filter_ne _ _ _ e, pendingGet_filter_ne _ _ _ e]; exact h.pend id hid
      · intro id hid y hy
        have hy' : y ∈ pendingGet (R1.pending.filter (·.1 ≠ x.1.batch)) id := hy
        by_cases e : id = x.1.batch
        · rw [e, pendingGet_filter_self] at hy'; simp at hy'
        · rw [pendingGet_filter_ne _ _ _ e] at hy'
          obtain ⟨m1, m2⟩ := h.mem id hid y hy'
          exact ⟨by simp [m1], by simp [m2]⟩
    · -- a tagged record: parked on both sides
      rw [replayRec_tagged _ _ _ h0 h2, replayRec_tagged _ _ _ h0 h2]
      refine ⟨hmono, h.s1, h.s2, ?_, ?_⟩
      · intro id hid
        show pendingGet (pendingAdd R1.pending x.1.batch (x.1, x.2)) id
          = pendingGet (pendingAdd R2.pending x.1.batch (x.1, x.2)) id
        by_cases e : id = x.1.batch
        · rw [e, pendingGet_add_self, pendingGet_add_self, h.pend _ hS]
        · rw [pendingGet_add_ne _ _ _ _ e, pendingGet_add_ne _ _ _ _ e]; exact h.pend id hid
      · intro id hid y hy
        have hy' : y ∈ pendingGet (pendingAdd R1.pending x.1.batch (x.1, x.2)) id := hy
        by_cases e : id = x.1.batch
        · rw [e, pendingGet_add_self] at hy'
          rcases List.mem_append.mp hy' with hy' | hy'
          · obtain ⟨m1, m2⟩ := h.mem _ hS y hy'
            exact ⟨by simp [m1], by simp [m2]⟩
          · simp only [List.mem_singleton] at hy'
            have : y = x := hy'
            subst this
            exact ⟨by simp, by simp⟩
        · rw [pendingGet_add_ne _ _ _ _ e] at hy'
          obtain ⟨m1, m2⟩ := h.mem id hid y hy'
          exact ⟨by simp [m1], by simp [m2]⟩

theorem RRel.steps {S : Nat → Prop} (W : List (Record × Pos)) : ∀ {A1 A2 : List (Record × Pos)} {R1 R2 : Replay},
    RRel S A1 A2 R1 R2 → (∀ x ∈ W, x.1.batch = 0 ∨ S x.1.batch) →
    RRel S (A1 ++ W) (A2 ++ W) (replayFrom R1 W) (replayFrom R2 W) := by
  induction W with
  | nil => intro A1 A2 R1 R2 h _; simpa [replayFrom_nil] using h
  | cons x t ih =>
    intro A1 A2 R1 R2 h hW
    have := ih (h.step x (hW x (by simp))) (fun y hy => hW y (by simp [hy]))
    rw [replayFrom_cons, replayFrom_cons]
    simpa [List.append_assoc] using this

/-- replaying plain records parks nothing -/
theorem replayFrom_plain_pending (W : List (Record × Pos)) : ∀ (R : Replay), (∀ x ∈ W, x.1.batch = 0) →
    (replayFrom R W).pending = R.pending := by
  induction W with
  | nil => intro R _; rfl
  | cons x t ih =>
    intro R h
    rw [replayFrom_cons, ih _ (fun y hy => h y (by simp [hy]))]
    unfold replayRec
    rw [if_pos (h x (by simp)), Restart.apply_pending]

/-! ## `MergeOutB`: what a successful `Merge` leaves behind, batches above the marker allowed -/

/-- nothing is parked after replaying `l`: every batch in `l` is sealed -/
def NoPend (l : List (Record × Pos)) : Prop := ∀ id, pendingGet (replayLog l).pending id = []

/-- `MergeOutW` without `hiPlain`, with `loSealed`: the files with id `≥ n` may hold anything the
    engine writes (plain records, batches with any ids); below the marker every batch is sealed -/
structure MergeOutB (w : World) (dir : String) (g : GDir) (n : Nat) (gm vis : GDir) : Prop where
  mdir : ∃ md, w.get (mergeDirName dir) = some md ∧ Matches md.data gm ∧ md.hint = some (hintBytes gm) ∧
    md.marker = some (markerBytes n gm.length)
  ids : gm.map (·.1) = List.range gm.length
  count : 0 < gm.length ∧ gm.length ≤ n
  small : n < 2 ^ 32
  perm : vis.Perm (lo g n)
  live : (logOf gm).map (·.1) = ((logOf vis).filter (isLive (scanIndex g n))).map (fun x => plainOf x.1)
  loSealed : NoPend (logOf (lo g n))
  hiNe : ∃ x ∈ g, n ≤ x.1

/-- `MergeOutW` (files `≥ n` plain) for a ghost directory whose whole log is sealed -/
theorem MergeOutW.toB {w : World} {dir : String} {g : GDir} {n : Nat} {gm vis : GDir}
    (h : MergeOutW w dir g n gm vis) (hasc : AscIds g) (hnp : NoPend (logOf g)) : MergeOutB w dir g n gm vis := by
  refine ⟨h.mdir, h.ids, h.count, h.small, h.perm, h.live, ?_, h.hiNe⟩
  intro id
  have hsplit : logOf g = logOf (lo g n) ++ logOf (hi g n) := by
    rw [← Restart.logOf_append, lo_append_hi hasc]
  have := hnp id
  rw [hsplit, replayLog_eq, replayFrom_append, replayFrom_plain_pending _ _ (logOf_plain h.hiPlain)] at this
  exact this

theorem lo_lo (g : GDir) (n : Nat) : lo (lo g n ++ [(n, [])]) n = lo g n := by
  unfold lo
  rw [List.filter_append, List.filter_filter]
  simp

theorem hi_lo (g : GDir) (n : Nat) : hi (lo g n ++ [(n, [])]) n = [(n, [])] := by
  unfold hi lo
  rw [List.filter_append, List.filter_filter]
  have : List.filter (fun (a : Nat × GFile) => decide (n ≤ a.1) && decide (a.1 < n)) g = [] := by
    rw [List.filter_eq_nil_iff]
    intro a _
    simp only [Bool.and_eq_true, decide_eq_true_eq]
    omega
  rw [this]
  simp

/-- below the marker `MergeOutB` is `MergeOutW` (for the ghost directory cut at the marker) -/
theorem MergeOutB.toW {w : World} {dir : String} {g : GDir} {n : Nat} {gm vis : GDir}
    (h : MergeOutB w dir g n gm vis) : MergeOutW w dir (lo g n ++ [(n, [])]) n gm vis := by
  refine ⟨h.mdir, h.ids, h.count, h.small, by rw [lo_lo]; exact h.perm, ?_, ?_, ⟨(n, []), by simp, Nat.le_refl _⟩⟩
  · unfold scanIndex; rw [lo_lo]; exact h.live
  · rw [hi_lo]
    intro x hx r hr
    simp only [List.mem_singleton] at hx
    rw [hx] at hr
    simp at hr

theorem AscIds_lo_cut {g : GDir} (hasc : AscIds g) (n : Nat) : AscIds (lo g n ++ [(n, [])]) := by
  unfold AscIds
  rw [List.pairwise_append]
  refine ⟨List.Pairwise.sublist (lo_sublist g n) hasc, by simp, ?_⟩
  intro a ha b hb
  simp only [List.mem_singleton] at hb
  rw [hb]
  have := (List.mem_filter.mp ha).2
  simpa using this

theorem MergeOutB.merged {w : World} {dir : String} {g : GDir} {n : Nat} {gm vis : GDir}
    (h : MergeOutB w dir g n gm vis) (hasc : AscIds g) (hrecs : ∀ x ∈ g, ∀ r ∈ x.2, RecOK r) :
    Merged gm ∧
    (∀ k p, Index.get (scanIndex g n) k = some p →
        ∃ r p2, (r, p) ∈ logOf (lo g n) ∧ r.key = k ∧ (plainOf r, p2) ∈ logOf gm) ∧
    (∀ k, Index.get (scanIndex g n) k = none → ∀ x ∈ logOf gm, x.1.key ≠ k) := by
  have hrecs' : ∀ x ∈ lo g n ++ [(n, [])], ∀ r ∈ x.2, RecOK r := by
    intro x hx r hr
    rcases List.mem_append.mp hx with hx | hx
    · exact hrecs x ((lo_sublist g n).subset hx) r hr
    · simp only [List.mem_singleton] at hx; rw [hx] at hr; simp at hr
  have := h.toW.merged (AscIds_lo_cut hasc n) hrecs'
  unfold scanIndex at this ⊢
  rw [lo_lo] at this
  exact this

/-- **the semantic core of C06 with batches above the marker**: replaying `merged files ++ files ≥ n`
    relates, key by key, to replaying `files < n ++ files ≥ n`; and both replays park the same
    entries under every batch id -/
theorem ValRel_mergedB {w : World} {dir : String} {g : GDir} {n : Nat} {gm vis : GDir}
    (h : MergeOutB w dir g n gm vis) (hasc : AscIds g) (hrecs : ∀ x ∈ g, ∀ r ∈ x.2, RecOK r) :
    ValRel (logOf g) (logOf (gm ++ hi g n)) (replayLog (logOf g)).index (replayLog (logOf (gm ++ hi g n))).index ∧
    ∀ id, pendingGet (replayLog (logOf g)).pending id = pendingGet (replayLog (logOf (gm ++ hi g n))).pending id := by
  obtain ⟨hM, hcov1, hcov2⟩ := h.merged hasc hrecs
  obtain ⟨hg1, hg2⟩ := hM.get
  -- base: files < n against the merged files
  have hbase : ValRel (logOf (lo g n)) (logOf gm) (scanIndex g n) (replayLog (logOf gm)).index := by
    intro k
    cases hk : Index.get (scanIndex g n) k with
    | none =>
      left
      exact ⟨rfl, hg2 k (hcov2 k hk)⟩
    | some p =>
      right
      obtain ⟨r, p2, hr, hkey, hm⟩ := hcov1 k p hk
      refine ⟨p, p2, r, plainOf r, rfl, ?_, hr, hm, rfl⟩
      have := hg1 _ hm
      rw [show (plainOf r).key = r.key from rfl, hkey] at this
      exact this
  have hpend2 : (replayLog (logOf gm)).pending = [] := by
    rw [replayLog_eq, replayFrom_plain_pending _ _ (fun x hx => (hM.plain x hx).1)]
    rfl
  have hrel0 : RRel (fun _ => True) (logOf (lo g n)) (logOf gm) (replayLog (logOf (lo g n))) (replayLog (logOf gm)) :=
    ⟨hbase, replay_sorted _, replay_sorted _,
      fun id _ => by rw [h.loSealed id, hpend2]; rfl,
      fun id _ x hx => by rw [h.loSealed id] at hx; simp at hx⟩
  have hrel := hrel0.steps (logOf (hi g n)) (fun _ _ => Or.inr trivial)
  have hsplit : logOf g = logOf (lo g n) ++ logOf (hi g n) := by
    rw [← Restart.logOf_append, lo_append_hi hasc]
  have e1 : replayLog (logOf g) = replayFrom (replayLog (logOf (lo g n))) (logOf (hi g n)) := by
    rw [hsplit, replayLog_eq, replayFrom_append]; rfl
  have e2 : replayLog (logOf (gm ++ hi g n)) = replayFrom (replayLog (logOf gm)) (logOf (hi g n)) := by
    rw [Restart.logOf_append, replayLog_eq, replayFrom_append]; rfl
  rw [e1, e2, Restart.logOf_append, hsplit]
  exact ⟨hrel.val, fun id => hrel.pend id trivial⟩

/-! ## the adopting `Open` for `MergeOutB` -/

/-- `open_after_merge` for `MergeOutB` (the original proof does not use `hiPlain`) -/
theorem open_after_mergeB (s0 : St) (dir : String) (cfg : Cfg) (d : DirSt) (g : GDir) (n a : Nat) (gm vis : GDir)
    (hdb : s0.db = none) (hcfg : cfg.Valid) (hd : s0.world.get dir = some d) (hl : d.locked = false)
    (hmt : Matches d.data g) (hasc : AscIds g) (hrecs : ∀ x ∈ g, ∀ r ∈ x.2, RecOK r)
    (hact : (g.getLast?).map (·.1) = some a)
    (hmo : MergeOutB s0.world dir g n gm vis) (hF : HintFits gm) :
    ∃ md maxFid W', s0.world.get (mergeDirName dir) = some md ∧
      openDB s0 dir cfg = (⟨W', some (hintDB cfg dir a (gm ++ hi g n) (sizeSum (logOf (hi gm maxFid))))⟩, .ok) ∧
      W'.get dir = some ⟨md.data ++ d.data.filter (fun x => n ≤ x.1), some (hintBytes gm), d.marker, true⟩ ∧
      W'.get (mergeDirName dir) = none ∧
      (∀ nm, nm ≠ dir → nm ≠ mergeDirName dir → W'.get nm = s0.world.get nm) ∧
      Matches (md.data ++ d.data.filter (fun x => n ≤ x.1)) (gm ++ hi g n) ∧
      Inv ⟨W', some (hintDB cfg dir a (gm ++ hi g n) (sizeSum (logOf (hi gm maxFid))))⟩
        (hintDB cfg dir a (gm ++ hi g n) (sizeSum (logOf (hi gm maxFid)))) (gm ++ hi g n) ∧
      Merged gm := by
  obtain ⟨md, hmd, hmm, hhint, hmk⟩ := hmo.mdir
  obtain ⟨hM, _, _⟩ := hmo.merged hasc hrecs
  have hne := mname_ne dir
  have hgmasc : AscIds gm := by
    have : (gm.map (·.1)).Pairwise (· < ·) := by rw [hmo.ids]; exact List.pairwise_lt_range
    exact List.pairwise_map.mp this
  have hDasc : AscF d.data := Matches_AscF hmt hasc
  have hMasc : AscF md.data := Matches_AscF hmm hgmasc
  have hmids : md.data.map (·.1) = List.range gm.length := by rw [Matches_ids hmm]; exact hmo.ids
  have hadopt := adopt_merged s0.world dir d md n gm.length hd hmd hDasc hMasc hmids hmk hmo.count.1 hmo.count.2 hmo.small
  have hth : tgtHint d md = some (hintBytes gm) := by unfold tgtHint; rw [hhint]
  rw [hth] at hadopt
  obtain ⟨maxFid, hlh, hmax1, hmax2⟩ := loadHint_eq_replay gm hM hF
  -- maxFid is the id of a merged file, hence below the count
  have hmaxlt : maxFid < gm.length := by
    rcases hmax2 with h0 | ⟨x, hx, hfx⟩
    · rw [h0]; exact hmo.count.1
    · obtain ⟨y, hy, hz⟩ := mem_logOf.mp hx
      have hf := posAll_fid C y.1 _ _ x.2 (List.of_mem_zip hz).2
      have : y.1 ∈ gm.map (·.1) := List.mem_map.mpr ⟨y, hy, rfl⟩
      rw [hmo.ids] at this
      have := List.mem_range.mp this
      omega
  have hmin : min maxFid n = maxFid := by have := hmo.count.2; omega
  have hhiM : Matches (d.data.filter (fun x => n ≤ x.1)) (hi g n) :=
    Matches_filter (fun i => decide (n ≤ i)) hmt
  have hhirecs : ∀ x ∈ hi g n, ∀ r ∈ x.2, RecOK r := fun x hx => hrecs x ((hi_sublist g n).subset hx)
  have hhige : ∀ x ∈ hi g n, maxFid ≤ x.1 := by
    intro x hx
    have := (List.mem_filter.mp hx).2
    simp only [decide_eq_true_eq] at this
    have := hmo.count.2
    omega
  have hload := loadIndex_after_hint gm (hi g n) md.data (d.data.filter (fun x => n ≤ x.1)) maxFid hM hgmasc hmm hhiM
    hhirecs hhige
  have hmdne : md.data ≠ [] := by
    intro e
    have h1 := congrArg List.length hmids
    rw [e, List.length_map, List.length_range] at h1
    have h2 := hmo.count.1
    simp only [List.length_nil] at h1; omega
  have hopen := openDB_hint s0 dir cfg d
    ⟨md.data ++ d.data.filter (fun x => n ≤ x.1), some (hintBytes gm), d.marker, d.locked⟩
    ((s0.world.set dir ⟨md.data ++ d.data.filter (fun x => n ≤ x.1), some (hintBytes gm), d.marker, d.locked⟩).remove
      (mergeDirName dir)) n maxFid (replayLog (logOf gm))
    (bump (replayLog (logOf (gm ++ hi g n))) (sizeSum (logOf (hi gm maxFid))))
    (md.data ++ d.data.filter (fun x => n ≤ x.1))
    hdb (by omega) hd hl hadopt (by have := hmo.count; omega)
    (by rw [get_remove_ne _ _ _ hne.symm, get_set_self]) hlh
    (by simp [hmdne]) (by rw [hmin]; exact hload)
  have hmtAll : Matches (md.data ++ d.data.filter (fun x => n ≤ x.1)) (gm ++ hi g n) := Matches_append hmm hhiM
  obtain ⟨hhine, hhilast⟩ := hi_getLast hasc hact hmo.hiNe
  have hactAll : ((gm ++ hi g n).getLast?).map (·.1) = some a := by
    rw [getLast_append_ne _ _ hhine]; exact hhilast
  have hdbeq : mkDB cfg dir (bump (replayLog (logOf (gm ++ hi g n))) (sizeSum (logOf (hi gm maxFid))))
      (md.data ++ d.data.filter (fun x => n ≤ x.1))
      = hintDB cfg dir a (gm ++ hi g n) (sizeSum (logOf (hi gm maxFid))) := by
    unfold mkDB hintDB
    rw [activeId_of_getLast (by rw [Matches_getLast hmtAll]; exact hactAll)]
    rfl
  rw [hdbeq] at hopen
  have hrecsAll : ∀ x ∈ gm ++ hi g n, ∀ r ∈ x.2, RecOK r := by
    intro x hx
    rcases List.mem_append.mp hx with hx | hx
    · exact hM.recs x hx
    · exact hhirecs x hx
  refine ⟨md, maxFid, _, hmd, hopen, ?_, ?_, ?_, hmtAll, ?_, hM⟩
  · rw [get_set_self, hl]
  · rw [get_set_ne _ _ _ _ hne, get_remove_self]
  · intro nm h1 h2
    rw [get_set_ne _ _ _ _ h1, get_remove_ne _ _ _ h2, get_set_ne _ _ _ _ h1]
  · refine ⟨⟨_, get_set_self _ _ _, rfl, hmtAll⟩, AscIds_merged_hi hasc hmo.ids hmo.count.2, hactAll, hrecsAll, rfl,
      replay_sorted _, ?_, rfl⟩
    have := replay_counters (logOf (gm ++ hi g n))
    show (replayLog (logOf (gm ++ hi g n))).total + _
      = (replayLog (logOf (gm ++ hi g n))).reclaim + _ + liveBytes (replayLog (logOf (gm ++ hi g n))).index
    omega

end XixiKV.Engine.HistP
