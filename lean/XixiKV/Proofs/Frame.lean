import XixiKV.Model.Frame
import XixiKV.Proofs.Bytes
/-! Framing proofs: what the writer appends is read back, at every offset and every length. -/
namespace XixiKV.Frame
open XixiKV
variable (C : Codec)

theorem hH : H = 7 := rfl
theorem hBS : BS = 32768 := rfl

@[simp] theorem size_zeros (n : Nat) : (zeros n).size = n := by simp [zeros, ByteArray.size]

theorem mod_lt_BS (n : Nat) : n % BS < BS := Nat.mod_lt _ (by decide)

/-- a chunk that fits into its block decodes, whatever surrounds it (sequential reader) -/
theorem chunkSeq_enc (tol : Bool) (pre post p : ByteArray) (t : CT) (block off : Nat)
    (hpre : pre.size = block * BS + off) (hfit : off + H + p.size ≤ BS) (hp : p.size ≤ 65535) (ht : t < 256) :
    chunkSeq C tol (pre ++ C.enc t p ++ post) block off = .ok (p, t) := by
  unfold chunkSeq
  have hs := C.size_enc t p
  simp only [ByteArray.size_append, hs, hpre]
  have hH : H = 7 := rfl
  rw [if_neg (by omega)]
  rw [if_neg (by simp only [Nat.min_def]; split <;> omega)]
  rw [← hpre, extract_mid _ _ _ _ (by simp only [hs, hpre, Nat.min_def]; split <;> omega)]
  rw [C.dec_enc t p _ hp ht]

/-- the same for the position-based reader -/
theorem chunkRand_enc (pre post p : ByteArray) (t : CT) (block off : Nat)
    (hpre : pre.size = block * BS + off) (hfit : off + H + p.size ≤ BS) (hp : p.size ≤ 65535) (ht : t < 256) :
    chunkRand C (pre ++ C.enc t p ++ post) block off = .ok (p, t) := by
  unfold chunkRand
  have hs := C.size_enc t p
  simp only [ByteArray.size_append, hs, hpre]
  have hH : H = 7 := rfl
  rw [if_neg (by omega)]
  rw [if_neg (by simp only [Nat.min_def]; split <;> omega)]
  rw [← hpre, extract_mid _ _ _ _ (by simp only [hs, hpre, Nat.min_def]; split <;> omega)]
  rw [C.dec_enc t p _ hp ht]

/-- total size of a run of rest chunks -/
theorem size_restChunks (d : ByteArray) (fuel : Nat) (hd : 0 < d.size) (hf : d.size ≤ fuel) :
    ∃ n, 0 < n ∧ (restChunks C d fuel).size = n * H + d.size := by
  induction fuel generalizing d with
  | zero => omega
  | succ m ih =>
    unfold restChunks
    split
    · exact ⟨1, by omega, by rw [C.size_enc]; omega⟩
    · rename_i hgt
      have hH := hH; have hBS := hBS
      obtain ⟨n, hn, hs⟩ := ih (d.extract (BS - H) d.size)
        (by simp [ByteArray.size_extract]; omega) (by simp [ByteArray.size_extract]; omega)
      refine ⟨n + 1, by omega, ?_⟩
      rw [ByteArray.size_append, C.size_enc, hs]
      simp [ByteArray.size_extract, Nat.add_mul]; omega

/-- position-based read of a block-aligned run of Middle…Last chunks gives back the bytes -/
theorem readLoop_rest (d : ByteArray) (fuel : Nat) :
    ∀ (pre post : ByteArray) (block rf : Nat), pre.size = block * BS → 0 < d.size → d.size ≤ fuel →
      d.size ≤ rf →
      readLoop C (pre ++ restChunks C d fuel ++ post) block 0 rf = .ok d := by
  induction fuel generalizing d with
  | zero => intro pre post block rf _ h1 h2; omega
  | succ n ih =>
    intro pre post block rf hpre hd hf hrf
    have hH : H = 7 := rfl
    have hBS : BS = 32768 := rfl
    cases rf with
    | zero => omega
    | succ r =>
    unfold restChunks
    split
    · rename_i hle
      unfold readLoop
      rw [chunkRand_enc C pre post d 3 block 0 (by omega) (by omega) (by omega) (by decide)]
      simp
    · rename_i hgt
      unfold readLoop
      rw [← ByteArray.append_assoc]
      rw [ByteArray.append_assoc (a := pre ++ _)]
      rw [chunkRand_enc C pre _ (d.extract 0 (BS - H)) 2 block 0 (by omega)
        (by simp [ByteArray.size_extract]; omega) (by simp [ByteArray.size_extract]; omega) (by decide)]
      simp only []
      rw [if_neg (by decide)]
      rw [← ByteArray.append_assoc]
      have hsz : (pre ++ C.enc 2 (d.extract 0 (BS - H))).size = (block + 1) * BS := by
        rw [ByteArray.size_append, C.size_enc, ByteArray.size_extract, hpre]
        simp only [Nat.min_def, Nat.add_mul]; split <;> omega
      rw [ih (d.extract (BS - H) d.size) _ post (block+1) r hsz
        (by simp [ByteArray.size_extract]; omega) (by simp [ByteArray.size_extract]; omega)
        (by simp [ByteArray.size_extract]; omega)]
      simp only []
      congr 1
      rw [ByteArray.extract_append_extract]
      simp

/-- sequential read of a block-aligned run of Middle…Last chunks -/
theorem nextAt_rest (tol : Bool) (d : ByteArray) (fuel : Nat) :
    ∀ (pre post : ByteArray) (block rf : Nat), pre.size = block * BS → 0 < d.size → d.size ≤ fuel →
      d.size ≤ rf →
      ∃ b' o', nextAt C tol (pre ++ restChunks C d fuel ++ post) block 0 rf
          = .ok (d, (restChunks C d fuel).size, b', o') ∧
        b' * BS + o' = pre.size + (restChunks C d fuel).size ∧ 0 < o' ∧ o' ≤ BS := by
  induction fuel generalizing d with
  | zero => intro pre post block rf _ h1 h2; omega
  | succ n ih =>
    intro pre post block rf hpre hd hf hrf
    have hH := hH; have hBS := hBS
    cases rf with
    | zero => omega
    | succ r =>
    unfold restChunks
    split
    · rename_i hle
      refine ⟨block, H + d.size, ?_, ?_, by omega, by omega⟩
      · unfold nextAt
        rw [chunkSeq_enc C tol pre post d 3 block 0 (by omega) (by omega) (by omega) (by decide)]
        simp [C.size_enc]
      · rw [C.size_enc, hpre]
    · rename_i hgt
      have hsz : (pre ++ C.enc 2 (d.extract 0 (BS - H))).size = (block + 1) * BS := by
        rw [ByteArray.size_append, C.size_enc, ByteArray.size_extract, hpre]
        simp only [Nat.min_def, Nat.add_mul]; split <;> omega
      obtain ⟨b', o', hread, hend, ho1, ho2⟩ := ih (d.extract (BS - H) d.size)
        (pre ++ C.enc 2 (d.extract 0 (BS - H))) post (block+1) r hsz
        (by simp [ByteArray.size_extract]; omega) (by simp [ByteArray.size_extract]; omega)
        (by simp [ByteArray.size_extract]; omega)
      refine ⟨b', o', ?_, ?_, ho1, ho2⟩
      · unfold nextAt
        rw [← ByteArray.append_assoc, ByteArray.append_assoc (a := pre ++ _)]
        rw [chunkSeq_enc C tol pre _ (d.extract 0 (BS - H)) 2 block 0 (by omega)
          (by simp [ByteArray.size_extract]; omega) (by simp [ByteArray.size_extract]; omega) (by decide)]
        simp only []
        rw [if_neg (by decide)]
        rw [← ByteArray.append_assoc, hread]
        simp only [ByteArray.size_append, C.size_enc]
        congr 2
        · rw [ByteArray.extract_append_extract]; simp
      · rw [hend]; simp only [ByteArray.size_append]; omega

/-- sequential read of one whole record whose first chunk starts at (block, off), off + H < BS -/
theorem nextAt_rec (tol : Bool) (d pre post : ByteArray) (block off rf : Nat)
    (hpre : pre.size = block * BS + off) (hoff : off + H < BS) (hd : 0 < d.size) (hrf : d.size < rf) :
    ∃ b' o', nextAt C tol (pre ++ recChunks C d off ++ post) block off rf
        = .ok (d, (recChunks C d off).size, b', o') ∧
      b' * BS + o' = pre.size + (recChunks C d off).size ∧ 0 < o' ∧ o' ≤ BS := by
  have hH := hH; have hBS := hBS
  cases rf with
  | zero => omega
  | succ r =>
  unfold recChunks
  simp only []
  split
  · rename_i hle
    refine ⟨block, off + H + d.size, ?_, ?_, by omega, by omega⟩
    · unfold nextAt
      rw [chunkSeq_enc C tol pre post d 0 block off hpre (by omega) (by omega) (by decide)]
      simp [C.size_enc]
    · rw [C.size_enc, hpre]; omega
  · rename_i hgt
    have hcap : (d.extract 0 (BS - off - H)).size = BS - off - H := by
      simp [ByteArray.size_extract]; omega
    have hsz : (pre ++ C.enc 1 (d.extract 0 (BS - off - H))).size = (block + 1) * BS := by
      rw [ByteArray.size_append, C.size_enc, hcap, hpre]
      simp only [Nat.add_mul]; omega
    obtain ⟨b', o', hread, hend, ho1, ho2⟩ := nextAt_rest C tol (d.extract (BS - off - H) d.size) d.size
      (pre ++ C.enc 1 (d.extract 0 (BS - off - H))) post (block+1) r hsz
      (by simp [ByteArray.size_extract]; omega) (by simp [ByteArray.size_extract])
      (by simp [ByteArray.size_extract]; omega)
    refine ⟨b', o', ?_, ?_, ho1, ho2⟩
    · unfold nextAt
      rw [← ByteArray.append_assoc, ByteArray.append_assoc (a := pre ++ _)]
      rw [chunkSeq_enc C tol pre _ (d.extract 0 (BS - off - H)) 1 block off hpre
        (by omega) (by omega) (by decide)]
      simp only []
      rw [if_neg (by decide)]
      rw [← ByteArray.append_assoc, hread]
      simp only [ByteArray.size_append, C.size_enc]
      congr 2
      · rw [ByteArray.extract_append_extract]; simp
    · rw [hend]; simp only [ByteArray.size_append]; omega

/-- position-based read of one whole record whose first chunk starts at (block, off) -/
theorem readLoop_rec (d pre post : ByteArray) (block off rf : Nat)
    (hpre : pre.size = block * BS + off) (hoff : off + H < BS) (hd : 0 < d.size) (hrf : d.size < rf) :
    readLoop C (pre ++ recChunks C d off ++ post) block off rf = .ok d := by
  have hH := hH; have hBS := hBS
  cases rf with
  | zero => omega
  | succ r =>
  unfold recChunks
  simp only []
  split
  · rename_i hle
    unfold readLoop
    rw [chunkRand_enc C pre post d 0 block off hpre (by omega) (by omega) (by decide)]
    simp
  · rename_i hgt
    have hcap : (d.extract 0 (BS - off - H)).size = BS - off - H := by
      simp [ByteArray.size_extract]; omega
    have hsz : (pre ++ C.enc 1 (d.extract 0 (BS - off - H))).size = (block + 1) * BS := by
      rw [ByteArray.size_append, C.size_enc, hcap, hpre]
      simp only [Nat.add_mul]; omega
    unfold readLoop
    rw [← ByteArray.append_assoc, ByteArray.append_assoc (a := pre ++ _)]
    rw [chunkRand_enc C pre _ (d.extract 0 (BS - off - H)) 1 block off hpre
      (by omega) (by omega) (by decide)]
    simp only []
    rw [if_neg (by decide)]
    rw [← ByteArray.append_assoc]
    rw [readLoop_rest C (d.extract (BS - off - H) d.size) d.size _ post (block+1) r hsz
      (by simp [ByteArray.size_extract]; omega) (by simp [ByteArray.size_extract])
      (by simp [ByteArray.size_extract]; omega)]
    simp only []
    congr 1
    rw [ByteArray.extract_append_extract]; simp

end XixiKV.Frame

namespace XixiKV.Frame
open XixiKV
variable (C : Codec)

theorem size_split (n : Nat) : n = (n / BS) * BS + n % BS := by
  have := Nat.div_add_mod n BS; rw [Nat.mul_comm] at this; omega

theorem normO_lt (o : Nat) (ho : o < BS) : normO o + H < BS := by
  have hH := hH; have hBS := hBS
  simp only [normO]; split <;> omega

/-- size of the chunks of one record: payload plus one header per chunk -/
theorem size_recChunks (d : ByteArray) (o : Nat) (hd : 0 < d.size) (ho : o + H < BS) :
    ∃ n, 0 < n ∧ (recChunks C d o).size = n * H + d.size := by
  have hH := hH; have hBS := hBS
  unfold recChunks; simp only []
  split
  · exact ⟨1, by omega, by rw [C.size_enc]; omega⟩
  · rename_i hgt
    obtain ⟨n, hn, hs⟩ := size_restChunks C (d.extract (BS - o - H) d.size) d.size
      (by simp [ByteArray.size_extract]; omega) (by simp [ByteArray.size_extract])
    refine ⟨n + 1, by omega, ?_⟩
    rw [ByteArray.size_append, C.size_enc, hs]
    simp [ByteArray.size_extract, Nat.add_mul]; omega

theorem writeRec_pos (d : ByteArray) (o : Nat) (hd : 0 < d.size) :
    writeRec C d o = zeros (padOf o) ++ recChunks C d (normO o) := by
  unfold writeRec; rw [if_neg (by omega)]

/-- the file after the pad bytes ends exactly where the record starts -/
theorem size_pad (f : ByteArray) :
    (f ++ zeros (padOf (f.size % BS))).size
      = normB (f.size / BS) (f.size % BS) * BS + normO (f.size % BS) := by
  have hH := hH; have hBS := hBS
  have hm := mod_lt_BS f.size
  have hs := size_split f.size
  simp only [ByteArray.size_append, size_zeros, padOf, normB, normO]
  split <;> simp [Nat.add_mul] <;> omega

/-- **sequential read-back through the writer's padding rule**: for every file size, every
    non-empty payload and every suffix after it, the sequential reader started at the normalised
    position returns the payload, the occupied size, and an end position equal to the new size -/
theorem nextAt_write (tol : Bool) (d f post : ByteArray) (rf : Nat) (hd : 0 < d.size) (hrf : d.size < rf) :
    ∃ b' o', nextAt C tol (appendRec C f d ++ post) (endB f) (endO f) rf
        = .ok (d, (posOf C 0 f.size d).size, b', o') ∧
      b' * BS + o' = (appendRec C f d).size ∧ 0 < o' ∧ o' ≤ BS := by
  have hm := mod_lt_BS f.size
  unfold appendRec
  simp only [posOf]
  rw [writeRec_pos C d _ hd, if_neg (by omega), ← ByteArray.append_assoc]
  obtain ⟨b', o', hread, hend, h1, h2⟩ :=
    nextAt_rec C tol d (f ++ zeros (padOf (f.size % BS))) post (normB (f.size / BS) (f.size % BS))
      (normO (f.size % BS)) rf (size_pad f) (normO_lt _ hm) hd hrf
  exact ⟨b', o', hread, by rw [hend]; simp only [ByteArray.size_append], h1, h2⟩

/-- **position-based read-back**: the position reported by the writer resolves to the payload,
    whatever is appended later (`post`) -/
theorem readAt_write (d f post : ByteArray) (fid : Nat) (hd : 0 < d.size) :
    readAt C (appendRec C f d ++ post) (posOf C fid f.size d).block (posOf C fid f.size d).off = .ok d := by
  have hH := hH; have hBS := hBS
  have hm := mod_lt_BS f.size
  have hs := size_split f.size
  obtain ⟨n, hn, hsz⟩ := size_recChunks C d (normO (f.size % BS)) hd (normO_lt _ hm)
  have hpad := size_pad f
  unfold readAt
  have hg : (appendRec C f d ++ post).size
      = normB (f.size / BS) (f.size % BS) * BS + normO (f.size % BS) + (n * H + d.size) + post.size := by
    unfold appendRec
    rw [writeRec_pos C d _ hd, ← ByteArray.append_assoc, ByteArray.size_append, ByteArray.size_append, hpad, hsz]
  have hblk : ¬ (posOf C fid f.size d).block > (appendRec C f d ++ post).size / BS := by
    simp only [posOf]
    rw [hg]
    have : normB (f.size / BS) (f.size % BS) ≤
        (normB (f.size / BS) (f.size % BS) * BS + normO (f.size % BS) + (n * H + d.size) + post.size) / BS := by
      rw [Nat.le_div_iff_mul_le (by decide)]; omega
    omega
  rw [if_neg hblk]
  simp only [posOf]
  unfold appendRec
  rw [writeRec_pos C d _ hd, ← ByteArray.append_assoc]
  exact readLoop_rec C d _ post _ _ _ hpad (normO_lt _ hm) hd (by
    rw [ByteArray.size_append, ByteArray.size_append, hpad, hsz]; omega)

theorem end_after (b' o' s : Nat) (h : b' * BS + o' = s) (h1 : 0 < o') (h2 : o' ≤ BS) :
    rnormB b' o' = normB (s / BS) (s % BS) ∧ rnormO o' = normO (s % BS) := by
  have hH := hH; have hBS := hBS
  by_cases e : o' = BS
  · subst e
    have hs : s = (b' + 1) * BS := by rw [← h, Nat.add_mul]; omega
    have h3 : s / BS = b' + 1 := by rw [hs]; exact Nat.mul_div_cancel _ (by decide)
    have h4 : s % BS = 0 := by rw [hs]; exact Nat.mul_mod_left _ _
    unfold rnormB rnormO normB normO
    rw [h3, h4]
    simp [hH, hBS]
  · have hlt : o' < BS := by omega
    have h3 : s / BS = b' := by
      rw [← h, Nat.add_comm, Nat.add_mul_div_right _ _ (by decide : 0 < BS), Nat.div_eq_of_lt hlt]; omega
    have h4 : s % BS = o' := by
      rw [← h, Nat.add_comm, Nat.add_mul_mod_self_right, Nat.mod_eq_of_lt hlt]
    simp [rnormB, rnormO, normB, normO, h3, h4]

/-- at the end state of a file the sequential reader reports end of file — for **every** end
    offset, including the last 7 bytes of a block (where the pinned reader ran past EOF) -/
theorem nextAt_end (tol : Bool) (f : ByteArray) (fuel : Nat) :
    nextAt C tol f (endB f) (endO f) (fuel + 1) = .eof := by
  have hH := hH; have hBS := hBS
  have hm := mod_lt_BS f.size
  have hdm := size_split f.size
  unfold nextAt chunkSeq endB endO normB normO
  by_cases h : f.size % BS + H ≥ BS
  · simp only [h, if_true]
    rw [if_pos (by rw [Nat.add_mul]; omega)]
  · simp only [h, if_false]
    by_cases h0 : f.size % BS = 0
    · rw [if_pos (by omega)]
    · rw [if_neg (by omega)]
      rw [if_pos (by simp only [Nat.min_def]; split <;> omega)]

theorem appendAll_split (l : List ByteArray) (g : ByteArray) :
    ∃ tl, appendAll C g l = g ++ tl := by
  induction l generalizing g with
  | nil => exact ⟨ByteArray.empty, by simp [appendAll]⟩
  | cons x xs ihx =>
    obtain ⟨tl, htl⟩ := ihx (appendRec C g x)
    exact ⟨writeRec C x (g.size % BS) ++ tl, by
      simp only [appendAll, List.foldl_cons] at htl ⊢
      rw [htl]; simp only [appendRec, ByteArray.append_assoc]⟩

theorem size_appendRec_gt (f d : ByteArray) (hd : 0 < d.size) : f.size + d.size < (appendRec C f d).size := by
  have hH := hH
  have hm := mod_lt_BS f.size
  obtain ⟨n, hn, hsz⟩ := size_recChunks C d (normO (f.size % BS)) hd (normO_lt _ hm)
  unfold appendRec
  rw [writeRec_pos C d _ hd, ByteArray.size_append, ByteArray.size_append, hsz, hH]
  omega

theorem size_appendAll_ge (ds : List ByteArray) (f : ByteArray) (hpos : ∀ d ∈ ds, 0 < d.size) :
    f.size + ds.length ≤ (appendAll C f ds).size := by
  induction ds generalizing f with
  | nil => simp [appendAll]
  | cons d t ih =>
    have hd := hpos d (by simp)
    have := ih (appendRec C f d) (fun x hx => hpos x (by simp [hx]))
    have h2 := size_appendRec_gt C f d hd
    simp only [appendAll, List.foldl_cons, List.length_cons] at this ⊢
    omega

/-- **whole-file scan**: scanning a file extended by the non-empty records `ds`, from the end
    state of `f`, returns exactly `ds` with the positions the writer reported, then end of file,
    and the reader's valid end is the new file size -/
theorem scanFrom_appendAll (tol : Bool) (fid : Nat) (ds : List ByteArray) :
    ∀ (f : ByteArray) (v n : Nat), (∀ d ∈ ds, 0 < d.size) → ds.length < n →
      scanFrom C tol fid (appendAll C f ds) (endB f) (endO f) v n
        = { recs := ds.zip (posAll C fid f ds),
            validEnd := if ds = [] then v else (appendAll C f ds).size, ok := true } := by
  induction ds with
  | nil =>
    intro f v n _ hn
    cases n with
    | zero => omega
    | succ m =>
      simp only [appendAll, List.foldl_nil, scanFrom]
      rw [nextAt_end C tol f f.size]
      simp [posAll]
  | cons d t ih =>
    intro f v n hpos hn
    have hd : 0 < d.size := hpos d (by simp)
    have ht : ∀ x ∈ t, 0 < x.size := fun x hx => hpos x (by simp [hx])
    cases n with
    | zero => omega
    | succ m =>
    obtain ⟨tail, htail⟩ := appendAll_split C t (appendRec C f d)
    have hg : appendAll C f (d :: t) = appendRec C f d ++ tail := by
      simp only [appendAll, List.foldl_cons] at htail ⊢; exact htail
    have hgsz := size_appendAll_ge C (d :: t) f hpos
    have h2 := size_appendRec_gt C f d hd
    obtain ⟨b', o', hread, hend, h1, h2'⟩ := nextAt_write C tol d f tail ((appendRec C f d ++ tail).size + 1) hd
      (by rw [ByteArray.size_append]; omega)
    simp only [scanFrom]
    rw [hg, hread]
    simp only []
    have hnext := end_after b' o' (appendRec C f d).size hend h1 h2'
    rw [hnext.1, hnext.2]
    have hrec := ih (appendRec C f d) (b' * BS + o') m ht (by simp only [List.length_cons] at hn; omega)
    rw [← hg]
    have hg2 : appendAll C f (d :: t) = appendAll C (appendRec C f d) t := by
      simp [appendAll]
    rw [hg2]
    simp only [endB, endO] at hrec
    rw [hrec]
    simp only [posAll, List.zip_cons_cons, reduceCtorEq, if_false, ScanRes.mk.injEq, and_true]
    refine ⟨?_, ?_⟩
    · simp [endB, endO, posOf]
    · split
      · rename_i h; subst h; simp [appendAll, hend]
      · rfl

/-- scan of a file built from scratch by appends (any number of records, any lengths) -/
theorem scan_build (tol : Bool) (fid : Nat) (ds : List ByteArray) (hpos : ∀ d ∈ ds, 0 < d.size) :
    scan C tol fid (appendAll C ByteArray.empty ds)
      = { recs := ds.zip (posAll C fid ByteArray.empty ds),
          validEnd := (appendAll C ByteArray.empty ds).size, ok := true } := by
  unfold scan
  have h := scanFrom_appendAll C tol fid ds ByteArray.empty 0 ((appendAll C ByteArray.empty ds).size + 1) hpos
    (by have := size_appendAll_ge C ds ByteArray.empty hpos; omega)
  have e0 : endB ByteArray.empty = 0 := by decide
  have e1 : endO ByteArray.empty = 0 := by decide
  rw [e0, e1] at h
  rw [h]
  congr 1
  split
  · rename_i h; subst h; simp [appendAll]
  · rfl

end XixiKV.Frame

namespace XixiKV.Frame
open XixiKV
variable (C : Codec)

theorem size_restChunks_exact (d : ByteArray) (fuel : Nat) (hd : 0 < d.size) (hf : d.size ≤ fuel) :
    (restChunks C d fuel).size = restCount d.size fuel * H + d.size := by
  induction fuel generalizing d with
  | zero => omega
  | succ m ih =>
    unfold restChunks restCount
    have hH := hH; have hBS := hBS
    split
    · rw [C.size_enc]; omega
    · rename_i hgt
      have := ih (d.extract (BS - H) d.size)
        (by simp [ByteArray.size_extract]; omega) (by simp [ByteArray.size_extract]; omega)
      rw [ByteArray.size_append, C.size_enc, this]
      have e : (d.extract (BS - H) d.size).size = d.size - (BS - H) := by
        simp [ByteArray.size_extract]
      rw [e]
      have e2 : (d.extract 0 (BS - H)).size = BS - H := by
        simp [ByteArray.size_extract]; omega
      rw [e2, Nat.add_mul]; omega

/-- the number of bytes a record occupies depends only on its length and start offset -/
theorem size_recChunks_exact (d : ByteArray) (o : Nat) (hd : 0 < d.size) (ho : o + H < BS) :
    (recChunks C d o).size = recCount o d.size * H + d.size := by
  have hH := hH; have hBS := hBS
  unfold recChunks recCount; simp only []
  split
  · rw [C.size_enc]; omega
  · rename_i hgt
    have := size_restChunks_exact C (d.extract (BS - o - H) d.size) d.size
      (by simp [ByteArray.size_extract]; omega) (by simp [ByteArray.size_extract])
    rw [ByteArray.size_append, C.size_enc, this]
    have e : (d.extract (BS - o - H) d.size).size = d.size - (BS - o - H) := by
      simp [ByteArray.size_extract]
    rw [e]
    have e2 : (d.extract 0 (BS - o - H)).size = BS - o - H := by
      simp [ByteArray.size_extract]; omega
    rw [e2, Nat.add_mul]; omega

/-- **geometry is data independent**: position, size and new file size of an append are the
    pure function `geom` of (file size, payload length) -/
theorem posOf_geom (fid : Nat) (f d : ByteArray) :
    let g := geom f.size d.size
    (posOf C fid f.size d) = { fid := fid, block := g.1, off := g.2.1, size := g.2.2.1 } ∧
    (appendRec C f d).size = g.2.2.2 := by
  have hm := mod_lt_BS f.size
  simp only [geom, posOf, occupied]
  by_cases hd : d.size = 0
  · simp [hd, appendRec, writeRec, ByteArray.size_append]
  · have hd' : 0 < d.size := by omega
    rw [if_neg hd, if_neg hd, size_recChunks_exact C d _ hd' (normO_lt _ hm)]
    refine ⟨rfl, ?_⟩
    unfold appendRec
    rw [writeRec_pos C d _ hd', ByteArray.size_append, ByteArray.size_append, size_zeros,
      size_recChunks_exact C d _ hd' (normO_lt _ hm)]
    omega

end XixiKV.Frame
