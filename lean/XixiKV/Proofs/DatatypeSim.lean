import XixiKV.Proofs.Datatype
/-!
# The simulation relation between the store contents and the specification state

`R U M t kv sp`:  `U` is the set of user keys the history may use, `M` the set of sorted-set
members, `t` a strict upper bound of every clock value used so far.

* for every user key `k ∈ U` the record under `k` is what the specification object at `k` says
  (`ObjRel`): nothing / the string record / the metadata record with the object's type, size and
  (for lists) window, whose element records **under the current version** are exactly the
  object's elements;
* no record exists under an internal key `k ‖ version ‖ …` with `version ≥ t` (`fresh`).

Records under stale versions, list cells outside the window, `encodeWithScore` records and records
under keys outside `U` are unconstrained garbage.
-/
namespace XixiKV.Datatype
open XixiKV XixiKV.Varint XixiKV.Record Spec

def HashInv (kv : KV) (k : ByteArray) (ver : Nat) (fs : List (ByteArray × ByteArray)) : Prop :=
  NodupKeys fs ∧ ∀ f, kv.get (hashKey k ver f) = lookup fs f

def SetInv (kv : KV) (k : ByteArray) (ver : Nat) (ms : List ByteArray) : Prop :=
  ms.Nodup ∧ ∀ m, (kv.get (setKey k ver m)).isSome = has ms m

/-- cell `head + i` holds the `i`-th element; the window has moved at most `t` cells either way -/
def ListInv (t : Nat) (kv : KV) (k : ByteArray) (ver head : Nat) (l : List ByteArray) : Prop :=
  initialListMark ≤ head + t ∧ head + l.length ≤ initialListMark + t ∧
  ∀ i, i < l.length → kv.get (listKey k ver (head + i)) = l[i]?

def ZSetInv (M : List ByteArray) (kv : KV) (k : ByteArray) (ver : Nat) (zs : List (ByteArray × Score)) : Prop :=
  NodupKeys zs ∧ (∀ p ∈ zs, p.1 ∈ M ∧ p.2.size ≠ 0) ∧
  ∀ m ∈ M, kv.get (zmemKey k ver m) = (lookup zs m).map scoreBytes

def hashMeta (ver n : Nat) : Meta := ⟨tHash, 0, ver, n, 0, 0⟩
def setMeta (ver n : Nat) : Meta := ⟨tSet, 0, ver, n, 0, 0⟩
def listMeta (ver n head : Nat) : Meta := ⟨tList, 0, ver, n, head, head + n⟩
def zsetMeta (ver n : Nat) : Meta := ⟨tZSet, 0, ver, n, 0, 0⟩

/-- the records of user key `k` represent the object `o` -/
def Stored (M : List ByteArray) (t : Nat) (kv : KV) (k : ByteArray) (o : Obj) : Prop :=
  match o with
  | .str v e => kv.get k = some (encodeStr e v) ∧ e < 2 ^ 63
  | .hash fs => ∃ ver, ver < t ∧ fs.length < 2 ^ 32 ∧
      kv.get k = some (encodeMeta (hashMeta ver fs.length)) ∧ HashInv kv k ver fs
  | .set ms => ∃ ver, ver < t ∧ ms.length < 2 ^ 32 ∧
      kv.get k = some (encodeMeta (setMeta ver ms.length)) ∧ SetInv kv k ver ms
  | .list l => ∃ ver head, ver < t ∧ l.length < 2 ^ 32 ∧
      kv.get k = some (encodeMeta (listMeta ver l.length head)) ∧ ListInv t kv k ver head l
  | .zset zs => ∃ ver, ver < t ∧ zs.length < 2 ^ 32 ∧
      kv.get k = some (encodeMeta (zsetMeta ver zs.length)) ∧ ZSetInv M kv k ver zs

def ObjRel (M : List ByteArray) (t : Nat) (kv : KV) (k : ByteArray) : Option Obj → Prop
  | none => kv.get k = none
  | some o => Stored M t kv k o

/-- the simulation relation -/
structure R (U M : List ByteArray) (t : Nat) (kv : KV) (sp : State) : Prop where
  obj : ∀ k ∈ U, ObjRel M t kv k (sp.find k)
  fresh : ∀ k ∈ U, ∀ ver, t ≤ ver → ver < 2 ^ 64 → ∀ sfx, kv.get (ikey k ver sfx) = none

theorem R_empty (U M : List ByteArray) (t : Nat) : R U M t KV.empty State.empty :=
  ⟨fun _ _ => rfl, fun _ _ _ _ _ _ => rfl⟩

/-- keys whose content `ObjRel … k` talks about -/
def Own (k x : ByteArray) : Prop := x = k ∨ ∃ v s, x = ikey k v s

theorem own_self (k : ByteArray) : Own k k := Or.inl rfl
theorem own_ikey (k : ByteArray) (v : Nat) (s : ByteArray) : Own k (ikey k v s) := Or.inr ⟨v, s, rfl⟩

theorem Stored_frame {M : List ByteArray} {t : Nat} {kv kv' : KV} {k : ByteArray}
    (h : ∀ x, Own k x → kv'.get x = kv.get x) {o : Obj} (ho : Stored M t kv k o) : Stored M t kv' k o := by
  cases o with
  | str v e => exact ⟨by rw [h k (own_self k)]; exact ho.1, ho.2⟩
  | hash fs =>
    obtain ⟨ver, h1, h2, h3, h4, h5⟩ := ho
    exact ⟨ver, h1, h2, by rw [h k (own_self k)]; exact h3, h4,
      fun f => by rw [hashKey, h _ (own_ikey ..)]; exact h5 f⟩
  | set ms =>
    obtain ⟨ver, h1, h2, h3, h4, h5⟩ := ho
    exact ⟨ver, h1, h2, by rw [h k (own_self k)]; exact h3, h4,
      fun m => by rw [setKey, h _ (own_ikey ..)]; exact h5 m⟩
  | list l =>
    obtain ⟨ver, head, h1, h2, h3, h4, h5, h6⟩ := ho
    exact ⟨ver, head, h1, h2, by rw [h k (own_self k)]; exact h3, h4, h5,
      fun i hi => by rw [listKey, h _ (own_ikey ..)]; exact h6 i hi⟩
  | zset zs =>
    obtain ⟨ver, h1, h2, h3, h4, h5, h6⟩ := ho
    exact ⟨ver, h1, h2, by rw [h k (own_self k)]; exact h3, h4, h5,
      fun m hm => by rw [zmemKey, h _ (own_ikey ..)]; exact h6 m hm⟩

theorem ObjRel_frame {M : List ByteArray} {t : Nat} {kv kv' : KV} {k : ByteArray}
    (h : ∀ x, Own k x → kv'.get x = kv.get x) {o : Option Obj} (ho : ObjRel M t kv k o) : ObjRel M t kv' k o := by
  cases o with
  | none => show kv'.get k = none; rw [h k (own_self k)]; exact ho
  | some o => exact Stored_frame h ho

theorem Stored_mono {M : List ByteArray} {t t' : Nat} (htt : t ≤ t') {kv : KV} {k : ByteArray} {o : Obj}
    (ho : Stored M t kv k o) : Stored M t' kv k o := by
  cases o with
  | str v e => exact ho
  | hash fs => obtain ⟨ver, h1, h⟩ := ho; exact ⟨ver, by omega, h⟩
  | set ms => obtain ⟨ver, h1, h⟩ := ho; exact ⟨ver, by omega, h⟩
  | list l =>
    obtain ⟨ver, head, h1, h2, h3, h4, h5, h6⟩ := ho
    exact ⟨ver, head, by omega, h2, h3, by omega, by omega, h6⟩
  | zset zs => obtain ⟨ver, h1, h⟩ := ho; exact ⟨ver, by omega, h⟩

theorem ObjRel_mono {M : List ByteArray} {t t' : Nat} (htt : t ≤ t') {kv : KV} {k : ByteArray} {o : Option Obj}
    (ho : ObjRel M t kv k o) : ObjRel M t' kv k o := by
  cases o with
  | none => exact ho
  | some o => exact Stored_mono htt ho

theorem R_mono {U M : List ByteArray} {t t' : Nat} (htt : t ≤ t') {kv : KV} {sp : State} (h : R U M t kv sp) :
    R U M t' kv sp :=
  ⟨fun k hk => ObjRel_mono htt (h.obj k hk), fun k hk ver hv hv' sfx => h.fresh k hk ver (by omega) hv' sfx⟩

/-- **C19_restart**, in general form: `R` looks at the store only through `get` -/
theorem R_congr {U M : List ByteArray} {t : Nat} {kv kv' : KV} {sp : State} (h : R U M t kv sp)
    (hget : ∀ x, kv'.get x = kv.get x) : R U M t kv' sp :=
  ⟨fun k hk => ObjRel_frame (fun x _ => hget x) (h.obj k hk),
   fun k hk ver hv hv' sfx => by rw [hget]; exact h.fresh k hk ver hv hv' sfx⟩

/-- A command on `k ∈ U` that writes only `k` and internal keys `k ‖ ver ‖ …` with `ver ≤ now`,
    and leaves the records of `k` in the shape of the new specification object, preserves `R`. -/
theorem R_step {U M : List ByteArray} {t : Nat} {kv : KV} {sp : State} (hU : PrefixFree U) (hR : R U M t kv sp)
    {k : ByteArray} (hk : k ∈ U) {now : Nat} (ht : t ≤ now) (hnow : now < 2 ^ 62)
    {kv' : KV} {sp' : State} {ver : Nat} (hver : ver ≤ now)
    (hframe : ∀ x, x ≠ k → (∀ s, x ≠ ikey k ver s) → kv'.get x = kv.get x)
    (hsp : ∀ x, x ≠ k → sp'.find x = sp.find x)
    (hobj : ObjRel M (now + 1) kv' k (sp'.find k)) : R U M (now + 1) kv' sp' := by
  have h64 : (2:Nat) ^ 62 < 2 ^ 64 := by decide
  constructor
  · intro k' hk'
    by_cases hkk : k' = k
    · subst hkk; exact hobj
    · rw [hsp k' hkk]
      apply ObjRel_mono (show t ≤ now + 1 by omega)
      apply ObjRel_frame _ (hR.obj k' hk')
      intro x hx
      apply hframe
      · rcases hx with rfl | ⟨v, s, rfl⟩
        · exact hkk
        · exact ikey_ne_user hU hk' hk hkk v s
      · intro s
        rcases hx with rfl | ⟨v, s', rfl⟩
        · exact fun e => ikey_ne_user hU hk hk' (fun e' => hkk e'.symm) ver s e.symm
        · exact ikey_ne_ikey hU hk' hk hkk v s' ver s
  · intro k' hk' ver' hv hv' sfx
    rw [hframe]
    · exact hR.fresh k' hk' ver' (by omega) hv' sfx
    · by_cases hkk : k' = k
      · subst hkk; exact ikey_ne_self _ _ _
      · exact ikey_ne_user hU hk' hk hkk ver' sfx
    · intro s
      by_cases hkk : k' = k
      · subst hkk
        intro e
        have := (ikey_inj hv' (by omega) e).1
        omega
      · exact ikey_ne_ikey hU hk' hk hkk ver' sfx ver s

/-- read-only command -/
theorem R_same {U M : List ByteArray} {t now : Nat} {kv : KV} {sp : State} (hR : R U M t kv sp) (ht : t ≤ now) :
    R U M (now + 1) kv sp := R_mono (by omega) hR

end XixiKV.Datatype
