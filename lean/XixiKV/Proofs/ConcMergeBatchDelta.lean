import XixiKV.Proofs.ConcMergeBatchReplay
/-!
# `delta n D`: the change the records `D` (at positions `n …`) make to a replayed index
-/
namespace XixiKV.ConcMergeBatch
open XixiKV.Conc (Tid Key Val upd updK Res updK_same updK_ne)
open XixiKV.ConcBatch

/-- `none`: untouched; `some none`: deleted; `some (some p)`: put, at position `p` -/
abbrev PD := Option (Option Nat)
def fpP (p : Nat) (_ : Val) : PD := some (some p)
def fdP : PD := some none

/-- what the replay of `D`, the records at positions `n, n+1, …`, does to each key — provided the
replay of the records before them left nothing parked -/
def delta (n : Nat) (D : List Rec) : Key → PD := (grun fpP fdP D n ⟨fun _ => none, []⟩).m

def enc : Nat × Rec → Nat × Key × PD
  | (p, .put k _ b) => (b, k, some (some p))
  | (_, .del k b) => (b, k, some none)
  | (_, .fin b) => (b, 0, none)

theorem enc_fst (x : Nat × Rec) : (enc x).1 = x.2.bid := by
  obtain ⟨p, r⟩ := x
  cases r <;> rfl

structure Rel (ix0 : Key → Option Nat) (s : RS) (gs : GS PD) : Prop where
  ix : ∀ k, s.ix k = (gs.m k).getD (ix0 k)
  pend : gs.pend = s.pend.map enc
  nofin : ∀ x ∈ s.pend, ∀ b, x.2 ≠ .fin b

theorem applyPend_rel (ix0 : Key → Option Nat) (l : List (Nat × Rec))
    (hl : ∀ x ∈ l, ∀ b, x.2 ≠ .fin b) (ix : Key → Option Nat) (m : Key → PD)
    (h : ∀ k, ix k = (m k).getD (ix0 k)) :
    ∀ k, applyPend ix l k = (applyG m (l.map enc) k).getD (ix0 k) := by
  induction l generalizing ix m with
  | nil => exact h
  | cons x l ih =>
    simp only [applyPend, applyG, List.foldl_cons, List.map_cons] at ih ⊢
    apply ih (fun y hy => hl y (List.mem_cons_of_mem _ hy))
    intro k
    obtain ⟨p, r⟩ := x
    cases r with
    | put k0 v b =>
      show updK ix k0 (some p) k = (updK m k0 (some (some p)) k).getD (ix0 k)
      by_cases hk : k = k0
      · rw [hk, updK_same, updK_same]; rfl
      · rw [updK_ne _ _ hk, updK_ne _ _ hk]; exact h k
    | del k0 b =>
      show updK ix k0 none k = (updK m k0 (some none) k).getD (ix0 k)
      by_cases hk : k = k0
      · rw [hk, updK_same, updK_same]; rfl
      · rw [updK_ne _ _ hk, updK_ne _ _ hk]; exact h k
    | fin b => exact absurd rfl (hl (p, .fin b) List.mem_cons_self b)

theorem filter_map_of {α β : Type} (f : α → β) (p : β → Bool) (q : α → Bool)
    (h : ∀ x, p (f x) = q x) (l : List α) : (l.map f).filter p = (l.filter q).map f := by
  induction l with
  | nil => rfl
  | cons x l ih =>
    simp only [List.map_cons, List.filter_cons, h x]
    split
    · rw [List.map_cons, ih]
    · exact ih

theorem replayRec_rel {ix0 : Key → Option Nat} {s : RS} {gs : GS PD} (p : Nat) (r : Rec)
    (h : Rel ix0 s gs) : Rel ix0 (replayRec s p r) (gstep fpP fdP gs p r) := by
  cases r with
  | put k0 v b =>
    by_cases hb : b = 0
    · subst hb
      rw [replayRec_plain _ _ _ rfl]
      refine ⟨fun k => ?_, h.pend, h.nofin⟩
      show updK s.ix k0 (some p) k = (updK gs.m k0 (some (some p)) k).getD (ix0 k)
      by_cases hk : k = k0
      · rw [hk, updK_same, updK_same]; rfl
      · rw [updK_ne _ _ hk, updK_ne _ _ hk]; exact h.ix k
    · have e1 : replayRec s p (.put k0 v b) = ⟨s.ix, s.pend ++ [(p, .put k0 v b)]⟩ := by
        simp [replayRec, Rec.bid, hb]
      have e2 : gstep fpP fdP gs p (.put k0 v b) = ⟨gs.m, gs.pend ++ [(b, k0, some (some p))]⟩ := by
        simp [gstep, hb, fpP]
      rw [e1, e2]
      refine ⟨h.ix, ?_, ?_⟩
      · show gs.pend ++ _ = List.map enc (s.pend ++ _)
        rw [List.map_append, h.pend]; rfl
      · intro x hx b' hf
        rcases List.mem_append.1 hx with hx | hx
        · exact h.nofin x hx b' hf
        · simp only [List.mem_singleton] at hx; subst hx; cases hf
  | del k0 b =>
    by_cases hb : b = 0
    · subst hb
      rw [replayRec_plain _ _ _ rfl]
      refine ⟨fun k => ?_, h.pend, h.nofin⟩
      show updK s.ix k0 none k = (updK gs.m k0 (some none) k).getD (ix0 k)
      by_cases hk : k = k0
      · rw [hk, updK_same, updK_same]; rfl
      · rw [updK_ne _ _ hk, updK_ne _ _ hk]; exact h.ix k
    · have e1 : replayRec s p (.del k0 b) = ⟨s.ix, s.pend ++ [(p, .del k0 b)]⟩ := by
        simp [replayRec, Rec.bid, hb]
      have e2 : gstep fpP fdP gs p (.del k0 b) = ⟨gs.m, gs.pend ++ [(b, k0, some none)]⟩ := by
        simp [gstep, hb, fdP]
      rw [e1, e2]
      refine ⟨h.ix, ?_, ?_⟩
      · show gs.pend ++ _ = List.map enc (s.pend ++ _)
        rw [List.map_append, h.pend]; rfl
      · intro x hx b' hf
        rcases List.mem_append.1 hx with hx | hx
        · exact h.nofin x hx b' hf
        · simp only [List.mem_singleton] at hx; subst hx; cases hf
  | fin b =>
    by_cases hb : b = 0
    · subst hb
      rw [replayRec_plain _ _ _ rfl]
      exact ⟨h.ix, h.pend, h.nofin⟩
    · have e1 : replayRec s p (.fin b) =
          ⟨applyPend s.ix (s.pend.filter fun x => x.2.bid = b),
           s.pend.filter fun x => x.2.bid ≠ b⟩ := by
        simp [replayRec, Rec.bid, hb]
      have e2 : gstep fpP fdP gs p (.fin b) =
          ⟨applyG gs.m (gs.pend.filter fun x => x.1 = b), gs.pend.filter fun x => x.1 ≠ b⟩ := by
        simp [gstep, hb]
      rw [e1, e2]
      have f1 : (gs.pend.filter fun x => x.1 = b) =
          (s.pend.filter fun x => x.2.bid = b).map enc := by
        rw [h.pend]
        exact filter_map_of enc _ _ (fun x => by rw [enc_fst]) _
      have f2 : (gs.pend.filter fun x => x.1 ≠ b) =
          (s.pend.filter fun x => x.2.bid ≠ b).map enc := by
        rw [h.pend]
        exact filter_map_of enc _ _ (fun x => by rw [enc_fst]) _
      refine ⟨?_, f2, fun x hx => h.nofin x (List.mem_filter.1 hx).1⟩
      intro k
      show applyPend s.ix _ k = (applyG gs.m _ k).getD (ix0 k)
      rw [f1]
      exact applyPend_rel ix0 _ (fun x hx => h.nofin x (List.mem_filter.1 hx).1) _ _ h.ix k

theorem replayFrom_rel {ix0 : Key → Option Nat} (D : List Rec) (i : Nat) {s : RS} {gs : GS PD}
    (h : Rel ix0 s gs) : Rel ix0 (replayFrom D i s) (grun fpP fdP D i gs) := by
  induction D generalizing i s gs with
  | nil => exact h
  | cons r D ih => exact ih (i + 1) (replayRec_rel i r h)

/-- the index a restart rebuilds from `A ++ D`, when the replay of `A` leaves nothing parked (every
batch of `A` is sealed in `A`): the index of `A`, changed by `delta` -/
theorem recovered_split (A D : List Rec) (hq : (replayAll A).pend = []) (k : Key) :
    recovered (A ++ D) k = (delta A.length D k).getD (recovered A k) := by
  have R0 : Rel (recovered A) (replayAll A) ⟨fun _ => none, []⟩ :=
    ⟨fun _ => rfl, by rw [hq]; rfl, by rw [hq]; intro x hx; cases hx⟩
  have := (replayFrom_rel D A.length R0).ix k
  unfold recovered delta
  rw [replayAll_append]
  exact this

/-- `delta` assigns positions of `D` only -/
theorem delta_bound {n : Nat} {D : List Rec} {k : Key} {p : Nat}
    (h : delta n D k = some (some p)) : n ≤ p := by
  have := (grun_pres (fp := fpP) (fd := fdP) (fun x : PD => ∀ p, x = some (some p) → n ≤ p) n
    (fun p' v hp' p e => by
      simp only [fpP, Option.some.injEq] at e; omega)
    (fun p e => by simp only [fdP, Option.some.injEq] at e; cases e) D n ⟨fun _ => none, []⟩
    (Nat.le_refl _) (fun x hx => by cases hx)).2 k (fun p e => by cases e)
  exact this p h

/-- a key touched by `D` stays touched when the log grows -/
theorem delta_mono {n : Nat} {D l : List Rec} {k : Key} (h : delta n (D ++ l) k = none) :
    delta n D k = none := by
  cases hd : delta n D k with
  | none => rfl
  | some x =>
    exfalso
    have h1 := (grun_pres (fp := fpP) (fd := fdP) (fun x : PD => x ≠ none) 0
      (fun _ _ _ e => by cases e) (fun e => by cases e) D n ⟨fun _ => none, []⟩
      (Nat.zero_le _) (fun x hx => by cases hx)).1
    have h2 := (grun_pres (fp := fpP) (fd := fdP) (fun x : PD => x ≠ none) 0
      (fun _ _ _ e => by cases e) (fun e => by cases e) l (n + D.length) _
      (Nat.zero_le _) h1).2 k (by
        show delta n D k ≠ none
        rw [hd]; exact fun e => by cases e)
    apply h2
    unfold delta at h
    rw [grun_append] at h
    exact h

/-! ## the same with values: independent of what precedes `D` -/

abbrev VD := Option (Option Val)
def fpV (_ : Nat) (v : Val) : VD := some (some v)
def fdV : VD := some none

def deltaV (D : List Rec) : Key → VD := (grun fpV fdV D 0 ⟨fun _ => none, []⟩).m

theorem delta_val (A D : List Rec) (k : Key) :
    (delta A.length D k).map (valAt (A ++ D)) = deltaV D k := by
  have := grun_hom (fp := fpP) (fd := fdP) (fp' := fpV) (fd' := fdV)
    (fun _ => Option.map (valAt (A ++ D))) (fun _ => rfl) D A.length 0 ⟨fun _ => none, []⟩
    (by
      intro j k v b hj
      show some (valAt (A ++ D) (some (A.length + j))) = some (some v)
      simp only [valAt]
      rw [List.getElem?_append_right (Nat.le_add_right _ _), Nat.add_sub_cancel_left, hj])
  exact congrFun (congrArg GS.m this) k

/-! ## plain logs -/

theorem replayFrom_plain_pend (l : List Rec) (hl : ∀ r ∈ l, r.bid = 0) (i : Nat) (s : RS) :
    (replayFrom l i s).pend = s.pend := by
  induction l generalizing i s with
  | nil => rfl
  | cons r l ih =>
    simp only [replayFrom]
    rw [ih (fun x hx => hl x (List.mem_cons_of_mem _ hx)),
      replayRec_plain _ _ _ (hl r List.mem_cons_self)]

theorem replayAll_plain_pend (l : List Rec) (hl : ∀ r ∈ l, r.bid = 0) : (replayAll l).pend = [] :=
  replayFrom_plain_pend l hl 0 _

theorem recoveredMap_snoc_put (L : List Rec) (k : Key) (v : Val) (k' : Key) :
    recoveredMap (L ++ [.put k v 0]) k' = if k' = k then some v else recoveredMap L k' := by
  have e : recovered (L ++ [.put k v 0]) = updK (recovered L) k (some L.length) := by
    unfold recovered
    rw [replayAll_snoc, replayRec_plain _ _ _ rfl]; rfl
  unfold recoveredMap
  rw [e]
  by_cases hk : k' = k
  · rw [if_pos hk, hk, updK_same]
    simp [valAt]
  · rw [if_neg hk, updK_ne _ _ hk]
    exact valAt_append _ _ _ (fun q hq => recovered_lt hq)

end XixiKV.ConcMergeBatch
