import XixiKV.Proofs.Truncate
/-! Truncation proofs, part 2: the cut at a BLOCK BOUNDARY inside a multi-chunk record.

`DataReader.next` (`endOfLog`): when the log ends after `cnt > 0` chunks of a record have been
consumed, a strict reader reports `ErrInvalidCRC`, a tolerant reader `io.EOF`
(`Frame.nextAt`: `| .eof => if tol then .eof else .err`).  A file cut exactly at the block boundary
between two chunks of one record leaves no incomplete chunk behind — the next block simply does
not exist — so the `_cut_strict` lemmas of `Proofs/Truncate.lean` exclude it (`hnb`).  Here:

* `nextAt_rest_cut_boundary`, `nextAt_rec_cut_boundary`, `nextAt_write_cut_boundary` — the reader
  on the cut record;
* `scanFrom_prefix_stop` — generic: a file that starts with the first `j` records and on which the
  reader stops (end of file or error) at the end state of those `j` records scans to exactly them;
* `scan_truncate_boundary` — the strict scan of the boundary cut: the `j` records, then an ERROR;
* `scan_truncate_strict'` — `scan_truncate_strict` and the boundary case in one statement, without
  the hypothesis `n % BS ≠ 0`;
* `scan_truncate_at` — the tolerant counterpart with the same explicit `j`: `ok := true`. -/
namespace XixiKV.Frame
open XixiKV
variable (C : Codec)

/-! ## the reader on the cut record -/

/-- reading at the start of a block that does not exist is end of file (for both readers) -/
theorem nextAt_at_size (tol : Bool) (pre : ByteArray) (block rf : Nat) (hpre : pre.size = block * BS) :
    nextAt C tol pre block 0 (rf + 1) = .eof := by
  unfold nextAt chunkSeq
  simp only []
  rw [if_pos (by omega)]

/-- strict reader: a prefix of a block-aligned run of Middle…Last chunks that ends exactly at a
    block boundary reads as end of file when nothing is present and as an error otherwise (the
    recursion reports the missing block as end of file, the caller — `cnt > 0` — as an error) -/
theorem nextAt_rest_cut_boundary (d : ByteArray) (fuel : Nat) :
    ∀ (pre : ByteArray) (block k rf : Nat), pre.size = block * BS → 0 < d.size → d.size ≤ fuel →
      k < (restChunks C d fuel).size → k < rf → k % BS = 0 →
      nextAt C false (pre ++ (restChunks C d fuel).extract 0 k) block 0 rf
        = if k = 0 then .eof else .err := by
  induction fuel generalizing d with
  | zero => intro pre block k rf _ h1 h2; omega
  | succ n ih =>
    intro pre block k rf hpre hd hf hk hrf hkb
    have hH := hH; have hBS := hBS
    cases rf with
    | zero => omega
    | succ r =>
    by_cases hk0 : k = 0
    · subst hk0
      rw [if_pos rfl]
      have he : (restChunks C d (n+1)).extract 0 0 = ByteArray.empty := by
        rw [ByteArray.extract_eq_empty_iff]; omega
      rw [he, ByteArray.append_empty]
      exact nextAt_at_size C false pre block r hpre
    · rw [if_neg hk0]
      have hkge : BS ≤ k := by simp only [hBS] at hkb ⊢; omega
      by_cases hle : d.size ≤ BS - H
      · have hr : restChunks C d (n+1) = C.enc 3 d := by rw [restChunks, if_pos hle]
        rw [hr, C.size_enc] at hk
        omega
      · have hr : restChunks C d (n+1)
            = C.enc 2 (d.extract 0 (BS - H)) ++ restChunks C (d.extract (BS - H) d.size) n := by
          rw [restChunks, if_neg hle]
        rw [hr] at hk ⊢
        have hA : (C.enc 2 (d.extract 0 (BS - H))).size = BS := by
          rw [size_enc_mid C d 2 (BS - H) (by omega)]; omega
        have hps : (d.extract 0 (BS - H)).size = BS - H := size_extract0 _ _ (by omega)
        rw [extract0_append_ge _ _ _ (by omega), hA, ← ByteArray.append_assoc]
        unfold nextAt
        rw [chunkSeq_enc C false pre _ (d.extract 0 (BS - H)) 2 block 0 (by omega) (by omega) (by omega)
          (by decide)]
        simp only []
        rw [if_neg (by decide)]
        have hsz : (pre ++ C.enc 2 (d.extract 0 (BS - H))).size = (block + 1) * BS := by
          rw [ByteArray.size_append, hA, hpre, Nat.add_mul]; omega
        rw [ByteArray.size_append, hA] at hk
        rw [ih (d.extract (BS - H) d.size) _ (block+1) (k - BS) r hsz
          (by simp [ByteArray.size_extract]; omega) (by simp [ByteArray.size_extract]; omega)
          (by omega) (by omega) (by simp only [hBS] at hkb hkge ⊢; omega)]
        by_cases hz : k - BS = 0
        · rw [if_pos hz]; rfl
        · rw [if_neg hz]

/-- strict reader: a prefix of the chunks of one record (first chunk at (block, off)) with at least
    one byte present that ends exactly at a block boundary — so the First chunk and possibly some
    Middle chunks are whole and the next block does not exist — is an error -/
theorem nextAt_rec_cut_boundary (d pre : ByteArray) (block off k rf : Nat)
    (hpre : pre.size = block * BS + off) (hoff : off + H < BS)
    (hk0 : 0 < k) (hk : k < (recChunks C d off).size) (hrf : k < rf) (hkb : (off + k) % BS = 0) :
    nextAt C false (pre ++ (recChunks C d off).extract 0 k) block off rf = .err := by
  have hH := hH; have hBS := hBS
  have hkge : BS - off ≤ k := by simp only [hBS] at hkb hoff ⊢; omega
  cases rf with
  | zero => omega
  | succ r =>
  by_cases hle : d.size ≤ BS - off - H
  · have hr : recChunks C d off = C.enc 0 d := by
      unfold recChunks; simp only []; rw [if_pos hle]
    rw [hr, C.size_enc] at hk
    omega
  · have hr : recChunks C d off = C.enc 1 (d.extract 0 (BS - off - H))
        ++ restChunks C (d.extract (BS - off - H) d.size) d.size := by
      unfold recChunks; simp only []; rw [if_neg hle]
    rw [hr] at hk ⊢
    have hA : (C.enc 1 (d.extract 0 (BS - off - H))).size = BS - off := by
      rw [size_enc_mid C d 1 (BS - off - H) (by omega)]; omega
    have hps : (d.extract 0 (BS - off - H)).size = BS - off - H := size_extract0 _ _ (by omega)
    rw [extract0_append_ge _ _ _ (by omega), hA, ← ByteArray.append_assoc]
    unfold nextAt
    rw [chunkSeq_enc C false pre _ (d.extract 0 (BS - off - H)) 1 block off hpre (by omega) (by omega)
      (by decide)]
    simp only []
    rw [if_neg (by decide)]
    have hsz : (pre ++ C.enc 1 (d.extract 0 (BS - off - H))).size = (block + 1) * BS := by
      rw [ByteArray.size_append, hA, hpre, Nat.add_mul]; omega
    rw [ByteArray.size_append, hA] at hk
    rw [nextAt_rest_cut_boundary C (d.extract (BS - off - H) d.size) d.size _ (block+1) (k - (BS - off)) r hsz
      (by simp [ByteArray.size_extract]; omega) (by simp [ByteArray.size_extract])
      (by omega) (by omega) (by simp only [hBS] at hkb hkge hoff ⊢; omega)]
    by_cases hz : k - (BS - off) = 0
    · rw [if_pos hz]; rfl
    · rw [if_neg hz]

/-- **the cut record, strict reader, block boundary**: a file that ends with a strict prefix of the
    bytes `writeToBuf` appends for one record, cut behind the padding and exactly at a block boundary
    (at least one whole chunk of the record is present, the next block does not exist), reads as an
    ERROR from the end state of the file before that record.  No condition on the bytes: there is
    no remainder. -/
theorem nextAt_write_cut_boundary (d f : ByteArray) (m rf : Nat) (hd : 0 < d.size)
    (hm0 : padOf (f.size % BS) < m) (hm : m < (writeRec C d (f.size % BS)).size) (hrf : m < rf)
    (hmb : (f.size + m) % BS = 0) :
    nextAt C false (f ++ (writeRec C d (f.size % BS)).extract 0 m) (endB f) (endO f) rf = .err := by
  have hH := hH; have hBS := hBS
  have hmod := mod_lt_BS f.size
  have hdm := size_split f.size
  have hpad := size_pad f
  rw [ByteArray.size_append, size_zeros] at hpad
  rw [writeRec_pos C d _ hd] at hm ⊢
  rw [extract0_append_ge _ _ _ (by rw [size_zeros]; omega), size_zeros, ← ByteArray.append_assoc]
  rw [ByteArray.size_append, size_zeros] at hm
  have hsum : normB (f.size / BS) (f.size % BS) * BS + normO (f.size % BS) + (m - padOf (f.size % BS))
      = f.size + m := by omega
  exact nextAt_rec_cut_boundary C d (f ++ zeros (padOf (f.size % BS))) (normB (f.size / BS) (f.size % BS))
    (normO (f.size % BS)) (m - padOf (f.size % BS)) rf (size_pad f) (normO_lt _ hmod)
    (by omega) (by omega) (by omega)
    (by
      have e : (normO (f.size % BS) + (m - padOf (f.size % BS))) % BS = (f.size + m) % BS := by
        rw [← hsum, Nat.add_assoc, Nat.mul_comm, Nat.mul_add_mod]
      rw [e]; exact hmb)

/-! ## the scan stops where the reader stops -/

/-- the build of the first `j+1` records is the build of the first `j` plus record `j` -/
theorem appendAll_take_succ (f : ByteArray) (ds : List ByteArray) (j : Nat) (hj : j < ds.length) :
    appendAll C f (ds.take (j+1)) = appendRec C (appendAll C f (ds.take j)) ds[j] := by
  rw [List.take_succ_eq_append_getElem hj, appendAll_append]
  simp [appendAll]

/-- a file cut inside the bytes of record `j` is the build of the first `j` records followed by a
    prefix of the bytes `writeToBuf` appended for record `j` -/
theorem extract_cut_in_record (f : ByteArray) (ds : List ByteArray) (j n : Nat) (hj : j < ds.length)
    (hfit : (appendAll C f (ds.take j)).size ≤ n)
    (hhi : n < (appendAll C f (ds.take (j+1))).size) :
    (appendAll C f ds).extract 0 n
      = appendAll C f (ds.take j)
        ++ (writeRec C ds[j] ((appendAll C f (ds.take j)).size % BS)).extract 0
            (n - (appendAll C f (ds.take j)).size) := by
  obtain ⟨tl, h⟩ := appendAll_take_prefix C f ds (j+1)
  rw [h, extract0_append_le _ _ _ (by omega), appendAll_take_succ C f ds j hj]
  unfold appendRec
  rw [extract0_append_ge _ _ _ hfit]

/-- **generic**: `T` starts with the build of the first `j` records of `ds` on top of `f`, and the
    reader, started at the end state of those `j` records, stops (`e = true`: end of file,
    `e = false`: error).  Then the scan of `T` from the end state of `f` returns exactly those `j`
    records with the writer's positions, `validEnd` = their end, and `ok = e`. -/
theorem scanFrom_prefix_stop (tol : Bool) (fid : Nat) (e : Bool) (ds : List ByteArray) :
    ∀ (j : Nat) (f T : ByteArray) (v fuel : Nat), (∀ d ∈ ds, 0 < d.size) → j ≤ ds.length →
      T.size - f.size < fuel →
      (∃ post, T = appendAll C f (ds.take j) ++ post) →
      nextAt C tol T (endB (appendAll C f (ds.take j))) (endO (appendAll C f (ds.take j))) (T.size + 1)
        = (if e then .eof else .err) →
      scanFrom C tol fid T (endB f) (endO f) v fuel
        = { recs := (ds.take j).zip (posAll C fid f (ds.take j)),
            validEnd := if j = 0 then v else (appendAll C f (ds.take j)).size,
            ok := e } := by
  have stop0 : ∀ (f T : ByteArray) (v m : Nat),
      nextAt C tol T (endB f) (endO f) (T.size + 1) = (if e then .eof else .err) →
      scanFrom C tol fid T (endB f) (endO f) v (m+1) = { recs := [], validEnd := v, ok := e } := by
    intro f T v m h
    simp only [scanFrom]
    rw [h]
    cases e <;> rfl
  induction ds with
  | nil =>
    intro j f T v fuel _ hj hfuel _ hstop
    have hj0 : j = 0 := by simpa using hj
    subst hj0
    cases fuel with
    | zero => omega
    | succ m =>
      simp only [List.take_nil, appendAll, List.foldl_nil] at hstop
      rw [stop0 f T v m hstop]
      simp [posAll]
  | cons d t ih =>
    intro j f T v fuel hpos hj hfuel hpre hstop
    have hd : 0 < d.size := hpos d (by simp)
    have ht : ∀ x ∈ t, 0 < x.size := fun x hx => hpos x (by simp [hx])
    cases fuel with
    | zero => omega
    | succ m =>
    cases j with
    | zero =>
      simp only [List.take_zero, appendAll, List.foldl_nil] at hstop
      rw [stop0 f T v m hstop]
      simp [posAll]
    | succ j' =>
      obtain ⟨post, hT⟩ := hpre
      rw [List.take_succ_cons, appendAll_cons] at hT hstop
      obtain ⟨tl, htl⟩ := appendAll_split C (t.take j') (appendRec C f d)
      have hT' : T = appendRec C f d ++ (tl ++ post) := by
        rw [hT, htl, ByteArray.append_assoc]
      have h2 := size_appendRec_gt C f d hd
      have hTs : (appendRec C f d).size ≤ T.size := by
        rw [hT', ByteArray.size_append]; omega
      obtain ⟨b', o', hread, hend, h1, h2'⟩ := nextAt_write C tol d f (tl ++ post) (T.size + 1) hd
        (by omega)
      rw [← hT'] at hread
      have hnext := end_after b' o' (appendRec C f d).size hend h1 h2'
      have hscan := ih j' (appendRec C f d) T (b' * BS + o') m ht
        (by simp only [List.length_cons] at hj; omega) (by omega) ⟨post, hT⟩ hstop
      simp only [scanFrom]
      rw [hread]
      simp only []
      rw [hnext.1, hnext.2]
      simp only [endB, endO] at hscan
      rw [hscan]
      simp only [List.take_succ_cons, posAll, List.zip_cons_cons, appendAll_cons,
        Nat.add_one_ne_zero, if_false, ScanRes.mk.injEq, and_true]
      refine ⟨?_, ?_⟩
      · simp [endB, endO, posOf]
      · split
        · rename_i h; subst h; simp [appendAll, hend]
        · rfl

/-- `scanFrom_prefix_stop` for the scan of a whole file -/
theorem scan_prefix_stop (tol : Bool) (fid : Nat) (e : Bool) (ds : List ByteArray)
    (hpos : ∀ d ∈ ds, 0 < d.size) (j : Nat) (hj : j ≤ ds.length) (T : ByteArray)
    (hpre : ∃ post, T = appendAll C ByteArray.empty (ds.take j) ++ post)
    (hstop : nextAt C tol T (endB (appendAll C ByteArray.empty (ds.take j)))
        (endO (appendAll C ByteArray.empty (ds.take j))) (T.size + 1) = (if e then .eof else .err)) :
    scan C tol fid T
      = { recs := (ds.take j).zip (posAll C fid ByteArray.empty (ds.take j)),
          validEnd := (appendAll C ByteArray.empty (ds.take j)).size,
          ok := e } := by
  have hscan := scanFrom_prefix_stop C tol fid e ds j ByteArray.empty T 0 (T.size + 1) hpos hj
    (by omega) hpre hstop
  have e0 : endB ByteArray.empty = 0 := by decide
  have e1 : endO ByteArray.empty = 0 := by decide
  rw [e0, e1] at hscan
  unfold scan
  rw [hscan]
  simp only [ScanRes.mk.injEq, true_and, and_true]
  split
  · rename_i h; subst h; simp [appendAll]
  · rfl

/-! ## the strict scan of a file cut at a block boundary inside a record -/

/-- **a record cut at a block boundary is an error for the strict reader**: cut a file built by
    appends at a length `n` strictly inside the chunk bytes of record `j` (behind the padding in
    front of it, before its end) with `n % BS = 0` — at least one whole chunk of the record lies in
    front of the cut and the next block does not exist.  The strict scan returns the `j` records in
    front of the cut with the writer's positions and then reports an ERROR (`DataReader.endOfLog`
    with `cnt > 0`).  No condition on the bytes is needed: there is no remainder. -/
theorem scan_truncate_boundary (fid : Nat) (ds : List ByteArray) (hpos : ∀ d ∈ ds, 0 < d.size) (j n : Nat)
    (hj : j < ds.length)
    (hlo : (appendAll C ByteArray.empty (ds.take j)).size
      + padOf ((appendAll C ByteArray.empty (ds.take j)).size % BS) < n)
    (hhi : n < (appendAll C ByteArray.empty (ds.take (j+1))).size)
    (hb : n % BS = 0) :
    scan C false fid ((appendAll C ByteArray.empty ds).extract 0 n)
      = { recs := (ds.take j).zip (posAll C fid ByteArray.empty (ds.take j)),
          validEnd := (appendAll C ByteArray.empty (ds.take j)).size,
          ok := false } := by
  have hn : n ≤ (appendAll C ByteArray.empty ds).size := by
    have := size_appendAll_take_le C ByteArray.empty ds (j+1); omega
  have hT := extract_cut_in_record C ByteArray.empty ds j n hj (by omega) hhi
  have hsz : ((appendAll C ByteArray.empty ds).extract 0 n).size = n := size_extract0 _ _ hn
  have hd : 0 < ds[j].size := hpos _ (List.getElem_mem hj)
  rw [appendAll_take_succ C ByteArray.empty ds j hj] at hhi
  generalize hg : appendAll C ByteArray.empty (ds.take j) = g at hlo hhi hT
  have hws : (appendRec C g ds[j]).size = g.size + (writeRec C ds[j] (g.size % BS)).size := by
    unfold appendRec; rw [ByteArray.size_append]
  have hfm : g.size + (n - g.size) = n := by omega
  have hstop : nextAt C false ((appendAll C ByteArray.empty ds).extract 0 n) (endB g) (endO g)
      (((appendAll C ByteArray.empty ds).extract 0 n).size + 1) = (if false then .eof else .err) := by
    rw [hsz, hT]
    exact nextAt_write_cut_boundary C ds[j] g (n - g.size) (n + 1) hd (by omega) (by omega) (by omega)
      (by rw [hfm]; exact hb)
  subst hg
  exact scan_prefix_stop C false fid false ds hpos j (by omega) _ ⟨_, hT⟩ hstop

/-- **a torn tail is an error for the strict reader, every cut inside a record's chunk bytes**:
    `scan_truncate_strict` and `scan_truncate_boundary` in one statement.  Cut a file built by
    appends at a length `n` strictly inside the chunk bytes of record `j` (behind the padding in
    front of it, before its end).  If the cut is not at a block boundary an incomplete chunk is
    left, and its present bytes must not all be zero (`hnz`); if it is at a block boundary nothing
    is required.  The strict scan returns the `j` records in front of the cut and an ERROR. -/
theorem scan_truncate_strict' (fid : Nat) (ds : List ByteArray) (hpos : ∀ d ∈ ds, 0 < d.size) (j n : Nat)
    (hj : j < ds.length)
    (hlo : (appendAll C ByteArray.empty (ds.take j)).size
      + padOf ((appendAll C ByteArray.empty (ds.take j)).size % BS) < n)
    (hhi : n < (appendAll C ByteArray.empty (ds.take (j+1))).size)
    (hnz : n % BS ≠ 0 → allZeroFrom ((appendAll C ByteArray.empty ds).extract 0 n)
      (max ((appendAll C ByteArray.empty (ds.take j)).size
          + padOf ((appendAll C ByteArray.empty (ds.take j)).size % BS)) (n / BS * BS)) = false) :
    scan C false fid ((appendAll C ByteArray.empty ds).extract 0 n)
      = { recs := (ds.take j).zip (posAll C fid ByteArray.empty (ds.take j)),
          validEnd := (appendAll C ByteArray.empty (ds.take j)).size,
          ok := false } := by
  by_cases hb : n % BS = 0
  · exact scan_truncate_boundary C fid ds hpos j n hj hlo hhi hb
  · exact scan_truncate_strict C fid ds hpos j n hj hlo hhi hb (hnz hb)

/-! ## the tolerant counterpart, with the same explicit `j` -/

/-- **the tolerant reader on the same cut**: cut a file built by appends at a length `n` at or
    behind the end of record `j-1` and before the end of record `j` (anywhere: in the padding, in a
    header, in a payload, at a chunk or block boundary).  The tolerant scan (`tol = true`, the
    reader of the active file) returns the same `j` records with the writer's positions, the same
    `validEnd`, and ends with END OF FILE.  (`scan_truncate` with its `j` made explicit.) -/
theorem scan_truncate_at (fid : Nat) (ds : List ByteArray) (hpos : ∀ d ∈ ds, 0 < d.size) (j n : Nat)
    (hj : j < ds.length)
    (hfit : (appendAll C ByteArray.empty (ds.take j)).size ≤ n)
    (hhi : n < (appendAll C ByteArray.empty (ds.take (j+1))).size) :
    scan C true fid ((appendAll C ByteArray.empty ds).extract 0 n)
      = { recs := (ds.take j).zip (posAll C fid ByteArray.empty (ds.take j)),
          validEnd := (appendAll C ByteArray.empty (ds.take j)).size,
          ok := true } := by
  have hn : n ≤ (appendAll C ByteArray.empty ds).size := by
    have := size_appendAll_take_le C ByteArray.empty ds (j+1); omega
  have hT := extract_cut_in_record C ByteArray.empty ds j n hj hfit hhi
  have hsz : ((appendAll C ByteArray.empty ds).extract 0 n).size = n := size_extract0 _ _ hn
  have hd : 0 < ds[j].size := hpos _ (List.getElem_mem hj)
  rw [appendAll_take_succ C ByteArray.empty ds j hj] at hhi
  generalize hg : appendAll C ByteArray.empty (ds.take j) = g at hfit hhi hT
  have hws : (appendRec C g ds[j]).size = g.size + (writeRec C ds[j] (g.size % BS)).size := by
    unfold appendRec; rw [ByteArray.size_append]
  have hstop : nextAt C true ((appendAll C ByteArray.empty ds).extract 0 n) (endB g) (endO g)
      (((appendAll C ByteArray.empty ds).extract 0 n).size + 1) = (if true then .eof else .err) := by
    rw [hsz, hT]
    exact nextAt_write_cut C ds[j] g (n - g.size) (n + 1) hd (by omega) (by omega)
  subst hg
  exact scan_prefix_stop C true fid true ds hpos j (by omega) _ ⟨_, hT⟩ hstop

/-- both readers on a cut strictly inside the chunk bytes of record `j`: the same records and the
    same `validEnd`; the tolerant reader ends cleanly, the strict reader with an error -/
theorem scan_truncate_both (fid : Nat) (ds : List ByteArray) (hpos : ∀ d ∈ ds, 0 < d.size) (j n : Nat)
    (hj : j < ds.length)
    (hlo : (appendAll C ByteArray.empty (ds.take j)).size
      + padOf ((appendAll C ByteArray.empty (ds.take j)).size % BS) < n)
    (hhi : n < (appendAll C ByteArray.empty (ds.take (j+1))).size)
    (hnz : n % BS ≠ 0 → allZeroFrom ((appendAll C ByteArray.empty ds).extract 0 n)
      (max ((appendAll C ByteArray.empty (ds.take j)).size
          + padOf ((appendAll C ByteArray.empty (ds.take j)).size % BS)) (n / BS * BS)) = false) :
    scan C true fid ((appendAll C ByteArray.empty ds).extract 0 n)
        = { scan C false fid ((appendAll C ByteArray.empty ds).extract 0 n) with ok := true } ∧
      (scan C false fid ((appendAll C ByteArray.empty ds).extract 0 n)).ok = false := by
  rw [scan_truncate_strict' C fid ds hpos j n hj hlo hhi hnz,
    scan_truncate_at C fid ds hpos j n hj (by omega) hhi]
  exact ⟨rfl, rfl⟩

/-! ## non-vacuity -/

example := scan_truncate_boundary Chunk.crcCodec
example := scan_truncate_strict' Chunk.crcCodec
example := scan_truncate_at Chunk.crcCodec

end XixiKV.Frame
