import XixiKV.Proofs.ConcMergeBatchDelta
import XixiKV.Proofs.ConcMergeBatchExec
import XixiKV.Proofs.ConcBatchInv
/-!
# The invariant of a gated merge scan concurrent with batches, and the main statement

With `mergeVisitGated = true` every `mvisit` happens while `db.mu` is free, where the index IS the
recovered (committed) index.  The invariant `MCoreB` speaks about the log only: the first `n`
records are complete (nothing parked), and for every key that the records after `n` leave
untouched IN THE COMMITTED VIEW (`delta … = none`: the records of an unsealed batch do not count)
and whose committed old position has been visited, `out` carries its committed value.
-/
namespace XixiKV.ConcMergeBatch
open XixiKV.Conc (Tid Key Val upd updK Res updK_same updK_ne)
open XixiKV.ConcBatch

theorem step_log {sh : Shape} {g g' : G} (hs : Step sh g g') : ∃ l, g'.log = g.log ++ l := by
  cases hs <;> first
    | exact ⟨[], (List.append_nil _).symm⟩
    | exact ⟨_, rfl⟩

structure MCoreB (log : List Rec) (n : Nat) (todo : List Nat) (out : List Rec) : Prop where
  le : n ≤ log.length
  /-- every batch that has records before the boundary is sealed before the boundary -/
  quiet : (replayAll (log.take n)).pend = []
  bound : ∀ i ∈ todo, i < n
  p0ok : ∀ k p, recovered (log.take n) k = some p → ∃ v b, log[p]? = some (.put k v b)
  /-- every record of `out` is the untagged copy of a put that was live in the committed view -/
  src : ∀ r ∈ out, ∃ k v b i, r = .put k v 0 ∧ i < n ∧ log[i]? = some (.put k v b) ∧
    recovered (log.take n) k = some i
  last : ∀ k, delta n (log.drop n) k = none →
    (∀ p, recovered (log.take n) k = some p → p ∉ todo) →
    recoveredMap out k = recoveredMap (log.take n) k

theorem recovered_log_split {log : List Rec} {n : Nat} (hle : n ≤ log.length)
    (hq : (replayAll (log.take n)).pend = []) (k : Key) :
    recovered log k = (delta n (log.drop n) k).getD (recovered (log.take n) k) := by
  have := recovered_split (log.take n) (log.drop n) hq k
  rw [List.take_append_drop, List.length_take, Nat.min_eq_left hle] at this
  exact this

theorem mcoreB_grow {log : List Rec} {n : Nat} {todo : List Nat} {out : List Rec} (l : List Rec)
    (h : MCoreB log n todo out) : MCoreB (log ++ l) n todo out := by
  have ht : (log ++ l).take n = log.take n := List.take_append_of_le_length h.le
  have hd : (log ++ l).drop n = log.drop n ++ l := List.drop_append_of_le_length h.le
  refine ⟨by rw [List.length_append]; have := h.le; omega, by rw [ht]; exact h.quiet, h.bound,
    ?_, ?_, ?_⟩
  · intro k p hp
    rw [ht] at hp
    obtain ⟨v, b, hv⟩ := h.p0ok k p hp
    exact ⟨v, b, by
      rw [List.getElem?_append_left (XixiKV.Conc.lt_of_getElem?_eq_some hv)]; exact hv⟩
  · intro r hr
    obtain ⟨k, v, b, i, h1, h2, h3, h4⟩ := h.src r hr
    refine ⟨k, v, b, i, h1, h2, ?_, by rw [ht]; exact h4⟩
    rw [List.getElem?_append_left (XixiKV.Conc.lt_of_getElem?_eq_some h3)]; exact h3
  · intro k hk hp
    rw [ht] at hp ⊢
    rw [hd] at hk
    exact h.last k (delta_mono hk) hp

theorem mcoreB_start {log : List Rec} {todo : List Nat} (hq : (replayAll log).pend = [])
    (hok : ∀ k p, recovered log k = some p → ∃ v b, log[p]? = some (.put k v b))
    (hp : todo.Perm (List.range log.length)) : MCoreB log log.length todo [] := by
  refine ⟨Nat.le_refl _, by rw [List.take_length]; exact hq, ?_, ?_, ?_, ?_⟩
  · intro i hi
    exact List.mem_range.1 (hp.mem_iff.1 hi)
  · intro k p h
    rw [List.take_length] at h
    exact hok k p h
  · intro r hr; cases hr
  · intro k _ hv
    rw [List.take_length] at hv ⊢
    cases hr : recovered log k with
    | none => simp only [recoveredMap, hr]; rfl
    | some p =>
      exact absurd (hp.mem_iff.2 (List.mem_range.2 (recovered_lt hr))) (hv p hr)

/-- the visited record is not copied: fine as long as every key whose committed old position it
is has been touched (in the committed view) after the boundary -/
theorem mcoreB_skip {log : List Rec} {n i : Nat} {todo : List Nat} {out : List Rec}
    (h : MCoreB log n (i :: todo) out)
    (hs : ∀ k, recovered (log.take n) k = some i → delta n (log.drop n) k ≠ none) :
    MCoreB log n todo out := by
  refine ⟨h.le, h.quiet, fun j hj => h.bound j (List.mem_cons_of_mem _ hj), h.p0ok, h.src, ?_⟩
  intro k hd hp
  apply h.last k hd
  intro p hp0 hmem
  rcases List.mem_cons.1 hmem with e | hm
  · subst e; exact hs k hp0 hd
  · exact hp p hp0 hm

theorem mcoreB_copy {log : List Rec} {n i : Nat} {todo : List Nat} {out : List Rec}
    {k : Key} {v : Val} {b : Nat} (h : MCoreB log n (i :: todo) out)
    (hi : log[i]? = some (.put k v b)) (hr : recovered log k = some i) :
    MCoreB log n todo (out ++ [.put k v 0]) := by
  have hin : i < n := h.bound i List.mem_cons_self
  have hsplit := recovered_log_split h.le h.quiet k
  rw [hr] at hsplit
  have hp0 : recovered (log.take n) k = some i := by
    cases hd : delta n (log.drop n) k with
    | none => rw [hd] at hsplit; exact hsplit.symm
    | some x =>
      rw [hd] at hsplit
      cases x with
      | none => cases hsplit
      | some p =>
        have hpi : i = p := by simpa using hsplit
        have := delta_bound hd
        omega
  refine ⟨h.le, h.quiet, fun j hj => h.bound j (List.mem_cons_of_mem _ hj), h.p0ok, ?_, ?_⟩
  · intro r hr
    rcases List.mem_append.1 hr with hr | hr
    · exact h.src r hr
    · simp only [List.mem_singleton] at hr
      exact ⟨k, v, b, i, hr, hin, hi, hp0⟩
  · intro k' hd hp
    rw [recoveredMap_snoc_put]
    by_cases hk : k' = k
    · rw [if_pos hk, hk]
      simp only [recoveredMap, hp0, valAt]
      rw [List.getElem?_take, if_pos hin, hi]
    · rw [if_neg hk]
      apply h.last k' hd
      intro p hp0' hmem
      rcases List.mem_cons.1 hmem with e | hm
      · subst e
        obtain ⟨v', b', hv'⟩ := h.p0ok k' p hp0'
        rw [hi] at hv'
        simp only [Option.some.injEq, Rec.put.injEq] at hv'
        exact hk hv'.1.symm
      · exact hp p hp0' hm

/-- the visit of the gated merge: the index it reads is the committed one -/
theorem mcoreB_visit {g : G} {n i : Nat} {todo : List Nat} {out : List Rec}
    (h : MCoreB g.log n (i :: todo) out) (hidx : g.idx = recovered g.log) :
    MCoreB g.log n todo (visit g i out) := by
  have nonput : (∀ k v b, g.log[i]? ≠ some (.put k v b)) → MCoreB g.log n todo out := by
    intro hn
    apply mcoreB_skip h
    intro k hp0
    obtain ⟨v, b, hv⟩ := h.p0ok k i hp0
    exact absurd hv (hn k v b)
  unfold visit
  split
  · rename_i k v b hi
    split
    · rename_i hk
      rw [hidx] at hk
      exact mcoreB_copy h hi hk
    · rename_i hk
      apply mcoreB_skip h
      intro k' hp0 hd
      obtain ⟨v', b', hv'⟩ := h.p0ok k' i hp0
      rw [hi] at hv'
      simp only [Option.some.injEq, Rec.put.injEq] at hv'
      have hkk : k = k' := hv'.1
      subst hkk
      apply hk
      rw [hidx, recovered_log_split h.le h.quiet k, hd, hp0]; rfl
  · rename_i hne
    exact nonput (fun k v b e => hne k v b e)

def MInvB (a : GM) : Prop :=
  match a.m with
  | .idle => True
  | .scanning n todo out => MCoreB a.g.log n todo out
  | .done n out => MCoreB a.g.log n [] out

theorem reachableM_minvB {sh : Shape} {a : GM} (h : ReachableM sh true a) : MInvB a := by
  induction h with
  | init => trivial
  | step hr hs ih =>
    have hI := reachable_inv0 (reachableM_base hr)
    cases hs with
    | base g g' m hst =>
      obtain ⟨l, hl⟩ := step_log hst
      cases m with
      | idle => trivial
      | scanning n todo out =>
        show MCoreB g'.log n todo out
        rw [hl]; exact mcoreB_grow l ih
      | done n out =>
        show MCoreB g'.log n [] out
        rw [hl]; exact mcoreB_grow l ih
    | mstart g m todo hc hw hp =>
      have hc := hI.consistent (no_mid_of_free hI hw)
      refine mcoreB_start hc.2 ?_ hp
      intro k p hkp
      exact hI.idxOK k p (by rw [hc.1]; exact hkp)
    | mvisit g n i todo out hw =>
      have hc := hI.consistent (no_mid_of_free hI (hw rfl))
      exact mcoreB_visit ih hc.1
    | mfinish g n out => exact ih
    | mabort g n todo out => trivial

/-- **main statement**, on the log alone: after a finished scan the adopting replay recovers the
mapping of the plain replay -/
theorem mcoreB_preserves {log : List Rec} {n : Nat} {out : List Rec} (h : MCoreB log n [] out) :
    recoveredMap (out ++ log.drop n) = recoveredMap log := by
  have hout : (replayAll out).pend = [] := by
    apply replayAll_plain_pend
    intro r hr
    obtain ⟨k, v, b, i, h1, _⟩ := h.src r hr
    rw [h1]; rfl
  have hlen : (log.take n).length = n := by rw [List.length_take, Nat.min_eq_left h.le]
  funext k
  have s1 := recovered_split out (log.drop n) hout k
  have s2 := recovered_log_split h.le h.quiet k
  have v1 := delta_val out (log.drop n) k
  have v2 := delta_val (log.take n) (log.drop n) k
  rw [List.take_append_drop, hlen] at v2
  unfold recoveredMap
  rw [s1, s2]
  cases hd : delta n (log.drop n) k with
  | none =>
    rw [hd] at v2
    rw [← v2] at v1
    have hd' : delta out.length (log.drop n) k = none := by
      cases hx : delta out.length (log.drop n) k with
      | none => rfl
      | some x => rw [hx] at v1; cases v1
    rw [hd']
    show valAt (out ++ log.drop n) (recovered out k) = valAt log (recovered (log.take n) k)
    rw [valAt_append _ _ _ (fun q hq => recovered_lt hq)]
    have := h.last k hd (fun _ _ hm => nomatch hm)
    unfold recoveredMap at this
    rw [this]
    have e := valAt_append (log.take n) (log.drop n) (recovered (log.take n) k)
      (fun q hq => recovered_lt hq)
    rw [List.take_append_drop] at e
    exact e.symm
  | some x =>
    rw [hd] at v2
    rw [← v2] at v1
    cases hx : delta out.length (log.drop n) k with
    | none => rw [hx] at v1; cases v1
    | some x' =>
      rw [hx] at v1
      simp only [Option.map_some, Option.some.injEq] at v1
      exact v1

end XixiKV.ConcMergeBatch

/-! ## the boundary lies before every open batch (any flag value) -/

namespace XixiKV.ConcMergeBatch
open XixiKV.Conc (Tid Key Val upd updK Res)
open XixiKV.ConcBatch

theorem step_bstart {sh : Shape} {g g' : G} (hs : Step sh g g') :
    g'.bstart = g.bstart ∨ g'.bstart = none ∨ g'.bstart = some g.log.length := by
  cases hs <;> first
    | exact .inl rfl
    | exact .inr (.inl rfl)
    | exact .inr (.inr rfl)

def boundaryOf : MSt → Option Nat
  | .idle => none
  | .scanning n _ _ => some n
  | .done n _ => some n

/-- `mstart` needs `db.mu` free and a batch holds `db.mu` from `NewBatch` to `Commit`: a batch that
is open during or after a scan was opened after the boundary was fixed -/
theorem boundary_le_bstart {sh : Shape} {b : Bool} {a : GM} (h : ReachableM sh b a) :
    ∀ n, boundaryOf a.m = some n →
      n ≤ a.g.log.length ∧ ∀ s, a.g.bstart = some s → n ≤ s := by
  induction h with
  | init => intro n hn; cases hn
  | step hr hs ih =>
    have hI := reachable_inv0 (reachableM_base hr)
    cases hs with
    | base g g' m hst =>
      intro n hn
      obtain ⟨h1, h2⟩ := ih n hn
      obtain ⟨l, hl⟩ := step_log hst
      refine ⟨by show n ≤ g'.log.length; rw [hl, List.length_append]; exact Nat.le_add_right_of_le h1,
        fun s hs => ?_⟩
      rcases step_bstart hst with e | e | e
      · exact h2 s (by rw [← e]; exact hs)
      · rw [e] at hs; cases hs
      · rw [e] at hs; cases hs; exact h1
    | mstart g m todo hc hw hp =>
      intro n hn
      cases hn
      refine ⟨Nat.le_refl _, fun s hs => ?_⟩
      have : g.bstart = none := bstart_none_of_free hI hw
      rw [this] at hs; cases hs
    | mvisit g n i todo out hw => exact ih
    | mfinish g n out => exact ih
    | mabort g n todo out => intro n hn; cases hn

/-- while a batch is open the records a restart leaves parked (drops) are exactly the log from the
batch's start on -/
theorem open_batch_pend {g : G} (hI : Inv0 g) {s : Nat} (hs : g.bstart = some s) :
    (replayAll g.log).pend = enumPos s (g.log.drop s) := by
  obtain ⟨t, ht⟩ := hI.bstartF (by rw [hs]; simp)
  have hh := hI.heldF t
  have key : ∀ {ops b s' todo staged rest},
      BatchFacts g.log g.idx g.bstart ops b s' todo staged rest →
      (replayAll g.log).pend = enumPos s (g.log.drop s) := by
    intro ops b s' todo staged rest bf
    have : s' = s := by have := bf.bs; rw [hs] at this; exact (Option.some.inj this).symm
    subst this
    exact bf.pend
  cases hc : g.pc t <;> rw [hc] at ht <;> simp only [isBat] at ht <;> try cases ht
  · rw [hc] at hh; exact key hh.1
  · rw [hc] at hh; exact key hh

end XixiKV.ConcMergeBatch
