import XixiKV.Proofs.CrashHistoryRun
/-!
# Crash recovery at the level of acknowledged MUTATIONS — part 4: durability is never lost

`Durable s n` ("at least `n` units end inside the flushed prefixes of their files") is kept by
every call: files only grow at the end of the active file, flush marks never move backwards, and a
rotation flushes the file it leaves (`Durable_astep`, `Durable_arun`).  Hence a unit that was
durable at some point of a history survives every later crash.
-/
namespace XixiKV.C03H
open XixiKV XixiKV.Frame XixiKV.Record XixiKV.Index XixiKV.Engine XixiKV.Engine.Restart
open XixiKV.Engine.BatchP XixiKV.Engine.PolicyP XixiKV.Engine.PolicyP.Dur XixiKV.Engine.PolicyP.Size

/-- files, durability invariant and `n` covered units for a state / handle pair (the handle need
    not be the one stored in the state: used for the intermediate states of a call) -/
def CovP (s : St) (db : DB) (n : Nat) : Prop :=
  ∃ g0 gf m, Files s db (g0 ++ [(db.activeId, gf)]) ∧ DInv s db ∧ m ≤ gf.length ∧
    (bytesOf (gf.take m)).size ≤ (activeFile s db).synced ∧
    n ≤ (unitsOfLog (logOf (g0 ++ [(db.activeId, gf.take m)]))).length

theorem CovP.congr {s s' : St} {db db' : DB} {n : Nat} (h : CovP s db n) (hw : s'.world = s.world)
    (hd : db'.dir = db.dir) (ha : db'.activeId = db.activeId) : CovP s' db' n := by
  obtain ⟨g0, gf, m, h1, h2, h3, h4, h5⟩ := h
  refine ⟨g0, gf, m, ?_, h2.congr hw hd ha, h3, ?_, ?_⟩
  · rw [ha]; exact h1.congr hw hd ha
  · rw [activeFile_congr hw hd ha]; exact h4
  · rw [ha]; exact h5

/-- a write at the end of the active file that does not move the flush mark backwards -/
theorem CovP.write {s s' : St} {db db' : DB} {n : Nat} {g0 : GDir} {gf rs : GFile}
    (hf : Files s db (g0 ++ [(db.activeId, gf)])) (hc : CovP s db n)
    (hf' : Files s' db' (g0 ++ [(db.activeId, gf ++ rs)])) (hd' : DInv s' db')
    (ha : db'.activeId = db.activeId)
    (hsy : (activeFile s db).synced ≤ (activeFile s' db').synced) : CovP s' db' n := by
  obtain ⟨g0', gf', m, h1, _, h3, h4, h5⟩ := hc
  have hg := Files_unique hf h1
  obtain ⟨e1, e2'⟩ := List.append_inj' hg rfl
  have e2 : gf = gf' := by simpa using e2'
  subst e1 e2
  refine ⟨g0, gf ++ rs, m, by rw [ha]; exact hf', hd', by rw [List.length_append]; omega, ?_, ?_⟩
  · rw [List.take_append_of_le_length h3]; exact Nat.le_trans h4 hsy
  · rw [List.take_append_of_le_length h3, ha]; exact h5

theorem CovP_rotate {s : St} {db : DB} {n : Nat} (hc : CovP s db n) :
    CovP (rotate s db).1 (rotate s db).2 n := by
  obtain ⟨g0, gf, m, h1, h2, h3, h4, h5⟩ := hc
  obtain ⟨hf, hdb, _⟩ := rotate_spec h1
  obtain ⟨hd, _, haf⟩ := DInv_rotate h2
  have hact : (rotate s db).2.activeId = db.activeId + 1 := by rw [hdb]
  refine ⟨g0 ++ [(db.activeId, gf)], [], 0, by rw [hact]; exact hf, hd, Nat.le_refl _, ?_, ?_⟩
  · rw [haf]; exact Nat.le_refl _
  · show n ≤ (unitsOfLog (logOf (g0 ++ [(db.activeId, gf)] ++ [((rotate s db).2.activeId, [])]))).length
    rw [logOf_new_file]
    exact Nat.le_trans h5 (unitsOfLog_prefix (logOf_cut_prefix g0 db.activeId gf m)).length_le

theorem CovP_appendTail {s : St} {db : DB} {n : Nat} (hc : CovP s db n) (r : Record) (hr : RecOK r) :
    CovP (appendTail s db r).1 (appendTail s db r).2.1 n := by
  obtain ⟨g0, gf, m, h1, h2, h3, h4, h5⟩ := hc
  obtain ⟨f1, _, _, _, f5⟩ := appendTail_specG h1 rfl r hr
  have hA := appendTail_dur h2 r
  refine CovP.write h1 ⟨g0, gf, m, h1, h2, h3, h4, h5⟩ f1 hA.dinv f5 ?_
  by_cases hs : doSync db (appendTail s db r).2.2.size
  · rw [(hA.sync hs).1, hA.bytes]
    exact Nat.le_trans h2.active_le (size_appendRec_ge _ _)
  · rw [(hA.nosync hs).1]; exact Nat.le_refl _

theorem CovP_appendLog {s : St} {db : DB} {n : Nat} (hc : CovP s db n) (r : Record) (hr : RecOK r) :
    CovP (appendLog s db r).1 (appendLog s db r).2.1 n := by
  rw [appendLog_eq]
  split
  · exact CovP_appendTail (CovP_rotate hc) r hr
  · exact CovP_appendTail hc r hr

theorem CovP_flushTail {s : St} {db : DB} {n : Nat} (hc : CovP s db n) (b : BatchSt)
    (hok : ∀ r ∈ b.staged, StagedOK r) (hid : b.id < 2 ^ 64) :
    CovP (flushTail s db b).1 (flushTail s db b).2.1 n := by
  obtain ⟨g0, gf, m, h1, h2, h3, h4, h5⟩ := hc
  obtain ⟨f1, _, _, _, f5, _⟩ := flushTail_specG h1 rfl b hok hid
  have hF := flushTail_dur h2 b
  refine CovP.write h1 ⟨g0, gf, m, h1, h2, h3, h4, h5⟩ f1 hF.dinv f5 ?_
  cases hsy : b.sync with
  | true =>
    rw [hF.sync hsy, hF.bytes]
    exact Nat.le_trans h2.active_le (size_appendAll_ge _ _)
  | false => rw [hF.nosync hsy]; exact Nat.le_refl _

theorem CovP_flushStaged {s : St} {db : DB} {n : Nat} (hc : CovP s db n) (b : BatchSt)
    (hok : ∀ r ∈ b.staged, StagedOK r) (hid : b.id < 2 ^ 64) :
    CovP (flushStaged s db b).1 (flushStaged s db b).2.1 n := by
  rw [flushStaged_eq]
  split
  · exact CovP_flushTail (CovP_rotate hc) b hok hid
  · exact CovP_flushTail hc b hok hid

theorem CovP_flushAndRotate {s : St} {db : DB} {n : Nat} (hc : CovP s db n) (b : BatchSt)
    (hok : ∀ r ∈ b.staged, StagedOK r) (hid : b.id < 2 ^ 64) :
    CovP (flushAndRotate s db b).1 (flushAndRotate s db b).2.1 n := by
  rw [flushAndRotate_eq]
  exact CovP_rotate (CovP_flushStaged hc b hok hid)

theorem CovP_seal {s : St} {db : DB} {n : Nat} (hc : CovP s db n) (b : BatchSt) (hid : b.id < 2 ^ 63) :
    CovP (sealFile s db b) db n := by
  obtain ⟨g0, gf, m, h1, h2, h3, h4, h5⟩ := hc
  obtain ⟨f1, _⟩ := seal_specG h1 rfl b hid
  obtain ⟨d1, _, d3, d4, d5⟩ := sealFile_dur h2 b
  refine CovP.write h1 ⟨g0, gf, m, h1, h2, h3, h4, h5⟩ f1 d1 rfl ?_
  cases hsy : b.sync with
  | true =>
    rw [d4 hsy, d3]
    exact Nat.le_trans h2.active_le (size_appendRec_ge _ _)
  | false => rw [d5 hsy]; exact Nat.le_refl _

theorem CovP_sync {s : St} {db : DB} {n : Nat} (hc : CovP s db n) :
    CovP (putFile s db db.activeId ⟨(activeFile s db).bytes, (activeFile s db).bytes.size⟩) db n := by
  obtain ⟨g0, gf, m, h1, h2, h3, h4, h5⟩ := hc
  obtain ⟨d1, d2⟩ := DInv_putFile_active (f' := ⟨(activeFile s db).bytes, (activeFile s db).bytes.size⟩)
    (db' := db) h2 (Nat.le_refl _) rfl rfl
  have f1 : Files (putFile s db db.activeId ⟨(activeFile s db).bytes, (activeFile s db).bytes.size⟩) db
      (g0 ++ [(db.activeId, gf ++ [])]) := by
    rw [List.append_nil]; exact Files_sync h1
  refine CovP.write h1 ⟨g0, gf, m, h1, h2, h3, h4, h5⟩ f1 d1 rfl ?_
  rw [d2]; exact h2.active_le

/-! ## state level -/

theorem Durable_iff_CovP {s : St} {db : DB} (hs : s.db = some db) (hd : DInv s db) (n : Nat) :
    Durable s n ↔ CovP s db n := by
  constructor
  · intro ⟨db', g0, gf, m, h1, h2, h3, h4, h5⟩
    rw [hs] at h1; cases h1
    exact ⟨g0, gf, m, h2, hd, h3, h4, h5⟩
  · intro ⟨g0, gf, m, h1, _, h3, h4, h5⟩
    exact ⟨db, g0, gf, m, hs, h1, h3, h4, h5⟩

/-- **durability is never lost by a call** -/
theorem Durable_astep {L : Nat} {cfg : Cfg} {dir : String} {s : St} {n : Nat} (hsz : SizeOK L s)
    (hdur : DurC cfg dir s) (hn : Durable s n) (op : AOp) (hop : AOpOK op) : Durable (astep s op).1 n := by
  obtain ⟨db, hs, hd, _, _⟩ := hdur
  have hc : CovP s db n := (Durable_iff_CovP hs hd n).mp hn
  have hbs : ∀ b, db.batch = some b → BSize db.cfg.fileSize b := by
    obtain ⟨db1, _, e1, _, _, _, e5⟩ := hsz
    rw [hs] at e1
    cases e1
    exact e5
  -- it suffices to exhibit the new handle with `CovP`
  suffices h : ∃ db', (astep s op).1.db = some db' ∧ CovP (astep s op).1 db' n by
    obtain ⟨db', h1, g0, gf, m, h2, _, h4, h5, h6⟩ := h
    exact ⟨db', g0, gf, m, h1, h2, h4, h5, h6⟩
  have stage : ∀ {b : BatchSt} {must : Prop} {s' : St}, db.batch = some b → StageOut s db b must s' →
      ∃ db', s'.db = some db' ∧ CovP s' db' n := by
    intro b must s' hb o
    have hb' := hbs b hb
    have hid64 : b.id < 2 ^ 64 := by
      have := hb'.idlt
      have : (2:Nat) ^ 63 ≤ 2 ^ 64 := by decide
      omega
    cases o with
    | same e _ => rw [e]; exact ⟨db, hs, hc⟩
    | staged b' e _ _ _ _ => rw [e]; exact ⟨_, rfl, hc.congr rfl rfl rfl⟩
    | flushed b' e _ _ _ _ =>
      rw [e]
      exact ⟨_, rfl, (CovP_flushAndRotate hc b (fun r hr => (hb'.ok r hr).1) hid64).congr rfl rfl rfl⟩
  cases op with
  | put k v =>
    show ∃ db', (put s k v).1.db = some db' ∧ CovP (put s k v).1 db' n
    by_cases hk : k.size = 0
    · rw [put_keyempty s k v hk hs]; exact ⟨db, hs, hc⟩
    · have hop' : k.size + v.size ≤ 2 ^ 27 := hop
      have hr : RecOK { typ := 0, key := k, value := v, batch := 0 } :=
        ⟨by show 0 < 3; omega, by show 0 < k.size; omega, lt31_of_le27 (by show k.size ≤ 2 ^ 27; omega),
         lt31_of_le27 (by show v.size ≤ 2 ^ 27; omega), by show 0 < 2 ^ 64; decide⟩
      rw [put_eq hs k v hk]
      exact ⟨_, rfl, (CovP_appendLog hc _ hr).congr rfl rfl rfl⟩
  | del k =>
    show ∃ db', (delete s k).1.db = some db' ∧ CovP (delete s k).1 db' n
    by_cases hk : k.size = 0
    · rw [delete_keyempty s k hk hs]; exact ⟨db, hs, hc⟩
    · cases hg : Index.get db.index k with
      | none => rw [delete_eq_none hs k hk hg]; exact ⟨db, hs, hc⟩
      | some old =>
        have hop' : k.size ≤ 2 ^ 27 := hop
        have hr : RecOK { typ := 1, key := k, value := ByteArray.empty, batch := 0 } :=
          ⟨by show 1 < 3; omega, by show 0 < k.size; omega, lt31_of_le27 hop',
           by show 0 < 2 ^ 31; decide, by show 0 < 2 ^ 64; decide⟩
        rw [delete_eq_some hs k hk hg]
        exact ⟨_, rfl, (CovP_appendLog hc _ hr).congr rfl rfl rfl⟩
  | get k =>
    show ∃ db', (get s k).1.db = some db' ∧ CovP (get s k).1 db' n
    rw [Dur.get_state]; exact ⟨db, hs, hc⟩
  | sync =>
    show ∃ db', (syncDB s).1.db = some db' ∧ CovP (syncDB s).1 db' n
    rw [syncDB_eq hs]
    exact ⟨db, hs, CovP_sync hc⟩
  | bnew sy id =>
    show ∃ db', (bnew s sy id).1.db = some db' ∧ CovP (bnew s sy id).1 db' n
    rw [bnew_eq hs]
    exact ⟨_, rfl, hc.congr rfl rfl rfl⟩
  | bput k v =>
    show ∃ db', (bput s k v).1.db = some db' ∧ CovP (bput s k v).1 db' n
    cases hb : db.batch with
    | none => rw [bput_nobatch hs hb]; exact ⟨db, hs, hc⟩
    | some b => exact stage hb (bput_out hs hb k v)
  | bdel k =>
    show ∃ db', (bdel s k).1.db = some db' ∧ CovP (bdel s k).1 db' n
    cases hb : db.batch with
    | none => rw [bdel_nobatch hs hb]; exact ⟨db, hs, hc⟩
    | some b => exact stage hb (bdel_out hs hb k)
  | bget k =>
    show ∃ db', (bget s k).1.db = some db' ∧ CovP (bget s k).1 db' n
    rw [bget_state]; exact ⟨db, hs, hc⟩
  | bcommit =>
    show ∃ db', (bcommit s).1.db = some db' ∧ CovP (bcommit s).1 db' n
    cases hb : db.batch with
    | none => rw [bcommit_nobatch hs hb]; exact ⟨db, hs, hc⟩
    | some b =>
      by_cases hcm : b.committed = true
      · rw [bcommit_committed hs hb hcm]; exact ⟨db, hs, hc⟩
      · have hc' : b.committed = false := by simpa using hcm
        by_cases he : b.staged = []
        · rw [bcommit_empty hs hb hc' he]; exact ⟨_, rfl, hc.congr rfl rfl rfl⟩
        · have hb' := hbs b hb
          have hid64 : b.id < 2 ^ 64 := by
            have := hb'.idlt
            have : (2:Nat) ^ 63 ≤ 2 ^ 64 := by decide
            omega
          rw [bcommit_nonempty hs hb hc' he]
          have h1 := CovP_flushStaged hc { b with committed := true } (fun r hr => (hb'.ok r hr).1) hid64
          have hbat := flushStaged_batch s db { b with committed := true }
          have h2 := CovP_seal h1 (flushStaged s db { b with committed := true }).2.2 (by rw [hbat]; exact hb'.idlt)
          exact ⟨_, rfl, h2.congr rfl rfl rfl⟩
  | bdrop =>
    show ∃ db', (bdrop s).1.db = some db' ∧ CovP (bdrop s).1 db' n
    rw [bdrop_eq hs]
    exact ⟨_, rfl, hc.congr rfl rfl rfl⟩

/-- **durability is never lost by a history** -/
theorem Durable_arun {L : Nat} {cfg : Cfg} {dir : String} (ops : List AOp) : ∀ {s : St} {n : Nat},
    SizeOK L s → DurC cfg dir s → Durable s n → (∀ op ∈ ops, AOpOK op) → Durable (arun s ops) n := by
  induction ops with
  | nil => intro s n _ _ h _; exact h
  | cons op ops ih =>
    intro s n hsz hdur hn hok
    exact ih (SizeOK_astep hsz op (hok op (by simp))) (DurC_astep hdur op)
      (Durable_astep hsz hdur hn op (hok op (by simp))) (fun o ho => hok o (by simp [ho]))

end XixiKV.C03H
