import XixiKV.Proofs.ConcBatchLin
/-!
# The executable replay of `Model/ConcBatch.lean` is sound for the step relation
-/
namespace XixiKV.ConcBatch
open XixiKV.Conc (Tid Key Val upd updK Res upd_same upd_ne)

theorem next_sound {sh : Shape} {g g' : G} {t : Tid} {l : Label} (h : next sh g t l = some g') :
    Step sh g g' := by
  unfold next at h
  split at h
  all_goals (try split at h)
  all_goals (try split at h)
  all_goals (try split at h)
  all_goals first
    | (cases h; done)
    | (cases h
       first
       | exact Step.call _ _ _ (by assumption)
       | exact Step.ret _ _ _ (by assumption)
       | exact Step.rel _ _ _ (by assumption)
       | exact Step.putAcq _ _ _ _ (by assumption) (by assumption)
       | exact Step.delAcq _ _ _ (by assumption) (by assumption)
       | exact Step.batAcq _ _ _ (by assumption) (by assumption)
       | exact Step.putAppend _ _ _ _ (by assumption)
       | exact Step.delAppend _ _ _ (by assumption)
       | exact Step.putIndex _ _ _ _ _ (by assumption)
       | exact Step.delIndex _ _ _ (by assumption)
       | exact Step.batIndex _ _ _ _ _ _ _ _ _ (by assumption)
       | exact Step.delCheckMiss _ _ _ (by assumption) (by assumption)
       | exact Step.delCheckHit _ _ _ _ (by assumption) (by assumption)
       | exact Step.getIdxMiss _ _ _ (by assumption) (by assumption) (by assumption)
       | exact Step.getIdxWait _ _ _ _ (by assumption) (by assumption) (by assumption) (by assumption)
       | exact Step.getIdxHit _ _ _ _ (by assumption) (by assumption) (by assumption) (Bool.eq_false_iff.2 (by assumption))
       | exact Step.getResolve _ _ _ _ (by assumption) (by assumption)
       | exact Step.batStage _ _ _ _ _ _ _ _ (by assumption)
       | exact Step.batFlushEarly _ _ _ _ _ _ _ _ (by assumption) (by assumption)
       | exact Step.batResume _ _ _ _ _ _ _ (by assumption)
       | exact Step.batCommitEmpty _ _ _ _ _ (by assumption)
       | exact Step.batCommitFlush _ _ _ _ _ _ (by assumption) (by simp)
       | exact Step.batSeal _ _ _ _ _ (by assumption))

theorem exec_reachable {sh : Shape} {s : Schedule} {g g' : G} (hr : Reachable sh g)
    (h : exec sh s g = some g') : Reachable sh g' := by
  induction s generalizing g with
  | nil => simp only [exec, Option.some.injEq] at h; subst h; exact hr
  | cons a rest ih =>
    obtain ⟨t, l⟩ := a
    simp only [exec] at h
    cases hn : next sh g t l with
    | none => rw [hn] at h; cases h
    | some g1 =>
      rw [hn] at h
      exact ih (Reachable.step hr (next_sound hn)) h

/-- a schedule accepted by `exec` from `init` leads to a reachable state -/
theorem exec_init_reachable {sh : Shape} {s : Schedule}
    (h : (exec sh s init).isSome = true) : Reachable sh ((exec sh s init).getD init) := by
  cases he : exec sh s init with
  | none => rw [he] at h; cases h
  | some g => exact exec_reachable .init he

end XixiKV.ConcBatch
