import XixiKV.Proofs.DatatypeEngineOps
import XixiKV.Proofs.TransEq4
/-!
# Sizes of what the redis-style layer hands to the engine

Internal keys are `key ‖ 8 bytes ‖ suffix`; a metadata record is at most 46 bytes (type byte, three varints of an
`int64` / `uint32`, two of a `uint64` for a list); a string record is the value plus at most 11 bytes.  The
metadata bound needs the FIELDS to be in their machine ranges — for a record read back from the store that is a
property of the decoder (`decodeMeta_bnd`: a decoded varint is below `2^64`).
-/
namespace XixiKV.Datatype.On
open XixiKV XixiKV.Varint XixiKV.Record

/-! ## decoded varints are in range -/

theorem uvarintGo_lt : ∀ (l : List UInt8) (i s x v n : Nat), uvarintGo l i s x = some (v, n) →
    s = 7 * i → x < 2 ^ s → i ≤ 10 → v < 2 ^ 64
  | [], i, s, x, v, n, h, _, _, _ => by
    simp only [uvarintGo, Option.some.injEq, Prod.mk.injEq] at h
    obtain ⟨rfl, _⟩ := h
    exact Nat.two_pow_pos 64
  | b :: bs, i, s, x, v, n, h, hs, hx, hi => by
    simp only [uvarintGo] at h
    split at h
    · cases h
    · rename_i hi10
      split at h
      · rename_i hb
        split at h
        · cases h
        · rename_i h9
          simp only [Option.some.injEq, Prod.mk.injEq] at h
          obtain ⟨rfl, _⟩ := h
          by_cases hi9 : i = 9
          · subst hi9
            subst hs
            have hb1 : b.toNat ≤ 1 := by omega
            have : b.toNat * 2 ^ (7 * 9) ≤ 1 * 2 ^ (7 * 9) := Nat.mul_le_mul_right _ hb1
            have e : (2:Nat) ^ 64 = 2 ^ (7 * 9) + 1 * 2 ^ (7 * 9) := by decide
            omega
          · have hle : s + 7 ≤ 64 := by omega
            have h1 : b.toNat * 2 ^ s ≤ 127 * 2 ^ s := Nat.mul_le_mul_right _ (by omega)
            have h2 : (2:Nat) ^ (s + 7) = 128 * 2 ^ s := by rw [Nat.pow_add]; omega
            have h3 : (2:Nat) ^ (s + 7) ≤ 2 ^ 64 := Nat.pow_le_pow_right (by decide) hle
            omega
      · rename_i hb
        refine uvarintGo_lt bs (i + 1) (s + 7) _ v n h (by omega) ?_ (by omega)
        have h1 : b.toNat % 128 * 2 ^ s ≤ 127 * 2 ^ s := Nat.mul_le_mul_right _ (by omega)
        have h2 : (2:Nat) ^ (s + 7) = 128 * 2 ^ s := by rw [Nat.pow_add]; omega
        omega

theorem uvarint_lt {l : List UInt8} {v n : Nat} (h : uvarint l = some (v, n)) : v < 2 ^ 64 :=
  uvarintGo_lt l 0 0 0 v n h rfl (by decide) (by decide)

theorem varintNat_lt {l : List UInt8} {v n : Nat} (h : varintNat l = some (v, n)) : v < 2 ^ 63 := by
  unfold varintNat at h
  split at h
  · rename_i ux m hu
    have := uvarint_lt hu
    split at h
    · simp only [Option.some.injEq, Prod.mk.injEq] at h
      omega
    · cases h
  · cases h

/-! ## metadata records -/

/-- the fields are in their machine ranges (`int64 ≥ 0`, `uint32`, `uint64`) -/
structure MetaBnd (m : Meta) : Prop where
  expire : m.expire < 2 ^ 63
  version : m.version < 2 ^ 63
  size : m.size < 2 ^ 32
  head : m.head < 2 ^ 64
  tail : m.tail < 2 ^ 64

theorem decodeMeta_bnd {buf : ByteArray} {m : Meta} (h : decodeMeta buf = some m) : MetaBnd m := by
  obtain ⟨r, n1, n2, n3, sz, _, h1, h2, _, h4, h5⟩ := TransEq.decodeMeta_some h
  refine ⟨varintNat_lt h1, varintNat_lt h2, ?_, ?_, ?_⟩
  · rw [h4]; exact Nat.mod_lt _ (by decide)
  · rcases h5 with ⟨_, n4, n5, e4, _⟩ | ⟨_, e, _⟩
    · exact uvarint_lt e4
    · rw [e]; decide
  · rcases h5 with ⟨_, n4, n5, _, e5⟩ | ⟨_, _, e⟩
    · exact uvarint_lt e5
    · rw [e]; decide

theorem freshMeta_bnd (dt : UInt8) {now : Nat} (h : now < 2 ^ 63) : MetaBnd (freshMeta dt now) := by
  refine ⟨?_, h, ?_, ?_, ?_⟩
  · show 0 < 2 ^ 63
    decide
  · show 0 < 2 ^ 32
    decide
  · simp only [freshMeta]; split <;> decide
  · simp only [freshMeta]; split <;> decide

theorem metaOfRecord_bnd {buf : ByteArray} {now : Nat} {dt : UInt8} {m : Meta} (hnow : now < 2 ^ 63)
    (h : metaOfRecord buf now dt = .ok m) : MetaBnd m := by
  unfold metaOfRecord at h
  split at h
  · cases h
  · split at h
    · cases h; exact freshMeta_bnd dt hnow
    · split at h
      · cases h
      · split at h
        · cases h
        · split at h
          · cases h
          · rename_i m' hd
            cases h
            exact decodeMeta_bnd hd

theorem findMetadata_bnd {kv : KV} {now : Nat} {key : ByteArray} {dt : UInt8} {m : Meta} (hnow : now < 2 ^ 63)
    (h : findMetadata kvStore kv now key dt = .ok m) : MetaBnd m ∧ key.size ≠ 0 := by
  rw [findMetadata_kv] at h
  refine ⟨?_, findMetadata_ok_key h⟩
  rw [findMetadata_eq, if_neg (findMetadata_ok_key h)] at h
  split at h
  · cases h; exact freshMeta_bnd dt hnow
  · exact metaOfRecord_bnd hnow h

theorem putVarintNat_length_le {n : Nat} (h : n < 2 ^ 63) : (putVarintNat n).length ≤ 10 :=
  putUvarint_length_le _ (by omega)

/-- a metadata record is at most 46 bytes long -/
theorem encodeMeta_size_le {m : Meta} (h : MetaBnd m) : (encodeMeta m).size ≤ 46 := by
  have l1 := putVarintNat_length_le h.expire
  have l2 := putVarintNat_length_le h.version
  have l3 : (putVarintNat m.size).length ≤ 5 := by
    apply putUvarint_length_le_of_lt 4 (2 * m.size)
    have := h.size
    omega
  have l4 := putUvarint_length_le m.head h.head
  have l5 := putUvarint_length_le m.tail h.tail
  rw [← toL_length]
  show (encodeMeta m).data.toList.length ≤ 46
  rw [encodeMeta_toL]
  simp only [List.length_cons, List.length_append]
  split
  · simp only [List.length_append]; omega
  · simp only [List.length_nil]; omega

/-- a string record is the value plus at most 11 bytes -/
theorem encodeStr_size_le {e : Nat} (v : ByteArray) (h : e < 2 ^ 63) : (encodeStr e v).size ≤ v.size + 11 := by
  have l1 := putVarintNat_length_le h
  unfold encodeStr
  rw [ByteArray.size_append, size_ofList, List.length_cons]
  omega

/-! ## internal keys -/

theorem hashKey_size (k : ByteArray) (v : Nat) (f : ByteArray) : (hashKey k v f).size = k.size + 8 + f.size :=
  ikey_size _ _ _
theorem setKey_size (k : ByteArray) (v : Nat) (m : ByteArray) : (setKey k v m).size = k.size + 8 + (m.size + 4) := by
  unfold setKey; rw [ikey_size, ByteArray.size_append, le32_size]
theorem listKey_size (k : ByteArray) (v i : Nat) : (listKey k v i).size = k.size + 8 + 8 := by
  unfold listKey; rw [ikey_size, le64_size]
theorem zmemKey_size (k : ByteArray) (v : Nat) (m : ByteArray) : (zmemKey k v m).size = k.size + 8 + m.size :=
  ikey_size _ _ _
theorem zscoreKey_size (k : ByteArray) (v : Nat) (sc : Score) (m : ByteArray) :
    (zscoreKey k v sc m).size = k.size + 8 + (sc.size + m.size + 4) := by
  unfold zscoreKey; rw [ikey_size, ByteArray.size_append, ByteArray.size_append, le32_size]

theorem scoreOfBytes_size_le (v : ByteArray) : (scoreOfBytes v).size ≤ v.size + 1 := by
  unfold scoreOfBytes
  split
  · rename_i h; rw [h]; decide
  · omega

/-! ## size estimates -/

theorem dse_le {a b n : Nat} (h : a + b ≤ n) : diskSizeEstimate a b ≤ diskSizeEstimate n 0 := by
  have hH : Frame.H = 7 := rfl
  have hBS : Frame.BS = 32768 := rfl
  simp only [diskSizeEstimate, hH, hBS]
  have : (21 + a + b + 10 + 1) / 32768 ≤ (21 + n + 0 + 10 + 1) / 32768 := Nat.div_le_div_right (by omega)
  omega

end XixiKV.Datatype.On
