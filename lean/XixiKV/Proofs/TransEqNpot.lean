import XixiKV.Proofs.TransEqBase
/-! # translated Go function(s) = model: Npot (split out of `TransEq.lean` so that a function that leaves the
    translator's subset, or whose proof breaks, affects only the properties that restate it) -/
namespace XixiKV.TransEq
open XixiKV XixiKV.Generated.Trans XixiKV.Frame
/-! ## (b) `nextPowerOfTwo` -/

/-- **`index.nextPowerOfTwo` = `Index.nextPowerOfTwo`** for `1 ≤ cap < 2^62` -/
theorem trans_nextPowerOfTwo_eq (cap : Nat) (h1 : 1 ≤ cap) (h2 : cap < 2^62) :
    index.nextPowerOfTwo (cap : Int) = (Index.nextPowerOfTwo cap : Int) := by
  have hc : ((cap : Int) - 1) = ((cap - 1 : Nat) : Int) := by omega
  simp (disch := omega) only [index.nextPowerOfTwo, Index.nextPowerOfTwo, index.MaxCap, i64_of_range, hc,
    ior_ofNat, shr_ofNat]
  split <;> split <;> first | rfl | omega | (simp (disch := omega) only [i64_of_range]; omega)

example : index.nextPowerOfTwo ((37 : Nat) : Int) = (Index.nextPowerOfTwo 37 : Int) :=
  trans_nextPowerOfTwo_eq 37 (by decide) (by decide)
example : index.nextPowerOfTwo 37 = 64 := by decide

end XixiKV.TransEq
