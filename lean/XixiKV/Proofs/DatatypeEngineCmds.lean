import XixiKV.Proofs.DatatypeEngineSizes
/-!
# One command of the redis-style layer: the engine model simulates the abstract store

`sim_cmd`: under `Rel dir V s kv` (`Proofs/DatatypeEngineOps.lean`) and the side conditions `ECmdOK V c now`
(arguments at most `V ≤ 2^25` bytes together, clock below `2^63`), the command `c` run on the engine model
(`dtStep`) and run on the abstract store (`Datatype.run`, through `run_kvStore`) give the same reply and
related post-states; the size bound `Bnd` grows by at most 8 file ids and `ecost V c` bytes.
-/
namespace XixiKV.Datatype.On
open XixiKV XixiKV.Engine XixiKV.Engine.HistP
open XixiKV.Record (diskSizeEstimate)

/-! ## side conditions and cost of a command -/

/-- the bytes of all arguments of a command -/
def argSize : Cmd → Nat
  | .set k none _ => k.size
  | .set k (some v) _ => k.size + v.size
  | .get k | .del k | .type k | .lpop k | .rpop k => k.size
  | .hset k f v => k.size + f.size + v.size
  | .hget k f | .hdel k f | .sadd k f | .sismember k f | .srem k f | .lpush k f | .rpush k f | .zscore k f =>
    k.size + f.size
  | .zadd k sc m => k.size + sc.size + m.size

/-- the expiry time of a `Set` fits an `int64` -/
def TtlOK (c : Cmd) (now : Nat) : Prop :=
  match c with
  | .set _ (some _) ttl => now + ttl < 2 ^ 63
  | _ => True

/-- **engine-side conditions on a command**: its arguments are at most `V` bytes together, the clock fits an
    `int64`, and so does the expiry time of a `Set` -/
def ECmdOK (V : Nat) (c : Cmd) (now : Nat) : Prop :=
  argSize c ≤ V ∧ now < 2 ^ 63 ∧ TtlOK c now

instance (V : Nat) (c : Cmd) (now : Nat) : Decidable (ECmdOK V c now) := by
  unfold ECmdOK TtlOK
  cases c with
  | set k v ttl => cases v <;> infer_instance
  | _ => infer_instance

/-- an upper bound for the bytes a writing command with `n` bytes of arguments adds to the data files: at most
    three records of at most `n + V + 128` bytes of key and value, and the sealing record of the batch -/
def wc (V n : Nat) : Nat := 3 * diskSizeEstimate (n + V + 128) 0 + finCost

/-- the same per command; the reading commands write nothing -/
def ecost (V : Nat) : Cmd → Nat
  | .get _ | .type _ | .hget _ _ | .sismember _ _ | .zscore _ _ => 0
  | c => wc V (argSize c)

/-! ## the simulation of one call, with the cost bound -/

def Sim (dir : String) (V : Nat) (s : St) (C : Nat) (p : St × Reply) (q : KV × Reply) : Prop :=
  p.2 = q.2 ∧ Rel dir V p.1 q.1 ∧ ∀ A W, Bnd s A W → Bnd p.1 (A + 8) (W + C)

section
variable {dir : String} {V : Nat} {s : St} {kv : KV}

theorem Sim.same (h : Rel dir V s kv) (C : Nat) (r : Reply) : Sim dir V s C (s, r) (kv, r) :=
  ⟨rfl, h, fun _ _ hb => hb.mono (by omega) (by omega)⟩

theorem findMetadata_engine (h : Rel dir V s kv) (bid now : Nat) (key : ByteArray) (dt : UInt8) :
    findMetadata (engineStore bid) s now key dt = findMetadata kvStore kv now key dt := by
  unfold findMetadata
  rw [sim_get_fun h bid]

/-- what a staged operation needs: key and value within the budget of the command, the value small -/
def OpFits (V n : Nat) : KV.Op → Prop
  | .put k v => k.size + v.size ≤ n + V + 128 ∧ v.size ≤ V + 64
  | .del k => k.size ≤ n + V + 128

theorem OpFits.le {n : Nat} (hn : n ≤ V) (hV : V ≤ 2 ^ 25) {op : KV.Op} (h : OpFits V n op) : OpLE (V + 64) op := by
  have e : (2:Nat) ^ 27 = 4 * 2 ^ 25 := by decide
  have p : (0:Nat) < 2 ^ 25 := by decide
  cases op with
  | put k v => exact ⟨by have := h.1; omega, h.2⟩
  | del k => show k.size ≤ 2 ^ 27; have : k.size ≤ n + V + 128 := h; omega

theorem OpFits.cost {n : Nat} {op : KV.Op} (h : OpFits V n op) : opCost op ≤ diskSizeEstimate (n + V + 128) 0 := by
  cases op with
  | put k v => exact dse_le h.1
  | del k => exact dse_le (show k.size + 0 ≤ _ from h)

theorem opsCost_le {n : Nat} : ∀ (ops : List KV.Op), (∀ op ∈ ops, OpFits V n op) →
    opsCost ops ≤ ops.length * diskSizeEstimate (n + V + 128) 0 := by
  intro ops
  induction ops with
  | nil => intro _; simp [opsCost]
  | cons op ops ih =>
    intro h
    have h1 := (h op (by simp)).cost
    have h2 := ih (fun o ho => h o (by simp [ho]))
    simp only [opsCost, List.map_cons, List.sum_cons, List.length_cons] at h2 ⊢
    rw [Nat.add_mul]
    omega

theorem commit_of_ok {σ : Type} (S : Store σ) (s : σ) (ops : List KV.Op) (r : Reply) (h : (S.batch s ops).2 = .ok) :
    commit S s ops r = ((S.batch s ops).1, r) := by
  unfold commit
  generalize S.batch s ops = p at h
  obtain ⟨a, b⟩ := p
  simp only at h
  subst h
  rfl

/-- one committed batch in tail position -/
theorem Sim.commit (h : Rel dir V s kv) {bid : Nat} (h0 : 0 < bid) (hlt : bid < 2 ^ 63) {n : Nat} (hn : n ≤ V)
    (hV : V ≤ 2 ^ 25) (ops : List KV.Op) (r : Reply) (hlen : ops.length ≤ 3) (hops : ∀ op ∈ ops, OpFits V n op) :
    Sim dir V s (wc V n) (commit (engineStore bid) s ops r) (commit kvStore kv ops r) := by
  obtain ⟨h1, h2, h3⟩ := sim_batch h bid h0 hlt ops (fun op hop => (hops op hop).le hn hV)
  rw [commit_of_ok (engineStore bid) s ops r h1, commit_of_ok kvStore kv ops r rfl]
  refine ⟨rfl, h2, fun A W hb => (h3 A W hb).mono (by omega) ?_⟩
  have hc := opsCost_le ops hops
  have : ops.length * diskSizeEstimate (n + V + 128) 0 ≤ 3 * diskSizeEstimate (n + V + 128) 0 :=
    Nat.mul_le_mul_right _ hlen
  unfold wc
  omega

/-- a plain `db.Put` in tail position -/
theorem Sim.putReply (h : Rel dir V s kv) (bid : Nat) {n : Nat} (hn : n ≤ V) (hV : V ≤ 2 ^ 25) (k v : ByteArray)
    (r : Reply) (hfit : OpFits V n (.put k v)) :
    Sim dir V s (wc V n) (putReply (engineStore bid) s k v r) (putReply kvStore kv k v r) := by
  have hle := hfit.le hn hV
  obtain ⟨e, hr, hb⟩ := sim_put h k v hle.1 hle.2
  have hc : diskSizeEstimate k.size v.size ≤ wc V n := by
    have := hfit.cost
    simp only [opCost] at this
    unfold wc
    omega
  unfold On.putReply
  rw [show (engineStore bid).put s k v = Engine.put s k v from rfl]
  generalize Engine.put s k v = p at e hr hb
  generalize kvStore.put kv k v = q at e hr
  obtain ⟨s', r1⟩ := p
  obtain ⟨kv', r2⟩ := q
  simp only at e hr hb
  subst e
  cases r1 <;> exact ⟨rfl, hr, fun A W hB => (hb A W hB).mono (by omega) (by omega)⟩

/-! ## the sixteen commands -/

variable {bid : Nat}

theorem MetaBnd.upd {m : Meta} (h : MetaBnd m) {n a b : Nat} (hn : n < 2 ^ 32) (ha : a < 2 ^ 64) (hb : b < 2 ^ 64) :
    MetaBnd { m with size := n, head := a, tail := b } :=
  ⟨h.expire, h.version, hn, ha, hb⟩

theorem MetaBnd.setSize {m : Meta} (h : MetaBnd m) {n : Nat} (hn : n < 2 ^ 32) : MetaBnd { m with size := n } :=
  ⟨h.expire, h.version, hn, h.head, h.tail⟩

theorem mod32_lt (n : Nat) : n % 2 ^ 32 < 2 ^ 32 := Nat.mod_lt _ (by decide)
theorem mod64_lt (n : Nat) : n % 2 ^ 64 < 2 ^ 64 := Nat.mod_lt _ (by decide)

theorem size_empty' : ByteArray.empty.size = 0 := rfl

/-- discharge `OpFits V n op` from size facts in the context -/
macro "fits" : tactic => `(tactic|
  (simp only [OpFits, hashKey_size, setKey_size, listKey_size, zmemKey_size, zscoreKey_size, scoreBytes, size_empty']
   omega))

theorem sim_set (hV : V ≤ 2 ^ 25) (h : Rel dir V s kv) (now : Nat) (key : ByteArray) (value : Option ByteArray)
    (ttl : Nat) (hc : ECmdOK V (.set key value ttl) now) :
    Sim dir V s (ecost V (.set key value ttl)) (set (engineStore bid) s now key value ttl)
      (set kvStore kv now key value ttl) := by
  unfold set
  cases value with
  | none => exact Sim.same h _ _
  | some v =>
    obtain ⟨hsz, hnow, httl⟩ := hc
    simp only [argSize] at hsz
    have httl : now + ttl < 2 ^ 63 := httl
    have he : (if ttl ≠ 0 then now + ttl else 0) < 2 ^ 63 := by split <;> omega
    have hs := encodeStr_size_le v he
    exact Sim.putReply h bid (n := key.size + v.size) hsz hV key _ _ ⟨by omega, by omega⟩

theorem sim_get_cmd (h : Rel dir V s kv) (now : Nat) (key : ByteArray) :
    Sim dir V s 0 (get (engineStore bid) s now key) (get kvStore kv now key) := by
  unfold get
  rw [sim_get_fun h bid]
  split <;> exact Sim.same h _ _

theorem sim_type (h : Rel dir V s kv) (now : Nat) (key : ByteArray) :
    Sim dir V s 0 (type (engineStore bid) s now key) (type kvStore kv now key) := by
  unfold type
  rw [sim_get_fun h bid]
  split <;> exact Sim.same h _ _

theorem sim_del (hV : V ≤ 2 ^ 25) (h : Rel dir V s kv) (key : ByteArray) (hsz : key.size ≤ V) :
    Sim dir V s (wc V key.size) (del (engineStore bid) s key) (del kvStore kv key) := by
  have e27 : (2:Nat) ^ 27 = 4 * 2 ^ 25 := by decide
  obtain ⟨e, hr, hb⟩ := sim_delete h key (by omega)
  have hc : diskSizeEstimate key.size 0 ≤ wc V key.size := by
    have := dse_le (a := key.size) (b := 0) (n := key.size + V + 128) (by omega)
    unfold wc
    omega
  unfold del
  rw [show (engineStore bid).delete s key = Engine.delete s key from rfl]
  generalize Engine.delete s key = p at e hr hb
  generalize kvStore.delete kv key = q at e hr
  obtain ⟨s', r1⟩ := p
  obtain ⟨kv', r2⟩ := q
  simp only at e hr hb
  subst e
  cases r1 <;> exact ⟨rfl, hr, fun A W hB => (hb A W hB).mono (by omega) (by omega)⟩

theorem sim_hset (hV : V ≤ 2 ^ 25) (h : Rel dir V s kv) (h0 : 0 < bid) (hlt : bid < 2 ^ 63) (now : Nat)
    (key field value : ByteArray) (hsz : key.size + field.size + value.size ≤ V) (hnow : now < 2 ^ 63) :
    Sim dir V s (wc V (key.size + field.size + value.size)) (hset (engineStore bid) s now key field value)
      (hset kvStore kv now key field value) := by
  unfold hset
  rw [findMetadata_engine h bid, sim_get_fun h bid]
  cases hm : findMetadata kvStore kv now key tHash with
  | error e => exact Sim.same h _ e
  | ok m =>
    obtain ⟨hmb, hk⟩ := findMetadata_bnd hnow hm
    have hme := encodeMeta_size_le (hmb.setSize (mod32_lt (m.size + 1)))
    simp only
    refine Sim.commit h h0 hlt hsz hV _ _ ?_ ?_
    · split <;> simp
    · intro op hop
      split at hop
      · simp only [List.nil_append, List.mem_cons, List.not_mem_nil, or_false] at hop
        subst hop
        fits
      · simp only [List.cons_append, List.nil_append, List.mem_cons, List.not_mem_nil, or_false] at hop
        rcases hop with rfl | rfl
        · fits
        · fits

theorem sim_hget (h : Rel dir V s kv) (now : Nat) (key field : ByteArray) :
    Sim dir V s 0 (hget (engineStore bid) s now key field) (hget kvStore kv now key field) := by
  unfold hget
  rw [findMetadata_engine h bid, sim_get_fun h bid]
  cases hm : findMetadata kvStore kv now key tHash with
  | error e => exact Sim.same h _ e
  | ok m =>
    simp only
    split
    · exact Sim.same h _ _
    · split <;> exact Sim.same h _ _

theorem sim_hdel (hV : V ≤ 2 ^ 25) (h : Rel dir V s kv) (h0 : 0 < bid) (hlt : bid < 2 ^ 63) (now : Nat)
    (key field : ByteArray) (hsz : key.size + field.size ≤ V) (hnow : now < 2 ^ 63) :
    Sim dir V s (wc V (key.size + field.size)) (hdel (engineStore bid) s now key field)
      (hdel kvStore kv now key field) := by
  unfold hdel
  rw [findMetadata_engine h bid, sim_get_fun h bid]
  cases hm : findMetadata kvStore kv now key tHash with
  | error e => exact Sim.same h _ e
  | ok m =>
    obtain ⟨hmb, hk⟩ := findMetadata_bnd hnow hm
    have hme := encodeMeta_size_le (hmb.setSize (n := m.size - 1) (by have := hmb.size; omega))
    simp only
    split
    · exact Sim.same h _ _
    · split
      · refine Sim.commit h h0 hlt hsz hV _ _ (by simp) ?_
        intro op hop
        simp only [List.mem_cons, List.not_mem_nil, or_false] at hop
        rcases hop with rfl | rfl
        · fits
        · fits
      · exact Sim.same h _ _

theorem sim_sadd (hV : V ≤ 2 ^ 25) (h : Rel dir V s kv) (h0 : 0 < bid) (hlt : bid < 2 ^ 63) (now : Nat)
    (key member : ByteArray) (hsz : key.size + member.size ≤ V) (hnow : now < 2 ^ 63) :
    Sim dir V s (wc V (key.size + member.size)) (sadd (engineStore bid) s now key member)
      (sadd kvStore kv now key member) := by
  unfold sadd
  rw [findMetadata_engine h bid, sim_get_fun h bid]
  cases hm : findMetadata kvStore kv now key tSet with
  | error e => exact Sim.same h _ e
  | ok m =>
    obtain ⟨hmb, hk⟩ := findMetadata_bnd hnow hm
    have hme := encodeMeta_size_le (hmb.setSize (mod32_lt (m.size + 1)))
    simp only
    split
    · refine Sim.commit h h0 hlt hsz hV _ _ (by simp) ?_
      intro op hop
      simp only [List.mem_cons, List.not_mem_nil, or_false] at hop
      rcases hop with rfl | rfl
      · fits
      · fits
    · exact Sim.same h _ _

theorem sim_sismember (h : Rel dir V s kv) (now : Nat) (key member : ByteArray) :
    Sim dir V s 0 (sismember (engineStore bid) s now key member) (sismember kvStore kv now key member) := by
  unfold sismember
  rw [findMetadata_engine h bid, sim_get_fun h bid]
  cases hm : findMetadata kvStore kv now key tSet with
  | error e => exact Sim.same h _ e
  | ok m =>
    simp only
    split
    · exact Sim.same h _ _
    · split <;> exact Sim.same h _ _

theorem sim_srem (hV : V ≤ 2 ^ 25) (h : Rel dir V s kv) (h0 : 0 < bid) (hlt : bid < 2 ^ 63) (now : Nat)
    (key member : ByteArray) (hsz : key.size + member.size ≤ V) (hnow : now < 2 ^ 63) :
    Sim dir V s (wc V (key.size + member.size)) (srem (engineStore bid) s now key member)
      (srem kvStore kv now key member) := by
  unfold srem
  rw [findMetadata_engine h bid, sim_get_fun h bid]
  cases hm : findMetadata kvStore kv now key tSet with
  | error e => exact Sim.same h _ e
  | ok m =>
    obtain ⟨hmb, hk⟩ := findMetadata_bnd hnow hm
    have hme := encodeMeta_size_le (hmb.setSize (n := m.size - 1) (by have := hmb.size; omega))
    simp only
    split
    · exact Sim.same h _ _
    · split
      · exact Sim.same h _ _
      · refine Sim.commit h h0 hlt hsz hV _ _ (by simp) ?_
        intro op hop
        simp only [List.mem_cons, List.not_mem_nil, or_false] at hop
        rcases hop with rfl | rfl
        · fits
        · fits

theorem sim_push (hV : V ≤ 2 ^ 25) (h : Rel dir V s kv) (h0 : 0 < bid) (hlt : bid < 2 ^ 63) (now : Nat)
    (key elem : ByteArray) (isLeft : Bool) (hsz : key.size + elem.size ≤ V) (hnow : now < 2 ^ 63) :
    Sim dir V s (wc V (key.size + elem.size)) (push (engineStore bid) s now key elem isLeft)
      (push kvStore kv now key elem isLeft) := by
  unfold push
  rw [findMetadata_engine h bid]
  cases hm : findMetadata kvStore kv now key tList with
  | error e => exact Sim.same h _ e
  | ok m =>
    obtain ⟨hmb, hk⟩ := findMetadata_bnd hnow hm
    have hme := encodeMeta_size_le (hmb.upd (mod32_lt (m.size + 1))
      (a := if isLeft then (m.head + (2 ^ 64 - 1)) % 2 ^ 64 else m.head)
      (b := if isLeft then m.tail else (m.tail + 1) % 2 ^ 64)
      (by split; exact mod64_lt _; exact hmb.head) (by split; exact hmb.tail; exact mod64_lt _))
    simp only
    refine Sim.commit h h0 hlt hsz hV _ _ (by simp) ?_
    intro op hop
    simp only [List.mem_cons, List.not_mem_nil, or_false] at hop
    rcases hop with rfl | rfl
    · fits
    · fits

theorem sim_pop (hV : V ≤ 2 ^ 25) (h : Rel dir V s kv) (now : Nat)
    (key : ByteArray) (isLeft : Bool) (hsz : key.size ≤ V) (hnow : now < 2 ^ 63) :
    Sim dir V s (wc V key.size) (pop (engineStore bid) s now key isLeft) (pop kvStore kv now key isLeft) := by
  unfold pop
  rw [findMetadata_engine h bid, sim_get_fun h bid]
  cases hm : findMetadata kvStore kv now key tList with
  | error e => exact Sim.same h _ e
  | ok m =>
    obtain ⟨hmb, hk⟩ := findMetadata_bnd hnow hm
    have hme := encodeMeta_size_le (hmb.upd (n := m.size - 1) (by have := hmb.size; omega)
      (a := if isLeft then (m.head + 1) % 2 ^ 64 else m.head)
      (b := if isLeft then m.tail else (m.tail + (2 ^ 64 - 1)) % 2 ^ 64)
      (by split; exact mod64_lt _; exact hmb.head) (by split; exact hmb.tail; exact mod64_lt _))
    simp only
    split
    · exact Sim.same h _ _
    · split
      · refine Sim.putReply h bid hsz hV key _ _ ?_
        fits
      · exact Sim.same h _ _

theorem sim_zadd (hV : V ≤ 2 ^ 25) (h : Rel dir V s kv) (h0 : 0 < bid) (hlt : bid < 2 ^ 63) (now : Nat)
    (key : ByteArray) (score : Score) (member : ByteArray) (hsz : key.size + score.size + member.size ≤ V)
    (hnow : now < 2 ^ 63) :
    Sim dir V s (wc V (key.size + score.size + member.size)) (zadd (engineStore bid) s now key score member)
      (zadd kvStore kv now key score member) := by
  unfold zadd
  rw [findMetadata_engine h bid, sim_get_fun h bid]
  cases hm : findMetadata kvStore kv now key tZSet with
  | error e => exact Sim.same h _ e
  | ok m =>
    obtain ⟨hmb, hk⟩ := findMetadata_bnd hnow hm
    have hme := encodeMeta_size_le (hmb.setSize (mod32_lt (m.size + 1)))
    simp only
    rw [kvStore_get, kvRes_ne kv (by ksz)]
    cases hg : kv.get (zmemKey key m.version member) with
    | none =>
      simp only [optRes]
      refine Sim.commit h h0 hlt hsz hV _ _ (by simp) ?_
      intro op hop
      simp only [List.mem_cons, List.not_mem_nil, or_false] at hop
      rcases hop with rfl | rfl | rfl
      · fits
      · fits
      · fits
    | some value =>
      have hval := h.2 _ _ hg
      have hsc := scoreOfBytes_size_le value
      simp only [optRes]
      split
      · exact Sim.same h _ _
      · refine Sim.commit h h0 hlt hsz hV _ _ (by simp) ?_
        intro op hop
        simp only [List.mem_cons, List.not_mem_nil, or_false] at hop
        rcases hop with rfl | rfl | rfl
        · fits
        · fits
        · fits

theorem sim_zscore (h : Rel dir V s kv) (now : Nat) (key member : ByteArray) :
    Sim dir V s 0 (zscore (engineStore bid) s now key member) (zscore kvStore kv now key member) := by
  unfold zscore
  rw [findMetadata_engine h bid, sim_get_fun h bid]
  cases hm : findMetadata kvStore kv now key tZSet with
  | error e => exact Sim.same h _ e
  | ok m =>
    simp only
    split
    · exact Sim.same h _ _
    · split <;> exact Sim.same h _ _

/-- **one command on the engine model vs the same command on the abstract store**: same reply, related
    post-states, bounded growth -/
theorem sim_run (hV : V ≤ 2 ^ 25) (h : Rel dir V s kv) (c : Cmd) (now : Nat) (h0 : 0 < bid) (hlt : bid < 2 ^ 63)
    (hc : ECmdOK V c now) : Sim dir V s (ecost V c) (dtStep s c now bid) (run kvStore c kv now) := by
  unfold dtStep
  obtain ⟨hsz, hnow, hx⟩ := id hc
  cases c with
  | set k v ttl => exact sim_set hV h now k v ttl hc
  | get k => exact sim_get_cmd h now k
  | del k => exact sim_del hV h k hsz
  | type k => exact sim_type h now k
  | hset k f v => exact sim_hset hV h h0 hlt now k f v hsz hnow
  | hget k f => exact sim_hget h now k f
  | hdel k f => exact sim_hdel hV h h0 hlt now k f hsz hnow
  | sadd k m => exact sim_sadd hV h h0 hlt now k m hsz hnow
  | sismember k m => exact sim_sismember h now k m
  | srem k m => exact sim_srem hV h h0 hlt now k m hsz hnow
  | lpush k e => exact sim_push hV h h0 hlt now k e true hsz hnow
  | rpush k e => exact sim_push hV h h0 hlt now k e false hsz hnow
  | lpop k => exact sim_pop hV h now k true hsz hnow
  | rpop k => exact sim_pop hV h now k false hsz hnow
  | zadd k sc m => exact sim_zadd hV h h0 hlt now k sc m hsz hnow
  | zscore k m => exact sim_zscore h now k m

/-- the same against `Model/Datatype.lean` -/
theorem sim_cmd (hV : V ≤ 2 ^ 25) (h : Rel dir V s kv) (c : Cmd) (now : Nat) (h0 : 0 < bid) (hlt : bid < 2 ^ 63)
    (hc : ECmdOK V c now) : Sim dir V s (ecost V c) (dtStep s c now bid) (Datatype.run c kv now) := by
  rw [← run_kvStore]
  exact sim_run hV h c now h0 hlt hc

end
end XixiKV.Datatype.On
