import XixiKV.Proofs.DatatypeSet
/-! # List commands -/
namespace XixiKV.Datatype
open XixiKV XixiKV.Varint XixiKV.Record Spec

theorem listKey_eq_iff {k : ByteArray} {ver : Nat} (hv : ver < 2 ^ 64) {i j : Nat} (hi : i < 2 ^ 64) (hj : j < 2 ^ 64) :
    listKey k ver i = listKey k ver j ↔ i = j :=
  ⟨fun h => listKey_inj hv hi hj h, fun h => h ▸ rfl⟩

/-- the list `l` occupies cells `head … head + l.length - 1` under version `ver`; the window
    bounds are relative to the current time `now` -/
structure ListView (kv : KV) (now : Nat) (k : ByteArray) (l : List ByteArray) (ver head : Nat) : Prop where
  ver_le : ver ≤ now
  find : findMetadata kv now k tList = .ok (listMeta ver l.length head)
  len : l.length < 2 ^ 32
  inv : ListInv now kv k ver head l

section
variable {U M : List ByteArray} {t : Nat} {kv : KV} {sp : State}

theorem listView_none (hR : R U M t kv sp) {k : ByteArray} (hk : k ∈ U) (hne : k.size ≠ 0) {now : Nat}
    (hl : sp.live now k = none) : ListView kv now k [] now initialListMark := by
  refine ⟨Nat.le_refl _, ?_, by simp, ⟨by omega, by simp, ?_⟩⟩
  · rw [find_absent hR hk hne hl tList (by decide)]
    simp [freshMeta, listMeta]
  · intro i hi; simp at hi

theorem listView_some (hR : R U M t kv sp) {k : ByteArray} (hk : k ∈ U) (hne : k.size ≠ 0) {now : Nat}
    (ht : t ≤ now) (hnow : now < 2 ^ 62) {l : List ByteArray} (hf : sp.find k = some (.list l)) :
    ∃ ver head, ListView kv now k l ver head := by
  have h63 : (2:Nat) ^ 62 < 2 ^ 63 := by decide
  have hi := initialListMark_eq
  have hobj := hR.obj k hk
  rw [hf] at hobj
  obtain ⟨ver, head, h1, h2, h3, h4, h5, h6⟩ := (show Stored M t kv k (.list l) from hobj)
  refine ⟨ver, head, by omega, ?_, h2, ⟨by omega, by omega, h6⟩⟩
  rw [findMetadata_meta tList hne (listMeta_valid (by omega) h2 (by omega)) rfl h3]
  simp [listMeta]

end

/-- numeric facts about the window: no uint64 wrap-around before the year 2116 -/
theorem ListView.bounds {kv : KV} {now : Nat} {k : ByteArray} {l : List ByteArray} {ver head : Nat}
    (hv : ListView kv now k l ver head) (hnow : now < 2 ^ 62) :
    1 ≤ head ∧ head + l.length + 1 < 2 ^ 64 ∧ ver < 2 ^ 64 := by
  have hi := initialListMark_eq
  have h1 := hv.inv.1
  have h2 := hv.inv.2.1
  have h3 := hv.ver_le
  have e62 : (2:Nat) ^ 62 = 4611686018427387904 := by decide
  have e63 : (2:Nat) ^ 63 = 9223372036854775808 := by decide
  have e64 : (2:Nat) ^ 64 = 18446744073709551616 := by decide
  omega

theorem lpush_core {kv : KV} {now : Nat} {k : ByteArray} {l : List ByteArray} {ver head : Nat}
    (hv : ListView kv now k l ver head) (hnow : now < 2 ^ 62) (hfit : l.length + 1 < 2 ^ 32) (e : ByteArray) :
    (push kv now k e true).2 = .size (l.length + 1) ∧
    (push kv now k e true).1.get k = some (encodeMeta (listMeta ver (e :: l).length (head - 1))) ∧
    ListInv (now + 1) (push kv now k e true).1 k ver (head - 1) (e :: l) ∧
    (∀ x, x ≠ k → (∀ s, x ≠ ikey k ver s) → (push kv now k e true).1.get x = kv.get x) := by
  obtain ⟨hb1, hb2, hver⟩ := hv.bounds hnow
  have e64 : (2:Nat) ^ 64 = 18446744073709551616 := by decide
  have hkne : ∀ i, k ≠ listKey k ver i := fun i e => ikey_ne_self k ver _ e.symm
  have hidx : (head + (2 ^ 64 - 1)) % 2 ^ 64 = head - 1 := by omega
  have hrun : push kv now k e true
      = ((kv.put k (encodeMeta ⟨tList, 0, ver, l.length + 1, head - 1, head + l.length⟩)).put
          (listKey k ver (head - 1)) e, .size (l.length + 1)) := by
    simp only [push, hv.find, listMeta, ↓reduceIte, hidx, Nat.mod_eq_of_lt hfit,
      KV.batch_cons, KV.batch_nil, KV.apply_put]
  have hmeta : (⟨tList, 0, ver, l.length + 1, head - 1, head + l.length⟩ : Meta)
      = listMeta ver (e :: l).length (head - 1) := by
    simp only [listMeta, List.length_cons, Meta.mk.injEq, true_and]; omega
  rw [hrun, hmeta]
  refine ⟨rfl, ?_, ⟨by have := hv.inv.1; omega, by have := hv.inv.2.1; simp only [List.length_cons]; omega, ?_⟩, ?_⟩
  · rw [KV.get_put, if_neg (hkne _), KV.get_put, if_pos rfl]
  · intro i hi
    rw [KV.get_put, KV.get_put]
    simp only [List.length_cons] at hi
    cases i with
    | zero => simp
    | succ j =>
      rw [if_neg, if_neg (fun e => hkne _ e.symm), List.getElem?_cons_succ]
      · have e1 : head - 1 + (j + 1) = head + j := by omega
        rw [e1]
        exact hv.inv.2.2 j (by omega)
      · rw [listKey_eq_iff hver (by omega) (by omega)]; omega
  · intro x hx hxs
    rw [KV.get_put, if_neg (show x ≠ listKey k ver _ from hxs _), KV.get_put, if_neg hx]

theorem rpush_core {kv : KV} {now : Nat} {k : ByteArray} {l : List ByteArray} {ver head : Nat}
    (hv : ListView kv now k l ver head) (hnow : now < 2 ^ 62) (hfit : l.length + 1 < 2 ^ 32) (e : ByteArray) :
    (push kv now k e false).2 = .size (l.length + 1) ∧
    (push kv now k e false).1.get k = some (encodeMeta (listMeta ver (l ++ [e]).length head)) ∧
    ListInv (now + 1) (push kv now k e false).1 k ver head (l ++ [e]) ∧
    (∀ x, x ≠ k → (∀ s, x ≠ ikey k ver s) → (push kv now k e false).1.get x = kv.get x) := by
  obtain ⟨hb1, hb2, hver⟩ := hv.bounds hnow
  have e64 : (2:Nat) ^ 64 = 18446744073709551616 := by decide
  have hkne : ∀ i, k ≠ listKey k ver i := fun i e => ikey_ne_self k ver _ e.symm
  have hidx : (head + l.length + 1) % 2 ^ 64 = head + l.length + 1 := by omega
  have hrun : push kv now k e false
      = ((kv.put k (encodeMeta ⟨tList, 0, ver, l.length + 1, head, head + l.length + 1⟩)).put
          (listKey k ver (head + l.length)) e, .size (l.length + 1)) := by
    simp only [push, hv.find, listMeta, Bool.false_eq_true, ↓reduceIte, hidx, Nat.mod_eq_of_lt hfit,
      KV.batch_cons, KV.batch_nil, KV.apply_put]
  have hmeta : (⟨tList, 0, ver, l.length + 1, head, head + l.length + 1⟩ : Meta)
      = listMeta ver (l ++ [e]).length head := by
    simp only [listMeta, List.length_append, List.length_cons, List.length_nil, Meta.mk.injEq, true_and]; omega
  rw [hrun, hmeta]
  refine ⟨rfl, ?_, ⟨by have := hv.inv.1; omega, by
    have := hv.inv.2.1; simp only [List.length_append, List.length_cons, List.length_nil]; omega, ?_⟩, ?_⟩
  · rw [KV.get_put, if_neg (hkne _), KV.get_put, if_pos rfl]
  · intro i hi
    rw [KV.get_put, KV.get_put]
    simp only [List.length_append, List.length_cons, List.length_nil] at hi
    by_cases hil : i = l.length
    · subst hil
      rw [if_pos rfl, List.getElem?_append_right (Nat.le_refl _)]
      simp
    · rw [if_neg, if_neg (fun e => hkne _ e.symm), List.getElem?_append_left (by omega)]
      · exact hv.inv.2.2 i (by omega)
      · rw [listKey_eq_iff hver (by omega) (by omega)]; omega
  · intro x hx hxs
    rw [KV.get_put, if_neg (show x ≠ listKey k ver _ from hxs _), KV.get_put, if_neg hx]

theorem pop_core_nil {kv : KV} {now : Nat} {k : ByteArray} {ver head : Nat}
    (hv : ListView kv now k [] ver head) (isLeft : Bool) : pop kv now k isLeft = (kv, .nil) := by
  simp only [pop, hv.find, listMeta, List.length_nil, ↓reduceIte]

theorem lpop_core {kv : KV} {now : Nat} {k : ByteArray} {x : ByteArray} {r : List ByteArray} {ver head : Nat}
    (hv : ListView kv now k (x :: r) ver head) (hnow : now < 2 ^ 62) :
    (pop kv now k true).2 = .ofStored x ∧
    (pop kv now k true).1.get k = some (encodeMeta (listMeta ver r.length (head + 1))) ∧
    ListInv (now + 1) (pop kv now k true).1 k ver (head + 1) r ∧
    (∀ y, y ≠ k → (∀ s, y ≠ ikey k ver s) → (pop kv now k true).1.get y = kv.get y) := by
  obtain ⟨hb1, hb2, hver⟩ := hv.bounds hnow
  have e64 : (2:Nat) ^ 64 = 18446744073709551616 := by decide
  have hkne : ∀ i, k ≠ listKey k ver i := fun i e => ikey_ne_self k ver _ e.symm
  simp only [List.length_cons] at hb2
  have hidx : (head + 1) % 2 ^ 64 = head + 1 := by omega
  have h0 : kv.get (listKey k ver head) = some x := by
    have := hv.inv.2.2 0 (by simp)
    simpa using this
  have hrun : pop kv now k true
      = (kv.put k (encodeMeta ⟨tList, 0, ver, r.length, head + 1, head + (r.length + 1)⟩), .ofStored x) := by
    simp only [pop, hv.find, listMeta, List.length_cons, Nat.add_one_ne_zero, ↓reduceIte, h0, hidx,
      Nat.add_sub_cancel]
  have hmeta : (⟨tList, 0, ver, r.length, head + 1, head + (r.length + 1)⟩ : Meta)
      = listMeta ver r.length (head + 1) := by
    simp only [listMeta, Meta.mk.injEq, true_and]; omega
  rw [hrun, hmeta]
  refine ⟨rfl, ?_, ⟨by have := hv.inv.1; omega, by
    have := hv.inv.2.1; simp only [List.length_cons] at this; omega, ?_⟩, ?_⟩
  · rw [KV.get_put, if_pos rfl]
  · intro i hi
    rw [KV.get_put, if_neg (fun e => hkne _ e.symm)]
    have := hv.inv.2.2 (i + 1) (by simp only [List.length_cons]; omega)
    rw [List.getElem?_cons_succ] at this
    have e1 : head + 1 + i = head + (i + 1) := by omega
    rw [e1]; exact this
  · intro y hy _
    rw [KV.get_put, if_neg hy]

theorem rpop_core {kv : KV} {now : Nat} {k : ByteArray} {l : List ByteArray} {ver head : Nat}
    (hv : ListView kv now k l ver head) (hnow : now < 2 ^ 62) {x : ByteArray} (hx : l.getLast? = some x) :
    (pop kv now k false).2 = .ofStored x ∧
    (pop kv now k false).1.get k = some (encodeMeta (listMeta ver l.dropLast.length head)) ∧
    ListInv (now + 1) (pop kv now k false).1 k ver head l.dropLast ∧
    (∀ y, y ≠ k → (∀ s, y ≠ ikey k ver s) → (pop kv now k false).1.get y = kv.get y) := by
  obtain ⟨hb1, hb2, hver⟩ := hv.bounds hnow
  have e64 : (2:Nat) ^ 64 = 18446744073709551616 := by decide
  have hkne : ∀ i, k ≠ listKey k ver i := fun i e => ikey_ne_self k ver _ e.symm
  have hpos : 0 < l.length := by
    cases l with
    | nil => simp at hx
    | cons _ _ => simp
  have hidx : (head + l.length + (2 ^ 64 - 1)) % 2 ^ 64 = head + (l.length - 1) := by omega
  have h0 : kv.get (listKey k ver (head + (l.length - 1))) = some x := by
    rw [hv.inv.2.2 (l.length - 1) (by omega), ← List.getLast?_eq_getElem?, hx]
  have hl0 : ¬ l.length = 0 := by omega
  have hrun : pop kv now k false
      = (kv.put k (encodeMeta ⟨tList, 0, ver, l.length - 1, head, head + (l.length - 1)⟩), .ofStored x) := by
    simp only [pop, hv.find, listMeta, hl0, Bool.false_eq_true, ↓reduceIte, hidx, h0]
  have hmeta : (⟨tList, 0, ver, l.length - 1, head, head + (l.length - 1)⟩ : Meta)
      = listMeta ver l.dropLast.length head := by
    simp only [listMeta, List.length_dropLast]
  rw [hrun, hmeta]
  refine ⟨rfl, ?_, ⟨by have := hv.inv.1; omega, by
    have := hv.inv.2.1; simp only [List.length_dropLast]; omega, ?_⟩, ?_⟩
  · rw [KV.get_put, if_pos rfl]
  · intro i hi
    simp only [List.length_dropLast] at hi
    rw [KV.get_put, if_neg (fun e => hkne _ e.symm), List.getElem?_dropLast, if_pos hi]
    exact hv.inv.2.2 i (by omega)
  · intro y hy _
    rw [KV.get_put, if_neg hy]

section
variable {U M : List ByteArray} {t : Nat} {kv : KV} {sp : State}

theorem list_close (hU : PrefixFree U) (hR : R U M t kv sp) {k : ByteArray} (hk : k ∈ U) {now : Nat}
    (ht : t ≤ now) (hnow : now < 2 ^ 62) {ver : Nat} (hver : ver ≤ now)
    {kv' : KV} {l' : List ByteArray} {head' : Nat} (hlen : l'.length < 2 ^ 32)
    (hget : kv'.get k = some (encodeMeta (listMeta ver l'.length head')))
    (hinv : ListInv (now + 1) kv' k ver head' l')
    (hframe : ∀ x, x ≠ k → (∀ s, x ≠ ikey k ver s) → kv'.get x = kv.get x) :
    R U M (now + 1) kv' (sp.store k (.list l')) := by
  apply R_step hU hR hk ht hnow hver hframe
  · intro x hx; rw [find_store, if_neg hx]
  · rw [find_store, if_pos rfl]
    exact ⟨ver, head', by omega, hlen, hget, hinv⟩

theorem refines_lpush (hU : PrefixFree U) (hR : R U M t kv sp) {k : ByteArray} (hk : k ∈ U) (hne : k.size ≠ 0)
    (e : ByteArray) {now : Nat} (ht : t ≤ now) (hnow : now < 2 ^ 62)
    (hok : StepOK sp (.lpush k e) now = true) : Refines U M kv sp (.lpush k e) now := by
  unfold Refines
  rw [step_of_ne (.lpush k e) _ _ hne]
  simp only [run, lpush, Spec.stepNE]
  cases hl : sp.live now k with
  | none =>
    have hv := listView_none (now := now) hR hk hne hl
    obtain ⟨h1, h2, h3, h4⟩ := lpush_core hv hnow (by simp) e
    exact ⟨h1, list_close hU hR hk ht hnow hv.ver_le (by simp) h2 h3 h4⟩
  | some o =>
    obtain ⟨hf, hnx⟩ := live_some hl
    cases o with
    | list l =>
      obtain ⟨ver, head, hv⟩ := listView_some hR hk hne ht hnow hf
      have hfit : l.length + 1 < 2 ^ 32 := stepOK_card hok hf
      obtain ⟨h1, h2, h3, h4⟩ := lpush_core hv hnow hfit e
      exact ⟨h1, list_close hU hR hk ht hnow hv.ver_le (by simpa using hfit) h2 h3 h4⟩
    | str _ _ | hash _ | set _ | zset _ =>
      simp only [push, wrong_find hR hk hne ht hnow hf tList (by simp [dtOf, dt_ne])
        hnx]
      fin (R_same hR ht)

theorem refines_rpush (hU : PrefixFree U) (hR : R U M t kv sp) {k : ByteArray} (hk : k ∈ U) (hne : k.size ≠ 0)
    (e : ByteArray) {now : Nat} (ht : t ≤ now) (hnow : now < 2 ^ 62)
    (hok : StepOK sp (.rpush k e) now = true) : Refines U M kv sp (.rpush k e) now := by
  unfold Refines
  rw [step_of_ne (.rpush k e) _ _ hne]
  simp only [run, rpush, Spec.stepNE]
  cases hl : sp.live now k with
  | none =>
    have hv := listView_none (now := now) hR hk hne hl
    obtain ⟨h1, h2, h3, h4⟩ := rpush_core hv hnow (by simp) e
    exact ⟨h1, list_close hU hR hk ht hnow hv.ver_le (by simp) h2 h3 h4⟩
  | some o =>
    obtain ⟨hf, hnx⟩ := live_some hl
    cases o with
    | list l =>
      obtain ⟨ver, head, hv⟩ := listView_some hR hk hne ht hnow hf
      have hfit : l.length + 1 < 2 ^ 32 := stepOK_card hok hf
      obtain ⟨h1, h2, h3, h4⟩ := rpush_core hv hnow hfit e
      exact ⟨h1, list_close hU hR hk ht hnow hv.ver_le (by simpa using hfit) h2 h3 h4⟩
    | str _ _ | hash _ | set _ | zset _ =>
      simp only [push, wrong_find hR hk hne ht hnow hf tList (by simp [dtOf, dt_ne])
        hnx]
      fin (R_same hR ht)

theorem refines_lpop (hU : PrefixFree U) (hR : R U M t kv sp) {k : ByteArray} (hk : k ∈ U) (hne : k.size ≠ 0)
    {now : Nat} (ht : t ≤ now) (hnow : now < 2 ^ 62)
    : Refines U M kv sp (.lpop k) now := by
  unfold Refines
  rw [step_of_ne (.lpop k) _ _ hne]
  simp only [run, lpop, Spec.stepNE]
  cases hl : sp.live now k with
  | none =>
    rw [pop_core_nil (listView_none (now := now) hR hk hne hl)]
    fin (R_same hR ht)
  | some o =>
    obtain ⟨hf, hnx⟩ := live_some hl
    cases o with
    | list l =>
      obtain ⟨ver, head, hv⟩ := listView_some hR hk hne ht hnow hf
      cases l with
      | nil =>
        rw [pop_core_nil hv]
        fin (R_same hR ht)
      | cons x r =>
        obtain ⟨h1, h2, h3, h4⟩ := lpop_core hv hnow
        refine ⟨h1, list_close hU hR hk ht hnow hv.ver_le ?_ h2 h3 h4⟩
        have := hv.len
        simp only [List.length_cons] at this; omega
    | str _ _ | hash _ | set _ | zset _ =>
      simp only [pop, wrong_find hR hk hne ht hnow hf tList (by simp [dtOf, dt_ne])
        hnx]
      fin (R_same hR ht)

theorem refines_rpop (hU : PrefixFree U) (hR : R U M t kv sp) {k : ByteArray} (hk : k ∈ U) (hne : k.size ≠ 0)
    {now : Nat} (ht : t ≤ now) (hnow : now < 2 ^ 62)
    : Refines U M kv sp (.rpop k) now := by
  unfold Refines
  rw [step_of_ne (.rpop k) _ _ hne]
  simp only [run, rpop, Spec.stepNE]
  cases hl : sp.live now k with
  | none =>
    rw [pop_core_nil (listView_none (now := now) hR hk hne hl)]
    fin (R_same hR ht)
  | some o =>
    obtain ⟨hf, hnx⟩ := live_some hl
    cases o with
    | list l =>
      obtain ⟨ver, head, hv⟩ := listView_some hR hk hne ht hnow hf
      simp only
      cases hx : l.getLast? with
      | none =>
        have : l = [] := by simpa using hx
        subst this
        rw [pop_core_nil hv]
        fin (R_same hR ht)
      | some x =>
        obtain ⟨h1, h2, h3, h4⟩ := rpop_core hv hnow hx
        refine ⟨h1, list_close hU hR hk ht hnow hv.ver_le ?_ h2 h3 h4⟩
        have := hv.len
        simp only [List.length_dropLast]; omega
    | str _ _ | hash _ | set _ | zset _ =>
      simp only [pop, wrong_find hR hk hne ht hnow hf tList (by simp [dtOf, dt_ne])
        hnx]
      fin (R_same hR ht)

end

end XixiKV.Datatype
