import XixiKV.Proofs.EngineMerge.Base
import XixiKV.Proofs.EngineMerge.Adopt
import XixiKV.Proofs.EngineMerge.Open
import XixiKV.Proofs.EngineMerge.Frame
import XixiKV.Proofs.EngineMerge.Hint
import XixiKV.Proofs.EngineMerge.Out
import XixiKV.Proofs.EngineMerge.Append
import XixiKV.Proofs.EngineMerge.Run
import XixiKV.Proofs.EngineMerge.Spec
import XixiKV.Proofs.EngineMerge.Stable
import XixiKV.Proofs.EngineMerge.Replay
import XixiKV.Proofs.EngineMerge.Sem
import XixiKV.Proofs.EngineMerge.AdoptOpen
import XixiKV.Proofs.EngineMerge.Crash
/-!
# Merge, adoption, hint files, backup: helper lemmas for C06 / C07 / C18 / C20

All declarations live in the namespace `XixiKV.Engine.MergeP`; the development is split into parts
(one file each, imported here in dependency order) to keep rebuilds short:

* `Base`      lookup laws of the association lists (`getFile/setFile/removeFile`,
              `World.get/set/remove`), extensionality of ascending file lists (`AscF_ext`)
* `Adopt`     adoption on the pair (data directory, merge directory): `stepP`, `adoptP`, `tgt`;
              every step before the marker removal preserves the result of a later adoption
              (`tgt_step`), `adoptP_steps`, `adoptP_prefix`, and on worlds **`adopt_eq_steps`**
* `Open`      `openDB` when there is nothing to adopt (`openDB_scan'`, `openDB_ghost`, `Inv_scanDB`)
* `Frame`     writes touch the handle's own directory only; `backup_eq`; `absGet_same_ghost`
* `Hint`      `hintBytes`, `HintFits`, `Merged`; `loadHint_eq_replay` (hint path = scan path)
* `Out`       marker round trip; no two log entries share a place (`log_places`); provenance with
              record type (`FromLogT`); **`MergeOutW` / `MergeOut`** and their consequences
              (`MergeOutW.merged`); `HintFits_of_small`
* `Append`    `appendLog` with the explicit shape of the new ghost directory, lock-independent
              (`FilesU`, `Grow`, `appendLog_shape`)
* `Run`       the rewrite loop of `Merge`: `MBase`, `MFull`, `mergeRec_step`, `mergeFile_fold`,
              `merge_eq`
* `Spec`      the visiting order as a permutation (`visOf_perm`), **`merge_spec`**
* `Stable`    `put_shape`, `delete_shape`, `MergeOutW.grow`
* `Replay`    `bump` commutes with the replay, re-scanning an indexed file (`replayFrom_again`),
              `loadIndex` with a positive `nonMergeFileId`
* `Sem`       `ValRel`: the merged directory denotes the same mapping (`ValRel_merged`)
* `AdoptOpen` `adopt_merged`, `openDB_hint`, `loadIndex_after_hint`, **`open_after_merge`**
* `Crash`     `Open` on crash images of an adoption (`open_hint_adopted`), intermediate states of
              `Merge` (`mergeMid`, `mergeMid_spec`, `open_dead_MBase`)
-/
