import XixiKV.Proofs.IterStableMerge
import XixiKV.Proofs.IterStableCursor
/-!
# Snapshot stability, part 3: iterator calls interleaved with writes  (helper lemmas for C10)

* `Abs.mapV φ a`   — the abstract cursor with every stored value replaced by `φ value` (keys and
  index untouched); it commutes with creation, with every call, and maps the
  observation (`Abs.mapV_*`).
* `Ev`             — an event of an interleaved run: an iterator call or a database write
  (`HOp`: plain operation, batch operation, `Merge`, `Backup`).
* `transcript`     — the executable run: the state and the iterator evolve, and before/after every
  event the iterator is observed the way `Driver.lean` prints it (`see`: `Valid`, `Key`, and the
  value read through the captured position **in the current state**).
* `specTranscript` — the specification: the abstract cursor over a *fixed* list of key/value
  pairs; writes do not move it.
* `transcript_eq`  — the two coincide when the fixed list is the creation-time `Engine.fold`.
-/
namespace XixiKV.ShardIter
open XixiKV.Index

/-- replace every stored value `v` by `φ v` -/
def Abs.mapV {V W : Type} (φ : V → W) (a : Abs V) : Abs W :=
  { reverse := a.reverse, A := a.A.map (fun x => (x.1, φ x.2)), i := a.i }

def Obs.mapV {V W : Type} (φ : V → W) (o : Obs V) : Obs W := ⟨o.valid, o.key, o.value.map φ⟩

section
variable {V W : Type} (φ : V → W)

theorem findIdx_map_key (q : Key → Bool) (l : List (Key × V)) :
    (l.map (fun x => (x.1, φ x.2))).findIdx (fun x => q x.1) = l.findIdx (fun x => q x.1) := by
  induction l with
  | nil => rfl
  | cons x xs ih => simp only [List.map_cons, List.findIdx_cons, ih]

theorem filter_map_key (q : Key → Bool) (l : List (Key × V)) :
    (l.map (fun x => (x.1, φ x.2))).filter (fun x => q x.1) = (l.filter (fun x => q x.1)).map (fun x => (x.1, φ x.2)) := by
  induction l with
  | nil => rfl
  | cons x xs ih =>
    simp only [List.map_cons, List.filter_cons, ih]
    split <;> rfl

theorem iterOrder_map {α β : Type} (f : α → β) (rev : Bool) (l : List α) :
    iterOrder rev (l.map f) = (iterOrder rev l).map f := by
  unfold iterOrder
  cases rev
  · rfl
  · simp only [if_true, List.map_reverse]

theorem Abs.mapV_new (rev : Bool) (pre : Key) (idx : List (Key × V)) :
    (Abs.new rev pre idx).mapV φ = Abs.new rev pre (idx.map (fun x => (x.1, φ x.2))) := by
  unfold Abs.new Abs.mapV
  simp only [iterOrder_map, filter_map_key φ (hasPrefix pre)]

theorem Abs.lowerBound_mapV (rev : Bool) (k : Key) (A : List (Key × V)) :
    Abs.lowerBound rev k (A.map (fun x => (x.1, φ x.2))) = Abs.lowerBound rev k A :=
  findIdx_map_key φ (fun y => !before rev y k) A

theorem Abs.mapV_step (a : Abs V) (c : Call) : (a.step c).mapV φ = (a.mapV φ).step c := by
  cases c with
  | rewind => rfl
  | next =>
    unfold Abs.step Abs.next Abs.mapV
    simp only [List.length_map]
    split <;> rfl
  | seek k =>
    unfold Abs.step Abs.seek Abs.mapV
    simp only [Abs.lowerBound_mapV, List.length_map]
    split <;> rfl

theorem Abs.mapV_obs (a : Abs V) : (a.mapV φ).obs = a.obs.mapV φ := by
  unfold Abs.obs Abs.valid Abs.key Abs.value Abs.mapV Obs.mapV
  simp only [List.length_map, List.getElem?_map, Option.map_map]
  rfl

theorem Abs.mapV_trace (calls : List Call) : ∀ (a : Abs V),
    (a.mapV φ).trace calls = (a.trace calls).map (Obs.mapV φ) := by
  induction calls with
  | nil => intro a; simp only [Abs.trace, Abs.mapV_obs, List.map_cons, List.map_nil]
  | cons c cs ih =>
    intro a
    simp only [Abs.trace, Abs.mapV_obs, List.map_cons, ← Abs.mapV_step, ih]

end
end XixiKV.ShardIter

namespace XixiKV.Engine.IterP
open XixiKV.Frame XixiKV.Record XixiKV.Index XixiKV.Engine XixiKV.ShardIter

/-- one event of an interleaved run -/
inductive Ev where
  /-- `Rewind` / `Next` / `Seek k` on the iterator -/
  | call : Call → Ev
  /-- a plain operation, a batch operation, a `Merge` or a `Backup` on the database -/
  | write : HOp → Ev

/-- the iterator calls of a run -/
def callsOf : List Ev → List Call
  | [] => []
  | .call c :: es => c :: callsOf es
  | .write _ :: es => callsOf es

/-- a cursor observation `(Valid, Key, Pos)` completed by reading the position in state `s` -/
def seeObs (s : St) (o : Obs Pos) : Obs Res :=
  ⟨o.valid, o.key,
    match s.db with
    | some db => o.value.map (valueAt s db)
    | none => none⟩

/-- what `Driver.lean` (`fmtIter`) shows for the iterator `it` while the database is in state `s`:
    `Valid`, `Key`, and `Value` = the record read through the captured position *now* -/
def see (s : St) (it : Iter) : Obs Res := seeObs s it.obs

/-- the executable interleaved run; the iterator is observed before the first event and after
    every event (a call moves the iterator, a write moves the database) -/
def transcript (s : St) (it : Iter) : List Ev → List (Obs Res)
  | [] => [see s it]
  | .call c :: es => see s it :: transcript s (it.step c) es
  | .write h :: es => see s it :: transcript (hstep s h).1 it es

/-- the same interleaved run with the sharded heap-merging iterator (`DBIter` over the index
    positions) in place of the engine's cursor: `Iterator.Value` reads the position the sharded
    iterator serves, in the current state -/
def transcriptD (s : St) (it : DBIter Pos) : List Ev → List (Obs Res)
  | [] => [seeObs s it.obs]
  | .call c :: es => seeObs s it.obs :: transcriptD s (it.step c) es
  | .write h :: es => seeObs s it.obs :: transcriptD (hstep s h).1 it es

/-- the specification: an abstract cursor over a fixed key/value list; writes do not move it -/
def specTranscript (a : Abs Res) : List Ev → List (Obs Res)
  | [] => [a.obs]
  | .call c :: es => a.obs :: specTranscript (a.step c) es
  | .write _ :: es => a.obs :: specTranscript a es

theorem Iter.trace_head (it : Iter) (cs : List Call) : ∃ t, it.trace cs = it.obs :: t := by
  cases cs with
  | nil => exact ⟨[], rfl⟩
  | cons c cs => exact ⟨_, rfl⟩

theorem DBIter.trace_head {V : Type} (it : DBIter V) (cs : List Call) : ∃ t, it.trace cs = it.obs :: t := by
  cases cs with
  | nil => exact ⟨[], rfl⟩
  | cons c cs => exact ⟨_, rfl⟩

/-- two cursors with the same call trace give the same interleaved transcript -/
theorem transcriptD_eq_of_trace (evs : List Ev) : ∀ (s : St) (dit : DBIter Pos) (it : Iter),
    dit.trace (callsOf evs) = it.trace (callsOf evs) → transcriptD s dit evs = transcript s it evs := by
  induction evs with
  | nil =>
    intro s dit it h
    simp only [callsOf, DBIter.trace, Iter.trace, List.cons.injEq, and_true] at h
    simp only [transcriptD, transcript, see, h]
  | cons e es ih =>
    intro s dit it h
    have ho : dit.obs = it.obs := by
      obtain ⟨t1, h1⟩ := DBIter.trace_head dit (callsOf (e :: es))
      obtain ⟨t2, h2⟩ := Iter.trace_head it (callsOf (e :: es))
      rw [h1, h2] at h
      exact (List.cons.inj h).1
    cases e with
    | call c =>
      simp only [callsOf, DBIter.trace, Iter.trace, List.cons.injEq] at h
      simp only [transcriptD, transcript, see, ho, ih s _ _ h.2]
    | write w =>
      simp only [callsOf] at h
      simp only [transcriptD, transcript, see, ho, ih _ _ _ h]

/-- the cell under the abstract cursor belongs to the snapshot -/
theorem CSim.value_mem {idx : List (Key × Pos)} {pre : Key} {rev : Bool} {it : Iter} {a : Abs Pos}
    (h : CSim (iterOrder rev idx) pre rev it a) {p : Pos} (hp : a.obs.value = some p) :
    ∃ k, (k, p) ∈ idx := by
  unfold Abs.obs Abs.value at hp
  simp only at hp
  cases hc : a.A[a.i]? with
  | none => rw [hc] at hp; cases hp
  | some x =>
    rw [hc] at hp
    simp only [Option.map_some, Option.some.injEq] at hp
    have hm : x ∈ a.A := List.mem_of_getElem? hc
    rw [h.aA] at hm
    have hm' : x ∈ idx := mem_iterOrder.mp (List.mem_filter.mp hm).1
    exact ⟨x.1, by rw [← hp]; exact hm'⟩

/-- one observation in a later state equals the observation over the creation-time values -/
theorem see_eq {s0 s : St} {db0 : DB} {g : GDir} (hdb : s0.db = some db0) (hinv : SnapOK s0 db0 g)
    (hst : Step s0 s) {pre : Key} {rev : Bool} {it : Iter} {a : Abs Pos}
    (h : CSim (iterOrder rev db0.index) pre rev it a) :
    see s it = (a.mapV (valueAt s0 db0)).obs := by
  obtain ⟨db', hdb', _⟩ := hst db0 hdb
  rw [Abs.mapV_obs]
  unfold see seeObs Obs.mapV
  rw [hdb', h.obs]
  simp only []
  congr 1
  cases hv : a.obs.value with
  | none => rfl
  | some p =>
    obtain ⟨k, hk⟩ := CSim.value_mem h hv
    obtain ⟨db'', v, e1, _, _, e4, e5⟩ := hst.valueAt hdb hinv hk
    rw [hdb'] at e1
    cases e1
    simp only [Option.map_some, e4, e5]

/-- **the interleaved transcript is the transcript over the creation-time mapping** -/
theorem transcript_eq {s0 : St} {db0 : DB} {g : GDir} (hdb : s0.db = some db0) (hinv : SnapOK s0 db0 g)
    (pre : Key) (rev : Bool) (evs : List Ev) :
    ∀ {s : St} {it : Iter} {a : Abs Pos}, Step s0 s → CSim (iterOrder rev db0.index) pre rev it a →
      transcript s it evs = specTranscript (a.mapV (valueAt s0 db0)) evs := by
  have hsorted : Sorted rev (iterOrder rev db0.index) := (sorted_of_pairwise hinv.sorted).iterOrder
  induction evs with
  | nil =>
    intro s it a hst h
    simp only [transcript, specTranscript, see_eq hdb hinv hst h]
  | cons e es ih =>
    intro s it a hst h
    cases e with
    | call c =>
      simp only [transcript, specTranscript, see_eq hdb hinv hst h, ← Abs.mapV_step]
      rw [ih hst (h.step hsorted c)]
    | write w =>
      simp only [transcript, specTranscript, see_eq hdb hinv hst h]
      rw [ih (hst.trans (Step_hstep s w)) h]

end XixiKV.Engine.IterP
