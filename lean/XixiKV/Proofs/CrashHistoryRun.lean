import XixiKV.Proofs.CrashHistorySteps
/-!
# Crash recovery at the level of acknowledged MUTATIONS — part 3: whole histories and the crash

* `DurC`: the durability invariant of `Proofs/EnginePolicy.lean` together with "the handle keeps
  its configuration and directory", through every call (`DurC_astep`);
* `RunInv`: history link + size invariant + durability invariant, through every history
  (`RunInv_arun`); `IdsOK_of_fresh`: pairwise distinct unused ids satisfy `IdsOK`;
* `Durable s n`: at least `n` units of the log of `s` lie inside the flushed prefixes of the files;
* `crash_of_RunInv`: the crash theorem in terms of the bookkeeping (recovered mapping, invariants
  of the recovered handle).
-/
namespace XixiKV.C03H
open XixiKV XixiKV.Frame XixiKV.Record XixiKV.Index XixiKV.Engine XixiKV.Engine.Restart
open XixiKV.Engine.BatchP XixiKV.Engine.PolicyP XixiKV.Engine.PolicyP.Dur XixiKV.Engine.PolicyP.Size

/-! ## durability invariant, configuration and directory through every call -/

/-- an open handle with configuration `cfg` on directory `dir` that satisfies the durability
    invariant -/
def DurC (cfg : Cfg) (dir : String) (s : St) : Prop :=
  ∃ db, s.db = some db ∧ DInv s db ∧ db.cfg = cfg ∧ db.dir = dir

theorem DurC.appended {cfg : Cfg} {dir : String} {s s' : St} {db db' : DB} (hd : DInv s db)
    (hc : db.cfg = cfg) (hdir : db.dir = dir) (r : Record)
    (hs' : s'.db = some db') (hw : s'.world = (appendLog s db r).1.world)
    (e1 : db'.dir = (appendLog s db r).2.1.dir) (e2 : db'.activeId = (appendLog s db r).2.1.activeId)
    (e3 : db'.cfg = (appendLog s db r).2.1.cfg) : DurC cfg dir s' := by
  obtain ⟨_, a2, a3, _⟩ := appendLog_handle hd r
  exact ⟨db', hs', (DInv_appendLog hd r).congr hw e1 e2, by rw [e3, a2, hc], by rw [e1, a3, hdir]⟩

theorem DurC.stageOut {cfg : Cfg} {dir : String} {s s' : St} {db : DB} {b : BatchSt} {must : Prop}
    (hs : s.db = some db) (hd : DInv s db) (hc : db.cfg = cfg) (hdir : db.dir = dir)
    (o : StageOut s db b must s') : DurC cfg dir s' := by
  cases o with
  | same e _ => rw [e]; exact ⟨db, hs, hd, hc, hdir⟩
  | staged b' e _ _ _ _ => rw [e]; exact ⟨_, rfl, hd.congr rfl rfl rfl, hc, hdir⟩
  | flushed b' e _ _ _ _ =>
    rw [e]
    obtain ⟨f1, _, _, _, f5, f6, _⟩ := flushAndRotate_dur hd b
    exact ⟨_, rfl, f1.congr rfl rfl rfl, by show (flushAndRotate s db b).2.1.cfg = cfg; rw [f5, hc],
      by show (flushAndRotate s db b).2.1.dir = dir; rw [f6, hdir]⟩

theorem DurC_astep {cfg : Cfg} {dir : String} {s : St} (h : DurC cfg dir s) (op : AOp) :
    DurC cfg dir (astep s op).1 := by
  obtain ⟨db, hs, hd, hc, hdir⟩ := h
  cases op with
  | put k v =>
    show DurC cfg dir (put s k v).1
    by_cases hk : k.size = 0
    · rw [put_keyempty s k v hk hs]; exact ⟨db, hs, hd, hc, hdir⟩
    · obtain ⟨_, h2, h3⟩ := put_state hs k v hk
      exact DurC.appended hd hc hdir _ h2 h3 rfl rfl rfl
  | del k =>
    show DurC cfg dir (delete s k).1
    by_cases hk : k.size = 0
    · rw [delete_keyempty s k hk hs]; exact ⟨db, hs, hd, hc, hdir⟩
    · cases hg : Index.get db.index k with
      | none => rw [delete_eq_none hs k hk hg]; exact ⟨db, hs, hd, hc, hdir⟩
      | some old =>
        obtain ⟨_, h2, h3⟩ := delete_state hs k hk hg
        exact DurC.appended hd hc hdir _ h2 h3 rfl rfl rfl
  | get k =>
    show DurC cfg dir (get s k).1
    rw [Dur.get_state]; exact ⟨db, hs, hd, hc, hdir⟩
  | sync =>
    show DurC cfg dir (syncDB s).1
    obtain ⟨_, h2, h3, _⟩ := syncDB_dur hs hd
    exact ⟨db, h2, h3, hc, hdir⟩
  | bnew sy id =>
    show DurC cfg dir (bnew s sy id).1
    rw [bnew_eq hs]
    exact ⟨_, rfl, hd.congr rfl rfl rfl, hc, hdir⟩
  | bput k v =>
    show DurC cfg dir (bput s k v).1
    cases hb : db.batch with
    | none => rw [bput_nobatch hs hb]; exact ⟨db, hs, hd, hc, hdir⟩
    | some b => exact DurC.stageOut hs hd hc hdir (bput_out hs hb k v)
  | bdel k =>
    show DurC cfg dir (bdel s k).1
    cases hb : db.batch with
    | none => rw [bdel_nobatch hs hb]; exact ⟨db, hs, hd, hc, hdir⟩
    | some b => exact DurC.stageOut hs hd hc hdir (bdel_out hs hb k)
  | bget k =>
    show DurC cfg dir (bget s k).1
    rw [bget_state]; exact ⟨db, hs, hd, hc, hdir⟩
  | bcommit =>
    show DurC cfg dir (bcommit s).1
    cases hb : db.batch with
    | none => rw [bcommit_nobatch hs hb]; exact ⟨db, hs, hd, hc, hdir⟩
    | some b =>
      by_cases hcm : b.committed = true
      · rw [bcommit_committed hs hb hcm]; exact ⟨db, hs, hd, hc, hdir⟩
      · have hc' : b.committed = false := by simpa using hcm
        by_cases he : b.staged = []
        · rw [bcommit_empty hs hb hc' he]; exact ⟨_, rfl, hd.congr rfl rfl rfl, hc, hdir⟩
        · obtain ⟨_, db', h1, h2, h3, h4, _⟩ := bcommit_nonempty_dur hs hb hc' he hd
          exact ⟨db', h1, h2, h3.trans hc, h4.trans hdir⟩
  | bdrop =>
    show DurC cfg dir (bdrop s).1
    rw [bdrop_eq hs]
    exact ⟨_, rfl, hd.congr rfl rfl rfl, hc, hdir⟩

theorem DurC_arun {cfg : Cfg} {dir : String} (ops : List AOp) : ∀ {s : St}, DurC cfg dir s →
    DurC cfg dir (arun s ops) := by
  induction ops with
  | nil => intro s h; exact h
  | cons op ops ih => intro s h; exact ih (DurC_astep h op)

/-! ## a history touches the handle's own directory only -/

theorem astep_frame {s : St} {db : DB} (hs : s.db = some db) (op : AOp) : Framed s (astep s op).1 db := by
  cases op with
  | put k v => exact put_frame hs k v
  | del k => exact delete_frame hs k
  | get k =>
    show Framed s (get s k).1 db
    rw [Dur.get_state]; exact ⟨Fr.refl _ _, db, hs, rfl⟩
  | sync => exact syncDB_frame hs
  | bnew sy id => exact bnew_frame hs sy id
  | bput k v => exact bput_frame hs k v
  | bdel k => exact bdel_frame hs k
  | bget k => exact bget_frame hs k
  | bcommit => exact bcommit_frame hs
  | bdrop => exact bdrop_frame hs

theorem arun_frame (ops : List AOp) : ∀ {s : St} {db : DB}, s.db = some db → Framed s (arun s ops) db := by
  induction ops with
  | nil => intro s db hs; exact ⟨Fr.refl _ _, db, hs, rfl⟩
  | cons op ops ih =>
    intro s db hs
    have h1 := astep_frame hs op
    obtain ⟨db', hs', _⟩ := h1.2
    exact h1.trans hs' (ih hs')

/-! ## the combined run invariant -/

/-- the state `s` reached by a history with bookkeeping `h`; `used` ⊇ the batch ids in the files -/
structure RunInv (L : Nat) (cfg : Cfg) (dir : String) (s : St) (h : Hist) (used : List Nat) : Prop where
  hinv : ∃ db g, HInv s db g h used
  size : SizeOK L s
  dur : DurC cfg dir s

/-- where the id of the batch object after a call comes from (state level) -/
def IdFromS (s : St) (op : AOp) (s' : St) : Prop :=
  ∀ b', batchOf s' = some b' → (∃ b, batchOf s = some b ∧ b'.id = b.id) ∨ b'.id ∈ bnewId op

theorem HInv.mono_used {s : St} {db : DB} {g : GDir} {h : Hist} {used used' : List Nat}
    (hi : HInv s db g h used) (hsub : ∀ i ∈ used, i ∈ used') : HInv s db g h used' :=
  ⟨hi.open_, hi.files, hi.units, hi.cur, hi.parked, fun x hx hne => hsub _ (hi.tags x hx hne),
    fun b hb => hsub _ (hi.curUsed b hb)⟩

theorem RunInv.mono_used {L : Nat} {cfg : Cfg} {dir : String} {s : St} {h : Hist} {used used' : List Nat}
    (hr : RunInv L cfg dir s h used) (hsub : ∀ i ∈ used, i ∈ used') : RunInv L cfg dir s h used' := by
  obtain ⟨db, g, hi⟩ := hr.hinv
  exact ⟨⟨db, g, hi.mono_used hsub⟩, hr.size, hr.dur⟩

theorem RunInv_astep {L : Nat} {cfg : Cfg} {dir : String} {s : St} {h : Hist} {used : List Nat} (op : AOp)
    (hr : RunInv L cfg dir s h used) (hop : AOpOK op) (hid : bnewOK s h op) :
    RunInv L cfg dir (astep s op).1 (hstep s h op) (bnewId op ++ used) ∧ IdFromS s op (astep s op).1 := by
  obtain ⟨db, g, hi⟩ := hr.hinv
  have hbs : ∀ b, db.batch = some b → BSize db.cfg.fileSize b := by
    obtain ⟨db1, _, e1, _, _, _, e5⟩ := hr.size
    rw [hi.open_] at e1
    cases e1
    exact e5
  obtain ⟨db', g', h1, h2⟩ := HInv_astep op hi hbs hop hid
  refine ⟨⟨⟨db', g', h1⟩, SizeOK_astep hr.size op hop, DurC_astep hr.dur op⟩, ?_⟩
  intro b' hb'
  rw [batchOf_eq h1.open_] at hb'
  rw [batchOf_eq hi.open_]
  exact h2 b' hb'

theorem RunInv_arun {L : Nat} {cfg : Cfg} {dir : String} (ops : List AOp) :
    ∀ {s : St} {h : Hist} {used : List Nat}, RunInv L cfg dir s h used → (∀ op ∈ ops, AOpOK op) →
      IdsOK s h ops → RunInv L cfg dir (arun s ops) (hrun s h ops) (bnewIds ops ++ used) := by
  induction ops with
  | nil => intro s h used hr _ _; exact hr
  | cons op ops ih =>
    intro s h used hr hok hids
    have := ih (RunInv_astep op hr (hok op (by simp)) hids.1).1 (fun o ho => hok o (by simp [ho])) hids.2
    refine this.mono_used ?_
    intro i hi
    rw [bnewIds_cons]
    simp only [List.mem_append] at hi ⊢
    rcases hi with h1 | h2 | h3
    · exact Or.inl (Or.inr h1)
    · exact Or.inl (Or.inl h2)
    · exact Or.inr h3

/-! ## a simple sufficient condition for the batch-id side condition -/

theorem hstep_dirty_sub (s : St) (h : Hist) (op : AOp) : ∀ i ∈ (hstep s h op).dirty,
    i ∈ h.dirty ∨ ∃ b, batchOf s = some b ∧ b.id = i := by
  intro i hi
  cases op with
  | put k v =>
    simp only [hstep] at hi
    cases hs : s.db with
    | none => rw [hs] at hi; exact Or.inl hi
    | some db => rw [hs] at hi; simp only [] at hi; split at hi <;> exact Or.inl hi
  | del k =>
    simp only [hstep] at hi
    cases hs : s.db with
    | none => rw [hs] at hi; exact Or.inl hi
    | some db =>
      rw [hs] at hi
      simp only [] at hi
      split at hi
      · exact Or.inl hi
      · split at hi <;> exact Or.inl hi
  | get k => exact Or.inl hi
  | sync => exact Or.inl hi
  | bnew sy id => exact dirtyDrop_sub s h i hi
  | bput k v => simp only [hstep] at hi; split at hi <;> exact Or.inl hi
  | bdel k => simp only [hstep] at hi; split at hi <;> exact Or.inl hi
  | bget k => exact Or.inl hi
  | bcommit =>
    simp only [hstep] at hi
    cases hb : batchOf s with
    | none => rw [hb] at hi; exact Or.inl hi
    | some b => rw [hb] at hi; simp only [] at hi; split at hi <;> exact Or.inl hi
  | bdrop => exact dirtyDrop_sub s h i hi

/-- **pairwise distinct, non-zero, unused ids are fine**: if the ids the history passes to
    `NewBatch` are pairwise distinct, non-zero, not abandoned and different from the id of the
    current batch object, the batch-id side condition holds along the whole history -/
theorem IdsOK_of_fresh {L : Nat} {cfg : Cfg} {dir : String} (ops : List AOp) :
    ∀ {s : St} {h : Hist} {used : List Nat}, RunInv L cfg dir s h used → (∀ op ∈ ops, AOpOK op) →
      (bnewIds ops).Nodup →
      (∀ i ∈ bnewIds ops, i ≠ 0 ∧ i ∉ h.dirty ∧ ∀ b, batchOf s = some b → b.id ≠ i) → IdsOK s h ops := by
  induction ops with
  | nil => intro s h used _ _ _ _; trivial
  | cons op ops ih =>
    intro s h used hr hok hnd hfr
    rw [bnewIds_cons] at hnd hfr
    have hid : bnewOK s h op := by
      cases op with
      | bnew sy id =>
        obtain ⟨f1, f2, f3⟩ := hfr id (by simp [bnewId])
        refine ⟨f1, ?_⟩
        intro hmem
        rcases dirtyDrop_sub s h id hmem with e | ⟨b, hb, e⟩
        · exact f2 e
        · exact f3 b hb e
      | _ => trivial
    obtain ⟨hr', hfrom⟩ := RunInv_astep op hr (hok op (by simp)) hid
    refine ⟨hid, ih hr' (fun o ho => hok o (by simp [ho])) (List.nodup_append.mp hnd).2.1 ?_⟩
    intro i hi
    obtain ⟨f1, f2, f3⟩ := hfr i (List.mem_append_right _ hi)
    refine ⟨f1, ?_, ?_⟩
    · intro hmem
      rcases hstep_dirty_sub s h op i hmem with e | ⟨b, hb, e⟩
      · exact f2 e
      · exact f3 b hb e
    · intro b' hb' e
      rcases hfrom b' hb' with ⟨b, hb, e'⟩ | hmem
      · exact f3 b hb (e'.symm.trans e)
      · rw [e] at hmem
        exact (List.nodup_append.mp hnd).2.2 i hmem i hi rfl

/-! ## establishing the run invariant -/

theorem le_sum_of_mem {l : List Nat} {a : Nat} (h : a ∈ l) : a ≤ l.sum := by
  induction l with
  | nil => simp at h
  | cons b t ih =>
    rw [List.sum_cons]
    rcases List.mem_cons.mp h with e | e
    · omega
    · have := ih e; omega

/-- any open handle without a batch object satisfies the size invariant for SOME bound -/
theorem SizeOK_exists {s : St} {db : DB} {g : GDir} (hs : s.db = some db) (hf : Files s db g)
    (hnb : db.batch = none) : ∃ L, SizeOK L s := by
  refine ⟨db.cfg.fileSize + (g.map (fun x => (bytesOf x.2).size)).sum, db, g, hs, hf, ?_, Nat.le_add_right _ _, ?_⟩
  · intro x hx
    left
    have : (bytesOf x.2).size ∈ g.map (fun x => (bytesOf x.2).size) := List.mem_map.mpr ⟨x, hx, rfl⟩
    have := le_sum_of_mem this
    omega
  · intro b hb; rw [hnb] at hb; cases hb

theorem pendingGet_ne_nil_mem (P : Pend) (i : Nat) (h : pendingGet P i ≠ []) : i ∈ P.map (·.1) := by
  induction P with
  | nil => exact absurd rfl h
  | cons y rest ih =>
    obtain ⟨j, l⟩ := y
    simp only [pendingGet] at h
    by_cases e : j = i
    · simp [e]
    · rw [if_neg e] at h
      exact List.mem_cons_of_mem _ (ih h)

/-- the batch ids under which the replay of the ghost directory `g` has parked records (orphaned
    pieces of batches that were never sealed) -/
def orphanIds (g : GDir) : List Nat := (replayLog (logOf g)).pending.map (·.1)

theorem orphanIds_sub {g : GDir} {used : List Nat} (ht : ∀ x ∈ logOf g, x.1.batch ≠ 0 → x.1.batch ∈ used) :
    ∀ i ∈ orphanIds g, i ∈ used := by
  intro i hi
  obtain ⟨e, he, rfl⟩ := List.mem_map.mp hi
  obtain ⟨hne, x, hx, hxe⟩ := pendFrom_replayLog (logOf g) e he
  rw [← hxe]
  exact ht x hx (by rw [hxe]; exact hne)

/-- all non-zero batch ids of the records of a ghost directory -/
def tagIds (g : GDir) : List Nat := ((logOf g).map (fun x => x.1.batch)).filter (· ≠ 0)

theorem tagIds_spec (g : GDir) : ∀ x ∈ logOf g, x.1.batch ≠ 0 → x.1.batch ∈ tagIds g := by
  intro x hx hne
  exact List.mem_filter.mpr ⟨List.mem_map.mpr ⟨x, hx, rfl⟩, by simpa using hne⟩

/-- the run invariant at the start of a history: a handle without a batch object, whose log
    denotes the units `U₀`; `dy` ⊇ the ids with orphaned records in the log count as abandoned;
    `used` ⊇ the batch ids in the log -/
theorem RunInv_start {s : St} {db : DB} {g : GDir} (hs : s.db = some db) (hf : Files s db g)
    (hnb : db.batch = none) (hd : DInv s db) (dy used : List Nat) (hdy : ∀ i ∈ orphanIds g, i ∈ dy)
    (hused : ∀ x ∈ logOf g, x.1.batch ≠ 0 → x.1.batch ∈ used) :
    ∃ L, RunInv L db.cfg db.dir s ⟨unitsOfLog (logOf g), [], dy⟩ used := by
  obtain ⟨L, hL⟩ := SizeOK_exists hs hf hnb
  refine ⟨L, ⟨db, g, hs, hf, rfl, ?_, ?_, hused, ?_⟩, hL, ⟨db, hs, hd, rfl, rfl⟩⟩
  · intro b hb; rw [hnb] at hb; cases hb
  · intro i hi
    exact Or.inl (hdy i (pendingGet_ne_nil_mem _ i hi))
  · intro b hb; rw [hnb] at hb; cases hb

/-- units acknowledged before the history are simply carried along; the rest of the bookkeeping
    does not depend on them -/
theorem hstep_units (s : St) (u : List MUnit) (fl : List Staged) (dy : List Nat) (op : AOp) :
    hstep s ⟨u, fl, dy⟩ op
      = ⟨u ++ (hstep s ⟨[], fl, dy⟩ op).units, (hstep s ⟨[], fl, dy⟩ op).flushed, (hstep s ⟨[], fl, dy⟩ op).dirty⟩ := by
  cases op with
  | put k v =>
    simp only [hstep]
    cases s.db with
    | none => simp
    | some db => simp only []; split <;> simp
  | del k =>
    simp only [hstep]
    cases s.db with
    | none => simp
    | some db =>
      simp only []
      split
      · simp
      · split <;> simp
  | get k => simp [hstep]
  | sync => simp [hstep]
  | bnew sy id => simp [hstep, dirtyDrop]
  | bput k v => simp only [hstep]; split <;> simp
  | bdel k => simp only [hstep]; split <;> simp
  | bget k => simp [hstep]
  | bcommit =>
    simp only [hstep]
    cases batchOf s with
    | none => simp
    | some b => simp only []; split <;> simp
  | bdrop => simp [hstep, dirtyDrop]

theorem hrun_units (ops : List AOp) : ∀ (s : St) (u : List MUnit) (fl : List Staged) (dy : List Nat),
    (hrun s ⟨u, fl, dy⟩ ops).units = u ++ (hrun s ⟨[], fl, dy⟩ ops).units := by
  induction ops with
  | nil => intro s u fl dy; simp [hrun]
  | cons op ops ih =>
    intro s u fl dy
    simp only [hrun]
    rw [hstep_units s u fl dy op, ih, ih _ (hstep s ⟨[], fl, dy⟩ op).units, List.append_assoc]

/-- units and flushed pieces do not depend on the list of abandoned ids -/
theorem hstep_indep_dirty (s : St) (u : List MUnit) (fl : List Staged) (dy dy' : List Nat) (op : AOp) :
    (hstep s ⟨u, fl, dy⟩ op).units = (hstep s ⟨u, fl, dy'⟩ op).units ∧
    (hstep s ⟨u, fl, dy⟩ op).flushed = (hstep s ⟨u, fl, dy'⟩ op).flushed := by
  cases op with
  | put k v =>
    simp only [hstep]
    cases s.db with
    | none => simp
    | some db => simp only []; split <;> simp
  | del k =>
    simp only [hstep]
    cases s.db with
    | none => simp
    | some db =>
      simp only []
      split
      · simp
      · split <;> simp
  | get k => simp [hstep]
  | sync => simp [hstep]
  | bnew sy id => simp [hstep]
  | bput k v => simp only [hstep]; split <;> simp
  | bdel k => simp only [hstep]; split <;> simp
  | bget k => simp [hstep]
  | bcommit =>
    simp only [hstep]
    cases batchOf s with
    | none => simp
    | some b => simp only []; split <;> simp
  | bdrop => simp [hstep]

theorem hrun_indep_dirty (ops : List AOp) : ∀ (s : St) (u : List MUnit) (fl : List Staged) (dy dy' : List Nat),
    (hrun s ⟨u, fl, dy⟩ ops).units = (hrun s ⟨u, fl, dy'⟩ ops).units ∧
    (hrun s ⟨u, fl, dy⟩ ops).flushed = (hrun s ⟨u, fl, dy'⟩ ops).flushed := by
  induction ops with
  | nil => intro s u fl dy dy'; exact ⟨rfl, rfl⟩
  | cons op ops ih =>
    intro s u fl dy dy'
    simp only [hrun]
    obtain ⟨e1, e2⟩ := hstep_indep_dirty s u fl dy dy' op
    have a : hstep s ⟨u, fl, dy⟩ op
        = ⟨(hstep s ⟨u, fl, dy⟩ op).units, (hstep s ⟨u, fl, dy⟩ op).flushed, (hstep s ⟨u, fl, dy⟩ op).dirty⟩ := rfl
    have b : hstep s ⟨u, fl, dy'⟩ op
        = ⟨(hstep s ⟨u, fl, dy⟩ op).units, (hstep s ⟨u, fl, dy⟩ op).flushed, (hstep s ⟨u, fl, dy'⟩ op).dirty⟩ := by
      rw [e1, e2]
    rw [a, b]
    exact ih _ _ _ _ _

theorem bnewOK_units (s : St) (u : List MUnit) (fl : List Staged) (dy : List Nat) (op : AOp) :
    bnewOK s ⟨u, fl, dy⟩ op ↔ bnewOK s ⟨[], fl, dy⟩ op := by
  cases op <;> simp [bnewOK, dirtyDrop]

theorem IdsOK_units (ops : List AOp) : ∀ (s : St) (u : List MUnit) (fl : List Staged) (dy : List Nat),
    IdsOK s ⟨u, fl, dy⟩ ops ↔ IdsOK s ⟨[], fl, dy⟩ ops := by
  induction ops with
  | nil => intro s u fl dy; simp [IdsOK]
  | cons op ops ih =>
    intro s u fl dy
    simp only [IdsOK]
    rw [hstep_units s u fl dy op, ih, bnewOK_units]
    exact and_congr Iff.rfl (ih _ (hstep s ⟨[], fl, dy⟩ op).units _ _).symm

/-! ## what is durable -/

/-- **at least `n` units are durable in state `s`**: the ghost directory of the open handle is
    `g0 ++ [(activeId, gf)]` (older files, then the active file), the first `m` records of the
    active file end inside its flushed prefix, and the log consisting of the older files (which
    are completely flushed, `DInv`) and those `m` records denotes at least `n` units — i.e. at
    least `n` units have their LAST record inside the flushed prefix of its file. -/
def Durable (s : St) (n : Nat) : Prop :=
  ∃ db g0 gf m, s.db = some db ∧ Files s db (g0 ++ [(db.activeId, gf)]) ∧ m ≤ gf.length ∧
    (bytesOf (gf.take m)).size ≤ (activeFile s db).synced ∧
    n ≤ (unitsOfLog (logOf (g0 ++ [(db.activeId, gf.take m)]))).length

theorem Durable.mono {s : St} {n n' : Nat} (h : Durable s n) (hle : n' ≤ n) : Durable s n' := by
  obtain ⟨db, g0, gf, m, h1, h2, h3, h4, h5⟩ := h
  exact ⟨db, g0, gf, m, h1, h2, h3, h4, Nat.le_trans hle h5⟩

/-- when every data file is completely flushed, everything the log denotes is durable -/
theorem Durable_all {s : St} {db : DB} {g : GDir} (hs : s.db = some db) (hf : Files s db g) (hd : DInv s db)
    (hall : AllSynced s db) : Durable s (unitsOfLog (logOf g)).length := by
  obtain ⟨g0, gf, hg, _⟩ := hf.last
  have hb : (activeFile s db).bytes = bytesOf gf := activeFile_bytes hf.dir hf.asc (by rw [hg]; simp)
  refine ⟨db, g0, gf, gf.length, hs, by rw [← hg]; exact hf, Nat.le_refl _, ?_, ?_⟩
  · rw [List.take_length, hall.active hd, hb]; exact Nat.le_refl _
  · rw [List.take_length, ← hg]; exact Nat.le_refl _

/-! ## the crash -/

/-- **the crash theorem in terms of the bookkeeping**: in a state reached by a history whose units
    are `h.units`, any crash image is opened successfully, the recovered mapping is that of a
    prefix of the units; the prefix is everything when no byte was lost and contains at least the
    durable units.  The recovered handle (directory `dir`, configuration `cfg'`, no batch object)
    satisfies the engine invariant for a ghost directory that denotes exactly the surviving units
    and whose batch ids are among `used`; with sane flush marks in the image it satisfies the
    durability invariant; no merge directory appears. -/
theorem crash_of_RunInv {L : Nat} {cfg : Cfg} {dir : String} {s : St} {h : Hist} {used : List Nat}
    (hr : RunInv L cfg dir s h used)
    (sc : St) (cfg' : Cfg) (d dc : DirSt)
    (hd : s.world.get dir = some d) (hnodb : sc.db = none) (hdc : sc.world.get dir = some dc)
    (hunl : dc.locked = false) (himg : CrashImage d.data dc.data)
    (hnomerge : sc.world.get (mergeDirName dir) = none) (hcfg : cfg'.Valid) :
    ∃ s' db' g' j, openDB sc dir cfg' = (s', .ok) ∧ s'.db = some db' ∧ Inv s' db' g' ∧
      unitsOfLog (logOf g') = h.units.take j ∧ j ≤ h.units.length ∧
      (∀ k, absGet s' db' k = specOfUnits (h.units.take j) k) ∧
      (dc.data.map (fun x => (x.1, x.2.bytes.size)) = d.data.map (fun x => (x.1, x.2.bytes.size)) →
        j = h.units.length) ∧
      (∀ n, Durable s n → n ≤ j) ∧
      db'.dir = dir ∧ db'.cfg = cfg' ∧ (SaneMarks dc.data → DInv s' db') ∧
      (∀ x ∈ logOf g', x.1.batch ≠ 0 → x.1.batch ∈ used) ∧
      s'.world.get (mergeDirName dir) = none := by
  obtain ⟨db, g, hi⟩ := hr.hinv
  obtain ⟨db1, e1, hdinv, _, hdir⟩ := hr.dur
  rw [hi.open_] at e1
  cases e1
  subst hdir
  have hlast : OnlyLastCut d.data := by
    have := hdinv.older
    rwa [dirOf_eq hd] at this
  obtain ⟨g', s', db', hopen, hdb', hinv', _, hdir', hcfg'', hpre, hsync, hall, hdur, hnm⟩ :=
    crash_restart_files s sc db g cfg' d dc hi.files hd hlast hnodb hdc hunl himg hnomerge hcfg
  have hup := unitsOfLog_prefix hpre
  rw [hi.units] at hup
  have htake := prefix_eq_take hup
  refine ⟨s', db', g', (unitsOfLog (logOf g')).length, hopen, hdb', hinv', htake, hup.length_le, ?_, ?_, ?_,
    hdir', hcfg'', hdur, fun x hx hne => hi.tags x (hpre.subset hx) hne, hnm⟩
  · intro k
    rw [absGet_units hinv'.files hinv'.index k, ← htake]
  · intro hsame
    rw [hall hsame, hi.units]
  · intro n hn
    obtain ⟨db2, g0, gf, m, hs2, hf2, hm, hsz, hle⟩ := hn
    rw [hi.open_] at hs2
    cases hs2
    have hg : g = g0 ++ [(db.activeId, gf)] := Files_unique hi.files hf2
    obtain ⟨pre, f, hdata, hlt⟩ := hdinv.shape
    have haf := active_of_shape hdata hlt
    rw [dirOf_eq hd] at hdata
    have hl2 : d.data.getLast? = some (db.activeId, f) := by rw [hdata, List.getLast?_concat]
    rw [haf] at hsz
    exact Nat.le_trans hle (unitsOfLog_prefix (hsync g0 db.activeId gf f m hg hl2 hm hsz)).length_le

end XixiKV.C03H
