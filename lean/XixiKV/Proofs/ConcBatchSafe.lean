import XixiKV.Proofs.ConcBatchLin
/-!
# A static sufficient condition for `BenignFlushes`: put-only batches that write every key once
-/
namespace XixiKV.ConcBatch
open XixiKV.Conc (Tid Key Val upd updK Res upd_same upd_ne)

/-- the batch consists of `Put`s of pairwise distinct keys -/
def SafeBatch (ops : List BOp) : Prop :=
  (ops.all fun x => x.2.isSome) = true ∧ (ops.map (·.1)).Nodup
instance (ops : List BOp) : Decidable (SafeBatch ops) := inferInstanceAs (Decidable (_ ∧ _))

def safeEv : Ev → Bool
  | .inv _ (.batch ops) => decide (SafeBatch ops)
  | _ => true

/-- every batch invoked in the history is put-only with distinct keys -/
def SafeBatches (h : List Ev) : Prop := h.all safeEv = true
instance (h : List Ev) : Decidable (SafeBatches h) := inferInstanceAs (Decidable (_ = _))

def restOfF : Option (BOp × List BOp) → List BOp
  | none => []
  | some (op, rest) => op :: rest

def SafeFacts : PC → Prop
  | .batWant ops => SafeBatch ops
  | .batOpen ops _ _ staged rest => SafeBatch ops ∧ ∃ done, done ++ rest = ops ∧ ∀ x ∈ staged, x ∈ done
  | .batFlush ops _ _ _ next => SafeBatch ops ∧ ∃ done, done ++ restOfF next = ops
  | _ => True

theorem safe_suffix {evs h : List Ev} (hs : SafeBatches (evs ++ h)) : SafeBatches h := by
  unfold SafeBatches at hs ⊢
  rw [List.all_append, Bool.and_eq_true] at hs
  exact hs.2

theorem benign_append {evs h : List Ev} (he : ∀ e ∈ evs, benignEv e = true) (hb : BenignFlushes h) :
    BenignFlushes (evs ++ h) := by
  unfold BenignFlushes at hb ⊢
  rw [List.all_append, Bool.and_eq_true]
  exact ⟨List.all_eq_true.2 he, hb⟩

theorem benign_commitEvs (t : Tid) (ops : List BOp) (log : List Rec) (ws : List (Tid × Key × Nat)) :
    ∀ e ∈ commitEvs t ops log ws, benignEv e = true := by
  intro e he
  simp only [commitEvs, List.mem_append, List.mem_map, List.mem_singleton] at he
  rcases he with ⟨w, _, rfl⟩ | rfl <;> rfl

theorem mem_setStaged {staged : List BOp} {k : Key} {ov : Option Val} {x : BOp}
    (h : x ∈ setStaged staged k ov) : x ∈ staged ∨ x = (k, ov) := by
  induction staged with
  | nil => simp [setStaged] at h
  | cons y l ih =>
    simp only [setStaged] at h
    split at h
    · rcases List.mem_cons.1 h with h | h
      · right; exact h
      · left; exact List.mem_cons_of_mem _ h
    · rcases List.mem_cons.1 h with h | h
      · left; rw [h]; exact List.mem_cons_self
      · rcases ih h with h | h
        · left; exact List.mem_cons_of_mem _ h
        · right; exact h

theorem mem_stage {staged : List BOp} {present : Bool} {op x : BOp}
    (h : x ∈ stage staged present op) : x ∈ staged ∨ x = op := by
  unfold stage at h
  have key : x ∈ staged ++ [op] → x ∈ staged ∨ x = op := by
    intro h; simpa using h
  split at h
  · exact mem_setStaged h
  · split at h
    · exact key h
    · split at h
      · exact key h
      · left; exact h

/-- a flush of staged records that come from the processed prefix of a safe batch is benign -/
theorem benign_of_safe {ops done rest staged : List BOp} (hs : SafeBatch ops)
    (hd : done ++ rest = ops) (hst : ∀ x ∈ staged, x ∈ done) : benignFlush staged rest = true := by
  simp only [benignFlush, List.all_eq_true, Bool.and_eq_true, Bool.not_eq_true']
  intro x hx
  have hxd := hst x hx
  subst hd
  obtain ⟨h1, h2⟩ := hs
  refine ⟨List.all_eq_true.1 h1 x (List.mem_append_left _ hxd), ?_⟩
  rw [hasKey_false_iff]
  rw [List.map_append, List.nodup_append] at h2
  intro hm
  exact h2.2.2 x.1 (List.mem_map.2 ⟨x, hxd, rfl⟩) x.1 hm rfl

theorem safe_step_simple {g : G} {t : Tid} {c' : PC} {evs : List Ev}
    (ih : BenignFlushes g.hist ∧ ∀ t, SafeFacts (g.pc t))
    (hev : ∀ e ∈ evs, benignEv e = true) (hc : SafeFacts c') :
    BenignFlushes (evs ++ g.hist) ∧ ∀ t', SafeFacts (upd g.pc t c' t') := by
  refine ⟨benign_append hev ih.1, ?_⟩
  intro t'
  unfold upd
  split
  · exact hc
  · exact ih.2 t'

theorem relOf_safe {c c' : PC} (h : relOf c = some c') : SafeFacts c' := by
  cases c <;> (try (rename_i b; cases b)) <;> simp only [relOf] at h <;> cases h <;> trivial

theorem safe_inv {sh : Shape} {g : G} (hr : Reachable sh g) (hs : SafeBatches g.hist) :
    BenignFlushes g.hist ∧ ∀ t, SafeFacts (g.pc t) := by
  induction hr with
  | init => exact ⟨rfl, fun _ => trivial⟩
  | @step g g' hr hst ih =>
    obtain ⟨evs0, he0⟩ := step_hist hst
    have ih := ih (by rw [he0] at hs; exact safe_suffix hs)
    cases hst with
    | call t op hpc =>
      refine safe_step_simple (evs := [.inv t op]) ih (by simp [benignEv]) ?_
      have : safeEv (.inv t op) = true := by
        unfold SafeBatches at hs
        simp only [List.all_cons, Bool.and_eq_true] at hs
        exact hs.1
      cases op <;> first | trivial | (simpa [safeEv, SafeFacts, wantOf] using this)
    | ret t r hr => exact safe_step_simple (evs := [.ret t r]) ih (by simp [benignEv]) trivial
    | rel t c' hr =>
      exact safe_step_simple (evs := []) ih (by simp) (relOf_safe hr)
    | putAcq t k v hpc hw => exact safe_step_simple (evs := []) ih (by simp) trivial
    | putAppend t k v hpc => exact safe_step_simple (evs := []) ih (by simp) trivial
    | putIndex t k v p hpc =>
      exact safe_step_simple (evs := [.lin t (.put k v) .ok]) ih (by simp [benignEv]) trivial
    | delAcq t k hpc hw => exact safe_step_simple (evs := []) ih (by simp) trivial
    | delCheckMiss t k hpc hk =>
      exact safe_step_simple (evs := [.lin t (.del k) .ok]) ih (by simp [benignEv]) trivial
    | delCheckHit t k p hpc hk => exact safe_step_simple (evs := []) ih (by simp) trivial
    | delAppend t k hpc => exact safe_step_simple (evs := []) ih (by simp) trivial
    | delIndex t k hpc =>
      exact safe_step_simple (evs := [.lin t (.del k) (delRes (g.idx k))]) ih
        (by simp [benignEv]) trivial
    | getIdxMiss t k hpc hg hk =>
      exact safe_step_simple (evs := [.lin t (.get k) (.val none)]) ih (by simp [benignEv]) trivial
    | getIdxHit t k p hpc hg hk ho =>
      exact safe_step_simple (evs := [.lin t (.get k) (readPos g.log (some p))]) ih
        (by simp [benignEv]) trivial
    | getIdxWait t k p hpc hg hk ho => exact safe_step_simple (evs := []) ih (by simp) trivial
    | getResolve t k p hpc hw => exact safe_step_simple (evs := []) ih (by simp) trivial
    | batAcq t ops hpc hw =>
      have h := ih.2 t
      rw [hpc] at h
      exact safe_step_simple (evs := []) ih (by simp) ⟨h, [], rfl, fun x hx => by cases hx⟩
    | batStage t ops b s staged op rest hpc =>
      have h := ih.2 t
      rw [hpc] at h
      obtain ⟨h1, done, hd, hst⟩ := h
      refine safe_step_simple (evs := []) ih (by simp) ⟨h1, done ++ [op], by simp [← hd], ?_⟩
      intro x hx
      rcases mem_stage hx with h | h
      · exact List.mem_append_left _ (hst x h)
      · simp [h]
    | batFlushEarly t ops b s staged op rest hpc hmf =>
      have h := ih.2 t
      rw [hpc] at h
      obtain ⟨h1, done, hd, hst⟩ := h
      refine safe_step_simple (evs := [.flush t staged (op :: rest)]) ih ?_ ⟨h1, done, hd⟩
      intro e he
      simp only [List.mem_singleton] at he
      subst he
      exact benign_of_safe h1 hd hst
    | batIndex t ops b s k po todo next hpc =>
      have h := ih.2 t
      rw [hpc] at h
      exact safe_step_simple (evs := []) ih (by simp) h
    | batResume t ops b s op rest hpc =>
      have h := ih.2 t
      rw [hpc] at h
      obtain ⟨h1, done, hd⟩ := h
      exact safe_step_simple (evs := []) ih (by simp)
        ⟨h1, done ++ [op], by simpa [restOfF] using hd, fun x hx => by simp at hx; simp [hx]⟩
    | batCommitEmpty t ops b s hpc =>
      exact safe_step_simple ih (benign_commitEvs _ _ _ _) trivial
    | batCommitFlush t ops b s staged hpc hne =>
      have h := ih.2 t
      rw [hpc] at h
      obtain ⟨h1, done, hd, hst⟩ := h
      refine safe_step_simple (evs := [.flush t staged []]) ih ?_ ⟨h1, done, hd⟩
      intro e he
      simp only [List.mem_singleton] at he
      subst he
      exact benign_of_safe h1 hd hst
    | batSeal t ops b s hpc =>
      exact safe_step_simple ih (benign_commitEvs _ _ _ _) trivial

end XixiKV.ConcBatch
