import XixiKV.Proofs.DatatypeSim
/-!
# Every command preserves the simulation relation and replies as the specification does
-/
namespace XixiKV.Datatype
open XixiKV XixiKV.Varint XixiKV.Record Spec

/-- close `reply = reply ∧ R …` whatever `simp` made of the first half -/
macro "fin " h:term : tactic => `(tactic| first | exact ⟨rfl, $h⟩ | exact ⟨trivial, $h⟩ | exact $h)

/-! ### type codes -/
theorem dt_ne : tString ≠ tHash ∧ tString ≠ tSet ∧ tString ≠ tList ∧ tString ≠ tZSet ∧
    tHash ≠ tString ∧ tHash ≠ tSet ∧ tHash ≠ tList ∧ tHash ≠ tZSet ∧
    tSet ≠ tString ∧ tSet ≠ tHash ∧ tSet ≠ tList ∧ tSet ≠ tZSet ∧
    tList ≠ tString ∧ tList ≠ tHash ∧ tList ≠ tSet ∧ tList ≠ tZSet ∧
    tZSet ≠ tString ∧ tZSet ≠ tHash ∧ tZSet ≠ tSet ∧ tZSet ≠ tList := by decide

/-- the type byte of the record that represents `o` -/
def dtOf : Obj → UInt8
  | .str .. => tString | .hash .. => tHash | .set .. => tSet | .list .. => tList | .zset .. => tZSet

/-! ### `findMetadata` -/

theorem findMetadata_none {kv : KV} {now : Nat} {k : ByteArray} (dt : UInt8) (hne : k.size ≠ 0)
    (h : kv.get k = none) : findMetadata kv now k dt = .ok (freshMeta dt now) := by
  simp only [findMetadata, hne, h, ↓reduceIte]

/-- the expiry test of `findMetadata` / `Type` on a record that starts with `putVarintNat e` -/
theorem recExpired_put (e : Nat) (rest : List UInt8) (now : Nat) (he : e < 2 ^ 63) :
    recExpired (putVarintNat e ++ rest) now = expired e now := by
  have h64 : (2:Nat) ^ 64 = 2 * 2 ^ 63 := by decide
  have hu : uvarint (putVarintNat e ++ rest) = some (2 * e, (putVarintNat e).length) :=
    uvarint_putUvarint (2 * e) _ (by omega)
  have hm : ¬ (2 * e % 2 = 1) := by omega
  have hd : 2 * e / 2 = e := by omega
  simp only [recExpired, hu, hm, hd, expired, decide_false, Bool.false_or]

theorem findMetadata_meta {kv : KV} {now : Nat} {k : ByteArray} (dt : UInt8) (hne : k.size ≠ 0) {m : Meta}
    (hv : m.Valid) (he : m.expire = 0) (h : kv.get k = some (encodeMeta m)) :
    findMetadata kv now k dt = if m.dataType = dt then .ok m else .error .wrongType := by
  have hx : recExpired (putVarintNat m.expire ++ (putVarintNat m.version ++ (putVarintNat m.size
      ++ (if m.dataType = tList then putUvarint m.head ++ putUvarint m.tail else [])))) now = false := by
    rw [recExpired_put _ _ _ hv.expire, he]; rfl
  simp only [findMetadata, hne, h, ↓reduceIte]
  rw [encodeMeta_toL]
  simp only [hx, Bool.false_eq_true, ↓reduceIte, metaDecodePanics_encodeMeta m hv, decodeMeta_encodeMeta m hv]
  by_cases hd : m.dataType = dt <;> simp [hd]

/-- a string record: absent when expired, otherwise of the wrong type -/
theorem findMetadata_str {kv : KV} {now : Nat} {k : ByteArray} {dt : UInt8} (hne : k.size ≠ 0) {e : Nat}
    {v : ByteArray} (h : kv.get k = some (encodeStr e v)) (he : e < 2 ^ 63) (hdt : tString ≠ dt) :
    findMetadata kv now k dt = if expired e now then .ok (freshMeta dt now) else .error .wrongType := by
  simp only [findMetadata, hne, h, ↓reduceIte]
  rw [encodeStr_toL]
  simp only [recExpired_put e _ now he]
  cases expired e now <;> simp [hdt]

theorem hashMeta_valid {ver n : Nat} (hv : ver < 2 ^ 63) (hn : n < 2 ^ 32) : (hashMeta ver n).Valid :=
  ⟨by simp [hashMeta], hv, hn, by simp [hashMeta], by simp [hashMeta], fun _ => ⟨rfl, rfl⟩⟩
theorem setMeta_valid {ver n : Nat} (hv : ver < 2 ^ 63) (hn : n < 2 ^ 32) : (setMeta ver n).Valid :=
  ⟨by simp [setMeta], hv, hn, by simp [setMeta], by simp [setMeta], fun _ => ⟨rfl, rfl⟩⟩
theorem zsetMeta_valid {ver n : Nat} (hv : ver < 2 ^ 63) (hn : n < 2 ^ 32) : (zsetMeta ver n).Valid :=
  ⟨by simp [zsetMeta], hv, hn, by simp [zsetMeta], by simp [zsetMeta], fun _ => ⟨rfl, rfl⟩⟩
theorem listMeta_valid {ver n head : Nat} (hv : ver < 2 ^ 63) (hn : n < 2 ^ 32) (hh : head + n < 2 ^ 64) :
    (listMeta ver n head).Valid :=
  ⟨by simp [listMeta], hv, hn, by simp only [listMeta]; omega, hh, fun h => absurd rfl h⟩

theorem initialListMark_eq : initialListMark = 2 ^ 63 - 1 := by decide

/-- a record of another type: `ErrWrongTypeOperation` -/
theorem findMetadata_wrong {M : List ByteArray} {t : Nat} {kv : KV} {now : Nat} {k : ByteArray} {o : Obj}
    (dt : UInt8) (hne : k.size ≠ 0) (ht : t ≤ 2 ^ 62) (ho : Stored M t kv k o) (hdt : dtOf o ≠ dt)
    (hlive : ∀ v e, o = .str v e → expired e now = false) :
    findMetadata kv now k dt = .error .wrongType := by
  have h62 : (2:Nat) ^ 62 < 2 ^ 63 := by decide
  cases o with
  | str v e => rw [findMetadata_str hne ho.1 ho.2 hdt, hlive v e rfl]; rfl
  | hash fs =>
    obtain ⟨ver, h1, h2, h3, _⟩ := ho
    rw [findMetadata_meta dt hne (hashMeta_valid (by omega) h2) rfl h3]; exact if_neg hdt
  | set ms =>
    obtain ⟨ver, h1, h2, h3, _⟩ := ho
    rw [findMetadata_meta dt hne (setMeta_valid (by omega) h2) rfl h3]; exact if_neg hdt
  | list l =>
    obtain ⟨ver, head, h1, h2, h3, h4, h5, _⟩ := ho
    have := initialListMark_eq
    rw [findMetadata_meta dt hne (listMeta_valid (by omega) h2 (by omega)) rfl h3]; exact if_neg hdt
  | zset zs =>
    obtain ⟨ver, h1, h2, h3, _⟩ := ho
    rw [findMetadata_meta dt hne (zsetMeta_valid (by omega) h2) rfl h3]; exact if_neg hdt

/-! ### hypotheses of the step theorem -/

/-- number of elements of a container -/
def card : Obj → Nat
  | .str .. => 0 | .hash fs => fs.length | .set ms => ms.length | .list l => l.length | .zset zs => zs.length

/-- **arguments**: the key is one of the prefix-free set `U`; sorted-set members come from the
    clash-free set `M`; a score text is not empty -/
def CmdOK (U M : List ByteArray) (c : Cmd) : Prop :=
  c.key ∈ U ∧
  match c with
  | .zadd _ s m => m ∈ M ∧ s.size ≠ 0
  | .zscore _ m => m ∈ M
  | _ => True

/-- **state-dependent hypotheses**, decidable on the specification state:
    * the object under the key has fewer than `2^32 - 1` elements (`size` is a `uint32`);
    * the expiry time `now + ttl` of a `Set` fits an `int64`. -/
def StepOK (sp : State) (c : Cmd) (now : Nat) : Bool :=
  (match sp.find c.key with
   | some o => decide (card o + 1 < 2 ^ 32)
   | none => true) &&
  (match c with
   | .set _ (some _) ttl => decide (now + ttl < 2 ^ 63)
   | _ => true)

/-- what a key holds at `now` is what the state has under it, and not an expired string -/
theorem live_some {sp : State} {now : Nat} {k : ByteArray} {o : Obj} (h : sp.live now k = some o) :
    sp.find k = some o ∧ ∀ v e, o = .str v e → expired e now = false := by
  unfold State.live at h
  cases hf : sp.find k with
  | none => rw [hf] at h; simp at h
  | some o' =>
    rw [hf] at h
    cases o' with
    | str v e =>
      simp only at h
      cases hx : expired e now with
      | true => rw [hx] at h; simp at h
      | false =>
        rw [hx] at h
        simp only [Bool.false_eq_true, ↓reduceIte, Option.some.injEq] at h
        subst h
        refine ⟨rfl, ?_⟩
        intro v' e' he
        cases he
        exact hx
    | hash _ | set _ | list _ | zset _ =>
      simp only [Option.some.injEq] at h
      subst h
      exact ⟨rfl, fun v e he => by cases he⟩

/-- a key holds nothing at `now`: nothing is stored under it, or a string that has expired -/
theorem live_none {sp : State} {now : Nat} {k : ByteArray} (h : sp.live now k = none) :
    sp.find k = none ∨ ∃ v e, sp.find k = some (.str v e) ∧ expired e now = true := by
  unfold State.live at h
  cases hf : sp.find k with
  | none => exact Or.inl rfl
  | some o' =>
    rw [hf] at h
    cases o' with
    | str v e =>
      simp only at h
      cases hx : expired e now with
      | true => exact Or.inr ⟨v, e, rfl, hx⟩
      | false => rw [hx] at h; simp at h
    | hash _ | set _ | list _ | zset _ => simp at h

theorem stepOK_card {sp : State} {c : Cmd} {now : Nat} (h : StepOK sp c now = true) {o : Obj}
    (ho : sp.find c.key = some o) : card o + 1 < 2 ^ 32 := by
  unfold StepOK at h
  rw [ho] at h
  simp only [Bool.and_eq_true, decide_eq_true_eq] at h
  exact h.1

theorem step_of_ne (c : Cmd) (s : State) (now : Nat) (h : c.key.size ≠ 0) : Spec.step c s now = Spec.stepNE c s now := by
  unfold Spec.step
  split
  · rfl
  · simp [h]

theorem stored_head {M : List ByteArray} {t : Nat} {kv : KV} {k : ByteArray} {o : Obj} (ho : Stored M t kv k o) :
    ∃ buf r, kv.get k = some buf ∧ buf.data.toList = dtOf o :: r := by
  cases o with
  | str v e => exact ⟨_, _, ho.1, encodeStr_toL e v⟩
  | hash fs => obtain ⟨ver, _, _, h3, _⟩ := ho; exact ⟨_, _, h3, encodeMeta_toL _⟩
  | set ms => obtain ⟨ver, _, _, h3, _⟩ := ho; exact ⟨_, _, h3, encodeMeta_toL _⟩
  | list l => obtain ⟨ver, head, _, _, h3, _⟩ := ho; exact ⟨_, _, h3, encodeMeta_toL _⟩
  | zset zs => obtain ⟨ver, _, _, h3, _⟩ := ho; exact ⟨_, _, h3, encodeMeta_toL _⟩

section
variable {U M : List ByteArray} {t : Nat} {kv : KV} {sp : State}

/-- what the step theorem says about one command -/
def Refines (U M : List ByteArray) (kv : KV) (sp : State) (c : Cmd) (now : Nat) : Prop :=
  (run c kv now).2 = (Spec.step c sp now).2 ∧ R U M (now + 1) (run c kv now).1 (Spec.step c sp now).1

theorem refines_set (hU : PrefixFree U) (hR : R U M t kv sp) {k : ByteArray} (hk : k ∈ U) (hne : k.size ≠ 0)
    (v : Option ByteArray) (ttl : Nat) {now : Nat} (ht : t ≤ now) (hnow : now < 2 ^ 62)
    (hok : StepOK sp (.set k v ttl) now = true) : Refines U M kv sp (.set k v ttl) now := by
  cases v with
  | none => fin (R_same hR ht)
  | some v =>
    have hrun : run (.set k (some v) ttl) kv now
        = (kv.put k (encodeStr (if ttl = 0 then 0 else now + ttl) v), .ok) := by
      simp only [run, set, hne, ↓reduceIte]
      by_cases h0 : ttl = 0 <;> simp [h0]
    have hspec : Spec.step (.set k (some v) ttl) sp now
        = (sp.store k (.str v (if ttl = 0 then 0 else now + ttl)), .ok) := by
      rw [step_of_ne (.set k (some v) ttl) _ _ hne]; rfl
    unfold Refines
    rw [hrun, hspec]
    refine ⟨rfl, ?_⟩
    apply R_step hU hR hk ht hnow (Nat.le_refl now)
    · intro x hx _; rw [KV.get_put, if_neg hx]
    · intro x hx; rw [find_store, if_neg hx]
    · rw [find_store, if_pos rfl]
      refine ⟨by rw [KV.get_put, if_pos rfl], ?_⟩
      have : now + ttl < 2 ^ 63 := by
        unfold StepOK at hok
        simp only [Bool.and_eq_true, decide_eq_true_eq] at hok
        exact hok.2
      split <;> omega

theorem refines_get (hR : R U M t kv sp) {k : ByteArray} (hk : k ∈ U) (hne : k.size ≠ 0)
    {now : Nat} (ht : t ≤ now) : Refines U M kv sp (.get k) now := by
  unfold Refines
  rw [step_of_ne (.get k) _ _ hne]
  have hobj := hR.obj k hk
  simp only [run, get, hne, ↓reduceIte, Spec.stepNE]
  cases hf : sp.find k with
  | none =>
    rw [hf] at hobj
    have : kv.get k = none := hobj
    simp only [this]
    fin (R_same hR ht)
  | some o =>
    rw [hf] at hobj
    have hst : Stored M t kv k o := hobj
    cases o with
    | str v e =>
      have h1 : kv.get k = some (encodeStr e v) := hst.1
      have h64 : (2:Nat) ^ 64 = 2 * 2 ^ 63 := by decide
      have hu : uvarint (putVarintNat e ++ v.data.toList) = some (2 * e, (putVarintNat e).length) :=
        uvarint_putUvarint (2 * e) _ (by have := hst.2; omega)
      have hm : 2 * e % 2 = 0 := by omega
      have hd : 2 * e / 2 = e := by omega
      simp only [h1, encodeStr_toL, ne_eq, not_true_eq_false, ↓reduceIte, hu, hm, hd, true_and, encodeStr_value]
      by_cases hex : e > 0 ∧ e ≤ now
      · have : expired e now = true := by simp [expired]; omega
        simp only [hex, and_self, ↓reduceIte, this]
        fin (R_same hR ht)
      · have : expired e now = false := by
          simp only [expired, ne_eq, Bool.and_eq_false_imp, decide_eq_false_iff_not, decide_eq_true_eq]
          omega
        simp only [hex, ↓reduceIte, this]
        fin (R_same hR ht)
    | hash fs | set ms | list l | zset zs =>
      obtain ⟨buf, r, h1, h2⟩ := stored_head hst
      simp only [h1, h2, dtOf, ne_eq, dt_ne, not_false_eq_true, ↓reduceIte]
      fin (R_same hR ht)

theorem refines_del (hU : PrefixFree U) (hR : R U M t kv sp) {k : ByteArray} (hk : k ∈ U) (hne : k.size ≠ 0)
    {now : Nat} (ht : t ≤ now) (hnow : now < 2 ^ 62) : Refines U M kv sp (.del k) now := by
  unfold Refines
  rw [step_of_ne (.del k) _ _ hne]
  simp only [run, del, hne, ↓reduceIte, Spec.stepNE]
  refine ⟨trivial, ?_⟩
  apply R_step hU hR hk ht hnow (Nat.le_refl now)
  · intro x hx _; rw [KV.get_delete, if_neg hx]
  · intro x hx; rw [find_drop, if_neg hx]
  · rw [find_drop, if_pos rfl]
    show (kv.delete k).get k = none
    rw [KV.get_delete, if_pos rfl]

theorem refines_type (hR : R U M t kv sp) {k : ByteArray} (hk : k ∈ U) (hne : k.size ≠ 0)
    {now : Nat} (ht : t ≤ now) : Refines U M kv sp (.type k) now := by
  unfold Refines
  rw [step_of_ne (.type k) _ _ hne]
  have hobj := hR.obj k hk
  simp only [run, type, hne, ↓reduceIte, Spec.stepNE, State.live]
  cases hf : sp.find k with
  | none =>
    rw [hf] at hobj
    have : kv.get k = none := hobj
    simp only [this]
    fin (R_same hR ht)
  | some o =>
    rw [hf] at hobj
    have hst : Stored M t kv k o := hobj
    cases o with
    | str v e =>
      simp only [hst.1, encodeStr_toL, recExpired_put e _ now hst.2]
      cases expired e now <;> simp only [Bool.false_eq_true, ↓reduceIte] <;> fin (R_same hR ht)
    | hash fs =>
      obtain ⟨ver, h1, h2, h3, _⟩ := hst
      simp only [h3, encodeMeta_toL, hashMeta, recExpired_put 0 _ now (by decide), expired]
      fin (R_same hR ht)
    | set ms =>
      obtain ⟨ver, h1, h2, h3, _⟩ := hst
      simp only [h3, encodeMeta_toL, setMeta, recExpired_put 0 _ now (by decide), expired]
      fin (R_same hR ht)
    | list l =>
      obtain ⟨ver, head, h1, h2, h3, _⟩ := hst
      simp only [h3, encodeMeta_toL, listMeta, recExpired_put 0 _ now (by decide), expired]
      fin (R_same hR ht)
    | zset zs =>
      obtain ⟨ver, h1, h2, h3, _⟩ := hst
      simp only [h3, encodeMeta_toL, zsetMeta, recExpired_put 0 _ now (by decide), expired]
      fin (R_same hR ht)

end

end XixiKV.Datatype
