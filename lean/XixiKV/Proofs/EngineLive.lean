import XixiKV.Proofs.EngineDefs
import XixiKV.Proofs.Index
/-!
# The live operations preserve the engine invariant and refine the abstract map

Helper lemmas for C01 / C17: ghost-file laws (bytes, positions, read-back), the ghost directory
update that mirrors `setFile`, the fold-append law of `replayLog`, provenance of index entries
(every indexed position is the position of a logged record), `appendLog` (with and without file
rotation) as a one-record extension of the ghost log, and the step theorems `put_spec`,
`delete_spec`, `get_spec`, `sync_spec`, `absGet_total`.
-/

/-! ## framing: positions and read-back for a run of appended records -/
namespace XixiKV.Frame
variable (C : Codec)

theorem appendAll_append (f : ByteArray) (ds es : List ByteArray) :
    appendAll C f (ds ++ es) = appendAll C (appendAll C f ds) es := by
  simp only [appendAll, List.foldl_append]

theorem appendAll_cons (f d : ByteArray) (ds : List ByteArray) :
    appendAll C f (d :: ds) = appendAll C (appendRec C f d) ds := rfl

theorem length_posAll (fid : Nat) (ds : List ByteArray) : ∀ f, (posAll C fid f ds).length = ds.length := by
  induction ds with
  | nil => intro f; rfl
  | cons d t ih => intro f; simp only [posAll, List.length_cons, ih]

theorem posAll_append (fid : Nat) (ds es : List ByteArray) : ∀ f,
    posAll C fid f (ds ++ es) = posAll C fid f ds ++ posAll C fid (appendAll C f ds) es := by
  induction ds with
  | nil => intro f; rfl
  | cons d t ih =>
    intro f
    simp only [List.cons_append, posAll, ih, appendAll_cons]

theorem posAll_fid (fid : Nat) (ds : List ByteArray) : ∀ f p, p ∈ posAll C fid f ds → p.fid = fid := by
  induction ds with
  | nil => intro f p h; simp [posAll] at h
  | cons d t ih =>
    intro f p h
    simp only [posAll, List.mem_cons] at h
    rcases h with h | h
    · rw [h]; rfl
    · exact ih _ _ h

/-- **read-back of every record of a run**: each position reported by the writer resolves to its
    payload in the final file, whatever was appended after it -/
theorem readAt_member (fid : Nat) (ds : List ByteArray) : ∀ (f d : ByteArray) (p : Pos),
    (∀ x ∈ ds, 0 < x.size) → (d, p) ∈ ds.zip (posAll C fid f ds) →
    readAt C (appendAll C f ds) p.block p.off = .ok d := by
  induction ds with
  | nil => intro f d p _ h; simp at h
  | cons x t ih =>
    intro f d p hpos h
    simp only [posAll, List.zip_cons_cons, List.mem_cons] at h
    rcases h with h | h
    · cases h
      obtain ⟨tl, htl⟩ := appendAll_split C t (appendRec C f x)
      rw [appendAll_cons, htl]
      exact readAt_write C x f tl fid (hpos x (by simp))
    · rw [appendAll_cons]
      exact ih _ _ _ (fun y hy => hpos y (by simp [hy])) h

end XixiKV.Frame

namespace XixiKV.Engine
open XixiKV.Frame XixiKV.Record XixiKV.Index

/-! ## ghost files -/

theorem bytesOf_nil : bytesOf [] = ByteArray.empty := rfl

theorem possOf_nil (fid : Nat) : possOf fid [] = [] := rfl

theorem bytesOf_append (gf : GFile) (r : Record) :
    bytesOf (gf ++ [r]) = appendRec C (bytesOf gf) (encodeRecord r) := by
  simp only [bytesOf, payloads, List.map_append, List.map_cons, List.map_nil, appendAll_append]
  rfl

theorem length_possOf (fid : Nat) (gf : GFile) : (possOf fid gf).length = gf.length := by
  simp only [possOf, length_posAll, payloads, List.length_map]

theorem possOf_append (fid : Nat) (gf : GFile) (r : Record) :
    possOf fid (gf ++ [r]) = possOf fid gf ++ [posOf C fid (bytesOf gf).size (encodeRecord r)] := by
  simp only [possOf, payloads, List.map_append, List.map_cons, List.map_nil, posAll_append]
  rfl

theorem zip_possOf_append (fid : Nat) (gf : GFile) (r : Record) :
    (gf ++ [r]).zip (possOf fid (gf ++ [r]))
      = gf.zip (possOf fid gf) ++ [(r, posOf C fid (bytesOf gf).size (encodeRecord r))] := by
  rw [possOf_append, List.zip_append (length_possOf fid gf).symm]
  rfl

theorem RecOK.payload_pos {r : Record} : 0 < (encodeRecord r).size := by
  have := encodeRecord_size_ge r; omega

/-- read-back in a ghost file: the reported position of every record resolves to its payload -/
theorem readAt_ghost (fid : Nat) (gf : GFile) (r : Record) (p : Pos)
    (h : (r, p) ∈ gf.zip (possOf fid gf)) :
    readAt C (bytesOf gf) p.block p.off = .ok (encodeRecord r) ∧ p.fid = fid := by
  have hm : (encodeRecord r, p) ∈ (payloads gf).zip (posAll C fid ByteArray.empty (payloads gf)) := by
    simp only [payloads, List.zip_map_left]
    exact List.mem_map.mpr ⟨(r, p), h, rfl⟩
  refine ⟨readAt_member C fid (payloads gf) ByteArray.empty _ p ?_ hm, ?_⟩
  · intro x hx
    obtain ⟨r', _, rfl⟩ := List.mem_map.mp hx
    exact RecOK.payload_pos
  · exact posAll_fid C fid _ _ p (List.of_mem_zip hm).2

/-! ## worlds and file lists -/

theorem World.get_set_same (w : World) (d : String) (x : DirSt) : (w.set d x).get d = some x := by
  induction w with
  | nil => simp [World.set, World.get]
  | cons y rest ih =>
    obtain ⟨n, s'⟩ := y
    simp only [World.set]
    by_cases e : n = d
    · rw [if_pos e]; simp only [World.get, if_pos e]
    · rw [if_neg e]; simp only [World.get, if_neg e]; exact ih

theorem World.get_set_other (w : World) (d d' : String) (x : DirSt) (h : d' ≠ d) :
    (w.set d x).get d' = w.get d' := by
  induction w with
  | nil => simp only [World.set, World.get]; rw [if_neg (fun e => h e.symm)]
  | cons y rest ih =>
    obtain ⟨n, s'⟩ := y
    simp only [World.set]
    by_cases e : n = d
    · rw [if_pos e]; simp only [World.get]
      subst e
      rw [if_neg (fun e => h e.symm), if_neg (fun e => h e.symm)]
    · rw [if_neg e]; simp only [World.get]
      by_cases e' : n = d'
      · rw [if_pos e', if_pos e']
      · rw [if_neg e', if_neg e']; exact ih

/-- the data directory exists, is locked by this handle, and its files are the ghost files -/
def DirOK (w : World) (dir : String) (g : GDir) : Prop :=
  ∃ d, w.get dir = some d ∧ d.locked = true ∧ Matches d.data g

theorem dirOf_eq {s : St} {db : DB} {d : DirSt} (h : s.world.get db.dir = some d) : dirOf s db = d := by
  simp only [dirOf, h, Option.getD_some]

theorem putFile_db (s : St) (db : DB) (id : Nat) (f : FileSt) : (putFile s db id f).db = s.db := rfl

theorem putFile_world {s : St} {db : DB} {d : DirSt} (h : s.world.get db.dir = some d) (id : Nat) (f : FileSt) :
    (putFile s db id f).world = s.world.set db.dir { d with data := setFile d.data id f } := by
  simp only [putFile, dirOf_eq h]

/-- ghost counterpart of `setFile` -/
def gset (g : GDir) (id : Nat) (gf : GFile) : GDir :=
  match g with
  | [] => [(id, gf)]
  | (i, gf') :: rest =>
    if i = id then (i, gf) :: rest
    else if id < i then (id, gf) :: (i, gf') :: rest
    else (i, gf') :: gset rest id gf

theorem Matches_nil_left {g : GDir} (h : Matches [] g) : g = [] := by
  cases g with
  | nil => rfl
  | cons y t => simp [Matches] at h

theorem Matches_cons_left {x : Nat × FileSt} {data : List (Nat × FileSt)} {g : GDir} (h : Matches (x :: data) g) :
    ∃ y t, g = y :: t ∧ x.1 = y.1 ∧ x.2.bytes = bytesOf y.2 ∧ Matches data t := by
  cases g with
  | nil => simp [Matches] at h
  | cons y t => exact ⟨y, t, rfl, h⟩

theorem Matches_setFile {data : List (Nat × FileSt)} {g : GDir} (h : Matches data g) (id : Nat) (f : FileSt)
    (gf : GFile) (hf : f.bytes = bytesOf gf) : Matches (setFile data id f) (gset g id gf) := by
  induction data generalizing g with
  | nil =>
    rw [Matches_nil_left h]
    exact ⟨rfl, hf, trivial⟩
  | cons x data ih =>
    obtain ⟨y, t, rfl, h1, h2, h3⟩ := Matches_cons_left h
    obtain ⟨i, f'⟩ := x
    obtain ⟨j, gf'⟩ := y
    simp only at h1 h2
    subst h1
    simp only [setFile, gset]
    by_cases e : i = id
    · rw [if_pos e, if_pos e]; exact ⟨rfl, hf, h3⟩
    · rw [if_neg e, if_neg e]
      by_cases e2 : id < i
      · rw [if_pos e2, if_pos e2]; exact ⟨rfl, hf, rfl, h2, h3⟩
      · rw [if_neg e2, if_neg e2]; exact ⟨rfl, h2, ih h3⟩

theorem Matches_length {data : List (Nat × FileSt)} {g : GDir} (h : Matches data g) : data.length = g.length := by
  induction data generalizing g with
  | nil => rw [Matches_nil_left h]; rfl
  | cons x data ih =>
    obtain ⟨y, t, rfl, _, _, h3⟩ := Matches_cons_left h
    simp only [List.length_cons, ih h3]

theorem AscIds.tail {x : Nat × GFile} {g : GDir} (h : AscIds (x :: g)) : AscIds g := (List.pairwise_cons.mp h).2

theorem AscIds.head {x : Nat × GFile} {g : GDir} (h : AscIds (x :: g)) : ∀ y ∈ g, x.1 < y.1 :=
  (List.pairwise_cons.mp h).1

/-- looking up a ghost file's id in the matching directory yields its bytes -/
theorem Matches_getFile {data : List (Nat × FileSt)} {g : GDir} (h : Matches data g) (ha : AscIds g)
    {id : Nat} {gf : GFile} (hm : (id, gf) ∈ g) : ∃ f, getFile data id = some f ∧ f.bytes = bytesOf gf := by
  induction data generalizing g with
  | nil => rw [Matches_nil_left h] at hm; simp at hm
  | cons x data ih =>
    obtain ⟨y, t, rfl, h1, h2, h3⟩ := Matches_cons_left h
    obtain ⟨i, f'⟩ := x
    obtain ⟨j, gf'⟩ := y
    simp only at h1 h2
    subst h1
    simp only [getFile]
    rcases List.mem_cons.mp hm with e | hm'
    · cases e
      rw [if_pos rfl]; exact ⟨f', rfl, h2⟩
    · have hlt := ha.head (id, gf) hm'
      simp only at hlt
      rw [if_neg (by omega)]
      exact ih h3 ha.tail hm'

theorem gset_last (g0 : GDir) (id : Nat) (gf gf' : GFile) (h : ∀ x ∈ g0, x.1 < id) :
    gset (g0 ++ [(id, gf)]) id gf' = g0 ++ [(id, gf')] := by
  induction g0 with
  | nil => simp [gset]
  | cons y t ih =>
    obtain ⟨j, gf1⟩ := y
    have hj : j < id := h (j, gf1) (by simp)
    simp only [List.cons_append, gset]
    rw [if_neg (by omega), if_neg (by omega), ih (fun x hx => h x (by simp [hx]))]

theorem gset_new (g : GDir) (id : Nat) (gf' : GFile) (h : ∀ x ∈ g, x.1 < id) :
    gset g id gf' = g ++ [(id, gf')] := by
  induction g with
  | nil => simp [gset]
  | cons y t ih =>
    obtain ⟨j, gf1⟩ := y
    have hj : j < id := h (j, gf1) (by simp)
    simp only [List.cons_append, gset]
    rw [if_neg (by omega), if_neg (by omega), ih (fun x hx => h x (by simp [hx]))]

theorem DirOK_putFile {s : St} {db : DB} {g : GDir} (h : DirOK s.world db.dir g) (id : Nat) (f : FileSt)
    (gf : GFile) (hf : f.bytes = bytesOf gf) : DirOK (putFile s db id f).world db.dir (gset g id gf) := by
  obtain ⟨d, hd, hl, hm⟩ := h
  rw [putFile_world hd]
  exact ⟨_, World.get_set_same _ _ _, hl, Matches_setFile hm id f gf hf⟩

/-! ## the ghost log -/

theorem logOf_append (g1 g2 : GDir) : logOf (g1 ++ g2) = logOf g1 ++ logOf g2 := by
  simp only [logOf, List.flatMap_append]

theorem logOf_single (id : Nat) (gf : GFile) : logOf [(id, gf)] = gf.zip (possOf id gf) := by
  simp only [logOf, List.flatMap_cons, List.flatMap_nil, List.append_nil]

/-- rotation: a new empty last file does not change the log -/
theorem logOf_new_file (g : GDir) (id : Nat) : logOf (g ++ [(id, [])]) = logOf g := by
  rw [logOf_append, logOf_single]; simp

/-- one more record in the last file is one more entry at the end of the log -/
theorem logOf_append_rec (g0 : GDir) (id : Nat) (gf : GFile) (r : Record) :
    logOf (g0 ++ [(id, gf ++ [r])])
      = logOf (g0 ++ [(id, gf)]) ++ [(r, posOf C id (bytesOf gf).size (encodeRecord r))] := by
  rw [logOf_append, logOf_append, logOf_single, logOf_single, zip_possOf_append, List.append_assoc]

theorem mem_logOf {g : GDir} {r : Record} {p : Pos} :
    (r, p) ∈ logOf g ↔ ∃ x ∈ g, (r, p) ∈ x.2.zip (possOf x.1 x.2) := by
  simp only [logOf, List.mem_flatMap]

/-! ## replay: fold-append, the plain-record step, provenance of index entries -/

/-- **the central fold law**: replaying one more record is one more `replayRec` -/
theorem replayLog_append (l : List (Record × Pos)) (r : Record) (p : Pos) :
    replayLog (l ++ [(r, p)]) = replayRec (replayLog l) r p := by
  simp only [replayLog, List.foldl_append, List.foldl_cons, List.foldl_nil]

theorem replayLog_nil : replayLog [] = Replay.init := rfl

theorem apply_index (R : Replay) (k : ByteArray) (t : Nat) (p : Pos) :
    (R.apply k t p).index = if t = 1 then Index.erase R.index k else Index.put R.index k p := by
  unfold Replay.apply
  simp only []
  split <;> split <;> rfl

theorem apply_pending (R : Replay) (k : ByteArray) (t : Nat) (p : Pos) :
    (R.apply k t p).pending = R.pending := by
  unfold Replay.apply
  simp only []
  split <;> split <;> rfl

/-- a plain (non-batch) record updates the index exactly as `Put` / `Delete` do -/
theorem replayRec_plain_index (R : Replay) (r : Record) (p : Pos) (hb : r.batch = 0) :
    (replayRec R r p).index = if r.typ = 1 then Index.erase R.index r.key else Index.put R.index r.key p := by
  unfold replayRec
  rw [if_pos hb, apply_index]

/-- everything the replay state refers to comes from the log `l` -/
def FromLog (l : List (Record × Pos)) (R : Replay) : Prop :=
  (∀ k p, (k, p) ∈ R.index → ∃ r, (r, p) ∈ l ∧ r.key = k) ∧ (∀ e ∈ R.pending, ∀ x ∈ e.2, x ∈ l)

theorem FromLog.mono {l l' : List (Record × Pos)} {R : Replay} (h : FromLog l R) (hs : ∀ x ∈ l, x ∈ l') :
    FromLog l' R :=
  ⟨fun k p hm => by obtain ⟨r, hr, hk⟩ := h.1 k p hm; exact ⟨r, hs _ hr, hk⟩,
   fun e he x hx => hs _ (h.2 e he x hx)⟩

theorem FromLog.apply {l : List (Record × Pos)} {R : Replay} (h : FromLog l R) {r : Record} {p : Pos}
    (hm : (r, p) ∈ l) : FromLog l (R.apply r.key r.typ p) := by
  refine ⟨?_, ?_⟩
  · intro k q hq
    rw [apply_index] at hq
    split at hq
    · exact h.1 k q (Index.mem_erase hq)
    · rcases Index.mem_put hq with e | hq
      · cases e; exact ⟨r, hm, rfl⟩
      · exact h.1 k q hq
  · rw [apply_pending]; exact h.2

theorem mem_pendingGet {P : List (Nat × List (Record × Pos))} {id : Nat} {x : Record × Pos}
    (h : x ∈ pendingGet P id) : ∃ e ∈ P, x ∈ e.2 := by
  induction P with
  | nil => simp [pendingGet] at h
  | cons e t ih =>
    obtain ⟨i, l⟩ := e
    simp only [pendingGet] at h
    by_cases c : i = id
    · rw [if_pos c] at h; exact ⟨(i, l), by simp, h⟩
    · rw [if_neg c] at h
      obtain ⟨e, he, hx⟩ := ih h
      exact ⟨e, List.mem_cons_of_mem _ he, hx⟩

theorem mem_pendingAdd {P : List (Nat × List (Record × Pos))} {id : Nat} {x y : Record × Pos}
    {e : Nat × List (Record × Pos)} (he : e ∈ pendingAdd P id x) (hy : y ∈ e.2) :
    y = x ∨ ∃ e' ∈ P, y ∈ e'.2 := by
  induction P with
  | nil =>
    simp only [pendingAdd, List.mem_singleton] at he
    subst he
    simp only [List.mem_singleton] at hy
    exact Or.inl hy
  | cons e0 t ih =>
    obtain ⟨i, l⟩ := e0
    simp only [pendingAdd] at he
    by_cases c : i = id
    · rw [if_pos c] at he
      rcases List.mem_cons.mp he with he | he
      · subst he
        simp only [List.mem_append, List.mem_singleton] at hy
        rcases hy with hy | hy
        · exact Or.inr ⟨(i, l), by simp, hy⟩
        · exact Or.inl hy
      · exact Or.inr ⟨e, List.mem_cons_of_mem _ he, hy⟩
    · rw [if_neg c] at he
      rcases List.mem_cons.mp he with he | he
      · subst he; exact Or.inr ⟨(i, l), by simp, hy⟩
      · rcases ih he with h | ⟨e', he', hy'⟩
        · exact Or.inl h
        · exact Or.inr ⟨e', List.mem_cons_of_mem _ he', hy'⟩

theorem FromLog.foldl_apply {l : List (Record × Pos)} (xs : List (Record × Pos)) :
    ∀ {R : Replay}, FromLog l R → (∀ x ∈ xs, x ∈ l) →
      FromLog l (xs.foldl (fun r (x : Record × Pos) => r.apply x.1.key x.1.typ x.2) R) := by
  induction xs with
  | nil => intro R h _; exact h
  | cons x t ih =>
    intro R h hx
    simp only [List.foldl_cons]
    exact ih (h.apply (hx x (by simp))) (fun y hy => hx y (by simp [hy]))

theorem FromLog.replayRec {l : List (Record × Pos)} {R : Replay} (h : FromLog l R) {r : Record} {p : Pos}
    (hm : (r, p) ∈ l) : FromLog l (replayRec R r p) := by
  unfold Engine.replayRec
  split
  · exact h.apply hm
  · split
    · simp only []
      have h1 : FromLog l { R with total := R.total + p.size, reclaim := R.reclaim + p.size } := ⟨h.1, h.2⟩
      have h2 := FromLog.foldl_apply
        (pendingGet ({ R with total := R.total + p.size, reclaim := R.reclaim + p.size } : Replay).pending r.batch)
        h1 (fun x hx => by obtain ⟨e, he, hxe⟩ := mem_pendingGet hx; exact h.2 e he x hxe)
      exact ⟨h2.1, fun e he x hx => h2.2 e (List.mem_filter.mp he).1 x hx⟩
    · refine ⟨h.1, ?_⟩
      intro e he x hx
      rcases mem_pendingAdd he hx with e1 | ⟨e', he', hx'⟩
      · rw [e1]; exact hm
      · exact h.2 e' he' x hx'

theorem FromLog.foldl_replayRec (xs : List (Record × Pos)) :
    ∀ {l : List (Record × Pos)} {R : Replay}, FromLog l R →
      FromLog (l ++ xs) (xs.foldl (fun r x => Engine.replayRec r x.1 x.2) R) := by
  induction xs with
  | nil => intro l R h; simpa using h
  | cons x t ih =>
    intro l R h
    simp only [List.foldl_cons]
    have h1 : FromLog (l ++ [x]) (Engine.replayRec R x.1 x.2) :=
      (h.mono (fun y hy => by simp [hy])).replayRec (by simp)
    have := ih h1
    simpa [List.append_assoc] using this

/-- every index entry rebuilt from a log is the position of a logged record with that key -/
theorem fromLog_replayLog (l : List (Record × Pos)) : FromLog l (replayLog l) := by
  have h0 : FromLog [] Replay.init := ⟨fun k p h => by simp [Replay.init] at h, fun e h => by simp [Replay.init] at h⟩
  have := FromLog.foldl_replayRec l h0
  simpa [replayLog] using this

/-! ## `liveBytes` under index updates (C17 accounting) -/

theorem SortedKeys_iff (ix : Index) : SortedKeys ix ↔ Index.Sorted ix := Iff.rfl

def oldSize (o : Option Pos) : Nat :=
  match o with
  | some p => p.size
  | none => 0

theorem liveBytes_cons (x : Key × Pos) (ix : Index) : liveBytes (x :: ix) = x.2.size + liveBytes ix := by
  simp only [liveBytes, List.map_cons, List.sum_cons]

theorem liveBytes_put {ix : Index} (hs : SortedKeys ix) (k : Key) (p : Pos) :
    liveBytes (Index.put ix k p) + oldSize (Index.get ix k) = liveBytes ix + p.size := by
  induction ix with
  | nil => simp [Index.put, Index.get, liveBytes, oldSize]
  | cons y rest ih =>
    obtain ⟨k1, p1⟩ := y
    have hs' : Index.Sorted ((k1, p1) :: rest) := hs
    simp only [Index.put, Index.get]
    by_cases e1 : k1 = k
    · simp only [if_pos e1, liveBytes_cons, oldSize]; omega
    · simp only [if_neg e1]
      by_cases hlt : keyLt k k1 = true
      · rw [if_pos hlt]
        have hnone : Index.get rest k = none :=
          Index.get_eq_none_of_head_lt (fun y hy => Index.keyLt_trans hlt (hs'.head y hy))
        simp only [hnone, liveBytes_cons, oldSize]; omega
      · rw [if_neg hlt]
        have := ih hs'.tail
        simp only [liveBytes_cons]; omega

theorem liveBytes_erase (ix : Index) (k : Key) :
    liveBytes (Index.erase ix k) + oldSize (Index.get ix k) = liveBytes ix := by
  induction ix with
  | nil => simp [Index.erase, Index.get, liveBytes, oldSize]
  | cons y rest ih =>
    obtain ⟨k1, p1⟩ := y
    simp only [Index.erase, Index.get]
    by_cases e1 : k1 = k
    · simp only [if_pos e1, liveBytes_cons, oldSize]; omega
    · simp only [if_neg e1, liveBytes_cons]; omega

/-! ## the file part of the invariant -/

/-- the part of `Inv` that speaks about the files only -/
structure Files (s : St) (db : DB) (g : GDir) : Prop where
  dir : DirOK s.world db.dir g
  asc : AscIds g
  active : (g.getLast?).map (·.1) = some db.activeId
  recs : ∀ x ∈ g, ∀ r ∈ x.2, RecOK r

theorem Inv.files {s : St} {db : DB} {g : GDir} (h : Inv s db g) : Files s db g :=
  ⟨h.dir, h.asc, h.active, h.recs⟩

theorem Files.congr {s s' : St} {db db' : DB} {g : GDir} (h : Files s db g) (hw : s'.world = s.world)
    (hd : db'.dir = db.dir) (ha : db'.activeId = db.activeId) : Files s' db' g :=
  ⟨by rw [hw, hd]; exact h.dir, h.asc, by rw [ha]; exact h.active, h.recs⟩

/-- the ghost directory ends with the active file -/
theorem Files.last {s : St} {db : DB} {g : GDir} (h : Files s db g) :
    ∃ g0 gf, g = g0 ++ [(db.activeId, gf)] ∧ (∀ x ∈ g0, x.1 < db.activeId) := by
  have ha := h.active
  cases hl : g.getLast? with
  | none => rw [hl] at ha; simp at ha
  | some x =>
    rw [hl] at ha
    simp only [Option.map_some, Option.some.injEq] at ha
    obtain ⟨g0, hg0⟩ := List.getLast?_eq_some_iff.mp hl
    obtain ⟨i, gf⟩ := x
    simp only at ha
    subst ha
    refine ⟨g0, gf, hg0, ?_⟩
    intro y hy
    have := h.asc
    rw [hg0] at this
    exact (List.pairwise_append.mp this).2.2 y hy (db.activeId, gf) (by simp)

theorem activeFile_bytes {s : St} {db : DB} {g : GDir} (hd : DirOK s.world db.dir g) (ha : AscIds g)
    {gf : GFile} (hm : (db.activeId, gf) ∈ g) : (activeFile s db).bytes = bytesOf gf := by
  obtain ⟨d, hd, _, hmt⟩ := hd
  obtain ⟨f, hf, hb⟩ := Matches_getFile hmt ha hm
  simp only [activeFile, dirOf_eq hd, hf, Option.getD_some, hb]

/-- **every logged position resolves**: reading a logged record through its reported position
    returns exactly its value -/
theorem valueAt_log {s : St} {db : DB} {g : GDir} (h : Files s db g) {r : Record} {p : Pos}
    (hm : (r, p) ∈ logOf g) : valueAt s db p = .val r.value := by
  obtain ⟨x, hx, hz⟩ := mem_logOf.mp hm
  obtain ⟨id, gf⟩ := x
  obtain ⟨hread, hfid⟩ := readAt_ghost id gf r p hz
  obtain ⟨d, hd, _, hmt⟩ := h.dir
  obtain ⟨f, hf, hb⟩ := Matches_getFile hmt h.asc hx
  have hok : RecOK r := h.recs _ hx r (List.of_mem_zip hz).1
  obtain ⟨ht, _, hk, hv, hbt⟩ := hok
  simp only [valueAt, dirOf_eq hd, hfid, hf, hb, hread,
    decodeValue_encodeRecord r (by omega) hk hv hbt]

/-! ## rotation and `appendLog` on the ghost directory -/

/-- `db.sync()` / `setActiveFile`: the files keep their bytes, a new empty last file appears -/
theorem rotate_spec {s : St} {db : DB} {g : GDir} (h : Files s db g) :
    Files (rotate s db).1 (rotate s db).2 (g ++ [(db.activeId + 1, [])]) ∧
    (rotate s db).2 = { db with bytesWrite := 0, activeId := db.activeId + 1 } ∧
    (rotate s db).1.db = s.db := by
  obtain ⟨g0, gf, hg, hlt⟩ := h.last
  have hb : (activeFile s db).bytes = bytesOf gf := activeFile_bytes h.dir h.asc (by rw [hg]; simp)
  have hall : ∀ x ∈ g, x.1 < db.activeId + 1 := by
    intro x hx
    rw [hg] at hx
    rcases List.mem_append.mp hx with hx | hx
    · have := hlt x hx; omega
    · simp only [List.mem_singleton] at hx; rw [hx]; exact Nat.lt_succ_self _
  refine ⟨⟨?_, ?_, ?_, ?_⟩, rfl, rfl⟩
  · -- directory
    have h1 := DirOK_putFile h.dir db.activeId { activeFile s db with synced := (activeFile s db).bytes.size } gf hb
    rw [hg, gset_last g0 db.activeId gf gf hlt, ← hg] at h1
    have h2 := DirOK_putFile (db := { db with bytesWrite := 0, activeId := db.activeId + 1 }) h1
      (db.activeId + 1) ⟨ByteArray.empty, 0⟩ [] rfl
    rw [gset_new g _ _ hall] at h2
    exact h2
  · exact List.pairwise_append.mpr ⟨h.asc, by simp, fun a ha b hb' => by
      simp only [List.mem_singleton] at hb'; rw [hb']; exact hall a ha⟩
  · simp [rotate]
  · intro x hx r hr
    rcases List.mem_append.mp hx with hx | hx
    · exact h.recs x hx r hr
    · simp only [List.mem_singleton] at hx; rw [hx] at hr; simp at hr

/-- `appendLogRecord` after the rotation decision -/
def appendTail (s : St) (db : DB) (r : Record) : St × DB × Pos :=
  let af := activeFile s db
  let payload := encodeRecord r
  let pos := posOf C db.activeId af.bytes.size payload
  let bytes := appendRec C af.bytes payload
  let db := { db with total := db.total + pos.size, bytesWrite := db.bytesWrite + pos.size }
  let doSync := db.cfg.sync = 1 ∨ (db.cfg.sync = 2 ∧ db.bytesWrite ≥ db.cfg.bps)
  let af' : FileSt := { bytes := bytes, synced := if doSync then bytes.size else af.synced }
  let db := if doSync then { db with bytesWrite := 0 } else db
  (putFile s db db.activeId af', db, pos)

theorem appendLog_eq (s : St) (db : DB) (r : Record) :
    appendLog s db r =
      if (activeFile s db).bytes.size + diskSizeEstimate r.key.size r.value.size > db.cfg.fileSize
      then appendTail (rotate s db).1 (rotate s db).2 r else appendTail s db r := by
  unfold appendLog appendTail
  simp only []
  split <;> rfl

theorem appendTail_spec {s : St} {db : DB} {g : GDir} (h : Files s db g) (r : Record) (hr : RecOK r) :
    ∃ g' bw, Files (appendTail s db r).1 (appendTail s db r).2.1 g' ∧
      logOf g' = logOf g ++ [(r, (appendTail s db r).2.2)] ∧
      (appendTail s db r).1.db = s.db ∧
      (appendTail s db r).2.1 = { db with total := db.total + (appendTail s db r).2.2.size, bytesWrite := bw } := by
  obtain ⟨g0, gf, hg, hlt⟩ := h.last
  have hb : (activeFile s db).bytes = bytesOf gf := activeFile_bytes h.dir h.asc (by rw [hg]; simp)
  have hpos : (appendTail s db r).2.2 = posOf C db.activeId (bytesOf gf).size (encodeRecord r) := by
    simp only [appendTail, hb]
  refine ⟨g0 ++ [(db.activeId, gf ++ [r])], (appendTail s db r).2.1.bytesWrite, ⟨?_, ?_, ?_, ?_⟩, ?_, ?_, ?_⟩
  · -- directory
    have hbytes : appendRec C (activeFile s db).bytes (encodeRecord r) = bytesOf (gf ++ [r]) := by
      rw [bytesOf_append, hb]
    unfold appendTail
    simp only []
    split
    · have h1 := DirOK_putFile (db := { db with total := db.total + (posOf C db.activeId (activeFile s db).bytes.size (encodeRecord r)).size, bytesWrite := 0 }) h.dir db.activeId
        ⟨appendRec C (activeFile s db).bytes (encodeRecord r), (appendRec C (activeFile s db).bytes (encodeRecord r)).size⟩ (gf ++ [r]) hbytes
      rw [hg, gset_last g0 db.activeId gf _ hlt] at h1
      exact h1
    · have h1 := DirOK_putFile (db := { db with total := db.total + (posOf C db.activeId (activeFile s db).bytes.size (encodeRecord r)).size, bytesWrite := db.bytesWrite + (posOf C db.activeId (activeFile s db).bytes.size (encodeRecord r)).size }) h.dir db.activeId
        ⟨appendRec C (activeFile s db).bytes (encodeRecord r), (activeFile s db).synced⟩ (gf ++ [r]) hbytes
      rw [hg, gset_last g0 db.activeId gf _ hlt] at h1
      exact h1
  · have := h.asc
    rw [hg] at this
    obtain ⟨a1, _, a3⟩ := List.pairwise_append.mp this
    exact List.pairwise_append.mpr ⟨a1, by simp, fun a ha b hb' => by
      simp only [List.mem_singleton] at hb'; rw [hb']; exact hlt a ha⟩
  · unfold appendTail
    simp only []
    split <;> simp
  · intro x hx r' hr'
    rcases List.mem_append.mp hx with hx | hx
    · exact h.recs x (by rw [hg]; simp [hx]) r' hr'
    · simp only [List.mem_singleton] at hx
      rw [hx] at hr'
      rcases List.mem_append.mp hr' with hr' | hr'
      · exact h.recs (db.activeId, gf) (by rw [hg]; simp) r' hr'
      · simp only [List.mem_singleton] at hr'; rw [hr']; exact hr
  · rw [logOf_append_rec, ← hg, hpos]
  · unfold appendTail
    simp only []
    split <;> rfl
  · unfold appendTail
    simp only []
    split <;> rfl

/-- **`appendLogRecord`** (with or without rotation): the ghost directory gains exactly one log entry
    `(r, pos)`; only `total`, `bytesWrite` and (on rotation) `activeId` of the handle change -/
theorem appendLog_spec {s : St} {db : DB} {g : GDir} (h : Files s db g) (r : Record) (hr : RecOK r) :
    ∃ g' bw a, Files (appendLog s db r).1 (appendLog s db r).2.1 g' ∧
      logOf g' = logOf g ++ [(r, (appendLog s db r).2.2)] ∧
      (appendLog s db r).1.db = s.db ∧
      (appendLog s db r).2.1 = { db with total := db.total + (appendLog s db r).2.2.size, bytesWrite := bw, activeId := a } := by
  rw [appendLog_eq]
  split
  · obtain ⟨hf, hdb, hs⟩ := rotate_spec h
    obtain ⟨g', bw, h1, h2, h3, h4⟩ := appendTail_spec hf r hr
    refine ⟨g', bw, db.activeId + 1, h1, ?_, ?_, ?_⟩
    · rw [h2, logOf_new_file]
    · rw [h3, hs]
    · rw [h4, hdb]
  · obtain ⟨g', bw, h1, h2, h3, h4⟩ := appendTail_spec h r hr
    exact ⟨g', bw, db.activeId, h1, h2, h3, by rw [h4]⟩

/-! ## the observable map under the invariant -/

theorem Inv.index_from_log {s : St} {db : DB} {g : GDir} (h : Inv s db g) {k : Key} {p : Pos}
    (hm : (k, p) ∈ db.index) : ∃ r, (r, p) ∈ logOf g ∧ r.key = k := by
  rw [h.index] at hm
  exact (fromLog_replayLog (logOf g)).1 k p hm

/-- **every indexed position resolves** (never an error): under the invariant `Get` of an indexed key
    returns the value of a logged record with that key, at exactly that position -/
theorem absGet_total {s : St} {db : DB} {g : GDir} (h : Inv s db g) {k : Key} {p : Pos}
    (hg : Index.get db.index k = some p) :
    ∃ r, (r, p) ∈ logOf g ∧ r.key = k ∧ valueAt s db p = .val r.value := by
  obtain ⟨r, hr, hk⟩ := h.index_from_log (Index.get_eq_some_mem hg)
  exact ⟨r, hr, hk, valueAt_log h.files hr⟩

theorem absGet_of_get_some {s : St} {db : DB} {g : GDir} (h : Inv s db g) {k : Key} {p : Pos}
    (hg : Index.get db.index k = some p) : ∃ v, valueAt s db p = .val v ∧ absGet s db k = some v := by
  obtain ⟨r, _, _, hv⟩ := absGet_total h hg
  exact ⟨r.value, hv, by simp only [absGet, hg, hv]⟩

theorem absGet_of_get_none {s : St} {db : DB} {k : Key} (hg : Index.get db.index k = none) :
    absGet s db k = none := by
  simp only [absGet, hg]

/-- a key has a value exactly when it is in the index -/
theorem absGet_isSome {s : St} {db : DB} {g : GDir} (h : Inv s db g) (k : Key) :
    (absGet s db k).isSome = (Index.get db.index k).isSome := by
  cases hg : Index.get db.index k with
  | none => rw [absGet_of_get_none hg]; rfl
  | some p => obtain ⟨v, _, hv⟩ := absGet_of_get_some h hg; rw [hv]; rfl

/-- reads of old positions are stable when the log only grows -/
theorem absGet_stable {s s' : St} {db db' : DB} {g g' : GDir} (hi : Inv s db g) (hf' : Files s' db' g')
    (hsub : ∀ x ∈ logOf g, x ∈ logOf g') {k' : Key} (hget : Index.get db'.index k' = Index.get db.index k') :
    absGet s' db' k' = absGet s db k' := by
  unfold absGet
  rw [hget]
  cases hg : Index.get db.index k' with
  | none => rfl
  | some p =>
    obtain ⟨r, hr, _, hv⟩ := absGet_total hi hg
    simp only [hv, valueAt_log hf' (hsub _ hr)]

/-! ## Put -/

/-- the handle after `Put`: `a` is the result of `appendLog` -/
def putDB (a : St × DB × Pos) (k : ByteArray) : DB :=
  { a.2.1 with reclaim := a.2.1.reclaim + oldSize (Index.get a.2.1.index k),
               index := Index.put a.2.1.index k a.2.2 }

theorem put_eq {s : St} {db : DB} (hs : s.db = some db) (k v : ByteArray) (hk : k.size ≠ 0) :
    put s k v = ({ (appendLog s db { typ := 0, key := k, value := v, batch := 0 }).1 with
                    db := some (putDB (appendLog s db { typ := 0, key := k, value := v, batch := 0 }) k) }, .ok) := by
  unfold put withDB
  rw [hs]
  simp only [if_neg hk]
  generalize appendLog s db { typ := 0, key := k, value := v, batch := 0 } = a
  obtain ⟨s1, db1, pos⟩ := a
  simp only [putDB]
  cases h : Index.get db1.index k <;> simp [oldSize]

theorem put_keyempty (s : St) (k v : ByteArray) (hk : k.size = 0) {db : DB} (hs : s.db = some db) :
    put s k v = (s, .err "keyempty") := by
  unfold put withDB
  rw [hs]
  simp only [if_pos hk]

/-- the invariant after appending one plain record and applying the matching index update -/
theorem Inv_after_append {s : St} {db : DB} {g : GDir} (hi : Inv s db g) (r : Record) (hr : RecOK r)
    (hb : r.batch = 0) (db' : DB) (s' : St)
    (hw : s'.world = (appendLog s db r).1.world)
    (hdir : db'.dir = db.dir) (hact : db'.activeId = (appendLog s db r).2.1.activeId)
    (hidx : db'.index = if r.typ = 1 then Index.erase db.index r.key else Index.put db.index r.key (appendLog s db r).2.2)
    (hcnt : db'.total = db'.reclaim + liveBytes db'.index) (hnb : db'.batch = none) :
    ∃ g', Inv s' db' g' ∧ logOf g' = logOf g ++ [(r, (appendLog s db r).2.2)] := by
  obtain ⟨g', bw, a, hf, hlog, _, hdb⟩ := appendLog_spec hi.files r hr
  have hf' : Files s' db' g' := hf.congr hw (by rw [hdir, hdb]) hact
  refine ⟨g', ⟨hf'.dir, hf'.asc, hf'.active, hf'.recs, ?_, ?_, hcnt, hnb⟩, hlog⟩
  · rw [hidx, hlog, replayLog_append, replayRec_plain_index _ _ _ hb, ← hi.index]
  · rw [hidx]
    split
    · exact Index.sorted_erase hi.sorted _
    · exact Index.sorted_put hi.sorted _ _

/-- **Put**: the invariant is preserved (for the ghost directory extended by the written record,
    with or without file rotation) and the observable map is updated at `k` only -/
theorem put_spec {s : St} {db : DB} {g : GDir} (hi : Inv s db g) (hs : s.db = some db) (k v : ByteArray)
    (hk0 : 0 < k.size) (hk : k.size < 2 ^ 31) (hv : v.size < 2 ^ 31) :
    ∃ db' g', (put s k v).1.db = some db' ∧ Inv (put s k v).1 db' g' ∧ (put s k v).2 = .ok ∧
      (∀ k', absGet (put s k v).1 db' k' = if k' = k then some v else absGet s db k') ∧
      (stat (put s k v).1 db').keys
        = (if (absGet s db k).isSome then (stat s db).keys else (stat s db).keys + 1) ∧
      (∃ pos, logOf g' = logOf g ++ [({ typ := 0, key := k, value := v, batch := 0 }, pos)]) := by
  have hr : RecOK { typ := 0, key := k, value := v, batch := 0 } :=
    ⟨by show 0 < 3; omega, hk0, hk, hv, by show 0 < 2 ^ 64; decide⟩
  obtain ⟨g0, bw, a, _, _, _, hdb⟩ := appendLog_spec hi.files _ hr
  rw [put_eq hs k v (by omega)]
  generalize hA : appendLog s db { typ := 0, key := k, value := v, batch := 0 } = A at *
  have hidx : A.2.1.index = db.index := by rw [hdb]
  have hrec : A.2.1.reclaim = db.reclaim := by rw [hdb]
  have htot : A.2.1.total = db.total + A.2.2.size := by rw [hdb]
  have hbat : A.2.1.batch = db.batch := by rw [hdb]
  have hdir : A.2.1.dir = db.dir := by rw [hdb]
  obtain ⟨g', hinv, hlog⟩ := Inv_after_append hi _ hr rfl (putDB A k) { A.1 with db := some (putDB A k) }
    (by rw [hA]) (by simp only [putDB, hdir]) (by rw [hA]; rfl)
    (by rw [hA]; simp only [putDB, hidx]; rfl)
    (by
      have := liveBytes_put hi.sorted k A.2.2
      have hc := hi.counters
      simp only [putDB, hidx, hrec, htot]; omega)
    (by simp only [putDB, hbat, hi.nobatch])
  rw [hA] at hlog
  refine ⟨putDB A k, g', rfl, hinv, rfl, ?_, ?_, ⟨A.2.2, hlog⟩⟩
  · intro k'
    by_cases e : k' = k
    · rw [if_pos e]; subst e
      have hget : Index.get (putDB A k').index k' = some A.2.2 := by
        simp only [putDB, Index.get_put, if_pos]
      have hmem : (({ typ := 0, key := k', value := v, batch := 0 } : Record), A.2.2) ∈ logOf g' := by
        rw [hlog]; simp
      simp only [absGet, hget, valueAt_log hinv.files hmem]
    · rw [if_neg e]
      exact absGet_stable hi hinv.files (by rw [hlog]; intro x hx; simp [hx])
        (by simp only [putDB, Index.get_put, if_neg e, hidx])
  · simp only [stat, putDB, hidx, Index.length_put hi.sorted, absGet_isSome hi]

/-! ## Delete -/

/-- the handle after `Delete` of a present key: `a` is the result of `appendLog`, `old` the erased position -/
def delDB (a : St × DB × Pos) (k : ByteArray) (old : Pos) : DB :=
  { a.2.1 with reclaim := a.2.1.reclaim + a.2.2.size + old.size, index := Index.erase a.2.1.index k }

theorem delete_eq_some {s : St} {db : DB} (hs : s.db = some db) (k : ByteArray) (hk : k.size ≠ 0) {old : Pos}
    (hg : Index.get db.index k = some old) :
    delete s k = ({ (appendLog s db { typ := 1, key := k, value := ByteArray.empty, batch := 0 }).1 with
        db := some (delDB (appendLog s db { typ := 1, key := k, value := ByteArray.empty, batch := 0 }) k old) }, .ok) := by
  unfold delete withDB
  rw [hs]
  simp only [if_neg hk, hg]
  rfl

theorem delete_eq_none {s : St} {db : DB} (hs : s.db = some db) (k : ByteArray) (hk : k.size ≠ 0)
    (hg : Index.get db.index k = none) : delete s k = (s, .ok) := by
  unfold delete withDB
  rw [hs]
  simp only [if_neg hk, hg]

theorem delete_keyempty (s : St) (k : ByteArray) (hk : k.size = 0) {db : DB} (hs : s.db = some db) :
    delete s k = (s, .err "keyempty") := by
  unfold delete withDB
  rw [hs]
  simp only [if_pos hk]

/-- **Delete of an absent key** changes nothing and reports success -/
theorem delete_absent {s : St} {db : DB} {g : GDir} (hi : Inv s db g) (hs : s.db = some db) (k : ByteArray)
    (hk0 : 0 < k.size) (ha : absGet s db k = none) : delete s k = (s, .ok) := by
  apply delete_eq_none hs k (by omega)
  have := absGet_isSome hi k
  rw [ha] at this
  cases hg : Index.get db.index k with
  | none => rfl
  | some p => rw [hg] at this; simp at this

/-- **Delete**: the invariant is preserved (the tombstone is one more log entry; nothing is written
    for an absent key) and the observable map loses `k` only -/
theorem delete_spec {s : St} {db : DB} {g : GDir} (hi : Inv s db g) (hs : s.db = some db) (k : ByteArray)
    (hk0 : 0 < k.size) (hk : k.size < 2 ^ 31) :
    ∃ db' g', (delete s k).1.db = some db' ∧ Inv (delete s k).1 db' g' ∧ (delete s k).2 = .ok ∧
      (∀ k', absGet (delete s k).1 db' k' = if k' = k then none else absGet s db k') ∧
      (stat (delete s k).1 db').keys
        = (if (absGet s db k).isSome then (stat s db).keys - 1 else (stat s db).keys) ∧
      (absGet s db k = none → (delete s k).1 = s ∧ g' = g) := by
  cases hg : Index.get db.index k with
  | none =>
    rw [delete_eq_none hs k (by omega) hg]
    refine ⟨db, g, hs, hi, rfl, ?_, ?_, fun _ => ⟨rfl, rfl⟩⟩
    · intro k'
      by_cases e : k' = k
      · rw [if_pos e, e]; exact absGet_of_get_none hg
      · rw [if_neg e]
    · rw [absGet_of_get_none hg]; rfl
  | some old =>
    have hr : RecOK { typ := 1, key := k, value := ByteArray.empty, batch := 0 } :=
      ⟨by show 1 < 3; omega, hk0, hk, by show 0 < 2 ^ 31; decide, by show 0 < 2 ^ 64; decide⟩
    obtain ⟨g0, bw, a, _, _, _, hdb⟩ := appendLog_spec hi.files _ hr
    rw [delete_eq_some hs k (by omega) hg]
    generalize hA : appendLog s db { typ := 1, key := k, value := ByteArray.empty, batch := 0 } = A at *
    have hidx : A.2.1.index = db.index := by rw [hdb]
    have hrec : A.2.1.reclaim = db.reclaim := by rw [hdb]
    have htot : A.2.1.total = db.total + A.2.2.size := by rw [hdb]
    have hbat : A.2.1.batch = db.batch := by rw [hdb]
    have hdir : A.2.1.dir = db.dir := by rw [hdb]
    obtain ⟨g', hinv, hlog⟩ := Inv_after_append hi _ hr rfl (delDB A k old) { A.1 with db := some (delDB A k old) }
      (by rw [hA]) (by simp only [delDB, hdir]) (by rw [hA]; rfl)
      (by simp only [delDB, hidx]; rfl)
      (by
        have := liveBytes_erase db.index k
        have hc := hi.counters
        rw [hg] at this
        simp only [oldSize] at this
        simp only [delDB, hidx, hrec, htot]; omega)
      (by simp only [delDB, hbat, hi.nobatch])
    rw [hA] at hlog
    obtain ⟨v0, _, hv0⟩ := absGet_of_get_some hi hg
    refine ⟨delDB A k old, g', rfl, hinv, rfl, ?_, ?_, ?_⟩
    · intro k'
      by_cases e : k' = k
      · rw [if_pos e]; subst e
        apply absGet_of_get_none
        simp only [delDB, hidx, Index.get_erase hi.sorted, if_pos]
      · rw [if_neg e]
        exact absGet_stable hi hinv.files (by rw [hlog]; intro x hx; simp [hx])
          (by simp only [delDB, hidx, Index.get_erase hi.sorted, if_neg e])
    · simp only [stat, delDB, hidx, Index.length_erase, absGet_isSome hi]
    · intro hnone; rw [hv0] at hnone; exact absurd hnone (by simp)

/-! ## Get -/

theorem get_keyempty (s : St) (k : ByteArray) (hk : k.size = 0) {db : DB} (hs : s.db = some db) :
    get s k = (s, .err "keyempty") := by
  unfold get withDB
  rw [hs]
  simp only [if_pos hk]

/-- **Get** does not change the state and returns what the observable map holds -/
theorem get_spec {s : St} {db : DB} {g : GDir} (hi : Inv s db g) (hs : s.db = some db) (k : ByteArray)
    (hk0 : 0 < k.size) :
    (get s k).1 = s ∧
    (get s k).2 = (match absGet s db k with
      | some v => .val v
      | none => .notFound) := by
  unfold get withDB
  rw [hs]
  simp only [if_neg (show ¬ k.size = 0 by omega)]
  cases hg : Index.get db.index k with
  | none => simp only [absGet_of_get_none hg]; exact ⟨trivial, trivial⟩
  | some p =>
    obtain ⟨v, hv, ha⟩ := absGet_of_get_some hi hg
    simp only [ha, hv]; exact ⟨trivial, trivial⟩

/-! ## Sync -/

theorem Files_sync {s : St} {db : DB} {g : GDir} (h : Files s db g) :
    Files (putFile s db db.activeId { activeFile s db with synced := (activeFile s db).bytes.size }) db g := by
  obtain ⟨g0, gf, hg, hlt⟩ := h.last
  have hb : (activeFile s db).bytes = bytesOf gf := activeFile_bytes h.dir h.asc (by rw [hg]; simp)
  have h1 := DirOK_putFile h.dir db.activeId { activeFile s db with synced := (activeFile s db).bytes.size } gf hb
  rw [hg, gset_last g0 db.activeId gf gf hlt, ← hg] at h1
  exact ⟨h1, h.asc, h.active, h.recs⟩

/-- **Sync**: only the durable-prefix marker of the active file moves -/
theorem sync_spec {s : St} {db : DB} {g : GDir} (hi : Inv s db g) (hs : s.db = some db) :
    (syncDB s).1.db = some db ∧ Inv (syncDB s).1 db g ∧ (syncDB s).2 = .ok ∧
      (∀ k', absGet (syncDB s).1 db k' = absGet s db k') := by
  unfold syncDB withDB
  rw [hs]
  simp only []
  have hf := Files_sync hi.files
  have hinv : Inv (putFile s db db.activeId { activeFile s db with synced := (activeFile s db).bytes.size }) db g :=
    ⟨hf.dir, hf.asc, hf.active, hf.recs, hi.index, hi.sorted, hi.counters, hi.nobatch⟩
  refine ⟨hs, hinv, trivial, ?_⟩
  intro k'
  exact absGet_stable hi hf (fun x hx => hx) rfl

/-! ## opening a fresh directory -/

theorem mergeDirName_ne (d : String) : d ≠ mergeDirName d := by
  intro h
  have := congrArg String.length h
  simp only [mergeDirName, String.length_append] at this
  have h6 : "-merge".length = 6 := by decide
  omega

theorem scan_empty (tol : Bool) (fid : Nat) :
    scan C tol fid ByteArray.empty = { recs := [], validEnd := 0, ok := true } := by
  have := scan_build C tol fid [] (by simp)
  simpa [appendAll, posAll] using this

/-- `Open` on a directory that does not exist yet (empty world) -/
theorem openDB_fresh (dir : String) (cfg : Cfg) (h : cfg.Valid) :
    openDB St.init dir cfg =
      ({ world := [(dir, { DirSt.empty with data := [(0, ⟨ByteArray.empty, 0⟩)], locked := true })],
         db := some { cfg := cfg, dir := dir, activeId := 0, index := [], reclaim := 0, total := 0,
                      bytesWrite := 0, batch := none } }, .ok) := by
  have hne := mergeDirName_ne dir
  have hadopt : adopt [(dir, DirSt.empty)] dir = ([(dir, DirSt.empty)], 0) := by
    simp [adopt, World.get, hne]
  have hload : loadFile { index := [], reclaim := 0, total := 0, pending := [] } 0 ⟨ByteArray.empty, 0⟩ true
      = some ({ index := [], reclaim := 0, total := 0, pending := [] }, ⟨ByteArray.empty, 0⟩) := by
    simp [loadFile, scan_empty]
  simp [openDB, St.init, World.get, World.set, hadopt, loadIndex, hload,
    if_neg h.not_rejected, show DirSt.empty.locked = false from rfl,
    show DirSt.empty.data = [] from rfl]

/-- the freshly opened empty database satisfies the invariant, with one empty ghost file -/
theorem Inv_fresh (dir : String) (cfg : Cfg) :
    Inv { world := [(dir, { DirSt.empty with data := [(0, ⟨ByteArray.empty, 0⟩)], locked := true })],
          db := some { cfg := cfg, dir := dir, activeId := 0, index := [], reclaim := 0, total := 0,
                       bytesWrite := 0, batch := none } }
        { cfg := cfg, dir := dir, activeId := 0, index := [], reclaim := 0, total := 0,
          bytesWrite := 0, batch := none }
        [(0, [])] := by
  refine ⟨⟨{ DirSt.empty with data := [(0, ⟨ByteArray.empty, 0⟩)], locked := true },
    by simp only [World.get, if_pos], rfl, (show _ ∧ _ ∧ _ from ⟨rfl, rfl, trivial⟩)⟩, ?_, rfl, ?_, rfl, ?_, rfl, rfl⟩
  · simp [AscIds]
  · intro x hx r hr
    simp only [List.mem_singleton] at hx
    rw [hx] at hr; simp at hr
  · simp [SortedKeys]

/-! ## when does `appendLog` rotate -/

theorem appendTail_activeId (s : St) (db : DB) (r : Record) : (appendTail s db r).2.1.activeId = db.activeId := by
  unfold appendTail
  simp only []
  split <;> rfl

/-- whether `appendLogRecord` rotates is decided by the size estimate alone -/
theorem appendLog_activeId (s : St) (db : DB) (r : Record) :
    (appendLog s db r).2.1.activeId =
      if (activeFile s db).bytes.size + diskSizeEstimate r.key.size r.value.size > db.cfg.fileSize
      then db.activeId + 1 else db.activeId := by
  rw [appendLog_eq]
  split
  · rw [appendTail_activeId]; rfl
  · rw [appendTail_activeId]

theorem diskSizeEstimate_ge (a b : Nat) : 46 ≤ diskSizeEstimate a b := by
  have hH := Frame.hH
  have hBS := Frame.hBS
  simp only [diskSizeEstimate, hH, hBS]; omega

end XixiKV.Engine
