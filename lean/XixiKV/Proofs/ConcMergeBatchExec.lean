import XixiKV.Model.ConcMergeBatch
import XixiKV.Proofs.ConcBatchExec
import XixiKV.Proofs.ConcMerge
/-!
# `ConcMergeBatch`: soundness of the executable form, projection to `ConcBatch.Reachable`
-/
namespace XixiKV.ConcMergeBatch
open XixiKV.Conc (Tid Key Val upd updK Res)
open XixiKV.ConcBatch

theorem isPermOfRange_sound {td : List Nat} {n : Nat} (h : isPermOfRange td n = true) :
    td.Perm (List.range n) := by
  unfold isPermOfRange at h
  simp only [Bool.and_eq_true, beq_iff_eq, List.all_eq_true, List.contains_iff_mem] at h
  obtain ⟨hl, hall⟩ := h
  exact XixiKV.ConcMerge.perm_of_nodup_subset_length _ _ List.nodup_range (fun x hx => hall x hx)
    (by rw [hl, List.length_range])

theorem nextM_sound {sh : Shape} {b : Bool} {a a' : GM} {l : LabelM}
    (h : nextM sh b a l = some a') : StepM sh b a a' := by
  obtain ⟨g, m⟩ := a
  cases l with
  | cl t l =>
    simp only [nextM] at h
    cases hn : next sh g t l with
    | none => rw [hn] at h; cases h
    | some g1 =>
      rw [hn] at h
      simp only [Option.map_some, Option.some.injEq] at h
      subst h
      exact StepM.base _ _ _ (next_sound hn)
  | mstart todo =>
    simp only [nextM] at h
    split at h
    · rename_i hc
      cases h
      obtain ⟨h1, h2, h3⟩ := hc
      exact StepM.mstart _ _ _ h1 h2 (isPermOfRange_sound h3)
    · cases h
  | mvisit =>
    cases m with
    | idle => cases h
    | done n out => cases h
    | scanning n todo out =>
      cases todo with
      | nil => cases h
      | cons i todo =>
        simp only [nextM] at h
        split at h
        · rename_i hc
          cases h
          refine StepM.mvisit _ _ _ _ _ ?_
          intro hb
          rcases hc with hc | hc
          · rw [hb] at hc; cases hc
          · exact hc
        · cases h
  | mfinish =>
    cases m with
    | idle => cases h
    | done n out => cases h
    | scanning n todo out =>
      cases todo with
      | nil => cases h; exact StepM.mfinish _ _ _
      | cons i todo => cases h
  | mabort =>
    cases m with
    | idle => cases h
    | done n out => cases h
    | scanning n todo out => cases h; exact StepM.mabort _ _ _ _

/-- the merge goroutine does not disturb the clients and the batches: every state reachable with a
concurrent merge projects to a state reachable without one (so `Inv0`, `C08B_restart_agrees`, … hold
with a Merge running) -/
theorem reachableM_base {sh : Shape} {b : Bool} {a : GM} (h : ReachableM sh b a) :
    Reachable sh a.g := by
  induction h with
  | init => exact Reachable.init
  | step _ hs ih =>
    cases hs with
    | base g g' m hst => exact Reachable.step ih hst
    | mstart g m todo _ _ _ => exact ih
    | mvisit g n i todo out _ => exact ih
    | mfinish g n out => exact ih
    | mabort g n todo out => exact ih

theorem execM_reachable {sh : Shape} {b : Bool} {s : List LabelM} {a a' : GM}
    (hr : ReachableM sh b a) (h : execM sh b s a = some a') : ReachableM sh b a' := by
  induction s generalizing a with
  | nil => simp only [execM, Option.some.injEq] at h; subst h; exact hr
  | cons l rest ih =>
    simp only [execM] at h
    cases hn : nextM sh b a l with
    | none => rw [hn] at h; cases h
    | some a1 =>
      rw [hn] at h
      exact ih (ReachableM.step hr (nextM_sound hn)) h

/-- a schedule accepted by `execM` from `initM` leads to a reachable state -/
theorem execM_init_reachable {sh : Shape} {b : Bool} {s : List LabelM}
    (h : (execM sh b s initM).isSome = true) :
    ReachableM sh b ((execM sh b s initM).getD initM) := by
  cases he : execM sh b s initM with
  | none => rw [he] at h; cases h
  | some a => exact execM_reachable .init he

end XixiKV.ConcMergeBatch
