import XixiKV.Proofs.EnginePolicy
import XixiKV.Proofs.EngineMerge
/-!
# Snapshot stability, part 1: the data files of an open handle only grow  (helper lemmas for C10)

An iterator (`Engine.Iter`, `Engine.listKeys`, `Engine.fold`) captures index *positions*; the value
is read later through `Engine.valueAt` in whatever state the database is in by then.  This file
proves, directly on the executable model and with **no** side condition on the operations, that every
user-level write path only ever *appends whole frames* to the data files of the handle's directory:

* `FExt b b'`   — the bytes `b'` are `b` followed by a run of appended (non-empty) records;
* `DExt a fs fs'` — every file of `fs` is still there in `fs'`, extended in that sense, and the
  files with id `< a` (the older files) are byte-identical;
* `Top fs a`    — file ids ascend and none lies above the active id `a` (so a rotation creates a
  *new* file);
* `Adv s db s' db'` — the step relation: same directory, `Top` is kept and the files are extended;
* `Step s s'`   — the same on states with an open handle.

`Step` holds for every plain operation, every batch operation (`Step_astep`), `Sync`, and — in
`Proofs/IterStableMerge.lean` — for `Merge` in any visiting order and with either outcome.
`valueAt_ext` then reads a logged position in the later state: the answer is the logged value.
-/
namespace XixiKV.Engine.IterP
open XixiKV.Frame XixiKV.Record XixiKV.Index XixiKV.Engine XixiKV.Engine.BatchP XixiKV.Engine.MergeP
open XixiKV.Engine.PolicyP.Size (AOp astep arun)

/-! ## extension of one file -/

/-- `b'` is `b` followed by whole appended records -/
def FExt (b b' : ByteArray) : Prop :=
  ∃ ds : List ByteArray, (∀ d ∈ ds, 0 < d.size) ∧ b' = appendAll C b ds

theorem FExt.refl (b : ByteArray) : FExt b b := ⟨[], fun _ h => (by cases h), rfl⟩

theorem FExt.trans {a b c : ByteArray} (h : FExt a b) (h' : FExt b c) : FExt a c := by
  obtain ⟨ds, hd, rfl⟩ := h
  obtain ⟨es, he, rfl⟩ := h'
  refine ⟨ds ++ es, ?_, (appendAll_append C a ds es).symm⟩
  intro d hm
  rcases List.mem_append.mp hm with hm | hm
  · exact hd d hm
  · exact he d hm

theorem FExt.all (b : ByteArray) (ds : List ByteArray) (h : ∀ d ∈ ds, 0 < d.size) :
    FExt b (appendAll C b ds) := ⟨ds, h, rfl⟩

theorem FExt.one (b d : ByteArray) (h : 0 < d.size) : FExt b (appendRec C b d) :=
  ⟨[d], fun x hx => by simp only [List.mem_singleton] at hx; rw [hx]; exact h, rfl⟩

theorem FExt.record (b : ByteArray) (r : Record) : FExt b (appendRec C b (encodeRecord r)) :=
  FExt.one b _ RecOK.payload_pos

/-! ## extension of a file list -/

/-- the data files of the handle's directory -/
def filesOf (s : St) (db : DB) : List (Nat × FileSt) := (dirOf s db).data

/-- every file of `fs` is still there in `fs'`, extended by appended records; the files below the
    (old) active id `a` — the immutable *older files*, which Go reads without holding `db.mu` — are
    byte-identical -/
def DExt (a : Nat) (fs fs' : List (Nat × FileSt)) : Prop :=
  ∀ id f, getFile fs id = some f →
    ∃ f', getFile fs' id = some f' ∧ FExt f.bytes f'.bytes ∧ (id < a → f'.bytes = f.bytes)

theorem DExt.refl (a : Nat) (fs : List (Nat × FileSt)) : DExt a fs fs :=
  fun _ f h => ⟨f, h, FExt.refl _, fun _ => rfl⟩

theorem DExt.trans {a a' : Nat} {x y z : List (Nat × FileSt)} (h : DExt a x y) (h' : DExt a' y z)
    (hle : a ≤ a') : DExt a x z := by
  intro id f hf
  obtain ⟨f1, h1, e1, k1⟩ := h id f hf
  obtain ⟨f2, h2, e2, k2⟩ := h' id f1 h1
  exact ⟨f2, h2, e1.trans e2, fun hlt => by rw [k2 (by omega), k1 hlt]⟩

/-- file ids strictly ascending, no file above the active id -/
def Top (fs : List (Nat × FileSt)) (a : Nat) : Prop := AscF fs ∧ ∀ id, a < id → getFile fs id = none

theorem filesOf_congr {s s' : St} {db db' : DB} (hw : s'.world = s.world) (hd : db'.dir = db.dir) :
    filesOf s' db' = filesOf s db := by
  unfold filesOf dirOf
  rw [hw, hd]

theorem filesOf_putFile (s : St) (db : DB) (id : Nat) (f : FileSt) {db' : DB} (hd : db'.dir = db.dir) :
    filesOf (putFile s db id f) db' = setFile (filesOf s db) id f := by
  unfold filesOf
  have : dirOf (putFile s db id f) db' = { dirOf s db with data := setFile (dirOf s db).data id f } := by
    unfold dirOf
    rw [hd, putFile_get_self]
    rfl
  rw [this]

theorem activeFile_eq (s : St) (db : DB) :
    activeFile s db = (getFile (filesOf s db) db.activeId).getD ⟨ByteArray.empty, 0⟩ := rfl

/-! ## the step relation on (state, handle) pairs -/

def Adv (s : St) (db : DB) (s' : St) (db' : DB) : Prop :=
  db'.dir = db.dir ∧ db.activeId ≤ db'.activeId ∧
    (Top (filesOf s db) db.activeId →
      Top (filesOf s' db') db'.activeId ∧ DExt db.activeId (filesOf s db) (filesOf s' db'))

theorem Adv.refl (s : St) (db : DB) : Adv s db s db := ⟨rfl, Nat.le_refl _, fun h => ⟨h, DExt.refl _ _⟩⟩

theorem Adv.trans {s s' s'' : St} {db db' db'' : DB} (h : Adv s db s' db') (h' : Adv s' db' s'' db'') :
    Adv s db s'' db'' := by
  refine ⟨h'.1.trans h.1, Nat.le_trans h.2.1 h'.2.1, fun ht => ?_⟩
  obtain ⟨t1, e1⟩ := h.2.2 ht
  obtain ⟨t2, e2⟩ := h'.2.2 t1
  exact ⟨t2, e1.trans e2 h.2.1⟩

/-- nothing on disk changed, the handle keeps directory and active id -/
theorem Adv.same {s s' : St} {db db' : DB} (hw : s'.world = s.world) (hd : db'.dir = db.dir)
    (ha : db'.activeId = db.activeId) : Adv s db s' db' := by
  refine ⟨hd, Nat.le_of_eq ha.symm, fun ht => ?_⟩
  rw [filesOf_congr hw hd, ha]
  exact ⟨ht, DExt.refl _ _⟩

/-- the handle on the right may be replaced by one with the same directory and active id -/
theorem Adv.handle {s s' : St} {db db' db'' : DB} (h : Adv s db s' db') (hd : db''.dir = db'.dir)
    (ha : db''.activeId = db'.activeId) : Adv s db s' db'' :=
  h.trans (Adv.same rfl hd ha)

/-- **primitive 1**: the active file is replaced by an extension of itself -/
theorem Adv_putActive (s : St) (db : DB) (f' : FileSt) {db' : DB} (hd : db'.dir = db.dir)
    (ha : db'.activeId = db.activeId) (he : FExt (activeFile s db).bytes f'.bytes) :
    Adv s db (putFile s db db.activeId f') db' := by
  refine ⟨hd, Nat.le_of_eq ha.symm, fun ht => ?_⟩
  rw [filesOf_putFile s db _ _ hd, ha]
  refine ⟨⟨AscF_setFile ht.1 _ _, ?_⟩, ?_⟩
  · intro id hid
    rw [getFile_setFile, if_neg (by omega)]
    exact ht.2 id hid
  · intro id f hf
    rw [getFile_setFile]
    by_cases e : id = db.activeId
    · rw [if_pos e]
      refine ⟨f', rfl, ?_, fun hlt => absurd hlt (by omega)⟩
      rw [activeFile_eq, ← e, hf] at he
      exact he
    · rw [if_neg e]
      exact ⟨f, hf, FExt.refl _, fun _ => rfl⟩

/-- **primitive 2**: `db.sync()` / `setActiveFile` — under `Top` the new id is unused -/
theorem Adv_rotate (s : St) (db : DB) : Adv s db (rotate s db).1 (rotate s db).2 := by
  refine ⟨rfl, Nat.le_succ _, fun ht => ?_⟩
  have hfs : filesOf (rotate s db).1 (rotate s db).2
      = setFile (setFile (filesOf s db) db.activeId
          { activeFile s db with synced := (activeFile s db).bytes.size }) (db.activeId + 1) ⟨ByteArray.empty, 0⟩ := by
    have h1 : filesOf (putFile s db db.activeId { activeFile s db with synced := (activeFile s db).bytes.size })
        { db with bytesWrite := 0, activeId := db.activeId + 1 }
        = setFile (filesOf s db) db.activeId { activeFile s db with synced := (activeFile s db).bytes.size } :=
      filesOf_putFile s db _ _ rfl
    unfold rotate
    simp only []
    rw [filesOf_putFile _ _ _ _ rfl, h1]
  have hact : (rotate s db).2.activeId = db.activeId + 1 := rfl
  rw [hfs, hact]
  refine ⟨⟨AscF_setFile (AscF_setFile ht.1 _ _) _ _, ?_⟩, ?_⟩
  · intro id hid
    rw [getFile_setFile, if_neg (by omega), getFile_setFile, if_neg (by omega)]
    exact ht.2 id (by omega)
  · intro id f hf
    have hle : id ≤ db.activeId := by
      apply Nat.le_of_not_lt
      intro hlt
      rw [ht.2 id hlt] at hf
      cases hf
    rw [getFile_setFile, if_neg (by omega), getFile_setFile]
    by_cases e : id = db.activeId
    · rw [if_pos e]
      refine ⟨_, rfl, ?_, fun _ => ?_⟩
      · rw [activeFile_eq, ← e, hf]
        exact FExt.refl _
      · rw [activeFile_eq, ← e, hf]
        rfl
    · rw [if_neg e]
      exact ⟨f, hf, FExt.refl _, fun _ => rfl⟩

/-! ## `appendLogRecord` -/

theorem Adv_appendTail (s : St) (db : DB) (r : Record) :
    Adv s db (appendTail s db r).1 (appendTail s db r).2.1 := by
  unfold appendTail
  simp only []
  split
  · exact Adv_putActive s db _ rfl rfl (FExt.record _ r)
  · exact Adv_putActive s db _ rfl rfl (FExt.record _ r)

theorem Adv_appendLog (s : St) (db : DB) (r : Record) :
    Adv s db (appendLog s db r).1 (appendLog s db r).2.1 := by
  rw [appendLog_eq]
  split
  · exact (Adv_rotate s db).trans (Adv_appendTail _ _ r)
  · exact Adv_appendTail s db r

theorem appendTail_db (s : St) (db : DB) (r : Record) : (appendTail s db r).1.db = s.db := by
  unfold appendTail
  simp only []
  split <;> rfl

theorem appendLog_db (s : St) (db : DB) (r : Record) : (appendLog s db r).1.db = s.db := by
  rw [appendLog_eq]
  split
  · rw [appendTail_db]; rfl
  · exact appendTail_db s db r

/-! ## batch flushes -/

theorem Adv_flushTail (s : St) (db : DB) (b : BatchSt) :
    Adv s db (flushTail s db b).1 (flushTail s db b).2.1 := by
  obtain ⟨_, hdir, hact, _, _⟩ := applyAllStaged_rest (b.staged.zip
    (posAll C db.activeId (activeFile s db).bytes
      (b.staged.map (fun r => encodeRecord { typ := r.typ, key := r.key, value := r.value, batch := b.id })))) db
  unfold flushTail
  simp only []
  refine Adv_putActive s db _ hdir hact (FExt.all _ _ ?_)
  intro d hd
  obtain ⟨r, _, rfl⟩ := List.mem_map.mp hd
  exact RecOK.payload_pos

theorem Adv_flushStaged (s : St) (db : DB) (b : BatchSt) :
    Adv s db (flushStaged s db b).1 (flushStaged s db b).2.1 := by
  rw [flushStaged_eq]
  split
  · exact (Adv_rotate s db).trans (Adv_flushTail _ _ b)
  · exact Adv_flushTail s db b

theorem Adv_flushAndRotate (s : St) (db : DB) (b : BatchSt) :
    Adv s db (flushAndRotate s db b).1 (flushAndRotate s db b).2.1 := by
  rw [flushAndRotate_eq]
  exact (Adv_flushStaged s db b).trans (Adv_rotate _ _)

theorem Adv_sealFile (s : St) (db : DB) (b : BatchSt) {db' : DB} (hd : db'.dir = db.dir)
    (ha : db'.activeId = db.activeId) : Adv s db (sealFile s db b) db' := by
  unfold sealFile
  exact Adv_putActive s db _ hd ha (FExt.record _ _)

/-! ## the step relation on states -/

/-- from `s` to `s'` the open handle keeps its directory and its data files were only extended -/
def Step (s s' : St) : Prop := ∀ db, s.db = some db → ∃ db', s'.db = some db' ∧ Adv s db s' db'

theorem Step.refl (s : St) : Step s s := fun db h => ⟨db, h, Adv.refl s db⟩

theorem Step.trans {s s' s'' : St} (h : Step s s') (h' : Step s' s'') : Step s s'' := by
  intro db hs
  obtain ⟨db1, h1, a1⟩ := h db hs
  obtain ⟨db2, h2, a2⟩ := h' db1 h1
  exact ⟨db2, h2, a1.trans a2⟩

theorem Step_put (s : St) (k v : ByteArray) : Step s (put s k v).1 := by
  intro db hs
  by_cases hk : k.size = 0
  · rw [put_keyempty s k v hk hs]; exact ⟨db, hs, Adv.refl _ _⟩
  · rw [put_eq hs k v hk]
    exact ⟨_, rfl, ((Adv_appendLog s db _).handle rfl rfl).trans (Adv.same rfl rfl rfl)⟩

theorem Step_delete (s : St) (k : ByteArray) : Step s (delete s k).1 := by
  intro db hs
  by_cases hk : k.size = 0
  · rw [delete_keyempty s k hk hs]; exact ⟨db, hs, Adv.refl _ _⟩
  · cases hg : Index.get db.index k with
    | none => rw [delete_eq_none hs k hk hg]; exact ⟨db, hs, Adv.refl _ _⟩
    | some old =>
      rw [delete_eq_some hs k hk hg]
      exact ⟨_, rfl, ((Adv_appendLog s db _).handle rfl rfl).trans (Adv.same rfl rfl rfl)⟩

theorem Step_get (s : St) (k : ByteArray) : Step s (get s k).1 := by
  rw [PolicyP.get_state]; exact Step.refl s

theorem Step_syncDB (s : St) : Step s (syncDB s).1 := by
  intro db hs
  rw [PolicyP.Dur.syncDB_eq hs]
  exact ⟨db, hs, Adv_putActive s db _ rfl rfl (FExt.refl _)⟩

theorem Step_bnew (s : St) (sync : Bool) (id : Nat) : Step s (bnew s sync id).1 := by
  intro db hs
  rw [bnew_eq hs]
  exact ⟨_, rfl, Adv.same rfl rfl rfl⟩

theorem Step_bdrop (s : St) : Step s (bdrop s).1 := by
  intro db hs
  rw [bdrop_eq hs]
  exact ⟨_, rfl, Adv.same rfl rfl rfl⟩

theorem Step_bget (s : St) (k : ByteArray) : Step s (bget s k).1 := by
  rw [bget_state]; exact Step.refl s

theorem Step_bput (s : St) (k v : ByteArray) : Step s (bput s k v).1 := by
  intro db hs
  have hself : ∃ db', s.db = some db' ∧ Adv s db s db' := ⟨db, hs, Adv.refl _ _⟩
  unfold bput withBatch
  rw [hs]
  simp only []
  cases db.batch with
  | none => exact hself
  | some b =>
    simp only []
    by_cases hk : k.size = 0
    · simp only [if_pos hk]; exact hself
    · simp only [if_neg hk]
      by_cases hc : b.committed = true
      · simp only [if_pos hc]; exact hself
      · simp only [if_neg hc]
        cases findStaged b.staged k with
        | none =>
          simp only []
          by_cases hcond : b.cached + diskSizeEstimate k.size v.size + maxFinRecord > db.cfg.fileSize
          · simp only [if_pos hcond]
            exact ⟨_, rfl, ((Adv_flushAndRotate s db b).handle rfl rfl).trans (Adv.same rfl rfl rfl)⟩
          · simp only [if_neg hcond]
            exact ⟨_, rfl, Adv.same rfl rfl rfl⟩
        | some r =>
          simp only []
          split
          · exact ⟨_, rfl, ((Adv_flushAndRotate s db b).handle rfl rfl).trans (Adv.same rfl rfl rfl)⟩
          · exact ⟨_, rfl, Adv.same rfl rfl rfl⟩

theorem Step_bdel (s : St) (k : ByteArray) : Step s (bdel s k).1 := by
  intro db hs
  have hself : ∃ db', s.db = some db' ∧ Adv s db s db' := ⟨db, hs, Adv.refl _ _⟩
  unfold bdel withBatch
  rw [hs]
  simp only []
  cases db.batch with
  | none => exact hself
  | some b =>
    simp only []
    by_cases hk : k.size = 0
    · simp only [if_pos hk]; exact hself
    · simp only [if_neg hk]
      by_cases hc : b.committed = true
      · simp only [if_pos hc]; exact hself
      · simp only [if_neg hc]
        cases findStaged b.staged k with
        | some r =>
          simp only []
          exact ⟨_, rfl, Adv.same rfl rfl rfl⟩
        | none =>
          simp only []
          cases Index.get db.index k with
          | none => exact hself
          | some old =>
            simp only []
            by_cases hcond : b.cached + diskSizeEstimate k.size 0 + maxFinRecord > db.cfg.fileSize
            · simp only [if_pos hcond]
              exact ⟨_, rfl, ((Adv_flushAndRotate s db b).handle rfl rfl).trans (Adv.same rfl rfl rfl)⟩
            · simp only [if_neg hcond]
              exact ⟨_, rfl, Adv.same rfl rfl rfl⟩

theorem Step_bcommit (s : St) : Step s (bcommit s).1 := by
  intro db hs
  have hself : ∃ db', s.db = some db' ∧ Adv s db s db' := ⟨db, hs, Adv.refl _ _⟩
  cases hb : db.batch with
  | none =>
    unfold bcommit withBatch
    rw [hs]
    simp only [hb]
    exact hself
  | some b =>
    by_cases hc : b.committed = true
    · rw [bcommit_committed hs hb hc]; exact hself
    · have hc' : b.committed = false := by simpa using hc
      by_cases he : b.staged = []
      · rw [bcommit_empty hs hb hc' he]
        exact ⟨_, rfl, Adv.same rfl rfl rfl⟩
      · rw [bcommit_nonempty hs hb hc' he]
        refine ⟨_, rfl, ?_⟩
        refine (Adv_flushStaged s db { b with committed := true }).trans ?_
        exact (Adv_sealFile _ _ _ rfl rfl).trans (Adv.same rfl rfl rfl)

/-- **every plain and every batch operation** only extends the handle's data files -/
theorem Step_astep (s : St) (op : AOp) : Step s (astep s op).1 := by
  cases op with
  | put k v => exact Step_put s k v
  | del k => exact Step_delete s k
  | get k => exact Step_get s k
  | sync => exact Step_syncDB s
  | bnew sy id => exact Step_bnew s sy id
  | bput k v => exact Step_bput s k v
  | bdel k => exact Step_bdel s k
  | bget k => exact Step_bget s k
  | bcommit => exact Step_bcommit s
  | bdrop => exact Step_bdrop s

theorem Step_arun (ops : List AOp) : ∀ s : St, Step s (arun s ops) := by
  induction ops with
  | nil => intro s; exact Step.refl s
  | cons op ops ih => intro s; exact (Step_astep s op).trans (ih _)

/-! ## reading an old position in a later state -/

/-- under the file invariant no file lies above the active id -/
theorem Top_of_Files {s : St} {db : DB} {g : GDir} (h : Files s db g) : Top (filesOf s db) db.activeId := by
  obtain ⟨d, hd, _, hm⟩ := h.dir
  obtain ⟨g0, gf, hg, hlt⟩ := h.last
  refine ⟨by unfold filesOf; rw [dirOf_eq hd]; exact Matches_AscF hm h.asc, ?_⟩
  intro id hid
  cases hf : getFile (filesOf s db) id with
  | none => rfl
  | some f =>
    exfalso
    unfold filesOf at hf
    rw [dirOf_eq hd] at hf
    have hmem : (id, f) ∈ d.data := getFile_mem hf
    -- ids of the data files are the ids of the ghost files
    have key : ∀ (data : List (Nat × FileSt)) (g : GDir), Matches data g → ∀ x ∈ data, ∃ y ∈ g, y.1 = x.1 := by
      intro data
      induction data with
      | nil => intro g _ x hx; cases hx
      | cons a t ih =>
        intro g hm x hx
        cases g with
        | nil => exact absurd hm (by simp [Matches])
        | cons y g' =>
          obtain ⟨e1, _, e3⟩ := hm
          rcases List.mem_cons.mp hx with rfl | hx
          · exact ⟨y, by simp, e1.symm⟩
          · obtain ⟨z, hz, ez⟩ := ih g' e3 x hx
            exact ⟨z, by simp [hz], ez⟩
    obtain ⟨y, hy, ey⟩ := key d.data g hm (id, f) hmem
    rw [hg] at hy
    rcases List.mem_append.mp hy with hy | hy
    · have := hlt y hy
      simp only at ey
      omega
    · simp only [List.mem_singleton] at hy
      rw [hy] at ey
      simp only at ey
      omega

/-- **a logged position still resolves to the logged value** after the files were extended -/
theorem valueAt_ext {s s' : St} {db db' : DB} {g : GDir} (h : Files s db g)
    {a : Nat} (hext : DExt a (filesOf s db) (filesOf s' db')) {r : Record} {p : Pos} (hm : (r, p) ∈ logOf g) :
    valueAt s' db' p = .val r.value := by
  obtain ⟨x, hx, hz⟩ := mem_logOf.mp hm
  obtain ⟨id, gf⟩ := x
  obtain ⟨_, hfid⟩ := readAt_ghost id gf r p hz
  obtain ⟨d, hd, _, hmt⟩ := h.dir
  obtain ⟨f, hf, hb⟩ := Matches_getFile hmt h.asc hx
  have hf0 : getFile (filesOf s db) id = some f := by
    unfold filesOf; rw [dirOf_eq hd]; exact hf
  obtain ⟨f', hf', ⟨ds, hds, hbytes⟩, _⟩ := hext id f hf0
  have hok : RecOK r := h.recs _ hx r (List.of_mem_zip hz).1
  obtain ⟨ht, _, hk, hv, hbt⟩ := hok
  -- the later bytes are the ghost payloads followed by the appended ones
  have hb' : f'.bytes = appendAll C ByteArray.empty (payloads gf ++ ds) := by
    rw [hbytes, hb, bytesOf, appendAll_append]
  have hmem : (encodeRecord r, p) ∈ (payloads gf ++ ds).zip (posAll C id ByteArray.empty (payloads gf ++ ds)) := by
    rw [posAll_append, List.zip_append (by rw [length_posAll])]
    apply List.mem_append_left
    simp only [payloads, List.zip_map_left]
    exact List.mem_map.mpr ⟨(r, p), hz, rfl⟩
  have hread : readAt C f'.bytes p.block p.off = .ok (encodeRecord r) := by
    rw [hb']
    refine readAt_member C id (payloads gf ++ ds) ByteArray.empty _ p ?_ hmem
    intro y hy
    rcases List.mem_append.mp hy with hy | hy
    · obtain ⟨r', _, rfl⟩ := List.mem_map.mp hy
      exact RecOK.payload_pos
    · exact hds y hy
  have hf1 : getFile (dirOf s' db').data p.fid = some f' := by rw [hfid]; exact hf'
  simp only [valueAt, hf1, hread, decodeValue_encodeRecord r (by omega) hk hv hbt]

/-- **what must hold of the state in which a snapshot is taken**: the data files match a ghost
    directory, every index entry is the position of a logged record with that key, and the index is
    sorted.  Implied by the engine invariant `Inv` (no batch open, `SnapOK.of_inv`) and by the
    in-batch invariant `BInv` (a batch is open, possibly after intermediate flushes,
    `SnapOK.of_batch`). -/
structure SnapOK (s : St) (db : DB) (g : GDir) : Prop where
  files : Files s db g
  prov : Prov db g
  sorted : SortedKeys db.index

theorem SnapOK.of_inv {s : St} {db : DB} {g : GDir} (h : Inv s db g) : SnapOK s db g :=
  ⟨h.files, fun _ _ hm => h.index_from_log hm, h.sorted⟩

theorem SnapOK.of_batch {s : St} {db : DB} {g : GDir} {b : BatchSt} {base : BSpec}
    {issued : List (ByteArray × Option ByteArray)} {l0 flushed : List (Record × Pos)}
    (h : BCore s db g b base issued l0 flushed) : SnapOK s db g :=
  ⟨h.files, h.prov, h.cinv.sorted⟩

/-- under `SnapOK` every indexed key has a value and it is the logged one -/
theorem SnapOK.resolves {s : St} {db : DB} {g : GDir} (h : SnapOK s db g) {k : Key} {p : Pos}
    (hm : (k, p) ∈ db.index) :
    ∃ r, (r, p) ∈ logOf g ∧ Index.get db.index k = some p ∧ Engine.valueAt s db p = .val r.value ∧
      absGet s db k = some r.value := by
  have hget : Index.get db.index k = some p := Index.mem_get_of_sorted h.sorted hm
  obtain ⟨r, hr, _, hv, ha⟩ := absGet_resolves h.files h.prov hget
  exact ⟨r, hr, hget, hv, ha⟩

/-- **stability of one snapshot item** along a `Step` -/
theorem Step.valueAt {s s' : St} {db : DB} {g : GDir} (hst : Step s s') (hdb : s.db = some db)
    (hi : SnapOK s db g) {k : Key} {p : Pos} (hm : (k, p) ∈ db.index) :
    ∃ db' v, s'.db = some db' ∧ db'.dir = db.dir ∧ absGet s db k = some v ∧
      Engine.valueAt s db p = .val v ∧ Engine.valueAt s' db' p = .val v := by
  obtain ⟨db', hdb', hdir, _, hadv⟩ := hst db hdb
  obtain ⟨_, hext⟩ := hadv (Top_of_Files hi.files)
  obtain ⟨r, hr, _, hv, ha⟩ := hi.resolves hm
  exact ⟨db', r.value, hdb', hdir, ha, hv, valueAt_ext hi.files hext hr⟩

end XixiKV.Engine.IterP
