import XixiKV.Proofs.TransEqBase
/-! # translated Go function(s) = model: Write (split out of `TransEq.lean` so that a function that leaves the
    translator's subset, or whose proof breaks, affects only the properties that restate it) -/
namespace XixiKV.TransEq
open XixiKV XixiKV.Generated.Trans XixiKV.Frame
/-! ## (d) `writeToBuf` -/

abbrev WSt := datafile.writeToBuf.St

/-- what one iteration of the writer's loop does -/
theorem body0_spec (st : WSt) (T w o c : Nat)
    (hT : st.totalSize = T) (hw : st.writtenSize = w) (ho : st.nextSize = o) (hc : st.chunkCount = c)
    (hwT : w < T) (hT31 : T < 2^31) (ho7 : o + 7 < 32768) (hc32 : c + 1 < 2^32) :
    let ws := if w = 0 then min T (32768 - o - 7) else min (T - w) 32761
    let ty := if w + ws = T then (if w = 0 then 0 else 3) else (if w = 0 then 1 else 2)
    let st' := datafile.writeToBuf.body0 st
    st'.totalSize = T ∧ st'.writtenSize = w + ws ∧ st'.nextSize = o ∧ st'.chunkCount = c + 1 ∧
    st'.nextID = st.nextID ∧ st'.pos = st.pos ∧
    st'.segs = st.segs ++ [Seg.chunk ty ws w (w + ws)] := by
  intro ws ty st'
  subst hT hw ho hc
  by_cases hw0 : st.writtenSize = 0
  · by_cases hl : st.totalSize ≤ 32768 - st.nextSize - 7 <;>
    simp (disch := omega) only [st', ws, ty, datafile.writeToBuf.body0, datafile.blockSize, datafile.chunkHeaderSize, datafile.Full, datafile.First,
      datafile.Middle, datafile.Last, if_pos, if_neg, true_and, and_true, List.append_cancel_left_eq, List.cons.injEq, Seg.chunk.injEq] <;> omega
  · by_cases hl : st.totalSize - st.writtenSize ≤ 32761 <;>
    simp (disch := omega) only [st', ws, ty, datafile.writeToBuf.body0, datafile.blockSize, datafile.chunkHeaderSize, datafile.Full, datafile.First,
      datafile.Middle, datafile.Last, if_pos, if_neg, true_and, and_true, List.append_cancel_left_eq, List.cons.injEq, Seg.chunk.injEq] <;> omega

/-- segments the loop emits from written offset `w > 0` on (Middle … Last) -/
def restSegs (T : Nat) : Nat → Nat → List Seg
  | 0, _ => []
  | f+1, w => if T - w ≤ BS - H then [Seg.chunk 3 (T - w) w T]
              else Seg.chunk 2 (BS - H) w (w + (BS - H)) :: restSegs T f (w + (BS - H))

/-- all segments of a record of `T > 0` bytes whose first chunk starts at in-block offset `o` -/
def recSegs (T o : Nat) : List Seg :=
  if T ≤ BS - o - H then [Seg.chunk 0 T 0 T]
  else Seg.chunk 1 (BS - o - H) 0 (BS - o - H) :: restSegs T T (BS - o - H)

theorem loop0_rest (T o : Nat) (hT31 : T < 2^31) (ho7 : o + 7 < 32768) :
    ∀ (f fuel : Nat) (st : WSt) (w c : Nat), st.totalSize = T → st.writtenSize = w → st.nextSize = o →
      st.chunkCount = c → 0 < w → w < T → T - w ≤ f → T - w < fuel → c + (T - w) < 2^32 →
      ∃ st', datafile.writeToBuf.loop0 fuel st = some st' ∧ st'.totalSize = T ∧ st'.nextSize = o ∧
        st'.nextID = st.nextID ∧ st'.pos = st.pos ∧ st'.chunkCount = c + restCount (T - w) f ∧
        st'.segs = st.segs ++ restSegs T f w := by
  intro f
  induction f with
  | zero => intro fuel st w c _ _ _ _ _ _ _ _ _; omega
  | succ f ih =>
    intro fuel st w c hT hw ho hc hw0 hwT hf hfuel hc32
    have hBS := hBS; have hH := hH
    cases fuel with
    | zero => omega
    | succ fuel =>
    obtain ⟨b1, b2, b3, b4, b5, b6, b7⟩ := body0_spec st T w o c hT hw ho hc hwT hT31 ho7 (by omega)
    simp only [if_neg (by omega : ¬ w = 0)] at b2 b7
    unfold datafile.writeToBuf.loop0
    rw [if_pos (by omega)]
    by_cases hl : T - w ≤ 32761
    · -- last chunk
      rw [Nat.min_eq_left hl] at b2 b7
      refine ⟨datafile.writeToBuf.body0 st, ?_, b1, b3, b5, b6, ?_, ?_⟩
      · cases fuel with
        | zero => omega
        | succ fuel => unfold datafile.writeToBuf.loop0; rw [if_neg (by omega)]
      · rw [b4]; unfold restCount; rw [if_pos (by omega)]
      · rw [b7]; unfold restSegs; rw [if_pos (by omega), if_pos (by omega)]
        have : w + (T - w) = T := by omega
        rw [this]
    · -- middle chunk
      rw [Nat.min_eq_right (by omega)] at b2 b7
      obtain ⟨st', h1, h2, h3, h4, h5, h6, h7⟩ := ih fuel (datafile.writeToBuf.body0 st) (w + 32761) (c + 1)
        b1 b2 b3 b4 (by omega) (by omega) (by omega) (by omega) (by omega)
      refine ⟨st', h1, h2, h3, by rw [h4, b5], by rw [h5, b6], ?_, ?_⟩
      · rw [h6]; conv => rhs; unfold restCount
        rw [if_neg (by omega)]
        have : T - (w + 32761) = T - w - (BS - H) := by omega
        rw [this]; omega
      · rw [h7, b7]; conv => rhs; unfold restSegs
        rw [if_neg (by omega), if_neg (by omega)]
        simp only [hBS, hH, List.append_assoc, List.singleton_append]

theorem loop0_rec (T o : Nat) (hT31 : T < 2^31) (ho7 : o + 7 < 32768) (hT0 : 0 < T)
    (fuel : Nat) (st : WSt) (hT : st.totalSize = T) (hw : st.writtenSize = 0) (ho : st.nextSize = o)
    (hc : st.chunkCount = 0) (hfuel : T < fuel) :
    ∃ st', datafile.writeToBuf.loop0 fuel st = some st' ∧ st'.totalSize = T ∧ st'.nextSize = o ∧
      st'.nextID = st.nextID ∧ st'.pos = st.pos ∧ st'.chunkCount = recCount o T ∧
      st'.segs = st.segs ++ recSegs T o := by
  have hBS := hBS; have hH := hH
  cases fuel with
  | zero => omega
  | succ fuel =>
  obtain ⟨b1, b2, b3, b4, b5, b6, b7⟩ := body0_spec st T 0 o 0 hT hw ho hc hT0 hT31 ho7 (by omega)
  simp only [if_pos, Nat.zero_add] at b2 b4 b7
  unfold datafile.writeToBuf.loop0
  rw [if_pos (by omega)]
  by_cases hl : T ≤ 32768 - o - 7
  · -- a single Full chunk
    rw [Nat.min_eq_left hl] at b2 b7
    refine ⟨datafile.writeToBuf.body0 st, ?_, b1, b3, b5, b6, ?_, ?_⟩
    · cases fuel with
      | zero => omega
      | succ fuel => unfold datafile.writeToBuf.loop0; rw [if_neg (by omega)]
    · rw [b4]; unfold recCount; rw [if_pos (by omega)]
    · rw [b7]; unfold recSegs; rw [if_pos (by omega : T ≤ BS - o - H)]; simp
  · -- First, then Middle … Last
    rw [Nat.min_eq_right (by omega)] at b2 b7
    obtain ⟨st', h1, h2, h3, h4, h5, h6, h7⟩ := loop0_rest T o hT31 ho7 T fuel (datafile.writeToBuf.body0 st)
      (32768 - o - 7) 1 b1 b2 b3 b4 (by omega) (by omega) (by omega) (by omega) (by omega)
    refine ⟨st', h1, h2, h3, by rw [h4, b5], by rw [h5, b6], ?_, ?_⟩
    · rw [h6]; unfold recCount; rw [if_neg (by omega)]; simp only [hBS, hH]
    · rw [h7, b7]; unfold recSegs; rw [if_neg (by omega), if_neg (by omega)]
      simp only [hBS, hH, List.append_assoc, List.singleton_append]

/-! ### the emitted segments, rendered with a codec, are the bytes of the model's `writeRec` -/

/-- bytes of one segment; `none` when a chunk's length field or slice bounds are inconsistent -/
def renderSeg (C : Codec) (data : ByteArray) : Seg → Option ByteArray
  | .pad n => some (zeros n)
  | .chunk t l lo hi =>
    if lo ≤ hi ∧ hi ≤ data.size ∧ l = hi - lo then some (C.enc t (data.extract lo hi)) else none

def render (C : Codec) (data : ByteArray) : List Seg → Option ByteArray
  | [] => some ByteArray.empty
  | s :: r =>
    match renderSeg C data s, render C data r with
    | some a, some b => some (a ++ b)
    | _, _ => none

theorem renderSeg_chunk (C : Codec) (data : ByteArray) (t l lo hi : Nat) (h1 : lo ≤ hi) (h2 : hi ≤ data.size)
    (h3 : l = hi - lo) : renderSeg C data (.chunk t l lo hi) = some (C.enc t (data.extract lo hi)) := by
  simp [renderSeg, h1, h2, h3]

theorem render_cons (C : Codec) (data : ByteArray) (s : Seg) (r : List Seg) (a b : ByteArray)
    (h1 : renderSeg C data s = some a) (h2 : render C data r = some b) :
    render C data (s :: r) = some (a ++ b) := by
  simp [render, h1, h2]

theorem render_rest (C : Codec) (data : ByteArray) :
    ∀ (f w : Nat), w < data.size → data.size - w ≤ f →
      render C data (restSegs data.size f w) = some (restChunks C (data.extract w data.size) f) := by
  intro f
  induction f with
  | zero => intro w h1 h2; omega
  | succ f ih =>
    intro w h1 h2
    have hBS := hBS; have hH := hH
    have hsz : (data.extract w data.size).size = data.size - w := by simp [ByteArray.size_extract]
    unfold restSegs restChunks
    rw [hsz]
    by_cases hl : data.size - w ≤ BS - H
    · rw [if_pos hl, if_pos hl]
      rw [render_cons C data _ _ _ _ (renderSeg_chunk C data _ _ _ _ (by omega) (Nat.le_refl _) rfl) rfl]
      simp
    · rw [if_neg hl, if_neg hl]
      rw [render_cons C data _ _ _ _ (renderSeg_chunk C data _ _ _ _ (by omega) (by omega) (by omega))
        (ih (w + (BS - H)) (by omega) (by omega))]
      simp only [ByteArray.extract_extract]
      have e1 : min (w + (BS - H)) data.size = w + (BS - H) := by omega
      have e2 : min (w + (data.size - w)) data.size = data.size := by omega
      rw [Nat.add_zero, e1, e2]

theorem render_rec (C : Codec) (data : ByteArray) (o : Nat) (ho : o + H < BS) (hd : 0 < data.size) :
    render C data (recSegs data.size o) = some (recChunks C data o) := by
  have hBS := hBS; have hH := hH
  unfold recSegs recChunks
  simp only []
  by_cases hl : data.size ≤ BS - o - H
  · rw [if_pos hl, if_pos hl]
    rw [render_cons C data _ _ _ _ (renderSeg_chunk C data 0 data.size 0 data.size (by omega) (Nat.le_refl _) rfl) rfl,
      extract_all _ _ (Nat.le_refl _)]
    simp
  · rw [if_neg hl, if_neg hl]
    rw [render_cons C data _ _ _ _ (renderSeg_chunk C data _ _ _ _ (by omega) (by omega) (by omega))
      (render_rest C data _ _ (by omega) (by omega))]

theorem zeros_zero : zeros 0 = ByteArray.empty := rfl

theorem restCount_le (fuel : Nat) : ∀ m, restCount m fuel ≤ m / 32761 + 1 := by
  have hBS := hBS; have hH := hH
  induction fuel with
  | zero => intro m; simp only [restCount]; omega
  | succ f ih =>
    intro m
    unfold restCount
    have e : BS - H = 32761 := by omega
    rw [e]
    split
    · omega
    · have := ih (m - 32761)
      omega

theorem recCount_le (o n : Nat) : recCount o n ≤ n / 32761 + 2 := by
  unfold recCount
  split
  · omega
  · have := restCount_le n (n - (BS - o - H)); omega

/-- the loop from its initial state, in elimination form (the initial state is found by unification) -/
theorem loop0_elim {fuel : Nat} {st : WSt} {r : Option WSt} (h : datafile.writeToBuf.loop0 fuel st = r)
    (hT31 : st.totalSize < 2^31) (ho7 : st.nextSize + 7 < 32768) (hw : st.writtenSize = 0)
    (hc : st.chunkCount = 0) (hfuel : st.totalSize < fuel) :
    ∃ st', r = some st' ∧ st'.totalSize = st.totalSize ∧ st'.nextSize = st.nextSize ∧
      st'.nextID = st.nextID ∧ st'.pos = st.pos ∧
      st'.chunkCount = (if st.totalSize = 0 then 0 else recCount st.nextSize st.totalSize) ∧
      st'.segs = st.segs ++ (if st.totalSize = 0 then [] else recSegs st.totalSize st.nextSize) := by
  subst h
  by_cases hT0 : st.totalSize = 0
  · refine ⟨st, ?_, rfl, rfl, rfl, rfl, by simp [hT0, hc], by simp [hT0]⟩
    cases fuel with
    | zero => omega
    | succ fuel => unfold datafile.writeToBuf.loop0; rw [if_neg (by omega)]
  · obtain ⟨st', h1, h2, h3, h4, h5, h6, h7⟩ := loop0_rec st.totalSize st.nextSize hT31 ho7 (by omega) fuel st rfl hw rfl hc hfuel
    exact ⟨st', h1, h2, h3, h4, h5, by rw [if_neg hT0]; exact h6, by rw [if_neg hT0]; exact h7⟩

theorem trans_writeToBuf_eq (C : Codec) (fid blockID blockLen : Nat) (data : ByteArray)
    (hlen : blockLen < 32768) (hdata : data.size < 2^31) (hblk : blockID + data.size / 32761 + 2 < 2^32) :
    ∃ segs,
      datafile.writeToBuf fid data blockID blockLen
        = some (({ Fid := fid, BlockID := (geom (blockID * BS + blockLen) data.size).1,
                   Offset := (geom (blockID * BS + blockLen) data.size).2.1,
                   Size := (geom (blockID * BS + blockLen) data.size).2.2.1 },
                 (geom (blockID * BS + blockLen) data.size).2.2.2 / BS,
                 (geom (blockID * BS + blockLen) data.size).2.2.2 % BS), segs) ∧
      render C data segs = some (writeRec C data blockLen) := by
  have hBS := hBS; have hH := hH
  have hdiv : (blockID * 32768 + blockLen) / 32768 = blockID := by omega
  have hmod : (blockID * 32768 + blockLen) % 32768 = blockLen := by omega
  generalize hr : datafile.writeToBuf fid data blockID blockLen = r
  simp only [datafile.writeToBuf] at hr
  have hTT : ((data.size : Int) % 2 ^ 32).toNat = data.size := by omega
  have hrc := recCount_le (normO blockLen) data.size
  by_cases hT0 : data.size = 0 <;> by_cases hp : blockLen + 7 ≥ 32768
  all_goals
    split at hr
    all_goals rename_i st2 heq
    all_goals simp (disch := (simp only [datafile.blockSize, datafile.chunkHeaderSize]; omega)) only [if_pos, if_neg] at heq
    all_goals obtain ⟨st', h0, h1, h2, h3, h4, h5, h6⟩ := loop0_elim heq (by simp only []; omega) (by simp only []; omega) rfl rfl (by simp only []; omega)
    all_goals simp (disch := omega) only [hTT, if_pos, if_neg, List.nil_append, List.append_nil] at h1 h2 h3 h4 h5 h6
    all_goals cases h0
    all_goals subst hr
    all_goals refine ⟨st2.segs, ?_, ?_⟩
  all_goals first
    | (show render _ _ _ = _
       rw [h6]
       simp (disch := omega) only [writeRec, padOf, normO, hBS, hH, if_pos, if_neg, datafile.blockSize]
       have hpadn : (32768 + 2 ^ 32 - blockLen) % 2 ^ 32 = 32768 - blockLen := by omega
       first
         | (rw [render_rec C data _ (by rw [hBS, hH]; omega) (by omega)]; simp [zeros_zero])
         | (rw [List.singleton_append, render_cons C data _ _ _ _ rfl (render_rec C data _ (by rw [hBS, hH]; omega) (by omega)), hpadn])
         | (rw [hpadn]; rfl)
         | (simp [render, zeros_zero]))
    | (simp (disch := omega) only [Option.some.injEq, Prod.mk.injEq, datafile.DataPos.mk.injEq, and_true, true_and, h1, h2, h3, h4, h5,
        geom, occupied, normB, normO, padOf, hBS, hH, hdiv, hmod, datafile.blockSize, datafile.chunkHeaderSize, if_pos, if_neg] at hrc ⊢
       try simp (disch := omega) only [Nat.mod_eq_of_lt, Nat.zero_add, true_and, and_true]
       omega)

/-- **`writeToBuf` on a real file = the model's `posOf` / `appendRec`**: called with the writer state
    `(f.size / BS, f.size % BS)` of a file `f`, the translated function returns the position the
    model reports, the writer state of the model's new file, and segments whose bytes are exactly
    what the model appends -/
theorem trans_writeToBuf_appendRec (C : Codec) (fid : Nat) (f data : ByteArray)
    (hdata : data.size < 2^31) (hblk : f.size / BS + data.size / 32761 + 2 < 2^32) :
    ∃ segs bytes,
      datafile.writeToBuf fid data (f.size / BS) (f.size % BS)
        = some (({ Fid := fid, BlockID := (posOf C fid f.size data).block,
                   Offset := (posOf C fid f.size data).off, Size := (posOf C fid f.size data).size },
                 (appendRec C f data).size / BS, (appendRec C f data).size % BS), segs) ∧
      render C data segs = some bytes ∧ f ++ bytes = appendRec C f data := by
  have hBS := hBS
  obtain ⟨segs, h1, h2⟩ := trans_writeToBuf_eq C fid (f.size / BS) (f.size % BS) data
    (by have := mod_lt_BS f.size; omega) hdata hblk
  obtain ⟨g1, g2⟩ := posOf_geom C fid f data
  rw [← size_split f.size] at h1
  refine ⟨segs, writeRec C data (f.size % BS), ?_, h2, rfl⟩
  rw [h1, g2, g1]

example (C : Codec) : ∃ segs,
    datafile.writeToBuf 3 (zeros 70000) 5 32765
      = some (({ Fid := 3, BlockID := (geom (5 * BS + 32765) (zeros 70000).size).1,
                 Offset := (geom (5 * BS + 32765) (zeros 70000).size).2.1,
                 Size := (geom (5 * BS + 32765) (zeros 70000).size).2.2.1 },
               (geom (5 * BS + 32765) (zeros 70000).size).2.2.2 / BS,
               (geom (5 * BS + 32765) (zeros 70000).size).2.2.2 % BS), segs) ∧
    render C (zeros 70000) segs = some (writeRec C (zeros 70000) 32765) :=
  trans_writeToBuf_eq C 3 5 32765 (zeros 70000) (by decide) (by simp) (by simp)

end XixiKV.TransEq
