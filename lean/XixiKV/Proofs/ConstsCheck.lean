import XixiKV.Generated.Consts
import XixiKV.Model.Batch
import XixiKV.Model.Index
/-!
Obligation on the constants regenerated from the Go source on every run
(`harness/cmd/extract` → `Generated/Consts.lean`): they are the constants the model is written with.
A change of a constant in /repo makes this `decide` fail.
-/
namespace XixiKV.ConstsCheck
open XixiKV

theorem consts_match :
    Generated.blockSize = Frame.BS ∧ Generated.chunkHeaderSize = Frame.H ∧
    Generated.chunkFull = 0 ∧ Generated.chunkFirst = 1 ∧ Generated.chunkMiddle = 2 ∧ Generated.chunkLast = 3 ∧
    Generated.recNormal = 0 ∧ Generated.recDeleted = 1 ∧ Generated.recBatchFinished = 2 ∧
    Generated.maxLogRecordHeaderSize = 21 ∧ Generated.maxLogRecordPosSize = 25 ∧
    Generated.maxFinRecord = Engine.maxFinRecord ∧ Generated.maxCap = 1024 ∧
    Generated.mmapBlockSize = 536870912 := by decide

end XixiKV.ConstsCheck
