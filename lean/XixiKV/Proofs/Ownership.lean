import XixiKV.Model.Ownership
/-!
# Helper lemmas for C15 (`Model/Ownership.lean`)

The invariant of the all-copy policy is `NoRef`: the engine holds no `.ref` at all and the pool is
empty.  Everything the engine computes from such a state is independent of the heap, apart from the
argument buffers of the call (`engine_rel`); two runs that differ by scribble steps stay in states that
differ in their heaps only (`Rel`, `run_rel`); and the engine's only heap write is the allocation of a
new result buffer (`engine_untouched`).
-/
namespace XixiKV.Ownership

theorem Slot.get_of_isOwn {v : Slot} (h : v.isOwn = true) (hA hB : Heap) : v.get hA = v.get hB := by
  cases v <;> simp_all [Slot.get, Slot.isOwn]

/-! ### the three list functions do not look at the heap when all keys are owned -/

def KeysOwn {α} (l : List (Slot × α)) : Prop := ∀ e ∈ l, e.1.isOwn = true

theorem lookup_heap {α} {l : List (Slot × α)} (hl : KeysOwn l) (hA hB : Heap) (k : Bytes) :
    lookup hA l k = lookup hB l k := by
  induction l with
  | nil => rfl
  | cons e l ih =>
    have h1 := Slot.get_of_isOwn (hl e (List.mem_cons_self ..)) hA hB
    have h2 := ih (fun x hx => hl x (List.mem_cons_of_mem _ hx))
    simp only [lookup, List.find?_cons, h1] at h2 ⊢
    split <;> simp_all

theorem remove_heap {α} {l : List (Slot × α)} (hl : KeysOwn l) (hA hB : Heap) (k : Bytes) :
    remove hA l k = remove hB l k :=
  List.filter_congr fun e he => by rw [Slot.get_of_isOwn (hl e he) hA hB]

theorem setAt_heap {α} {l : List (Slot × α)} (hl : KeysOwn l) (hA hB : Heap) (k : Bytes) (a : α) :
    setAt hA l k a = setAt hB l k a :=
  List.map_congr_left fun e he => by rw [Slot.get_of_isOwn (hl e he) hA hB]

theorem mem_remove {α} {h : Heap} {l : List (Slot × α)} {k : Bytes} {e : Slot × α}
    (he : e ∈ remove h l k) : e ∈ l := (List.mem_filter.1 he).1

theorem mem_setAt {α} {h : Heap} {l : List (Slot × α)} {k : Bytes} {a : α} {e : Slot × α}
    (he : e ∈ setAt h l k a) : e ∈ l ∨ ∃ e' ∈ l, e = (e'.1, a) := by
  obtain ⟨e', he', rfl⟩ := List.mem_map.1 he
  split
  · exact .inr ⟨e', he', rfl⟩
  · exact .inl he'

theorem lookup_mem {α} {h : Heap} {l : List (Slot × α)} {k : Bytes} {a : α}
    (hl : lookup h l k = some a) : ∃ e ∈ l, e.2 = a := by
  simp only [lookup, Option.map_eq_some_iff] at hl
  obtain ⟨e, he, rfl⟩ := hl
  exact ⟨e, List.mem_of_find?_eq_some he, rfl⟩

/-! ### the invariant -/

def OwnStore (st : List (Slot × Slot)) : Prop := ∀ e ∈ st, e.1.isOwn = true ∧ e.2.isOwn = true

def OwnStaged (sg : List (Slot × Option Slot)) : Prop :=
  ∀ e ∈ sg, e.1.isOwn = true ∧ ∀ v, e.2 = some v → v.isOwn = true

/-- the store contains no `.ref`, neither does the batch, and the pool holds nobody's buffer -/
structure NoRef (s : State) : Prop where
  store : OwnStore s.store
  staged : OwnStaged s.staged
  pool : s.pool = none

theorem noRef_iff (s : State) : s.noRef = true ↔ NoRef s := by
  constructor
  · intro h
    simp only [State.noRef, Bool.and_eq_true, List.all_eq_true, Option.isNone_iff_eq_none] at h
    refine ⟨fun e he => h.1.1 e he, fun e he => ⟨(h.1.2 e he).1, fun v hv => ?_⟩, h.2⟩
    have := (h.1.2 e he).2
    rw [hv] at this
    simpa using this
  · intro ⟨h1, h2, h3⟩
    simp only [State.noRef, Bool.and_eq_true, List.all_eq_true, Option.isNone_iff_eq_none]
    refine ⟨⟨fun e he => h1 e he, fun e he => ⟨(h2 e he).1, ?_⟩⟩, h3⟩
    cases hv : e.2 with
    | none => rfl
    | some v => simpa using (h2 e he).2 v hv

theorem OwnStore.keys {st} (h : OwnStore st) : KeysOwn st := fun e he => (h e he).1
theorem OwnStaged.keys {sg} (h : OwnStaged sg) : KeysOwn sg := fun e he => (h e he).1

theorem OwnStore.remove {st} (h : OwnStore st) (hp : Heap) (k : Bytes) : OwnStore (remove hp st k) :=
  fun e he => h e (mem_remove he)

theorem apply_heap (p : Policy) {st : List (Slot × Slot)} (hst : KeysOwn st) {hA hB : Heap}
    {e : Slot × Option Slot} (he : e.1.get hA = e.1.get hB) : apply p hA st e = apply p hB st e := by
  unfold apply
  rw [he, remove_heap hst hA hB]

theorem apply_own {p : Policy} (hp : p.putKeyCopied = true) {st : List (Slot × Slot)} (hst : OwnStore st)
    (h : Heap) {e : Slot × Option Slot} (he : ∀ v, e.2 = some v → v.isOwn = true) :
    OwnStore (apply p h st e) := by
  unfold apply
  split
  · next v hv =>
    intro x hx
    rcases List.mem_cons.1 hx with rfl | hx
    · simpa [hp, Slot.isOwn] using he v hv
    · exact hst.remove _ _ x hx
  · exact hst.remove _ _

theorem foldl_apply {p : Policy} (hp : p.putKeyCopied = true) (hA hB : Heap) :
    ∀ (sg : List (Slot × Option Slot)) (st : List (Slot × Slot)), OwnStaged sg → OwnStore st →
      sg.foldl (apply p hA) st = sg.foldl (apply p hB) st ∧ OwnStore (sg.foldl (apply p hA) st)
  | [], _, _, hst => ⟨rfl, hst⟩
  | e :: sg, st, hsg, hst => by
    have he := hsg e (List.mem_cons_self ..)
    simp only [List.foldl_cons]
    rw [← apply_heap p hst.keys (Slot.get_of_isOwn he.1 hA hB)]
    exact foldl_apply hp hA hB sg _ (fun x hx => hsg x (List.mem_cons_of_mem _ hx)) (apply_own hp hst hA he.2)

theorem parked_none {sg : List (Slot × Option Slot)} (h : OwnStaged sg) : parked sg = none := by
  unfold parked
  rw [List.findSome?_eq_none_iff]
  intro e he
  split
  · next id hid => simpa [Slot.isOwn] using (h e he).2 _ hid
  · rfl

/-! ### two states that differ in their heaps only -/

structure Rel (a b : State) : Prop where
  store : a.store = b.store
  staged : a.staged = b.staged
  next : a.next = b.next
  noRef : NoRef a
  pool : b.pool = none

theorem Rel.refl {s : State} (h : NoRef s) : Rel s s := ⟨rfl, rfl, rfl, h, h.pool⟩

theorem Rel.abs {a b : State} (h : Rel a b) (k : Bytes) : abs a k = abs b k := by
  unfold Ownership.abs
  rw [← h.store, lookup_heap h.noRef.store.keys a.heap b.heap]
  cases hl : lookup b.heap a.store k with
  | none => rfl
  | some v =>
    obtain ⟨e, he, rfl⟩ := lookup_mem hl
    simp [Slot.get_of_isOwn (h.noRef.store e he).2 a.heap b.heap]

/-- the buffers a call passes -/
def Op.bufs : Op → List BufId
  | .put kbuf _ vbuf _ | .bput kbuf _ vbuf _ => [kbuf, vbuf]
  | .get kbuf _ | .delete kbuf _ | .bget kbuf _ | .bdel kbuf _ => [kbuf]
  | .bcommit | .scribble _ _ => []

/-- on entry the argument buffers hold the same bytes whatever the heaps were before -/
theorem enter_bufs (a b : State) (op : Op) : ∀ id ∈ op.bufs, (a.enter op).heap id = (b.enter op).heap id := by
  cases op <;> simp [Op.bufs, State.enter, Heap.write] <;> (try split) <;> simp_all

theorem enter_rel {a b : State} (h : Rel a b) (opa opb : Op) : Rel (a.enter opa) (b.enter opb) := by
  have ha : ∀ s : State, ∀ op, (s.enter op).store = s.store ∧ (s.enter op).staged = s.staged ∧
      (s.enter op).next = s.next ∧ (s.enter op).pool = s.pool := by
    intro s op; cases op <;> simp [State.enter]
  obtain ⟨a1, a2, a3, a4⟩ := ha a opa
  obtain ⟨b1, b2, b3, b4⟩ := ha b opb
  exact ⟨by rw [a1, b1, h.store], by rw [a2, b2, h.staged], by rw [a3, b3, h.next],
    ⟨by rw [a1]; exact h.noRef.store, by rw [a2]; exact h.noRef.staged, by rw [a4]; exact h.noRef.pool⟩,
    by rw [b4]; exact h.pool⟩

theorem OwnStore.setAt {st} (h : OwnStore st) (hp : Heap) (k : Bytes) {v : Slot} (hv : v.isOwn = true) :
    OwnStore (setAt hp st k v) := by
  intro e he
  rcases mem_setAt he with he | ⟨e', he', rfl⟩
  · exact h e he
  · exact ⟨(h e' he').1, hv⟩

theorem OwnStaged.setAt {sg} (h : OwnStaged sg) (hp : Heap) (k : Bytes) {v : Option Slot}
    (hv : ∀ x, v = some x → x.isOwn = true) : OwnStaged (setAt hp sg k v) := by
  intro e he
  rcases mem_setAt he with he | ⟨e', he', rfl⟩
  · exact h e he
  · exact ⟨(h e' he').1, hv⟩

theorem OwnStaged.append {sg} (h : OwnStaged sg) {k : Slot} (hk : k.isOwn = true) {v : Option Slot}
    (hv : ∀ x, v = some x → x.isOwn = true) : OwnStaged (sg ++ [(k, v)]) := by
  intro e he
  rcases List.mem_append.1 he with he | he
  · exact h e he
  · rw [List.mem_singleton] at he
    subst he
    exact ⟨hk, hv⟩

/-! ### the engine's part of a call, on two such states -/

theorem dbGet_rel {p : Policy} (hp : p.getReturnsFresh = true) {a b : State} (h : Rel a b) (k : Bytes) :
    (dbGet p a k).1 = (dbGet p b k).1 ∧ Rel (dbGet p a k).2 (dbGet p b k).2 := by
  unfold dbGet
  rw [← h.store, lookup_heap h.noRef.store.keys a.heap b.heap k]
  cases hl : lookup b.heap a.store k with
  | none => exact ⟨rfl, h⟩
  | some v =>
    obtain ⟨e, he, rfl⟩ := lookup_mem hl
    have hv := (h.noRef.store e he).2
    simp only [hand, hp, if_true]
    refine ⟨by rw [Slot.get_of_isOwn hv a.heap b.heap, h.next], ?_, h.staged, by simp [h.next], ⟨?_, h.noRef.staged, h.noRef.pool⟩, h.pool⟩
    · exact setAt_heap h.noRef.store.keys _ _ _ _
    · exact h.noRef.store.setAt _ _ hv

theorem engine_rel {p : Policy} (hp : p.copies = true) {a b : State} (h : Rel a b) (op : Op)
    (hargs : ∀ id ∈ op.bufs, a.heap id = b.heap id) :
    (engine p a op).1 = (engine p b op).1 ∧ Rel (engine p a op).2 (engine p b op).2 := by
  simp only [Policy.copies, Bool.and_eq_true] at hp
  obtain ⟨⟨⟨⟨⟨⟨p1, p2⟩, p3⟩, p4⟩, p5⟩, p6⟩, p7⟩ := hp
  have h0 := h
  obtain ⟨hA, n, st, sg, pa⟩ := a
  obtain ⟨hB, n', st', sg', pb⟩ := b
  obtain ⟨h1, h2, h3, ⟨hst, hsg, hpa⟩, hpb⟩ := h
  dsimp only at h1 h2 h3 hst hsg hpa hpb hargs
  subst h1 h2 h3 hpa hpb
  cases op with
  | put kbuf k vbuf v =>
    have hk : hA kbuf = hB kbuf := hargs _ (by simp [Op.bufs])
    have hv : hA vbuf = hB vbuf := hargs _ (by simp [Op.bufs])
    simp only [engine, keep, p2, if_true, hv]
    refine ⟨trivial, apply_heap p hst.keys (e := (.ref kbuf, some (.own (hB vbuf)))) hk, rfl, rfl, ⟨?_, hsg, rfl⟩, rfl⟩
    exact apply_own p1 hst _ (e := (.ref kbuf, some (.own (hB vbuf)))) (by simp [Slot.isOwn])
  | get kbuf k =>
    have hk : hA kbuf = hB kbuf := hargs _ (by simp [Op.bufs])
    simp only [engine, hk]
    exact dbGet_rel p6 h0 _
  | delete kbuf k =>
    have hk : hA kbuf = hB kbuf := hargs _ (by simp [Op.bufs])
    simp only [engine, hk]
    exact ⟨trivial, remove_heap hst.keys _ _ _, rfl, rfl, ⟨hst.remove _ _, hsg, rfl⟩, rfl⟩
  | bput kbuf k vbuf v =>
    have hk : hA kbuf = hB kbuf := hargs _ (by simp [Op.bufs])
    have hv : hA vbuf = hB vbuf := hargs _ (by simp [Op.bufs])
    simp only [engine, keep, p3, p4, p5, if_true, hk, hv, lookup_heap hsg.keys hA hB]
    split
    · exact ⟨rfl, rfl, rfl, rfl, ⟨hst, hsg.append rfl (by simp [Slot.isOwn]), rfl⟩, rfl⟩
    · exact ⟨rfl, rfl, setAt_heap hsg.keys _ _ _ _, rfl, ⟨hst, hsg.setAt _ _ (by simp [Slot.isOwn]), rfl⟩, rfl⟩
  | bget kbuf k =>
    have hk : hA kbuf = hB kbuf := hargs _ (by simp [Op.bufs])
    simp only [engine, hk, lookup_heap hsg.keys hA hB]
    cases hl : lookup hB sg (hB kbuf) with
    | none => exact dbGet_rel p6 h0 _
    | some ov =>
      cases ov with
      | none => exact ⟨rfl, h0⟩
      | some v =>
        obtain ⟨e, he, hev⟩ := lookup_mem hl
        have hv : v.isOwn = true := (hsg e he).2 v hev
        simp only [hand, p7, if_true]
        exact ⟨by rw [Slot.get_of_isOwn hv hA hB], rfl, setAt_heap hsg.keys _ _ _ _, rfl,
          ⟨hst, hsg.setAt _ _ (by simpa using hv), rfl⟩, rfl⟩
  | bdel kbuf k =>
    have hk : hA kbuf = hB kbuf := hargs _ (by simp [Op.bufs])
    simp only [engine, keep, p3, if_true, hk, lookup_heap hsg.keys hA hB, lookup_heap hst.keys hA hB]
    split
    · exact ⟨rfl, rfl, setAt_heap hsg.keys _ _ _ _, rfl, ⟨hst, hsg.setAt _ _ (by simp), rfl⟩, rfl⟩
    · split
      · exact ⟨rfl, h0⟩
      · exact ⟨rfl, rfl, rfl, rfl, ⟨hst, hsg.append rfl (by simp), rfl⟩, rfl⟩
  | bcommit =>
    simp only [engine, parked_none hsg, Option.or_none, ite_self]
    have := foldl_apply p1 hA hB sg st hsg hst
    exact ⟨trivial, this.1, rfl, rfl, ⟨this.2, (fun e he => by cases he), rfl⟩, rfl⟩
  | scribble id x => exact ⟨rfl, h0⟩

/-! ### runs -/

theorem run_cons (p : Policy) (s : State) (op : Op) (ops : List Op) :
    run p s (op :: ops) =
      (if op.isScribble then (run p (step p s op).2 ops).1 else (step p s op).1 :: (run p (step p s op).2 ops).1,
       (run p (step p s op).2 ops).2) := rfl

theorem step_scribble (p : Policy) (s : State) {op : Op} (h : op.isScribble = true) :
    (step p s op).2 = s.enter op := by
  cases op <;> simp_all [Op.isScribble, step, engine]

/-- two runs that differ by scribble steps only: same results, and final states that differ in their
    heaps only -/
theorem run_rel {p : Policy} (hp : p.copies = true) : ∀ (ops : List Op) {a b : State}, Rel a b →
    (run p a ops).1 = (run p b (unscribbled ops)).1 ∧ Rel (run p a ops).2 (run p b (unscribbled ops)).2
  | [], _, _, h => ⟨rfl, h⟩
  | op :: ops, a, b, h => by
    cases hs : op.isScribble with
    | true =>
      have hb : unscribbled (op :: ops) = unscribbled ops := by simp [unscribbled, hs]
      rw [hb, run_cons, hs, step_scribble p a hs]
      exact run_rel hp ops (enter_rel h op .bcommit)
    | false =>
      have hb : unscribbled (op :: ops) = op :: unscribbled ops := by simp [unscribbled, hs]
      have h1 : (step p a op).1 = (step p b op).1 ∧ Rel (step p a op).2 (step p b op).2 :=
        engine_rel hp (enter_rel h op op) op (enter_bufs a b op)
      have h2 := run_rel hp ops h1.2
      rw [hb, run_cons, run_cons, hs]
      exact ⟨by simp only [Bool.false_eq_true, if_false]; rw [h2.1, h1.1], h2.2⟩

theorem noRef_init : NoRef init :=
  ⟨fun _ h => absurd h List.not_mem_nil, fun _ h => absurd h List.not_mem_nil, rfl⟩

/-- every state reached under an all-copy policy holds no alias -/
theorem run_noRef {p : Policy} (hp : p.copies = true) {s : State} (h : NoRef s) (ops : List Op) :
    NoRef (run p s ops).2 := (run_rel hp ops (Rel.refl h)).2.noRef

/-! ### the engine's only heap write is the allocation of a result buffer -/

theorem live_ne_next {s : State} {id : BufId} (h : s.live id = true) : id ≠ .ret s.next := by
  rintro rfl
  simp [State.live] at h

theorem engine_untouched {p : Policy} (hp : p.copies = true) {s : State} (hpool : s.pool = none) (op : Op)
    {id : BufId} (hid : s.live id = true) : (engine p s op).2.heap id = s.heap id := by
  simp only [Policy.copies, Bool.and_eq_true] at hp
  have hne := live_ne_next hid
  have hget : ∀ k, (dbGet p s k).2.heap id = s.heap id := by
    intro k
    simp only [dbGet, hand, hp.1.2, if_true]
    split <;> simp [Heap.write, hne]
  cases op with
  | put kbuf k vbuf v => simp only [engine, hpool]
  | get kbuf k => exact hget _
  | bget kbuf k =>
    simp only [engine, hand, hp.2, if_true]
    split
    · rfl
    · simp [Heap.write, hne]
    · exact hget _
  | bput kbuf k vbuf v => simp only [engine]; split <;> rfl
  | bdel kbuf k => simp only [engine]; split <;> (try split) <;> rfl
  | _ => rfl

/-! ### the caller's own buffers hold exactly what the caller wrote -/

theorem enter_heap_congr {s t : State} {id : BufId} (h : s.heap id = t.heap id) (op : Op) :
    (s.enter op).heap id = (t.enter op).heap id := by
  cases op <;> simp only [State.enter, Heap.write] <;> (repeat' split) <;> first | rfl | exact h

theorem foldl_enter_congr {id : BufId} : ∀ (ops : List Op) {s t : State}, s.heap id = t.heap id →
    (ops.foldl State.enter s).heap id = (ops.foldl State.enter t).heap id
  | [], _, _, h => h
  | op :: ops, _, _, h => foldl_enter_congr ops (enter_heap_congr h op)

theorem step_noRef {p : Policy} (hp : p.copies = true) {s : State} (h : NoRef s) (op : Op) :
    NoRef (step p s op).2 :=
  (engine_rel hp (enter_rel (Rel.refl h) op op) op (fun _ _ => rfl)).2.noRef

theorem run_callerHeap {p : Policy} (hp : p.copies = true) (n : Nat) : ∀ (ops : List Op) {s : State}, NoRef s →
    (run p s ops).2.heap (.arg n) = (ops.foldl State.enter s).heap (.arg n)
  | [], _, _ => rfl
  | op :: ops, s, h => by
    rw [run_cons, List.foldl_cons]
    show (run p (step p s op).2 ops).2.heap (.arg n) = _
    rw [run_callerHeap hp n ops (step_noRef hp h op)]
    exact foldl_enter_congr ops (engine_untouched hp (enter_rel (Rel.refl h) op op).noRef.pool op rfl)

end XixiKV.Ownership
