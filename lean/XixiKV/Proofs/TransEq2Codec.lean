import XixiKV.Proofs.TransEqBase
import XixiKV.Proofs.Record
/-! # translated record / hint codecs = model (split out of `TransEq2.lean`) -/
namespace XixiKV.TransEq
open XixiKV XixiKV.Generated.Trans XixiKV.Frame XixiKV.Varint XixiKV.Record

/-! ## the varint primitives of the prelude and the model's `Varint` functions -/

/-- the model looks at a window of at most `k` bytes, Go's `Uvarint` at the whole rest of the buffer:
    whenever the window suffices to decode a varint (`n ≠ 0`), the rest gives the same result -/
theorem uvarintGo_take : ∀ (l : List UInt8) (k i s x v n : Nat),
    uvarintGo (l.take k) i s x = some (v, n) → n ≠ 0 → uvarintGo l i s x = some (v, n)
  | [], k, i, s, x, v, n, h, _ => by simpa using h
  | b :: bs, 0, i, s, x, v, n, h, hn => by
    simp only [List.take_zero, uvarintGo, Option.some.injEq, Prod.mk.injEq] at h
    omega
  | b :: bs, k+1, i, s, x, v, n, h, hn => by
    simp only [List.take_succ_cons, uvarintGo] at h ⊢
    split
    · rename_i h10; rw [if_pos h10] at h; exact h
    · rename_i h10; rw [if_neg h10] at h
      split
      · rename_i hb; rw [if_pos hb] at h; exact h
      · rename_i hb; rw [if_neg hb] at h
        exact uvarintGo_take bs k _ _ _ v n h hn

theorem toList_extract_to_end (data : ByteArray) (k : Nat) :
    (data.extract k data.size).data.toList = data.data.toList.drop k := by
  rw [ByteArray.data_extract, Array.toList_extract, List.extract_eq_take_drop]
  apply List.take_of_length_le
  rw [List.length_drop, Array.length_toList]
  exact Nat.le_refl _

/-- `binary.Uvarint(data[k:])` where the model decodes a varint in the 10-byte window at `k` -/
theorem Uvarint_at {data : ByteArray} {k v n : Nat} (h : uvarint (window data k 10) = some (v, n)) (hn : n ≠ 0)
    (i : Int) (hi : i = (k : Int)) :
    binary_Uvarint (data.extract i.toNat data.size) = (v, (n : Int)) := by
  subst hi
  rw [Int.toNat_natCast]
  unfold binary_Uvarint
  rw [toList_extract_to_end]
  rw [window_eq] at h
  unfold uvarint at h ⊢
  rw [uvarintGo_take _ _ _ _ _ _ _ h hn]

/-- `binary.Varint(data[k:])` where the model decodes a non-negative varint in the window at `k` -/
theorem Varint_at {data : ByteArray} {k v n : Nat} (h : varintNat (window data k 10) = some (v, n)) (hn : n ≠ 0)
    (i : Int) (hi : i = (k : Int)) :
    binary_Varint (data.extract i.toNat data.size) = ((v : Int), (n : Int)) := by
  unfold varintNat at h
  split at h
  · rename_i ux m hu
    split at h
    · rename_i heven
      simp only [Option.some.injEq, Prod.mk.injEq] at h
      obtain ⟨h1, h2⟩ := h
      subst h1 h2
      unfold binary_Varint
      rw [Uvarint_at hu hn i hi]
      simp only [if_pos heven]
    · cases h
  · cases h

/-- a decoded varint is at most 10 bytes long and below 2^64 -/
theorem uvarintGo_bound : ∀ (l : List UInt8) (i s x v n : Nat),
    uvarintGo l i s x = some (v, n) → i ≤ 10 → n ≤ 10
  | [], i, s, x, v, n, h, _ => by
    simp only [uvarintGo, Option.some.injEq, Prod.mk.injEq] at h; omega
  | b :: bs, i, s, x, v, n, h, hi => by
    simp only [uvarintGo] at h
    split at h
    · cases h
    · split at h
      · split at h
        · cases h
        · simp only [Option.some.injEq, Prod.mk.injEq] at h; omega
      · exact uvarintGo_bound bs _ _ _ v n h (by omega)

/-- `PutUvarint` writes the model's bytes -/
theorem PutUvarint_eq (x : Nat) : binary_PutUvarint x = ofList (putUvarint x) := rfl
/-- `PutVarint` of a non-negative `int64` writes the model's zig-zag bytes -/
theorem PutVarint_eq (n : Nat) : binary_PutVarint (n : Int) = ofList (putVarintNat n) := by
  unfold binary_PutVarint putVarintNat
  rw [if_pos (by omega), PutUvarint_eq]
  congr 2

/-! ## byte-buffer primitives -/

@[simp] theorem size_mkBytes (n : Nat) : (mkBytes n).size = n := by simp [mkBytes, ByteArray.size]

/-- `make` + `copy` of an in-bounds sub-slice is `extract` (the indices are Go `int`s) -/
theorem copy_fresh (data : ByteArray) (N A B : Int) (a n : Nat) (hN : N = n) (hA : A = a) (hB : B = a + n)
    (hle : a + n ≤ data.size) :
    copySlice (mkBytes N.toNat) (data.extract A.toNat B.toNat) = data.extract a (a + n) := by
  subst hN hA
  have hB' : B.toNat = a + n := by omega
  rw [hB', Int.toNat_natCast, Int.toNat_natCast]
  unfold copySlice
  have hs : (data.extract a (a + n)).size = n := by rw [ByteArray.size_extract]; omega
  rw [size_mkBytes, hs, extract_all _ _ (by omega), extract_ge_size (mkBytes n) n n (by rw [size_mkBytes]; exact Nat.le_refl _)]
  simp

theorem empty_eq_extract (data : ByteArray) (a n : Nat) (hn : n = 0) : ByteArray.empty = data.extract a (a + n) := by
  subst hn
  exact (ByteArray.extract_eq_empty_iff.2 (by omega)).symm

/-! ## `DecodeLogRecord`, `DecodeLogRecordValue` -/

/-- what `decodeHeader = some h` says about the three varints -/
theorem decodeHeader_some {data : ByteArray} {h : Header} (hh : decodeHeader data = some h) :
    ∃ n1 n2 n3, n1 ≠ 0 ∧ n2 ≠ 0 ∧ n3 ≠ 0 ∧
      varintNat (window data 1 10) = some (h.ksize, n1) ∧
      varintNat (window data (1 + n1) 10) = some (h.vsize, n2) ∧
      uvarint (window data (1 + n1 + n2) 10) = some (h.batch, n3) ∧
      h.typ = (data.get! 0).toNat ∧ h.hlen = 1 + n1 + n2 + n3 := by
  unfold decodeHeader at hh
  split at hh
  · cases hh
  · split at hh
    · cases hh
    · rename_i ks n1 h1
      split at hh
      · cases hh
      · rename_i hn1
        split at hh
        · cases hh
        · rename_i vs n2 h2
          split at hh
          · cases hh
          · rename_i hn2
            split at hh
            · cases hh
            · rename_i b n3 h3
              split at hh
              · cases hh
              · rename_i hn3
                cases hh
                exact ⟨n1, n2, n3, hn1, hn2, hn3, h1, h2, h3, rfl, rfl⟩

/-- the Go struct of a model record (`nil` and empty slices are both the empty `ByteArray`) -/
def goRecord (r : Record) : datafile.LogRecord :=
  { Type_ := r.typ, Key := r.key, Value := r.value, BatchID := r.batch }

theorem trans_DecodeLogRecord_eq (data : ByteArray) (r : Record) (hsz : data.size < 2^63)
    (h : decodeRecord data = some r) : datafile.DecodeLogRecord data = goRecord r := by
  unfold decodeRecord at h
  split at h
  · cases h
  · rename_i hd hh
    split at h
    · cases h
    · rename_i hfit
      cases h
      obtain ⟨n1, n2, n3, hn1, hn2, hn3, h1, h2, h3, ht, hl⟩ := decodeHeader_some hh
      have v1 := Varint_at h1 hn1
      have v2 := Varint_at h2 hn2
      have v3 := Uvarint_at h3 hn3
      unfold goRecord
      by_cases hk0 : hd.ksize = 0 <;> by_cases hv0 : hd.vsize = 0
      all_goals simp (disch := omega) only [datafile.DecodeLogRecord, v1, v2, v3, i64_of_range, if_pos, if_neg]
      all_goals
        rw [datafile.LogRecord.mk.injEq]
        refine ⟨ht.symm, ?_, ?_, rfl⟩ <;>
          first
          | exact copy_fresh data _ _ _ _ _ (by omega) (by omega) (by omega) (by omega)
          | exact empty_eq_extract _ _ _ (by omega)

/-- consequence (with `decodeRecord_encodeRecord`): the translated Go decoder reads back every record
    the model encoder writes -/
theorem trans_DecodeLogRecord_enc (r : Record) (ht : r.typ < 256) (hk : r.key.size < 2 ^ 31)
    (hv : r.value.size < 2 ^ 31) (hb : r.batch < 2 ^ 64) :
    datafile.DecodeLogRecord (encodeRecord r) = goRecord r := by
  have := encodeRecord_header_le r hk hv hb
  exact trans_DecodeLogRecord_eq _ r (by omega) (decodeRecord_encodeRecord r ht hk hv hb)

example : datafile.DecodeLogRecord (encodeRecord ⟨1, ⟨#[0x6b, 0x31]⟩, ⟨#[0x76]⟩, 300⟩)
    = { Type_ := 1, Key := ⟨#[0x6b, 0x31]⟩, Value := ⟨#[0x76]⟩, BatchID := 300 } :=
  trans_DecodeLogRecord_enc ⟨1, ⟨#[0x6b, 0x31]⟩, ⟨#[0x76]⟩, 300⟩ (by decide) (by decide) (by decide) (by decide)

theorem trans_DecodeLogRecordValue_eq (data : ByteArray) (v : ByteArray) (hsz : data.size < 2^63)
    (h : decodeValue data = some v) : datafile.DecodeLogRecordValue data = v := by
  unfold decodeValue at h
  split at h
  · cases h
  · rename_i hd hh
    split at h
    · cases h
    · rename_i hfit
      cases h
      obtain ⟨n1, n2, n3, hn1, hn2, hn3, h1, h2, h3, ht, hl⟩ := decodeHeader_some hh
      have v1 := Varint_at h1 hn1
      have v2 := Varint_at h2 hn2
      have v3 := Uvarint_at h3 hn3
      by_cases hv0 : hd.vsize = 0
      all_goals simp (disch := omega) only [datafile.DecodeLogRecordValue, v1, v2, v3, i64_of_range, if_pos, if_neg]
      all_goals first
        | exact copy_fresh data _ _ _ _ _ (by omega) (by omega) (by omega) (by omega)
        | exact empty_eq_extract _ _ _ (by omega)

theorem trans_DecodeLogRecordValue_enc (r : Record) (ht : r.typ < 256) (hk : r.key.size < 2 ^ 31)
    (hv : r.value.size < 2 ^ 31) (hb : r.batch < 2 ^ 64) :
    datafile.DecodeLogRecordValue (encodeRecord r) = r.value := by
  have := encodeRecord_header_le r hk hv hb
  exact trans_DecodeLogRecordValue_eq _ _ (by omega) (decodeValue_encodeRecord r ht hk hv hb)

example : datafile.DecodeLogRecordValue (encodeRecord ⟨0, ⟨#[0x6b, 0x31]⟩, ⟨#[0x76, 0x77]⟩, 0⟩) = ⟨#[0x76, 0x77]⟩ :=
  trans_DecodeLogRecordValue_enc ⟨0, ⟨#[0x6b, 0x31]⟩, ⟨#[0x76, 0x77]⟩, 0⟩ (by decide) (by decide) (by decide) (by decide)

/-! ## `DecodeHintRecord` -/

theorem decodeHint_some {buf key : ByteArray} {p : Pos} (hh : decodeHint buf = some (key, p)) :
    ∃ fid blk off sz n1 n2 n3 n4, n1 ≠ 0 ∧ n2 ≠ 0 ∧ n3 ≠ 0 ∧ n4 ≠ 0 ∧
      uvarint (window buf 0 10) = some (fid, n1) ∧
      uvarint (window buf n1 10) = some (blk, n2) ∧
      uvarint (window buf (n1 + n2) 10) = some (off, n3) ∧
      uvarint (window buf (n1 + n2 + n3) 10) = some (sz, n4) ∧
      key = buf.extract (n1 + n2 + n3 + n4) buf.size ∧
      p = { fid := fid % 2^32, block := blk % 2^32, off := off % 2^32, size := sz % 2^32 } := by
  unfold decodeHint at hh
  split at hh
  · cases hh
  · rename_i fid n1 h1
    split at hh
    · cases hh
    · rename_i hn1
      split at hh
      · cases hh
      · rename_i blk n2 h2
        split at hh
        · cases hh
        · rename_i hn2
          split at hh
          · cases hh
          · rename_i off n3 h3
            split at hh
            · cases hh
            · rename_i hn3
              split at hh
              · cases hh
              · rename_i sz n4 h4
                split at hh
                · cases hh
                · rename_i hn4
                  cases hh
                  exact ⟨fid, blk, off, sz, n1, n2, n3, n4, hn1, hn2, hn3, hn4, h1, h2, h3, h4, rfl, rfl⟩

/-- the Go struct of a model position -/
def goPos (p : Pos) : datafile.DataPos := { Fid := p.fid, BlockID := p.block, Offset := p.off, Size := p.size }

theorem trans_DecodeHintRecord_eq (buf key : ByteArray) (p : Pos)
    (h : decodeHint buf = some (key, p)) : datafile.DecodeHintRecord buf = (key, goPos p) := by
  obtain ⟨fid, blk, off, sz, n1, n2, n3, n4, hn1, hn2, hn3, hn4, h1, h2, h3, h4, hkey, hp⟩ := decodeHint_some h
  have b1 := uvarintGo_bound _ _ _ _ _ _ h1 (by omega)
  have b2 := uvarintGo_bound _ _ _ _ _ _ h2 (by omega)
  have b3 := uvarintGo_bound _ _ _ _ _ _ h3 (by omega)
  have b4 := uvarintGo_bound _ _ _ _ _ _ h4 (by omega)
  have v1 := Uvarint_at h1 hn1
  have v2 := Uvarint_at h2 hn2
  have v3 := Uvarint_at h3 hn3
  have v4 := Uvarint_at h4 hn4
  subst hkey hp
  unfold goPos
  simp (disch := omega) only [datafile.DecodeHintRecord, v1, v2, v3, v4, i64_of_range]
  rw [Prod.mk.injEq]
  refine ⟨?_, rfl⟩
  congr 1
  omega

theorem trans_DecodeHintRecord_enc (key : ByteArray) (p : Pos) (h1 : p.fid < 2 ^ 32) (h2 : p.block < 2 ^ 32)
    (h3 : p.off < 2 ^ 32) (h4 : p.size < 2 ^ 32) :
    datafile.DecodeHintRecord (encodeHint key p) = (key, goPos p) :=
  trans_DecodeHintRecord_eq _ _ _ (decodeHint_encodeHint key p h1 h2 h3 h4)

example : datafile.DecodeHintRecord (encodeHint ⟨#[0x6b]⟩ ⟨3, 70000, 5, 300⟩)
    = (⟨#[0x6b]⟩, { Fid := 3, BlockID := 70000, Offset := 5, Size := 300 }) :=
  trans_DecodeHintRecord_enc ⟨#[0x6b]⟩ ⟨3, 70000, 5, 300⟩ (by decide) (by decide) (by decide) (by decide)

/-! ## `EncodeLogRecord`, `EncodeHintRecord` -/

/-- buffer `b` has `n` bytes and starts with the bytes `p` -/
def Pre (b p : ByteArray) (n : Nat) : Prop := b.size = n ∧ p.size ≤ n ∧ b.extract 0 p.size = p

theorem pre_empty (b : ByteArray) : Pre b ByteArray.empty b.size :=
  ⟨rfl, by simp, ByteArray.extract_eq_empty_iff.2 (by simp)⟩

theorem size_putAt (b s : ByteArray) (k : Nat) (h : k + s.size ≤ b.size) : (putAt b k s).size = b.size := by
  unfold putAt
  simp only [ByteArray.size_append, ByteArray.size_extract]
  omega

/-- writing `s` right behind the prefix `p` (at an index `k` that equals `p.size`) extends the prefix -/
theorem pre_putAt {b p s : ByteArray} {k n : Nat} (hpre : Pre b p n) (hk : k = p.size) (hfit : p.size + s.size ≤ n) :
    Pre (putAt b k s) (p ++ s) n := by
  obtain ⟨h0, h1, h2⟩ := hpre
  subst hk h0
  refine ⟨size_putAt _ _ _ hfit, by rw [ByteArray.size_append]; exact hfit, ?_⟩
  unfold putAt
  rw [h2, ByteArray.extract_append, extract_all (p ++ s) _ (Nat.le_refl _),
    ByteArray.extract_eq_empty_iff.2 (by omega)]
  simp

theorem pre_extract {b p : ByteArray} {j n : Nat} (hpre : Pre b p n) (hj : j = p.size) : b.extract 0 j = p := by
  subst hj; exact hpre.2.2

theorem ofList_cons (t : UInt8) (l : List UInt8) : ofList (t :: l) = ByteArray.mk #[t] ++ ofList l := by
  apply ByteArray.ext; simp [ofList, ByteArray.data_append]
theorem ofList_append (l m : List UInt8) : ofList (l ++ m) = ofList l ++ ofList m := by
  apply ByteArray.ext; simp [ofList, ByteArray.data_append]

theorem trans_EncodeLogRecord_eq (r : Record) (header : ByteArray)
    (hk : r.key.size < 2^63) (hv : r.value.size < 2^63) (hb : r.batch < 2^64)
    (hfit : (headerBytes r).size ≤ header.size) :
    datafile.EncodeLogRecord (goRecord r) header = encodeRecord r := by
  rw [size_headerBytes] at hfit
  have hsz1 : (binary_PutVarint (r.key.size : Int)).size = (putVarintNat r.key.size).length := by
    rw [PutVarint_eq, size_ofList]
  have hsz2 : (binary_PutVarint (r.value.size : Int)).size = (putVarintNat r.value.size).length := by
    rw [PutVarint_eq, size_ofList]
  have hsz3 : (binary_PutUvarint r.batch).size = (putUvarint r.batch).length := by
    rw [PutUvarint_eq, size_ofList]
  have l1 : (putVarintNat r.key.size).length ≤ 10 := putUvarint_length_le _ (by omega)
  have l2 : (putVarintNat r.value.size).length ≤ 10 := putUvarint_length_le _ (by omega)
  have l3 := putUvarint_length_le r.batch hb
  simp (disch := omega) only [datafile.EncodeLogRecord, goRecord, hsz1, hsz2, hsz3, i64_of_range, ByteArray.empty_append]
  have hP : encodeRecord r = ((((ByteArray.empty ++ ByteArray.mk #[UInt8.ofNat r.typ]) ++ binary_PutVarint (r.key.size : Int))
      ++ binary_PutVarint (r.value.size : Int)) ++ binary_PutUvarint r.batch) ++ r.key ++ r.value := by
    rw [PutVarint_eq, PutVarint_eq, PutUvarint_eq, encodeRecord, ofList_cons, ofList_append, ofList_append]
    simp only [ByteArray.empty_append, ByteArray.append_assoc]
  rw [hP]
  congr 2
  have hT : (ByteArray.mk #[UInt8.ofNat r.typ]).size = 1 := rfl
  refine pre_extract (pre_putAt (pre_putAt (pre_putAt (pre_putAt (pre_empty header) ?_ ?_) ?_ ?_) ?_ ?_) ?_ ?_) ?_
  all_goals simp only [ByteArray.size_append, ByteArray.size_empty, hT, hsz1, hsz2, hsz3]
  all_goals omega

/-- with the engine's 21-byte header buffer (`MaxLogRecordHeaderSize`) and key / value sizes below 2^31
    (5-byte varints) the header always fits -/
theorem trans_EncodeLogRecord_eq21 (r : Record) (header : ByteArray)
    (hk : r.key.size < 2^31) (hv : r.value.size < 2^31) (hb : r.batch < 2^64)
    (hfit : datafile.MaxLogRecordHeaderSize ≤ header.size) :
    datafile.EncodeLogRecord (goRecord r) header = encodeRecord r := by
  have h63 : (2:Nat) ^ 31 ≤ 2 ^ 63 := by decide
  have h32 : (2:Nat) ^ 32 = 2 * 2 ^ 31 := by decide
  have p1 := putUvarint_length_le5 (2 * r.key.size) (by omega)
  have p2 := putUvarint_length_le5 (2 * r.value.size) (by omega)
  have p3 := putUvarint_length_le r.batch hb
  refine trans_EncodeLogRecord_eq r header (by omega) (by omega) hb ?_
  rw [size_headerBytes]
  unfold putVarintNat
  simp only [datafile.MaxLogRecordHeaderSize] at hfit
  omega

example : datafile.EncodeLogRecord { Type_ := 1, Key := ⟨#[0x6b, 0x31]⟩, Value := ⟨#[0x76]⟩, BatchID := 300 } (mkBytes 21)
    = encodeRecord ⟨1, ⟨#[0x6b, 0x31]⟩, ⟨#[0x76]⟩, 300⟩ :=
  trans_EncodeLogRecord_eq21 ⟨1, ⟨#[0x6b, 0x31]⟩, ⟨#[0x76]⟩, 300⟩ (mkBytes 21) (by decide) (by decide)
    (by decide) (by simp)

/-- encode with the translated Go encoder, decode with the translated Go decoder -/
theorem trans_Decode_Encode (r : Record) (header : ByteArray) (ht : r.typ < 256)
    (hk : r.key.size < 2^31) (hv : r.value.size < 2^31) (hb : r.batch < 2^64) (hfit : 21 ≤ header.size) :
    datafile.DecodeLogRecord (datafile.EncodeLogRecord (goRecord r) header) = goRecord r := by
  rw [trans_EncodeLogRecord_eq21 r header hk hv hb hfit, trans_DecodeLogRecord_enc r ht hk hv hb]

theorem trans_EncodeHintRecord_eq (key : ByteArray) (p : Pos) (hintPos : ByteArray)
    (h1 : p.fid < 2^32) (h2 : p.block < 2^32) (h3 : p.off < 2^32) (h4 : p.size < 2^32)
    (hfit : (putUvarint p.fid).length + (putUvarint p.block).length + (putUvarint p.off).length
      + (putUvarint p.size).length ≤ hintPos.size) :
    datafile.EncodeHintRecord key (goPos p) hintPos = encodeHint key p := by
  have h64 : (2:Nat) ^ 32 ≤ 2 ^ 64 := by decide
  have hsz : ∀ x, (binary_PutUvarint x).size = (putUvarint x).length := fun x => by rw [PutUvarint_eq, size_ofList]
  have l1 := putUvarint_length_le p.fid (by omega)
  have l2 := putUvarint_length_le p.block (by omega)
  have l3 := putUvarint_length_le p.off (by omega)
  have l4 := putUvarint_length_le p.size (by omega)
  simp (disch := omega) only [datafile.EncodeHintRecord, goPos, hsz, i64_of_range, ByteArray.empty_append]
  have hP : encodeHint key p = ((((ByteArray.empty ++ binary_PutUvarint p.fid) ++ binary_PutUvarint p.block)
      ++ binary_PutUvarint p.off) ++ binary_PutUvarint p.size) ++ key := by
    rw [PutUvarint_eq, PutUvarint_eq, PutUvarint_eq, PutUvarint_eq, encodeHint, ofList_append, ofList_append, ofList_append]
    simp only [ByteArray.empty_append, ByteArray.append_assoc]
  rw [hP]
  congr 1
  refine pre_extract (pre_putAt (pre_putAt (pre_putAt (pre_putAt (pre_empty hintPos) ?_ ?_) ?_ ?_) ?_ ?_) ?_ ?_) ?_
  all_goals simp only [ByteArray.size_append, ByteArray.size_empty, hsz]
  all_goals omega

/-- with the engine's 25-byte position buffer (`MaxLogRecordPosSize`) the four varints always fit -/
theorem trans_EncodeHintRecord_eq25 (key : ByteArray) (p : Pos) (hintPos : ByteArray)
    (h1 : p.fid < 2^32) (h2 : p.block < 2^32) (h3 : p.off < 2^32) (h4 : p.size < 2^32)
    (hfit : 20 ≤ hintPos.size) :
    datafile.EncodeHintRecord key (goPos p) hintPos = encodeHint key p := by
  have p1 := putUvarint_length_le5 p.fid h1
  have p2 := putUvarint_length_le5 p.block h2
  have p3 := putUvarint_length_le5 p.off h3
  have p4 := putUvarint_length_le5 p.size h4
  exact trans_EncodeHintRecord_eq key p hintPos h1 h2 h3 h4 (by omega)

example : datafile.EncodeHintRecord ⟨#[0x6b]⟩ { Fid := 3, BlockID := 70000, Offset := 5, Size := 300 } (mkBytes 25)
    = encodeHint ⟨#[0x6b]⟩ ⟨3, 70000, 5, 300⟩ :=
  trans_EncodeHintRecord_eq25 ⟨#[0x6b]⟩ ⟨3, 70000, 5, 300⟩ (mkBytes 25) (by decide) (by decide) (by decide) (by decide) (by simp)

end XixiKV.TransEq
