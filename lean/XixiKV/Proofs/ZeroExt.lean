import XixiKV.Proofs.Frame
import XixiKV.Proofs.Truncate
import XixiKV.Proofs.Chunk
import XixiKV.Proofs.EngineRestart
import XixiKV.Proofs.EngineMerge.Open
/-!
# Zero-extended data files  (memory-mapped I/O)

With memory-mapped I/O every data file is physically extended with zero bytes (to a multiple of
512 MiB) while it is open; a process that dies without `Close` leaves the files zero-extended.
The reader rule that copes with this is `chunkSeq`'s `allZeroFrom` test: an undecodable chunk that
is followed only by zeros until the end of the file is the end of the log.

* `scan_zero_ext` : the sequential reader (both modes) on `file ++ zeros k` returns exactly the
  records of `file`, `validEnd` = the logical size, no error.
* `readAt_append_any`, `readAt_member_append_any`, `readAt_zero_ext` : position-based reads do not
  look beyond the record.
* `loadFile_zero_ext`, `loadIndex_zero_ext`, `openDB_zero_ext` : the restart path replays the same
  log from a zero-extended directory and cuts every file back to its logical bytes.
-/

/-! ## bytes: extracting from / testing a zero tail -/
namespace XixiKV.Frame
open XixiKV

theorem extract_zeros (n i j : Nat) : (zeros n).extract i j = zeros (min j n - i) := by
  apply ByteArray.ext
  simp only [zeros, ByteArray.data_extract, Array.extract_replicate]

/-- a slice that starts at or after the logical end lies wholly inside the zero tail -/
theorem extract_append_zeros (a : ByteArray) (k i j : Nat) (hi : a.size ≤ i) :
    (a ++ zeros k).extract i j = zeros (min (j - a.size) k - (i - a.size)) := by
  rw [ByteArray.extract_append, extract_ge_size a i j hi, ByteArray.empty_append, extract_zeros]

theorem all_zero_zeros (n : Nat) : (zeros n).data.all (· == 0) = true := by
  rw [Array.all_eq_true]
  intro i hi
  simp [zeros]

/-- `zeroUntilEnd` holds at the logical end of a zero-extended file and at every position inside
    (or beyond) the zero tail -/
theorem allZeroFrom_append_zeros (a : ByteArray) (k i : Nat) (hi : a.size ≤ i) :
    allZeroFrom (a ++ zeros k) i = true := by
  unfold allZeroFrom
  rw [extract_append_zeros a k i _ hi]
  exact all_zero_zeros _

theorem allZeroFrom_append_zeros_end (a : ByteArray) (k : Nat) :
    allZeroFrom (a ++ zeros k) a.size = true :=
  allZeroFrom_append_zeros a k a.size (Nat.le_refl _)

theorem append_zeros_zero (a : ByteArray) : a ++ zeros 0 = a := by
  have : zeros 0 = ByteArray.empty := rfl
  rw [this, ByteArray.append_empty]

theorem extract0_append_zeros (a : ByteArray) (k : Nat) : (a ++ zeros k).extract 0 a.size = a := by
  rw [extract0_append_le a (zeros k) a.size (Nat.le_refl _), extract_all a a.size (Nat.le_refl _)]

/-! ## the sequential reader on a zero tail (any codec that does not decode a run of zeros) -/

/-- a run of zero bytes is never a chunk -/
def ZeroUndec (C : Codec) : Prop := ∀ m, C.dec (zeros m) = .incomplete ∨ C.dec (zeros m) = .badCrc

variable (C : Codec)

/-- a chunk read at or after the logical end of a zero-extended file is end-of-log, for both
    reader modes: it is undecodable and only zeros follow -/
theorem chunkSeq_zero_tail (hz : ZeroUndec C) (tol : Bool) (a : ByteArray) (k block off : Nat)
    (h : a.size ≤ block * BS + off) : chunkSeq C tol (a ++ zeros k) block off = .eof := by
  unfold chunkSeq
  simp only []
  split
  · rfl
  · split
    · rfl
    · rw [extract_append_zeros _ _ _ _ h, allZeroFrom_append_zeros _ _ _ h]
      rcases hz (min (block * BS + min ((a ++ zeros k).size - block * BS) BS - a.size) k
        - (block * BS + off - a.size)) with e | e <;> rw [e] <;> simp

theorem nextAt_zero_tail (hz : ZeroUndec C) (tol : Bool) (a : ByteArray) (k block off fuel : Nat)
    (h : a.size ≤ block * BS + off) : nextAt C tol (a ++ zeros k) block off (fuel + 1) = .eof := by
  unfold nextAt
  rw [chunkSeq_zero_tail C hz tol a k block off h]

/-- the reader's end state of `a` (after the block-tail skip) is at or after the logical end -/
theorem size_le_end (a : ByteArray) : a.size ≤ endB a * BS + endO a := by
  have := size_pad a
  rw [ByteArray.size_append, size_zeros] at this
  unfold endB endO
  omega

/-- at the end state of the logical file the reader of the zero-extended file reports end of log:
    for every end offset, including the last `H` bytes of a block -/
theorem nextAt_end_zero_ext (hz : ZeroUndec C) (tol : Bool) (a : ByteArray) (k fuel : Nat) :
    nextAt C tol (a ++ zeros k) (endB a) (endO a) (fuel + 1) = .eof :=
  nextAt_zero_tail C hz tol a k _ _ fuel (size_le_end a)

/-- `scanFrom_appendAll` with arbitrary bytes `post` after the records, provided the reader reports
    end of log at the end state of the records -/
theorem scanFrom_appendAll_post (tol : Bool) (fid : Nat) (post : ByteArray) (ds : List ByteArray) :
    ∀ (f : ByteArray) (v n : Nat), (∀ d ∈ ds, 0 < d.size) → ds.length < n →
      nextAt C tol (appendAll C f ds ++ post) (endB (appendAll C f ds)) (endO (appendAll C f ds))
        ((appendAll C f ds ++ post).size + 1) = .eof →
      scanFrom C tol fid (appendAll C f ds ++ post) (endB f) (endO f) v n
        = { recs := ds.zip (posAll C fid f ds),
            validEnd := if ds = [] then v else (appendAll C f ds).size, ok := true } := by
  induction ds with
  | nil =>
    intro f v n _ hn hend
    cases n with
    | zero => omega
    | succ m =>
      simp only [appendAll, List.foldl_nil] at hend
      simp only [appendAll, List.foldl_nil, scanFrom]
      rw [hend]
      simp [posAll]
  | cons d t ih =>
    intro f v n hpos hn hend
    have hd : 0 < d.size := hpos d (by simp)
    have ht : ∀ x ∈ t, 0 < x.size := fun x hx => hpos x (by simp [hx])
    cases n with
    | zero => omega
    | succ m =>
    obtain ⟨tail, htail⟩ := appendAll_split C t (appendRec C f d)
    have hg2 : appendAll C f (d :: t) = appendAll C (appendRec C f d) t := by
      simp [appendAll]
    have hg : appendAll C f (d :: t) ++ post = appendRec C f d ++ (tail ++ post) := by
      rw [hg2, htail, ByteArray.append_assoc]
    have h2 := size_appendRec_gt C f d hd
    obtain ⟨b', o', hread, hendp, h1, h2'⟩ :=
      nextAt_write C tol d f (tail ++ post) ((appendRec C f d ++ (tail ++ post)).size + 1) hd
        (by rw [ByteArray.size_append]; omega)
    simp only [scanFrom]
    rw [hg, hread]
    simp only []
    have hnext := end_after b' o' (appendRec C f d).size hendp h1 h2'
    rw [hnext.1, hnext.2]
    rw [← hg, hg2]
    rw [hg2] at hend
    have hrec := ih (appendRec C f d) (b' * BS + o') m ht
      (by simp only [List.length_cons] at hn; omega) hend
    simp only [endB, endO] at hrec
    rw [hrec]
    simp only [posAll, List.zip_cons_cons, reduceCtorEq, if_false, ScanRes.mk.injEq, and_true]
    refine ⟨?_, ?_⟩
    · simp [endB, endO, posOf]
    · split
      · rename_i h; subst h; simp [appendAll, hendp]
      · rfl

/-- **scan of a zero-extended file**, for any codec that does not decode a run of zeros -/
theorem scan_zero_ext_of (hz : ZeroUndec C) (tol : Bool) (fid : Nat) (ds : List ByteArray)
    (hpos : ∀ d ∈ ds, 0 < d.size) (k : Nat) :
    scan C tol fid (appendAll C ByteArray.empty ds ++ zeros k)
      = { recs := ds.zip (posAll C fid ByteArray.empty ds),
          validEnd := (appendAll C ByteArray.empty ds).size, ok := true } := by
  unfold scan
  have h := scanFrom_appendAll_post C tol fid (zeros k) ds ByteArray.empty 0
    ((appendAll C ByteArray.empty ds ++ zeros k).size + 1) hpos
    (by have := size_appendAll_ge C ds ByteArray.empty hpos
        rw [ByteArray.size_append]; omega)
    (nextAt_end_zero_ext C hz tol _ k _)
  have e0 : endB ByteArray.empty = 0 := by decide
  have e1 : endO ByteArray.empty = 0 := by decide
  rw [e0, e1] at h
  rw [h]
  congr 1
  split
  · rename_i h; subst h; simp [appendAll]
  · rfl

end XixiKV.Frame

/-! ## the concrete CRC-32 codec does not decode a run of zeros -/
namespace XixiKV.Chunk
open XixiKV XixiKV.Frame

set_option maxRecDepth 100000 in
/-- the CRC-32 of the three header bytes `00 00 00` (length low, length high, type) is not the
    stored CRC `00 00 00 00` of an all-zero header -/
theorem checksum_zero_header : (checksum (zeros 3) != 0) = true := by decide

theorem rd16_zeros (m i : Nat) (h : i + 2 ≤ m) : rd16 (zeros m) i = 0 := by
  unfold rd16
  rw [extract_zeros]
  have : min (i + 2) m - i = 2 := by omega
  rw [this]
  rfl

theorem rd32_zeros (m i : Nat) (h : i + 4 ≤ m) : rd32 (zeros m) i = 0 := by
  unfold rd32
  rw [extract_zeros]
  have : min (i + 4) m - i = 4 := by omega
  rw [this]
  rfl

/-- `DecodeChunk` on a run of zeros: fewer than seven bytes are an incomplete header, seven or more
    a header with length 0 whose CRC does not match -/
theorem dec_zeros (m : Nat) : dec (zeros m) = if m < H then .incomplete else .badCrc := by
  have hH : H = 7 := rfl
  unfold dec
  rw [size_zeros]
  by_cases h : m < H
  · rw [if_pos h, if_pos h]
  · rw [if_neg h, if_neg h]
    rw [rd16_zeros m 4 (by omega)]
    simp only []
    rw [if_neg (by omega), rd32_zeros m 0 (by omega), extract_zeros]
    have : min (H + 0) m - 4 = 3 := by omega
    rw [this, if_pos checksum_zero_header]

theorem zeroUndec_crc : ZeroUndec crcCodec := by
  intro m
  show dec (zeros m) = _ ∨ dec (zeros m) = _
  rw [dec_zeros]
  split
  · exact Or.inl rfl
  · exact Or.inr rfl

end XixiKV.Chunk

/-! ## the required theorems, for the concrete codec `C` -/
namespace XixiKV.Frame
open XixiKV
open XixiKV.Engine (C)

theorem zeroUndec_C : ZeroUndec C := Chunk.zeroUndec_crc

/-- the sequential reader on a well-formed file followed by any number of zero bytes: exactly the
    records of the file, `validEnd` = the logical size, no error — for both reader modes -/
theorem scan_zero_ext (tol : Bool) (fid : Nat) (ds : List ByteArray) (hpos : ∀ d ∈ ds, 0 < d.size) (k : Nat) :
    scan C tol fid (appendAll C ByteArray.empty ds ++ zeros k)
      = { recs := ds.zip (posAll C fid ByteArray.empty ds),
          validEnd := (appendAll C ByteArray.empty ds).size, ok := true } :=
  scan_zero_ext_of C zeroUndec_C tol fid ds hpos k

/-- position-based reads do not look beyond the record: appending ANY bytes to a file does not
    change what `readAt` returns at the position of a record written into it -/
theorem readAt_append_any (f d x : ByteArray) (fid : Nat) (hd : 0 < d.size) (rest : ByteArray) :
    readAt C (appendRec C f d ++ rest ++ x) (posOf C fid f.size d).block (posOf C fid f.size d).off = .ok d := by
  rw [ByteArray.append_assoc]
  exact readAt_write C d f (rest ++ x) fid hd

/-- every record of a run of appends is read back at its reported position, whatever bytes `x`
    (for instance a zero tail) follow the file -/
theorem readAt_member_append_any (fid : Nat) (x : ByteArray) (ds : List ByteArray) :
    ∀ (f d : ByteArray) (p : Pos), (∀ y ∈ ds, 0 < y.size) → (d, p) ∈ ds.zip (posAll C fid f ds) →
      readAt C (appendAll C f ds ++ x) p.block p.off = .ok d := by
  induction ds with
  | nil => intro f d p _ h; simp at h
  | cons y t ih =>
    intro f d p hpos h
    have hc : appendAll C f (y :: t) = appendAll C (appendRec C f y) t := rfl
    simp only [posAll, List.zip_cons_cons, List.mem_cons] at h
    rcases h with h | h
    · cases h
      obtain ⟨tl, htl⟩ := appendAll_split C t (appendRec C f y)
      rw [hc, htl]
      exact readAt_append_any f y x fid (hpos y (by simp)) tl
    · rw [hc]
      exact ih _ _ _ (fun z hz => hpos z (by simp [hz])) h

end XixiKV.Frame

/-! ## restart on zero-extended files -/
namespace XixiKV.Engine.Restart
open XixiKV XixiKV.Engine XixiKV.Frame XixiKV.Record XixiKV.Index XixiKV.Adopt XixiKV.Engine.MergeP

/-- read-back in a zero-extended ghost file: the reported position of every record still resolves to
    its payload -/
theorem readAt_zero_ext (fid : Nat) (gf : GFile) (r : Record) (p : Pos) (k : Nat)
    (h : (r, p) ∈ gf.zip (possOf fid gf)) :
    readAt C (bytesOf gf ++ zeros k) p.block p.off = .ok (encodeRecord r) := by
  have hm : (encodeRecord r, p) ∈ (payloads gf).zip (posAll C fid ByteArray.empty (payloads gf)) := by
    simp only [payloads, List.zip_map_left]
    exact List.mem_map.mpr ⟨(r, p), h, rfl⟩
  exact readAt_member_append_any fid (zeros k) (payloads gf) ByteArray.empty _ p (payloads_pos gf) hm

/-- **one zero-extended file**: `loadFile` (either reader mode) replays exactly the records of the
    ghost file and cuts the file back to its logical bytes (`k = 0`: the file is left alone) -/
theorem loadFile_zero_ext (r : Replay) (id : Nat) (gl : GFile) (sy k : Nat) (tol : Bool)
    (hok : ∀ x ∈ gl, RecOK x) :
    loadFile r id ⟨bytesOf gl ++ zeros k, sy⟩ tol
      = some ((gl.zip (possOf id gl)).foldl (fun r x => replayRec r x.1 x.2) r,
          ⟨bytesOf gl, if 0 < k then min sy (bytesOf gl).size else sy⟩) := by
  have hscan : scan C tol id (bytesOf gl ++ zeros k)
      = { recs := (payloads gl).zip (possOf id gl), validEnd := (bytesOf gl).size, ok := true } :=
    scan_zero_ext tol id (payloads gl) (payloads_pos gl) k
  have := loadFile_of_scan r id ⟨bytesOf gl ++ zeros k, sy⟩ tol gl (possOf id gl) (bytesOf gl).size hok hscan
  rw [this]
  simp only [ByteArray.size_append, size_zeros]
  by_cases hk : 0 < k
  · rw [if_pos (by omega), if_pos hk, extract0_append_zeros]
    rfl
  · have hk0 : k = 0 := by omega
    subst hk0
    rw [if_neg (by omega), if_neg hk, append_zeros_zero]
    rfl

/-- the same, for `k > 0`, in the form "the returned file is `⟨bytesOf gl, min sy size⟩`" -/
theorem loadFile_zero_ext_pos (r : Replay) (id : Nat) (gl : GFile) (sy k : Nat) (tol : Bool)
    (hok : ∀ x ∈ gl, RecOK x) (hk : 0 < k) :
    loadFile r id ⟨bytesOf gl ++ zeros k, sy⟩ tol
      = some (replayFrom r (gl.zip (possOf id gl)), ⟨bytesOf gl, min sy (bytesOf gl).size⟩) := by
  rw [loadFile_zero_ext r id gl sy k tol hok, if_pos hk]
  rfl

/-- the directory's data files are the ghost files, each followed by some number of zero bytes -/
def MatchesZ : List (Nat × FileSt) → GDir → Prop
  | [], [] => True
  | x :: data, y :: g => x.1 = y.1 ∧ (∃ k, x.2.bytes = bytesOf y.2 ++ zeros k) ∧ MatchesZ data g
  | _, _ => False

/-- what `Open` leaves of a zero-extended directory: every file cut back to its logical bytes; the
    durable-prefix length is capped at the logical size when the file had a zero tail -/
def cutBack : List (Nat × FileSt) → GDir → List (Nat × FileSt)
  | x :: data, y :: g =>
    (x.1, ⟨bytesOf y.2, if (bytesOf y.2).size < x.2.bytes.size then min x.2.synced (bytesOf y.2).size
                         else x.2.synced⟩) :: cutBack data g
  | _, _ => []

theorem MatchesZ_nil_left {g : GDir} : MatchesZ [] g ↔ g = [] := by
  cases g <;> simp [MatchesZ]

theorem MatchesZ_cons {x : Nat × FileSt} {data : List (Nat × FileSt)} {g : GDir} :
    MatchesZ (x :: data) g ↔ ∃ y g', g = y :: g' ∧ x.1 = y.1 ∧ (∃ k, x.2.bytes = bytesOf y.2 ++ zeros k) ∧
      MatchesZ data g' := by
  cases g with
  | nil => simp [MatchesZ]
  | cons y g' =>
    simp only [MatchesZ]
    constructor
    · intro h; exact ⟨y, g', rfl, h⟩
    · rintro ⟨y', g'', h, h'⟩
      cases h; exact h'

/-- an exact directory is a zero-extended one (all `k = 0`) -/
theorem MatchesZ_of_Matches : ∀ {data : List (Nat × FileSt)} {g : GDir}, Matches data g → MatchesZ data g := by
  intro data
  induction data with
  | nil => intro g h; rw [Matches_nil_left] at h; subst h; trivial
  | cons x data ih =>
    intro g h
    rw [Matches_cons] at h
    obtain ⟨y, g', rfl, h1, h2, h3⟩ := h
    rw [MatchesZ_cons]
    exact ⟨y, g', rfl, h1, ⟨0, by rw [h2, append_zeros_zero]⟩, ih h3⟩

/-- the cut-back directory is byte for byte the ghost directory -/
theorem Matches_cutBack : ∀ {data : List (Nat × FileSt)} {g : GDir}, MatchesZ data g → Matches (cutBack data g) g := by
  intro data
  induction data with
  | nil => intro g h; rw [MatchesZ_nil_left] at h; subst h; trivial
  | cons x data ih =>
    intro g h
    rw [MatchesZ_cons] at h
    obtain ⟨y, g', rfl, h1, _, h3⟩ := h
    show Matches (_ :: cutBack data g') (y :: g')
    rw [Matches_cons]
    exact ⟨y, g', rfl, h1, rfl, ih h3⟩

/-- on an exact directory `cutBack` does nothing -/
theorem cutBack_of_Matches : ∀ {data : List (Nat × FileSt)} {g : GDir}, Matches data g → cutBack data g = data := by
  intro data
  induction data with
  | nil => intro g h; rw [Matches_nil_left] at h; subst h; rfl
  | cons x data ih =>
    intro g h
    rw [Matches_cons] at h
    obtain ⟨y, g', rfl, _, h2, h3⟩ := h
    obtain ⟨i, b, sy⟩ := x
    simp only at h2
    subst h2
    simp only [cutBack, ih h3, Nat.lt_irrefl, if_false]

/-- `cutBack` keeps the file ids, replaces the bytes by the logical bytes, and never raises the
    durable-prefix length -/
theorem cutBack_ids : ∀ {data : List (Nat × FileSt)} {g : GDir}, MatchesZ data g →
    (cutBack data g).map (·.1) = data.map (·.1) := by
  intro data
  induction data with
  | nil => intro g h; rw [MatchesZ_nil_left] at h; subst h; rfl
  | cons x data ih =>
    intro g h
    rw [MatchesZ_cons] at h
    obtain ⟨y, g', rfl, _, _, h3⟩ := h
    simp only [cutBack, List.map_cons, ih h3]

/-- **all files zero-extended**: `loadIndexFromDataFiles` replays exactly `logOf g` (the strict
    readers of the older files and the tolerant reader of the active file alike) and every file is
    cut back to its logical bytes -/
theorem loadIndex_zero_ext : ∀ (data : List (Nat × FileSt)) (g : GDir) (r : Replay),
    MatchesZ data g → (∀ x ∈ g, ∀ r ∈ x.2, RecOK r) →
    loadIndex r 0 data = some (replayFrom r (logOf g), cutBack data g) := by
  intro data
  induction data with
  | nil =>
    intro g r hm _
    rw [MatchesZ_nil_left] at hm; subst hm
    rfl
  | cons x data ih =>
    intro g r hm hok
    rw [MatchesZ_cons] at hm
    obtain ⟨y, g', rfl, hid, ⟨k, hb⟩, hm'⟩ := hm
    obtain ⟨id, fb, sy⟩ := x
    simp only at hid hb
    subst hb
    have hoky : ∀ r ∈ y.2, RecOK r := hok y (by simp)
    have hok' : ∀ x ∈ g', ∀ r ∈ x.2, RecOK r := fun x hx => hok x (by simp [hx])
    simp only [loadIndex, Nat.not_lt_zero, if_false]
    rw [loadFile_zero_ext r id y.2 sy k _ hoky]
    simp only []
    rw [ih g' _ hm' hok', logOf_cons, replayFrom_append, hid]
    simp only [cutBack, ByteArray.size_append, size_zeros]
    by_cases hk : 0 < k
    · rw [if_pos hk, if_pos (by omega)]; rfl
    · rw [if_neg hk, if_neg (by omega)]; rfl

/-- **`Open` on a zero-extended directory** (process death without `Close` under memory-mapped
    I/O): a closed, unlocked directory with nothing to adopt whose data files are the ghost files of
    `g`, each followed by an arbitrary number of zero bytes.  `Open` succeeds; the handle is exactly
    the handle `openDB_ghost` gives for the unextended directory (`scanDB`), and the directory's
    files are cut back to their logical bytes (`cutBack`, which `Matches` the ghost again). -/
theorem openDB_zero_ext (s : St) (dir : String) (cfg : Cfg) (d : DirSt) (g : GDir) (a : Nat)
    (hdb : s.db = none) (hcfg : cfg.Valid) (hd : s.world.get dir = some d)
    (hl : d.locked = false) (hm : plan s.world dir = none) (hmt : MatchesZ d.data g)
    (hrecs : ∀ x ∈ g, ∀ r ∈ x.2, RecOK r) (hact : (g.getLast?).map (·.1) = some a) :
    openDB s dir cfg
      = ({ world := s.world.set dir { d with data := cutBack d.data g, locked := true },
           db := some (scanDB cfg dir a g) }, .ok) := by
  have hgne : g ≠ [] := getLast?_ne_none_of_map hact
  have hdne : d.data ≠ [] := by
    intro e; rw [e, MatchesZ_nil_left] at hmt; exact hgne hmt
  have hload : loadIndex Replay.init 0 d.data = some (replayLog (logOf g), cutBack d.data g) := by
    rw [loadIndex_zero_ext d.data g Replay.init hmt hrecs, replayLog_eq]
  rw [openDB_scan' s dir cfg d (replayLog (logOf g)) (cutBack d.data g) hdb hcfg hd hl hm hdne hload]
  have hact' : (mkDB cfg dir (replayLog (logOf g)) (cutBack d.data g)).activeId = a := by
    unfold mkDB
    exact activeId_of_getLast (by rw [Matches_getLast (Matches_cutBack hmt)]; exact hact)
  unfold scanDB
  rw [← hact']
  rfl

/-- the same when there is no merge directory at all (the hypothesis form of `openDB_crash`) -/
theorem openDB_zero_ext_nomerge (s : St) (dir : String) (cfg : Cfg) (d : DirSt) (g : GDir) (a : Nat)
    (hdb : s.db = none) (hcfg : cfg.Valid) (hd : s.world.get dir = some d)
    (hl : d.locked = false) (hnomerge : s.world.get (mergeDirName dir) = none) (hmt : MatchesZ d.data g)
    (hrecs : ∀ x ∈ g, ∀ r ∈ x.2, RecOK r) (hact : (g.getLast?).map (·.1) = some a) :
    openDB s dir cfg
      = ({ world := s.world.set dir { d with data := cutBack d.data g, locked := true },
           db := some (scanDB cfg dir a g) }, .ok) :=
  openDB_zero_ext s dir cfg d g a hdb hcfg hd hl (plan_none_of_no_dir hnomerge) hmt hrecs hact

/-- `Open` cannot tell a zero-extended directory from the exact one: same result, same handle, and
    the same directory state (up to the durable-prefix lengths `cutBack` caps) as `openDB_ghost` on
    a directory `d0` holding the ghost files byte for byte -/
theorem openDB_zero_ext_eq_ghost (s s0 : St) (dir : String) (cfg : Cfg) (d d0 : DirSt) (g : GDir) (a : Nat)
    (hdb : s.db = none) (hdb0 : s0.db = none) (hcfg : cfg.Valid)
    (hd : s.world.get dir = some d) (hd0 : s0.world.get dir = some d0)
    (hl : d.locked = false) (hl0 : d0.locked = false)
    (hm : plan s.world dir = none) (hm0 : plan s0.world dir = none)
    (hmt : MatchesZ d.data g) (hmt0 : Matches d0.data g)
    (hrecs : ∀ x ∈ g, ∀ r ∈ x.2, RecOK r) (hact : (g.getLast?).map (·.1) = some a) :
    (openDB s dir cfg).2 = (openDB s0 dir cfg).2 ∧ (openDB s dir cfg).1.db = (openDB s0 dir cfg).1.db ∧
    ∃ d', (openDB s dir cfg).1.world.get dir = some d' ∧ Matches d'.data g ∧ d'.locked = true ∧
      d'.hint = d.hint ∧ d'.marker = d.marker := by
  rw [openDB_zero_ext s dir cfg d g a hdb hcfg hd hl hm hmt hrecs hact,
    openDB_ghost s0 dir cfg d0 g a hdb0 hcfg hd0 hl0 hm0 hmt0 hrecs hact]
  refine ⟨rfl, rfl, _, World.get_set_self _ _ _, Matches_cutBack hmt, rfl, rfl, rfl⟩

/-- … and the handle opened on the zero-extended directory satisfies the engine invariant for `g` -/
theorem Inv_openDB_zero_ext (s : St) (dir : String) (cfg : Cfg) (d : DirSt) (g : GDir) (a : Nat)
    (hdb : s.db = none) (hcfg : cfg.Valid) (hd : s.world.get dir = some d)
    (hl : d.locked = false) (hm : plan s.world dir = none) (hmt : MatchesZ d.data g)
    (hasc : AscIds g) (hrecs : ∀ x ∈ g, ∀ r ∈ x.2, RecOK r) (hact : (g.getLast?).map (·.1) = some a) :
    (openDB s dir cfg).2 = .ok ∧ (openDB s dir cfg).1.db = some (scanDB cfg dir a g) ∧
      Inv (openDB s dir cfg).1 (scanDB cfg dir a g) g := by
  rw [openDB_zero_ext s dir cfg d g a hdb hcfg hd hl hm hmt hrecs hact]
  refine ⟨rfl, rfl, ?_⟩
  exact Inv_scanDB _ dir cfg { d with data := cutBack d.data g, locked := true } g a
    (World.get_set_self _ _ _) rfl (Matches_cutBack hmt) hasc hrecs hact _ rfl

end XixiKV.Engine.Restart
