import XixiKV.Proofs.TransEqBase
/-! # translated Go function(s) = model: Chunk (split out of `TransEq.lean` so that a function that leaves the
    translator's subset, or whose proof breaks, affects only the properties that restate it) -/
namespace XixiKV.TransEq
open XixiKV XixiKV.Generated.Trans XixiKV.Frame
/-! ## (e) `DecodeChunk` -/

theorem toList_size1 (c : ByteArray) (h : c.size = 1) : c.data.toList = [c.get! 0] := by
  obtain ⟨⟨l⟩⟩ := c
  match l, h with
  | [x], _ => rfl
theorem toList_size2 (c : ByteArray) (h : c.size = 2) : c.data.toList = [c.get! 0, c.get! 1] := by
  obtain ⟨⟨l⟩⟩ := c
  match l, h with
  | [x, y], _ => rfl
theorem toList_size4 (c : ByteArray) (h : c.size = 4) :
    c.data.toList = [c.get! 0, c.get! 1, c.get! 2, c.get! 3] := by
  obtain ⟨⟨l⟩⟩ := c
  match l, h with
  | [x, y, z, w], _ => rfl

theorem get!_extract (b : ByteArray) (i j k : Nat) (h : i + k < j) (hj : j ≤ b.size) :
    (b.extract i j).get! k = b.get! (i + k) := by
  have hsz : b.size = b.data.size := rfl
  have h1 : k < (b.data.extract i j).size := by rw [Array.size_extract]; omega
  have h2 : i + k < b.data.size := by omega
  simp only [ByteArray.get!, ByteArray.data_extract]
  rw [getElem!_pos (b.data.extract i j) k h1, getElem!_pos b.data (i + k) h2, Array.getElem_extract]

theorem le16_eq_rd16 (b : ByteArray) (i : Nat) (h : i + 2 ≤ b.size) :
    le16 (b.extract i (i + 2)) = Chunk.rd16 b i := by
  have hs : (b.extract i (i + 2)).size = 2 := by simp [ByteArray.size_extract]; omega
  unfold Chunk.rd16 le16
  rw [toList_size2 _ hs]

theorem le32_eq_rd32 (b : ByteArray) (i : Nat) (h : i + 4 ≤ b.size) :
    UInt32.ofNat (le32 (b.extract i (i + 4))) = Chunk.rd32 b i := by
  have hs : (b.extract i (i + 4)).size = 4 := by simp [ByteArray.size_extract]; omega
  unfold Chunk.rd32 le32
  rw [toList_size4 _ hs]

theorem get!_eq_rd8 (b : ByteArray) (i : Nat) (h : i < b.size) : (b.get! i).toNat = Chunk.rd8 b i := by
  have hs : (b.extract i (i + 1)).size = 1 := by simp [ByteArray.size_extract]; omega
  unfold Chunk.rd8
  rw [toList_size1 _ hs, get!_extract b i (i+1) 0 (by omega) (by omega)]
  rfl

theorem le16_lt (b : ByteArray) : le16 b < 65536 := by
  unfold le16
  have := (b.get! 0).toNat_lt; have := (b.get! 1).toNat_lt
  omega
theorem le32_lt (b : ByteArray) : le32 b < 4294967296 := by
  unfold le32
  have := (b.get! 0).toNat_lt; have := (b.get! 1).toNat_lt
  have := (b.get! 2).toNat_lt; have := (b.get! 3).toNat_lt
  omega

/-- the Go result triple `(data, chunkType, err)` of a model decode result -/
def ofDecOut : DecOut → ByteArray × Nat × Option String
  | .ok p t => (p, t, none)
  | .incomplete => (ByteArray.empty, 0, some "ErrIncompleteChunk")
  | .badCrc => (ByteArray.empty, 0, some "ErrInvalidCRC")

/-- Go's `crc32.ChecksumIEEE` as a function to `uint32` values represented in `Nat` -/
def crcNat (b : ByteArray) : Nat := (Chunk.checksum b).toNat

theorem trans_DecodeChunk_eq (block : ByteArray) :
    datafile.DecodeChunk crcNat block = ofDecOut (Chunk.dec block) := by
  have hH := hH
  unfold datafile.DecodeChunk Chunk.dec
  simp only [datafile.chunkHeaderSize, hH]
  by_cases h1 : block.size < 7
  · rw [if_pos (by omega), if_pos h1]; rfl
  · rw [if_neg (by omega), if_neg h1]
    have h16 : le16 (block.extract 4 6) = Chunk.rd16 block 4 := le16_eq_rd16 block 4 (by omega)
    have hlt := le16_lt (block.extract 4 6)
    rw [h16] at hlt ⊢
    have he : (7 + Chunk.rd16 block 4) % 2 ^ 32 = 7 + Chunk.rd16 block 4 := by omega
    simp only [he, Int.toNat_natCast]
    by_cases h2 : 7 + Chunk.rd16 block 4 > block.size
    · rw [if_pos (by omega), if_pos h2]; rfl
    · rw [if_neg (by omega), if_neg h2]
      have h32 := le32_eq_rd32 block 0 (by omega)
      have h32lt := le32_lt (block.extract 0 4)
      simp only [Nat.zero_add] at h32
      rw [← h32]
      have hcmp : (le32 (block.extract 0 4) ≠ crcNat (block.extract 4 (7 + Chunk.rd16 block 4))) ↔
          ((Chunk.checksum (block.extract 4 (7 + Chunk.rd16 block 4)) != UInt32.ofNat (le32 (block.extract 0 4))) = true) := by
        unfold crcNat
        rw [bne_iff_ne, ne_eq, ne_eq, ← UInt32.toNat_inj, UInt32.toNat_ofNat', Nat.mod_eq_of_lt h32lt]
        exact ⟨fun h e => h e.symm, fun h e => h e.symm⟩
      by_cases h3 : le32 (block.extract 0 4) ≠ crcNat (block.extract 4 (7 + Chunk.rd16 block 4))
      · rw [if_pos h3, if_pos (hcmp.1 h3)]; rfl
      · rw [if_neg h3, if_neg (fun h => h3 (hcmp.2 h))]
        rw [get!_eq_rd8 block 6 (by omega)]; rfl

/-- consequence (with `Chunk.dec_enc`): the translated Go decoder reads back every chunk the model
    encoder writes, whatever follows it -/
theorem trans_DecodeChunk_enc (t : CT) (p rest : ByteArray) (hp : p.size ≤ 65535) (ht : t < 256) :
    datafile.DecodeChunk crcNat (Chunk.enc t p ++ rest) = (p, t, none) := by
  rw [trans_DecodeChunk_eq, Chunk.dec_enc t p rest hp ht]; rfl

example : datafile.DecodeChunk crcNat ⟨#[1, 2, 3]⟩ = (ByteArray.empty, 0, some "ErrIncompleteChunk") := by
  rw [trans_DecodeChunk_eq]; rfl
example : datafile.DecodeChunk crcNat (Chunk.enc 3 ⟨#[0x41, 0x42]⟩ ++ ⟨#[9, 9]⟩) = (⟨#[0x41, 0x42]⟩, 3, none) :=
  trans_DecodeChunk_enc 3 _ _ (by decide) (by decide)

end XixiKV.TransEq
