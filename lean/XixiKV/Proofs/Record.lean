import XixiKV.Model.Record
import XixiKV.Proofs.Bytes
/-!
# Round trips for the varint, log-record and hint-record codecs
-/
namespace XixiKV.Varint

theorem putUvarint_lt (n : Nat) (h : n < 128) : putUvarint n = [n.toUInt8] := by
  rw [putUvarint, dif_pos h]

theorem putUvarint_ge (n : Nat) (h : ¬ n < 128) :
    putUvarint n = (n % 128 + 128).toUInt8 :: putUvarint (n / 128) := by
  rw [putUvarint, dif_neg h]

theorem putUvarint_length_pos (n : Nat) : 0 < (putUvarint n).length := by
  by_cases h : n < 128
  · rw [putUvarint_lt n h]; simp
  · rw [putUvarint_ge n h]; simp

/-- `k` groups of seven bits fit in `k` bytes -/
theorem putUvarint_length_le_of_lt (k : Nat) : ∀ n : Nat, n < 2 ^ (7 * (k + 1)) → (putUvarint n).length ≤ k + 1 := by
  induction k with
  | zero =>
    intro n h
    have h' : n < 128 := h
    rw [putUvarint_lt n h']; simp
  | succ k ih =>
    intro n h
    by_cases h' : n < 128
    · rw [putUvarint_lt n h']; simp
    · rw [putUvarint_ge n h']
      have e : 2 ^ (7 * (k + 1 + 1)) = 128 * 2 ^ (7 * (k + 1)) := by
        rw [show 7 * (k + 1 + 1) = 7 + 7 * (k + 1) by omega, Nat.pow_add]
      rw [e] at h
      have := ih (n / 128) (Nat.div_lt_of_lt_mul h)
      simp only [List.length_cons]
      omega

theorem putUvarint_length_le (n : Nat) (h : n < 2 ^ 64) : (putUvarint n).length ≤ 10 := by
  apply putUvarint_length_le_of_lt 9 n
  have : (2:Nat) ^ 64 ≤ 2 ^ (7 * (9 + 1)) := by decide
  omega

/-- a 32-bit value (in particular a zig-zagged 31-bit length) takes at most 5 bytes -/
theorem putUvarint_length_le5 (n : Nat) (h : n < 2 ^ 32) : (putUvarint n).length ≤ 5 := by
  apply putUvarint_length_le_of_lt 4 n
  have : (2:Nat) ^ 32 ≤ 2 ^ (7 * (4 + 1)) := by decide
  omega

/-- the decoder loop on encoder output; `k = 10 - i` bytes may still be consumed and `n` must fit
    in them *and* in what is left of the 64 bits (`7 * k - 6` bits: 1 bit for the tenth byte). -/
theorem uvarintGo_putUvarint (k : Nat) : ∀ (n i s x : Nat) (rest : List UInt8),
    i + (k + 1) = 10 → n < 2 ^ (7 * k + 1) →
    uvarintGo (putUvarint n ++ rest) i s x = some (x + n * 2 ^ s, i + (putUvarint n).length) := by
  induction k with
  | zero =>
    intro n i s x rest hi hn
    have hn' : n < 2 := hn
    rw [putUvarint_lt n (by omega)]
    have hb : (n.toUInt8).toNat = n := by simp; omega
    simp only [List.singleton_append, uvarintGo, hb, List.length_singleton]
    rw [if_neg (by omega), if_pos (by omega), if_neg (by omega)]
  | succ k ih =>
    intro n i s x rest hi hn
    by_cases h' : n < 128
    · rw [putUvarint_lt n h']
      have hb : (n.toUInt8).toNat = n := by simp; omega
      simp only [List.singleton_append, uvarintGo, hb, List.length_singleton]
      rw [if_neg (by omega), if_pos (by omega), if_neg (by omega)]
    · rw [putUvarint_ge n h']
      have hb : ((n % 128 + 128).toUInt8).toNat = n % 128 + 128 := by simp; omega
      simp only [List.cons_append, uvarintGo, hb, List.length_cons]
      rw [if_neg (by omega), if_neg (by omega)]
      have e : 2 ^ (7 * (k + 1) + 1) = 128 * 2 ^ (7 * k + 1) := by
        rw [show 7 * (k + 1) + 1 = 7 + (7 * k + 1) by omega, Nat.pow_add]
      rw [e] at hn
      rw [ih (n / 128) (i + 1) (s + 7) _ rest (by omega) (Nat.div_lt_of_lt_mul hn)]
      have e2 : (n % 128 + 128) % 128 = n % 128 := by omega
      have e3 : (2:Nat) ^ (s + 7) = 2 ^ s * 128 := by rw [Nat.pow_add]
      have e4 : n = n % 128 + 128 * (n / 128) := by omega
      rw [e2, e3]
      congr 2
      · generalize n % 128 = a, n / 128 = b, 2 ^ s = P at *
        subst e4
        grind
      · omega

theorem uvarint_putUvarint (n : Nat) (rest : List UInt8) (h : n < 2 ^ 64) :
    uvarint (putUvarint n ++ rest) = some (n, (putUvarint n).length) := by
  have := uvarintGo_putUvarint 9 n 0 0 0 rest (by omega) h
  simpa [uvarint] using this

theorem varintNat_putVarintNat (n : Nat) (rest : List UInt8) (h : n < 2 ^ 63) :
    varintNat (putVarintNat n ++ rest) = some (n, (putVarintNat n).length) := by
  have h64 : (2:Nat) ^ 64 = 2 * 2 ^ 63 := by decide
  unfold varintNat putVarintNat
  rw [uvarint_putUvarint (2 * n) rest (by omega)]
  simp

end XixiKV.Varint

namespace XixiKV.Record
open XixiKV XixiKV.Varint XixiKV.Frame

@[simp] theorem size_ofList (l : List UInt8) : (ofList l).size = l.length := by
  simp [ofList, ByteArray.size]

theorem toList_ofList (l : List UInt8) : (ofList l).data.toList = l := rfl

theorem window_eq (b : ByteArray) (i k : Nat) : window b i k = (b.data.toList.drop i).take k := by
  unfold window
  rw [ByteArray.data_extract, Array.toList_extract, List.extract_eq_take_drop]
  congr 1; omega

/-- the window that starts right after the list prefix `pre` -/
theorem window_at (data : ByteArray) (pre l : List UInt8) (i k : Nat) (hd : data.data.toList = pre ++ l)
    (hi : i = pre.length) : window data i k = l.take k := by
  subst hi
  rw [window_eq, hd, List.drop_left]

theorem uvarint_take (n : Nat) (R : List UInt8) (h : n < 2 ^ 64) :
    uvarint ((putUvarint n ++ R).take 10) = some (n, (putUvarint n).length) := by
  rw [List.take_append, List.take_of_length_le (putUvarint_length_le n h)]
  exact uvarint_putUvarint n _ h

theorem varintNat_take (n : Nat) (R : List UInt8) (h : n < 2 ^ 63) :
    varintNat ((putVarintNat n ++ R).take 10) = some (n, (putVarintNat n).length) := by
  have h64 : (2:Nat) ^ 64 = 2 * 2 ^ 63 := by decide
  have hl : (putVarintNat n).length ≤ 10 := putUvarint_length_le (2 * n) (by omega)
  rw [List.take_append, List.take_of_length_le hl]
  exact varintNat_putVarintNat n _ h

theorem get!_zero (t : UInt8) (X : List UInt8) (rest : ByteArray) :
    (ofList (t :: X) ++ rest).get! 0 = t := by
  show (ofList (t :: X) ++ rest).data[0]! = t
  simp only [ByteArray.data_append, ofList]
  rw [getElem!_pos _ 0 (by simp; omega)]
  simp [Array.getElem_append_left]

theorem decodeHeader_encode (t : UInt8) (ks vs b : Nat) (rest : ByteArray)
    (hk : ks < 2 ^ 63) (hv : vs < 2 ^ 63) (hb : b < 2 ^ 64) :
    decodeHeader (ofList (t :: (putVarintNat ks ++ putVarintNat vs ++ putUvarint b)) ++ rest)
      = some { typ := t.toNat, ksize := ks, vsize := vs, batch := b,
               hlen := 1 + (putVarintNat ks).length + (putVarintNat vs).length + (putUvarint b).length } := by
  generalize hdata : ofList (t :: (putVarintNat ks ++ putVarintNat vs ++ putUvarint b)) ++ rest = data
  have hL : data.data.toList
      = t :: (putVarintNat ks ++ putVarintNat vs ++ putUvarint b) ++ rest.data.toList := by
    rw [← hdata, ByteArray.data_append, Array.toList_append, toList_ofList]
  have hsz : data.size ≠ 0 := by
    rw [← hdata, ByteArray.size_append, size_ofList]; simp
  have w1 : window data 1 10 = (putVarintNat ks ++ (putVarintNat vs ++ putUvarint b ++ rest.data.toList)).take 10 :=
    window_at data [t] _ 1 10 (by rw [hL]; simp [List.append_assoc]) rfl
  have w2 : window data (1 + (putVarintNat ks).length) 10
      = (putVarintNat vs ++ (putUvarint b ++ rest.data.toList)).take 10 :=
    window_at data (t :: putVarintNat ks) _ _ 10 (by rw [hL]; simp [List.append_assoc])
      (by simp only [List.length_cons]; omega)
  have w3 : window data (1 + (putVarintNat ks).length + (putVarintNat vs).length) 10
      = (putUvarint b ++ rest.data.toList).take 10 :=
    window_at data (t :: (putVarintNat ks ++ putVarintNat vs)) _ _ 10 (by rw [hL]; simp [List.append_assoc])
      (by simp only [List.length_cons, List.length_append]; omega)
  have p1 := putUvarint_length_pos (2 * ks)
  have p2 := putUvarint_length_pos (2 * vs)
  have p3 := putUvarint_length_pos b
  unfold decodeHeader
  rw [if_neg hsz, w1, varintNat_take ks _ hk]
  simp only
  rw [if_neg (by unfold putVarintNat; omega), w2, varintNat_take vs _ hv]
  simp only
  rw [if_neg (by unfold putVarintNat; omega), w3, uvarint_take b _ hb]
  simp only
  rw [if_neg (by omega), ← hdata, get!_zero]

theorem size_encodeRecord (r : Record) :
    (encodeRecord r).size = 1 + (putVarintNat r.key.size).length + (putVarintNat r.value.size).length
      + (putUvarint r.batch).length + r.key.size + r.value.size := by
  unfold encodeRecord
  simp only [ByteArray.size_append, size_ofList, List.length_cons, List.length_append]
  omega

theorem encodeRecord_size_ge (r : Record) : 4 ≤ (encodeRecord r).size := by
  have p1 := putUvarint_length_pos (2 * r.key.size)
  have p2 := putUvarint_length_pos (2 * r.value.size)
  have p3 := putUvarint_length_pos r.batch
  rw [size_encodeRecord]
  unfold putVarintNat
  omega

theorem encodeRecord_header_le (r : Record) (hk : r.key.size < 2 ^ 31) (hv : r.value.size < 2 ^ 31)
    (hb : r.batch < 2 ^ 64) : (encodeRecord r).size ≤ 21 + r.key.size + r.value.size := by
  have h32 : (2:Nat) ^ 32 = 2 * 2 ^ 31 := by decide
  have p1 := putUvarint_length_le5 (2 * r.key.size) (by omega)
  have p2 := putUvarint_length_le5 (2 * r.value.size) (by omega)
  have p3 := putUvarint_length_le r.batch hb
  rw [size_encodeRecord]
  unfold putVarintNat
  omega

theorem decodeHeader_encodeRecord (r : Record) (hk : r.key.size < 2 ^ 31) (hv : r.value.size < 2 ^ 31)
    (hb : r.batch < 2 ^ 64) :
    decodeHeader (encodeRecord r)
      = some { typ := r.typ.toUInt8.toNat, ksize := r.key.size, vsize := r.value.size, batch := r.batch,
               hlen := 1 + (putVarintNat r.key.size).length + (putVarintNat r.value.size).length
                 + (putUvarint r.batch).length } := by
  have h63 : (2:Nat) ^ 31 ≤ 2 ^ 63 := by decide
  unfold encodeRecord
  rw [ByteArray.append_assoc]
  exact decodeHeader_encode _ _ _ _ _ (by omega) (by omega) hb

/-- the header bytes of `encodeRecord r` -/
def headerBytes (r : Record) : ByteArray :=
  ofList (r.typ.toUInt8 :: (putVarintNat r.key.size ++ putVarintNat r.value.size ++ putUvarint r.batch))

theorem size_headerBytes (r : Record) : (headerBytes r).size
    = 1 + (putVarintNat r.key.size).length + (putVarintNat r.value.size).length + (putUvarint r.batch).length := by
  unfold headerBytes
  simp only [size_ofList, List.length_cons, List.length_append]
  omega

theorem encodeRecord_eq (r : Record) : encodeRecord r = headerBytes r ++ r.key ++ r.value := rfl

theorem key_extract (r : Record) :
    (encodeRecord r).extract (headerBytes r).size ((headerBytes r).size + r.key.size) = r.key := by
  rw [encodeRecord_eq]
  exact extract_exact _ _ _ _ _ rfl rfl

theorem value_extract (r : Record) :
    (encodeRecord r).extract ((headerBytes r).size + r.key.size) ((headerBytes r).size + r.key.size + r.value.size)
      = r.value := by
  rw [encodeRecord_eq]
  have := extract_exact (headerBytes r ++ r.key) r.value ByteArray.empty
    ((headerBytes r).size + r.key.size) ((headerBytes r).size + r.key.size + r.value.size)
    (by rw [ByteArray.size_append]) (by rw [ByteArray.size_append])
  simpa using this

theorem decodeRecord_encodeRecord (r : Record) (ht : r.typ < 256) (hk : r.key.size < 2 ^ 31)
    (hv : r.value.size < 2 ^ 31) (hb : r.batch < 2 ^ 64) : decodeRecord (encodeRecord r) = some r := by
  unfold decodeRecord
  rw [decodeHeader_encodeRecord r hk hv hb]
  simp only
  rw [if_neg (by rw [size_encodeRecord]; omega), ← size_headerBytes, key_extract, value_extract]
  have htyp : r.typ.toUInt8.toNat = r.typ := by simp; omega
  rw [htyp]

theorem decodeValue_encodeRecord (r : Record) (_ht : r.typ < 256) (hk : r.key.size < 2 ^ 31)
    (hv : r.value.size < 2 ^ 31) (hb : r.batch < 2 ^ 64) : decodeValue (encodeRecord r) = some r.value := by
  unfold decodeValue
  rw [decodeHeader_encodeRecord r hk hv hb]
  simp only
  rw [if_neg (by rw [size_encodeRecord]; omega), ← size_headerBytes, value_extract]

theorem extract_suffix (pre k : ByteArray) (i j : Nat) (hi : i = pre.size) (hj : j = (pre ++ k).size) :
    (pre ++ k).extract i j = k := by
  have := extract_exact pre k ByteArray.empty i j hi (by rw [hj, ByteArray.size_append])
  simpa using this

theorem decodeHint_encodeHint (key : ByteArray) (p : Pos) (h1 : p.fid < 2 ^ 32) (h2 : p.block < 2 ^ 32)
    (h3 : p.off < 2 ^ 32) (h4 : p.size < 2 ^ 32) : decodeHint (encodeHint key p) = some (key, p) := by
  have h64 : (2:Nat) ^ 32 ≤ 2 ^ 64 := by decide
  generalize hdata : encodeHint key p = data
  have hL : data.data.toList
      = putUvarint p.fid ++ putUvarint p.block ++ putUvarint p.off ++ putUvarint p.size ++ key.data.toList := by
    rw [← hdata, encodeHint, ByteArray.data_append, Array.toList_append, toList_ofList]
  have w1 : window data 0 10 = (putUvarint p.fid
      ++ (putUvarint p.block ++ putUvarint p.off ++ putUvarint p.size ++ key.data.toList)).take 10 :=
    window_at data [] _ 0 10 (by rw [hL]; simp [List.append_assoc]) rfl
  have w2 : window data (putUvarint p.fid).length 10
      = (putUvarint p.block ++ (putUvarint p.off ++ putUvarint p.size ++ key.data.toList)).take 10 :=
    window_at data (putUvarint p.fid) _ _ 10 (by rw [hL]; simp [List.append_assoc]) rfl
  have w3 : window data ((putUvarint p.fid).length + (putUvarint p.block).length) 10
      = (putUvarint p.off ++ (putUvarint p.size ++ key.data.toList)).take 10 :=
    window_at data (putUvarint p.fid ++ putUvarint p.block) _ _ 10 (by rw [hL]; simp [List.append_assoc])
      (by simp only [List.length_append])
  have w4 : window data ((putUvarint p.fid).length + (putUvarint p.block).length + (putUvarint p.off).length) 10
      = (putUvarint p.size ++ key.data.toList).take 10 :=
    window_at data (putUvarint p.fid ++ putUvarint p.block ++ putUvarint p.off) _ _ 10
      (by rw [hL]; simp [List.append_assoc]) (by simp only [List.length_append])
  have p1 := putUvarint_length_pos p.fid
  have p2 := putUvarint_length_pos p.block
  have p3 := putUvarint_length_pos p.off
  have p4 := putUvarint_length_pos p.size
  unfold decodeHint
  rw [w1, uvarint_take _ _ (by omega)]
  simp only
  rw [if_neg (by omega), w2, uvarint_take _ _ (by omega)]
  simp only
  rw [if_neg (by omega), w3, uvarint_take _ _ (by omega)]
  simp only
  rw [if_neg (by omega), w4, uvarint_take _ _ (by omega)]
  simp only
  rw [if_neg (by omega)]
  have hkey : data.extract ((putUvarint p.fid).length + (putUvarint p.block).length + (putUvarint p.off).length
      + (putUvarint p.size).length) data.size = key := by
    rw [← hdata, encodeHint]
    exact extract_suffix _ _ _ _ (by simp only [size_ofList, List.length_append]) rfl
  rw [hkey, Nat.mod_eq_of_lt h1, Nat.mod_eq_of_lt h2, Nat.mod_eq_of_lt h3, Nat.mod_eq_of_lt h4]

end XixiKV.Record

