import XixiKV.Model.ConcMergeDur
import XixiKV.Proofs.ConcMerge
/-!
# Proofs about `Model/ConcMergeDur.lean`: the durability frontier under a concurrent Merge

Main results: `reachableD_base` (projection to `ConcMerge`), `reachableD_dinv` (the invariant),
`powerFailure_prefix` (with the pre-marker flush a power failure recovers the replay of the flushed
prefix), `skipped_superseded`, `needs_flush` (without the flush a flushed value vanishes).
-/
namespace XixiKV.ConcMergeDur
open XixiKV.Conc XixiKV.ConcMerge

/-! ## soundness of the executable form, projection -/

theorem map_some_elim {α β : Type} {o : Option α} {f : α → β} {b : β} (h : o.map f = some b) :
    ∃ a, o = some a ∧ f a = b := by
  cases o with
  | none => cases h
  | some a => exact ⟨a, rfl, by simpa using h⟩

theorem nextD_sound {sh : Shape} {b f : Bool} {d d' : GD} {l : LabelD}
    (h : nextD sh b f d l = some d') : StepD sh b f d d' := by
  obtain ⟨⟨g, m⟩, s, fl⟩ := d
  cases l with
  | sync => simp only [nextD, Option.some.injEq] at h; subst h; exact StepD.sync _ _ _ _
  | mflush =>
    simp only [nextD] at h
    cases m with
    | idle => cases h
    | done n out => cases h
    | scanning n todo out =>
      cases todo with
      | cons i todo => cases h
      | nil =>
        simp only at h
        split at h
        · rename_i hc
          cases h
          exact StepD.mflush _ _ _ _ _ hc.1 hc.2
        · cases h
  | m l =>
    cases l with
    | cl t l =>
      simp only [nextD] at h
      obtain ⟨a', ha, rfl⟩ := map_some_elim h
      simp only [nextM] at ha
      obtain ⟨g1, hg, rfl⟩ := map_some_elim ha
      exact StepD.base _ _ _ _ _ (next_sound hg)
    | mstart todo =>
      simp only [nextD] at h
      obtain ⟨a', ha, rfl⟩ := map_some_elim h
      simp only [nextM] at ha
      split at ha
      · rename_i hc
        cases ha
        obtain ⟨h1, h2, h3⟩ := hc
        refine StepD.mstart _ _ _ _ _ h1 ?_ (isPermOfRange_sound h3)
        intro hb
        rcases h2 with h2 | h2
        · rw [hb] at h2; cases h2
        · exact h2
      · cases ha
    | mvisit =>
      simp only [nextD] at h
      obtain ⟨a', ha, rfl⟩ := map_some_elim h
      cases m with
      | idle => cases ha
      | done n out => cases ha
      | scanning n todo out =>
        cases todo with
        | nil => cases ha
        | cons i todo => cases ha; exact StepD.mvisit _ _ _ _ _ _ _
    | mfinish =>
      simp only [nextD] at h
      split at h
      · rename_i hc
        obtain ⟨a', ha, rfl⟩ := map_some_elim h
        cases m with
        | idle => cases ha
        | done n out => cases ha
        | scanning n todo out =>
          cases todo with
          | cons i todo => cases ha
          | nil =>
            cases ha
            refine StepD.mfinish _ _ _ _ _ ?_
            intro hf
            rcases hc with hc | hc
            · rw [hf] at hc; cases hc
            · exact hc
      · cases h
    | mabort =>
      simp only [nextD] at h
      obtain ⟨a', ha, rfl⟩ := map_some_elim h
      cases m with
      | idle => cases ha
      | done n out => cases ha
      | scanning n todo out => cases ha; exact StepD.mabort _ _ _ _ _ _

theorem execD_reachable {sh : Shape} {b f : Bool} {s : List LabelD} {d d' : GD}
    (hr : ReachableD sh b f d) (h : execD sh b f s d = some d') : ReachableD sh b f d' := by
  induction s generalizing d with
  | nil => simp only [execD, Option.some.injEq] at h; subst h; exact hr
  | cons l rest ih =>
    simp only [execD] at h
    cases hn : nextD sh b f d l with
    | none => rw [hn] at h; cases h
    | some d1 =>
      rw [hn] at h
      exact ih (ReachableD.step hr (nextD_sound hn)) h

/-- durability bookkeeping does not disturb the model of `ConcMerge`: every reachable state projects
to a reachable state of `ConcMerge` (so `C06_concurrent_merge`, `C06_concurrent_output`, … and,
through `reachableM_base`, everything about `Conc.Reachable` hold here unchanged) -/
theorem reachableD_base {sh : Shape} {b f : Bool} {d : GD} (h : ReachableD sh b f d) :
    ReachableM sh b d.a := by
  induction h with
  | init => exact ReachableM.init
  | step _ hs ih =>
    cases hs with
    | base g g' m s fl hst => exact ReachableM.step ih (StepM.base _ _ _ hst)
    | sync g m s fl => exact ih
    | mstart g m todo s fl h1 h2 h3 => exact ReachableM.step ih (StepM.mstart _ _ _ h1 h2 h3)
    | mvisit g n i todo out s fl => exact ReachableM.step ih (StepM.mvisit _ _ _ _ _)
    | mflush g n out s fl _ _ => exact ih
    | mfinish g n out s fl _ => exact ReachableM.step ih (StepM.mfinish _ _ _)
    | mabort g n todo out s fl => exact ReachableM.step ih (StepM.mabort _ _ _ _)

/-! ## list helpers -/

theorem mem_take_drop {L : List Rec} {s n : Nat} {r : Rec} :
    r ∈ (L.take s).drop n ↔ ∃ i, n ≤ i ∧ i < s ∧ L[i]? = some r := by
  rw [List.mem_iff_getElem?]
  constructor
  · rintro ⟨j, hj⟩
    rw [List.getElem?_drop, List.getElem?_take] at hj
    split at hj
    · exact ⟨n + j, by omega, by assumption, hj⟩
    · cases hj
  · rintro ⟨i, h1, h2, h3⟩
    refine ⟨i - n, ?_⟩
    rw [List.getElem?_drop, List.getElem?_take]
    have : n + (i - n) = i := by omega
    rw [this, if_pos h2]; exact h3

/-- a client step only appends to the log -/
theorem step_log {sh : Shape} {g g' : G} (h : Step sh g g') : ∃ suf, g'.log = g.log ++ suf := by
  cases h with
  | loc => exact ⟨[], (List.append_nil _).symm⟩
  | acq => exact ⟨[], (List.append_nil _).symm⟩
  | rel => exact ⟨[], (List.append_nil _).symm⟩
  | putAppend t k v _ => exact ⟨[.put k v], rfl⟩
  | putIndex => exact ⟨[], (List.append_nil _).symm⟩
  | delAppend t k _ => exact ⟨[.del k], rfl⟩
  | delIndex => exact ⟨[], (List.append_nil _).symm⟩

theorem lastVal_some_mem : ∀ (L : List Rec) (k : Key) (v : Val), lastVal L k = some v → .put k v ∈ L := by
  intro L
  induction L using rev_ind with
  | h0 => intro k v h; cases h
  | h1 L r ih =>
    intro k v h
    rw [lastVal_snoc] at h
    split at h
    · rename_i e
      cases r with
      | put k' v' =>
        simp only [recKey] at e
        simp only [recVal, Option.some.injEq] at h
        subst e; subst h
        exact List.mem_append_right _ List.mem_cons_self
      | del k' => cases h
    · exact List.mem_append_left _ (ih k v h)

/-! ## the invariant -/

/-- the merge output `out` agrees with the pre-boundary log on every key that has no record in the
positions `[n, s)`: for such a key the last record in `out` carries the value the first `n` records
give it -/
def Settled (log : List Rec) (n : Nat) (out : List Rec) (s : Nat) : Prop :=
  ∀ k, (∀ i r, n ≤ i → i < s → log[i]? = some r → recKey r ≠ k) →
    lastVal out k = lastVal (log.take n) k

theorem settled_mono {log : List Rec} {n s s' : Nat} {out : List Rec} (h : Settled log n out s)
    (hs : s ≤ s') : Settled log n out s' :=
  fun k hk => h k (fun i r h1 h2 h3 => hk i r h1 (by omega) h3)

theorem settled_append {log suf : List Rec} {n s : Nat} {out : List Rec} (h : Settled log n out s)
    (hn : n ≤ s) (hs : s ≤ log.length) : Settled (log ++ suf) n out s := by
  intro k hk
  rw [List.take_append_of_le_length (by omega)]
  apply h k
  intro i r h1 h2 h3
  apply hk i r h1 h2
  rw [List.getElem?_append_left (by omega)]; exact h3

/-- the flush point: with `db.mu` free and the scan complete, `out` is settled w.r.t. the whole log -/
theorem settled_of_mcore {g : G} {n : Nat} {out : List Rec} (hI : Inv g) (hw : g.writer = none)
    (hM : MCore g n [] out) : Settled g.log n out g.log.length := by
  intro k hk
  have hno : NoNew g n k := by
    intro j r hj hr
    have hlt : j < g.log.length := by
      rcases Nat.lt_or_ge j g.log.length with h | h
      · exact h
      · rw [List.getElem?_eq_none h] at hr; cases hr
    exact hk j r hj hlt hr
  rw [hM.last k hno (fun p _ hp => by cases hp), absMap_eq_lastVal hI hw k]
  have hsplit : lastVal g.log k = lastVal (g.log.take n ++ g.log.drop n) k := by
    rw [List.take_append_drop]
  rw [hsplit]
  apply lastVal_append_noKey
  intro r hr
  rw [List.mem_iff_getElem?] at hr
  obtain ⟨j, hj⟩ := hr
  rw [List.getElem?_drop] at hj
  exact hno (n + j) r (by omega) hj

/-- invariant of the durability bookkeeping (`f` = `flushBeforeMarker`) -/
def DInv (f : Bool) (d : GD) : Prop :=
  d.synced ≤ d.a.g.log.length ∧
  match d.a.m with
  | .idle => True
  | .scanning n todo out =>
      n ≤ d.synced ∧ (d.flushed = true → todo = [] ∧ Settled d.a.g.log n out d.synced)
  | .done n out =>
      n ≤ d.synced ∧ (d.flushed = true → Settled d.a.g.log n out d.synced) ∧ (f = true → d.flushed = true)

theorem dinv_base {f : Bool} {g g' : G} {m : MSt} {s : Nat} {fl : Bool}
    (hst : Step Shape.allTrue g g') (h : DInv f ⟨⟨g, m⟩, s, fl⟩) : DInv f ⟨⟨g', m⟩, s, fl⟩ := by
  obtain ⟨suf, hsuf⟩ := step_log hst
  obtain ⟨h1, h2⟩ := h
  simp only at h1 h2
  refine ⟨?_, ?_⟩
  · show s ≤ g'.log.length
    rw [hsuf, List.length_append]; omega
  · cases m with
    | idle => trivial
    | scanning n todo out =>
      simp only at h2 ⊢
      refine ⟨h2.1, fun hf => ⟨(h2.2 hf).1, ?_⟩⟩
      rw [hsuf]; exact settled_append (h2.2 hf).2 h2.1 h1
    | done n out =>
      simp only at h2 ⊢
      refine ⟨h2.1, fun hf => ?_, h2.2.2⟩
      rw [hsuf]; exact settled_append (h2.2.1 hf) h2.1 h1

theorem dinv_sync {f : Bool} {g : G} {m : MSt} {s : Nat} {fl : Bool}
    (h : DInv f ⟨⟨g, m⟩, s, fl⟩) : DInv f ⟨⟨g, m⟩, g.log.length, fl⟩ := by
  obtain ⟨h1, h2⟩ := h
  simp only at h1 h2
  refine ⟨Nat.le_refl _, ?_⟩
  cases m with
  | idle => trivial
  | scanning n todo out =>
    simp only at h2 ⊢
    exact ⟨by omega, fun hf => ⟨(h2.2 hf).1, settled_mono (h2.2 hf).2 h1⟩⟩
  | done n out =>
    simp only at h2 ⊢
    exact ⟨by omega, fun hf => settled_mono (h2.2.1 hf) h1, h2.2.2⟩

theorem reachableD_dinv {f : Bool} {d : GD} (h : ReachableD Shape.allTrue true f d) : DInv f d := by
  induction h with
  | init => exact ⟨Nat.le_refl _, trivial⟩
  | step hr hs ih =>
    have hRM := reachableD_base hr
    cases hs with
    | base g g' m s fl hst => exact dinv_base hst ih
    | sync g m s fl => exact dinv_sync ih
    | mstart g m todo s fl _ _ _ =>
      exact ⟨Nat.le_refl _, Nat.le_refl _, fun hf => by cases hf⟩
    | mvisit g n i todo out s fl =>
      obtain ⟨h1, h2⟩ := ih
      simp only at h1 h2
      refine ⟨h1, h2.1, fun hf => ?_⟩
      have := (h2.2 hf).1
      cases this
    | mflush g n out s fl _ hw =>
      have hI := reachable_inv (reachableM_base hRM)
      have hM : MCore g n [] out := reachableM_minv hRM
      exact ⟨Nat.le_refl _, hM.le, fun _ => ⟨rfl, settled_of_mcore hI hw hM⟩⟩
    | mfinish g n out s fl hfl =>
      obtain ⟨h1, h2⟩ := ih
      simp only at h1 h2
      exact ⟨h1, h2.1, fun hf => (h2.2 hf).2, hfl⟩
    | mabort g n todo out s fl => exact ⟨ih.1, trivial⟩

/-! ## what a power failure leaves -/

theorem recovered_adopt_take {log out : List Rec} {n s : Nat} (hn : n ≤ s)
    (hS : Settled log n out s) :
    recovered (out ++ (log.drop n).take (s - n)) = recovered (log.take s) := by
  funext k
  rw [recovered_eq_lastVal, recovered_eq_lastVal, ← List.drop_take]
  have hX : log.take s = log.take n ++ (log.take s).drop n := by
    have := (List.take_append_drop n (log.take s)).symm
    rwa [List.take_take, Nat.min_eq_left hn] at this
  by_cases hk : ∃ r ∈ (log.take s).drop n, recKey r = k
  · rw [lastVal_append_hasKey (A' := log.take n) hk, ← hX]
  · have hno : ∀ r ∈ (log.take s).drop n, recKey r ≠ k := fun r hr e => hk ⟨r, hr, e⟩
    rw [lastVal_append_noKey hno]
    conv => rhs; rw [hX]
    rw [lastVal_append_noKey hno]
    apply hS k
    intro i r h1 h2 h3
    exact hno r (mem_take_drop.2 ⟨i, h1, h2, h3⟩)

/-- with the pre-marker flush: in EVERY reachable state a power failure followed by a restart
recovers exactly the replay of the flushed prefix of the log -/
theorem powerFailure_prefix {d : GD} (h : ReachableD Shape.allTrue true true d) :
    recovered (afterPowerFailure d) = recovered (d.a.g.log.take d.synced) := by
  have hD := reachableD_dinv h
  obtain ⟨⟨g, m⟩, s, fl⟩ := d
  obtain ⟨h1, h2⟩ := hD
  cases m with
  | idle => rfl
  | scanning n todo out => rfl
  | done n out =>
    have h2' : n ≤ s ∧ (fl = true → Settled g.log n out s) ∧ (true = true → fl = true) := h2
    exact recovered_adopt_take h2'.1 (h2'.2.1 (h2'.2.2 rfl))

theorem afterPowerFailureAt_synced (d : GD) : afterPowerFailureAt d d.synced = afterPowerFailure d := by
  unfold afterPowerFailureAt afterPowerFailure
  cases d.a.m <;> rfl

/-- any survivor frontier at or above the flushed one -/
theorem powerFailureAt_prefix {d : GD} (h : ReachableD Shape.allTrue true true d) {j : Nat}
    (hj : d.synced ≤ j) :
    recovered (afterPowerFailureAt d j) = recovered (d.a.g.log.take j) := by
  have hD := reachableD_dinv h
  obtain ⟨⟨g, m⟩, s, fl⟩ := d
  obtain ⟨h1, h2⟩ := hD
  cases m with
  | idle => rfl
  | scanning n todo out => rfl
  | done n out =>
    have h2' : n ≤ s ∧ (fl = true → Settled g.log n out s) ∧ (true = true → fl = true) := h2
    have hj' : s ≤ j := hj
    exact recovered_adopt_take (by omega) (settled_mono (h2'.2.1 (h2'.2.2 rfl)) hj')

/-- a pre-boundary live record that the merge did not rewrite is superseded by a FLUSHED record -/
theorem skipped_superseded {d : GD} {n : Nat} {out : List Rec} {k : Key} {v : Val}
    (h : ReachableD Shape.allTrue true true d) (hm : d.a.m = .done n out)
    (hlive : recovered (d.a.g.log.take n) k = some v) (hskip : Rec.put k v ∉ out) :
    ∃ i r, n ≤ i ∧ i < d.synced ∧ d.a.g.log[i]? = some r ∧ recKey r = k := by
  have hD := reachableD_dinv h
  obtain ⟨⟨g, m⟩, s, fl⟩ := d
  simp only at hm; subst hm
  obtain ⟨h1, h2⟩ := hD
  have h2' : n ≤ s ∧ (fl = true → Settled g.log n out s) ∧ (true = true → fl = true) := h2
  have hS := h2'.2.1 (h2'.2.2 rfl)
  apply Classical.byContradiction
  intro hne
  apply hskip
  apply lastVal_some_mem
  rw [hS k, ← recovered_eq_lastVal]
  · exact hlive
  · intro i r hi1 hi2 hi3 hk
    exact hne ⟨i, r, hi1, hi2, hi3, hk⟩

end XixiKV.ConcMergeDur
