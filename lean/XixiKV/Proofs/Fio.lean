import XixiKV.Model.Fio
import XixiKV.Proofs.Bytes
import XixiKV.Proofs.Frame
/-!
# Proofs about the file-I/O layer (`Model/Fio.lean`)

1. byte lemmas (`zeros`, `store`, `ftruncate`)
2. `MInv`: the invariant of `MMap`; no call ever faults
3. the mapping must be dropped before the file is cut (`resetFileSizeOld` faults)
4. `Sparse` is an exact view of `MMap`
5. `FileIO` and `MMap` agree
6. property-level statements (`Fio_*`), examples, axioms
-/
namespace XixiKV.Fio
open XixiKV.Frame (zeros size_zeros)

/-! ## 1. bytes -/

theorem zeros_append (a b : Nat) : zeros a ++ zeros b = zeros (a + b) := by
  apply ByteArray.ext; simp [zeros, ByteArray.data_append]

theorem extract_zeros (k a b : Nat) : (zeros k).extract a b = zeros (min b k - a) := by
  apply ByteArray.ext; simp [zeros, ByteArray.data_extract]

theorem extract_min (a : ByteArray) (i j : Nat) : a.extract i (min j a.size) = a.extract i j := by
  apply ByteArray.ext
  rw [ByteArray.data_extract, ByteArray.data_extract, Array.extract_eq_extract_right]
  have : a.data.size = a.size := rfl
  omega

theorem roundUp_ge (B n : Nat) (hB : 0 < B) : n ≤ roundUp B n := by
  unfold roundUp
  have h1 := Nat.div_add_mod (n + B - 1) B
  have h2 := Nat.mod_lt (n + B - 1) hB
  rw [Nat.mul_comm] at h1
  omega

theorem size_ftruncate (f : OsFile) (n : Nat) : (f.ftruncate n).bytes.size = n := by
  unfold OsFile.ftruncate
  split
  · simp only [ByteArray.size_extract]; omega
  · simp only [ByteArray.size_append, size_zeros]; omega

theorem size_store (x : ByteArray) (o : Nat) (b : ByteArray) (h : o + b.size ≤ x.size) :
    (store x o b).size = x.size := by
  simp only [store, ByteArray.size_append, ByteArray.size_extract]; omega

/-- inside the data part -/
theorem extract_pad_lo (F : ByteArray) (k i j : Nat) (h : j ≤ F.size) :
    (F ++ zeros k).extract i j = F.extract i j := by
  rw [ByteArray.extract_append]
  have : (zeros k).extract (i - F.size) (j - F.size) = ByteArray.empty := by
    rw [ByteArray.extract_eq_empty_iff]; omega
  rw [this, ByteArray.append_empty]

/-- inside the zero part -/
theorem extract_pad_hi (F : ByteArray) (k a : Nat) :
    (F ++ zeros k).extract (F.size + a) (F.size + k) = zeros (k - a) := by
  rw [ByteArray.extract_append, extract_ge_size F _ _ (by omega), ByteArray.empty_append,
    Nat.add_sub_cancel_left, Nat.add_sub_cancel_left, extract_zeros, Nat.min_self]

theorem store_pad (F : ByteArray) (k : Nat) (b : ByteArray) :
    store (F ++ zeros k) F.size b = (F ++ b) ++ zeros (k - b.size) := by
  unfold store
  rw [extract_pad_lo F k 0 F.size (Nat.le_refl _), ByteArray.extract_zero_size,
    ByteArray.size_append, size_zeros, extract_pad_hi]

theorem clear_pad (F : ByteArray) (k n : Nat) (h : n ≤ F.size) :
    store (F ++ zeros k) n (zeros (F.size - n)) = F.extract 0 n ++ zeros (F.size - n + k) := by
  unfold store
  rw [extract_pad_lo F k 0 n h, size_zeros, ByteArray.size_append, size_zeros,
    show n + (F.size - n) = F.size + 0 by omega, extract_pad_hi, ByteArray.append_assoc,
    zeros_append, Nat.sub_zero]

theorem ftruncate_pad_grow (F : ByteArray) (k e : Nat) (h : F.size + k ≤ e) :
    (OsFile.mk (F ++ zeros k)).ftruncate e = ⟨F ++ zeros (e - F.size)⟩ := by
  unfold OsFile.ftruncate
  simp only [ByteArray.size_append, size_zeros]
  split
  · have : e = F.size + k := by omega
    subst this
    rw [extract_all _ _ (by simp), Nat.add_sub_cancel_left]
  · rw [ByteArray.append_assoc, zeros_append]; congr 3; omega

theorem ftruncate_pad_cut (F : ByteArray) (k : Nat) :
    (OsFile.mk (F ++ zeros k)).ftruncate F.size = ⟨F⟩ := by
  unfold OsFile.ftruncate
  simp only [ByteArray.size_append, size_zeros]
  rw [if_pos (by omega), extract_pad_lo F k 0 F.size (Nat.le_refl _), ByteArray.extract_zero_size]

/-! ## 2. the invariant of `MMap` -/

/-- The logical size and the mapping lie inside the physical file; `endOff` is 0 while nothing is
    mapped.  (`virt ≤ endOff` is *not* invariant: see `virt_gt_endOff` below.) -/
def MInv (m : MMap) : Prop :=
  m.virt ≤ m.os.bytes.size ∧ (m.mapped = true → m.endOff ≤ m.os.bytes.size) ∧
  (m.mapped = false → m.endOff = 0)

theorem mapLen_le (m : MMap) (h : MInv m) : m.mapLen ≤ m.os.bytes.size := by
  unfold MMap.mapLen; split
  · exact h.2.1 ‹_›
  · omega

theorem canTouch_of_le (m : MMap) (a b : Nat) (h : MInv m) (hb : b ≤ m.mapLen) :
    m.canTouch a b = true := by
  have := mapLen_le m h
  simp only [MMap.canTouch, Bool.and_eq_true, Bool.or_eq_true, decide_eq_true_eq]
  exact ⟨hb, Or.inr (by omega)⟩

/-- after `remap a n` the range `[a, a+n)` is mapped, and nothing else changed -/
theorem remap_spec (B : Nat) (hB : 0 < B) (m : MMap) (a n : Nat) (h : MInv m) :
    MInv (m.remap B a n) ∧ (m.remap B a n).virt = m.virt ∧ (m.remap B a n).closed = m.closed ∧
    a + n ≤ (m.remap B a n).mapLen := by
  obtain ⟨h1, h2, h3⟩ := h
  unfold MMap.remap
  split
  · refine ⟨⟨h1, h2, h3⟩, rfl, rfl, ?_⟩
    unfold MMap.mapLen
    cases hm : m.mapped
    · have := h3 hm; simp; omega
    · simpa using ‹a + n ≤ m.endOff›
  · have hge := roundUp_ge B (a + n) hB
    refine ⟨⟨?_, ?_, ?_⟩, rfl, rfl, ?_⟩
    · dsimp only
      split
      · rw [size_ftruncate]; omega
      · exact h1
    · intro _
      dsimp only
      split
      · rw [size_ftruncate]; omega
      · omega
    · intro hc; cases hc
    · simpa [MMap.mapLen] using hge

theorem open_inv (B : Nat) (hB : 0 < B) (f : OsFile) : MInv (MMap.open B f) :=
  (remap_spec B hB _ _ _ ⟨Nat.le_refl _, (by intro h; cases h), fun _ => rfl⟩).1

theorem write_inv (B : Nat) (hB : 0 < B) (m : MMap) (b : ByteArray) (h : MInv m) :
    MInv (m.write B b).1 ∧ (m.write B b).2 = .n b.size := by
  obtain ⟨hi, hv, _, hl⟩ := remap_spec B hB m m.virt b.size h
  unfold MMap.write
  simp only
  rw [hv] at *
  rw [if_pos (canTouch_of_le _ _ _ hi hl)]
  have hsz := mapLen_le _ hi
  refine ⟨⟨?_, ?_, ?_⟩, rfl⟩
  · show m.virt + b.size ≤ (store _ _ _).size
    rw [size_store _ _ _ (by omega)]; omega
  · intro hm
    show _ ≤ (store _ _ _).size
    rw [size_store _ _ _ (by omega)]; exact hi.2.1 hm
  · exact hi.2.2

theorem read_inv (B : Nat) (hB : 0 < B) (m : MMap) (off len : Nat) (h : MInv m) :
    MInv (m.read B off len).1 ∧ (m.read B off len).2 ≠ .fault := by
  unfold MMap.read
  split
  · exact ⟨h, by simp⟩
  · obtain ⟨hi, hv, _, hl⟩ := remap_spec B hB m off len h
    simp only
    rw [if_pos (canTouch_of_le _ _ _ hi (by omega))]
    exact ⟨hi, by simp⟩

theorem truncate_inv (B : Nat) (hB : 0 < B) (m : MMap) (n : Nat) (h : MInv m) :
    MInv (m.truncate B n).1 ∧ (m.truncate B n).2 = .ok := by
  unfold MMap.truncate
  split
  · exact ⟨h, rfl⟩
  · obtain ⟨hi, hv, _, hl⟩ := remap_spec B hB m n (m.virt - n) h
    simp only
    rw [hv] at *
    rw [if_pos (canTouch_of_le _ _ _ hi (by omega))]
    have hsz := mapLen_le _ hi
    have hst : (store (m.remap B n (m.virt - n)).os.bytes n (zeros (m.virt - n))).size
        = (m.remap B n (m.virt - n)).os.bytes.size := size_store _ _ _ (by rw [size_zeros]; omega)
    refine ⟨⟨?_, ?_, ?_⟩, rfl⟩
    · show n ≤ (store _ _ _).size
      rw [hst]; omega
    · intro hm
      show _ ≤ (store _ _ _).size
      rw [hst]; exact hi.2.1 hm
    · exact hi.2.2

theorem resetFileSize_inv (m : MMap) : MInv m.resetFileSize.1 :=
  ⟨by show m.virt ≤ (m.os.ftruncate m.virt).bytes.size; rw [size_ftruncate]; omega,
   (by intro h; cases h), fun _ => rfl⟩

theorem close_inv (m : MMap) (h : MInv m) : MInv m.close.1 ∧ m.close.2 ≠ .fault := by
  unfold MMap.close
  split
  · exact ⟨h, by simp⟩
  · exact ⟨resetFileSize_inv m, by simp⟩

theorem apply_inv (B : Nat) (hB : 0 < B) (m : MMap) (op : Op) (h : MInv m) :
    MInv (m.apply B op).1 ∧ (m.apply B op).2 ≠ .fault := by
  unfold MMap.apply
  split
  · exact ⟨h, by simp⟩
  · cases op with
    | write b => have := write_inv B hB m b h; exact ⟨this.1, by simp [this.2]⟩
    | read off len => exact read_inv B hB m off len h
    | sync => exact ⟨h, by simp [MMap.sync]⟩
    | resetFileSize => exact ⟨resetFileSize_inv m, by simp [MMap.resetFileSize]⟩
    | truncate n => have := truncate_inv B hB m n h; exact ⟨this.1, by simp [this.2]⟩
    | size => exact ⟨h, by simp [MMap.size]⟩

theorem runWith_inv (B : Nat) (hB : 0 < B) (ops : List Op) : ∀ (m : MMap), MInv m →
    MInv (runWith (MMap.apply B) m ops).1 ∧ Res.fault ∉ (runWith (MMap.apply B) m ops).2 := by
  induction ops with
  | nil => intro m h; exact ⟨h, by simp [runWith]⟩
  | cons op rest ih =>
    intro m h
    have h1 := apply_inv B hB m op h
    have h2 := ih _ h1.1
    simp only [runWith]
    exact ⟨h2.1, by simp only [List.mem_cons, not_or]; exact ⟨fun e => h1.2 e.symm, h2.2⟩⟩

/-! ## 3. the mapping must be dropped before the file is cut -/

theorem open_eq (B : Nat) (hB : 0 < B) (f : OsFile) :
    MMap.open B f = { os := f.ftruncate (roundUp B (f.bytes.size + B)), mapped := true,
                      endOff := roundUp B (f.bytes.size + B), virt := f.bytes.size } := by
  have hge := roundUp_ge B (f.bytes.size + B) hB
  unfold MMap.open MMap.remap
  rw [if_neg (by dsimp only; omega)]
  dsimp only
  rw [if_pos (by omega)]

/-- before the repair: `ResetFileSize` (Backup) followed by any non-empty write of at most a block
    touches the mapping beyond the end of the file -/
theorem resetOld_write_faults (B : Nat) (hB : 0 < B) (f : OsFile) (b : ByteArray)
    (h0 : 0 < b.size) (hb : b.size ≤ B) :
    ((MMap.open B f).resetFileSizeOld.1.write B b).2 = .fault := by
  have hge := roundUp_ge B (f.bytes.size + B) hB
  rw [open_eq B hB]
  generalize hm : (MMap.resetFileSizeOld _).1 = m
  have hv : m.virt = f.bytes.size := by rw [← hm]; rfl
  have he : m.endOff = roundUp B (f.bytes.size + B) := by rw [← hm]; rfl
  have hs : m.os.bytes.size = f.bytes.size := by rw [← hm]; exact size_ftruncate _ _
  have hmp : m.mapped = true := by rw [← hm]; rfl
  have hr : m.remap B m.virt b.size = m := by
    unfold MMap.remap; exact if_pos (by omega)
  unfold MMap.write
  dsimp only
  rw [hr, if_neg]
  simp [MMap.canTouch, MMap.mapLen, hmp]
  intro _
  refine ⟨?_, by omega⟩
  intro hb0; subst hb0; simp at h0

/-! ## 4. `Sparse` is an exact view -/

def SInv (s : Sparse) : Prop :=
  s.data.size ≤ s.phys ∧ (s.mapped = true → s.endOff ≤ s.phys) ∧ (s.mapped = false → s.endOff = 0)

theorem zeros_zero : zeros 0 = ByteArray.empty := rfl

theorem abs_size (s : Sparse) (h : SInv s) : s.abs.os.bytes.size = s.phys := by
  show (s.data ++ zeros _).size = _
  rw [ByteArray.size_append, size_zeros]; have := h.1; omega

theorem abs_inv (s : Sparse) (h : SInv s) : MInv s.abs := by
  unfold MInv
  rw [abs_size s h]
  exact h

theorem sremap_data (B : Nat) (s : Sparse) (a n : Nat) :
    (s.remap B a n).data = s.data ∧ (s.remap B a n).closed = s.closed := by
  unfold Sparse.remap; split <;> exact ⟨rfl, rfl⟩

theorem abs_remap (B : Nat) (s : Sparse) (a n : Nat) (h : SInv s) :
    s.abs.remap B a n = (s.remap B a n).abs ∧ SInv (s.remap B a n) := by
  have hsz := abs_size s h
  obtain ⟨h1, h2, h3⟩ := h
  unfold MMap.remap Sparse.remap
  show (if a + n ≤ s.endOff then _ else _) = _ ∧ _
  split
  · exact ⟨rfl, h1, h2, h3⟩
  · dsimp only
    rw [hsz]
    refine ⟨?_, ?_, ?_, ?_⟩
    · simp only [Sparse.abs]
      split
      · rw [ftruncate_pad_grow _ _ _ (by omega), Nat.max_eq_right (by omega)]
      · rw [Nat.max_eq_left (by omega)]
    · show s.data.size ≤ max _ _; omega
    · intro _; show roundUp B (a + n) ≤ max _ _; omega
    · intro hc; cases hc

theorem abs_write (B : Nat) (hB : 0 < B) (s : Sparse) (b : ByteArray) (h : SInv s) :
    s.abs.write B b = ((s.write B b).1.abs, (s.write B b).2) ∧ SInv (s.write B b).1 := by
  obtain ⟨hr, hi⟩ := abs_remap B s s.data.size b.size h
  obtain ⟨hd, _⟩ := sremap_data B s s.data.size b.size
  have hl := (remap_spec B hB s.abs s.data.size b.size (abs_inv s h)).2.2.2
  unfold MMap.write Sparse.write
  have hv : s.abs.virt = s.data.size := rfl
  rw [hv]
  rw [hr] at hl ⊢
  generalize s.remap B s.data.size b.size = s' at *
  have hv' : s'.abs.virt = s.data.size := by rw [← hd]; rfl
  dsimp only
  rw [hv', if_pos (canTouch_of_le _ _ _ (abs_inv s' hi) hl)]
  obtain ⟨i1, i2, i3⟩ := hi
  have hms := mapLen_le _ (abs_inv s' ⟨i1, i2, i3⟩)
  rw [abs_size s' ⟨i1, i2, i3⟩] at hms
  refine ⟨?_, ?_, i2, i3⟩
  · simp only [Sparse.abs, hd]
    rw [store_pad, ByteArray.size_append, Nat.sub_sub]
  · show (s.data ++ b).size ≤ s'.phys
    rw [ByteArray.size_append]; omega

theorem abs_read (B : Nat) (hB : 0 < B) (s : Sparse) (off len : Nat) (h : SInv s) :
    s.abs.read B off len = ((s.read B off len).1.abs, (s.read B off len).2) ∧
    SInv (s.read B off len).1 := by
  unfold MMap.read Sparse.read
  have hv : s.abs.virt = s.data.size := rfl
  rw [hv]
  split
  · exact ⟨rfl, h⟩
  · obtain ⟨hr, hi⟩ := abs_remap B s off len h
    obtain ⟨hd, _⟩ := sremap_data B s off len
    have hl := (remap_spec B hB s.abs off len (abs_inv s h)).2.2.2
    rw [hr] at hl ⊢
    generalize s.remap B off len = s' at *
    have hv' : s'.abs.virt = s.data.size := by rw [← hd]; rfl
    dsimp only
    rw [hv', if_pos (canTouch_of_le _ _ _ (abs_inv s' hi) (by omega))]
    refine ⟨?_, hi⟩
    simp only [Sparse.abs, hd]
    rw [extract_pad_lo _ _ _ _ (by omega)]

theorem abs_truncate (B : Nat) (hB : 0 < B) (s : Sparse) (n : Nat) (h : SInv s) :
    s.abs.truncate B n = ((s.truncate B n).1.abs, (s.truncate B n).2) ∧
    SInv (s.truncate B n).1 := by
  unfold MMap.truncate Sparse.truncate
  have hv : s.abs.virt = s.data.size := rfl
  rw [hv]
  split
  · exact ⟨rfl, h⟩
  · obtain ⟨hr, hi⟩ := abs_remap B s n (s.data.size - n) h
    obtain ⟨hd, _⟩ := sremap_data B s n (s.data.size - n)
    have hl := (remap_spec B hB s.abs n (s.data.size - n) (abs_inv s h)).2.2.2
    rw [hr] at hl ⊢
    generalize s.remap B n (s.data.size - n) = s' at *
    have hv' : s'.abs.virt = s.data.size := by rw [← hd]; rfl
    dsimp only
    rw [hv', if_pos (canTouch_of_le _ _ _ (abs_inv s' hi) (by omega))]
    obtain ⟨i1, i2, i3⟩ := hi
    rw [hd] at i1
    have hn : (s.data.extract 0 n).size = n := by rw [ByteArray.size_extract]; omega
    refine ⟨?_, ?_, i2, i3⟩
    · simp only [Sparse.abs, hd]
      rw [clear_pad _ _ _ (by omega), hn]
      congr 5; omega
    · show (s.data.extract 0 n).size ≤ s'.phys
      omega

theorem abs_reset (s : Sparse) :
    s.abs.resetFileSize = (s.resetFileSize.1.abs, s.resetFileSize.2) ∧ SInv s.resetFileSize.1 := by
  refine ⟨?_, Nat.le_refl _, (by intro hc; cases hc), fun _ => rfl⟩
  simp only [MMap.resetFileSize, Sparse.resetFileSize, Sparse.abs]
  rw [ftruncate_pad_cut, Nat.sub_self, zeros_zero, ByteArray.append_empty]

theorem abs_close (s : Sparse) :
    s.abs.close = (s.close.1.abs, s.close.2) ∧ (SInv s → SInv s.close.1) := by
  unfold MMap.close Sparse.close
  have hc : s.abs.closed = s.closed := rfl
  rw [hc]
  split
  · exact ⟨rfl, id⟩
  · rw [(abs_reset s).1]
    exact ⟨rfl, fun _ => (abs_reset s).2⟩

/-- every call on the view is the call on the `MMap` it stands for -/
theorem abs_apply (B : Nat) (hB : 0 < B) (s : Sparse) (op : Op) (h : SInv s) :
    s.abs.apply B op = ((s.apply B op).1.abs, (s.apply B op).2) ∧ SInv (s.apply B op).1 := by
  unfold MMap.apply Sparse.apply
  have hc : s.abs.closed = s.closed := rfl
  rw [hc]
  split
  · exact ⟨rfl, h⟩
  · cases op with
    | write b => exact abs_write B hB s b h
    | read off len => exact abs_read B hB s off len h
    | sync => exact ⟨rfl, h⟩
    | resetFileSize => exact abs_reset s
    | truncate n => exact abs_truncate B hB s n h
    | size => exact ⟨rfl, h⟩

theorem abs_open (B : Nat) (f : OsFile) :
    MMap.open B f = (Sparse.open B f).abs ∧ SInv (Sparse.open B f) := by
  have h0 : SInv { data := f.bytes, phys := f.bytes.size, mapped := false, endOff := 0 } :=
    ⟨Nat.le_refl _, (by intro hc; cases hc), fun _ => rfl⟩
  have := abs_remap B _ f.bytes.size B h0
  refine ⟨?_, this.2⟩
  unfold MMap.open Sparse.open
  rw [← this.1]
  simp only [Sparse.abs, Nat.sub_self, zeros_zero, ByteArray.append_empty]

/-! ## 5. the two back-ends agree -/

/-- the engine calls `Truncate(n)` only with `n ≤` the current size -/
def Op.okAt (sz : Nat) : Op → Prop
  | .truncate n => n ≤ sz
  | _ => True

def OpsOk (f : FileIO) : List Op → Prop
  | [] => True
  | op :: rest => op.okAt f.os.bytes.size ∧ OpsOk (f.apply op).1 rest

/-- the logical content of the view evolves like the `FileIO` file -/
theorem sparse_fileio_apply (B : Nat) (s : Sparse) (f : FileIO) (op : Op)
    (hd : s.data = f.os.bytes) (hs : s.closed = false) (hf : f.closed = false)
    (hok : op.okAt f.os.bytes.size) :
    (s.apply B op).1.data = (f.apply op).1.os.bytes ∧ (s.apply B op).1.closed = false ∧
    (f.apply op).1.closed = false ∧ (s.apply B op).2.obs = (f.apply op).2.obs := by
  unfold Sparse.apply FileIO.apply
  rw [hs, hf]
  simp only [Bool.false_eq_true, if_false]
  cases op with
  | write b =>
    dsimp only
    refine ⟨?_, ?_, hf, rfl⟩
    · show s.data ++ b = f.os.bytes ++ b
      rw [hd]
    · show (s.remap B s.data.size b.size).closed = false
      rw [(sremap_data B s _ _).2, hs]
  | read off len =>
    dsimp only
    unfold Sparse.read FileIO.read
    split
    · refine ⟨hd, hs, hf, ?_⟩
      rw [← hd, extract_ge_size _ _ _ (by omega)]; rfl
    · refine ⟨by rw [(sremap_data B s _ _).1, hd], by rw [(sremap_data B s _ _).2, hs], hf, ?_⟩
      rw [extract_min, hd]; rfl
  | sync => exact ⟨hd, hs, hf, rfl⟩
  | resetFileSize => exact ⟨hd, hs, hf, rfl⟩
  | truncate n =>
    have hok : n ≤ f.os.bytes.size := hok
    dsimp only
    unfold Sparse.truncate FileIO.truncate OsFile.ftruncate
    rw [if_pos hok]
    split
    · refine ⟨?_, hs, hf, rfl⟩
      rw [hd] at *
      rw [extract_all _ _ (by omega)]
    · refine ⟨?_, ?_, hf, rfl⟩
      · show s.data.extract 0 n = _
        rw [hd]
      · show (s.remap B n (s.data.size - n)).closed = false
        rw [(sremap_data B s _ _).2, hs]
  | size => exact ⟨hd, hs, hf, by rw [hd]; rfl⟩

theorem agree_runWith (B : Nat) (hB : 0 < B) (ops : List Op) : ∀ (f : FileIO) (s : Sparse),
    SInv s → s.data = f.os.bytes → s.closed = false → f.closed = false → OpsOk f ops →
    ∃ s', SInv s' ∧ (runWith (MMap.apply B) s.abs ops).1 = s'.abs ∧
      s'.data = (runWith FileIO.apply f ops).1.os.bytes ∧ s'.closed = false ∧
      (runWith FileIO.apply f ops).1.closed = false ∧
      (runWith (MMap.apply B) s.abs ops).2.map Res.obs
        = (runWith FileIO.apply f ops).2.map Res.obs := by
  induction ops with
  | nil => intro f s hi hd hs hf _; exact ⟨s, hi, rfl, hd, hs, hf, rfl⟩
  | cons op rest ih =>
    intro f s hi hd hs hf hok
    obtain ⟨ha, hi'⟩ := abs_apply B hB s op hi
    obtain ⟨hd', hs', hf', hr⟩ := sparse_fileio_apply B s f op hd hs hf hok.1
    obtain ⟨s', k1, k2, k3, k4, k5, k6⟩ := ih _ _ hi' hd' hs' hf' hok.2
    simp only [runWith, ha]
    exact ⟨s', k1, k2, k3, k4, k5, by simp only [List.map_cons, hr, k6]⟩

theorem OpsOk_take (ops : List Op) : ∀ (f : FileIO) (k : Nat), OpsOk f ops → OpsOk f (ops.take k) := by
  induction ops with
  | nil => intro f k _; rw [List.take_nil]; exact True.intro
  | cons op rest ih =>
    intro f k h
    cases k with
    | zero => exact True.intro
    | succ k => exact ⟨h.1, ih _ k h.2⟩

/-- a tail that is `zeros`, byte by byte -/
theorem tail_zero_get (x : ByteArray) (v : Nat) (h : x.extract v x.size = zeros (x.size - v))
    (i : Nat) (h1 : v ≤ i) (h2 : i < x.size) : x[i]! = 0 := by
  have hs : i - v < (x.extract v x.size).size := by rw [ByteArray.size_extract]; omega
  have e1 : (x.extract v x.size)[i - v]'hs = x[i] := by
    rw [ByteArray.getElem_extract]; congr 1; omega
  have e2 : ∀ (y : ByteArray) (hy : y = zeros (x.size - v)) (hi : i - v < y.size), y[i - v]'hi = 0 := by
    intro y hy hi; subst hy
    simp [zeros, ByteArray.getElem_eq_getElem_data]
  rw [getElem!_pos x i h2, ← e1]
  exact e2 _ h hs


/-- the engine reads only ranges that lie inside the file (`datafile`: `size = min(fileSize-off,
    blockSize)`, `off < fileSize`): there the two `Read`s agree on the error as well (`nil`) -/
theorem read_full_agree (B : Nat) (hB : 0 < B) (s : Sparse) (f : FileIO) (off len : Nat) (h : SInv s)
    (hd : s.data = f.os.bytes) (h1 : off < f.os.bytes.size) (h2 : off + len ≤ f.os.bytes.size) :
    (s.abs.read B off len).2 = (f.read off len).2 := by
  rw [(abs_read B hB s off len h).1]
  unfold Sparse.read FileIO.read
  rw [hd, if_neg (by omega), extract_min]
  have : (f.os.bytes.extract off (off + len)).size = len := by rw [ByteArray.size_extract]; omega
  simp [this]

/-! ## 6. property-level statements -/

/-- C-fio-1: `MInv` holds after `NewMMap` and is preserved by every call, none of which faults. -/
theorem Fio_mmap_inv (B : Nat) (hB : 0 < B) :
    (∀ f : OsFile, MInv (MMap.open B f)) ∧
    (∀ (m : MMap) (op : Op), MInv m → MInv (m.apply B op).1 ∧ (m.apply B op).2 ≠ .fault) ∧
    (∀ m : MMap, MInv m → MInv m.close.1 ∧ m.close.2 ≠ .fault) :=
  ⟨open_inv B hB, apply_inv B hB, close_inv⟩

/-- No sequence of calls on a freshly opened `MMap` (any initial file), closed at the end, faults. -/
theorem Fio_no_fault (B : Nat) (hB : 0 < B) (f : OsFile) (ops : List Op) :
    Res.fault ∉ (MMap.run B f ops).2 := by
  have h := runWith_inv B hB ops _ (open_inv B hB f)
  have hc := close_inv _ h.1
  unfold MMap.run
  simp only [List.mem_append, List.mem_singleton, not_or]
  exact ⟨h.2, fun e => hc.2 e.symm⟩

/-- After `ResetFileSize` (Backup) the next write and the next read re-map first and succeed. -/
theorem Fio_reset_then_access (B : Nat) (hB : 0 < B) (m : MMap) (b : ByteArray) (off len : Nat) :
    (m.resetFileSize.1.write B b).2 = .n b.size ∧
    (0 < b.size → (m.resetFileSize.1.write B b).1.mapped = true) ∧
    (m.resetFileSize.1.read B off len).2 ≠ .fault := by
  refine ⟨(write_inv B hB _ b (resetFileSize_inv m)).2, ?_, (read_inv B hB _ off len (resetFileSize_inv m)).2⟩
  intro h0
  have hl := (remap_spec B hB m.resetFileSize.1 m.resetFileSize.1.virt b.size (resetFileSize_inv m)).2.2.2
  have : (m.resetFileSize.1.write B b).1.mapped
      = (m.resetFileSize.1.remap B m.resetFileSize.1.virt b.size).mapped := by
    unfold MMap.write; dsimp only; split <;> rfl
  rw [this]
  unfold MMap.mapLen at hl
  split at hl
  · assumption
  · omega

/-- Before the repair (`resetFileSizeOld` cuts the file but keeps the mapping): open, Backup, one
    non-empty write of at most a block — the store lies beyond the end of the file. -/
theorem Fio_needs_unmap (B : Nat) (hB : 0 < B) (f : OsFile) (b : ByteArray)
    (h0 : 0 < b.size) (hb : b.size ≤ B) :
    ((MMap.open B f).resetFileSizeOld.1.write B b).2 = .fault :=
  resetOld_write_faults B hB f b h0 hb

/-- Both back-ends, same initial file (arbitrary), same calls (`truncate n` only with `n ≤` the
    current size).  Before `Close`: same delivered bytes / sizes / write counts, the first `virt`
    bytes of the mmap file are the `FileIO` file, the rest is zeros.  After `Close`: same results,
    byte-identical files, physical size = logical size.  (For "at every step" apply this to
    `ops.take k`: `OpsOk_take`.) -/
theorem Fio_backends_agree (B : Nat) (hB : 0 < B) (file : OsFile) (ops : List Op)
    (hok : OpsOk (FileIO.open file) ops) :
    (let f := runWith FileIO.apply (FileIO.open file) ops
     let m := runWith (MMap.apply B) (MMap.open B file) ops
     m.2.map Res.obs = f.2.map Res.obs ∧
     m.1.os.bytes.extract 0 m.1.virt = f.1.os.bytes ∧
     m.1.os.bytes.extract m.1.virt m.1.os.bytes.size = zeros (m.1.os.bytes.size - m.1.virt)) ∧
    (MMap.run B file ops).2.map Res.obs = (FileIO.run file ops).2.map Res.obs ∧
    (MMap.run B file ops).1.os.bytes = (FileIO.run file ops).1.os.bytes ∧
    (MMap.run B file ops).1.os.bytes.size = (MMap.run B file ops).1.virt := by
  obtain ⟨ho, hi⟩ := abs_open B file
  obtain ⟨s, k1, k2, k3, k4, k5, k6⟩ :=
    agree_runWith B hB ops (FileIO.open file) (Sparse.open B file) hi
      (sremap_data B _ _ _).1 (sremap_data B _ _ _).2 rfl hok
  rw [← ho] at k2 k6
  unfold MMap.run FileIO.run
  dsimp only
  rw [k2, k6, ← k3]
  have hsz := abs_size s k1
  have hc : s.abs.close = (s.close.1.abs, s.close.2) := (abs_close s).1
  have hsc : s.close = ({ s.resetFileSize.1 with closed := true }, .ok) := by
    unfold Sparse.close; rw [k4]; rfl
  have hfc : (runWith FileIO.apply (FileIO.open file) ops).1.close
      = ({ (runWith FileIO.apply (FileIO.open file) ops).1 with closed := true }, .ok) := by
    unfold FileIO.close; rw [k5]; rfl
  refine ⟨⟨rfl, ?_, ?_⟩, ?_, ?_, ?_⟩
  · show (s.data ++ zeros _).extract 0 s.data.size = s.data
    rw [extract_pad_lo _ _ _ _ (Nat.le_refl _), ByteArray.extract_zero_size]
  · rw [hsz]
    show (s.data ++ zeros _).extract s.data.size s.phys = zeros (s.phys - s.data.size)
    have := extract_pad_hi s.data (s.phys - s.data.size) 0
    rw [Nat.add_zero, Nat.sub_zero, show s.data.size + (s.phys - s.data.size) = s.phys by
      have := k1.1; omega] at this
    exact this
  · rw [hc, hsc, hfc]; simp only [List.map_append, List.map_cons, List.map_nil]; rw [k6]
  · rw [hc, hsc, hfc, ← k3]
    show s.data ++ zeros (s.data.size - s.data.size) = s.data
    rw [Nat.sub_self, zeros_zero, ByteArray.append_empty]
  · rw [hc, hsc]
    show (s.data ++ zeros (s.data.size - s.data.size)).size = s.data.size
    rw [Nat.sub_self, zeros_zero, ByteArray.append_empty]

/-! ### examples (non-vacuity) and axioms -/

instance (sz : Nat) (op : Op) : Decidable (op.okAt sz) := by
  cases op <;> (unfold Op.okAt; infer_instance)

instance decOpsOk : ∀ (ops : List Op) (f : FileIO), Decidable (OpsOk f ops)
  | [], _ => isTrue True.intro
  | op :: rest, f => by
    unfold OpsOk
    exact @instDecidableAnd _ _ _ (decOpsOk rest _)

def b10 : ByteArray := ⟨#[1, 2, 3, 4, 5, 6, 7, 8, 9, 10]⟩
def ops1 : List Op := [.write b10, .truncate 7, .read 5 4, .resetFileSize, .size, .write ⟨#[42]⟩, .read 0 100]

-- the hypothesis of `Fio_backends_agree` is satisfiable, and this is what both runs deliver (B = 4)
example : OpsOk (FileIO.open ⟨b10⟩) ops1 := by decide
example : (MMap.run 4 ⟨b10⟩ ops1).2 =
    [.n 10, .ok, .data ⟨#[6, 7]⟩ false, .ok, .size 7, .n 1,
     .data ⟨#[1, 2, 3, 4, 5, 6, 7, 42]⟩ false, .ok] := by decide
example : (FileIO.run ⟨b10⟩ ops1).2 =
    [.n 10, .ok, .data ⟨#[6, 7]⟩ true, .ok, .size 7, .n 1,
     .data ⟨#[1, 2, 3, 4, 5, 6, 7, 42]⟩ true, .ok] := by decide
-- while open the mmap file is extended to a multiple of the block size, zero filled
example : (runWith (MMap.apply 4) (MMap.open 4 ⟨b10⟩) [.write ⟨#[42]⟩, .truncate 9]).1.os.bytes
    = ⟨#[1,2,3,4,5,6,7,8,9,0,0,0,0,0,0,0]⟩ := by decide
-- without the side condition the back-ends differ: `Truncate` beyond the size extends a `FileIO` file only
example : (MMap.run 4 ⟨b10⟩ [.truncate 12, .size]).2 = [.ok, .size 10, .ok] ∧
          (FileIO.run ⟨b10⟩ [.truncate 12, .size]).2 = [.ok, .size 12, .ok] := by decide
-- `virt ≤ endOff` is not invariant: Backup, then a small read maps only the first block
theorem virt_gt_endOff :
    let m := (runWith (MMap.apply 4) (MMap.open 4 ⟨b10⟩) [.resetFileSize, .read 0 1]).1
    m.mapped = true ∧ m.endOff = 4 ∧ m.virt = 10 := by decide
-- the fault of the unrepaired `ResetFileSize`, concretely
example : ((MMap.open 4 ⟨b10⟩).resetFileSizeOld.1.write 4 ⟨#[42]⟩).2 = .fault := by decide
-- ... and the repaired one
example : ((MMap.open 4 ⟨b10⟩).resetFileSize.1.write 4 ⟨#[42]⟩).2 = .n 1 := by decide


end XixiKV.Fio
