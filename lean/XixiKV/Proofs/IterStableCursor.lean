import XixiKV.Model.Batch
import XixiKV.Proofs.ShardIter
/-!
# The engine's iterator is the abstract cursor  (helper lemmas for C10 at engine level)

`Engine.Iter` (`Model/Batch.lean`) keeps the *unfiltered* snapshot in iteration order and an index
into it; `Iter.skip` moves the index to the next item whose key has the prefix.  `ShardIter.Abs`
(`Model/ShardIter.lean`) keeps the *filtered* snapshot and an index into that.  This file proves
that the two show the same `(Valid, Key, Pos)` on the fresh iterator and after every call of every
call sequence (`Iter.trace_eq`); `Seek` is forward-only on both sides.

The simulation relates the two cursors through their *remaining lists*:
`(items.drop cur).filter hasPrefix = A.drop i`, with `cur` *settled* (it stands on an item with
the prefix, or at the end).

Observation.  `Driver.lean` (`fmtIter`) prints an iterator as `it.items[it.cur]?`: invalid when
that is `none`, else the key and the value read through the position in the *current* database
state.  `Iter.obs` is exactly that cell, split into the three components of `ShardIter.Obs`.
-/
namespace XixiKV.Engine
open XixiKV.Frame XixiKV.Index XixiKV.ShardIter

/-- the state-changing iterator calls -/
def Iter.step (it : Iter) : Call → Iter
  | .rewind => it.rewind
  | .next => it.next
  | .seek k => it.seek k

/-- `Valid` / `Key` / the position `Value` reads — what `fmtIter` looks at: `it.items[it.cur]?` -/
def Iter.obs (it : Iter) : Obs Pos :=
  ⟨decide (it.cur < it.items.length), it.items[it.cur]?.map (·.1), it.items[it.cur]?.map (·.2)⟩

/-- observation of the fresh iterator, then after each call -/
def Iter.trace (it : Iter) : List Call → List (Obs Pos)
  | [] => [it.obs]
  | c :: cs => it.obs :: (it.step c).trace cs

def Iter.run (it : Iter) (calls : List Call) : Iter := calls.foldl Iter.step it

/-- the user loop `for ; it.Valid(); it.Next() { … it.Key(), position of it.Value() … }`
    (at most `fuel` rounds) -/
def Iter.collect : Nat → Iter → List (Option Key × Option Pos)
  | 0, _ => []
  | f + 1, it => if it.obs.valid then (it.obs.key, it.obs.value) :: collect f it.next else []

namespace IterP

/-! ## list facts -/

theorem filter_dropWhile_not {α : Type} (p : α → Bool) (l : List α) :
    (l.dropWhile (fun x => !p x)).filter p = l.filter p := by
  induction l with
  | nil => rfl
  | cons x xs ih =>
    rw [List.dropWhile_cons]
    cases hp : p x
    · simp only [Bool.not_false, if_true]
      rw [ih, List.filter_cons_of_neg (by simp [hp])]
    · simp only [Bool.not_true, Bool.false_eq_true, if_false]

theorem head_dropWhile_not {α : Type} (p : α → Bool) (l : List α) {x : α}
    (h : (l.dropWhile (fun x => !p x)).head? = some x) : p x = true := by
  induction l with
  | nil => simp at h
  | cons y ys ih =>
    rw [List.dropWhile_cons] at h
    cases hp : p y
    · simp only [hp, Bool.not_false, if_true] at h
      exact ih h
    · simp only [hp, Bool.not_true, Bool.false_eq_true, if_false, List.head?_cons, Option.some.injEq] at h
      rw [← h]; exact hp

theorem drop_length_takeWhile {α : Type} (q : α → Bool) (l : List α) :
    l.drop (l.takeWhile q).length = l.dropWhile q := by
  induction l with
  | nil => rfl
  | cons x xs ih =>
    rw [List.takeWhile_cons, List.dropWhile_cons]
    cases hq : q x
    · simp
    · simp [ih]

theorem engine_hasPrefix_eq (pre k : ByteArray) : Engine.hasPrefix pre k = ShardIter.hasPrefix pre k := rfl

/-- `Iter.skip` in one formula (with an empty prefix nothing is skipped because every key has it) -/
theorem skip_cur (it : Iter) :
    it.skip = { it with cur := it.cur +
      ((it.items.drop it.cur).takeWhile (fun x => !ShardIter.hasPrefix it.pre x.1)).length } := by
  unfold Iter.skip
  split
  · rename_i h0
    have : (it.items.drop it.cur).takeWhile (fun x => !ShardIter.hasPrefix it.pre x.1) = [] := by
      cases hl : it.items.drop it.cur with
      | nil => rfl
      | cons x xs => simp [hasPrefix_of_size_zero h0]
    rw [this]
    rfl
  · rfl

/-! ## the simulation -/

/-- before `skip`: same snapshot, same remaining items with the prefix -/
structure Pre (L : List (Key × Pos)) (pre : Key) (rev : Bool) (it : Iter) (a : Abs Pos) : Prop where
  items : it.items = L
  hpre : it.pre = pre
  hrev : it.rev = rev
  arev : a.reverse = rev
  aA : a.A = L.filter (fun x => ShardIter.hasPrefix pre x.1)
  rem : (L.drop it.cur).filter (fun x => ShardIter.hasPrefix pre x.1) = a.A.drop a.i
  le : a.i ≤ a.A.length

/-- the cursor stands on an item with the prefix, or at the end -/
def Settled (L : List (Key × Pos)) (pre : Key) (it : Iter) : Prop :=
  ∀ x, (L.drop it.cur).head? = some x → ShardIter.hasPrefix pre x.1 = true

structure CSim (L : List (Key × Pos)) (pre : Key) (rev : Bool) (it : Iter) (a : Abs Pos) : Prop
    extends Pre L pre rev it a where
  settled : Settled L pre it

theorem Pre.skip {L : List (Key × Pos)} {pre : Key} {rev : Bool} {it : Iter} {a : Abs Pos}
    (h : Pre L pre rev it a) : CSim L pre rev it.skip a := by
  have hd : L.drop (it.cur + ((L.drop it.cur).takeWhile (fun x => !ShardIter.hasPrefix pre x.1)).length)
      = (L.drop it.cur).dropWhile (fun x => !ShardIter.hasPrefix pre x.1) := by
    rw [← List.drop_drop, drop_length_takeWhile]
  rw [skip_cur]
  refine ⟨⟨h.items, h.hpre, h.hrev, h.arev, h.aA, ?_, h.le⟩, ?_⟩
  · show (L.drop (it.cur + ((it.items.drop it.cur).takeWhile
        (fun x => !ShardIter.hasPrefix it.pre x.1)).length)).filter _ = _
    rw [h.items, h.hpre, hd, filter_dropWhile_not (fun x : Key × Pos => ShardIter.hasPrefix pre x.1)]
    exact h.rem
  · intro x hx
    change (L.drop (it.cur + ((it.items.drop it.cur).takeWhile
        (fun x => !ShardIter.hasPrefix it.pre x.1)).length)).head? = some x at hx
    rw [h.items, h.hpre, hd] at hx
    exact head_dropWhile_not (fun x : Key × Pos => ShardIter.hasPrefix pre x.1) _ hx

/-- the two cursors stand on the same cell -/
theorem CSim.cell {L : List (Key × Pos)} {pre : Key} {rev : Bool} {it : Iter} {a : Abs Pos}
    (h : CSim L pre rev it a) : it.items[it.cur]? = a.A[a.i]? := by
  rw [h.items, ← List.head?_drop, ← List.head?_drop (l := a.A), ← h.rem]
  cases hl : L.drop it.cur with
  | nil => rfl
  | cons x xs =>
    have hp := h.settled x (by rw [hl]; rfl)
    rw [List.filter_cons_of_pos (p := fun y : Key × Pos => ShardIter.hasPrefix pre y.1) (a := x) hp]
    rfl

theorem CSim.valid {L : List (Key × Pos)} {pre : Key} {rev : Bool} {it : Iter} {a : Abs Pos}
    (h : CSim L pre rev it a) : (it.cur < it.items.length) ↔ (a.i < a.A.length) := by
  have := h.cell
  constructor
  · intro hlt
    rw [List.getElem?_eq_getElem hlt] at this
    by_cases hi : a.i < a.A.length
    · exact hi
    · rw [List.getElem?_eq_none (by omega)] at this; cases this
  · intro hlt
    rw [List.getElem?_eq_getElem hlt] at this
    by_cases hi : it.cur < it.items.length
    · exact hi
    · rw [List.getElem?_eq_none (by omega)] at this; cases this

theorem CSim.obs {L : List (Key × Pos)} {pre : Key} {rev : Bool} {it : Iter} {a : Abs Pos}
    (h : CSim L pre rev it a) : it.obs = a.obs := by
  unfold Iter.obs Abs.obs Abs.valid Abs.key Abs.value
  rw [h.cell]
  congr 1
  exact decide_eq_decide.mpr h.valid

/-! ## the calls -/

theorem CSim.rewind {L : List (Key × Pos)} {pre : Key} {rev : Bool} {it : Iter} {a : Abs Pos}
    (h : CSim L pre rev it a) : CSim L pre rev it.rewind a.rewind := by
  unfold Iter.rewind
  apply Pre.skip
  refine ⟨h.items, h.hpre, h.hrev, h.arev, h.aA, ?_, Nat.zero_le _⟩
  show (L.drop 0).filter _ = a.A.drop 0
  rw [List.drop_zero, List.drop_zero]
  exact h.aA.symm

theorem CSim.next {L : List (Key × Pos)} {pre : Key} {rev : Bool} {it : Iter} {a : Abs Pos}
    (h : CSim L pre rev it a) : CSim L pre rev it.next a.next := by
  unfold Iter.next Abs.next
  by_cases hv : it.cur < it.items.length
  · have hv' : a.i < a.A.length := h.valid.mp hv
    rw [if_pos hv, if_pos hv']
    apply Pre.skip
    refine ⟨h.items, h.hpre, h.hrev, h.arev, h.aA, ?_, hv'⟩
    show (L.drop (it.cur + 1)).filter _ = a.A.drop (a.i + 1)
    have hrem := h.rem
    have hvL : it.cur < L.length := by rw [← h.items]; exact hv
    rw [List.drop_eq_getElem_cons hvL, List.drop_eq_getElem_cons hv'] at hrem
    have hp : ShardIter.hasPrefix pre (L[it.cur]).1 = true :=
      h.settled _ (by rw [List.drop_eq_getElem_cons hvL]; rfl)
    rw [List.filter_cons_of_pos (p := fun y : Key × Pos => ShardIter.hasPrefix pre y.1) (a := L[it.cur]) hp] at hrem
    exact (List.cons.inj hrem).2
  · have hv' : ¬ a.i < a.A.length := fun x => hv (h.valid.mpr x)
    rw [if_neg hv, if_neg hv']
    exact h

theorem CSim.sortedA {L : List (Key × Pos)} {pre : Key} {rev : Bool} {it : Iter} {a : Abs Pos}
    (h : CSim L pre rev it a) (hs : Sorted rev L) : Sorted a.reverse a.A := by
  rw [h.aA, h.arev]; exact hs.filter _

theorem CSim.seek {L : List (Key × Pos)} {pre : Key} {rev : Bool} {it : Iter} {a : Abs Pos}
    (h : CSim L pre rev it a) (hs : Sorted rev L) (k : Key) : CSim L pre rev (it.seek k) (a.seek k) := by
  unfold Iter.seek
  have hcell := h.cell
  cases hc : it.items[it.cur]? with
  | none =>
    -- exhausted: both sides ignore the call
    simp only []
    rw [hc] at hcell
    have hv' : ¬ a.i < a.A.length := by
      intro hlt
      rw [List.getElem?_eq_getElem hlt] at hcell
      cases hcell
    rw [Abs.seek_exhausted k hv']
    exact h
  | some c =>
    simp only []
    rw [hc] at hcell
    have hlt : a.i < a.A.length := by
      by_cases hlt : a.i < a.A.length
      · exact hlt
      · rw [List.getElem?_eq_none (by omega)] at hcell; cases hcell
    have hc' : a.A[a.i] = c := by
      rw [List.getElem?_eq_getElem hlt] at hcell
      exact (Option.some.inj hcell).symm
    have hguard : (if it.rev = true then keyLt c.1 k else keyLt k c.1) = before a.reverse k a.A[a.i].1 := by
      rw [h.hrev, h.arev, hc']
      rfl
    rw [hguard]
    cases hb : before a.reverse k a.A[a.i].1
    · -- the target has not been passed
      obtain ⟨_, hseek⟩ := Abs.seek_ahead (h.sortedA hs) hlt hb
      rw [hseek]
      simp only [Bool.false_eq_true, if_false]
      have hlb : a.A.drop (Abs.lowerBound a.reverse k a.A) = a.A.dropWhile (fun x => before rev x.1 k) := by
        unfold Abs.lowerBound
        rw [h.arev, drop_findIdx]
        simp only [Bool.not_not]
      apply Pre.skip
      refine ⟨h.items, h.hpre, h.hrev, h.arev, h.aA, ?_, List.findIdx_le_length⟩
      have hq : (fun x : Key × Pos => if it.rev = true then keyLt k x.1 else keyLt x.1 k)
          = (fun x : Key × Pos => before rev x.1 k) := by
        funext x
        rw [h.hrev]
        rfl
      show (L.drop ((it.items.takeWhile _).length)).filter _ = a.A.drop (Abs.lowerBound a.reverse k a.A)
      rw [hlb, hq, h.items, drop_length_takeWhile, h.aA]
      exact (filter_dropWhile_before hs _ k).symm
    · -- the target lies before the current key: both sides ignore the call
      rw [Abs.seek_passed hlt hb]
      simp only [if_true]
      exact h

theorem CSim.step {L : List (Key × Pos)} {pre : Key} {rev : Bool} {it : Iter} {a : Abs Pos}
    (h : CSim L pre rev it a) (hs : Sorted rev L) (c : Call) :
    CSim L pre rev (it.step c) (a.step c) := by
  cases c with
  | rewind => exact h.rewind
  | next => exact h.next
  | seek k => exact h.seek hs k

theorem CSim.trace {L : List (Key × Pos)} {pre : Key} {rev : Bool} (hs : Sorted rev L) (calls : List Call) :
    ∀ {it : Iter} {a : Abs Pos}, CSim L pre rev it a →
      it.trace calls = a.trace calls := by
  induction calls with
  | nil => intro it a h; simp only [Iter.trace, Abs.trace, h.obs]
  | cons c cs ih =>
    intro it a h
    simp only [Iter.trace, Abs.trace, h.obs]
    rw [ih (h.step hs c)]

theorem CSim.run {L : List (Key × Pos)} {pre : Key} {rev : Bool} (hs : Sorted rev L) (calls : List Call) :
    ∀ {it : Iter} {a : Abs Pos}, CSim L pre rev it a →
      CSim L pre rev (it.run calls) (a.run calls) := by
  induction calls with
  | nil => intro it a h; exact h
  | cons c cs ih =>
    intro it a h
    exact ih (h.step hs c)

theorem CSim.collect {L : List (Key × Pos)} {pre : Key} {rev : Bool} (f : Nat) :
    ∀ {it : Iter} {a : Abs Pos}, CSim L pre rev it a → (a.A.drop a.i).length ≤ f →
      it.collect f = seen (a.A.drop a.i) := by
  induction f with
  | zero =>
    intro it a _ hf
    have : a.A.drop a.i = [] := List.length_eq_zero_iff.mp (by omega)
    simp only [Iter.collect, this, seen, List.map_nil]
  | succ f ih =>
    intro it a h hf
    have ho := h.obs
    cases hR : a.A.drop a.i with
    | nil =>
      have hv : a.obs.valid = false := by
        have := List.drop_eq_nil_iff.mp hR
        simp only [Abs.obs, Abs.valid, decide_eq_false_iff_not]
        omega
      simp only [Iter.collect, ho, hv, seen, List.map_nil]
      rfl
    | cons x R' =>
      obtain ⟨_, _, hd⟩ := abs_next_drop hR
      have hx : a.A[a.i]? = some x := by rw [← List.head?_drop, hR]; rfl
      have hlt : a.i < a.A.length := by
        have : a.A.drop a.i ≠ [] := by rw [hR]; simp
        have := mt List.drop_eq_nil_iff.mpr this
        omega
      have hv : a.obs.valid = true := by simp only [Abs.obs, Abs.valid, decide_eq_true_eq]; exact hlt
      have hk : a.obs.key = some x.1 := by simp only [Abs.obs, Abs.key, hx, Option.map_some]
      have hval : a.obs.value = some x.2 := by simp only [Abs.obs, Abs.value, hx, Option.map_some]
      have := ih h.next (by rw [hd]; rw [hR] at hf; simpa using hf)
      simp only [Iter.collect, ho, hv, hk, hval, if_true, this, hd, seen, List.map_cons]

/-- from any state reached by any call sequence, `Rewind` and the `Valid / Next` loop
    enumerate exactly the snapshot items with the prefix, in iteration order -/
theorem complete_engine {L : List (Key × Pos)} {pre : Key} {rev : Bool} (hs : Sorted rev L) {it : Iter}
    {a : Abs Pos} (h : CSim L pre rev it a) (calls : List Call)
    (fuel : Nat) (hfuel : a.A.length ≤ fuel) :
    ((it.run calls).rewind.collect fuel) = a.A.map (fun x => (some x.1, some x.2)) := by
  have h1 := (h.run hs calls).rewind
  have hA : ∀ (cs : List Call) (b : Abs Pos), (b.run cs).A = b.A := by
    intro cs
    induction cs with
    | nil => intro b; rfl
    | cons c cs ih =>
      intro b
      simp only [Abs.run, List.foldl_cons] at ih ⊢
      rw [ih]
      cases c
      · rfl
      · simp only [Abs.step, Abs.next]; split <;> rfl
      · exact Abs.seek_A _ _
  have := CSim.collect fuel h1 (by
    simp only [Abs.rewind, List.drop_zero, hA]; exact hfuel)
  simpa [Abs.rewind, hA, seen] using this

/-- creation: `DB.NewIterator` -/
theorem CSim.new (db : DB) (pre : Key) (rev : Bool) :
    CSim (iterOrder rev db.index) pre rev (iterNew db pre rev) (Abs.new rev pre db.index) := by
  unfold iterNew
  apply Pre.skip
  refine ⟨rfl, rfl, rfl, rfl, rfl, ?_, Nat.zero_le _⟩
  show ((iterOrder rev db.index).drop 0).filter _ = (Abs.new rev pre db.index).A.drop 0
  rw [List.drop_zero, List.drop_zero]
  rfl

end IterP
end XixiKV.Engine
