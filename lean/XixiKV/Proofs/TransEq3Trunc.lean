import XixiKV.Proofs.TransEq2Read
/-! # translated `(*DataFile).Truncate` = model (translator round 3; a module of its own so that a change of
    `Truncate` affects only the obligation that restates it) -/
namespace XixiKV.TransEq
open XixiKV XixiKV.Generated.Trans XixiKV.Frame

/-! ## `(*DataFile).Truncate` -/

/-- **`(*DataFile).Truncate`** on an open file in the writer state of `file`: a size at or beyond the end changes
    nothing; a smaller one cuts the file (`truncate` effect) and sets `(lastBlockID, lastBlockSize)` to
    `(size / BS, size % BS)` -/
theorem trans_Truncate_eq (file : ByteArray) (size : Nat) (h : file.size / BS < 2^32) :
    datafile.Truncate file (file.size / BS) (file.size % BS) false (size : Int)
      = if size ≥ file.size then ((none, file.size / BS, file.size % BS), file)
        else ((none, size / BS, size % BS), file.extract 0 size) := by
  have hsz := trans_Size_eq file.size h
  rw [hBS] at h ⊢
  rw [hBS] at hsz
  by_cases hc : size ≥ file.size
  · rw [if_pos hc]
    simp (disch := omega) only [datafile.Truncate, Bool.false_eq_true, ↓reduceIte, hsz, if_pos]
  · rw [if_neg hc]
    simp (disch := omega) only [datafile.Truncate, Bool.false_eq_true, ↓reduceIte, hsz, if_neg, datafile.blockSize,
      Int.toNat_natCast, tdiv_of_nonneg, Int.tmod_eq_emod_of_nonneg]
    refine Prod.ext (Prod.ext rfl (Prod.ext ?_ ?_)) rfl
    · show ((size : Int) / ((32768 : Nat) : Int) % 2 ^ 32).toNat = size / 32768
      omega
    · show ((size : Int) % ((32768 : Nat) : Int) % 2 ^ 32).toNat = size % 32768
      omega

/-- … so the writer-state invariant `(lastBlockID, lastBlockSize) = (size / BS, size % BS)` of the file, which
    every other theorem about the translated functions assumes, is preserved by `Truncate` -/
theorem trans_Truncate_inv (file : ByteArray) (size : Nat) (h : file.size / BS < 2^32) :
    (datafile.Truncate file (file.size / BS) (file.size % BS) false (size : Int)).1
      = (none, (datafile.Truncate file (file.size / BS) (file.size % BS) false (size : Int)).2.size / BS,
         (datafile.Truncate file (file.size / BS) (file.size % BS) false (size : Int)).2.size % BS) := by
  rw [trans_Truncate_eq file size h]
  by_cases hc : size ≥ file.size
  · rw [if_pos hc]
  · rw [if_neg hc]
    have : (file.extract 0 size).size = size := by rw [ByteArray.size_extract]; omega
    simp only [this]

/-- a closed file: `ErrClosed`, nothing changes -/
theorem trans_Truncate_closed (file : ByteArray) (a b : Nat) (size : Int) :
    datafile.Truncate file a b true size = ((some "ErrClosed", a, b), file) := rfl

example : datafile.Truncate ⟨#[1, 2, 3, 4, 5]⟩ 0 5 false 2 = ((none, 0, 2), ⟨#[1, 2]⟩) := by decide

end XixiKV.TransEq
