import XixiKV.Proofs.EngineDefs
import XixiKV.Proofs.Truncate
/-!
# Restart: what `openDB` recomputes from a directory that matches a ghost directory

* `loadFile_ghost`, `loadIndex_ghost` : scanning files that are byte-for-byte the ghost files
  replays exactly `logOf g` and leaves the files alone (for both kinds of reader).
* `loadFile_cut` : scanning a truncated last file (the reader of the active file tolerates a torn
  tail, `tol = true`) replays the records wholly inside the cut and truncates the file to exactly
  the bytes of those records.
* `loadFile_cut_strict` : a file other than the last one (strict reader, `tol = false`) that ends
  inside a chunk makes `loadFile` fail.
* index laws (`keyLt` is a strict total order; `put`/`erase` keep the list sorted; `liveBytes`
  accounting), the replay invariant `RInv` and the counter equation `replay_counters`.
* `openDB_scan` : `openDB` on a directory without a merge directory, reduced to `loadIndex`.
-/
namespace XixiKV.Engine.Restart
open XixiKV XixiKV.Engine XixiKV.Frame XixiKV.Record XixiKV.Index

/-- the fold `loadIndexFromDataFiles` performs over a list of (record, position) -/
def replayFrom (r : Replay) (l : List (Record × Pos)) : Replay :=
  l.foldl (fun r x => replayRec r x.1 x.2) r

theorem replayLog_eq (l : List (Record × Pos)) : replayLog l = replayFrom Replay.init l := rfl

theorem replayFrom_append (r : Replay) (a b : List (Record × Pos)) :
    replayFrom r (a ++ b) = replayFrom (replayFrom r a) b := by
  unfold replayFrom; rw [List.foldl_append]

theorem replayFrom_nil (r : Replay) : replayFrom r [] = r := rfl

theorem replayFrom_cons (r : Replay) (x : Record × Pos) (l : List (Record × Pos)) :
    replayFrom r (x :: l) = replayFrom (replayRec r x.1 x.2) l := rfl

/-! ## one file -/

theorem payloads_pos (gf : GFile) : ∀ d ∈ payloads gf, 0 < d.size := by
  intro d hd
  simp only [payloads, List.mem_map] at hd
  obtain ⟨r, _, rfl⟩ := hd
  have := encodeRecord_size_ge r
  omega

theorem _root_.XixiKV.Engine.RecOK.decode {r : Record} (h : RecOK r) : decodeRecord (encodeRecord r) = some r := by
  obtain ⟨h1, _, h3, h4, h5⟩ := h
  exact decodeRecord_encodeRecord r (by omega) h3 h4 h5

theorem decoded_eq (gf : GFile) (hok : ∀ x ∈ gf, RecOK x) : ∀ ps : List Pos,
    ((payloads gf).zip ps).map (fun (x : ByteArray × Pos) => (decodeRecord x.1, x.2))
      = (gf.zip ps).map (fun (x : Record × Pos) => (some x.1, x.2)) := by
  induction gf with
  | nil => intro ps; simp [payloads]
  | cons a t ih =>
    intro ps
    cases ps with
    | nil => simp [payloads]
    | cons p ps =>
      have ha := (hok a (by simp)).decode
      have := ih (fun x hx => hok x (by simp [hx])) ps
      simp only [payloads, List.map_cons, List.zip_cons_cons] at this ⊢
      rw [ha, this]

/-- `loadFile` on a file whose scan returns exactly the encodings of `gf` (at positions `ps`) -/
theorem loadFile_of_scan (r : Replay) (id : Nat) (f : FileSt) (tol : Bool) (gf : GFile) (ps : List Pos)
    (v : Nat) (hok : ∀ x ∈ gf, RecOK x)
    (hscan : scan C tol id f.bytes = { recs := (payloads gf).zip ps, validEnd := v, ok := true }) :
    loadFile r id f tol = some (replayFrom r (gf.zip ps),
      if v < f.bytes.size then { bytes := f.bytes.extract 0 v, synced := min f.synced v } else f) := by
  unfold loadFile
  simp only [hscan, Bool.not_true, Bool.false_eq_true, if_false]
  rw [decoded_eq gf hok ps]
  have hany : ((gf.zip ps).map (fun (x : Record × Pos) => (some x.1, x.2))).any
      (fun x => x.1.isNone) = false := by
    rw [List.any_eq_false]; intro x hx
    simp only [List.mem_map] at hx
    obtain ⟨y, _, rfl⟩ := hx
    simp
  rw [hany]
  simp only [Bool.false_eq_true, if_false, List.foldl_map]
  rfl

/-- **(1)** a file that is byte for byte what its ghost records produce is replayed record by
    record, with the writer's positions, and is not touched -/
theorem loadFile_ghost (r : Replay) (id : Nat) (gf : GFile) (sy : Nat) (tol : Bool)
    (hok : ∀ x ∈ gf, RecOK x) :
    loadFile r id ⟨bytesOf gf, sy⟩ tol
      = some ((gf.zip (possOf id gf)).foldl (fun r x => replayRec r x.1 x.2) r, ⟨bytesOf gf, sy⟩) := by
  have hscan := scan_build C tol id (payloads gf) (payloads_pos gf)
  have := loadFile_of_scan r id ⟨bytesOf gf, sy⟩ tol gf (possOf id gf) (bytesOf gf).size hok hscan
  rw [this, if_neg (Nat.lt_irrefl _)]
  rfl

theorem payloads_take (gf : GFile) (j : Nat) : (payloads gf).take j = payloads (gf.take j) := by
  simp [payloads, List.map_take]

/-- the same for a file cut at any length `n`: the records wholly inside the cut are replayed and
    the file is truncated to exactly their bytes -/
theorem loadFile_cut (r : Replay) (id : Nat) (gf : GFile) (sy n : Nat) (hok : ∀ x ∈ gf, RecOK x)
    (hn : n ≤ (bytesOf gf).size) :
    ∃ j, j ≤ gf.length ∧ (bytesOf (gf.take j)).size ≤ n ∧
      (j < gf.length → n < (bytesOf (gf.take (j+1))).size) ∧
      ∃ sy', loadFile r id ⟨(bytesOf gf).extract 0 n, sy⟩ true
        = some (replayFrom r ((gf.take j).zip (possOf id (gf.take j))), ⟨bytesOf (gf.take j), sy'⟩) := by
  obtain ⟨j, hj, hfit, hnfit, hscan⟩ := scan_truncate C id (payloads gf) (payloads_pos gf) n hn
  simp only [payloads_take] at hfit hnfit hscan
  refine ⟨j, by simpa [payloads] using hj, hfit, ?_, ?_⟩
  · intro h; exact hnfit (by simpa [payloads] using h)
  · have hokj : ∀ x ∈ gf.take j, RecOK x := fun x hx => hok x (List.mem_of_mem_take hx)
    have := loadFile_of_scan r id ⟨(bytesOf gf).extract 0 n, sy⟩ true (gf.take j) (possOf id (gf.take j))
      (bytesOf (gf.take j)).size hokj hscan
    rw [this]
    have hsz : ((bytesOf gf).extract 0 n).size = n := size_extract0 _ _ hn
    by_cases hlt : (bytesOf (gf.take j)).size < n
    · refine ⟨min sy (bytesOf (gf.take j)).size, ?_⟩
      simp only [hsz, if_pos hlt]
      have hcut := truncate_validEnd C (payloads gf) j n (by simpa only [payloads_take] using hfit)
      simp only [payloads_take] at hcut
      show some (_, (⟨((bytesOf gf).extract 0 n).extract 0 (bytesOf (gf.take j)).size, _⟩ : FileSt)) = _
      unfold bytesOf at ⊢
      rw [hcut]
    · refine ⟨sy, ?_⟩
      simp only [hsz, if_neg hlt]
      have heq : (bytesOf (gf.take j)).size = n := by
        have : (bytesOf (gf.take j)).size ≤ n := hfit
        omega
      have hcut := truncate_validEnd C (payloads gf) j n (by simpa only [payloads_take] using hfit)
      simp only [payloads_take] at hcut
      have h2 : (bytesOf gf).extract 0 n = bytesOf (gf.take j) := by
        unfold bytesOf at heq ⊢
        rw [heq] at hcut
        rw [← hcut]
        exact (extract_all _ _ (Nat.le_of_eq hsz)).symm
      rw [h2]

/-- the strict reader (`tol = false`: every data file except the last one): a file that ends inside
    a chunk of record `j` (hypotheses as in `scan_truncate_strict`) makes `loadFile` — and with it
    `Open` — fail; the tail is not silently dropped -/
theorem loadFile_cut_strict (r : Replay) (id : Nat) (gf : GFile) (sy j n : Nat) (hj : j < gf.length)
    (hlo : (bytesOf (gf.take j)).size + padOf ((bytesOf (gf.take j)).size % BS) < n)
    (hhi : n < (bytesOf (gf.take (j+1))).size) (hnb : n % BS ≠ 0)
    (hnz : allZeroFrom ((bytesOf gf).extract 0 n)
      (max ((bytesOf (gf.take j)).size + padOf ((bytesOf (gf.take j)).size % BS)) (n / BS * BS)) = false) :
    loadFile r id ⟨(bytesOf gf).extract 0 n, sy⟩ false = none := by
  unfold bytesOf at hlo hhi hnz
  simp only [← payloads_take] at hlo hhi hnz
  have hscan := scan_truncate_strict C id (payloads gf) (payloads_pos gf) j n
    (by simpa [payloads] using hj) hlo hhi hnb hnz
  unfold loadFile bytesOf
  simp only [hscan, Bool.not_false, if_true]

/-! ## all files -/

theorem Matches_nil_left {g : GDir} : Matches [] g ↔ g = [] := by
  cases g <;> simp [Matches]

theorem Matches_cons {x : Nat × FileSt} {data : List (Nat × FileSt)} {g : GDir} :
    Matches (x :: data) g ↔ ∃ y g', g = y :: g' ∧ x.1 = y.1 ∧ x.2.bytes = bytesOf y.2 ∧ Matches data g' := by
  cases g with
  | nil => simp [Matches]
  | cons y g' =>
    simp only [Matches]
    constructor
    · intro h; exact ⟨y, g', rfl, h⟩
    · rintro ⟨y', g'', h, h'⟩
      cases h; exact h'

theorem logOf_cons (y : Nat × GFile) (g : GDir) :
    logOf (y :: g) = y.2.zip (possOf y.1 y.2) ++ logOf g := by
  simp [logOf, List.flatMap_cons]

theorem logOf_append (a b : GDir) : logOf (a ++ b) = logOf a ++ logOf b := by
  simp [logOf, List.flatMap_append]

/-- files matching a ghost directory, followed by arbitrary files: the matching part replays the
    ghost log and is returned unchanged -/
theorem loadIndex_append_ghost : ∀ (dataI : List (Nat × FileSt)) (gI : GDir) (r : Replay)
    (rest : List (Nat × FileSt)), Matches dataI gI → (∀ x ∈ gI, ∀ r ∈ x.2, RecOK r) →
    loadIndex r 0 (dataI ++ rest)
      = match loadIndex (replayFrom r (logOf gI)) 0 rest with
        | some (r', fs) => some (r', dataI ++ fs)
        | none => none := by
  intro dataI
  induction dataI with
  | nil =>
    intro gI r rest hm _
    rw [Matches_nil_left] at hm; subst hm
    simp only [List.nil_append, logOf, List.flatMap_nil, replayFrom_nil]
    cases loadIndex r 0 rest with
    | none => rfl
    | some p => rfl
  | cons x data ih =>
    intro gI r rest hm hok
    rw [Matches_cons] at hm
    obtain ⟨y, g', rfl, hid, hb, hm'⟩ := hm
    obtain ⟨id, f⟩ := x
    obtain ⟨fb, fs⟩ := f
    simp only at hid hb
    subst hb
    have hoky : ∀ r ∈ y.2, RecOK r := hok y (by simp)
    have hok' : ∀ x ∈ g', ∀ r ∈ x.2, RecOK r := fun x hx => hok x (by simp [hx])
    simp only [List.cons_append, loadIndex, Nat.not_lt_zero, if_false]
    rw [loadFile_ghost r id y.2 fs _ hoky]
    simp only []
    rw [ih g' _ rest hm' hok', logOf_cons, replayFrom_append, hid]
    unfold replayFrom
    cases loadIndex (List.foldl (fun r x => replayRec r x.1 x.2)
      (List.foldl (fun r x => replayRec r x.1 x.2) r (y.2.zip (possOf y.1 y.2))) (logOf g')) 0 rest with
    | none => rfl
    | some p => rfl

/-- **(2)** a directory whose files are the ghost files replays `logOf g`; the files are returned
    unchanged -/
theorem loadIndex_ghost (r : Replay) (data : List (Nat × FileSt)) (g : GDir) (hm : Matches data g)
    (hok : ∀ x ∈ g, ∀ r ∈ x.2, RecOK r) :
    loadIndex r 0 data = some ((logOf g).foldl (fun r x => replayRec r x.1 x.2) r, data) := by
  have := loadIndex_append_ghost data g r [] hm hok
  simpa [loadIndex, replayFrom] using this

theorem loadIndex_ghost_init (data : List (Nat × FileSt)) (g : GDir) (hm : Matches data g)
    (hok : ∀ x ∈ g, ∀ r ∈ x.2, RecOK r) :
    loadIndex Replay.init 0 data = some (replayLog (logOf g), data) :=
  loadIndex_ghost Replay.init data g hm hok

/-! ## `keyLt` is a strict total order -/

theorem ltList_irrefl : ∀ a : List UInt8, ltList a a = false := by
  intro a
  induction a with
  | nil => rfl
  | cons x xs ih => simp [ltList, UInt8.lt_irrefl, ih]

theorem ltList_trans : ∀ a b c : List UInt8, ltList a b = true → ltList b c = true → ltList a c = true := by
  intro a
  induction a with
  | nil =>
    intro b c h1 h2
    cases b with
    | nil => simp [ltList] at h1
    | cons y ys =>
      cases c with
      | nil => simp [ltList] at h2
      | cons z zs => simp [ltList]
  | cons x xs ih =>
    intro b c h1 h2
    cases b with
    | nil => simp [ltList] at h1
    | cons y ys =>
      cases c with
      | nil => simp [ltList] at h2
      | cons z zs =>
        simp only [ltList] at h1 h2 ⊢
        by_cases hxy : x < y
        · by_cases hyz : y < z
          · rw [if_pos (UInt8.lt_trans hxy hyz)]
          · rw [if_neg hyz] at h2
            by_cases hzy : z < y
            · rw [if_pos hzy] at h2; cases h2
            · have : y = z := UInt8.le_antisymm (UInt8.not_lt.mp hzy) (UInt8.not_lt.mp hyz)
              subst this; rw [if_pos hxy]
        · rw [if_neg hxy] at h1
          by_cases hyx : y < x
          · rw [if_pos hyx] at h1; cases h1
          · rw [if_neg hyx] at h1
            have : x = y := UInt8.le_antisymm (UInt8.not_lt.mp hyx) (UInt8.not_lt.mp hxy)
            subst this
            by_cases hxz : x < z
            · rw [if_pos hxz]
            · rw [if_neg hxz] at h2 ⊢
              by_cases hzx : z < x
              · rw [if_pos hzx] at h2; cases h2
              · rw [if_neg hzx] at h2 ⊢
                exact ih ys zs h1 h2

theorem ltList_total : ∀ a b : List UInt8, ltList a b = false → ltList b a = false → a = b := by
  intro a
  induction a with
  | nil =>
    intro b h1 _
    cases b with
    | nil => rfl
    | cons y ys => simp [ltList] at h1
  | cons x xs ih =>
    intro b h1 h2
    cases b with
    | nil => simp [ltList] at h2
    | cons y ys =>
      simp only [ltList] at h1 h2
      by_cases hxy : x < y
      · rw [if_pos hxy] at h1; cases h1
      · rw [if_neg hxy] at h1 h2
        by_cases hyx : y < x
        · rw [if_pos hyx] at h2; cases h2
        · rw [if_neg hyx] at h1 h2
          have : x = y := UInt8.le_antisymm (UInt8.not_lt.mp hyx) (UInt8.not_lt.mp hxy)
          subst this
          rw [ih ys h1 h2]

theorem keyLt_irrefl (a : Key) : keyLt a a = false := ltList_irrefl _

theorem keyLt_trans {a b c : Key} (h1 : keyLt a b = true) (h2 : keyLt b c = true) : keyLt a c = true :=
  ltList_trans _ _ _ h1 h2

theorem keyLt_total {a b : Key} (h1 : keyLt a b = false) (h2 : keyLt b a = false) : a = b := by
  have := ltList_total _ _ h1 h2
  exact ByteArray.ext (Array.toList_inj.mp this)

theorem keyLt_ne {a b : Key} (h : keyLt a b = true) : a ≠ b := by
  intro e; subst e; rw [keyLt_irrefl] at h; cases h

/-! ## index laws -/

theorem SortedKeys_nil : SortedKeys [] := List.Pairwise.nil

theorem mem_put {ix : Index} {k : Key} {p : Pos} {x : Key × Pos} (h : x ∈ Index.put ix k p) :
    x = (k, p) ∨ x ∈ ix := by
  induction ix with
  | nil => simp [Index.put] at h; exact Or.inl h
  | cons y rest ih =>
    obtain ⟨k', p'⟩ := y
    simp only [Index.put] at h
    split at h
    · simp only [List.mem_cons] at h ⊢
      rcases h with h | h
      · exact Or.inl h
      · exact Or.inr (Or.inr h)
    · split at h
      · simp only [List.mem_cons] at h ⊢
        rcases h with h | h | h
        · exact Or.inl h
        · exact Or.inr (Or.inl h)
        · exact Or.inr (Or.inr h)
      · simp only [List.mem_cons] at h ⊢
        rcases h with h | h
        · exact Or.inr (Or.inl h)
        · rcases ih h with h | h
          · exact Or.inl h
          · exact Or.inr (Or.inr h)

theorem SortedKeys_put {ix : Index} (k : Key) (p : Pos) (h : SortedKeys ix) : SortedKeys (Index.put ix k p) := by
  induction ix with
  | nil => simp [Index.put, SortedKeys]
  | cons y rest ih =>
    obtain ⟨k', p'⟩ := y
    unfold SortedKeys at h ih ⊢
    rw [List.pairwise_cons] at h
    obtain ⟨hall, hrest⟩ := h
    simp only [Index.put]
    split
    · rename_i e
      subst e
      rw [List.pairwise_cons]; exact ⟨hall, hrest⟩
    · rename_i hne
      split
      · rename_i hlt
        rw [List.pairwise_cons]
        refine ⟨?_, List.pairwise_cons.mpr ⟨hall, hrest⟩⟩
        intro a ha
        simp only [List.mem_cons] at ha
        rcases ha with rfl | ha
        · exact hlt
        · exact keyLt_trans hlt (hall a ha)
      · rename_i hnlt
        rw [List.pairwise_cons]
        refine ⟨?_, ih hrest⟩
        intro a ha
        rcases mem_put ha with rfl | ha
        · show keyLt k' k = true
          cases hc : keyLt k' k with
          | true => rfl
          | false =>
            exfalso; apply hne
            exact keyLt_total hc (by simpa using hnlt)
        · exact hall a ha

theorem erase_sublist (ix : Index) (k : Key) : (Index.erase ix k).Sublist ix := by
  induction ix with
  | nil => simp [Index.erase]
  | cons y rest ih =>
    obtain ⟨k', p'⟩ := y
    simp only [Index.erase]
    split
    · exact List.sublist_cons_self _ _
    · exact List.Sublist.cons_cons _ ih

theorem SortedKeys_erase {ix : Index} (k : Key) (h : SortedKeys ix) : SortedKeys (Index.erase ix k) :=
  List.Pairwise.sublist (erase_sublist ix k) h

/-- size of the record the index holds for `k` (0 when absent) -/
def oldSize (ix : Index) (k : Key) : Nat :=
  match Index.get ix k with
  | some o => o.size
  | none => 0

theorem liveBytes_cons (x : Key × Pos) (ix : Index) : liveBytes (x :: ix) = x.2.size + liveBytes ix := by
  simp [liveBytes]

theorem get_none_of_lt {ix : Index} {k : Key} (h : ∀ a ∈ ix, keyLt k a.1 = true) : Index.get ix k = none := by
  induction ix with
  | nil => rfl
  | cons y rest ih =>
    obtain ⟨k', p'⟩ := y
    simp only [Index.get]
    have := keyLt_ne (h (k', p') (by simp))
    rw [if_neg (fun e => this e.symm)]
    exact ih (fun a ha => h a (by simp [ha]))

theorem liveBytes_put {ix : Index} (k : Key) (p : Pos) (h : SortedKeys ix) :
    liveBytes (Index.put ix k p) + oldSize ix k = liveBytes ix + p.size := by
  induction ix with
  | nil => simp [Index.put, oldSize, Index.get, liveBytes]
  | cons y rest ih =>
    obtain ⟨k', p'⟩ := y
    unfold SortedKeys at h ih
    rw [List.pairwise_cons] at h
    obtain ⟨hall, hrest⟩ := h
    simp only [Index.put, oldSize, Index.get]
    split
    · simp only [liveBytes_cons]; omega
    · split
      · rename_i hlt
        have hn : Index.get rest k = none :=
          get_none_of_lt (fun a ha => keyLt_trans hlt (hall a ha))
        rw [hn]
        simp only [liveBytes_cons]; omega
      · have := ih hrest
        simp only [oldSize] at this
        simp only [liveBytes_cons]; omega

theorem liveBytes_erase (ix : Index) (k : Key) :
    liveBytes (Index.erase ix k) + oldSize ix k = liveBytes ix := by
  induction ix with
  | nil => simp [Index.erase, oldSize, Index.get, liveBytes]
  | cons y rest ih =>
    obtain ⟨k', p'⟩ := y
    simp only [Index.erase, oldSize, Index.get]
    split
    · simp only [liveBytes_cons]; omega
    · simp only [oldSize] at ih
      simp only [liveBytes_cons]; omega

/-! ## the replay invariant: sorted index and the counter equation -/

theorem apply_index (r : Replay) (k : ByteArray) (t : Nat) (p : Pos) :
    (r.apply k t p).index = if t = 1 then Index.erase r.index k else Index.put r.index k p := by
  unfold Replay.apply
  by_cases h : t = 1 <;> simp only [h, if_true, if_false] <;> split <;> rfl

theorem apply_pending (r : Replay) (k : ByteArray) (t : Nat) (p : Pos) :
    (r.apply k t p).pending = r.pending := by
  unfold Replay.apply
  by_cases h : t = 1 <;> simp only [h, if_true, if_false] <;> split <;> rfl

theorem apply_total (r : Replay) (k : ByteArray) (t : Nat) (p : Pos) :
    (r.apply k t p).total = r.total + p.size := by
  unfold Replay.apply
  by_cases h : t = 1 <;> simp only [h, if_true, if_false] <;> split <;> rfl

theorem apply_reclaim (r : Replay) (k : ByteArray) (t : Nat) (p : Pos) :
    (r.apply k t p).reclaim = r.reclaim + (if t = 1 then p.size else 0) + oldSize r.index k := by
  unfold Replay.apply oldSize
  by_cases h : t = 1 <;> simp only [h, if_true, if_false] <;> split <;> simp_all

/-- sorted index, and `total = reclaim + live bytes` (records parked in `pending` are counted in
    neither `total` nor `reclaim`: `loadIndexFromDataFiles` counts a batch record only when its
    sealing record arrives) -/
structure RInv (r : Replay) : Prop where
  sorted : SortedKeys r.index
  counters : r.total = r.reclaim + liveBytes r.index

theorem RInv.init : RInv Replay.init := ⟨SortedKeys_nil, by simp [Replay.init, liveBytes]⟩

theorem RInv.apply {r : Replay} (h : RInv r) (k : ByteArray) (t : Nat) (p : Pos) : RInv (r.apply k t p) := by
  obtain ⟨hs, hc⟩ := h
  constructor
  · rw [apply_index]; split
    · exact SortedKeys_erase k hs
    · exact SortedKeys_put k p hs
  · rw [apply_index, apply_total, apply_reclaim]
    split
    · have := liveBytes_erase r.index k; omega
    · have := liveBytes_put k p hs; omega

theorem RInv.applyAll {r : Replay} (h : RInv r) (l : List (Record × Pos)) :
    RInv (l.foldl (fun r (x : Record × Pos) => r.apply x.1.key x.1.typ x.2) r) := by
  induction l generalizing r with
  | nil => exact h
  | cons x t ih => exact ih (h.apply _ _ _)

theorem RInv.replayRec {r : Replay} (h : RInv r) (rec : Record) (pos : Pos) : RInv (replayRec r rec pos) := by
  unfold Engine.replayRec
  split
  · exact h.apply _ _ _
  · split
    · have h0 : RInv { r with total := r.total + pos.size, reclaim := r.reclaim + pos.size } :=
        ⟨h.sorted, by have := h.counters; simp only; omega⟩
      have h1 := h0.applyAll (pendingGet r.pending rec.batch)
      exact ⟨h1.sorted, h1.counters⟩
    · exact ⟨h.sorted, h.counters⟩

theorem RInv.replayFrom {r : Replay} (h : RInv r) (l : List (Record × Pos)) : RInv (replayFrom r l) := by
  induction l generalizing r with
  | nil => exact h
  | cons x t ih => exact ih (h.replayRec _ _)

theorem replay_sorted (l : List (Record × Pos)) : SortedKeys (replayLog l).index :=
  (RInv.init.replayFrom l).sorted

/-- **generic accounting lemma**: for every log whatsoever, the counters a scan-path restart
    computes satisfy `total = reclaim + bytes of the live records`.  Records still parked in
    `pending` (tagged records whose sealing record never arrived — after a crash that tore a batch)
    contribute to neither side: they are not counted in `total` at all. -/
theorem replay_counters (l : List (Record × Pos)) :
    (replayLog l).total = (replayLog l).reclaim + liveBytes (replayLog l).index :=
  (RInv.init.replayFrom l).counters

/-! ## worlds -/

theorem World.get_set_self (w : World) (d : String) (x : DirSt) : (w.set d x).get d = some x := by
  induction w with
  | nil => simp [World.set, World.get]
  | cons y rest ih =>
    obtain ⟨n, s'⟩ := y
    simp only [World.set]
    split
    · rename_i h; simp [World.get, h]
    · rename_i h; simp [World.get, h, ih]

theorem World.get_set_ne (w : World) (d d' : String) (x : DirSt) (h : d' ≠ d) :
    (w.set d x).get d' = w.get d' := by
  induction w with
  | nil => simp [World.set, World.get, h.symm]
  | cons y rest ih =>
    obtain ⟨n, s'⟩ := y
    simp only [World.set]
    split
    · rename_i hn; subst hn; simp [World.get, h.symm]
    · rename_i hn
      simp only [World.get]
      rw [ih]

theorem mergeDirName_ne (d : String) : mergeDirName d ≠ d := by
  intro h
  have := congrArg String.length h
  simp [mergeDirName, String.length_append] at this

/-! ## `openDB` without a merge directory is the scan path -/

/-- the handle `openDB` builds from a replay result -/
def mkDB (cfg : Cfg) (dir : String) (r : Replay) (data : List (Nat × FileSt)) : DB :=
  { cfg := cfg, dir := dir,
    activeId := (match data.getLast? with
      | some (i, _) => i
      | none => 0),
    index := r.index, reclaim := r.reclaim, total := r.total, bytesWrite := 0, batch := none }

theorem openDB_scan (s : St) (dir : String) (cfg : Cfg) (d : DirSt) (r : Replay)
    (data' : List (Nat × FileSt))
    (hdb : s.db = none) (hcfg : cfg.Valid) (hd : s.world.get dir = some d)
    (hl : d.locked = false) (hm : s.world.get (mergeDirName dir) = none) (hne : d.data ≠ [])
    (hload : loadIndex Replay.init 0 d.data = some (r, data')) :
    openDB s dir cfg
      = ({ world := s.world.set dir { d with data := data', locked := true },
           db := some (mkDB cfg dir r data') }, .ok) := by
  unfold openDB
  simp only [hdb, if_neg hcfg.not_rejected, hd, Option.isNone_some, Bool.false_eq_true, if_false, Option.getD_some, hl]
  have hadopt : adopt s.world dir = (s.world, 0) := by
    unfold adopt; simp only [hm]
  simp only [hadopt, hd, Option.getD_some, Nat.lt_irrefl, if_false, ite_self]
  have hne' : d.data.isEmpty = false := by
    cases hdd : d.data with
    | nil => exact absurd hdd hne
    | cons _ _ => rfl
  simp only [hne', Bool.not_false, if_true]
  have hload' : loadIndex { index := [], reclaim := 0, total := 0, pending := [] } 0 d.data = some (r, data') := hload
  simp only [hload']
  rfl

/-! ## `close` -/

/-- what `Close` does to the data files: everything is flushed -/
def syncAll (data : List (Nat × FileSt)) : List (Nat × FileSt) :=
  data.map (fun (i, f) => (i, { f with synced := f.bytes.size }))

theorem close_eq (s : St) (db : DB) (d : DirSt) (hdb : s.db = some db) (hd : s.world.get db.dir = some d) :
    close s = ({ world := s.world.set db.dir { d with data := syncAll d.data, locked := false },
                 db := none }, .ok) := by
  unfold close withDB
  simp only [hdb, dirOf, hd, Option.getD_some]
  rfl

theorem Matches_syncAll : ∀ {data : List (Nat × FileSt)} {g : GDir}, Matches data g → Matches (syncAll data) g := by
  intro data
  induction data with
  | nil => intro g h; exact h
  | cons x data ih =>
    intro g h
    rw [Matches_cons] at h
    obtain ⟨y, g', rfl, h1, h2, h3⟩ := h
    obtain ⟨i, f⟩ := x
    show Matches ((i, _) :: syncAll data) (y :: g')
    rw [Matches_cons]
    exact ⟨y, g', rfl, h1, h2, ih h3⟩

theorem Matches_ids : ∀ {data : List (Nat × FileSt)} {g : GDir}, Matches data g →
    data.map (·.1) = g.map (·.1) := by
  intro data
  induction data with
  | nil => intro g h; rw [Matches_nil_left] at h; subst h; rfl
  | cons x data ih =>
    intro g h
    rw [Matches_cons] at h
    obtain ⟨y, g', rfl, h1, _, h3⟩ := h
    simp only [List.map_cons, h1, ih h3]

theorem Matches_getLast {data : List (Nat × FileSt)} {g : GDir} (h : Matches data g) :
    data.getLast?.map (·.1) = g.getLast?.map (·.1) := by
  rw [← List.getLast?_map, ← List.getLast?_map, Matches_ids h]

theorem Matches_ne_nil {data : List (Nat × FileSt)} {g : GDir} (h : Matches data g) (hg : g ≠ []) : data ≠ [] := by
  intro e; subst e; rw [Matches_nil_left] at h; exact hg h

theorem activeId_of_getLast {data : List (Nat × FileSt)} {a : Nat}
    (h : data.getLast?.map (·.1) = some a) :
    (match data.getLast? with
      | some (i, _) => i
      | none => 0) = a := by
  cases hl : data.getLast? with
  | none => rw [hl] at h; cases h
  | some x =>
    rw [hl] at h
    obtain ⟨i, f⟩ := x
    simpa using h

theorem getFile_syncAll (data : List (Nat × FileSt)) (id : Nat) :
    (getFile (syncAll data) id).map (·.bytes) = (getFile data id).map (·.bytes) := by
  induction data with
  | nil => rfl
  | cons x data ih =>
    obtain ⟨i, f⟩ := x
    show Option.map _ (getFile ((i, _) :: syncAll data) id) = _
    simp only [getFile]
    split
    · rfl
    · exact ih

/-- position reads depend on the bytes of the data files only -/
theorem valueAt_congr (s s' : St) (db db' : DB) (p : Pos)
    (h : (getFile (dirOf s' db').data p.fid).map (·.bytes) = (getFile (dirOf s db).data p.fid).map (·.bytes)) :
    valueAt s' db' p = valueAt s db p := by
  unfold valueAt
  cases h1 : getFile (dirOf s' db').data p.fid with
  | none =>
    cases h2 : getFile (dirOf s db).data p.fid with
    | none => rfl
    | some f => rw [h1, h2] at h; cases h
  | some f' =>
    cases h2 : getFile (dirOf s db).data p.fid with
    | none => rw [h1, h2] at h; cases h
    | some f =>
      rw [h1, h2] at h
      simp only [Option.map_some, Option.some.injEq] at h
      simp only [h]

theorem absGet_congr (s s' : St) (db db' : DB) (hix : db'.index = db.index)
    (h : ∀ id, (getFile (dirOf s' db').data id).map (·.bytes) = (getFile (dirOf s db).data id).map (·.bytes))
    (k : ByteArray) : absGet s' db' k = absGet s db k := by
  unfold absGet
  rw [hix]
  cases Index.get db.index k with
  | none => rfl
  | some p => simp only [valueAt_congr s s' db db' p (h p.fid)]

theorem getLast?_ne_none_of_map {g : GDir} {a : Nat} (h : g.getLast?.map (·.1) = some a) : g ≠ [] := by
  intro e; subst e; cases h

/-! ## batches in the replay: parked records, sealing -/

/-- `updateIndex` applied to a list of records in order -/
def applyAll (r : Replay) (l : List (Record × Pos)) : Replay :=
  l.foldl (fun r (x : Record × Pos) => r.apply x.1.key x.1.typ x.2) r

/-- the index-only view of `applyAll`: put / erase in order -/
def applyIx (ix : Index) (l : List (Record × Pos)) : Index :=
  l.foldl (fun ix (x : Record × Pos) => if x.1.typ = 1 then Index.erase ix x.1.key else Index.put ix x.1.key x.2) ix

theorem applyAll_index (r : Replay) (l : List (Record × Pos)) : (applyAll r l).index = applyIx r.index l := by
  induction l generalizing r with
  | nil => rfl
  | cons x t ih =>
    simp only [applyAll, applyIx, List.foldl_cons] at ih ⊢
    rw [ih, apply_index]

theorem apply_setPending (r : Replay) (P : List (Nat × List (Record × Pos))) (k : ByteArray) (t : Nat) (p : Pos) :
    ({ r with pending := P } : Replay).apply k t p = { r.apply k t p with pending := P } := by
  unfold Replay.apply
  by_cases h : t = 1 <;> simp only [h, if_true, if_false] <;> split <;> rfl

theorem applyAll_setPending (r : Replay) (P : List (Nat × List (Record × Pos))) (l : List (Record × Pos)) :
    applyAll { r with pending := P } l = { applyAll r l with pending := P } := by
  induction l generalizing r with
  | nil => rfl
  | cons x t ih =>
    simp only [applyAll, List.foldl_cons] at ih ⊢
    rw [apply_setPending, ih]

theorem applyAll_pending (r : Replay) (l : List (Record × Pos)) : (applyAll r l).pending = r.pending := by
  induction l generalizing r with
  | nil => rfl
  | cons x t ih =>
    simp only [applyAll, List.foldl_cons] at ih ⊢
    rw [ih, apply_pending]

theorem pendingGet_add_self (P : List (Nat × List (Record × Pos))) (b : Nat) (x : Record × Pos) :
    pendingGet (pendingAdd P b x) b = pendingGet P b ++ [x] := by
  induction P with
  | nil => simp [pendingAdd, pendingGet]
  | cons y rest ih =>
    obtain ⟨i, l⟩ := y
    simp only [pendingAdd, pendingGet]
    split
    · rename_i h; simp [pendingGet, h]
    · rename_i h; simp [pendingGet, h, ih]

theorem pendingGet_add_ne (P : List (Nat × List (Record × Pos))) (b c : Nat) (x : Record × Pos) (h : c ≠ b) :
    pendingGet (pendingAdd P b x) c = pendingGet P c := by
  induction P with
  | nil => simp [pendingAdd, pendingGet, h.symm]
  | cons y rest ih =>
    obtain ⟨i, l⟩ := y
    simp only [pendingAdd, pendingGet]
    split
    · rename_i hi; subst hi; simp [pendingGet, h.symm]
    · rename_i hi; simp only [pendingGet, ih]

theorem filter_add_self (P : List (Nat × List (Record × Pos))) (b : Nat) (x : Record × Pos) :
    (pendingAdd P b x).filter (·.1 ≠ b) = P.filter (·.1 ≠ b) := by
  induction P with
  | nil => simp [pendingAdd]
  | cons y rest ih =>
    obtain ⟨i, l⟩ := y
    simp only [pendingAdd]
    split
    · rename_i h; simp [h]
    · rename_i h; simp only [List.filter_cons, ih]

theorem filter_add_ne (P : List (Nat × List (Record × Pos))) (b c : Nat) (x : Record × Pos) (h : c ≠ b) :
    (pendingAdd P c x).filter (·.1 ≠ b) = pendingAdd (P.filter (·.1 ≠ b)) c x := by
  induction P with
  | nil => simp [pendingAdd, h]
  | cons y rest ih =>
    obtain ⟨i, l⟩ := y
    simp only [pendingAdd]
    split
    · rename_i hi; subst hi; simp [h, pendingAdd]
    · rename_i hi
      by_cases hib : i = b
      · subst hib; simp at ih ⊢; exact ih
      · simp [hib, pendingAdd, hi] at ih ⊢; exact ih

theorem pendingGet_filter_ne (P : List (Nat × List (Record × Pos))) (b c : Nat) (h : c ≠ b) :
    pendingGet (P.filter (·.1 ≠ b)) c = pendingGet P c := by
  induction P with
  | nil => rfl
  | cons y rest ih =>
    obtain ⟨i, l⟩ := y
    by_cases hib : i = b
    · subst hib
      have : ¬ i = c := fun e => h e.symm
      simp [pendingGet, this] at ih ⊢; exact ih
    · simp only [List.filter_cons, hib, ne_eq, not_false_eq_true, decide_true, if_true, pendingGet, ih]

theorem filter_comm (P : List (Nat × List (Record × Pos))) (b c : Nat) :
    (P.filter (·.1 ≠ c)).filter (·.1 ≠ b) = (P.filter (·.1 ≠ b)).filter (·.1 ≠ c) := by
  simp only [List.filter_filter]
  congr 1; funext a; exact Bool.and_comm _ _

/-- a tagged, non-sealing record is parked -/
theorem replayRec_tagged (r : Replay) (rec : Record) (pos : Pos) (hb : rec.batch ≠ 0) (ht : rec.typ ≠ 2) :
    replayRec r rec pos = { r with pending := pendingAdd r.pending rec.batch (rec, pos) } := by
  unfold replayRec; rw [if_neg hb, if_neg ht]

/-- a sealing record applies everything parked under its id, in arrival order -/
theorem replayRec_fin (r : Replay) (rec : Record) (pos : Pos) (hb : rec.batch ≠ 0) (ht : rec.typ = 2) :
    replayRec r rec pos
      = { applyAll { r with total := r.total + pos.size, reclaim := r.reclaim + pos.size }
            (pendingGet r.pending rec.batch) with pending := r.pending.filter (·.1 ≠ rec.batch) } := by
  unfold replayRec; rw [if_neg hb, if_pos ht]
  simp only [applyAll]
  congr 1
  exact congrArg (List.filter _) (applyAll_pending _ _)

/-- parking a run of records of one batch -/
def parkAll (P : List (Nat × List (Record × Pos))) (b : Nat) (l : List (Record × Pos)) :
    List (Nat × List (Record × Pos)) := l.foldl (fun P x => pendingAdd P b x) P

theorem replayFrom_tagged (b : Nat) (hb : b ≠ 0) (tagged : List (Record × Pos)) :
    ∀ (r : Replay), (∀ x ∈ tagged, x.1.batch = b ∧ x.1.typ ≠ 2) →
      replayFrom r tagged = { r with pending := parkAll r.pending b tagged } := by
  induction tagged with
  | nil => intro r _; rfl
  | cons x t ih =>
    intro r h
    obtain ⟨h1, h2⟩ := h x (by simp)
    rw [replayFrom_cons, replayRec_tagged r x.1 x.2 (by rw [h1]; exact hb) h2,
      ih _ (fun y hy => h y (by simp [hy])), h1]
    rfl

theorem pendingGet_parkAll (b : Nat) (l : List (Record × Pos)) : ∀ P, pendingGet (parkAll P b l) b = pendingGet P b ++ l := by
  induction l with
  | nil => intro P; simp [parkAll]
  | cons x t ih =>
    intro P
    simp only [parkAll, List.foldl_cons] at ih ⊢
    rw [ih, pendingGet_add_self, List.append_assoc]; rfl

theorem filter_parkAll (b : Nat) (l : List (Record × Pos)) : ∀ P, (parkAll P b l).filter (·.1 ≠ b) = P.filter (·.1 ≠ b) := by
  induction l with
  | nil => intro P; rfl
  | cons x t ih =>
    intro P
    simp only [parkAll, List.foldl_cons] at ih ⊢
    rw [ih, filter_add_self]

/-! ## general invisibility of an unsealed batch (any interleaving) -/

/-- forgetting everything parked under batch id `b` -/
def dropBatch (r : Replay) (b : Nat) : Replay := { r with pending := r.pending.filter (·.1 ≠ b) }

theorem replayRec_dropBatch (r : Replay) (b : Nat) (rec : Record) (pos : Pos) (h : rec.batch ≠ b) :
    replayRec (dropBatch r b) rec pos = dropBatch (replayRec r rec pos) b := by
  by_cases h0 : rec.batch = 0
  · unfold replayRec dropBatch
    rw [if_pos h0, if_pos h0, apply_setPending, apply_pending]
  · by_cases h2 : rec.typ = 2
    · rw [replayRec_fin _ _ _ h0 h2, replayRec_fin _ _ _ h0 h2]
      unfold dropBatch
      simp only [pendingGet_filter_ne _ _ _ h, filter_comm _ b rec.batch]
      have := applyAll_setPending { r with total := r.total + pos.size, reclaim := r.reclaim + pos.size }
        (r.pending.filter (·.1 ≠ b)) (pendingGet r.pending rec.batch)
      simp only [] at this
      rw [this]
    · rw [replayRec_tagged _ _ _ h0 h2, replayRec_tagged _ _ _ h0 h2]
      unfold dropBatch
      simp only [filter_add_ne _ _ _ _ h]

/-- replaying a log from which all records of batch `b` were removed = replaying the log and
    forgetting what is parked under `b`, provided the log contains no sealing record of `b` -/
theorem replayFrom_filter_batch (b : Nat) (hb : b ≠ 0) (l : List (Record × Pos)) :
    ∀ r : Replay, (∀ x ∈ l, x.1.batch = b → x.1.typ ≠ 2) →
      replayFrom (dropBatch r b) (l.filter (fun x => x.1.batch ≠ b)) = dropBatch (replayFrom r l) b := by
  induction l with
  | nil => intro r _; rfl
  | cons x t ih =>
    intro r h
    have ht := fun y hy => h y (List.mem_cons_of_mem _ hy)
    by_cases hx : x.1.batch = b
    · have h2 := h x (by simp) hx
      rw [List.filter_cons, if_neg (by simp [hx]), replayFrom_cons, ← ih _ ht]
      congr 1
      rw [replayRec_tagged r x.1 x.2 (by rw [hx]; exact hb) h2]
      unfold dropBatch
      simp only [hx, filter_add_self]
    · rw [List.filter_cons, if_pos (by simp [hx]), replayFrom_cons, replayFrom_cons,
        replayRec_dropBatch r b x.1 x.2 hx, ih _ ht]

/-- the replay state with its parked records replaced -/
def setPending (r : Replay) (P : List (Nat × List (Record × Pos))) : Replay := { r with pending := P }

/-- counting a sealing record of `sz` bytes: it occupies disk space and is never live -/
def countFin (r : Replay) (sz : Nat) : Replay := { r with total := r.total + sz, reclaim := r.reclaim + sz }

/-- `replayRec` on a sealing record, in closed form -/
theorem replayRec_fin' (r : Replay) (rec : Record) (pos : Pos) (hb : rec.batch ≠ 0) (ht : rec.typ = 2) :
    replayRec r rec pos
      = dropBatch (applyAll (countFin r pos.size) (pendingGet r.pending rec.batch)) rec.batch := by
  unfold replayRec; rw [if_neg hb, if_pos ht]; rfl

/-- sealing a batch whose records were parked on top of `r` (and nothing else under its id) -/
theorem replayRec_seal (r : Replay) (b : Nat) (hb : b ≠ 0) (tagged : List (Record × Pos))
    (hfresh : pendingGet r.pending b = []) (fin : Record) (p : Pos) (hfb : fin.batch = b) (hft : fin.typ = 2) :
    replayRec (setPending r (parkAll r.pending b tagged)) fin p
      = dropBatch (applyAll (countFin r p.size) tagged) b := by
  rw [replayRec_fin' _ fin p (by rw [hfb]; exact hb) hft, hfb]
  show dropBatch (applyAll (setPending (countFin r p.size) (parkAll r.pending b tagged))
    (pendingGet (parkAll r.pending b tagged) b)) b = _
  rw [pendingGet_parkAll, hfresh, List.nil_append]
  have h1 : applyAll (setPending (countFin r p.size) (parkAll r.pending b tagged)) tagged
      = setPending (applyAll (countFin r p.size) tagged) (parkAll r.pending b tagged) :=
    applyAll_setPending _ _ _
  rw [h1]
  unfold dropBatch setPending
  simp only [filter_parkAll, applyAll_pending]
  rfl

/-! ## prefixes -/

theorem zip_pos_take_prefix (id : Nat) (gl : GFile) : ∀ (f : ByteArray) (j : Nat),
    (gl.take j).zip (posAll C id f (payloads (gl.take j))) <+: gl.zip (posAll C id f (payloads gl)) := by
  induction gl with
  | nil => intro f j; simp [payloads, posAll]
  | cons a t ih =>
    intro f j
    cases j with
    | zero => simp [payloads, posAll]
    | succ k =>
      simp only [List.take_succ_cons, payloads, List.map_cons, posAll, List.zip_cons_cons]
      rw [List.cons_prefix_cons]
      exact ⟨rfl, ih _ k⟩

theorem logOf_cut_prefix (gI : GDir) (id : Nat) (gl : GFile) (j : Nat) :
    logOf (gI ++ [(id, gl.take j)]) <+: logOf (gI ++ [(id, gl)]) := by
  rw [logOf_append, logOf_append, List.prefix_append_right_inj]
  simp only [logOf, List.flatMap_cons, List.flatMap_nil, List.append_nil]
  exact zip_pos_take_prefix id gl ByteArray.empty j

theorem logOf_cut_mono (gI : GDir) (id : Nat) (gl : GFile) (m j : Nat) (h : m ≤ j) :
    logOf (gI ++ [(id, gl.take m)]) <+: logOf (gI ++ [(id, gl.take j)]) := by
  have := logOf_cut_prefix gI id (gl.take j) m
  rwa [List.take_take, Nat.min_eq_left h] at this

theorem size_bytesOf_take_mono (gl : GFile) (a b : Nat) (h : a ≤ b) :
    (bytesOf (gl.take a)).size ≤ (bytesOf (gl.take b)).size := by
  have := size_appendAll_take_le C ByteArray.empty (payloads (gl.take b)) a
  rwa [payloads_take, List.take_take, Nat.min_eq_left h] at this

theorem size_bytesOf_take_le (gl : GFile) (a : Nat) : (bytesOf (gl.take a)).size ≤ (bytesOf gl).size := by
  have := size_appendAll_take_le C ByteArray.empty (payloads gl) a
  rwa [payloads_take] at this

/-! ## crash images -/

theorem Matches_append : ∀ {a b : List (Nat × FileSt)} {ga gb : GDir}, Matches a ga → Matches b gb →
    Matches (a ++ b) (ga ++ gb) := by
  intro a
  induction a with
  | nil => intro b ga gb h1 h2; rw [Matches_nil_left] at h1; subst h1; exact h2
  | cons x a ih =>
    intro b ga gb h1 h2
    rw [Matches_cons] at h1
    obtain ⟨y, g', rfl, e1, e2, h3⟩ := h1
    show Matches (x :: (a ++ b)) (y :: (g' ++ gb))
    rw [Matches_cons]
    exact ⟨y, _, rfl, e1, e2, ih h3 h2⟩

theorem AscIds_cut {gI : GDir} {id : Nat} {gl : GFile} (gl' : GFile) (h : AscIds (gI ++ [(id, gl)])) :
    AscIds (gI ++ [(id, gl')]) := by
  unfold AscIds at h ⊢
  rw [List.pairwise_append] at h ⊢
  obtain ⟨h1, _, h3⟩ := h
  refine ⟨h1, by simp, ?_⟩
  intro a ha b hb
  simp only [List.mem_singleton] at hb
  subst hb
  exact h3 a ha (id, gl) (by simp)

/-- a power-failure image of a list of data files: the same ids, every file cut somewhere between
    its synced length and its size (process death without OS failure: every cut is at the size) -/
def CrashImage : List (Nat × FileSt) → List (Nat × FileSt) → Prop
  | [], [] => True
  | x :: data, y :: data' =>
    y.1 = x.1 ∧ (∃ n, x.2.synced ≤ n ∧ n ≤ x.2.bytes.size ∧ y.2.bytes = x.2.bytes.extract 0 n) ∧
      CrashImage data data'
  | _, _ => False

/-- only the last (active) file may have an unsynced tail: rotation syncs before switching -/
def OnlyLastCut (data : List (Nat × FileSt)) : Prop :=
  ∀ x ∈ data.dropLast, x.2.synced = x.2.bytes.size

/-- with `OnlyLastCut`, a crash image is: the earlier files intact, the last file cut at some `n`
    between its synced length and its size -/
theorem crashImage_decomp : ∀ (data data' : List (Nat × FileSt)) (g : GDir),
    Matches data g → OnlyLastCut data → CrashImage data data' → g ≠ [] →
    ∃ gI id gl dataI f fl n, g = gI ++ [(id, gl)] ∧ data.getLast? = some (id, f) ∧
      data' = dataI ++ [(id, fl)] ∧ Matches dataI gI ∧ f.bytes = bytesOf gl ∧
      f.synced ≤ n ∧ n ≤ (bytesOf gl).size ∧ fl.bytes = (bytesOf gl).extract 0 n := by
  intro data
  induction data with
  | nil =>
    intro data' g hm _ _ hg
    rw [Matches_nil_left] at hm; exact absurd hm hg
  | cons x data ih =>
    intro data' g hm hlast himg _
    rw [Matches_cons] at hm
    obtain ⟨y, g', rfl, e1, e2, hm'⟩ := hm
    cases data' with
    | nil => simp [CrashImage] at himg
    | cons x' data'' =>
      simp only [CrashImage] at himg
      obtain ⟨e3, ⟨n, hn1, hn2, hn3⟩, himg'⟩ := himg
      cases data with
      | nil =>
        rw [Matches_nil_left] at hm'; subst hm'
        cases data'' with
        | cons _ _ => simp [CrashImage] at himg'
        | nil =>
          obtain ⟨i, f⟩ := x
          obtain ⟨i', f'⟩ := x'
          obtain ⟨j, gl⟩ := y
          simp only at e1 e2 e3 hn1 hn2 hn3
          subst e1 e3
          refine ⟨[], _, gl, [], f, f', n, rfl, rfl, rfl, by simp [Matches], e2, hn1, ?_, ?_⟩
          · rw [← e2]; exact hn2
          · rw [← e2]; exact hn3
      | cons x2 rest =>
        have hg' : g' ≠ [] := by
          intro e; subst e; simp [Matches] at hm'
        have hlast' : OnlyLastCut (x2 :: rest) := by
          intro z hz
          exact hlast z (by rw [List.dropLast_cons_cons]; exact List.mem_cons_of_mem _ hz)
        have hx : x.2.synced = x.2.bytes.size := hlast x (by rw [List.dropLast_cons_cons]; simp)
        obtain ⟨gI, id, gl, dataI, f, fl, m, h1, h2, h3, h4, h5, h6, h7, h8⟩ :=
          ih data'' g' hm' hlast' himg' hg'
        refine ⟨y :: gI, id, gl, x' :: dataI, f, fl, m, by rw [h1]; rfl, ?_, by rw [h3]; rfl, ?_, h5, h6, h7, h8⟩
        · rw [List.getLast?_cons_cons]; exact h2
        · rw [Matches_cons]
          refine ⟨y, gI, rfl, by rw [e3, e1], ?_, h4⟩
          rw [hn3, extract_all _ _ (by omega), e2]

/-- `openDB` on a crash image (decomposed form): succeeds, truncates the last file to the bytes of
    its first `j` complete records, and builds the handle from the replay of the cut log -/
theorem openDB_crash (s : St) (dir : String) (cfg : Cfg) (d : DirSt)
    (gI : GDir) (id : Nat) (gl : GFile) (dataI : List (Nat × FileSt)) (fl : FileSt) (n : Nat)
    (hdb : s.db = none) (hcfg : cfg.Valid)
    (hd : s.world.get dir = some d) (hl : d.locked = false)
    (hnomerge : s.world.get (mergeDirName dir) = none)
    (hrecs : ∀ x ∈ gI ++ [(id, gl)], ∀ r ∈ x.2, RecOK r)
    (hdata : d.data = dataI ++ [(id, fl)]) (hI : Matches dataI gI)
    (hn : n ≤ (bytesOf gl).size) (hfl : fl.bytes = (bytesOf gl).extract 0 n) :
    ∃ j, j ≤ gl.length ∧ (bytesOf (gl.take j)).size ≤ n ∧
      (j < gl.length → n < (bytesOf (gl.take (j+1))).size) ∧
      ∃ sy', openDB s dir cfg
        = ({ world := s.world.set dir
               { d with data := dataI ++ [(id, ⟨bytesOf (gl.take j), sy'⟩)], locked := true },
             db := some (mkDB cfg dir (replayLog (logOf (gI ++ [(id, gl.take j)])))
               (dataI ++ [(id, ⟨bytesOf (gl.take j), sy'⟩)])) }, .ok) := by
  have hokI : ∀ x ∈ gI, ∀ r ∈ x.2, RecOK r := fun x hx => hrecs x (by simp [hx])
  have hokl : ∀ r ∈ gl, RecOK r := hrecs (id, gl) (by simp)
  obtain ⟨j, hj, hfit, hnfit, sy', hload⟩ :=
    loadFile_cut (replayFrom Replay.init (logOf gI)) id gl fl.synced n hokl hn
  refine ⟨j, hj, hfit, hnfit, sy', ?_⟩
  have hfl' : fl = ⟨(bytesOf gl).extract 0 n, fl.synced⟩ := by
    obtain ⟨b, sy⟩ := fl; simp only at hfl; rw [hfl]
  have hli : loadIndex Replay.init 0 d.data
      = some (replayLog (logOf (gI ++ [(id, gl.take j)])), dataI ++ [(id, ⟨bytesOf (gl.take j), sy'⟩)]) := by
    rw [hdata, loadIndex_append_ghost dataI gI Replay.init [(id, fl)] hI hokI]
    rw [hfl']
    simp only [loadIndex, Nat.not_lt_zero, if_false, List.isEmpty_nil, hload]
    rw [replayLog_eq, logOf_append, replayFrom_append]
    simp [logOf]
  exact openDB_scan s dir cfg d _ _ hdb (by omega) hd hl hnomerge (by rw [hdata]; simp) hli

/-! ## `OnlyLastCut` is maintained by the writer (list level and for `putFile` / `rotate`) -/

theorem setFile_last (pre : List (Nat × FileSt)) (id : Nat) (f f' : FileSt) (hlt : ∀ x ∈ pre, x.1 < id) :
    setFile (pre ++ [(id, f)]) id f' = pre ++ [(id, f')] := by
  induction pre with
  | nil => simp [setFile]
  | cons y rest ih =>
    obtain ⟨i, g⟩ := y
    have hi : i < id := hlt (i, g) (by simp)
    simp only [List.cons_append, setFile]
    rw [if_neg (by omega), if_neg (by omega), ih (fun x hx => hlt x (by simp [hx]))]

theorem setFile_new_last (data : List (Nat × FileSt)) (id : Nat) (f' : FileSt) (hlt : ∀ x ∈ data, x.1 < id) :
    setFile data id f' = data ++ [(id, f')] := by
  induction data with
  | nil => simp [setFile]
  | cons y rest ih =>
    obtain ⟨i, g⟩ := y
    have hi : i < id := hlt (i, g) (by simp)
    simp only [List.cons_append, setFile]
    rw [if_neg (by omega), if_neg (by omega), ih (fun x hx => hlt x (by simp [hx]))]

theorem OnlyLastCut_concat (pre : List (Nat × FileSt)) (x : Nat × FileSt) :
    OnlyLastCut (pre ++ [x]) ↔ ∀ y ∈ pre, y.2.synced = y.2.bytes.size := by
  unfold OnlyLastCut; rw [List.dropLast_concat]

/-- writing to the last (active) file keeps `OnlyLastCut` -/
theorem OnlyLastCut_write_last (pre : List (Nat × FileSt)) (id : Nat) (f f' : FileSt)
    (hlt : ∀ x ∈ pre, x.1 < id) (h : OnlyLastCut (pre ++ [(id, f)])) :
    OnlyLastCut (setFile (pre ++ [(id, f)]) id f') := by
  rw [setFile_last pre id f f' hlt, OnlyLastCut_concat]
  exact (OnlyLastCut_concat _ _).mp h

/-- rotation (sync the active file, then create the next one) keeps `OnlyLastCut` -/
theorem OnlyLastCut_rotate_files (pre : List (Nat × FileSt)) (id : Nat) (f : FileSt)
    (hlt : ∀ x ∈ pre, x.1 < id) (h : OnlyLastCut (pre ++ [(id, f)])) :
    setFile (setFile (pre ++ [(id, f)]) id { f with synced := f.bytes.size }) (id + 1) ⟨ByteArray.empty, 0⟩
        = (pre ++ [(id, { f with synced := f.bytes.size })]) ++ [(id + 1, ⟨ByteArray.empty, 0⟩)] ∧
    OnlyLastCut (setFile (setFile (pre ++ [(id, f)]) id { f with synced := f.bytes.size }) (id + 1)
      ⟨ByteArray.empty, 0⟩) := by
  have e : setFile (setFile (pre ++ [(id, f)]) id { f with synced := f.bytes.size }) (id + 1) ⟨ByteArray.empty, 0⟩
      = (pre ++ [(id, { f with synced := f.bytes.size })]) ++ [(id + 1, ⟨ByteArray.empty, 0⟩)] := by
    rw [setFile_last pre id f _ hlt, setFile_new_last]
    intro x hx
    simp only [List.mem_append, List.mem_singleton] at hx
    rcases hx with hx | hx
    · have := hlt x hx; omega
    · subst hx; exact Nat.lt_succ_self _
  refine ⟨e, ?_⟩
  rw [e, OnlyLastCut_concat]
  intro y hy
  simp only [List.mem_append, List.mem_singleton] at hy
  rcases hy with hy | hy
  · exact (OnlyLastCut_concat _ _).mp h y hy
  · subst hy; rfl

theorem dirOf_putFile (s : St) (db : DB) (id : Nat) (f : FileSt) :
    (dirOf (putFile s db id f) db).data = setFile (dirOf s db).data id f := by
  simp only [putFile, dirOf, World.get_set_self, Option.getD_some]

/-- state level: `putFile` on the active (last) file -/
theorem OnlyLastCut_putFile_active (s : St) (db : DB) (pre : List (Nat × FileSt)) (f f' : FileSt)
    (hdata : (dirOf s db).data = pre ++ [(db.activeId, f)]) (hlt : ∀ x ∈ pre, x.1 < db.activeId)
    (h : OnlyLastCut (dirOf s db).data) :
    OnlyLastCut (dirOf (putFile s db db.activeId f') db).data := by
  rw [dirOf_putFile, hdata]
  rw [hdata] at h
  exact OnlyLastCut_write_last pre db.activeId f f' hlt h

/-- state level: `rotate` -/
theorem OnlyLastCut_rotate (s : St) (db : DB) (pre : List (Nat × FileSt)) (f : FileSt)
    (hdata : (dirOf s db).data = pre ++ [(db.activeId, f)]) (hlt : ∀ x ∈ pre, x.1 < db.activeId)
    (h : OnlyLastCut (dirOf s db).data) :
    (dirOf (rotate s db).1 (rotate s db).2).data
        = (pre ++ [(db.activeId, { f with synced := f.bytes.size })]) ++ [(db.activeId + 1, ⟨ByteArray.empty, 0⟩)] ∧
    OnlyLastCut (dirOf (rotate s db).1 (rotate s db).2).data := by
  have haf : activeFile s db = f := by
    unfold activeFile
    rw [hdata]
    have : ∀ (l : List (Nat × FileSt)), (∀ x ∈ l, x.1 < db.activeId) →
        getFile (l ++ [(db.activeId, f)]) db.activeId = some f := by
      intro l
      induction l with
      | nil => intro _; simp [getFile]
      | cons y rest ih =>
        intro hl
        obtain ⟨i, g⟩ := y
        have hi : i < db.activeId := hl (i, g) (by simp)
        simp only [List.cons_append, getFile]
        rw [if_neg (by omega)]
        exact ih (fun x hx => hl x (by simp [hx]))
    rw [this pre hlt]; rfl
  rw [hdata] at h
  have hr := OnlyLastCut_rotate_files pre db.activeId f hlt h
  have hd : (dirOf (rotate s db).1 (rotate s db).2).data
      = setFile (setFile (pre ++ [(db.activeId, f)]) db.activeId { f with synced := f.bytes.size })
          (db.activeId + 1) ⟨ByteArray.empty, 0⟩ := by
    unfold rotate
    simp only [haf]
    have h1 := dirOf_putFile (putFile s db db.activeId { f with synced := f.bytes.size })
      { db with bytesWrite := 0, activeId := db.activeId + 1 } (db.activeId + 1) ⟨ByteArray.empty, 0⟩
    have h2 := dirOf_putFile s db db.activeId { f with synced := f.bytes.size }
    rw [hdata] at h2
    simp only [dirOf, putFile] at h1 h2 ⊢
    rw [h1, h2]
  rw [hd]
  exact hr

end XixiKV.Engine.Restart
