import XixiKV.Proofs.ConcMergeDur
/-!
# The power-loss schedule of DESIGN.md §11.7 item 8, executed in `Model/ConcMergeDur.lean`

`put 1 10; sync; mstart; put 1 11; mvisit (skips the old record); [mflush;] mfinish; power failure`.
-/
namespace XixiKV.ConcMergeDur
open XixiKV.Conc XixiKV.ConcMerge

theorem mapD_fact {α : Type} {o : Option GD} {d : GD} (f : GD → α) {v : α} (hd : o = some d)
    (h : o.map f = some v) : f d = v := by
  subst hd; simpa using h

def putOps (t : Tid) (k : Key) (v : Val) : List LabelD :=
  [.m (.cl t (.call (.put k v))), .m (.cl t .acq), .m (.cl t .append), .m (.cl t .index),
   .m (.cl t .rel), .m (.cl t .ret)]

/-- everything up to (excluding) the end of `Merge` -/
def powerLossPrefix : List LabelD :=
  putOps 0 1 10 ++ [.sync, .m (.mstart none)] ++ putOps 0 1 11 ++ [.m .mvisit]

/-- the code before 3a671fe: the marker is written right after the scan -/
def powerLossSchedule : List LabelD := powerLossPrefix ++ [.m .mfinish]

/-- the repaired code: flush under `db.mu`, then the marker -/
def powerLossScheduleFlushed : List LabelD := powerLossPrefix ++ [.mflush, .m .mfinish]

/-- the client threads named in a schedule -/
def tidsD (s : List LabelD) : List Tid :=
  tidsM (s.filterMap fun l => match l with | .m l => some l | _ => none)

theorem nextD_pc_other {sh : Shape} {b f : Bool} {d d' : GD} {l : LabelD} {t' : Tid}
    (h : nextD sh b f d l = some d') (hno : t' ∉ tidsD [l]) : d'.a.g.pc t' = d.a.g.pc t' := by
  cases l with
  | sync => simp only [nextD, Option.some.injEq] at h; subst h; rfl
  | mflush =>
    simp only [nextD] at h
    split at h
    · split at h
      · cases h; rfl
      · cases h
    · cases h
  | m l =>
    have hno' : t' ∉ tidsM [l] := by simpa [tidsD] using hno
    cases l with
    | cl t l =>
      simp only [nextD] at h
      obtain ⟨a', ha, rfl⟩ := map_some_elim h
      exact nextM_pc_other ha hno'
    | mstart todo =>
      simp only [nextD] at h
      obtain ⟨a', ha, rfl⟩ := map_some_elim h
      exact nextM_pc_other ha hno'
    | mvisit =>
      simp only [nextD] at h
      obtain ⟨a', ha, rfl⟩ := map_some_elim h
      exact nextM_pc_other ha hno'
    | mfinish =>
      simp only [nextD] at h
      split at h
      · obtain ⟨a', ha, rfl⟩ := map_some_elim h
        exact nextM_pc_other ha hno'
      · cases h
    | mabort =>
      simp only [nextD] at h
      obtain ⟨a', ha, rfl⟩ := map_some_elim h
      exact nextM_pc_other ha hno'

theorem tidsD_cons (l : LabelD) (rest : List LabelD) : tidsD (l :: rest) = tidsD [l] ++ tidsD rest := by
  cases l with
  | m l =>
    show tidsM (l :: _) = tidsM [l] ++ tidsM _
    unfold tidsM
    rw [← List.filterMap_append]; rfl
  | sync => rfl
  | mflush => rfl

theorem execD_pc_untouched {sh : Shape} {b f : Bool} {s : List LabelD} {d d' : GD} {t' : Tid}
    (h : execD sh b f s d = some d') (hno : t' ∉ tidsD s) : d'.a.g.pc t' = d.a.g.pc t' := by
  induction s generalizing d with
  | nil => simp only [execD, Option.some.injEq] at h; subst h; rfl
  | cons l rest ih =>
    simp only [execD] at h
    cases hn : nextD sh b f d l with
    | none => rw [hn] at h; cases h
    | some d1 =>
      rw [hn] at h
      rw [tidsD_cons] at hno
      have h1 : t' ∉ tidsD [l] := fun hm => hno (List.mem_append_left _ hm)
      have h2 : t' ∉ tidsD rest := fun hm => hno (List.mem_append_right _ hm)
      rw [ih h h2, nextD_pc_other hn h1]

/-- **necessity of the pre-marker flush.**  Without it (`flushBeforeMarker = false`) there is a
reachable quiescent state with a finished merge in which key 1 has the FLUSHED value 10 (and the
acknowledged value 11), yet a power failure followed by the adopting restart recovers nothing for
key 1 — so what it recovers is not the replay of any prefix of the log that contains the flushed
part. -/
theorem needs_flush :
    ∃ d n out, ReachableD Shape.allTrue true false d ∧ d.a.m = .done n out ∧ d.a.g.writer = none ∧
      (∀ t, d.a.g.pc t = .idle) ∧
      absMap d.a.g 1 = some 11 ∧
      recovered (d.a.g.log.take d.synced) 1 = some 10 ∧
      recovered (afterPowerFailure d) 1 = none ∧
      ∀ j, d.synced ≤ j → j ≤ d.a.g.log.length →
        recovered (afterPowerFailure d) ≠ recovered (d.a.g.log.take j) := by
  have h : (execD Shape.allTrue true false powerLossSchedule initD).isSome = true := by decide
  obtain ⟨d, hd⟩ := Option.isSome_iff_exists.1 h
  have hs : d.synced = 1 := mapD_fact (·.synced) hd (by decide)
  have hl : d.a.g.log = [.put 1 10, .put 1 11] := mapD_fact (·.a.g.log) hd (by decide)
  have hpf : recovered (afterPowerFailure d) 1 = none :=
    mapD_fact (fun d => recovered (afterPowerFailure d) 1) hd (by decide)
  refine ⟨d, 1, [], execD_reachable ReachableD.init hd, ?_, ?_, ?_, ?_, ?_, hpf, ?_⟩
  · exact mapD_fact (·.a.m) hd (by decide)
  · exact mapD_fact (·.a.g.writer) hd (by decide)
  · intro t
    by_cases e : t = 0
    · subst e; exact mapD_fact (fun d => d.a.g.pc 0) hd (by decide)
    · rw [execD_pc_untouched hd (by
        simpa [tidsD, tidsM, powerLossSchedule, powerLossPrefix, putOps] using e)]; rfl
  · exact mapD_fact (fun d => absMap d.a.g 1) hd (by decide)
  · rw [hs, hl]; decide
  · intro j h1 h2 heq
    rw [hs] at h1
    rw [hl] at h2
    have hj : j = 1 ∨ j = 2 := by simp only [List.length_cons, List.length_nil] at h2; omega
    have h1' := congrFun heq 1
    rw [hpf, hl] at h1'
    rcases hj with rfl | rfl
    · revert h1'; decide
    · revert h1'; decide

/-- the same schedule with `flushBeforeMarker = true` is refused at `mfinish`: the marker cannot be
written before the flush -/
theorem powerLossSchedule_refused :
    (execD Shape.allTrue true true powerLossSchedule initD).isNone = true := by decide

/-- … and all of it up to the marker runs (so it is `mfinish` that is refused) -/
theorem powerLossPrefix_runs :
    (execD Shape.allTrue true true powerLossPrefix initD).isSome = true := by decide

/-- with the flush the schedule ends in a state whose power-failure directory holds the new record:
key 1 recovers the acknowledged value 11 -/
theorem powerLossScheduleFlushed_runs :
    ∃ d, execD Shape.allTrue true true powerLossScheduleFlushed initD = some d ∧
      d.a.m = .done 1 [] ∧ d.synced = 2 ∧ d.a.g.log = [.put 1 10, .put 1 11] ∧
      afterPowerFailure d = [.put 1 11] ∧
      recovered (afterPowerFailure d) 1 = some 11 := by
  have h : (execD Shape.allTrue true true powerLossScheduleFlushed initD).isSome = true := by decide
  obtain ⟨d, hd⟩ := Option.isSome_iff_exists.1 h
  refine ⟨d, hd, ?_, ?_, ?_, ?_, ?_⟩
  · exact mapD_fact (·.a.m) hd (by decide)
  · exact mapD_fact (·.synced) hd (by decide)
  · exact mapD_fact (·.a.g.log) hd (by decide)
  · exact mapD_fact afterPowerFailure hd (by decide)
  · exact mapD_fact (fun d => recovered (afterPowerFailure d) 1) hd (by decide)

/-- the old code, same observations: the directory after the power failure is empty -/
theorem powerLossSchedule_runs :
    ∃ d, execD Shape.allTrue true false powerLossSchedule initD = some d ∧
      d.a.m = .done 1 [] ∧ d.synced = 1 ∧ d.a.g.log = [.put 1 10, .put 1 11] ∧
      afterPowerFailure d = [] ∧
      recovered (afterPowerFailure d) 1 = none := by
  have h : (execD Shape.allTrue true false powerLossSchedule initD).isSome = true := by decide
  obtain ⟨d, hd⟩ := Option.isSome_iff_exists.1 h
  refine ⟨d, hd, ?_, ?_, ?_, ?_, ?_⟩
  · exact mapD_fact (·.a.m) hd (by decide)
  · exact mapD_fact (·.synced) hd (by decide)
  · exact mapD_fact (·.a.g.log) hd (by decide)
  · exact mapD_fact afterPowerFailure hd (by decide)
  · exact mapD_fact (fun d => recovered (afterPowerFailure d) 1) hd (by decide)

end XixiKV.ConcMergeDur
