import XixiKV.Model.RWMutex
/-!
# Mutual exclusion and progress for the generic RWMutex semantics   (helpers for C09)
-/
namespace XixiKV.RWMutex
open XixiKV.Generated XixiKV.Lockset

@[simp] theorem upd_same {α} (f : Tid → α) (t : Tid) (a : α) : upd f t a t = a := by simp [upd]
theorem upd_ne {α} (f : Tid → α) {t t' : Tid} (a : α) (h : t' ≠ t) : upd f t a t' = f t' := by
  simp [upd, h]

/-! ## `held` -/

theorem held_W {s : St} {t : Tid} : held s t = .W ↔ s.writer = some t := by
  unfold held
  constructor
  · intro h
    split at h
    · assumption
    · split at h <;> cases h
  · intro h; rw [if_pos h]

theorem held_R {s : St} {t : Tid} (h : held s t = .R) : s.writer ≠ some t ∧ s.readers t = true := by
  unfold held at h
  split at h
  · cases h
  · split at h
    · exact ⟨by assumption, by assumption⟩
    · cases h

theorem held_none {s : St} {t : Tid} : held s t = .none ↔ s.writer ≠ some t ∧ s.readers t = false := by
  unfold held
  constructor
  · intro h
    split at h
    · cases h
    · split at h
      · cases h
      · refine ⟨by assumption, ?_⟩
        cases hr : s.readers t with
        | false => rfl
        | true => contradiction
  · intro ⟨h1, h2⟩
    rw [if_neg h1, h2]; rfl

/-! ## `follows` / `runsFrom` -/

theorem runsFrom_cons {cls : Row → Act} {fin : Mode → Bool} {cur : Mode} {r : Row} {rest : List Row}
    (h : runsFrom cls fin cur (r :: rest) = true) :
    ∃ m, follows cls cur r = some m ∧ runsFrom cls fin m rest = true := by
  simp only [runsFrom] at h
  split at h
  · rename_i m hm; exact ⟨m, hm, h⟩
  · cases h

theorem follows_acqW {cls : Row → Act} {cur m : Mode} {r : Row} (hc : cls r = .acqW)
    (h : follows cls cur r = some m) : cur = .none ∧ m = .W := by
  simp only [follows, hc] at h
  split at h
  · rename_i hh; exact ⟨hh.1, (Option.some.inj h).symm⟩
  · cases h

theorem follows_acqR {cls : Row → Act} {cur m : Mode} {r : Row} (hc : cls r = .acqR)
    (h : follows cls cur r = some m) : cur = .none ∧ m = .R := by
  simp only [follows, hc] at h
  split at h
  · rename_i hh; exact ⟨hh.1, (Option.some.inj h).symm⟩
  · cases h

theorem follows_relW {cls : Row → Act} {cur m : Mode} {r : Row} (hc : cls r = .relW)
    (h : follows cls cur r = some m) : cur = .W ∧ m = .none := by
  simp only [follows, hc] at h
  split at h
  · rename_i hh; exact ⟨hh, (Option.some.inj h).symm⟩
  · cases h

theorem follows_relR {cls : Row → Act} {cur m : Mode} {r : Row} (hc : cls r = .relR)
    (h : follows cls cur r = some m) : cur = .R ∧ m = .none := by
  simp only [follows, hc] at h
  split at h
  · rename_i hh; exact ⟨hh, (Option.some.inj h).symm⟩
  · cases h

theorem follows_act {cls : Row → Act} {cur m : Mode} {r : Row} (hc : (cls r).isLock = false)
    (h : follows cls cur r = some m) : r.mode = cur ∧ m = cur := by
  unfold follows at h
  split at h
  all_goals first
    | (rename_i heq; rw [heq] at hc; cases hc)
    | (split at h
       · rename_i hh; exact ⟨hh, (Option.some.inj h).symm⟩
       · cases h)

/-! ## the invariant -/

structure Admissible (sys : Sys) : Prop where
  runs : ∀ m p, sys.prog m p → runsFrom sys.cls sys.fin m p = true
  good : ∀ m p, sys.prog m p → ∀ r ∈ p, sys.good r

structure Inv (sys : Sys) (s : St) : Prop where
  /-- the rest of every thread's program is consistent with the mode it actually holds -/
  runs : ∀ t, runsFrom sys.cls sys.fin (held s t) (s.pc t) = true
  /-- a writer excludes all readers -/
  excl : ∀ t, s.writer = some t → ∀ t', s.readers t' = false
  good : ∀ t, ∀ r ∈ s.pc t, sys.good r

theorem init_inv (sys : Sys) (hfin : sys.fin .none = true) : Inv sys St.init := by
  refine ⟨?_, ?_, ?_⟩
  · intro t; simp [St.init, held, runsFrom, hfin]
  · intro t h; simp [St.init] at h
  · intro t r h; simp [St.init] at h

theorem good_pop {sys : Sys} {s : St} {t : Tid} {r : Row} {rest : List Row}
    (hg : ∀ t, ∀ r ∈ s.pc t, sys.good r) (hpc : s.pc t = r :: rest) :
    ∀ t', ∀ r' ∈ upd s.pc t rest t', sys.good r' := by
  intro t' r' hr'
  by_cases e : t' = t
  · subst e; rw [upd_same] at hr'
    exact hg t' r' (by rw [hpc]; exact List.mem_cons_of_mem _ hr')
  · rw [upd_ne _ _ e] at hr'; exact hg t' r' hr'

theorem step_inv {sys : Sys} (ha : Admissible sys) {s s' : St} {t : Tid} (hI : Inv sys s)
    (hs : Step sys s t s') : Inv sys s' := by
  cases hs with
  | call p hpc hp =>
    refine ⟨?_, hI.excl, ?_⟩
    · intro t'
      by_cases e : t' = t
      · subst e
        show runsFrom sys.cls sys.fin (held s t') (upd s.pc t' p t') = true
        rw [upd_same]; exact ha.runs _ _ hp
      · show runsFrom sys.cls sys.fin (held s t') (upd s.pc t p t') = true
        rw [upd_ne _ _ e]; exact hI.runs t'
    · intro t' r' hr'
      by_cases e : t' = t
      · subst e
        have : r' ∈ upd s.pc t' p t' := hr'
        rw [upd_same] at this; exact ha.good _ _ hp r' this
      · have : r' ∈ upd s.pc t p t' := hr'
        rw [upd_ne _ _ e] at this; exact hI.good t' r' this
  | acqW r rest hpc hcls hw hall =>
    have hrun := hI.runs t
    rw [hpc] at hrun
    obtain ⟨m, hf, hrest⟩ := runsFrom_cons hrun
    obtain ⟨_, rfl⟩ := follows_acqW hcls hf
    refine ⟨?_, ?_, good_pop hI.good hpc⟩
    · intro t'
      by_cases e : t' = t
      · subst e
        have hh : held { s with writer := some t', pc := upd s.pc t' rest } t' = .W := held_W.2 rfl
        show runsFrom _ _ (held _ t') (upd s.pc t' rest t') = true
        rw [hh, upd_same]; exact hrest
      · have h0 : held s t' = .none := held_none.2 ⟨by rw [hw]; simp, hall t'⟩
        have h1 : held { s with writer := some t, pc := upd s.pc t rest } t' = .none :=
          held_none.2 ⟨fun h => e (Option.some.inj h).symm, hall t'⟩
        show runsFrom _ _ (held _ t') (upd s.pc t rest t') = true
        rw [h1, upd_ne _ _ e, ← h0]; exact hI.runs t'
    · intro _ _ t'; exact hall t'
  | acqR r rest hpc hcls hw hpol =>
    have hrun := hI.runs t
    rw [hpc] at hrun
    obtain ⟨m, hf, hrest⟩ := runsFrom_cons hrun
    obtain ⟨_, rfl⟩ := follows_acqR hcls hf
    refine ⟨?_, ?_, good_pop hI.good hpc⟩
    · intro t'
      by_cases e : t' = t
      · subst e
        have hh : held { s with readers := upd s.readers t' true, pc := upd s.pc t' rest } t' = .R := by
          unfold held
          rw [if_neg (by show s.writer ≠ some t'; rw [hw]; simp)]
          simp
        show runsFrom _ _ (held _ t') (upd s.pc t' rest t') = true
        rw [hh, upd_same]; exact hrest
      · have h1 : held { s with readers := upd s.readers t true, pc := upd s.pc t rest } t' = held s t' := by
          unfold held
          show (if s.writer = some t' then Mode.W else if upd s.readers t true t' = true then .R else .none) = _
          rw [upd_ne _ _ e]
        show runsFrom _ _ (held _ t') (upd s.pc t rest t') = true
        rw [h1, upd_ne _ _ e]; exact hI.runs t'
    · intro t' h; have : s.writer = some t' := h; rw [hw] at this; cases this
  | relW r rest hpc hcls =>
    have hrun := hI.runs t
    rw [hpc] at hrun
    obtain ⟨m, hf, hrest⟩ := runsFrom_cons hrun
    obtain ⟨hcur, rfl⟩ := follows_relW hcls hf
    have hwt : s.writer = some t := held_W.1 hcur
    have hnor := hI.excl t hwt
    refine ⟨?_, ?_, good_pop hI.good hpc⟩
    · intro t'
      have h1 : held { s with writer := none, pc := upd s.pc t rest } t' = .none :=
        held_none.2 ⟨by simp, hnor t'⟩
      show runsFrom _ _ (held _ t') (upd s.pc t rest t') = true
      rw [h1]
      by_cases e : t' = t
      · subst e; rw [upd_same]; exact hrest
      · have h0 : held s t' = .none :=
          held_none.2 ⟨by rw [hwt]; exact fun h => e (Option.some.inj h).symm, hnor t'⟩
        rw [upd_ne _ _ e, ← h0]; exact hI.runs t'
    · intro t' h; cases h
  | relR r rest hpc hcls =>
    have hrun := hI.runs t
    rw [hpc] at hrun
    obtain ⟨m, hf, hrest⟩ := runsFrom_cons hrun
    obtain ⟨hcur, rfl⟩ := follows_relR hcls hf
    obtain ⟨hnw, _⟩ := held_R hcur
    refine ⟨?_, ?_, good_pop hI.good hpc⟩
    · intro t'
      by_cases e : t' = t
      · subst e
        have h1 : held { s with readers := upd s.readers t' false, pc := upd s.pc t' rest } t' = .none :=
          held_none.2 ⟨hnw, by simp⟩
        show runsFrom _ _ (held _ t') (upd s.pc t' rest t') = true
        rw [h1, upd_same]; exact hrest
      · have h1 : held { s with readers := upd s.readers t false, pc := upd s.pc t rest } t' = held s t' := by
          unfold held
          show (if s.writer = some t' then Mode.W else if upd s.readers t false t' = true then .R else .none) = _
          rw [upd_ne _ _ e]
        show runsFrom _ _ (held _ t') (upd s.pc t rest t') = true
        rw [h1, upd_ne _ _ e]; exact hI.runs t'
    · intro w hw t'
      have := hI.excl w hw t'
      show upd s.readers t false t' = false
      by_cases e : t' = t
      · subst e; simp
      · rw [upd_ne _ _ e]; exact this
  | act r rest hpc hcls =>
    have hrun := hI.runs t
    rw [hpc] at hrun
    obtain ⟨m, hf, hrest⟩ := runsFrom_cons hrun
    obtain ⟨_, rfl⟩ := follows_act hcls hf
    refine ⟨?_, hI.excl, good_pop hI.good hpc⟩
    intro t'
    show runsFrom _ _ (held s t') (upd s.pc t rest t') = true
    by_cases e : t' = t
    · subst e; rw [upd_same]; exact hrest
    · rw [upd_ne _ _ e]; exact hI.runs t'

theorem reachable_inv {sys : Sys} (ha : Admissible sys) (hfin : sys.fin .none = true) {s : St}
    (hr : Reachable sys s) : Inv sys s := by
  induction hr with
  | init => exact init_inv sys hfin
  | step _ hs ih => exact step_inv ha ih hs

/-- W mode excludes every other holder -/
theorem writer_excludes {sys : Sys} {s : St} (hI : Inv sys s) {t1 t2 : Tid} (hne : t1 ≠ t2)
    (h1 : held s t1 = .W) : held s t2 = .none := by
  have hw := held_W.1 h1
  exact held_none.2 ⟨by rw [hw]; exact fun h => hne (Option.some.inj h), hI.excl t1 hw t2⟩

/-- a thread poised at a non-lock row holds the mutex in the mode the row is annotated with -/
theorem mode_at_row {sys : Sys} {s : St} (hI : Inv sys s) {t : Tid} {r : Row} {rest : List Row}
    (hpc : s.pc t = r :: rest) (hc : (sys.cls r).isLock = false) : held s t = r.mode := by
  have hrun := hI.runs t
  rw [hpc] at hrun
  obtain ⟨m, hf, _⟩ := runsFrom_cons hrun
  exact (follows_act hc hf).1.symm

/-- No two threads are simultaneously poised at conflicting accesses, provided every write row is
annotated W and every read row R or W. -/
theorem no_conflict {sys : Sys} {s : St} (hI : Inv sys s)
    (hW : ∀ r f, sys.good r → sys.cls r = .write f → r.mode = .W)
    (hR : ∀ r f, sys.good r → sys.cls r = .read f → r.mode ≠ .none)
    {t1 t2 : Tid} {r1 r2 : Row} {rest1 rest2 : List Row} (hne : t1 ≠ t2)
    (h1 : s.pc t1 = r1 :: rest1) (h2 : s.pc t2 = r2 :: rest2) : ¬ Conflict sys.cls r1 r2 := by
  have g1 : sys.good r1 := hI.good t1 r1 (by rw [h1]; exact List.mem_cons_self)
  have g2 : sys.good r2 := hI.good t2 r2 (by rw [h2]; exact List.mem_cons_self)
  -- a thread at a write holds W; a thread at any access holds something
  have atW : ∀ {t r rest f}, s.pc t = r :: rest → sys.good r → sys.cls r = .write f → held s t = .W := by
    intro t r rest f hpc hg hc
    rw [mode_at_row hI hpc (by rw [hc]; rfl)]; exact hW r f hg hc
  have atR : ∀ {t r rest f}, s.pc t = r :: rest → sys.good r → sys.cls r = .read f → held s t ≠ .none := by
    intro t r rest f hpc hg hc
    rw [mode_at_row hI hpc (by rw [hc]; rfl)]; exact hR r f hg hc
  rintro ⟨f, ⟨hw1, hw2 | hr2⟩ | ⟨hr1, hw2⟩⟩
  · have := writer_excludes hI hne (atW h1 g1 hw1)
    rw [atW h2 g2 hw2] at this; cases this
  · exact atR h2 g2 hr2 (writer_excludes hI hne (atW h1 g1 hw1))
  · exact atR h1 g1 hr1 (writer_excludes hI (Ne.symm hne) (atW h2 g2 hw2))

/-! ## progress -/

/-- If programs end with the mutex released and a reader is only ever held back in favour of a
waiting writer, then whenever some thread is inside a program, some thread inside a program can
move: the only blocking steps are acquisitions, and a holder never acquires. -/
theorem progress {sys : Sys} {s : St} (hI : Inv sys s)
    (hfin : ∀ m, sys.fin m = true → m = .none)
    (hpol : ∀ s t, ¬ WriterWaiting sys s → sys.pol s t)
    (hbusy : ∃ t, s.pc t ≠ []) : ∃ t s', s.pc t ≠ [] ∧ Step sys s t s' := by
  -- a thread with a non-empty program whose next row is not an acquisition can move
  have move : ∀ t r rest, s.pc t = r :: rest → sys.cls r ≠ .acqW → sys.cls r ≠ .acqR →
      ∃ s', Step sys s t s' := by
    intro t r rest hpc h1 h2
    cases hc : sys.cls r with
    | acqW => exact absurd hc h1
    | acqR => exact absurd hc h2
    | relW => exact ⟨_, Step.relW s t r rest hpc hc⟩
    | relR => exact ⟨_, Step.relR s t r rest hpc hc⟩
    | read f => exact ⟨_, Step.act s t r rest hpc (by rw [hc]; rfl)⟩
    | write f => exact ⟨_, Step.act s t r rest hpc (by rw [hc]; rfl)⟩
    | other => exact ⟨_, Step.act s t r rest hpc (by rw [hc]; rfl)⟩
  -- a holder has a non-empty program and its next row is not an acquisition
  have holder : ∀ t, held s t ≠ .none → ∃ s', s.pc t ≠ [] ∧ Step sys s t s' := by
    intro t hh
    have hrun := hI.runs t
    cases hpc : s.pc t with
    | nil =>
      rw [hpc] at hrun
      exact absurd (hfin _ hrun) hh
    | cons r rest =>
      rw [hpc] at hrun
      obtain ⟨m, hf, _⟩ := runsFrom_cons hrun
      obtain ⟨s', hs'⟩ := move t r rest hpc
        (fun hc => hh (follows_acqW hc hf).1) (fun hc => hh (follows_acqR hc hf).1)
      exact ⟨s', by simp, hs'⟩
  by_cases hex : ∃ t, held s t ≠ .none
  · obtain ⟨t, ht⟩ := hex
    obtain ⟨s', h1, h2⟩ := holder t ht
    exact ⟨t, s', h1, h2⟩
  · -- nobody holds the mutex
    have hfree : ∀ t, s.writer ≠ some t ∧ s.readers t = false := by
      intro t
      apply held_none.1
      cases hh : held s t with
      | none => rfl
      | R => exact absurd ⟨t, by rw [hh]; simp⟩ hex
      | W => exact absurd ⟨t, by rw [hh]; simp⟩ hex
    have hw : s.writer = none := by
      cases hw : s.writer with
      | none => rfl
      | some w => exact absurd hw (hfree w).1
    by_cases hww : WriterWaiting sys s
    · obtain ⟨t, r, rest, hpc, hc⟩ := hww
      exact ⟨t, _, by rw [hpc]; simp, Step.acqW s t r rest hpc hc hw (fun t' => (hfree t').2)⟩
    · obtain ⟨t, ht⟩ := hbusy
      cases hpc : s.pc t with
      | nil => exact absurd hpc ht
      | cons r rest =>
        by_cases hc : sys.cls r = .acqR
        · exact ⟨t, _, by rw [hpc]; simp, Step.acqR s t r rest hpc hc hw (hpol s t hww)⟩
        · obtain ⟨s', hs'⟩ := move t r rest hpc (fun h => hww ⟨t, r, rest, hpc, h⟩) hc
          exact ⟨t, s', by rw [hpc]; simp, hs'⟩

/-! ## from the table predicates to the row-level discipline -/

theorem rowOK_of_disciplined {t : List Row} {r : Row} (hD : Disciplined t) (hr : r ∈ t)
    (hx : exempt r.method = false) : rowOK r = true := by
  unfold Disciplined disciplinedB at hD
  rw [Bool.and_eq_true] at hD
  have := List.all_eq_true.1 hD.1 r hr
  rw [hx] at this
  simpa using this

theorem dbAct_write_mode {r : Row} {f : String} (h : rowOK r = true) (hc : dbAct r = .write f) :
    r.mode = .W := by
  unfold dbAct at hc
  split at hc
  · rename_i f' hf
    unfold rowOK at h
    rw [hf] at h
    simpa using h
  · split at hc
    · cases hc
    · repeat (first | (split at hc) | cases hc)

theorem dbAct_read_mode {r : Row} {f : String} (h : rowOK r = true) (hc : dbAct r = .read f) :
    r.mode ≠ .none := by
  unfold dbAct at hc
  split at hc
  · cases hc
  · rename_i hw
    split at hc
    · rename_i f' hf
      unfold rowOK at h
      rw [hw, hf] at h
      simpa using h
    · repeat (first | (split at hc) | cases hc)

theorem shardAct_write_mode {r : Row} {f : String} (h : shardRowOK r = true)
    (hc : shardAct r = .write f) : r.mode = .W := by
  unfold shardAct at hc
  split at hc
  · rename_i hw
    unfold shardRowOK at h
    rw [if_pos hw] at h
    simpa using h
  · repeat (first | (split at hc) | cases hc)

theorem shardAct_read_mode {r : Row} {f : String} (h : shardRowOK r = true)
    (hc : shardAct r = .read f) : r.mode ≠ .none := by
  unfold shardAct at hc
  split at hc
  · cases hc
  · rename_i hw
    split at hc
    · rename_i hr
      unfold shardRowOK at h
      rw [if_neg hw, if_pos hr] at h
      simpa using h
    · repeat (first | (split at hc) | cases hc)

/-- rows of a path are rows of the table, of a method inside the lock discipline -/
theorem path_good {t : List Row} {m : String} {ords : List Nat} (h1 : m ≠ "Open")
    (h2 : m ≠ "DB.Close") : ∀ r ∈ path t m ords, r ∈ t ∧ exempt r.method = false := by
  intro r hr
  unfold path at hr
  rw [List.mem_filter, Bool.and_eq_true] at hr
  obtain ⟨hm, he, _⟩ := hr
  have : r.method = m := by simpa using he
  refine ⟨hm, ?_⟩
  rw [this]
  simp [exempt, h1, h2]

end XixiKV.RWMutex
