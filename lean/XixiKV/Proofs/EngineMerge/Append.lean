import XixiKV.Proofs.EngineMerge.Out
namespace XixiKV.Engine.MergeP
open XixiKV XixiKV.Engine XixiKV.Frame XixiKV.Record XixiKV.Index XixiKV.Adopt XixiKV.Engine.Restart

/-! ## `appendLog` with the explicit shape of the new ghost directory, lock-independent

`Files` of `EngineLive` demands that the directory is locked (it is the directory of the open
handle).  `Merge` writes through a temporary handle into the merge directory, which carries no
lock; and the stability of `MergeOut` under later writes needs to know *which* ghost file grows.
`FilesU` is `Files` without the lock, and the specifications below name the new ghost directory. -/

def DirOKU (w : World) (dir : String) (g : GDir) : Prop := ∃ d, w.get dir = some d ∧ Matches d.data g

structure FilesU (s : St) (db : DB) (g : GDir) : Prop where
  dir : DirOKU s.world db.dir g
  asc : AscIds g
  active : (g.getLast?).map (·.1) = some db.activeId
  recs : ∀ x ∈ g, ∀ r ∈ x.2, RecOK r

theorem Files.toU {s : St} {db : DB} {g : GDir} (h : Files s db g) : FilesU s db g := by
  obtain ⟨d, hd, _, hm⟩ := h.dir
  exact ⟨⟨d, hd, hm⟩, h.asc, h.active, h.recs⟩

/-- hint, marker and lock of a directory -/
def metaOf (w : World) (dir : String) : Option ByteArray × Option ByteArray × Bool :=
  (((w.get dir).getD DirSt.empty).hint, ((w.get dir).getD DirSt.empty).marker, ((w.get dir).getD DirSt.empty).locked)

theorem putFile_meta (s : St) (db : DB) (id : Nat) (f : FileSt) :
    metaOf (putFile s db id f).world db.dir = metaOf s.world db.dir := by
  unfold metaOf
  rw [putFile_get_self]
  rfl

theorem FilesU.locked {s : St} {db : DB} {g : GDir} (h : FilesU s db g) (hl : (metaOf s.world db.dir).2.2 = true) :
    Files s db g := by
  obtain ⟨d, hd, hm⟩ := h.dir
  refine ⟨⟨d, hd, ?_, hm⟩, h.asc, h.active, h.recs⟩
  unfold metaOf at hl
  rw [hd] at hl
  exact hl

theorem Files.meta_locked {s : St} {db : DB} {g : GDir} (h : Files s db g) : (metaOf s.world db.dir).2.2 = true := by
  obtain ⟨d, hd, hl, _⟩ := h.dir
  unfold metaOf
  rw [hd]; exact hl

theorem DirOKU_putFile {s : St} {db : DB} {g : GDir} (h : DirOKU s.world db.dir g) (id : Nat) (f : FileSt)
    (gf : GFile) (hf : f.bytes = bytesOf gf) : DirOKU (putFile s db id f).world db.dir (gset g id gf) := by
  obtain ⟨d, hd, hm⟩ := h
  rw [putFile_world hd]
  exact ⟨_, World.get_set_same _ _ _, Matches_setFile hm id f gf hf⟩

theorem FilesU.last {s : St} {db : DB} {g : GDir} (h : FilesU s db g) :
    ∃ g0 gf, g = g0 ++ [(db.activeId, gf)] ∧ (∀ x ∈ g0, x.1 < db.activeId) := by
  have ha := h.active
  cases hl : g.getLast? with
  | none => rw [hl] at ha; simp at ha
  | some x =>
    rw [hl] at ha
    simp only [Option.map_some, Option.some.injEq] at ha
    obtain ⟨g0, hg0⟩ := List.getLast?_eq_some_iff.mp hl
    obtain ⟨i, gf⟩ := x
    simp only at ha
    subst ha
    refine ⟨g0, gf, hg0, ?_⟩
    intro y hy
    have := h.asc
    rw [hg0] at this
    exact (List.pairwise_append.mp this).2.2 y hy (db.activeId, gf) (by simp)

theorem activeFile_bytesU {s : St} {db : DB} {g : GDir} (hd : DirOKU s.world db.dir g) (ha : AscIds g)
    {gf : GFile} (hm : (db.activeId, gf) ∈ g) : (activeFile s db).bytes = bytesOf gf := by
  obtain ⟨d, hd, hmt⟩ := hd
  obtain ⟨f, hf, hb⟩ := Matches_getFile hmt ha hm
  simp only [activeFile, dirOf_eq hd, hf, Option.getD_some, hb]

theorem rotate_specU {s : St} {db : DB} {g : GDir} (h : FilesU s db g) :
    FilesU (rotate s db).1 (rotate s db).2 (g ++ [(db.activeId + 1, [])]) ∧
    (rotate s db).2 = { db with bytesWrite := 0, activeId := db.activeId + 1 } ∧
    (rotate s db).1.db = s.db ∧ metaOf (rotate s db).1.world db.dir = metaOf s.world db.dir := by
  obtain ⟨g0, gf, hg, hlt⟩ := h.last
  have hb : (activeFile s db).bytes = bytesOf gf := activeFile_bytesU h.dir h.asc (by rw [hg]; simp)
  have hall : ∀ x ∈ g, x.1 < db.activeId + 1 := by
    intro x hx
    rw [hg] at hx
    rcases List.mem_append.mp hx with hx | hx
    · have := hlt x hx; omega
    · simp only [List.mem_singleton] at hx; rw [hx]; exact Nat.lt_succ_self _
  refine ⟨⟨?_, ?_, ?_, ?_⟩, rfl, rfl, ?_⟩
  · have h1 := DirOKU_putFile h.dir db.activeId { activeFile s db with synced := (activeFile s db).bytes.size } gf hb
    rw [hg, gset_last g0 db.activeId gf gf hlt, ← hg] at h1
    have h2 := DirOKU_putFile (db := { db with bytesWrite := 0, activeId := db.activeId + 1 }) h1
      (db.activeId + 1) ⟨ByteArray.empty, 0⟩ [] rfl
    rw [gset_new g _ _ hall] at h2
    exact h2
  · exact List.pairwise_append.mpr ⟨h.asc, by simp, fun a ha b hb' => by
      simp only [List.mem_singleton] at hb'; rw [hb']; exact hall a ha⟩
  · simp [rotate]
  · intro x hx r hr
    rcases List.mem_append.mp hx with hx | hx
    · exact h.recs x hx r hr
    · simp only [List.mem_singleton] at hx; rw [hx] at hr; simp at hr
  · unfold rotate
    simp only []
    exact (putFile_meta _ { db with bytesWrite := 0, activeId := db.activeId + 1 } _ _).trans (putFile_meta _ _ _ _)

theorem appendTail_specU {s : St} {db : DB} {g0 : GDir} {gf : GFile} (h : FilesU s db (g0 ++ [(db.activeId, gf)]))
    (hlt : ∀ x ∈ g0, x.1 < db.activeId) (r : Record) (hr : RecOK r) :
    FilesU (appendTail s db r).1 (appendTail s db r).2.1 (g0 ++ [(db.activeId, gf ++ [r])]) ∧
      (appendTail s db r).2.2 = posOf C db.activeId (bytesOf gf).size (encodeRecord r) ∧
      (appendTail s db r).1.db = s.db ∧
      (∃ bw, (appendTail s db r).2.1 = { db with total := db.total + (appendTail s db r).2.2.size, bytesWrite := bw }) ∧
      metaOf (appendTail s db r).1.world db.dir = metaOf s.world db.dir := by
  have hb : (activeFile s db).bytes = bytesOf gf := activeFile_bytesU h.dir h.asc (by simp)
  have hpos : (appendTail s db r).2.2 = posOf C db.activeId (bytesOf gf).size (encodeRecord r) := by
    simp only [appendTail, hb]
  refine ⟨⟨?_, ?_, ?_, ?_⟩, hpos, ?_, ⟨(appendTail s db r).2.1.bytesWrite, ?_⟩, ?_⟩
  · have hbytes : appendRec C (activeFile s db).bytes (encodeRecord r) = bytesOf (gf ++ [r]) := by
      rw [bytesOf_append, hb]
    unfold appendTail
    simp only []
    split
    · have h1 := DirOKU_putFile (db := { db with total := db.total + (posOf C db.activeId (activeFile s db).bytes.size (encodeRecord r)).size, bytesWrite := 0 }) h.dir db.activeId
        ⟨appendRec C (activeFile s db).bytes (encodeRecord r), (appendRec C (activeFile s db).bytes (encodeRecord r)).size⟩ (gf ++ [r]) hbytes
      rw [gset_last g0 db.activeId gf _ hlt] at h1
      exact h1
    · have h1 := DirOKU_putFile (db := { db with total := db.total + (posOf C db.activeId (activeFile s db).bytes.size (encodeRecord r)).size, bytesWrite := db.bytesWrite + (posOf C db.activeId (activeFile s db).bytes.size (encodeRecord r)).size }) h.dir db.activeId
        ⟨appendRec C (activeFile s db).bytes (encodeRecord r), (activeFile s db).synced⟩ (gf ++ [r]) hbytes
      rw [gset_last g0 db.activeId gf _ hlt] at h1
      exact h1
  · have := h.asc
    obtain ⟨a1, _, a3⟩ := List.pairwise_append.mp this
    exact List.pairwise_append.mpr ⟨a1, by simp, fun a ha b hb' => by
      simp only [List.mem_singleton] at hb'; rw [hb']; exact hlt a ha⟩
  · unfold appendTail
    simp only []
    split <;> simp
  · intro x hx r' hr'
    rcases List.mem_append.mp hx with hx | hx
    · exact h.recs x (by simp [hx]) r' hr'
    · simp only [List.mem_singleton] at hx
      rw [hx] at hr'
      rcases List.mem_append.mp hr' with hr' | hr'
      · exact h.recs (db.activeId, gf) (by simp) r' hr'
      · simp only [List.mem_singleton] at hr'; rw [hr']; exact hr
  · unfold appendTail
    simp only []
    split <;> rfl
  · unfold appendTail
    simp only []
    split <;> rfl
  · unfold appendTail
    simp only []
    split
    · exact putFile_meta _ { db with total := _, bytesWrite := 0 } _ _
    · exact putFile_meta _ { db with total := _, bytesWrite := _ } _ _

/-- the two ways `appendLogRecord` extends the ghost directory `g = g0 ++ [(a, gf)]` -/
inductive Grow (g0 : GDir) (a : Nat) (gf : GFile) (r : Record) : GDir → Nat → Pos → Prop where
  | same : Grow g0 a gf r (g0 ++ [(a, gf ++ [r])]) a (posOf C a (bytesOf gf).size (encodeRecord r))
  | rotated : Grow g0 a gf r (g0 ++ [(a, gf)] ++ [(a + 1, [r])]) (a + 1) (posOf C (a + 1) 0 (encodeRecord r))

/-- **`appendLogRecord`, explicit**: with `g = g0 ++ [(a, gf)]`, the new ghost directory is either
    `g0 ++ [(a, gf ++ [r])]` or `g ++ [(a+1, [r])]`; hint, marker and lock are untouched -/
theorem appendLog_shape {s : St} {db : DB} {g : GDir} (h : FilesU s db g) (r : Record) (hr : RecOK r) :
    ∃ g0 gf g', g = g0 ++ [(db.activeId, gf)] ∧ (∀ x ∈ g0, x.1 < db.activeId) ∧
      Grow g0 db.activeId gf r g' (appendLog s db r).2.1.activeId (appendLog s db r).2.2 ∧
      FilesU (appendLog s db r).1 (appendLog s db r).2.1 g' ∧
      (appendLog s db r).1.db = s.db ∧
      (∃ bw a, (appendLog s db r).2.1 = { db with total := db.total + (appendLog s db r).2.2.size, bytesWrite := bw, activeId := a }) ∧
      metaOf (appendLog s db r).1.world db.dir = metaOf s.world db.dir := by
  obtain ⟨g0, gf, hg, hlt⟩ := h.last
  refine ⟨g0, gf, ?_⟩
  rw [appendLog_eq]
  split
  · obtain ⟨hf, hdb, hs, hmeta⟩ := rotate_specU h
    have hlt' : ∀ x ∈ g, x.1 < (rotate s db).2.activeId := by
      intro x hx
      rw [hdb, hg] at *
      rcases List.mem_append.mp hx with hx | hx
      · have := hlt x hx; simp only; omega
      · simp only [List.mem_singleton] at hx; rw [hx]; exact Nat.lt_succ_self _
    have hf' : FilesU (rotate s db).1 (rotate s db).2 (g ++ [((rotate s db).2.activeId, [])]) := by
      rw [hdb]; exact hf
    obtain ⟨h1, h2, h3, ⟨bw, h4⟩, h5⟩ := appendTail_specU hf' hlt' r hr
    have hact : (rotate s db).2.activeId = db.activeId + 1 := by rw [hdb]
    refine ⟨g ++ [(db.activeId + 1, [r])], hg, hlt, ?_, ?_, by rw [h3, hs], ⟨bw, db.activeId + 1, by rw [h4, hdb]⟩, ?_⟩
    · rw [appendTail_activeId, h2, hact, hg]
      exact Grow.rotated
    · rw [hact] at h1; exact h1
    · rw [rotate_dir] at h5; rw [h5, hmeta]
  · have hf' : FilesU s db (g0 ++ [(db.activeId, gf)]) := by rw [← hg]; exact h
    obtain ⟨h1, h2, h3, ⟨bw, h4⟩, h5⟩ := appendTail_specU hf' hlt r hr
    refine ⟨g0 ++ [(db.activeId, gf ++ [r])], hg, hlt, ?_, h1, h3, ⟨bw, db.activeId, by rw [h4]⟩, h5⟩
    rw [appendTail_activeId, h2]
    exact Grow.same

theorem Grow.log {g0 : GDir} {a : Nat} {gf : GFile} {r : Record} {g' : GDir} {a' : Nat} {p : Pos}
    (h : Grow g0 a gf r g' a' p) : logOf g' = logOf (g0 ++ [(a, gf)]) ++ [(r, p)] ∧ p.fid = a' ∧ (a' = a ∨ a' = a + 1) := by
  cases h with
  | same => exact ⟨logOf_append_rec g0 a gf r, rfl, Or.inl rfl⟩
  | rotated =>
    refine ⟨?_, rfl, Or.inr rfl⟩
    have := logOf_append_rec (g0 ++ [(a, gf)]) (a + 1) [] r
    rw [logOf_new_file] at this
    exact this

theorem Grow.ids {g0 : GDir} {a : Nat} {gf : GFile} {r : Record} {g' : GDir} {a' : Nat} {p : Pos}
    (h : Grow g0 a gf r g' a' p) :
    (g'.map (·.1) = (g0 ++ [(a, gf)]).map (·.1) ∧ a' = a) ∨
    (g'.map (·.1) = (g0 ++ [(a, gf)]).map (·.1) ++ [a + 1] ∧ a' = a + 1) := by
  cases h with
  | same => left; simp
  | rotated => right; simp

end XixiKV.Engine.MergeP
