import XixiKV.Proofs.EngineMerge.Base
namespace XixiKV.Engine.MergeP
open XixiKV XixiKV.Engine XixiKV.Frame XixiKV.Record XixiKV.Index XixiKV.Adopt

/-! ## adoption on the pair (data directory, merge directory) -/

/-- the two directories adoption works on: the data directory (created empty when missing) and the
    merge directory (`none` = does not exist) -/
abbrev PairSt := DirSt × Option DirSt

def viewP (w : World) (dir : String) : PairSt := ((w.get dir).getD DirSt.empty, w.get (mergeDirName dir))

def putP (w : World) (dir : String) (p : PairSt) : World :=
  match p.2 with
  | some md => (w.set dir p.1).set (mergeDirName dir) md
  | none => (w.set dir p.1).remove (mergeDirName dir)

def planP (p : PairSt) : Option (Nat × Nat) :=
  match p.2 with
  | none => none
  | some md =>
    match md.marker with
    | none => none
    | some m =>
      if (readMarker m).1 = 0 ∨ (readMarker m).2 > (readMarker m).1 then none else some (readMarker m)

def stepP (p : PairSt) (st : Step) : PairSt :=
  match p.2 with
  | none => p
  | some md =>
    match st with
    | .rename i =>
      match getFile md.data i with
      | none => p
      | some f => ({ p.1 with data := setFile p.1.data i f }, some { md with data := removeFile md.data i })
    | .remove i => ({ p.1 with data := removeFile p.1.data i }, some md)
    | .moveHint =>
      match md.hint with
      | none => p
      | some h => ({ p.1 with hint := some h }, some { md with hint := none })
    | .removeMarker => (p.1, some { md with marker := none })
    | .removeDir => (p.1, none)

def stepsP (p : PairSt) : List Step :=
  match planP p with
  | none => []
  | some (mergeID, count) =>
    let md := p.2.getD DirSt.empty
    (((List.range count).filter (fun i => (getFile md.data i).isSome)).map Step.rename)
      ++ ((List.range' count (mergeID - count)).map Step.remove)
      ++ (if md.hint.isSome then [Step.moveHint] else [])
      ++ [Step.removeMarker, Step.removeDir]

/-- `Engine.adopt` on the pair -/
def adoptP (p : PairSt) : PairSt × Nat :=
  match planP p with
  | none => (p, 0)
  | some (mergeID, count) =>
    let md := p.2.getD DirSt.empty
    let data := md.data.foldl (fun data (x : Nat × FileSt) => if x.1 < count then setFile data x.1 x.2 else data) p.1.data
    let data := data.filter (fun x => ¬ (count ≤ x.1 ∧ x.1 < mergeID))
    let hint := match md.hint with
      | some h => some h
      | none => p.1.hint
    (({ p.1 with data := data, hint := hint }, none), mergeID)

theorem mname_ne (dir : String) : mergeDirName dir ≠ dir := Restart.mergeDirName_ne dir

theorem get_put_dir (w : World) (dir : String) (p : PairSt) : (putP w dir p).get dir = some p.1 := by
  unfold putP
  cases p.2 with
  | some md => simp only []; rw [get_set_ne _ _ _ _ (mname_ne dir).symm, get_set_self]
  | none => simp only []; rw [get_remove_ne _ _ _ (mname_ne dir).symm, get_set_self]

theorem get_put_m (w : World) (dir : String) (p : PairSt) : (putP w dir p).get (mergeDirName dir) = p.2 := by
  unfold putP
  cases h : p.2 with
  | some md => simp only []; rw [get_set_self]
  | none => simp only []; rw [get_remove_self]

theorem get_put_other (w : World) (dir : String) (p : PairSt) (n : String) (h1 : n ≠ dir) (h2 : n ≠ mergeDirName dir) :
    (putP w dir p).get n = w.get n := by
  unfold putP
  cases p.2 with
  | some md => simp only []; rw [get_set_ne _ _ _ _ h2, get_set_ne _ _ _ _ h1]
  | none => simp only []; rw [get_remove_ne _ _ _ h2, get_set_ne _ _ _ _ h1]

theorem view_put (w : World) (dir : String) (p : PairSt) : viewP (putP w dir p) dir = p := by
  unfold viewP
  rw [get_put_dir, get_put_m]; rfl

theorem put_view {w : World} {dir : String} (h : (w.get dir).isSome = true) : putP w dir (viewP w dir) = w := by
  cases hd : w.get dir with
  | none => rw [hd] at h; cases h
  | some d =>
    unfold putP viewP
    rw [hd]
    simp only [Option.getD_some]
    rw [set_get_self hd]
    cases hm : w.get (mergeDirName dir) with
    | none => simp only []; exact remove_of_get_none hm
    | some md => simp only []; exact set_get_self hm

theorem put_put (w : World) (dir : String) (p q : PairSt) (hpq : p.2 = none → q.2 = none) :
    putP (putP w dir p) dir q = putP w dir q := by
  have hne := mname_ne dir
  unfold putP
  cases hp : p.2 with
  | some md =>
    cases hq : q.2 with
    | some md' => simp only []; rw [set_set_set _ _ _ _ _ _ hne.symm, set_set]
    | none => simp only []; rw [set_set_set _ _ _ _ _ _ hne.symm, remove_set_self]
  | none =>
    have hcomm : ∀ (w : World) (x : DirSt), (w.remove (mergeDirName dir)).set dir x = (w.set dir x).remove (mergeDirName dir) := by
      intro w x
      induction w with
      | nil => simp [World.set, World.remove, hne.symm]
      | cons y rest ih =>
        obtain ⟨n, s⟩ := y
        unfold World.remove at ih ⊢
        by_cases e : n = dir
        · subst e
          rw [List.filter_cons_of_pos (by simp [hne.symm])]
          simp only [World.set, if_pos]
          rw [List.filter_cons_of_pos (by simp [hne.symm])]
        · by_cases e2 : n = mergeDirName dir
          · rw [List.filter_cons_of_neg (by simp [e2])]
            simp only [World.set, if_neg e]
            rw [List.filter_cons_of_neg (by simp [e2])]
            exact ih
          · rw [List.filter_cons_of_pos (by simp [e2])]
            simp only [World.set, if_neg e]
            rw [List.filter_cons_of_pos (by simp [e2]), ih]
    cases hq : q.2 with
    | some md' => rw [hpq hp] at hq; cases hq
    | none =>
      simp only []
      rw [hcomm, set_set]
      unfold World.remove
      rw [List.filter_filter]; simp

theorem stepP_none_mono (p : PairSt) (st : Step) (h : p.2 = none) : (stepP p st).2 = none := by
  unfold stepP; rw [h]; exact h

/-- one file-system step on the world = the step on the pair -/
theorem applyStep_put (w : World) (dir : String) (p : PairSt) (st : Step) :
    applyStep (putP w dir p) dir st = putP w dir (stepP p st) := by
  have hne := mname_ne dir
  unfold applyStep
  simp only [get_put_dir, get_put_m, Option.getD_some]
  obtain ⟨D, M⟩ := p
  cases M with
  | none => rfl
  | some md =>
    simp only []
    cases st with
    | rename i =>
      simp only [stepP]
      cases hf : getFile md.data i with
      | none => rfl
      | some f =>
        simp only []
        show ((putP w dir (D, some md)).set dir _).set _ _ = putP w dir (_, some _)
        unfold putP
        simp only []
        rw [set_set_set _ _ _ _ _ _ hne.symm, set_set]
    | remove i =>
      simp only [stepP]
      unfold putP
      simp only []
      rw [set_set_set _ _ _ _ _ _ hne.symm]
    | moveHint =>
      simp only [stepP]
      cases hh : md.hint with
      | none => rfl
      | some h =>
        simp only []
        unfold putP
        simp only []
        rw [set_set_set _ _ _ _ _ _ hne.symm, set_set]
    | removeMarker =>
      simp only [stepP]
      unfold putP
      simp only []
      rw [set_set]
    | removeDir =>
      simp only [stepP]
      unfold putP
      simp only []
      rw [remove_set_self]

theorem applySteps_put (w : World) (dir : String) (l : List Step) : ∀ (p : PairSt),
    applySteps (putP w dir p) dir l = putP w dir (l.foldl stepP p) := by
  induction l with
  | nil => intro p; rfl
  | cons st l ih =>
    intro p
    simp only [applySteps, List.foldl_cons] at ih ⊢
    rw [applyStep_put, ih]

theorem plan_eq (w : World) (dir : String) : plan w dir = planP (viewP w dir) := rfl

theorem steps_eq (w : World) (dir : String) : steps w dir = stepsP (viewP w dir) := rfl

theorem adopt_eq_adoptP (w : World) (dir : String) (h : (w.get dir).isSome = true) :
    adopt w dir = (putP w dir (adoptP (viewP w dir)).1, (adoptP (viewP w dir)).2) := by
  unfold adopt adoptP planP viewP
  simp only []
  cases hm : w.get (mergeDirName dir) with
  | none => simp only []; rw [← hm]; exact Prod.ext (put_view h).symm rfl
  | some md =>
    simp only []
    cases hk : md.marker with
    | none =>
      simp only []
      refine Prod.ext ?_ rfl
      have := put_view h
      unfold viewP at this
      rw [hm] at this
      exact this.symm
    | some m =>
      simp only []
      by_cases hc : (readMarker m).1 = 0 ∨ (readMarker m).2 > (readMarker m).1
      · rw [if_pos hc, if_pos hc]
        refine Prod.ext ?_ rfl
        have := put_view h
        unfold viewP at this
        rw [hm] at this
        exact this.symm
      · rw [if_neg hc, if_neg hc]
        rfl

/-! ## the result of adoption, pointwise -/

def tgtData (mid cnt : Nat) (D M : List (Nat × FileSt)) : List (Nat × FileSt) :=
  (M.foldl (fun data (x : Nat × FileSt) => if x.1 < cnt then setFile data x.1 x.2 else data) D).filter
    (fun x => ¬ (cnt ≤ x.1 ∧ x.1 < mid))

def tgtHint (D M : DirSt) : Option ByteArray :=
  match M.hint with
  | some h => some h
  | none => D.hint

/-- the data directory after adopting merge directory `M` (marker `(mid, cnt)`) -/
def tgt (mid cnt : Nat) (D M : DirSt) : DirSt :=
  { D with data := tgtData mid cnt D.data M.data, hint := tgtHint D M }

theorem adoptP_some {p : PairSt} {M : DirSt} {mid cnt : Nat} (hM : p.2 = some M) (hp : planP p = some (mid, cnt)) :
    adoptP p = ((tgt mid cnt p.1 M, none), mid) := by
  unfold adoptP
  rw [hp]
  simp only [hM, Option.getD_some]
  rfl

theorem adoptP_none {p : PairSt} (hp : planP p = none) : adoptP p = (p, 0) := by
  unfold adoptP; rw [hp]

theorem getFile_foldl_rename (cnt : Nat) : ∀ (M D : List (Nat × FileSt)), AscF M → ∀ j,
    getFile (M.foldl (fun data (x : Nat × FileSt) => if x.1 < cnt then setFile data x.1 x.2 else data) D) j
      = if j < cnt then (getFile M j).or (getFile D j) else getFile D j := by
  intro M
  induction M with
  | nil => intro D _ j; simp [getFile]
  | cons x rest ih =>
    intro D hM j
    obtain ⟨n, g⟩ := x
    unfold AscF at hM ih
    rw [List.pairwise_cons] at hM
    simp only [List.foldl_cons]
    rw [ih _ hM.2 j]
    have hgc : getFile ((n, g) :: rest) j = if n = j then some g else getFile rest j := rfl
    rw [hgc]
    by_cases hn : n < cnt
    · simp only [hn, if_true, getFile_setFile]
      by_cases e : n = j
      · subst e
        have := getFile_none_of_lt (fun z hz => hM.1 z hz)
        simp only at this
        simp [hn, this]
      · have e' : ¬ j = n := fun e' => e (Eq.symm e')
        simp [e, e']
    · simp only [hn, if_false]
      by_cases hj : j < cnt
      · have e : ¬ n = j := by omega
        simp [hj, e]
      · simp [hj]

theorem AscF_foldl_rename (cnt : Nat) : ∀ (M D : List (Nat × FileSt)), AscF D →
    AscF (M.foldl (fun data (x : Nat × FileSt) => if x.1 < cnt then setFile data x.1 x.2 else data) D) := by
  intro M
  induction M with
  | nil => intro D h; exact h
  | cons x rest ih =>
    intro D h
    simp only [List.foldl_cons]
    apply ih
    split
    · exact AscF_setFile h _ _
    · exact h

theorem AscF_tgtData (mid cnt : Nat) (D M : List (Nat × FileSt)) (h : AscF D) : AscF (tgtData mid cnt D M) :=
  AscF_filter (AscF_foldl_rename cnt M D h) _

theorem getFile_tgtData (mid cnt : Nat) (D M : List (Nat × FileSt)) (hM : AscF M) (j : Nat) :
    getFile (tgtData mid cnt D M) j
      = if cnt ≤ j ∧ j < mid then none
        else if j < cnt then (getFile M j).or (getFile D j) else getFile D j := by
  unfold tgtData
  have := getFile_filter (fun n => decide (¬ (cnt ≤ n ∧ n < mid)))
    (M.foldl (fun data (x : Nat × FileSt) => if x.1 < cnt then setFile data x.1 x.2 else data) D) j
  rw [this, getFile_foldl_rename cnt M D hM j]
  by_cases h : cnt ≤ j ∧ j < mid
  · rw [if_pos h, if_neg (by simp only [decide_not, Bool.not_eq_eq_eq_not, Bool.not_true, decide_eq_false_iff_not, Decidable.not_not]; exact h)]
  · rw [if_neg h, if_pos (by simp only [decide_eq_true_eq]; exact h)]

/-! ## every step before the marker removal preserves the result of adoption -/

/-- the steps that precede the removal of the marker -/
def Safe (mid cnt : Nat) : Step → Prop
  | .rename i => i < cnt
  | .remove i => cnt ≤ i ∧ i < mid
  | .moveHint => True
  | .removeMarker => False
  | .removeDir => False

theorem DirSt_ext {a b : DirSt} (h1 : a.data = b.data) (h2 : a.hint = b.hint) (h3 : a.marker = b.marker)
    (h4 : a.locked = b.locked) : a = b := by
  cases a; cases b; simp only at h1 h2 h3 h4; subst h1 h2 h3 h4; rfl

theorem tgt_step (mid cnt : Nat) (hc : cnt ≤ mid) (D M : DirSt) (st : Step) (hs : Safe mid cnt st)
    (hD : AscF D.data) (hM : AscF M.data) :
    ∃ D' M', stepP (D, some M) st = (D', some M') ∧ M'.marker = M.marker ∧ AscF D'.data ∧ AscF M'.data ∧
      tgt mid cnt D' M' = tgt mid cnt D M ∧
      (∀ j, (getFile M.data j = none ∨ st = .rename j) → getFile M'.data j = none) ∧
      (∀ j, cnt ≤ j → j < mid → (getFile D.data j = none ∨ st = .remove j) → getFile D'.data j = none) ∧
      ((M.hint = none ∨ st = .moveHint) → M'.hint = none) := by
  cases st with
  | rename i =>
    simp only [Safe] at hs
    cases hf : getFile M.data i with
    | none =>
      refine ⟨D, M, by simp only [stepP, hf], rfl, hD, hM, rfl, ?_, ?_, ?_⟩
      · intro j hj
        rcases hj with hj | hj
        · exact hj
        · cases hj; exact hf
      · intro j _ _ hj
        rcases hj with hj | hj
        · exact hj
        · cases hj
      · intro hj
        rcases hj with hj | hj
        · exact hj
        · cases hj
    | some f =>
      refine ⟨{ D with data := setFile D.data i f }, { M with data := removeFile M.data i },
        by simp only [stepP, hf], rfl, AscF_setFile hD _ _, AscF_removeFile hM _, ?_, ?_, ?_, ?_⟩
      · refine DirSt_ext ?_ (by rfl) (by rfl) (by rfl)
        apply AscF_ext (AscF_tgtData _ _ _ _ (AscF_setFile hD _ _)) (AscF_tgtData _ _ _ _ hD)
        intro j
        show getFile (tgtData mid cnt (setFile D.data i f) (removeFile M.data i)) j = getFile (tgtData mid cnt D.data M.data) j
        rw [getFile_tgtData _ _ _ _ (AscF_removeFile hM _), getFile_tgtData _ _ _ _ hM, getFile_removeFile, getFile_setFile]
        by_cases e : j = i
        · subst e
          have : ¬ (cnt ≤ j ∧ j < mid) := by omega
          simp [this, hs, hf]
        · simp [e]
      · intro j hj
        show getFile (removeFile M.data i) j = none
        rw [getFile_removeFile]
        by_cases e : j = i
        · rw [if_pos e]
        · rw [if_neg e]
          rcases hj with hj | hj
          · exact hj
          · cases hj; exact absurd rfl e
      · intro j h1 h2 hj
        show getFile (setFile D.data i f) j = none
        rw [getFile_setFile, if_neg (by omega)]
        rcases hj with hj | hj
        · exact hj
        · cases hj
      · intro hj
        rcases hj with hj | hj
        · exact hj
        · cases hj
  | remove i =>
    simp only [Safe] at hs
    refine ⟨{ D with data := removeFile D.data i }, M, rfl, rfl, AscF_removeFile hD _, hM, ?_, ?_, ?_, ?_⟩
    · refine DirSt_ext ?_ (by rfl) (by rfl) (by rfl)
      apply AscF_ext (AscF_tgtData _ _ _ _ (AscF_removeFile hD _)) (AscF_tgtData _ _ _ _ hD)
      intro j
      show getFile (tgtData mid cnt (removeFile D.data i) M.data) j = getFile (tgtData mid cnt D.data M.data) j
      rw [getFile_tgtData _ _ _ _ hM, getFile_tgtData _ _ _ _ hM, getFile_removeFile]
      by_cases e : j = i
      · subst e
        rw [if_pos hs, if_pos hs]
      · rw [if_neg e]
    · intro j hj
      rcases hj with hj | hj
      · exact hj
      · cases hj
    · intro j _ _ hj
      show getFile (removeFile D.data i) j = none
      rw [getFile_removeFile]
      by_cases e : j = i
      · rw [if_pos e]
      · rw [if_neg e]
        rcases hj with hj | hj
        · exact hj
        · cases hj; exact absurd rfl e
    · intro hj
      rcases hj with hj | hj
      · exact hj
      · cases hj
  | moveHint =>
    cases hh : M.hint with
    | none =>
      refine ⟨D, M, by simp only [stepP, hh], rfl, hD, hM, rfl, ?_, ?_, ?_⟩
      · intro j hj
        rcases hj with hj | hj
        · exact hj
        · cases hj
      · intro j _ _ hj
        rcases hj with hj | hj
        · exact hj
        · cases hj
      · intro _; exact hh
    | some h =>
      refine ⟨{ D with hint := some h }, { M with hint := none }, by simp only [stepP, hh], rfl, hD, hM, ?_, ?_, ?_, ?_⟩
      · refine DirSt_ext (by rfl) ?_ (by rfl) (by rfl)
        show tgtHint { D with hint := some h } { M with hint := none } = tgtHint D M
        simp only [tgtHint, hh]
      · intro j hj
        rcases hj with hj | hj
        · exact hj
        · cases hj
      · intro j _ _ hj
        rcases hj with hj | hj
        · exact hj
        · cases hj
      · intro _; rfl
  | removeMarker => exact absurd hs (by simp [Safe])
  | removeDir => exact absurd hs (by simp [Safe])

/-- a run of steps before the marker removal -/
theorem tgt_steps (mid cnt : Nat) (hc : cnt ≤ mid) (l : List Step) : ∀ (D M : DirSt), (∀ st ∈ l, Safe mid cnt st) →
    AscF D.data → AscF M.data →
    ∃ D' M', l.foldl stepP (D, some M) = (D', some M') ∧ M'.marker = M.marker ∧ AscF D'.data ∧ AscF M'.data ∧
      tgt mid cnt D' M' = tgt mid cnt D M ∧
      (∀ j, (getFile M.data j = none ∨ Step.rename j ∈ l) → getFile M'.data j = none) ∧
      (∀ j, cnt ≤ j → j < mid → (getFile D.data j = none ∨ Step.remove j ∈ l) → getFile D'.data j = none) ∧
      ((M.hint = none ∨ Step.moveHint ∈ l) → M'.hint = none) := by
  induction l with
  | nil =>
    intro D M _ hD hM
    refine ⟨D, M, rfl, rfl, hD, hM, rfl, ?_, ?_, ?_⟩
    · intro j hj; rcases hj with hj | hj
      · exact hj
      · simp at hj
    · intro j _ _ hj; rcases hj with hj | hj
      · exact hj
      · simp at hj
    · intro hj; rcases hj with hj | hj
      · exact hj
      · simp at hj
  | cons st l ih =>
    intro D M hs hD hM
    obtain ⟨D1, M1, e1, m1, aD1, aM1, t1, f1, g1, h1⟩ := tgt_step mid cnt hc D M st (hs st (by simp)) hD hM
    obtain ⟨D2, M2, e2, m2, aD2, aM2, t2, f2, g2, h2⟩ := ih D1 M1 (fun x hx => hs x (by simp [hx])) aD1 aM1
    refine ⟨D2, M2, by rw [List.foldl_cons, e1, e2], by rw [m2, m1], aD2, aM2, by rw [t2, t1], ?_, ?_, ?_⟩
    · intro j hj
      apply f2 j
      rcases hj with hj | hj
      · exact Or.inl (f1 j (Or.inl hj))
      · rcases List.mem_cons.mp hj with hj | hj
        · exact Or.inl (f1 j (Or.inr hj.symm))
        · exact Or.inr hj
    · intro j c1 c2 hj
      apply g2 j c1 c2
      rcases hj with hj | hj
      · exact Or.inl (g1 j c1 c2 (Or.inl hj))
      · rcases List.mem_cons.mp hj with hj | hj
        · exact Or.inl (g1 j c1 c2 (Or.inr hj.symm))
        · exact Or.inr hj
    · intro hj
      apply h2
      rcases hj with hj | hj
      · exact Or.inl (h1 (Or.inl hj))
      · rcases List.mem_cons.mp hj with hj | hj
        · exact Or.inl (h1 (Or.inr hj.symm))
        · exact Or.inr hj

/-- when nothing is left to do, adoption does not change the data directory -/
theorem tgt_done (mid cnt : Nat) (D M : DirSt) (hD : AscF D.data) (hM : AscF M.data)
    (h1 : ∀ j, j < cnt → getFile M.data j = none)
    (h2 : ∀ j, cnt ≤ j → j < mid → getFile D.data j = none) (h3 : M.hint = none) :
    tgt mid cnt D M = D := by
  refine DirSt_ext ?_ ?_ (by rfl) (by rfl)
  · apply AscF_ext (AscF_tgtData _ _ _ _ hD) hD
    intro j
    show getFile (tgtData mid cnt D.data M.data) j = _
    rw [getFile_tgtData _ _ _ _ hM]
    by_cases c : cnt ≤ j ∧ j < mid
    · rw [if_pos c, h2 j c.1 c.2]
    · rw [if_neg c]
      by_cases c2 : j < cnt
      · rw [if_pos c2, h1 j c2]; rfl
      · rw [if_neg c2]
  · show tgtHint D M = D.hint
    simp only [tgtHint, h3]

/-! ## the step list of a directory state -/

theorem planP_some_inv {p : PairSt} {mid cnt : Nat} (h : planP p = some (mid, cnt)) :
    ∃ M m, p.2 = some M ∧ M.marker = some m ∧ readMarker m = (mid, cnt) ∧ mid ≠ 0 ∧ cnt ≤ mid := by
  unfold planP at h
  cases hM : p.2 with
  | none => rw [hM] at h; cases h
  | some M =>
    rw [hM] at h
    simp only [] at h
    cases hm : M.marker with
    | none => rw [hm] at h; cases h
    | some m =>
      rw [hm] at h
      simp only [] at h
      by_cases c : (readMarker m).1 = 0 ∨ (readMarker m).2 > (readMarker m).1
      · rw [if_pos c] at h; cases h
      · rw [if_neg c] at h
        have e : readMarker m = (mid, cnt) := Option.some.inj h
        refine ⟨M, m, rfl, hm, e, ?_, ?_⟩
        · intro h0; apply c; left; rw [e]; exact h0
        · rw [e] at c; simp only at c; omega

theorem planP_congr (D D' M M' : DirSt) (h : M'.marker = M.marker) : planP (D', some M') = planP (D, some M) := by
  unfold planP; simp only [h]

theorem planP_no_marker (D M : DirSt) (h : M.marker = none) : planP (D, some M) = none := by
  unfold planP; simp only [h]

theorem planP_no_dir (D : DirSt) : planP (D, none) = none := rfl

/-- the step list is a run of `Safe` steps that covers everything there is to do, followed by the
    removal of the marker and of the directory -/
theorem stepsP_decomp {p : PairSt} {M : DirSt} {mid cnt : Nat} (hM : p.2 = some M) (h : planP p = some (mid, cnt)) :
    ∃ A, stepsP p = A ++ [Step.removeMarker, Step.removeDir] ∧ (∀ st ∈ A, Safe mid cnt st) ∧
      (∀ j, j < cnt → getFile M.data j ≠ none → Step.rename j ∈ A) ∧
      (∀ j, cnt ≤ j → j < mid → Step.remove j ∈ A) ∧
      (M.hint ≠ none → Step.moveHint ∈ A) := by
  refine ⟨(((List.range cnt).filter (fun i => (getFile M.data i).isSome)).map Step.rename)
      ++ ((List.range' cnt (mid - cnt)).map Step.remove)
      ++ (if M.hint.isSome then [Step.moveHint] else []), ?_, ?_, ?_, ?_, ?_⟩
  · unfold stepsP; rw [h]; simp only [hM, Option.getD_some]
  · intro st hst
    simp only [List.mem_append, List.mem_map, List.mem_filter, List.mem_range, List.mem_range'_1] at hst
    rcases hst with (⟨i, ⟨hi, _⟩, rfl⟩ | ⟨i, hi, rfl⟩) | hst
    · exact hi
    · show cnt ≤ i ∧ i < mid; omega
    · split at hst
      · simp only [List.mem_singleton] at hst; rw [hst]; trivial
      · simp at hst
  · intro j hj hf
    simp only [List.mem_append, List.mem_map, List.mem_filter, List.mem_range]
    left; left
    refine ⟨j, ⟨hj, ?_⟩, rfl⟩
    cases hg : getFile M.data j with
    | none => exact absurd hg hf
    | some f => rfl
  · intro j h1 h2
    simp only [List.mem_append, List.mem_map, List.mem_range'_1]
    left; right
    exact ⟨j, by omega, rfl⟩
  · intro hh
    simp only [List.mem_append]
    right
    cases hg : M.hint with
    | none => exact absurd hg hh
    | some x => simp

/-- the representation invariant adoption relies on: file ids ascend in both directories -/
structure AscP (p : PairSt) : Prop where
  d : AscF p.1.data
  m : ∀ M, p.2 = some M → AscF M.data

/-- **all steps = the atomic adoption**, on the pair -/
theorem adoptP_steps (p : PairSt) (hp : AscP p) : (stepsP p).foldl stepP p = (adoptP p).1 := by
  cases hpl : planP p with
  | none => rw [adoptP_none hpl]; unfold stepsP; rw [hpl]; rfl
  | some mc =>
    obtain ⟨mid, cnt⟩ := mc
    obtain ⟨M, m, hM, hm, hrd, hmid, hc⟩ := planP_some_inv hpl
    obtain ⟨A, hA, hsafe, hren, hrem, hhint⟩ := stepsP_decomp hM hpl
    obtain ⟨D, M0⟩ := p
    simp only at hM; subst hM
    obtain ⟨D', M', e, hmk, aD, aM, ht, f1, f2, f3⟩ := tgt_steps mid cnt hc A D M hsafe hp.d (hp.m M rfl)
    rw [adoptP_some rfl hpl, hA, List.foldl_append, e]
    have hdone : tgt mid cnt D' M' = D' := by
      apply tgt_done mid cnt D' M' aD aM
      · intro j hj
        apply f1 j
        by_cases c : getFile M.data j = none
        · exact Or.inl c
        · exact Or.inr (hren j hj c)
      · intro j h1 h2
        exact f2 j h1 h2 (Or.inr (hrem j h1 h2))
      · apply f3
        by_cases c : M.hint = none
        · exact Or.inl c
        · exact Or.inr (hhint c)
    simp only [List.foldl_cons, List.foldl_nil, stepP]
    rw [← ht, hdone]

/-- after adoption there is nothing left to adopt -/
theorem planP_adoptP (p : PairSt) : planP (adoptP p).1 = none := by
  cases hpl : planP p with
  | none => rw [adoptP_none hpl]; exact hpl
  | some mc =>
    obtain ⟨mid, cnt⟩ := mc
    obtain ⟨M, m, hM, _⟩ := planP_some_inv hpl
    rw [adoptP_some hM hpl]; rfl

/-- **crash after any prefix, then adopt again**: the data directory ends up exactly as after an
    uninterrupted adoption; when the marker was still there the whole result is the same -/
theorem adoptP_prefix (p : PairSt) (hp : AscP p) (k : Nat) :
    AscP (((stepsP p).take k).foldl stepP p) ∧
    (adoptP (((stepsP p).take k).foldl stepP p)).1.1 = (adoptP p).1.1 ∧
    (k + 2 ≤ (stepsP p).length → adoptP (((stepsP p).take k).foldl stepP p) = adoptP p) ∧
    ((adoptP (((stepsP p).take k).foldl stepP p)).2 = (adoptP p).2 ∨
      (adoptP (((stepsP p).take k).foldl stepP p)).2 = 0) := by
  cases hpl : planP p with
  | none =>
    have : stepsP p = [] := by unfold stepsP; rw [hpl]
    rw [this]
    simp only [List.take_nil, List.foldl_nil]
    exact ⟨hp, trivial, fun _ => trivial, Or.inl trivial⟩
  | some mc =>
    obtain ⟨mid, cnt⟩ := mc
    obtain ⟨M, m, hM, hm, hrd, hmid, hc⟩ := planP_some_inv hpl
    obtain ⟨A, hA, hsafe, hren, hrem, hhint⟩ := stepsP_decomp hM hpl
    obtain ⟨D, M0⟩ := p
    simp only at hM; subst hM
    rw [hA]
    by_cases hk : k ≤ A.length
    · rw [List.take_append_of_le_length hk]
      obtain ⟨D', M', e, hmk, aD, aM, ht, _⟩ := tgt_steps mid cnt hc (A.take k) D M
        (fun st hst => hsafe st (List.mem_of_mem_take hst)) hp.d (hp.m M rfl)
      rw [e]
      have hpl' : planP (D', some M') = some (mid, cnt) := by rw [planP_congr D D' M M' hmk]; exact hpl
      have hfull : adoptP (D', some M') = adoptP (D, some M) := by
        rw [adoptP_some rfl hpl', adoptP_some rfl hpl, ht]
      exact ⟨⟨aD, fun M'' h => by cases h; exact aM⟩, by rw [hfull], fun _ => hfull, Or.inl (by rw [hfull])⟩
    · have hk' : A.length < k := by omega
      obtain ⟨D', M', e, hmk, aD, aM, ht, f1, f2, f3⟩ := tgt_steps mid cnt hc A D M hsafe hp.d (hp.m M rfl)
      have hdone : tgt mid cnt D' M' = D' := by
        apply tgt_done mid cnt D' M' aD aM
        · intro j hj
          apply f1 j
          by_cases c : getFile M.data j = none
          · exact Or.inl c
          · exact Or.inr (hren j hj c)
        · intro j h1 h2
          exact f2 j h1 h2 (Or.inr (hrem j h1 h2))
        · apply f3
          by_cases c : M.hint = none
          · exact Or.inl c
          · exact Or.inr (hhint c)
      have hlen : (A ++ [Step.removeMarker, Step.removeDir]).length = A.length + 2 := by simp
      rw [List.take_append, List.take_of_length_le (by omega), List.foldl_append, e, hlen]
      rw [adoptP_some rfl hpl]
      by_cases hk1 : k - A.length = 1
      · rw [hk1]
        simp only [List.take_succ_cons, List.take_zero, List.foldl_cons, List.foldl_nil, stepP]
        rw [adoptP_none (planP_no_marker _ _ rfl)]
        exact ⟨⟨aD, fun M'' h => by cases h; exact aM⟩, by rw [← ht, hdone], fun h => by omega, Or.inr rfl⟩
      · rw [List.take_of_length_le (by simp; omega)]
        simp only [List.foldl_cons, List.foldl_nil, stepP]
        rw [adoptP_none (planP_no_dir _)]
        exact ⟨⟨aD, fun M'' h => by cases h⟩, by rw [← ht, hdone], fun h => by omega, Or.inr rfl⟩

/-! ## back to worlds -/

/-- the data directory exists and file ids ascend in it and in its merge directory -/
structure DirsAsc (w : World) (dir : String) : Prop where
  ex : (w.get dir).isSome = true
  asc : AscP (viewP w dir)

/-- **`adopt_eq_steps`**: performing all the file-system steps of `Model/Adopt.lean` one after the
    other is the atomic `Engine.adopt` (same world, same returned id) -/
theorem adopt_eq_steps (w : World) (dir : String) (h : DirsAsc w dir) : Adopt.run w dir = adopt w dir := by
  rw [adopt_eq_adoptP w dir h.ex]
  unfold Adopt.run
  refine Prod.ext ?_ ?_
  · show applySteps w dir (steps w dir) = _
    rw [steps_eq]
    conv => lhs; arg 1; rw [← put_view h.ex]
    rw [applySteps_put, adoptP_steps _ h.asc]
  · show (match plan w dir with
      | some (mergeID, _) => mergeID
      | none => 0) = _
    rw [plan_eq]
    cases hpl : planP (viewP w dir) with
    | none => rw [adoptP_none hpl]
    | some mc =>
      obtain ⟨mid, cnt⟩ := mc
      obtain ⟨M, m, hM, _⟩ := planP_some_inv hpl
      rw [adoptP_some hM hpl]

theorem applyPrefix_eq (w : World) (dir : String) (h : (w.get dir).isSome = true) (k : Nat) :
    applyPrefix w dir k = putP w dir (((stepsP (viewP w dir)).take k).foldl stepP (viewP w dir)) := by
  unfold applyPrefix
  rw [steps_eq]
  conv => lhs; arg 1; rw [← put_view h]
  rw [applySteps_put]

theorem DirsAsc_put (w : World) (dir : String) (p : PairSt) (hp : AscP p) : DirsAsc (putP w dir p) dir :=
  ⟨by rw [get_put_dir]; rfl, by rw [view_put]; exact hp⟩

theorem DirsAsc_applyPrefix (w : World) (dir : String) (h : DirsAsc w dir) (k : Nat) :
    DirsAsc (applyPrefix w dir k) dir := by
  rw [applyPrefix_eq w dir h.ex]
  exact DirsAsc_put _ _ _ (adoptP_prefix _ h.asc k).1

theorem adopt_put (w : World) (dir : String) (p : PairSt) :
    adopt (putP w dir p) dir = (putP w dir (adoptP p).1, (adoptP p).2) := by
  rw [adopt_eq_adoptP _ _ (by rw [get_put_dir]; rfl), view_put, put_put]
  intro hp
  have : planP p = none := by unfold planP; rw [hp]
  rw [adoptP_none this]; exact hp

theorem adopt_get_dir (w : World) (dir : String) (h : (w.get dir).isSome = true) :
    (adopt w dir).1.get dir = some (adoptP (viewP w dir)).1.1 := by
  rw [adopt_eq_adoptP w dir h, get_put_dir]

theorem adopt_get_m (w : World) (dir : String) (h : (w.get dir).isSome = true) :
    (adopt w dir).1.get (mergeDirName dir) = (adoptP (viewP w dir)).1.2 := by
  rw [adopt_eq_adoptP w dir h, get_put_m]

theorem adopt_get_other (w : World) (dir n : String) (h1 : n ≠ dir) (h2 : n ≠ mergeDirName dir) :
    (adopt w dir).1.get n = w.get n := by
  unfold adopt
  simp only []
  cases hm : w.get (mergeDirName dir) with
  | none => rfl
  | some md =>
    simp only []
    cases hk : md.marker with
    | none => rfl
    | some m =>
      simp only []
      split
      · rfl
      · rw [get_remove_ne _ _ _ h2, get_set_ne _ _ _ _ h1]

theorem applyStep_get_other (w : World) (dir n : String) (st : Step) (h1 : n ≠ dir) (h2 : n ≠ mergeDirName dir) :
    (applyStep w dir st).get n = w.get n := by
  unfold applyStep
  simp only []
  cases hm : w.get (mergeDirName dir) with
  | none => rfl
  | some md =>
    simp only []
    cases st with
    | rename i =>
      simp only []
      cases getFile md.data i with
      | none => rfl
      | some f => simp only []; rw [get_set_ne _ _ _ _ h2, get_set_ne _ _ _ _ h1]
    | remove i => simp only []; rw [get_set_ne _ _ _ _ h1]
    | moveHint =>
      simp only []
      cases md.hint with
      | none => rfl
      | some f => simp only []; rw [get_set_ne _ _ _ _ h2, get_set_ne _ _ _ _ h1]
    | removeMarker => simp only []; rw [get_set_ne _ _ _ _ h2]
    | removeDir => simp only []; rw [get_remove_ne _ _ _ h2]

theorem applySteps_get_other (w : World) (dir n : String) (l : List Step) (h1 : n ≠ dir) (h2 : n ≠ mergeDirName dir) :
    (applySteps w dir l).get n = w.get n := by
  induction l generalizing w with
  | nil => rfl
  | cons st l ih =>
    simp only [applySteps, List.foldl_cons] at ih ⊢
    rw [ih, applyStep_get_other _ _ _ _ h1 h2]

end XixiKV.Engine.MergeP
