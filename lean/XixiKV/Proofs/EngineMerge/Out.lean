import XixiKV.Proofs.EngineMerge.Hint
namespace XixiKV.Engine.MergeP
open XixiKV XixiKV.Engine XixiKV.Frame XixiKV.Record XixiKV.Index XixiKV.Adopt XixiKV.Engine.Restart

/-! ## the marker round-trips -/

theorem rd32_le32 (n c : Nat) (hn : n < 2 ^ 32) (hc : c < 2 ^ 32) :
    rd32 (le32 n ++ le32 c) 0 = n ∧ rd32 (le32 n ++ le32 c) 4 = c := by
  have t8 : ∀ x : Nat, (Nat.toUInt8 x).toNat = x % 256 := by intro x; simp
  have hd : (le32 n ++ le32 c).data = #[(n % 256).toUInt8, (n / 256 % 256).toUInt8, (n / 65536 % 256).toUInt8, (n / 16777216 % 256).toUInt8,
      (c % 256).toUInt8, (c / 256 % 256).toUInt8, (c / 65536 % 256).toUInt8, (c / 16777216 % 256).toUInt8] := by
    rw [ByteArray.data_append]; rfl
  unfold rd32
  simp only [ByteArray.get!, hd]
  constructor
  · show (n % 256).toUInt8.toNat + 256 * (n / 256 % 256).toUInt8.toNat + 65536 * (n / 65536 % 256).toUInt8.toNat
      + 16777216 * (n / 16777216 % 256).toUInt8.toNat = n
    rw [t8, t8, t8, t8]; omega
  · show (c % 256).toUInt8.toNat + 256 * (c / 256 % 256).toUInt8.toNat + 65536 * (c / 65536 % 256).toUInt8.toNat
      + 16777216 * (c / 16777216 % 256).toUInt8.toNat = c
    rw [t8, t8, t8, t8]; omega

/-- `ReadMergeFinRecord (WriteMergeFinRecord (n, c)) = (n, c)` for `uint32` arguments -/
theorem readMarker_markerBytes (n c : Nat) (hn : n < 2 ^ 32) (hc : c < 2 ^ 32) :
    readMarker (markerBytes n c) = (n, c) := by
  have hsz : (le32 n ++ le32 c).size = 8 := rfl
  have hread := readAt_write C (le32 n ++ le32 c) ByteArray.empty ByteArray.empty 0 (by rw [hsz]; omega)
  have e1 : (posOf C 0 ByteArray.empty.size (le32 n ++ le32 c)).block = 0 := rfl
  have e2 : (posOf C 0 ByteArray.empty.size (le32 n ++ le32 c)).off = 0 := rfl
  rw [e1, e2, ByteArray.append_empty] at hread
  unfold readMarker markerBytes
  rw [hread]
  simp only [hsz, if_true]
  obtain ⟨h1, h2⟩ := rd32_le32 n c hn hc
  rw [h1, h2]

/-! ## positions of a ghost log are pairwise different -/

/-- byte offset at which the record at `p` starts -/
def startOf (p : Pos) : Nat := p.block * BS + p.off

theorem startOf_posOf (fid : Nat) (f d : ByteArray) :
    startOf (posOf C fid f.size d) = f.size + padOf (f.size % BS) := by
  have := size_pad f
  rw [ByteArray.size_append, size_zeros] at this
  unfold startOf posOf
  simp only []
  omega

theorem size_appendRec_start (fid : Nat) (f d : ByteArray) (hd : 0 < d.size) :
    startOf (posOf C fid f.size d) < (appendRec C f d).size := by
  have hH := Frame.hH
  have hm := mod_lt_BS f.size
  obtain ⟨n, hn, hsz⟩ := size_recChunks C d (normO (f.size % BS)) hd (normO_lt _ hm)
  rw [startOf_posOf]
  unfold appendRec
  rw [writeRec_pos C d _ hd, ByteArray.size_append, ByteArray.size_append, size_zeros, hsz, hH]
  omega

theorem posAll_start (fid : Nat) (ds : List ByteArray) : ∀ (f : ByteArray), (∀ d ∈ ds, 0 < d.size) →
    (posAll C fid f ds).Pairwise (fun a b => startOf a < startOf b) ∧
    ∀ p ∈ posAll C fid f ds, f.size ≤ startOf p := by
  induction ds with
  | nil => intro f _; simp [posAll]
  | cons d t ih =>
    intro f hpos
    have hd := hpos d (by simp)
    obtain ⟨h1, h2⟩ := ih (appendRec C f d) (fun x hx => hpos x (by simp [hx]))
    have hlt := size_appendRec_start fid f d hd
    simp only [posAll]
    refine ⟨List.pairwise_cons.mpr ⟨?_, h1⟩, ?_⟩
    · intro p hp
      have := h2 p hp
      omega
    · intro p hp
      rcases List.mem_cons.mp hp with hp | hp
      · rw [hp, startOf_posOf]; omega
      · have := h2 p hp
        have h3 := startOf_posOf fid f d
        omega

/-- same file, same block, same in-block offset -/
def SamePlace (a b : Pos) : Prop := a.fid = b.fid ∧ a.off = b.off ∧ a.block = b.block

theorem SamePlace.symm {a b : Pos} (h : SamePlace a b) : SamePlace b a := ⟨h.1.symm, h.2.1.symm, h.2.2.symm⟩

theorem SamePlace.trans {a b c : Pos} (h : SamePlace a b) (h' : SamePlace b c) : SamePlace a c :=
  ⟨h.1.trans h'.1, h.2.1.trans h'.2.1, h.2.2.trans h'.2.2⟩

theorem SamePlace.refl (a : Pos) : SamePlace a a := ⟨rfl, rfl, rfl⟩

theorem file_places (id : Nat) (gf : GFile) :
    (gf.zip (possOf id gf)).Pairwise (fun a b => ¬ SamePlace a.2 b.2) := by
  have h := (posAll_start id (payloads gf) ByteArray.empty (payloads_pos gf)).1
  have hmap : (gf.zip (possOf id gf)).map Prod.snd = possOf id gf :=
    List.map_snd_zip (by rw [length_possOf]; exact Nat.le_refl _)
  have h' : ((gf.zip (possOf id gf)).map Prod.snd).Pairwise (fun a b => startOf a < startOf b) := by
    rw [hmap]; exact h
  rw [List.pairwise_map] at h'
  refine List.Pairwise.imp ?_ h'
  intro a b hab hs
  unfold startOf at hab
  rw [hs.2.1, hs.2.2] at hab
  exact Nat.lt_irrefl _ hab

/-- **no two entries of a ghost log share a place** (distinct file ids, strictly increasing start
    offsets inside a file) -/
theorem log_places {g : GDir} (ha : g.Pairwise (fun a b => a.1 ≠ b.1)) :
    (logOf g).Pairwise (fun a b => ¬ SamePlace a.2 b.2) := by
  unfold logOf
  rw [List.pairwise_flatMap]
  refine ⟨fun x _ => file_places x.1 x.2, ?_⟩
  refine List.Pairwise.imp ?_ ha
  intro x y hxy a ha' b hb' hs
  have h1 := posAll_fid C x.1 _ _ a.2 (List.of_mem_zip ha').2
  have h2 := posAll_fid C y.1 _ _ b.2 (List.of_mem_zip hb').2
  apply hxy
  rw [← h1, ← h2]; exact hs.1

theorem AscIds.ne {g : GDir} (h : AscIds g) : g.Pairwise (fun a b => a.1 ≠ b.1) :=
  List.Pairwise.imp (fun hab => Nat.ne_of_lt hab) h

theorem pairwise_mem_eq {α : Type} {R : α → α → Prop} (hsym : ∀ a b, R a b → R b a) :
    ∀ {l : List α}, l.Pairwise R → ∀ {a b : α}, a ∈ l → b ∈ l → ¬ R a b → a = b := by
  intro l
  induction l with
  | nil => intro _ a b ha; simp at ha
  | cons x t ih =>
    intro hp a b ha hb hn
    rw [List.pairwise_cons] at hp
    rcases List.mem_cons.mp ha with ha1 | ha1
    · rcases List.mem_cons.mp hb with hb1 | hb1
      · rw [ha1, hb1]
      · rw [ha1] at hn; exact absurd (hp.1 b hb1) hn
    · rcases List.mem_cons.mp hb with hb1 | hb1
      · rw [hb1] at hn; exact absurd (hsym _ _ (hp.1 a ha1)) hn
      · exact ih hp.2 ha1 hb1 hn

/-- two log entries at the same place are the same entry -/
theorem log_place_unique {g : GDir} (ha : g.Pairwise (fun a b => a.1 ≠ b.1)) {a b : Record × Pos}
    (h1 : a ∈ logOf g) (h2 : b ∈ logOf g) (hs : SamePlace a.2 b.2) : a = b :=
  pairwise_mem_eq (R := fun (a b : Record × Pos) => ¬ SamePlace a.2 b.2) (fun _ _ h h' => h h'.symm)
    (log_places ha) h1 h2 (fun h => h hs)

/-! ## provenance of index entries, with the record type -/

/-- `FromLog` strengthened: an index entry never points at a tombstone -/
def FromLogT (l : List (Record × Pos)) (R : Replay) : Prop :=
  (∀ k p, (k, p) ∈ R.index → ∃ r, (r, p) ∈ l ∧ r.key = k ∧ r.typ ≠ 1) ∧ (∀ e ∈ R.pending, ∀ x ∈ e.2, x ∈ l)

theorem FromLogT.mono {l l' : List (Record × Pos)} {R : Replay} (h : FromLogT l R) (hs : ∀ x ∈ l, x ∈ l') :
    FromLogT l' R :=
  ⟨fun k p hm => by obtain ⟨r, hr, hk⟩ := h.1 k p hm; exact ⟨r, hs _ hr, hk⟩,
   fun e he x hx => hs _ (h.2 e he x hx)⟩

theorem FromLogT.apply {l : List (Record × Pos)} {R : Replay} (h : FromLogT l R) {r : Record} {p : Pos}
    (hm : (r, p) ∈ l) : FromLogT l (R.apply r.key r.typ p) := by
  refine ⟨?_, ?_⟩
  · intro k q hq
    rw [Engine.apply_index] at hq
    split at hq
    · exact h.1 k q (Index.mem_erase hq)
    · rename_i ht
      rcases Index.mem_put hq with e | hq
      · cases e; exact ⟨r, hm, rfl, ht⟩
      · exact h.1 k q hq
  · rw [Engine.apply_pending]; exact h.2

theorem FromLogT.foldl_apply {l : List (Record × Pos)} (xs : List (Record × Pos)) :
    ∀ {R : Replay}, FromLogT l R → (∀ x ∈ xs, x ∈ l) →
      FromLogT l (xs.foldl (fun r (x : Record × Pos) => r.apply x.1.key x.1.typ x.2) R) := by
  induction xs with
  | nil => intro R h _; exact h
  | cons x t ih =>
    intro R h hx
    simp only [List.foldl_cons]
    exact ih (h.apply (hx x (by simp))) (fun y hy => hx y (by simp [hy]))

theorem FromLogT.replayRec {l : List (Record × Pos)} {R : Replay} (h : FromLogT l R) {r : Record} {p : Pos}
    (hm : (r, p) ∈ l) : FromLogT l (replayRec R r p) := by
  unfold Engine.replayRec
  split
  · exact h.apply hm
  · split
    · simp only []
      have h1 : FromLogT l { R with total := R.total + p.size, reclaim := R.reclaim + p.size } := ⟨h.1, h.2⟩
      have h2 := FromLogT.foldl_apply
        (pendingGet ({ R with total := R.total + p.size, reclaim := R.reclaim + p.size } : Replay).pending r.batch)
        h1 (fun x hx => by obtain ⟨e, he, hxe⟩ := mem_pendingGet hx; exact h.2 e he x hxe)
      exact ⟨h2.1, fun e he x hx => h2.2 e (List.mem_filter.mp he).1 x hx⟩
    · refine ⟨h.1, ?_⟩
      intro e he x hx
      rcases mem_pendingAdd he hx with e1 | ⟨e', he', hx'⟩
      · rw [e1]; exact hm
      · exact h.2 e' he' x hx'

theorem FromLogT.foldl_replayRec (xs : List (Record × Pos)) :
    ∀ {l : List (Record × Pos)} {R : Replay}, FromLogT l R →
      FromLogT (l ++ xs) (xs.foldl (fun r x => Engine.replayRec r x.1 x.2) R) := by
  induction xs with
  | nil => intro l R h; simpa using h
  | cons x t ih =>
    intro l R h
    simp only [List.foldl_cons]
    have h1 : FromLogT (l ++ [x]) (Engine.replayRec R x.1 x.2) :=
      (h.mono (fun y hy => by simp [hy])).replayRec (by simp)
    have := ih h1
    simpa [List.append_assoc] using this

theorem fromLogT_replayLog (l : List (Record × Pos)) : FromLogT l (replayLog l) := by
  have h0 : FromLogT [] Replay.init := ⟨fun k p h => by simp [Replay.init] at h, fun e h => by simp [Replay.init] at h⟩
  have := FromLogT.foldl_replayRec l h0
  simpa [replayLog] using this

/-! ## what a successful `Merge` leaves behind -/

/-- the test `Merge` applies to a scanned record: the index still points at this very place -/
def isLive (I : Index) (x : Record × Pos) : Bool :=
  match Index.get I x.1.key with
  | some p => p.fid = x.2.fid ∧ p.off = x.2.off ∧ p.block = x.2.block
  | none => false

/-- the files that take part in a merge whose marker id is `n` / the files that do not -/
def lo (g : GDir) (n : Nat) : GDir := g.filter (fun x => x.1 < n)
def hi (g : GDir) (n : Nat) : GDir := g.filter (fun x => n ≤ x.1)

/-- the rewritten form of a record: same type, key, value; batch id reset to 0 -/
def plainOf (r : Record) : Record := { r with batch := 0 }

/-- the index `Merge` consults: the replay of the participating files (the non-participating
    files are empty when the scan starts) -/
def scanIndex (g : GDir) (n : Nat) : Index := (replayLog (logOf (lo g n))).index

/-- `MergeOutW w dir g n gm vis`: the merge directory of `dir` in world `w` is what a successful
    `Merge` with `nonMergeFileId = n` leaves behind for the ghost data directory `g`: its data files
    are byte for byte the ghost files `gm` with ids `0 … count-1`, `1 ≤ count ≤ n`; the records of
    `gm`, in order, are exactly the LIVE records (index still points at their place) of the files
    with id `< n`, visited file by file in the order `vis` (a permutation of those files), each
    rewritten with batch id 0; the hint file is one framed `encodeHint key newPos` per rewritten
    record in the same order; the marker is `(n, count)`; nothing but plain records has been
    written to the files with id `≥ n` since. -/
structure MergeOutW (w : World) (dir : String) (g : GDir) (n : Nat) (gm vis : GDir) : Prop where
  mdir : ∃ md, w.get (mergeDirName dir) = some md ∧ Matches md.data gm ∧ md.hint = some (hintBytes gm) ∧
    md.marker = some (markerBytes n gm.length)
  ids : gm.map (·.1) = List.range gm.length
  count : 0 < gm.length ∧ gm.length ≤ n
  small : n < 2 ^ 32
  perm : vis.Perm (lo g n)
  live : (logOf gm).map (·.1) = ((logOf vis).filter (isLive (scanIndex g n))).map (fun x => plainOf x.1)
  hiPlain : ∀ x ∈ hi g n, ∀ r ∈ x.2, r.batch = 0
  hiNe : ∃ x ∈ g, n ≤ x.1

def MergeOut (w : World) (dir : String) (g : GDir) (n : Nat) : Prop := ∃ gm vis, MergeOutW w dir g n gm vis

theorem mem_logOf_perm {a b : GDir} (h : a.Perm b) (x : Record × Pos) : x ∈ logOf a ↔ x ∈ logOf b := by
  obtain ⟨r, p⟩ := x
  rw [mem_logOf, mem_logOf]
  constructor
  · rintro ⟨y, hy, hz⟩; exact ⟨y, h.mem_iff.mp hy, hz⟩
  · rintro ⟨y, hy, hz⟩; exact ⟨y, h.mem_iff.mpr hy, hz⟩

theorem mem_zip_possOf {id : Nat} {gf : GFile} {r : Record} (h : r ∈ gf) : ∃ p, (r, p) ∈ gf.zip (possOf id gf) := by
  obtain ⟨i, hi, rfl⟩ := List.mem_iff_getElem.mp h
  have hl : i < (possOf id gf).length := by rw [length_possOf]; exact hi
  refine ⟨(possOf id gf)[i], ?_⟩
  rw [List.mem_iff_getElem]
  exact ⟨i, by rw [List.length_zip]; omega, by simp⟩

theorem mem_records_logOf {g : GDir} {x : Nat × GFile} {r : Record} (hx : x ∈ g) (hr : r ∈ x.2) :
    ∃ p, (r, p) ∈ logOf g := by
  obtain ⟨p, hp⟩ := mem_zip_possOf (id := x.1) hr
  exact ⟨p, mem_logOf.mpr ⟨x, hx, hp⟩⟩

theorem mem_logOf_record {g : GDir} {r : Record} {p : Pos} (h : (r, p) ∈ logOf g) : ∃ x ∈ g, r ∈ x.2 := by
  obtain ⟨x, hx, hz⟩ := mem_logOf.mp h
  exact ⟨x, hx, (List.of_mem_zip hz).1⟩

theorem RecOK_plainOf {r : Record} (h : RecOK r) : RecOK (plainOf r) :=
  ⟨h.1, h.2.1, h.2.2.1, h.2.2.2.1, by show 0 < 2 ^ 64; decide⟩

theorem lo_sublist (g : GDir) (n : Nat) : (lo g n).Sublist g := List.filter_sublist
theorem hi_sublist (g : GDir) (n : Nat) : (hi g n).Sublist g := List.filter_sublist

theorem isLive_iff {I : Index} {x : Record × Pos} :
    isLive I x = true ↔ ∃ p, Index.get I x.1.key = some p ∧ SamePlace p x.2 := by
  unfold isLive SamePlace
  cases Index.get I x.1.key with
  | none => simp
  | some p => simp

/-- consequences of `MergeOutW` used by C18 / C06 (given that the data directory's ghost files have
    ascending ids and valid records) -/
theorem MergeOutW.merged {w : World} {dir : String} {g : GDir} {n : Nat} {gm vis : GDir}
    (h : MergeOutW w dir g n gm vis) (hasc : AscIds g) (hrecs : ∀ x ∈ g, ∀ r ∈ x.2, RecOK r) :
    Merged gm ∧
    (∀ k p, Index.get (scanIndex g n) k = some p →
        ∃ r p2, (r, p) ∈ logOf (lo g n) ∧ r.key = k ∧ (plainOf r, p2) ∈ logOf gm) ∧
    (∀ k, Index.get (scanIndex g n) k = none → ∀ x ∈ logOf gm, x.1.key ≠ k) := by
  have hlo_ne : (lo g n).Pairwise (fun a b => a.1 ≠ b.1) := AscIds.ne (List.Pairwise.sublist (lo_sublist g n) hasc)
  have hvis_ne : vis.Pairwise (fun a b => a.1 ≠ b.1) :=
    (List.Perm.pairwise_iff (fun {x y} (h : x.1 ≠ y.1) => h.symm) h.perm).mpr hlo_ne
  have hfrom := fromLogT_replayLog (logOf (lo g n))
  have hmemv : ∀ x, x ∈ logOf vis ↔ x ∈ logOf (lo g n) := mem_logOf_perm h.perm
  -- a live entry is the entry the index points at; it is not a tombstone
  have hlive : ∀ x ∈ logOf vis, isLive (scanIndex g n) x = true →
      Index.get (scanIndex g n) x.1.key = some x.2 ∧ x.1.typ ≠ 1 := by
    intro x hx hl
    obtain ⟨p, hg, hs⟩ := isLive_iff.mp hl
    obtain ⟨r, hr, hk, ht⟩ := hfrom.1 _ _ (Index.get_eq_some_mem hg)
    have := log_place_unique hlo_ne hr ((hmemv x).mp hx) hs
    subst this
    exact ⟨hg, ht⟩
  have hsrc : ∀ y ∈ (logOf gm).map (·.1), ∃ x ∈ logOf vis, isLive (scanIndex g n) x = true ∧ y = plainOf x.1 := by
    intro y hy
    rw [h.live] at hy
    obtain ⟨x, hx, rfl⟩ := List.mem_map.mp hy
    obtain ⟨hx1, hx2⟩ := List.mem_filter.mp hx
    exact ⟨x, hx1, hx2, rfl⟩
  refine ⟨⟨?_, ?_, ?_⟩, ?_, ?_⟩
  · intro x hx r hr
    obtain ⟨p, hp⟩ := mem_records_logOf hx hr
    obtain ⟨y, hy, _, rfl⟩ := hsrc r (List.mem_map.mpr ⟨(r, p), hp, rfl⟩)
    obtain ⟨z, hz, hrz⟩ := mem_logOf_record ((hmemv y).mp hy)
    exact RecOK_plainOf (hrecs z ((lo_sublist g n).subset hz) _ hrz)
  · intro x hx
    obtain ⟨y, hy, hl, e⟩ := hsrc x.1 (List.mem_map.mpr ⟨x, hx, rfl⟩)
    rw [e]
    exact ⟨rfl, (hlive y hy hl).2⟩
  · have hkeys : (logOf gm).map (fun x => x.1.key)
        = ((logOf vis).filter (isLive (scanIndex g n))).map (fun x => x.1.key) := by
      have := congrArg (List.map (fun (r : Record) => r.key)) h.live
      simpa [List.map_map, plainOf, Function.comp_def] using this
    have hp : ((logOf gm).map (fun x => x.1.key)).Pairwise (· ≠ ·) := by
      rw [hkeys, List.pairwise_map, List.pairwise_filter]
      refine List.Pairwise.imp_of_mem ?_ (log_places hvis_ne)
      intro a b ha hb hab la lb e
      have h1 := (hlive a ha la).1
      have h2 := (hlive b hb lb).1
      rw [e, h2] at h1
      apply hab
      rw [Option.some.inj h1]
      exact SamePlace.refl _
    exact List.pairwise_map.mp hp
  · intro k p hg
    obtain ⟨r, hr, hk, _⟩ := hfrom.1 _ _ (Index.get_eq_some_mem hg)
    have hl : isLive (scanIndex g n) (r, p) = true :=
      isLive_iff.mpr ⟨p, by rw [hk]; exact hg, SamePlace.refl _⟩
    have : plainOf r ∈ (logOf gm).map (·.1) := by
      rw [h.live]
      exact List.mem_map.mpr ⟨(r, p), List.mem_filter.mpr ⟨(hmemv _).mpr hr, hl⟩, rfl⟩
    obtain ⟨x, hx, e⟩ := List.mem_map.mp this
    exact ⟨r, x.2, hr, hk, by rw [← e]; exact hx⟩
  · intro k hg x hx e
    obtain ⟨y, hy, hl, e2⟩ := hsrc x.1 (List.mem_map.mpr ⟨x, hx, rfl⟩)
    have h1 := (hlive y hy hl).1
    have : y.1.key = k := by rw [← e, e2]; rfl
    rw [this, hg] at h1
    cases h1

/-! ## a checkable sufficient condition for `HintFits`: ids and file sizes inside `uint32` -/

theorem size_appendAll_mono (ds : List ByteArray) (f : ByteArray) : f.size ≤ (appendAll C f ds).size := by
  obtain ⟨tl, h⟩ := appendAll_split C ds f
  rw [h, ByteArray.size_append]; omega

theorem posOf_end (fid : Nat) (f d : ByteArray) :
    startOf (posOf C fid f.size d) + (posOf C fid f.size d).size = (appendRec C f d).size ∧
    (posOf C fid f.size d).off < BS := by
  have hBS := Frame.hBS
  have hH := Frame.hH
  have hm := mod_lt_BS f.size
  refine ⟨?_, ?_⟩
  · rw [startOf_posOf]
    unfold appendRec writeRec posOf
    simp only [ByteArray.size_append, size_zeros]
    split
    · simp
    · omega
  · unfold posOf normO
    simp only []
    split <;> omega

theorem posAll_end (fid : Nat) (ds : List ByteArray) : ∀ (f : ByteArray) (p : Pos), p ∈ posAll C fid f ds →
    startOf p + p.size ≤ (appendAll C f ds).size ∧ p.off < BS := by
  induction ds with
  | nil => intro f p hp; simp [posAll] at hp
  | cons d t ih =>
    intro f p hp
    simp only [posAll, List.mem_cons] at hp
    rw [Frame.appendAll_cons]
    rcases hp with hp | hp
    · rw [hp]
      obtain ⟨h1, h2⟩ := posOf_end fid f d
      have := size_appendAll_mono t (appendRec C f d)
      exact ⟨by omega, h2⟩
    · exact ih _ p hp

/-- **`HintFits` holds whenever every merged file has an id and a size below 2³²** (which the Go
    types force anyway: `FileID` and the fields of `DataPos` are `uint32`) -/
theorem HintFits_of_small (gm : GDir) (h : ∀ x ∈ gm, x.1 < 2 ^ 32 ∧ (bytesOf x.2).size < 2 ^ 32) : HintFits gm := by
  intro e he
  obtain ⟨r, p⟩ := e
  obtain ⟨x, hx, hz⟩ := mem_logOf.mp he
  obtain ⟨h1, h2⟩ := h x hx
  have hp := (List.of_mem_zip hz).2
  have hfid := posAll_fid C x.1 _ _ p hp
  obtain ⟨h3, h4⟩ := posAll_end x.1 (payloads x.2) ByteArray.empty p hp
  have hBS := Frame.hBS
  have hb : (appendAll C ByteArray.empty (payloads x.2)).size = (bytesOf x.2).size := rfl
  unfold startOf at h3
  simp only []
  refine ⟨by rw [hfid]; exact h1, ?_, by omega, by omega⟩
  have : p.block * BS < 2 ^ 32 := by omega
  rw [hBS] at this
  omega

end XixiKV.Engine.MergeP
