import XixiKV.Proofs.EngineMerge.Frame
namespace XixiKV.Engine.MergeP
open XixiKV XixiKV.Engine XixiKV.Frame XixiKV.Record XixiKV.Index XixiKV.Adopt XixiKV.Engine.Restart

/-! ## the hint file of a merged ghost directory -/

/-- payloads of the hint records `Merge` writes: one per rewritten record, `newPos ‖ key`, in
    rewrite order (= log order of the merged files) -/
def hintPayloads (gm : GDir) : List ByteArray := (logOf gm).map (fun x => encodeHint x.1.key x.2)

/-- the hint file's bytes -/
def hintBytes (gm : GDir) : ByteArray := appendAll C ByteArray.empty (hintPayloads gm)

/-- every position field fits the `uint32` the hint codec (and `DataPos`) stores -/
def HintFits (gm : GDir) : Prop :=
  ∀ x ∈ logOf gm, x.2.fid < 2 ^ 32 ∧ x.2.block < 2 ^ 32 ∧ x.2.off < 2 ^ 32 ∧ x.2.size < 2 ^ 32

/-- what the rewritten files of a merge look like: valid records, all plain (batch id 0) and not
    tombstones, at most one record per key -/
structure Merged (gm : GDir) : Prop where
  recs : ∀ x ∈ gm, ∀ r ∈ x.2, RecOK r
  plain : ∀ x ∈ logOf gm, x.1.batch = 0 ∧ x.1.typ ≠ 1
  distinct : (logOf gm).Pairwise (fun a b => a.1.key ≠ b.1.key)

theorem size_encodeHint_pos (k : ByteArray) (p : Pos) : 0 < (encodeHint k p).size := by
  unfold encodeHint
  rw [ByteArray.size_append, size_ofList]
  have := Varint.putUvarint_length_pos p.fid
  simp only [List.length_append]
  omega

theorem hintPayloads_pos (gm : GDir) : ∀ d ∈ hintPayloads gm, 0 < d.size := by
  intro d hd
  simp only [hintPayloads, List.mem_map] at hd
  obtain ⟨x, _, rfl⟩ := hd
  exact size_encodeHint_pos _ _

theorem scan_hint (gm : GDir) :
    scan C false 0 (hintBytes gm)
      = { recs := (hintPayloads gm).zip (posAll C 0 ByteArray.empty (hintPayloads gm)),
          validEnd := (hintBytes gm).size, ok := true } :=
  scan_build C false 0 (hintPayloads gm) (hintPayloads_pos gm)

/-- decoding the hint file yields, in order, exactly `(key, newPos)` of the merged records -/
theorem decode_hint (gm : GDir) (hF : HintFits gm) :
    (scan C false 0 (hintBytes gm)).recs.map (fun (x : ByteArray × Pos) => decodeHint x.1)
      = (logOf gm).map (fun x => some (x.1.key, x.2)) := by
  rw [scan_hint]
  simp only []
  have h1 : ((hintPayloads gm).zip (posAll C 0 ByteArray.empty (hintPayloads gm))).map (fun (x : ByteArray × Pos) => decodeHint x.1)
      = ((hintPayloads gm).zip (posAll C 0 ByteArray.empty (hintPayloads gm))).map (decodeHint ∘ Prod.fst) := rfl
  rw [h1, ← List.map_map, List.map_fst_zip (by rw [length_posAll]; exact Nat.le_refl _)]
  unfold hintPayloads
  rw [List.map_map]
  apply List.map_congr_left
  intro x hx
  obtain ⟨h1, h2, h3, h4⟩ := hF x hx
  exact decodeHint_encodeHint _ _ h1 h2 h3 h4

/-- the fold of `loadIndexFromHintFile` over decoded entries -/
def hintFold (acc : Replay × Nat) (l : List (Record × Pos)) : Replay × Nat :=
  l.foldl (fun (acc : Replay × Nat) x =>
    ({ acc.1 with index := Index.put acc.1.index x.1.key x.2, total := acc.1.total + x.2.size }, max acc.2 x.2.fid)) acc

theorem loadHint_eq (R : Replay) (gm : GDir) (hF : HintFits gm) :
    loadHint R (hintBytes gm) = some (hintFold (R, 0) (logOf gm)) := by
  unfold loadHint
  simp only []
  rw [decode_hint gm hF, scan_hint]
  simp only [Bool.not_true, Bool.false_eq_true, if_false]
  have hany : ((logOf gm).map (fun x => some (x.1.key, x.2))).any (·.isNone) = false := by
    rw [List.any_eq_false]; intro x hx
    simp only [List.mem_map] at hx
    obtain ⟨y, _, rfl⟩ := hx
    simp
  rw [hany]
  simp only [Bool.false_eq_true, if_false, List.foldl_map]
  rfl

/-! ## replaying distinct plain records -/

theorem replayRec_fresh (R : Replay) (r : Record) (p : Pos) (hb : r.batch = 0) (ht : r.typ ≠ 1)
    (hg : Index.get R.index r.key = none) :
    replayRec R r p = { R with index := Index.put R.index r.key p, total := R.total + p.size } := by
  unfold replayRec Replay.apply
  rw [if_pos hb]
  simp only [hg, if_neg ht]

theorem replayFrom_fresh : ∀ (l : List (Record × Pos)) (R : Replay) (m : Nat),
    (∀ x ∈ l, x.1.batch = 0 ∧ x.1.typ ≠ 1) → l.Pairwise (fun a b => a.1.key ≠ b.1.key) →
    (∀ x ∈ l, Index.get R.index x.1.key = none) →
    replayFrom R l = (hintFold (R, m) l).1 := by
  intro l
  induction l with
  | nil => intro R m _ _ _; rfl
  | cons x t ih =>
    intro R m hp hd hg
    rw [List.pairwise_cons] at hd
    obtain ⟨hb, ht⟩ := hp x (by simp)
    rw [replayFrom_cons, replayRec_fresh R x.1 x.2 hb ht (hg x (by simp))]
    simp only [hintFold, List.foldl_cons]
    apply ih _ (max m x.2.fid) (fun y hy => hp y (by simp [hy])) hd.2
    intro y hy
    simp only []
    rw [Index.get_put]
    rw [if_neg (fun e => hd.1 y hy e.symm)]
    exact hg y (by simp [hy])

/-- **hint path = scan path** on the merged files: `loadIndexFromHintFile` rebuilds exactly the replay
    state (index with positions and sizes, `total`, `reclaim = 0`, nothing parked) that scanning the
    merged files record by record rebuilds -/
theorem loadHint_eq_replay (gm : GDir) (hM : Merged gm) (hF : HintFits gm) :
    ∃ maxFid, loadHint Replay.init (hintBytes gm) = some (replayLog (logOf gm), maxFid) ∧
      (∀ x ∈ logOf gm, x.2.fid ≤ maxFid) ∧ (maxFid = 0 ∨ ∃ x ∈ logOf gm, x.2.fid = maxFid) := by
  refine ⟨(hintFold (Replay.init, 0) (logOf gm)).2, ?_, ?_, ?_⟩
  · rw [loadHint_eq _ gm hF, replayLog_eq,
      replayFrom_fresh (logOf gm) Replay.init 0 hM.plain hM.distinct (fun _ _ => rfl)]
  · have : ∀ (l : List (Record × Pos)) (acc : Replay × Nat), acc.2 ≤ (hintFold acc l).2 ∧
        ∀ x ∈ l, x.2.fid ≤ (hintFold acc l).2 := by
      intro l
      induction l with
      | nil => intro acc; exact ⟨Nat.le_refl _, fun x hx => by simp at hx⟩
      | cons y t ih =>
        intro acc
        simp only [hintFold, List.foldl_cons] at ih ⊢
        obtain ⟨h1, h2⟩ := ih ({ acc.1 with index := Index.put acc.1.index y.1.key y.2, total := acc.1.total + y.2.size }, max acc.2 y.2.fid)
        simp only at h1
        refine ⟨by omega, ?_⟩
        intro x hx
        rcases List.mem_cons.mp hx with hx | hx
        · rw [hx]; omega
        · exact h2 x hx
    exact (this (logOf gm) (Replay.init, 0)).2
  · have : ∀ (l : List (Record × Pos)) (acc : Replay × Nat),
        (hintFold acc l).2 = acc.2 ∨ ∃ x ∈ l, x.2.fid = (hintFold acc l).2 := by
      intro l
      induction l with
      | nil => intro acc; exact Or.inl rfl
      | cons y t ih =>
        intro acc
        simp only [hintFold, List.foldl_cons] at ih ⊢
        rcases ih ({ acc.1 with index := Index.put acc.1.index y.1.key y.2, total := acc.1.total + y.2.size }, max acc.2 y.2.fid) with h | ⟨x, hx, h⟩
        · simp only at h
          by_cases c : y.2.fid ≤ acc.2
          · left; rw [h]; omega
          · right; exact ⟨y, by simp, by rw [h]; omega⟩
        · right; exact ⟨x, by simp [hx], h⟩
    rcases this (logOf gm) (Replay.init, 0) with h | h
    · exact Or.inl h
    · exact Or.inr h

end XixiKV.Engine.MergeP
