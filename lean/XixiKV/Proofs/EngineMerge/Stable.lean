import XixiKV.Proofs.EngineMerge.Spec
namespace XixiKV.Engine.MergeP
open XixiKV XixiKV.Engine XixiKV.Frame XixiKV.Record XixiKV.Index XixiKV.Adopt XixiKV.Engine.Restart

/-! ## `MergeOut` is stable under `Put` / `Delete` / `Sync` (they only touch files with id ≥ n) -/

theorem lo_append_hi {g : GDir} (ha : AscIds g) (n : Nat) : lo g n ++ hi g n = g := by
  induction g with
  | nil => rfl
  | cons x t ih =>
    unfold AscIds at ha ih
    rw [List.pairwise_cons] at ha
    unfold lo hi at ih ⊢
    by_cases hx : x.1 < n
    · rw [List.filter_cons_of_pos (by simpa using hx), List.filter_cons_of_neg (by simp; omega)]
      rw [List.cons_append, ih ha.2]
    · have h1 : List.filter (fun (y : Nat × GFile) => decide (y.1 < n)) (x :: t) = [] := by
        rw [List.filter_eq_nil_iff]
        intro a ha'
        rcases List.mem_cons.mp ha' with e | e
        · rw [e]; simpa using hx
        · have := ha.1 a e; simp; omega
      have h2 : List.filter (fun (y : Nat × GFile) => decide (n ≤ y.1)) (x :: t) = x :: t := by
        rw [List.filter_eq_self]
        intro a ha'
        rcases List.mem_cons.mp ha' with e | e
        · rw [e]; simp; omega
        · have := ha.1 a e; simp; omega
      rw [h1, h2]; rfl

/-- the invariant after appending one plain record, for the explicit new ghost directory -/
theorem Inv_after_append_shape {s : St} {db : DB} {g : GDir} (hi : Inv s db g) (r : Record) (hr : RecOK r)
    (hb : r.batch = 0) (db' : DB) (s' : St)
    (hw : s'.world = (appendLog s db r).1.world)
    (hdir : db'.dir = db.dir) (hact : db'.activeId = (appendLog s db r).2.1.activeId)
    (hidx : db'.index = if r.typ = 1 then Index.erase db.index r.key else Index.put db.index r.key (appendLog s db r).2.2)
    (hcnt : db'.total = db'.reclaim + liveBytes db'.index) (hnb : db'.batch = none) :
    ∃ g0 gf g', g = g0 ++ [(db.activeId, gf)] ∧ (∀ x ∈ g0, x.1 < db.activeId) ∧
      Grow g0 db.activeId gf r g' db'.activeId (appendLog s db r).2.2 ∧ Inv s' db' g' := by
  obtain ⟨g0, gf, g', hg, hlt, hgrow, hfu, _, ⟨bw, a, hdb⟩, hmeta⟩ := appendLog_shape (Files.toU hi.files) r hr
  have hlock : (metaOf (appendLog s db r).1.world (appendLog s db r).2.1.dir).2.2 = true := by
    rw [show (appendLog s db r).2.1.dir = db.dir by rw [hdb], hmeta]
    exact Files.meta_locked hi.files
  have hf : Files (appendLog s db r).1 (appendLog s db r).2.1 g' := hfu.locked hlock
  have hf' : Files s' db' g' := hf.congr hw (by rw [hdir, hdb]) hact
  obtain ⟨hlog, _, _⟩ := hgrow.log
  rw [← hg] at hlog
  refine ⟨g0, gf, g', hg, hlt, by rw [hact]; exact hgrow, ⟨hf'.dir, hf'.asc, hf'.active, hf'.recs, ?_, ?_, hcnt, hnb⟩⟩
  · rw [hidx, hlog, replayLog_append, replayRec_plain_index _ _ _ hb, ← hi.index]
  · rw [hidx]
    split
    · exact Index.sorted_erase hi.sorted _
    · exact Index.sorted_put hi.sorted _ _

theorem put_shape {s : St} {db : DB} {g : GDir} (hi : Inv s db g) (hs : s.db = some db) (k v : ByteArray)
    (hk0 : 0 < k.size) (hk : k.size < 2 ^ 31) (hv : v.size < 2 ^ 31) :
    ∃ db' g0 gf g' pos, (put s k v).1.db = some db' ∧ db'.dir = db.dir ∧ g = g0 ++ [(db.activeId, gf)] ∧
      (∀ x ∈ g0, x.1 < db.activeId) ∧
      Grow g0 db.activeId gf { typ := 0, key := k, value := v, batch := 0 } g' db'.activeId pos ∧
      Inv (put s k v).1 db' g' := by
  have hr : RecOK { typ := 0, key := k, value := v, batch := 0 } :=
    ⟨by show 0 < 3; omega, hk0, hk, hv, by show 0 < 2 ^ 64; decide⟩
  obtain ⟨g0', bw, a, _, _, _, hdb⟩ := appendLog_spec hi.files _ hr
  rw [put_eq hs k v (by omega)]
  generalize hA : appendLog s db { typ := 0, key := k, value := v, batch := 0 } = A at *
  have hidx : A.2.1.index = db.index := by rw [hdb]
  have hrec : A.2.1.reclaim = db.reclaim := by rw [hdb]
  have htot : A.2.1.total = db.total + A.2.2.size := by rw [hdb]
  have hbat : A.2.1.batch = db.batch := by rw [hdb]
  have hdir : A.2.1.dir = db.dir := by rw [hdb]
  obtain ⟨g0, gf, g', hg, hlt, hgrow, hinv⟩ := Inv_after_append_shape hi _ hr rfl (putDB A k) { A.1 with db := some (putDB A k) }
    (by rw [hA]) (by simp only [putDB, hdir]) (by rw [hA]; rfl)
    (by rw [hA]; simp only [putDB, hidx]; rfl)
    (by
      have := liveBytes_put hi.sorted k A.2.2
      have hc := hi.counters
      simp only [putDB, hidx, hrec, htot]; omega)
    (by simp only [putDB, hbat, hi.nobatch])
  rw [hA] at hgrow
  exact ⟨putDB A k, g0, gf, g', A.2.2, rfl, by simp only [putDB, hdir], hg, hlt, hgrow, hinv⟩

theorem delete_shape {s : St} {db : DB} {g : GDir} (hi : Inv s db g) (hs : s.db = some db) (k : ByteArray)
    (hk0 : 0 < k.size) (hk : k.size < 2 ^ 31) :
    (delete s k).1 = s ∨
    ∃ db' g0 gf g' pos, (delete s k).1.db = some db' ∧ db'.dir = db.dir ∧ g = g0 ++ [(db.activeId, gf)] ∧
      (∀ x ∈ g0, x.1 < db.activeId) ∧
      Grow g0 db.activeId gf { typ := 1, key := k, value := ByteArray.empty, batch := 0 } g' db'.activeId pos ∧
      Inv (delete s k).1 db' g' := by
  cases hg : Index.get db.index k with
  | none => left; rw [delete_eq_none hs k (by omega) hg]
  | some old =>
    right
    have hr : RecOK { typ := 1, key := k, value := ByteArray.empty, batch := 0 } :=
      ⟨by show 1 < 3; omega, hk0, hk, by show 0 < 2 ^ 31; decide, by show 0 < 2 ^ 64; decide⟩
    obtain ⟨g0', bw, a, _, _, _, hdb⟩ := appendLog_spec hi.files _ hr
    rw [delete_eq_some hs k (by omega) hg]
    generalize hA : appendLog s db { typ := 1, key := k, value := ByteArray.empty, batch := 0 } = A at *
    have hidx : A.2.1.index = db.index := by rw [hdb]
    have hrec : A.2.1.reclaim = db.reclaim := by rw [hdb]
    have htot : A.2.1.total = db.total + A.2.2.size := by rw [hdb]
    have hbat : A.2.1.batch = db.batch := by rw [hdb]
    have hdir : A.2.1.dir = db.dir := by rw [hdb]
    obtain ⟨g0, gf, g', hgg, hlt, hgrow, hinv⟩ := Inv_after_append_shape hi _ hr rfl (delDB A k old) { A.1 with db := some (delDB A k old) }
      (by rw [hA]) (by simp only [delDB, hdir]) (by rw [hA]; rfl)
      (by simp only [delDB, hidx]; rfl)
      (by
        have := liveBytes_erase db.index k
        have hc := hi.counters
        rw [hg] at this
        simp only [Engine.oldSize] at this
        simp only [delDB, hidx, hrec, htot]; omega)
      (by simp only [delDB, hbat, hi.nobatch])
    rw [hA] at hgrow
    exact ⟨delDB A k old, g0, gf, g', A.2.2, rfl, by simp only [delDB, hdir], hgg, hlt, hgrow, hinv⟩

theorem Grow.lo_hi {g0 : GDir} {a : Nat} {gf : GFile} {r : Record} {g' : GDir} {a' : Nat} {p : Pos}
    (h : Grow g0 a gf r g' a' p) (n : Nat) (hn : n ≤ a) :
    lo g' n = lo (g0 ++ [(a, gf)]) n ∧
    (∀ x ∈ hi g' n, ∀ r' ∈ x.2, r' = r ∨ ∃ y ∈ hi (g0 ++ [(a, gf)]) n, r' ∈ y.2) ∧ (∃ x ∈ g', n ≤ x.1) := by
  cases h with
  | same =>
    refine ⟨?_, ?_, ⟨(a, gf ++ [r]), by simp, hn⟩⟩
    · unfold lo
      rw [List.filter_append, List.filter_append]
      congr 1
      rw [List.filter_cons_of_neg (by simp; omega), List.filter_cons_of_neg (by simp; omega)]
    · intro x hx r' hr'
      unfold hi at hx ⊢
      rw [List.filter_append] at hx
      rcases List.mem_append.mp hx with hx | hx
      · right; exact ⟨x, by rw [List.filter_append]; exact List.mem_append_left _ hx, hr'⟩
      · rw [List.filter_cons_of_pos (by simpa using hn)] at hx
        simp only [List.filter_nil, List.mem_singleton] at hx
        rw [hx] at hr'
        rcases List.mem_append.mp hr' with hr' | hr'
        · right
          refine ⟨(a, gf), ?_, hr'⟩
          rw [List.filter_append, List.filter_cons_of_pos (by simpa using hn)]
          simp
        · left; simpa using hr'
  | rotated =>
    refine ⟨?_, ?_, ⟨(a + 1, [r]), by simp, by omega⟩⟩
    · unfold lo
      rw [List.filter_append (g0 ++ [(a, gf)])]
      rw [List.filter_cons_of_neg (by simp; omega)]
      simp
    · intro x hx r' hr'
      unfold hi at hx ⊢
      rw [List.filter_append (g0 ++ [(a, gf)])] at hx
      rcases List.mem_append.mp hx with hx | hx
      · right; exact ⟨x, hx, hr'⟩
      · rw [List.filter_cons_of_pos (by simp; omega)] at hx
        simp only [List.filter_nil, List.mem_singleton] at hx
        rw [hx] at hr'
        left; simpa using hr'

/-- `MergeOutW` survives the growth of the ghost directory by one plain record in a file ≥ n -/
theorem MergeOutW.grow {w w' : World} {dir : String} {n : Nat} {gm vis : GDir}
    {g0 : GDir} {a : Nat} {gf : GFile} {r : Record} {g' : GDir} {a' : Nat} {p : Pos}
    (h : MergeOutW w dir (g0 ++ [(a, gf)]) n gm vis) (hg : Grow g0 a gf r g' a' p) (hn : n ≤ a) (hb : r.batch = 0)
    (hw : w'.get (mergeDirName dir) = w.get (mergeDirName dir)) : MergeOutW w' dir g' n gm vis := by
  obtain ⟨hlo, hhi, hne⟩ := hg.lo_hi n hn
  refine ⟨by rw [hw]; exact h.mdir, h.ids, h.count, h.small, by rw [hlo]; exact h.perm, ?_, ?_, hne⟩
  · unfold scanIndex
    rw [hlo]; exact h.live
  · intro x hx r' hr'
    rcases hhi x hx r' hr' with e | ⟨y, hy, hr''⟩
    · rw [e]; exact hb
    · exact h.hiPlain y hy r' hr''

/-- the marker id never exceeds the active file id -/
theorem MergeOutW.le_active {s : St} {db : DB} {g : GDir} {n : Nat} {gm vis : GDir}
    (h : MergeOutW s.world db.dir g n gm vis) (hf : Files s db g) : n ≤ db.activeId := by
  obtain ⟨x, hx, hn⟩ := h.hiNe
  obtain ⟨g0, gf, hg, hlt⟩ := hf.last
  rw [hg] at hx
  rcases List.mem_append.mp hx with hx | hx
  · have := hlt x hx; omega
  · simp only [List.mem_singleton] at hx; rw [hx] at hn; exact hn

end XixiKV.Engine.MergeP
