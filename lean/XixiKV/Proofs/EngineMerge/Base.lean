import XixiKV.Model.Adopt
import XixiKV.Proofs.EngineLive
import XixiKV.Proofs.EngineRestart
/-!
# Merge, adoption, hint files, backup: helper lemmas for C06 / C07 / C18 / C20

* lookup laws of the association lists (`getFile/setFile/removeFile`, `World.get/set/remove`),
  extensionality of ascending file lists;
* adoption on the pair (data directory, merge directory): the step model of `Model/Adopt.lean`
  agrees with the atomic `Engine.adopt` (`adopt_eq_steps`), every step preserves the result of a
  later adoption;
* …
-/
namespace XixiKV.Engine.MergeP
open XixiKV XixiKV.Engine XixiKV.Frame XixiKV.Record XixiKV.Index XixiKV.Adopt

/-! ## file lists -/

/-- file ids strictly ascending (the representation invariant of `DirSt.data`) -/
def AscF (fs : List (Nat × FileSt)) : Prop := fs.Pairwise (fun a b => a.1 < b.1)

theorem getFile_setFile (fs : List (Nat × FileSt)) (i j : Nat) (f : FileSt) :
    getFile (setFile fs i f) j = if j = i then some f else getFile fs j := by
  induction fs with
  | nil =>
    simp only [setFile, getFile]
    by_cases h : j = i
    · rw [if_pos h.symm, if_pos h]
    · rw [if_neg (fun e => h e.symm), if_neg h]
  | cons x rest ih =>
    obtain ⟨n, g⟩ := x
    simp only [setFile]
    by_cases e : n = i
    · rw [if_pos e]; subst e
      simp only [getFile]
      by_cases h : j = n
      · rw [if_pos h.symm, if_pos h]
      · rw [if_neg (fun e => h e.symm), if_neg h, if_neg (fun e => h e.symm)]
    · rw [if_neg e]
      by_cases e2 : i < n
      · rw [if_pos e2]
        simp only [getFile]
        by_cases h : j = i
        · rw [if_pos h.symm, if_pos h]
        · rw [if_neg (fun e => h e.symm), if_neg h]
      · rw [if_neg e2]
        simp only [getFile, ih]
        by_cases h : n = j
        · rw [if_pos h, if_neg (by omega), if_pos h]
        · rw [if_neg h, if_neg h]

theorem getFile_filter (p : Nat → Bool) (fs : List (Nat × FileSt)) (j : Nat) :
    getFile (fs.filter (fun x => p x.1)) j = if p j then getFile fs j else none := by
  induction fs with
  | nil => simp [getFile]
  | cons x rest ih =>
    obtain ⟨n, g⟩ := x
    by_cases hp : p n = true
    · rw [List.filter_cons_of_pos (by simpa using hp)]
      simp only [getFile, ih]
      by_cases h : n = j
      · subst h; simp only [if_pos, hp]
      · rw [if_neg h, if_neg h]
    · rw [List.filter_cons_of_neg (by simpa using hp)]
      simp only [getFile, ih]
      by_cases h : n = j
      · subst h; simp only [if_pos, if_neg hp]
      · rw [if_neg h]

theorem getFile_removeFile (fs : List (Nat × FileSt)) (i j : Nat) :
    getFile (removeFile fs i) j = if j = i then none else getFile fs j := by
  have := getFile_filter (fun n => decide (n ≠ i)) fs j
  unfold removeFile
  simp only [ne_eq, decide_not] at this ⊢
  rw [this]
  by_cases h : j = i
  · simp [h]
  · simp [h]

theorem mem_setFile {fs : List (Nat × FileSt)} {i : Nat} {f : FileSt} {x : Nat × FileSt}
    (h : x ∈ setFile fs i f) : x = (i, f) ∨ x ∈ fs := by
  induction fs with
  | nil => simp only [setFile, List.mem_singleton] at h; exact Or.inl h
  | cons y rest ih =>
    obtain ⟨n, g⟩ := y
    simp only [setFile] at h
    by_cases e : n = i
    · rw [if_pos e] at h
      rcases List.mem_cons.mp h with h | h
      · subst e; exact Or.inl h
      · exact Or.inr (List.mem_cons_of_mem _ h)
    · rw [if_neg e] at h
      by_cases e2 : i < n
      · rw [if_pos e2] at h
        rcases List.mem_cons.mp h with h | h
        · exact Or.inl h
        · exact Or.inr h
      · rw [if_neg e2] at h
        rcases List.mem_cons.mp h with h | h
        · exact Or.inr (by rw [h]; simp)
        · rcases ih h with h | h
          · exact Or.inl h
          · exact Or.inr (List.mem_cons_of_mem _ h)

theorem AscF_setFile {fs : List (Nat × FileSt)} (h : AscF fs) (i : Nat) (f : FileSt) : AscF (setFile fs i f) := by
  induction fs with
  | nil => simp [setFile, AscF]
  | cons y rest ih =>
    obtain ⟨n, g⟩ := y
    unfold AscF at h ih ⊢
    rw [List.pairwise_cons] at h
    obtain ⟨hall, hrest⟩ := h
    simp only [setFile]
    by_cases e : n = i
    · rw [if_pos e, List.pairwise_cons]; exact ⟨hall, hrest⟩
    · rw [if_neg e]
      by_cases e2 : i < n
      · rw [if_pos e2, List.pairwise_cons]
        refine ⟨?_, List.pairwise_cons.mpr ⟨hall, hrest⟩⟩
        intro a ha
        rcases List.mem_cons.mp ha with ha | ha
        · rw [ha]; exact e2
        · have := hall a ha; simp only at this ⊢; omega
      · rw [if_neg e2, List.pairwise_cons]
        refine ⟨?_, ih hrest⟩
        intro a ha
        rcases mem_setFile ha with ha | ha
        · rw [ha]; simp only; omega
        · exact hall a ha

theorem AscF_filter {fs : List (Nat × FileSt)} (h : AscF fs) (p : Nat × FileSt → Bool) : AscF (fs.filter p) :=
  List.Pairwise.sublist List.filter_sublist h

theorem AscF_removeFile {fs : List (Nat × FileSt)} (h : AscF fs) (i : Nat) : AscF (removeFile fs i) :=
  AscF_filter h _

theorem getFile_none_of_lt {fs : List (Nat × FileSt)} {i : Nat} (h : ∀ x ∈ fs, i < x.1) : getFile fs i = none := by
  induction fs with
  | nil => rfl
  | cons y rest ih =>
    obtain ⟨n, g⟩ := y
    have := h (n, g) (by simp)
    simp only [getFile]
    rw [if_neg (by simp only at this; omega)]
    exact ih (fun x hx => h x (by simp [hx]))

/-- two ascending file lists with the same lookups are equal -/
theorem AscF_ext : ∀ {a b : List (Nat × FileSt)}, AscF a → AscF b → (∀ i, getFile a i = getFile b i) → a = b := by
  intro a
  induction a with
  | nil =>
    intro b _ _ h
    cases b with
    | nil => rfl
    | cons y b' =>
      have := h y.1
      simp [getFile] at this
  | cons x a' ih =>
    intro b ha hb h
    cases b with
    | nil =>
      have := h x.1
      simp [getFile] at this
    | cons y b' =>
      obtain ⟨n, f⟩ := x
      obtain ⟨m, g⟩ := y
      unfold AscF at ha hb
      rw [List.pairwise_cons] at ha hb
      have hnm : n = m := by
        rcases Nat.lt_trichotomy n m with hlt | heq | hgt
        · exfalso
          have h1 := h n
          simp only [getFile, if_pos] at h1
          rw [if_neg (by omega), getFile_none_of_lt (fun z hz => by have := hb.1 z hz; simp only at this; omega)] at h1
          cases h1
        · exact heq
        · exfalso
          have h1 := h m
          simp only [getFile, if_pos] at h1
          rw [if_neg (by omega), getFile_none_of_lt (fun z hz => by have := ha.1 z hz; simp only at this; omega)] at h1
          cases h1
      subst hnm
      have hfg : f = g := by
        have h1 := h n
        simp only [getFile, if_pos] at h1
        exact Option.some.inj h1
      subst hfg
      congr 1
      apply ih ha.2 hb.2
      intro i
      by_cases e : n = i
      · subst e
        rw [getFile_none_of_lt (fun z hz => ha.1 z hz), getFile_none_of_lt (fun z hz => hb.1 z hz)]
      · have h1 := h i
        simp only [getFile, if_neg e] at h1
        exact h1

theorem getFile_mem {fs : List (Nat × FileSt)} {i : Nat} {f : FileSt} (h : getFile fs i = some f) : (i, f) ∈ fs := by
  induction fs with
  | nil => simp [getFile] at h
  | cons y rest ih =>
    obtain ⟨n, g⟩ := y
    simp only [getFile] at h
    by_cases e : n = i
    · rw [if_pos e] at h; cases h; subst e; simp
    · rw [if_neg e] at h; exact List.mem_cons_of_mem _ (ih h)

theorem getFile_of_mem {fs : List (Nat × FileSt)} (ha : AscF fs) {i : Nat} {f : FileSt} (h : (i, f) ∈ fs) :
    getFile fs i = some f := by
  induction fs with
  | nil => simp at h
  | cons y rest ih =>
    obtain ⟨n, g⟩ := y
    unfold AscF at ha ih
    rw [List.pairwise_cons] at ha
    simp only [getFile]
    rcases List.mem_cons.mp h with h | h
    · cases h; rw [if_pos rfl]
    · have := ha.1 _ h
      simp only at this
      rw [if_neg (by omega)]
      exact ih ha.2 h

theorem getFile_isSome_of_mem_ids {fs : List (Nat × FileSt)} {i : Nat} (h : i ∈ fs.map (·.1)) :
    (getFile fs i).isSome = true := by
  induction fs with
  | nil => simp at h
  | cons y rest ih =>
    obtain ⟨n, g⟩ := y
    simp only [getFile]
    by_cases e : n = i
    · rw [if_pos e]; rfl
    · rw [if_neg e]
      simp only [List.map_cons, List.mem_cons] at h
      rcases h with h | h
      · exact absurd h.symm e
      · exact ih h

theorem mem_ids_of_getFile {fs : List (Nat × FileSt)} {i : Nat} {f : FileSt} (h : getFile fs i = some f) :
    i ∈ fs.map (·.1) := List.mem_map.mpr ⟨(i, f), getFile_mem h, rfl⟩

/-! ## worlds -/

theorem get_set_self (w : World) (d : String) (x : DirSt) : (w.set d x).get d = some x :=
  Restart.World.get_set_self w d x

theorem get_set_ne (w : World) (d d' : String) (x : DirSt) (h : d' ≠ d) : (w.set d x).get d' = w.get d' :=
  Restart.World.get_set_ne w d d' x h

theorem set_set (w : World) (n : String) (a b : DirSt) : (w.set n a).set n b = w.set n b := by
  induction w with
  | nil => simp [World.set]
  | cons y rest ih =>
    obtain ⟨m, x⟩ := y
    simp only [World.set]
    by_cases e : m = n
    · rw [if_pos e]; simp only [World.set, if_pos e]
    · rw [if_neg e]; simp only [World.set, if_neg e, ih]

theorem set_get_self {w : World} {n : String} {a : DirSt} (h : w.get n = some a) : w.set n a = w := by
  induction w with
  | nil => simp [World.get] at h
  | cons y rest ih =>
    obtain ⟨m, x⟩ := y
    simp only [World.get] at h
    simp only [World.set]
    by_cases e : m = n
    · rw [if_pos e] at h ⊢; cases h; rfl
    · rw [if_neg e] at h ⊢; rw [ih h]

theorem set_comm (w : World) (a b : String) (x y : DirSt) (hab : a ≠ b) (hb : (w.get b).isSome = true) :
    (w.set a x).set b y = (w.set b y).set a x := by
  induction w with
  | nil => simp [World.get] at hb
  | cons z rest ih =>
    obtain ⟨n, s⟩ := z
    by_cases e1 : n = b
    · subst e1
      have hna : ¬ n = a := fun e => hab e.symm
      simp only [World.set, if_neg hna, if_pos]
    · by_cases e2 : n = a
      · subst e2
        simp only [World.set, if_pos, if_neg e1]
      · simp only [World.get, if_neg e1] at hb
        simp only [World.set, if_neg e1, if_neg e2, ih hb]

/-- re-writing `a` after `b` was written: the first write of `a` made `a` exist -/
theorem set_set_set (w : World) (a b : String) (x y x' : DirSt) (hab : a ≠ b) :
    ((w.set a x).set b y).set a x' = (w.set a x').set b y := by
  rw [set_comm _ b a y x' (fun e => hab e.symm) (by rw [get_set_self]; rfl), set_set]

theorem remove_set_self (w : World) (n : String) (a : DirSt) : (w.set n a).remove n = w.remove n := by
  induction w with
  | nil => simp [World.set, World.remove]
  | cons y rest ih =>
    obtain ⟨m, x⟩ := y
    simp only [World.set]
    by_cases e : m = n
    · rw [if_pos e]; simp [World.remove, e]
    · rw [if_neg e]
      unfold World.remove at ih ⊢
      simp only [List.filter_cons, ih]

theorem get_remove_self (w : World) (n : String) : (w.remove n).get n = none := by
  induction w with
  | nil => rfl
  | cons y rest ih =>
    obtain ⟨m, x⟩ := y
    unfold World.remove at ih ⊢
    by_cases e : m = n
    · rw [List.filter_cons_of_neg (by simp [e])]; exact ih
    · rw [List.filter_cons_of_pos (by simp [e])]
      simp only [World.get, if_neg e]; exact ih

theorem get_remove_ne (w : World) (n n' : String) (h : n' ≠ n) : (w.remove n).get n' = w.get n' := by
  induction w with
  | nil => rfl
  | cons y rest ih =>
    obtain ⟨m, x⟩ := y
    unfold World.remove at ih ⊢
    by_cases e : m = n
    · rw [List.filter_cons_of_neg (by simp [e])]
      simp only [World.get]
      rw [if_neg (by rw [e]; exact fun e' => h e'.symm)]; exact ih
    · rw [List.filter_cons_of_pos (by simp [e])]
      simp only [World.get, ih]

theorem remove_of_get_none {w : World} {n : String} (h : w.get n = none) : w.remove n = w := by
  induction w with
  | nil => rfl
  | cons y rest ih =>
    obtain ⟨m, x⟩ := y
    simp only [World.get] at h
    by_cases e : m = n
    · rw [if_pos e] at h; cases h
    · rw [if_neg e] at h
      unfold World.remove at ih ⊢
      rw [List.filter_cons_of_pos (by simp [e]), ih h]

end XixiKV.Engine.MergeP
