import XixiKV.Proofs.EngineMerge.Run
namespace XixiKV.Engine.MergeP
open XixiKV XixiKV.Engine XixiKV.Frame XixiKV.Record XixiKV.Index XixiKV.Adopt XixiKV.Engine.Restart

/-! ## the visiting order as a permutation of the participating ghost files -/

def glookup (g : GDir) (id : Nat) : GFile :=
  match g.find? (fun x => x.1 == id) with
  | some x => x.2
  | none => []

theorem glookup_mem {g : GDir} {id : Nat} (h : id ∈ g.map (·.1)) : (id, glookup g id) ∈ g := by
  unfold glookup
  cases hf : g.find? (fun x => x.1 == id) with
  | none =>
    exfalso
    obtain ⟨x, hx, e⟩ := List.mem_map.mp h
    exact List.find?_eq_none.mp hf x hx (by simp [e])
  | some x =>
    have h1 := List.find?_some hf
    have h2 := List.mem_of_find?_eq_some hf
    simp only [beq_iff_eq] at h1
    simp only []
    rw [← h1]; exact h2

theorem asc_unique {g : GDir} (ha : AscIds g) {i : Nat} {a b : GFile} (h1 : (i, a) ∈ g) (h2 : (i, b) ∈ g) : a = b := by
  have := pairwise_mem_eq (R := fun (x y : Nat × GFile) => x.1 ≠ y.1) (fun _ _ h => h.symm) (AscIds.ne ha) h1 h2
    (fun h => h rfl)
  exact (Prod.mk.inj this).2

theorem glookup_of_mem {g : GDir} (ha : AscIds g) {id : Nat} {gf : GFile} (h : (id, gf) ∈ g) : glookup g id = gf :=
  asc_unique ha (glookup_mem (List.mem_map.mpr ⟨(id, gf), h, rfl⟩)) h

theorem nodup_of_map_fst {l : GDir} (h : (l.map (·.1)).Nodup) : l.Nodup := by
  unfold List.Nodup at h ⊢
  rw [List.pairwise_map] at h
  exact List.Pairwise.imp (fun hab e => hab (by rw [e])) h

theorem mergeIds_mem (order : List Nat) (d : DirSt) (n i : Nat) :
    i ∈ mergeIds order d n ↔ i < n ∧ i ∈ d.data.map (·.1) := by
  unfold mergeIds
  have hA : ∀ j, j ∈ order.filter (fun i => i < n ∧ (getFile d.data i).isSome) ↔
      j ∈ order ∧ j < n ∧ (getFile d.data j).isSome = true := by
    intro j; simp only [List.mem_filter, decide_eq_true_eq]
  generalize order.filter (fun i => i < n ∧ (getFile d.data i).isSome) = A at hA
  rw [List.mem_append, List.mem_filter, hA i]
  simp only [decide_eq_true_eq, Bool.not_eq_true']
  constructor
  · rintro (⟨_, h1, h2⟩ | ⟨h1, h2, _⟩)
    · cases hg : getFile d.data i with
      | none => rw [hg] at h2; cases h2
      | some f => exact ⟨h1, mem_ids_of_getFile hg⟩
    · exact ⟨h2, h1⟩
  · rintro ⟨h1, h2⟩
    by_cases hc : i ∈ A
    · left; exact (hA i).mp hc
    · right
      refine ⟨h2, h1, ?_⟩
      cases hcon : A.contains i with
      | false => rfl
      | true => exact absurd (List.contains_iff_mem.mp hcon) hc

theorem mergeIds_nodup (order : List Nat) (d : DirSt) (n : Nat) (ho : order.Nodup) (hd : (d.data.map (·.1)).Nodup) :
    (mergeIds order d n).Nodup := by
  unfold mergeIds
  have hA : (order.filter (fun i => i < n ∧ (getFile d.data i).isSome)).Nodup := List.Nodup.sublist List.filter_sublist ho
  generalize order.filter (fun i => i < n ∧ (getFile d.data i).isSome) = A at hA
  rw [List.nodup_append]
  refine ⟨hA, List.Nodup.sublist List.filter_sublist hd, ?_⟩
  intro a ha b hb e
  subst e
  have := (List.mem_filter.mp hb).2
  simp only [decide_eq_true_eq, Bool.not_eq_true'] at this
  have hc : A.contains a = true := List.contains_iff_mem.mpr ha
  rw [this.2] at hc
  cases hc

/-- the ghost files `Merge` visits, in visiting order -/
def visOf (order : List Nat) (d : DirSt) (n : Nat) (g1 : GDir) : GDir :=
  (mergeIds order d n).map (fun id => (id, glookup g1 id))

theorem visOf_ids (order : List Nat) (d : DirSt) (n : Nat) (g1 : GDir) :
    (visOf order d n g1).map (·.1) = mergeIds order d n := by
  unfold visOf
  rw [List.map_map]
  exact List.map_id' _

theorem visOf_perm (order : List Nat) (d : DirSt) (n : Nat) (g1 : GDir) (ho : order.Nodup)
    (hmt : Matches d.data g1) (hasc : AscIds g1) :
    (visOf order d n g1).Perm (lo g1 n) ∧ ∀ x ∈ visOf order d n g1, x ∈ g1 := by
  have hids := Matches_ids hmt
  have hnd : (d.data.map (·.1)).Nodup := by
    rw [hids]
    have : (g1.map (·.1)).Pairwise (· < ·) := List.pairwise_map.mpr hasc
    exact List.Pairwise.imp (fun h => Nat.ne_of_lt h) this
  have hmem : ∀ x, x ∈ visOf order d n g1 ↔ x ∈ g1 ∧ x.1 < n := by
    intro x
    unfold visOf
    rw [List.mem_map]
    constructor
    · rintro ⟨id, hid, rfl⟩
      obtain ⟨h1, h2⟩ := (mergeIds_mem order d n id).mp hid
      rw [hids] at h2
      exact ⟨glookup_mem h2, h1⟩
    · rintro ⟨h1, h2⟩
      refine ⟨x.1, (mergeIds_mem order d n x.1).mpr ⟨h2, by rw [hids]; exact List.mem_map.mpr ⟨x, h1, rfl⟩⟩, ?_⟩
      rw [glookup_of_mem hasc (show (x.1, x.2) ∈ g1 from h1)]
  refine ⟨?_, fun x hx => ((hmem x).mp hx).1⟩
  rw [List.perm_ext_iff_of_nodup]
  · intro x
    rw [hmem x]
    unfold lo
    simp only [List.mem_filter, decide_eq_true_eq]
  · apply nodup_of_map_fst
    rw [visOf_ids]
    exact mergeIds_nodup order d n ho hnd
  · have : (lo g1 n).Pairwise (fun a b => a.1 < b.1) := List.Pairwise.sublist (lo_sublist g1 n) hasc
    exact List.Pairwise.imp (fun h e => by rw [e] at h; exact Nat.lt_irrefl _ h) this

theorem lo_rotated (g : GDir) (n : Nat) (h : ∀ x ∈ g, x.1 < n) : lo (g ++ [(n, [])]) n = g := by
  unfold lo
  rw [List.filter_append, List.filter_eq_self.mpr (fun a ha => by simpa using h a ha)]
  simp

theorem hi_rotated (g : GDir) (n : Nat) (h : ∀ x ∈ g, x.1 < n) : hi (g ++ [(n, [])]) n = [(n, [])] := by
  unfold hi
  rw [List.filter_append, List.filter_eq_nil_iff.mpr (fun a ha => by have := h a ha; simp; omega)]
  simp

/-! ## the specification of `Merge` -/

/-- the live handle after the rotation `Merge` starts with -/
def rotDB (db : DB) : DB := { db with bytesWrite := 0, activeId := db.activeId + 1 }

theorem mergeLoop_spec {s : St} {db : DB} {g : GDir} (hinv : Inv s db g) (order : List Nat) (ho : order.Nodup) :
    (rotate s db).2 = rotDB db ∧
    ∃ d1, (mergeStart s db).world.get db.dir = some d1 ∧ d1.locked = true ∧
      Matches d1.data (g ++ [(db.activeId + 1, [])]) ∧
      MBase (mergeStart s db).world (rotDB db) (mergeLoop s db order).1 (mergeLoop s db order).2 ∧
      ((mergeLoop s db order).2.failed = none → ∃ gmc vis,
        MFull (rotDB db) (mergeLoop s db order).1 (mergeLoop s db order).2 (logOf vis) gmc ∧
        vis.Perm (lo (g ++ [(db.activeId + 1, [])]) (db.activeId + 1))) := by
  obtain ⟨hf1, hdb1, _⟩ := rotate_spec hinv.files
  have hdb1' : (rotate s db).2 = rotDB db := hdb1
  refine ⟨hdb1', ?_⟩
  obtain ⟨d1, hd1, hl1, hm1⟩ := hf1.dir
  rw [rotate_dir] at hd1
  have hne := mname_ne db.dir
  have hW : (mergeStart s db).world.get db.dir = some d1 := by
    unfold mergeStart
    simp only []
    rw [get_set_ne _ _ _ _ hne.symm, get_remove_ne _ _ _ hne.symm]; exact hd1
  refine ⟨d1, hW, hl1, hm1, ?_⟩
  have hB0 : MBase (mergeStart s db).world (rotDB db) (mergeStart s db) (mergeM0 (rotDB db)) := by
    refine ⟨by unfold mergeStart; rw [hdb1'], fun _ _ => rfl, rfl, ?_, ?_⟩
    · unfold metaOf mergeStart
      simp only []
      rw [show (rotDB db).dir = db.dir from rfl, get_set_self]
      rfl
    · unfold mergeStart
      simp only []
      rw [show (rotDB db).dir = db.dir from rfl, get_set_self]
      exact ⟨_, rfl⟩
  have hF0 : (mergeM0 (rotDB db)).failed = none →
      ∃ gmc, MFull (rotDB db) (mergeStart s db) (mergeM0 (rotDB db)) [] gmc := by
    intro _
    refine ⟨[(0, [])], ⟨⟨?_, by simp [AscIds], rfl, ?_⟩, rfl, ?_, rfl, ?_⟩⟩
    · refine ⟨{ DirSt.empty with data := [(0, ⟨ByteArray.empty, 0⟩)] }, ?_, ?_⟩
      · show (mergeStart s db).world.get (mergeDirName db.dir) = some { DirSt.empty with data := [(0, ⟨ByteArray.empty, 0⟩)] }
        unfold mergeStart
        simp only []
        rw [get_set_self]
      · show (0 : Nat) = 0 ∧ ByteArray.empty = bytesOf [] ∧ True
        exact ⟨rfl, rfl, trivial⟩
    · intro x hx r hr
      simp only [List.mem_singleton] at hx
      rw [hx] at hr; simp at hr
    · simp [logOf]
    · show 0 < db.activeId + 1
      omega
  have hdir : dirOf (mergeStart s db) (rotate s db).2 = d1 := by
    unfold dirOf
    rw [rotate_dir, hW]; rfl
  have hasc1 := hf1.asc
  have hrecs1 := hf1.recs
  obtain ⟨hperm, hmem⟩ := visOf_perm order d1 (db.activeId + 1) (g ++ [(db.activeId + 1, [])]) ho hm1 hasc1
  have hloop : mergeLoop s db order
      = ((visOf order d1 (db.activeId + 1) (g ++ [(db.activeId + 1, [])])).map (·.1)).foldl
          (mergeFile (rotDB db) (rotDB db).activeId) (mergeStart s db, mergeM0 (rotDB db)) := by
    unfold mergeLoop
    rw [hdir, hdb1', visOf_ids]
    rfl
  rw [hloop]
  obtain ⟨hB, hF⟩ := mergeFile_fold (W := (mergeStart s db).world) (db1 := rotDB db) (d1 := d1) hW hm1 hasc1 hrecs1
    (visOf order d1 (db.activeId + 1) (g ++ [(db.activeId + 1, [])])) hB0 hF0 hmem
  refine ⟨hB, fun h => ?_⟩
  obtain ⟨_, gmc, hfull⟩ := hF h
  rw [List.nil_append] at hfull
  exact ⟨gmc, _, hfull, hperm⟩

theorem Inv_rotDB {s s' : St} {db : DB} {g : GDir} (hinv : Inv s db g) {d1 : DirSt}
    (hd : s'.world.get db.dir = some d1) (hl : d1.locked = true)
    (hm : Matches d1.data (g ++ [(db.activeId + 1, [])])) :
    Inv s' (rotDB db) (g ++ [(db.activeId + 1, [])]) := by
  obtain ⟨hf1, _, _⟩ := rotate_spec hinv.files
  exact ⟨⟨d1, hd, hl, hm⟩, hf1.asc, hf1.active, hf1.recs, by rw [logOf_new_file]; exact hinv.index, hinv.sorted,
    hinv.counters, hinv.nobatch⟩

theorem absGet_rotDB {s s' : St} {db : DB} {g : GDir} (hinv : Inv s db g)
    (hinv' : Inv s' (rotDB db) (g ++ [(db.activeId + 1, [])])) (k : ByteArray) :
    absGet s' (rotDB db) k = absGet s db k :=
  absGet_stable hinv hinv'.files (by rw [logOf_new_file]; exact fun x hx => hx) rfl

/-- **`Merge`, both outcomes**: the live handle becomes `rotDB db`, the invariant holds for the
    rotated ghost directory, no key changes its value; on error the merge directory carries no
    marker; on success it is `MergeOutW` -/
theorem merge_spec {s : St} {db : DB} {g : GDir} (hs : s.db = some db) (hinv : Inv s db g)
    (order : List Nat) (ho : order.Nodup) (hsmall : db.activeId + 1 < 2 ^ 32) :
    (merge s order).1.db = some (rotDB db) ∧
    Inv (merge s order).1 (rotDB db) (g ++ [(db.activeId + 1, [])]) ∧
    (∀ k, absGet (merge s order).1 (rotDB db) k = absGet s db k) ∧
    (∀ nm, nm ≠ db.dir → nm ≠ mergeDirName db.dir → (merge s order).1.world.get nm = s.world.get nm) ∧
    (∀ e, (merge s order).2 = .err e → ∃ md, (merge s order).1.world.get (mergeDirName db.dir) = some md ∧ md.marker = none) ∧
    ((merge s order).2 = .ok ∨ ∃ e, (merge s order).2 = .err e) ∧
    ((merge s order).2 = .ok →
      MergeOut (merge s order).1.world db.dir (g ++ [(db.activeId + 1, [])]) (db.activeId + 1)) := by
  obtain ⟨hdb1, d1, hW, hl1, hm1, hB, hF⟩ := mergeLoop_spec hinv order ho
  have hne := mname_ne db.dir
  have hdirL : (mergeLoop s db order).1.world.get db.dir = some d1 := by
    rw [hB.frame db.dir hne.symm]; exact hW
  have hother : ∀ nm, nm ≠ db.dir → nm ≠ mergeDirName db.dir → (mergeLoop s db order).1.world.get nm = s.world.get nm := by
    intro nm h1 h2
    rw [hB.frame nm h2]
    unfold mergeStart
    simp only []
    rw [get_set_ne _ _ _ _ h2, get_remove_ne _ _ _ h2, rotate_get_other _ _ _ h1]
  have hrd : (rotDB db).dir = db.dir := rfl
  have hall : ∀ x ∈ g, x.1 < db.activeId + 1 := by
    obtain ⟨g0, gf, hg, hlt⟩ := hinv.files.last
    intro x hx
    rw [hg] at hx
    rcases List.mem_append.mp hx with hx | hx
    · have := hlt x hx; omega
    · simp only [List.mem_singleton] at hx; rw [hx]; exact Nat.lt_succ_self _
  cases hfail : (mergeLoop s db order).2.failed with
  | some e =>
    have hres : merge s order = ((mergeLoop s db order).1, .err e) := by
      rw [merge_eq hs, hdb1]; unfold mergeFinish; rw [hfail]
    rw [hres]
    have hinv' := Inv_rotDB (s' := (mergeLoop s db order).1) hinv hdirL hl1 hm1
    refine ⟨hB.db, hinv', fun k => absGet_rotDB hinv hinv' k, hother, ?_, Or.inr ⟨e, rfl⟩, fun h => by cases h⟩
    intro _ _
    have hmeta := hB.mmeta
    obtain ⟨md, hmd⟩ := hB.mex
    unfold metaOf at hmeta
    rw [hmd] at hmeta
    simp only [Option.getD_some, Prod.mk.injEq] at hmeta
    exact ⟨md, hmd, hmeta.2.1⟩
  | none =>
    obtain ⟨gmc, vis, hfull, hperm⟩ := hF hfail
    obtain ⟨md, hmd, hmt⟩ := hfull.files.dir
    rw [hB.mdir, hrd] at hmd
    have hres : merge s order = (⟨(mergeLoop s db order).1.world.set (mergeDirName db.dir)
        ⟨syncAll md.data, some (mergeLoop s db order).2.hint,
         some (markerBytes (db.activeId + 1) ((mergeLoop s db order).2.mdb.activeId + 1)), md.locked⟩,
        (mergeLoop s db order).1.db⟩, .ok) := by
      rw [merge_eq hs, hdb1]; unfold mergeFinish; rw [hfail]
      simp only [hrd, hmd, Option.getD_some]
      rfl
    rw [hres]
    have hdirF : World.get ((mergeLoop s db order).1.world.set (mergeDirName db.dir)
        ⟨syncAll md.data, some (mergeLoop s db order).2.hint,
         some (markerBytes (db.activeId + 1) ((mergeLoop s db order).2.mdb.activeId + 1)), md.locked⟩) db.dir = some d1 := by
      rw [get_set_ne _ _ _ _ hne.symm]; exact hdirL
    have hinv' := Inv_rotDB (s' := ⟨_, (mergeLoop s db order).1.db⟩) hinv hdirF hl1 hm1
    have hlen : gmc.length = (mergeLoop s db order).2.mdb.activeId + 1 := by
      have := congrArg List.length hfull.ids
      rw [List.length_map, List.length_range] at this
      exact this
    refine ⟨hB.db, hinv', fun k => absGet_rotDB hinv hinv' k, ?_, (fun e h => by cases h), Or.inl rfl, fun _ => ?_⟩
    · intro nm h1 h2
      show World.get (World.set _ _ _) nm = _
      rw [get_set_ne _ _ _ _ h2]; exact hother nm h1 h2
    · refine ⟨gmc, vis, ⟨?_, ?_, ?_, hsmall, hperm, ?_, ?_, ?_⟩⟩
      · refine ⟨_, get_set_self _ _ _, Matches_syncAll hmt, ?_, ?_⟩
        · show some (mergeLoop s db order).2.hint = _
          rw [hfull.hint]
        · show some (markerBytes (db.activeId + 1) _) = _
          rw [hlen]
      · rw [hfull.ids, hlen]
      · rw [hlen]
        have := hfull.lt
        exact ⟨by omega, by show _ ≤ db.activeId + 1; exact this⟩
      · have hsi : scanIndex (g ++ [(db.activeId + 1, [])]) (db.activeId + 1) = (rotDB db).index := by
          unfold scanIndex
          rw [lo_rotated g _ hall]
          exact hinv.index.symm
        rw [hsi]; exact hfull.live
      · intro x hx r hr
        rw [hi_rotated g _ hall] at hx
        simp only [List.mem_singleton] at hx
        rw [hx] at hr; simp at hr
      · exact ⟨(db.activeId + 1, []), by simp, Nat.le_refl _⟩

end XixiKV.Engine.MergeP
