import XixiKV.Proofs.EngineMerge.Sem
namespace XixiKV.Engine.MergeP
open XixiKV XixiKV.Engine XixiKV.Frame XixiKV.Record XixiKV.Index XixiKV.Adopt XixiKV.Engine.Restart

/-! ## adopting the output of a successful merge -/

theorem getFile_append (a b : List (Nat × FileSt)) (j : Nat) :
    getFile (a ++ b) j = (getFile a j).or (getFile b j) := by
  induction a with
  | nil => simp [getFile]
  | cons x a ih =>
    obtain ⟨i, f⟩ := x
    simp only [List.cons_append, getFile]
    by_cases e : i = j
    · rw [if_pos e, if_pos e]; rfl
    · rw [if_neg e, if_neg e]; exact ih

theorem getFile_none_of_not_mem {fs : List (Nat × FileSt)} {j : Nat} (h : j ∉ fs.map (·.1)) : getFile fs j = none := by
  cases hg : getFile fs j with
  | none => rfl
  | some f => exact absurd (mem_ids_of_getFile hg) h

/-- the files of the data directory after adopting a merge directory whose files are exactly
    `0 … cnt-1`: the merged files, then the originals with id ≥ n -/
theorem tgtData_merged (n cnt : Nat) (D M : List (Nat × FileSt)) (hD : AscF D) (hM : AscF M)
    (hids : M.map (·.1) = List.range cnt) (hc : cnt ≤ n) :
    tgtData n cnt D M = M ++ D.filter (fun x => n ≤ x.1) := by
  have hMlt : ∀ x ∈ M, x.1 < cnt := by
    intro x hx
    have : x.1 ∈ M.map (·.1) := List.mem_map.mpr ⟨x, hx, rfl⟩
    rw [hids] at this
    exact List.mem_range.mp this
  have hasc : AscF (M ++ D.filter (fun x => n ≤ x.1)) := by
    unfold AscF
    rw [List.pairwise_append]
    refine ⟨hM, AscF_filter hD _, ?_⟩
    intro a ha b hb
    have h1 := hMlt a ha
    have h2 := (List.mem_filter.mp hb).2
    simp only [decide_eq_true_eq] at h2
    omega
  apply AscF_ext (AscF_tgtData _ _ _ _ hD) hasc
  intro j
  rw [getFile_tgtData _ _ _ _ hM, getFile_append]
  have hf := getFile_filter (fun i => decide (n ≤ i)) D j
  rw [hf]
  by_cases c1 : j < cnt
  · have hsome : (getFile M j).isSome = true :=
      getFile_isSome_of_mem_ids (by rw [hids]; exact List.mem_range.mpr c1)
    rw [if_neg (by omega), if_pos c1]
    cases hg : getFile M j with
    | none => rw [hg] at hsome; cases hsome
    | some f => rfl
  · have hnone : getFile M j = none :=
      getFile_none_of_not_mem (by rw [hids]; intro h; exact c1 (List.mem_range.mp h))
    rw [hnone]
    by_cases c2 : j < n
    · rw [if_pos ⟨by omega, c2⟩, if_neg (by simp; omega)]; rfl
    · rw [if_neg (by omega), if_neg c1, if_pos (by simp; omega)]; rfl

/-- `adopt` on the output of a successful merge, explicitly -/
theorem adopt_merged (w : World) (dir : String) (d md : DirSt) (n cnt : Nat)
    (hd : w.get dir = some d) (hmd : w.get (mergeDirName dir) = some md)
    (hD : AscF d.data) (hM : AscF md.data) (hids : md.data.map (·.1) = List.range cnt)
    (hmk : md.marker = some (markerBytes n cnt)) (hc0 : 0 < cnt) (hc : cnt ≤ n) (hn : n < 2 ^ 32) :
    adopt w dir = ((w.set dir { d with data := md.data ++ d.data.filter (fun x => n ≤ x.1),
                                       hint := tgtHint d md }).remove (mergeDirName dir), n) := by
  have hrd := readMarker_markerBytes n cnt hn (by omega)
  have hview : viewP w dir = (d, some md) := by unfold viewP; rw [hd, hmd]; rfl
  have hplan : planP (d, some md) = some (n, cnt) := by
    unfold planP
    simp only [hmk, hrd]
    rw [if_neg (by omega)]
  rw [adopt_eq_adoptP w dir (by rw [hd]; rfl), hview, adoptP_some rfl hplan]
  unfold tgt
  simp only []
  rw [tgtData_merged n cnt d.data md.data hD hM hids hc]
  rfl

/-- `openDB` through the hint path, reduced to `loadHint` and `loadIndex` -/
theorem openDB_hint (s : St) (dir : String) (cfg : Cfg) (d d' : DirSt) (w' : World) (n maxFid : Nat)
    (R Rf : Replay) (data' : List (Nat × FileSt))
    (hdb : s.db = none) (hcfg : cfg.Valid) (hd : s.world.get dir = some d) (hl : d.locked = false)
    (hadopt : adopt s.world dir = (w', n)) (hn : n > 0) (hd' : w'.get dir = some d')
    (hhint : loadHint Replay.init (d'.hint.getD ByteArray.empty) = some (R, maxFid)) (hne : d'.data ≠ [])
    (hload : loadIndex R (min maxFid n) d'.data = some (Rf, data')) :
    openDB s dir cfg
      = ({ world := w'.set dir { d' with data := data', locked := true }, db := some (mkDB cfg dir Rf data') }, .ok) := by
  unfold openDB
  simp only [hdb, if_neg hcfg.not_rejected, hd, Option.isNone_some, Bool.false_eq_true, if_false, Option.getD_some, hl]
  simp only [hadopt, hd', Option.getD_some, if_pos hn, ite_self]
  have hhint' : loadHint { index := [], reclaim := 0, total := 0, pending := [] } (d'.hint.getD ByteArray.empty)
      = some (R, maxFid) := hhint
  simp only [hhint']
  have hne' : d'.data.isEmpty = false := by
    cases hdd : d'.data with
    | nil => exact absurd hdd hne
    | cons _ _ => rfl
  simp only [hne', Bool.not_false, if_true, hload]
  rfl

theorem getLast_append_ne {α : Type} (a b : List α) (hb : b ≠ []) : (a ++ b).getLast? = b.getLast? := by
  rw [List.getLast?_append]
  cases hl : b.getLast? with
  | none => exact absurd (List.getLast?_eq_none_iff.mp hl) hb
  | some x => rfl

/-- the hint-path replay of `merged files ++ files ≥ n`: the scan-path result, with the records of
    the last hinted file counted twice in `total` and once in `reclaim` -/
theorem loadIndex_after_hint (gm hiG : GDir) (mdata hdata : List (Nat × FileSt)) (m : Nat)
    (hM : Merged gm) (hasc : AscIds gm) (hmt : Matches mdata gm) (hmh : Matches hdata hiG)
    (hrh : ∀ x ∈ hiG, ∀ r ∈ x.2, RecOK r) (hge : ∀ x ∈ hiG, m ≤ x.1) :
    loadIndex (replayLog (logOf gm)) m (mdata ++ hdata)
      = some (bump (replayLog (logOf (gm ++ hiG))) (sizeSum (logOf (hi gm m))), mdata ++ hdata) := by
  have hsplit := lo_append_hi hasc m
  have hmt' : Matches mdata (lo gm m ++ hi gm m) := by rw [hsplit]; exact hmt
  obtain ⟨mdA, mdB, e, hA, hB⟩ := Matches_split hmt'
  have hAlt : ∀ x ∈ mdA, x.1 < m := by
    intro x hx
    have : x.1 ∈ mdA.map (·.1) := List.mem_map.mpr ⟨x, hx, rfl⟩
    rw [Matches_ids hA] at this
    obtain ⟨y, hy, e⟩ := List.mem_map.mp this
    have := (List.mem_filter.mp hy).2
    simp only [decide_eq_true_eq] at this
    rw [← e]; exact this
  have hBrecs : ∀ x ∈ hi gm m ++ hiG, ∀ r ∈ x.2, RecOK r := by
    intro x hx
    rcases List.mem_append.mp hx with hx | hx
    · exact hM.recs x ((hi_sublist gm m).subset hx)
    · exact hrh x hx
  have hBge : ∀ x ∈ hi gm m ++ hiG, m ≤ x.1 := by
    intro x hx
    rcases List.mem_append.mp hx with hx | hx
    · have := (List.mem_filter.mp hx).2
      simpa using this
    · exact hge x hx
  rw [e, List.append_assoc, loadIndex_skip m mdA _ _ hAlt]
  have h2 := loadIndex_scan_ge m (mdB ++ hdata) (hi gm m ++ hiG) (replayLog (logOf gm)) []
    (Matches_append hB hmh) hBrecs hBge
  rw [List.append_nil] at h2
  rw [h2]
  simp only [loadIndex]
  -- the replay
  have hlogsplit : logOf gm = logOf (lo gm m) ++ logOf (hi gm m) := by rw [← Restart.logOf_append, hsplit]
  obtain ⟨hg1, _⟩ := hM.get
  have hagain : replayFrom (replayLog (logOf gm)) (logOf (hi gm m))
      = bump (replayLog (logOf gm)) (sizeSum (logOf (hi gm m))) := by
    apply replayFrom_again _ _ (replay_sorted _)
    intro x hx
    have hx' : x ∈ logOf gm := by rw [hlogsplit]; exact List.mem_append_right _ hx
    exact ⟨(hM.plain x hx').1, (hM.plain x hx').2, hg1 x hx'⟩
  have hR : replayFrom (replayLog (logOf gm)) (logOf hiG) = replayLog (logOf (gm ++ hiG)) := by
    rw [Restart.logOf_append]
    show _ = replayFrom Replay.init (logOf gm ++ logOf hiG)
    rw [replayFrom_append]
    rfl
  rw [Restart.logOf_append, replayFrom_append, hagain, replayFrom_bump, hR, List.append_nil]

/-- the handle the hint-path `Open` builds: the scan-path handle with `S` bytes counted twice -/
def hintDB (cfg : Cfg) (dir : String) (a : Nat) (g : GDir) (S : Nat) : DB :=
  { cfg := cfg, dir := dir, activeId := a, index := (replayLog (logOf g)).index,
    reclaim := (replayLog (logOf g)).reclaim + S, total := (replayLog (logOf g)).total + S,
    bytesWrite := 0, batch := none }

theorem AscIds_merged_hi {g gm : GDir} {n : Nat} (hasc : AscIds g) (hids : gm.map (·.1) = List.range gm.length)
    (hc : gm.length ≤ n) : AscIds (gm ++ hi g n) := by
  have hgm : AscIds gm := by
    have : (gm.map (·.1)).Pairwise (· < ·) := by rw [hids]; exact List.pairwise_lt_range
    exact List.pairwise_map.mp this
  unfold AscIds
  rw [List.pairwise_append]
  refine ⟨hgm, List.Pairwise.sublist (hi_sublist g n) hasc, ?_⟩
  intro a ha b hb
  have h1 : a.1 ∈ gm.map (·.1) := List.mem_map.mpr ⟨a, ha, rfl⟩
  rw [hids] at h1
  have h1 := List.mem_range.mp h1
  have h2 := (List.mem_filter.mp hb).2
  simp only [decide_eq_true_eq] at h2
  omega

theorem hi_getLast {g : GDir} {n a : Nat} (hasc : AscIds g) (hact : (g.getLast?).map (·.1) = some a)
    (hne : ∃ x ∈ g, n ≤ x.1) : (hi g n) ≠ [] ∧ ((hi g n).getLast?).map (·.1) = some a := by
  have hsplit := lo_append_hi hasc n
  obtain ⟨x, hx, hn⟩ := hne
  have hmem : x ∈ hi g n := List.mem_filter.mpr ⟨hx, by simpa using hn⟩
  have hnn : hi g n ≠ [] := List.ne_nil_of_mem hmem
  refine ⟨hnn, ?_⟩
  rw [← hsplit, getLast_append_ne _ _ hnn] at hact
  exact hact

/-- **`Open` adopts a finished merge** (closed directory `d` matching `g`, merge directory as left by
    a successful merge): it succeeds through the hint path; the data directory then holds exactly
    the merged files followed by the files with id ≥ n, plus the hint file; the merge directory is
    gone; the handle's index is the replay of the new directory; the invariant holds for the ghost
    directory `gm ++ hi g n`; `total` and `reclaim` both exceed their scan-path values by `S`, the
    bytes of the records of the last hinted file (which `loadIndexFromDataFiles` scans again). -/
theorem open_after_merge (s0 : St) (dir : String) (cfg : Cfg) (d : DirSt) (g : GDir) (n a : Nat) (gm vis : GDir)
    (hdb : s0.db = none) (hcfg : cfg.Valid) (hd : s0.world.get dir = some d) (hl : d.locked = false)
    (hmt : Matches d.data g) (hasc : AscIds g) (hrecs : ∀ x ∈ g, ∀ r ∈ x.2, RecOK r)
    (hact : (g.getLast?).map (·.1) = some a)
    (hmo : MergeOutW s0.world dir g n gm vis) (hF : HintFits gm) :
    ∃ md maxFid W', s0.world.get (mergeDirName dir) = some md ∧
      openDB s0 dir cfg = (⟨W', some (hintDB cfg dir a (gm ++ hi g n) (sizeSum (logOf (hi gm maxFid))))⟩, .ok) ∧
      W'.get dir = some ⟨md.data ++ d.data.filter (fun x => n ≤ x.1), some (hintBytes gm), d.marker, true⟩ ∧
      W'.get (mergeDirName dir) = none ∧
      (∀ nm, nm ≠ dir → nm ≠ mergeDirName dir → W'.get nm = s0.world.get nm) ∧
      Matches (md.data ++ d.data.filter (fun x => n ≤ x.1)) (gm ++ hi g n) ∧
      Inv ⟨W', some (hintDB cfg dir a (gm ++ hi g n) (sizeSum (logOf (hi gm maxFid))))⟩
        (hintDB cfg dir a (gm ++ hi g n) (sizeSum (logOf (hi gm maxFid)))) (gm ++ hi g n) ∧
      (maxFid = 0 ∨ ∃ x ∈ logOf gm, x.2.fid = maxFid) ∧ (∀ x ∈ logOf gm, x.2.fid ≤ maxFid) := by
  obtain ⟨md, hmd, hmm, hhint, hmk⟩ := hmo.mdir
  obtain ⟨hM, _, _⟩ := hmo.merged hasc hrecs
  have hne := mname_ne dir
  have hgmasc : AscIds gm := by
    have : (gm.map (·.1)).Pairwise (· < ·) := by rw [hmo.ids]; exact List.pairwise_lt_range
    exact List.pairwise_map.mp this
  have hDasc : AscF d.data := Matches_AscF hmt hasc
  have hMasc : AscF md.data := Matches_AscF hmm hgmasc
  have hmids : md.data.map (·.1) = List.range gm.length := by rw [Matches_ids hmm]; exact hmo.ids
  have hadopt := adopt_merged s0.world dir d md n gm.length hd hmd hDasc hMasc hmids hmk hmo.count.1 hmo.count.2 hmo.small
  have hth : tgtHint d md = some (hintBytes gm) := by unfold tgtHint; rw [hhint]
  rw [hth] at hadopt
  obtain ⟨maxFid, hlh, hmax1, hmax2⟩ := loadHint_eq_replay gm hM hF
  -- maxFid is the id of a merged file, hence below the count
  have hmaxlt : maxFid < gm.length := by
    rcases hmax2 with h0 | ⟨x, hx, hfx⟩
    · rw [h0]; exact hmo.count.1
    · obtain ⟨y, hy, hz⟩ := mem_logOf.mp hx
      have hf := posAll_fid C y.1 _ _ x.2 (List.of_mem_zip hz).2
      have : y.1 ∈ gm.map (·.1) := List.mem_map.mpr ⟨y, hy, rfl⟩
      rw [hmo.ids] at this
      have := List.mem_range.mp this
      omega
  have hmin : min maxFid n = maxFid := by have := hmo.count.2; omega
  have hhiM : Matches (d.data.filter (fun x => n ≤ x.1)) (hi g n) :=
    Matches_filter (fun i => decide (n ≤ i)) hmt
  have hhirecs : ∀ x ∈ hi g n, ∀ r ∈ x.2, RecOK r := fun x hx => hrecs x ((hi_sublist g n).subset hx)
  have hhige : ∀ x ∈ hi g n, maxFid ≤ x.1 := by
    intro x hx
    have := (List.mem_filter.mp hx).2
    simp only [decide_eq_true_eq] at this
    have := hmo.count.2
    omega
  have hload := loadIndex_after_hint gm (hi g n) md.data (d.data.filter (fun x => n ≤ x.1)) maxFid hM hgmasc hmm hhiM
    hhirecs hhige
  have hmdne : md.data ≠ [] := by
    intro e
    have h1 := congrArg List.length hmids
    rw [e, List.length_map, List.length_range] at h1
    have h2 := hmo.count.1
    simp only [List.length_nil] at h1; omega
  have hopen := openDB_hint s0 dir cfg d
    ⟨md.data ++ d.data.filter (fun x => n ≤ x.1), some (hintBytes gm), d.marker, d.locked⟩
    ((s0.world.set dir ⟨md.data ++ d.data.filter (fun x => n ≤ x.1), some (hintBytes gm), d.marker, d.locked⟩).remove
      (mergeDirName dir)) n maxFid (replayLog (logOf gm))
    (bump (replayLog (logOf (gm ++ hi g n))) (sizeSum (logOf (hi gm maxFid))))
    (md.data ++ d.data.filter (fun x => n ≤ x.1))
    hdb (by omega) hd hl hadopt (by have := hmo.count; omega)
    (by rw [get_remove_ne _ _ _ hne.symm, get_set_self]) hlh
    (by simp [hmdne]) (by rw [hmin]; exact hload)
  have hmtAll : Matches (md.data ++ d.data.filter (fun x => n ≤ x.1)) (gm ++ hi g n) := Matches_append hmm hhiM
  obtain ⟨hhine, hhilast⟩ := hi_getLast hasc hact hmo.hiNe
  have hactAll : ((gm ++ hi g n).getLast?).map (·.1) = some a := by
    rw [getLast_append_ne _ _ hhine]; exact hhilast
  have hdbeq : mkDB cfg dir (bump (replayLog (logOf (gm ++ hi g n))) (sizeSum (logOf (hi gm maxFid))))
      (md.data ++ d.data.filter (fun x => n ≤ x.1))
      = hintDB cfg dir a (gm ++ hi g n) (sizeSum (logOf (hi gm maxFid))) := by
    unfold mkDB hintDB
    rw [activeId_of_getLast (by rw [Matches_getLast hmtAll]; exact hactAll)]
    rfl
  rw [hdbeq] at hopen
  have hrecsAll : ∀ x ∈ gm ++ hi g n, ∀ r ∈ x.2, RecOK r := by
    intro x hx
    rcases List.mem_append.mp hx with hx | hx
    · exact hM.recs x hx
    · exact hhirecs x hx
  refine ⟨md, maxFid, _, hmd, hopen, ?_, ?_, ?_, hmtAll, ?_, hmax2, hmax1⟩
  · rw [get_set_self, hl]
  · rw [get_set_ne _ _ _ _ hne, get_remove_self]
  · intro nm h1 h2
    rw [get_set_ne _ _ _ _ h1, get_remove_ne _ _ _ h2, get_set_ne _ _ _ _ h1]
  · refine ⟨⟨_, get_set_self _ _ _, rfl, hmtAll⟩, AscIds_merged_hi hasc hmo.ids hmo.count.2, hactAll, hrecsAll, rfl,
      replay_sorted _, ?_, rfl⟩
    have := replay_counters (logOf (gm ++ hi g n))
    show (replayLog (logOf (gm ++ hi g n))).total + _
      = (replayLog (logOf (gm ++ hi g n))).reclaim + _ + liveBytes (replayLog (logOf (gm ++ hi g n))).index
    omega

end XixiKV.Engine.MergeP
