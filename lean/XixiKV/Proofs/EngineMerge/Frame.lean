import XixiKV.Proofs.EngineMerge.Open
namespace XixiKV.Engine.MergeP
open XixiKV XixiKV.Engine XixiKV.Frame XixiKV.Record XixiKV.Index XixiKV.Adopt XixiKV.Engine.Restart

/-! ## the mapping is determined by the ghost directory -/

/-- two handles that satisfy the invariant for the same ghost directory denote the same mapping -/
theorem absGet_same_ghost {s1 s2 : St} {db1 db2 : DB} {g : GDir} (h1 : Inv s1 db1 g) (h2 : Inv s2 db2 g)
    (k : ByteArray) : absGet s1 db1 k = absGet s2 db2 k := by
  have hix : db2.index = db1.index := by rw [h1.index, h2.index]
  unfold absGet
  rw [hix]
  cases hg : Index.get db1.index k with
  | none => rfl
  | some p =>
    obtain ⟨r, hr, _, hv⟩ := absGet_total h1 hg
    simp only [hv, valueAt_log h2.files hr]

/-! ## writes touch the handle's own directory only -/

theorem putFile_get_other (s : St) (db : DB) (id : Nat) (f : FileSt) (n : String) (h : n ≠ db.dir) :
    (putFile s db id f).world.get n = s.world.get n := by
  unfold putFile
  simp only []
  exact get_set_ne _ _ _ _ h

theorem rotate_get_other (s : St) (db : DB) (n : String) (h : n ≠ db.dir) :
    (rotate s db).1.world.get n = s.world.get n := by
  unfold rotate
  simp only []
  exact (putFile_get_other _ { db with bytesWrite := 0, activeId := db.activeId + 1 } _ _ _ h).trans
    (putFile_get_other _ _ _ _ _ h)

theorem rotate_dir (s : St) (db : DB) : (rotate s db).2.dir = db.dir := rfl

theorem appendTail_get_other (s : St) (db : DB) (r : Record) (n : String) (h : n ≠ db.dir) :
    (appendTail s db r).1.world.get n = s.world.get n := by
  unfold appendTail
  simp only []
  split
  · exact putFile_get_other _ _ _ _ _ h
  · exact putFile_get_other _ _ _ _ _ h

theorem appendLog_get_other (s : St) (db : DB) (r : Record) (n : String) (h : n ≠ db.dir) :
    (appendLog s db r).1.world.get n = s.world.get n := by
  rw [appendLog_eq]
  split
  · rw [appendTail_get_other _ _ _ _ (by rw [rotate_dir]; exact h), rotate_get_other _ _ _ h]
  · exact appendTail_get_other _ _ _ _ h

/-- `putFile` keeps hint, marker and lock of the directory it writes to -/
theorem putFile_get_self (s : St) (db : DB) (id : Nat) (f : FileSt) :
    (putFile s db id f).world.get db.dir = some { dirOf s db with data := setFile (dirOf s db).data id f } := by
  unfold putFile
  simp only []
  exact get_set_self _ _ _

theorem put_get_other (s : St) (k v : ByteArray) (db : DB) (hs : s.db = some db) (n : String) (h : n ≠ db.dir) :
    (put s k v).1.world.get n = s.world.get n := by
  by_cases hk : k.size = 0
  · rw [put_keyempty s k v hk hs]
  · rw [put_eq hs k v hk]
    exact appendLog_get_other _ _ _ _ h

theorem delete_get_other (s : St) (k : ByteArray) (db : DB) (hs : s.db = some db) (n : String) (h : n ≠ db.dir) :
    (delete s k).1.world.get n = s.world.get n := by
  by_cases hk : k.size = 0
  · rw [delete_keyempty s k hk hs]
  · cases hg : Index.get db.index k with
    | none => rw [delete_eq_none hs k hk hg]
    | some old =>
      rw [delete_eq_some hs k hk hg]
      exact appendLog_get_other _ _ _ _ h

theorem syncDB_get_other (s : St) (db : DB) (hs : s.db = some db) (n : String) (h : n ≠ db.dir) :
    (syncDB s).1.world.get n = s.world.get n := by
  unfold syncDB withDB
  rw [hs]
  exact putFile_get_other _ _ _ _ _ h

/-! ## Backup -/

theorem Matches_AscF {data : List (Nat × FileSt)} {g : GDir} (h : Matches data g) (ha : AscIds g) : AscF data := by
  have hids := Matches_ids h
  unfold AscF
  unfold AscIds at ha
  have h1 : (data.map (·.1)).Pairwise (· < ·) := by
    rw [hids]; exact List.pairwise_map.mpr ha
  exact List.pairwise_map.mp h1

theorem backup_data (l : List (Nat × FileSt)) : ∀ (acc : List (Nat × FileSt)), AscF l →
    (∀ x ∈ acc, ∀ y ∈ l, x.1 < y.1) →
    l.foldl (fun acc (x : Nat × FileSt) => setFile acc x.1 { x.2 with synced := x.2.bytes.size }) acc
      = acc ++ syncAll l := by
  induction l with
  | nil => intro acc _ _; simp [syncAll]
  | cons y rest ih =>
    intro acc ha hlt
    unfold AscF at ha ih
    rw [List.pairwise_cons] at ha
    simp only [List.foldl_cons]
    rw [setFile_new_last acc y.1 _ (fun x hx => hlt x hx y (by simp))]
    rw [ih _ ha.2]
    · obtain ⟨i, f⟩ := y
      simp [syncAll]
    · intro x hx z hz
      rcases List.mem_append.mp hx with hx | hx
      · exact hlt x hx z (by simp [hz])
      · simp only [List.mem_singleton] at hx
        rw [hx]; exact ha.1 z hz

/-- the world `Backup` writes the copy into: a stale merge directory next to `dest` is removed first -/
def backupWorld (s : St) (db : DB) (dest : String) : World :=
  if mergeDirName dest = db.dir then s.world else s.world.remove (mergeDirName dest)

/-- `Backup`, whatever `dest` held before: the copy's data files and hint file are exactly the
    source's (flushed); the other attributes of an existing `dest` are kept -/
theorem backup_eq' (s : St) (db : DB) (d : DirSt) (dest : String) (hdb : s.db = some db)
    (hd : s.world.get db.dir = some d) :
    backup s dest = (⟨(backupWorld s db dest).set dest ⟨syncAll d.data, d.hint, ((s.world.get dest).getD DirSt.empty).marker,
      ((s.world.get dest).getD DirSt.empty).locked⟩, s.db⟩, .ok) := by
  unfold backup withDB backupWorld
  rw [hdb]
  simp only [dirOf, hd, Option.getD_some]
  rfl

/-- every directory other than the stale merge directory is where it was -/
theorem backupWorld_get (s : St) (db : DB) (dest n : String) (h : n ≠ mergeDirName dest) :
    (backupWorld s db dest).get n = s.world.get n := by
  unfold backupWorld
  split
  · rfl
  · exact get_remove_ne _ _ _ h

/-- `Backup` into a directory that does not exist yet -/
theorem backup_eq (s : St) (db : DB) (d : DirSt) (dest : String) (hdb : s.db = some db)
    (hd : s.world.get db.dir = some d) (hfresh : s.world.get dest = none) (_hasc : AscF d.data) :
    backup s dest = (⟨(backupWorld s db dest).set dest ⟨syncAll d.data, d.hint, none, false⟩, s.db⟩, .ok) := by
  rw [backup_eq' s db d dest hdb hd, hfresh]
  rfl

/-- the stale merge directory is gone — unless it is the data directory itself, which is never touched -/
theorem backupWorld_get_mname (s : St) (db : DB) (dest : String) :
    (backupWorld s db dest).get (mergeDirName dest) =
      if mergeDirName dest = db.dir then s.world.get db.dir else none := by
  unfold backupWorld
  split
  · rename_i h; rw [h]
  · exact get_remove_self _ _

/-- the data directory is never touched -/
theorem backupWorld_get_dir (s : St) (db : DB) (dest : String) :
    (backupWorld s db dest).get db.dir = s.world.get db.dir := by
  by_cases h : mergeDirName dest = db.dir
  · unfold backupWorld; rw [if_pos h]
  · exact backupWorld_get s db dest db.dir (fun e => h e.symm)

/-- nothing adoptable next to `dest` after the removal (by construction when the guard does not fire) -/
theorem backupWorld_plan (s : St) (db : DB) (dest : String)
    (hplan : mergeDirName dest = db.dir → plan s.world dest = none) :
    plan (backupWorld s db dest) dest = none := by
  by_cases h : mergeDirName dest = db.dir
  · unfold backupWorld; rw [if_pos h]; exact hplan h
  · unfold plan
    rw [backupWorld_get_mname, if_neg h]

theorem plan_set (w : World) (n dir : String) (x : DirSt)
    (h : n ≠ mergeDirName dir ∨ ∃ d, w.get n = some d ∧ x.marker = d.marker) :
    plan (w.set n x) dir = plan w dir := by
  unfold plan
  by_cases e : n = mergeDirName dir
  · rcases h with h | ⟨d, hd, hm⟩
    · exact absurd e h
    · subst e
      rw [get_set_self, hd]
      simp only [hm]
  · rw [get_set_ne _ _ _ _ (fun e' => e e'.symm)]

end XixiKV.Engine.MergeP
