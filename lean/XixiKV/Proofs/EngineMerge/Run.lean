import XixiKV.Proofs.EngineMerge.Append
namespace XixiKV.Engine.MergeP
open XixiKV XixiKV.Engine XixiKV.Frame XixiKV.Record XixiKV.Index XixiKV.Adopt XixiKV.Engine.Restart

/-! ## the rewrite loop of `Merge` -/

/-- what holds of the state during the rewrite loop whether or not it has failed: the live handle
    is untouched, no directory but the merge directory changes, the merge directory has no hint,
    no marker, no lock -/
structure MBase (W : World) (db1 : DB) (s : St) (m : MergeSt) : Prop where
  db : s.db = some db1
  frame : ∀ nm, nm ≠ mergeDirName db1.dir → s.world.get nm = W.get nm
  mdir : m.mdb.dir = mergeDirName db1.dir
  mmeta : metaOf s.world (mergeDirName db1.dir) = (none, none, false)
  mex : ∃ md, s.world.get (mergeDirName db1.dir) = some md

/-- what holds as long as the loop has not failed, after the log entries `L` were visited: the
    merge directory's files are the ghost files `gmc` (ids `0 … active`), whose records are the
    live entries of `L` rewritten plain, the hint buffer is their hint file, no id conflict -/
structure MFull (db1 : DB) (s : St) (m : MergeSt) (L : List (Record × Pos)) (gmc : GDir) : Prop where
  files : FilesU s m.mdb gmc
  ids : gmc.map (·.1) = List.range (m.mdb.activeId + 1)
  live : (logOf gmc).map (·.1) = (L.filter (isLive db1.index)).map (fun x => plainOf x.1)
  hint : m.hint = hintBytes gmc
  lt : m.mdb.activeId < db1.activeId

theorem hintBytes_grow {g g' : GDir} {r : Record} {p : Pos} (h : logOf g' = logOf g ++ [(r, p)]) :
    hintBytes g' = appendRec C (hintBytes g) (encodeHint r.key p) := by
  unfold hintBytes hintPayloads
  rw [h, List.map_append, Frame.appendAll_append]
  rfl

theorem mergeRec_step {W : World} {db1 : DB} {s : St} {m : MergeSt} {L : List (Record × Pos)}
    (hB : MBase W db1 s m) (hF : m.failed = none → ∃ gmc, MFull db1 s m L gmc)
    (fileId : Nat) (r : Record) (p : Pos) (hr : RecOK r) (hp : p.fid = fileId) :
    MBase W db1 (mergeRec s db1 m db1.activeId fileId (encodeRecord r) p).1
      (mergeRec s db1 m db1.activeId fileId (encodeRecord r) p).2 ∧
    ((mergeRec s db1 m db1.activeId fileId (encodeRecord r) p).2.failed = none →
      m.failed = none ∧ ∃ gmc', MFull db1 (mergeRec s db1 m db1.activeId fileId (encodeRecord r) p).1
        (mergeRec s db1 m db1.activeId fileId (encodeRecord r) p).2 (L ++ [(r, p)]) gmc') := by
  unfold mergeRec
  cases hfail : m.failed with
  | some e => simp only [Option.isSome_some, if_true]; exact ⟨hB, fun h => by rw [hfail] at h; cases h⟩
  | none =>
    simp only [Option.isSome_none, Bool.false_eq_true, if_false, hr.decode]
    obtain ⟨gmc, hfull⟩ := hF hfail
    -- the not-live outcome
    have hskip : isLive db1.index (r, p) = false → MBase W db1 s m ∧
        (m.failed = none → True ∧ ∃ gmc', MFull db1 s m (L ++ [(r, p)]) gmc') := by
      intro hl
      refine ⟨hB, fun _ => ⟨trivial, gmc, hfull.files, hfull.ids, ?_, hfull.hint, hfull.lt⟩⟩
      rw [List.filter_append, List.filter_cons_of_neg (by simp [hl]), List.filter_nil, List.append_nil]
      exact hfull.live
    cases hg : Index.get db1.index r.key with
    | none =>
      simp only []
      exact hskip (by unfold isLive; simp only [hg])
    | some q =>
      simp only []
      by_cases hc : q.fid = fileId ∧ q.off = p.off ∧ q.block = p.block
      · rw [if_pos hc]
        have hl : isLive db1.index (r, p) = true := by
          unfold isLive; simp only [hg, hp]; simpa using hc
        have hrp : RecOK (plainOf r) := RecOK_plainOf hr
        obtain ⟨g0, gf, g', hgm, hlt, hgrow, hfiles', hdb', ⟨bw, a, hmdb'⟩, hmeta'⟩ := appendLog_shape hfull.files (plainOf r) hrp
        have hA : appendLog s m.mdb { r with batch := 0 } = appendLog s m.mdb (plainOf r) := rfl
        rw [hA]
        generalize hres : appendLog s m.mdb (plainOf r) = res at *
        obtain ⟨s', mdb', npos⟩ := res
        simp only at hgrow hfiles' hdb' hmdb' hmeta' ⊢
        have hB' : ∀ (m' : MergeSt), m'.mdb = mdb' → MBase W db1 s' m' := by
          intro m' hm'
          refine ⟨by rw [hdb']; exact hB.db, ?_, by rw [hm', hmdb']; exact hB.mdir, ?_, ?_⟩
          · intro nm hnm
            have := appendLog_get_other s m.mdb (plainOf r) nm (by rw [hB.mdir]; exact hnm)
            rw [hres] at this
            simp only at this
            rw [this]; exact hB.frame nm hnm
          · rw [hB.mdir] at hmeta'; rw [hmeta']; exact hB.mmeta
          · obtain ⟨md, hmd, _⟩ := hfiles'.dir
            rw [hmdb'] at hmd
            exact ⟨md, by rw [← hB.mdir]; exact hmd⟩
        by_cases hge : mdb'.activeId ≥ db1.activeId
        · rw [if_pos hge]
          exact ⟨hB' _ rfl, fun h => by cases h⟩
        · rw [if_neg hge]
          refine ⟨hB' _ rfl, fun _ => ⟨trivial, g', ⟨hfiles', ?_, ?_, ?_, by simp only; omega⟩⟩⟩
          · -- ids
            simp only []
            have hids := hfull.ids
            rw [hgm] at hids
            rcases hgrow.ids with ⟨h1, h2⟩ | ⟨h1, h2⟩
            · rw [h1, hids, h2]
            · rw [h1, hids, h2, List.range_succ (n := m.mdb.activeId + 1)]
          · -- live
            obtain ⟨hlog, _, _⟩ := hgrow.log
            rw [hlog, ← hgm, List.map_append, hfull.live, List.filter_append,
              List.filter_cons_of_pos (by simp [hl]), List.filter_nil, List.map_append]
            rfl
          · -- hint
            obtain ⟨hlog, _, _⟩ := hgrow.log
            rw [← hgm] at hlog
            rw [hintBytes_grow hlog, hfull.hint]
            rfl
      · rw [if_neg hc]
        exact hskip (by
          unfold isLive; simp only [hg, hp]
          simpa using hc)

/-- the rewrite loop over the records of one file (already decoded: `xs`) -/
theorem mergeRec_fold {W : World} {db1 : DB} (fileId : Nat) (xs : List (Record × Pos)) :
    ∀ {s : St} {m : MergeSt} {L : List (Record × Pos)},
    MBase W db1 s m → (m.failed = none → ∃ gmc, MFull db1 s m L gmc) →
    (∀ x ∈ xs, RecOK x.1 ∧ x.2.fid = fileId) →
    MBase W db1
      ((xs.map (fun x => (encodeRecord x.1, x.2))).foldl (fun (acc : St × MergeSt) (x : ByteArray × Pos) =>
        mergeRec acc.1 db1 acc.2 db1.activeId fileId x.1 x.2) (s, m)).1
      ((xs.map (fun x => (encodeRecord x.1, x.2))).foldl (fun (acc : St × MergeSt) (x : ByteArray × Pos) =>
        mergeRec acc.1 db1 acc.2 db1.activeId fileId x.1 x.2) (s, m)).2 ∧
    (((xs.map (fun x => (encodeRecord x.1, x.2))).foldl (fun (acc : St × MergeSt) (x : ByteArray × Pos) =>
        mergeRec acc.1 db1 acc.2 db1.activeId fileId x.1 x.2) (s, m)).2.failed = none →
      m.failed = none ∧ ∃ gmc', MFull db1
        ((xs.map (fun x => (encodeRecord x.1, x.2))).foldl (fun (acc : St × MergeSt) (x : ByteArray × Pos) =>
          mergeRec acc.1 db1 acc.2 db1.activeId fileId x.1 x.2) (s, m)).1
        ((xs.map (fun x => (encodeRecord x.1, x.2))).foldl (fun (acc : St × MergeSt) (x : ByteArray × Pos) =>
          mergeRec acc.1 db1 acc.2 db1.activeId fileId x.1 x.2) (s, m)).2 (L ++ xs) gmc') := by
  induction xs with
  | nil =>
    intro s m L hB hF _
    simp only [List.map_nil, List.foldl_nil, List.append_nil]
    exact ⟨hB, fun h => ⟨h, hF h⟩⟩
  | cons x t ih =>
    intro s m L hB hF hx
    obtain ⟨hr, hp⟩ := hx x (by simp)
    obtain ⟨hB1, hF1⟩ := mergeRec_step hB hF fileId x.1 x.2 hr hp
    simp only [List.map_cons, List.foldl_cons]
    obtain ⟨hB2, hF2⟩ := ih hB1 (fun h => (hF1 h).2) (fun y hy => hx y (by simp [hy]))
    refine ⟨hB2, fun h => ?_⟩
    obtain ⟨h1, gmc', h2⟩ := hF2 h
    refine ⟨(hF1 h1).1, gmc', ?_⟩
    rw [List.append_assoc] at h2
    exact h2

/-- the body of `Merge`'s loop over the participating files -/
def mergeFile (db : DB) (nonMerge : Nat) (acc : St × MergeSt) (id : Nat) : St × MergeSt :=
  let (s, m) := acc
  if m.failed.isSome then (s, m) else
  match getFile (dirOf s db).data id with
  | none => (s, m)
  | some f =>
    let sc := scan C false id f.bytes
    let (s, m) := sc.recs.foldl (fun (acc : St × MergeSt) (x : ByteArray × Pos) =>
      mergeRec acc.1 db acc.2 nonMerge id x.1 x.2) (s, m)
    if !sc.ok ∧ m.failed.isNone then (s, { m with failed := some "crc" }) else (s, m)

theorem mergeFile_step {W : World} {db1 : DB} {s : St} {m : MergeSt} {L : List (Record × Pos)}
    (hB : MBase W db1 s m) (hF : m.failed = none → ∃ gmc, MFull db1 s m L gmc)
    {d1 : DirSt} (hd1 : W.get db1.dir = some d1) {g1 : GDir} (hmt : Matches d1.data g1) (hasc : AscIds g1)
    (hrecs : ∀ x ∈ g1, ∀ r ∈ x.2, RecOK r) (x : Nat × GFile) (hx : x ∈ g1) :
    MBase W db1 (mergeFile db1 db1.activeId (s, m) x.1).1 (mergeFile db1 db1.activeId (s, m) x.1).2 ∧
    ((mergeFile db1 db1.activeId (s, m) x.1).2.failed = none →
      m.failed = none ∧ ∃ gmc', MFull db1 (mergeFile db1 db1.activeId (s, m) x.1).1
        (mergeFile db1 db1.activeId (s, m) x.1).2 (L ++ logOf [x]) gmc') := by
  unfold mergeFile
  simp only []
  cases hfail : m.failed with
  | some e =>
    simp only [Option.isSome_some, if_true]
    exact ⟨hB, fun h => by rw [hfail] at h; cases h⟩
  | none =>
    simp only [Option.isSome_none, Bool.false_eq_true, if_false]
    have hdir : dirOf s db1 = d1 := by
      unfold dirOf
      rw [hB.frame db1.dir (mname_ne db1.dir).symm, hd1]; rfl
    obtain ⟨f, hf, hb⟩ := Matches_getFile hmt hasc (show (x.1, x.2) ∈ g1 from hx)
    rw [hdir, hf]
    simp only [hb]
    have hscan := scan_build C false x.1 (payloads x.2) (payloads_pos x.2)
    have hscan' : scan C false x.1 (bytesOf x.2) = { recs := (payloads x.2).zip (possOf x.1 x.2), validEnd := (bytesOf x.2).size, ok := true } := hscan
    rw [hscan']
    simp only []
    have hrecs' : (payloads x.2).zip (possOf x.1 x.2)
        = (x.2.zip (possOf x.1 x.2)).map (fun y => (encodeRecord y.1, y.2)) := by
      unfold payloads
      rw [List.zip_map_left]
      rfl
    rw [hrecs']
    have hxs : ∀ y ∈ x.2.zip (possOf x.1 x.2), RecOK y.1 ∧ y.2.fid = x.1 := by
      intro y hy
      exact ⟨hrecs x hx y.1 (List.of_mem_zip hy).1, posAll_fid C x.1 _ _ y.2 (List.of_mem_zip hy).2⟩
    obtain ⟨hB2, hF2⟩ := mergeRec_fold (W := W) (db1 := db1) x.1 (x.2.zip (possOf x.1 x.2)) hB hF hxs
    simp only [Bool.not_true, Bool.false_eq_true, false_and, if_false]
    rw [logOf_single]
    refine ⟨hB2, fun h => ?_⟩
    obtain ⟨_, h2⟩ := hF2 h
    exact ⟨trivial, h2⟩

theorem mergeFile_fold {W : World} {db1 : DB} {d1 : DirSt} (hd1 : W.get db1.dir = some d1) {g1 : GDir}
    (hmt : Matches d1.data g1) (hasc : AscIds g1) (hrecs : ∀ x ∈ g1, ∀ r ∈ x.2, RecOK r) (vis : GDir) :
    ∀ {s : St} {m : MergeSt} {L : List (Record × Pos)},
    MBase W db1 s m → (m.failed = none → ∃ gmc, MFull db1 s m L gmc) → (∀ x ∈ vis, x ∈ g1) →
    MBase W db1 ((vis.map (·.1)).foldl (mergeFile db1 db1.activeId) (s, m)).1
      ((vis.map (·.1)).foldl (mergeFile db1 db1.activeId) (s, m)).2 ∧
    (((vis.map (·.1)).foldl (mergeFile db1 db1.activeId) (s, m)).2.failed = none →
      m.failed = none ∧ ∃ gmc', MFull db1 ((vis.map (·.1)).foldl (mergeFile db1 db1.activeId) (s, m)).1
        ((vis.map (·.1)).foldl (mergeFile db1 db1.activeId) (s, m)).2 (L ++ logOf vis) gmc') := by
  induction vis with
  | nil =>
    intro s m L hB hF _
    simp only [List.map_nil, List.foldl_nil, logOf, List.flatMap_nil, List.append_nil]
    exact ⟨hB, fun h => ⟨h, hF h⟩⟩
  | cons x t ih =>
    intro s m L hB hF hx
    obtain ⟨hB1, hF1⟩ := mergeFile_step hB hF hd1 hmt hasc hrecs x (hx x (by simp))
    simp only [List.map_cons, List.foldl_cons]
    obtain ⟨hB2, hF2⟩ := ih (s := (mergeFile db1 db1.activeId (s, m) x.1).1) (m := (mergeFile db1 db1.activeId (s, m) x.1).2)
      hB1 (fun h => (hF1 h).2) (fun y hy => hx y (by simp [hy]))
    refine ⟨hB2, fun h => ?_⟩
    obtain ⟨h1, gmc', h2⟩ := hF2 h
    refine ⟨(hF1 h1).1, gmc', ?_⟩
    rw [List.append_assoc] at h2
    have e : logOf (x :: t) = logOf [x] ++ logOf t := by
      rw [logOf_single]; exact Restart.logOf_cons x t
    rw [e]
    exact h2

/-! ## `Merge` as a whole -/

def mergeIds (order : List Nat) (d : DirSt) (n : Nat) : List Nat :=
  order.filter (fun i => i < n ∧ (getFile d.data i).isSome)
    ++ (d.data.map (·.1)).filter (fun i => i < n ∧ !(order.filter (fun i => i < n ∧ (getFile d.data i).isSome)).contains i)

/-- the state when the rewrite loop starts: rotated, merge directory recreated with one empty file -/
def mergeStart (s : St) (db : DB) : St :=
  { world := ((rotate s db).1.world.remove (mergeDirName db.dir)).set (mergeDirName db.dir)
      { DirSt.empty with data := [(0, ⟨ByteArray.empty, 0⟩)] },
    db := some (rotate s db).2 }

def mergeM0 (db1 : DB) : MergeSt :=
  { mdb := { cfg := { db1.cfg with sync := 0 }, dir := mergeDirName db1.dir, activeId := 0, index := [],
             reclaim := 0, total := 0, bytesWrite := 0, batch := none },
    hint := ByteArray.empty, failed := none }

def mergeLoop (s : St) (db : DB) (order : List Nat) : St × MergeSt :=
  (mergeIds order (dirOf (mergeStart s db) (rotate s db).2) (rotate s db).2.activeId).foldl
    (mergeFile (rotate s db).2 (rotate s db).2.activeId) (mergeStart s db, mergeM0 (rotate s db).2)

def mergeFinish (db1 : DB) (res : St × MergeSt) : St × Res :=
  match res.2.failed with
  | some e => (res.1, .err e)
  | none =>
    let md := (res.1.world.get (mergeDirName db1.dir)).getD DirSt.empty
    (⟨res.1.world.set (mergeDirName db1.dir)
        ⟨syncAll md.data, some res.2.hint, some (markerBytes db1.activeId (res.2.mdb.activeId + 1)), md.locked⟩,
      res.1.db⟩, .ok)

theorem merge_eq {s : St} {db : DB} (hs : s.db = some db) (order : List Nat) :
    merge s order = mergeFinish (rotate s db).2 (mergeLoop s db order) := by
  unfold merge withDB
  rw [hs]
  rfl

end XixiKV.Engine.MergeP
